(* Gokrb5.proofs.Krb5ConfValues — the value parsers of krb5.conf: every documented boolean spelling and
   every documented duration format yields the documented value (for all component values in range and
   any surrounding white space), enctype names map to the registered numbers, and values after a final
   marker are ignored. *)
From Coq Require Import String.
From Gokrb5.lib Require Import Bytes GoString.
From Gokrb5.model Require Import Krb5Conf.
Open Scope Z_scope.

Definition all_space (a : bytes) : Prop := forallb is_space a = true.

(* ------------------------------------------------------------------ booleans *)
Definition bool_table : list (bytes * bool) :=
  [ (bs "true", true); (bs "false", false); (bs "yes", true); (bs "no", false);
    (bs "y", true); (bs "n", false); (bs "t", true); (bs "f", false); (bs "1", true); (bs "0", false);
    (bs "True", true); (bs "False", false); (bs "TRUE", true); (bs "FALSE", false); (bs "T", true); (bs "F", false);
    (bs "Yes", true); (bs "No", false); (bs "YES", true); (bs "NO", false); (bs "Y", true); (bs "N", false) ].

Theorem bool_spellings : forall sp v a b,
  In (sp, v) bool_table -> all_space a -> all_space b -> parse_boolean (a ++ sp ++ b) = Ok v.
Proof.
  intros sp v a b H Ha Hb. unfold parse_boolean.
  cbn in H.
  repeat (destruct H as [H|H];
          [inversion H; subst; rewrite trim_space_pad by (assumption || (split; reflexivity)); reflexivity|]).
  destruct H.
Qed.

Lemma lower_byte_inv c l : 97 <= l <= 122 -> lower_byte c = l -> c = l \/ c = l - 32.
Proof.
  unfold lower_byte. destruct ((65 <=? c) && (c <=? 90)) eqn:E; intros Hl H; [right|left]; lia.
Qed.

(* yes / no / y / n in any mixture of cases *)
Theorem bool_yes_no_any_case : forall s a b,
  all_space a -> all_space b ->
  (to_lower s = bs "yes" \/ to_lower s = bs "y" -> parse_boolean (a ++ s ++ b) = Ok true) /\
  (to_lower s = bs "no" \/ to_lower s = bs "n" -> parse_boolean (a ++ s ++ b) = Ok false).
Proof.
  intros s a b Ha Hb.
  assert (forall l, to_lower s = l -> Forall (fun x => 97 <= x <= 122) l ->
            Forall2 (fun c x => c = x \/ c = x - 32) s l) as K.
  { intros l <- Hf. unfold to_lower in *. induction s as [|c s IH]; cbn in *; constructor.
    - inversion Hf; subst. now apply lower_byte_inv.
    - inversion Hf; subst. now apply IH. }
  split; intros [H|H].
  all: specialize (K _ H ltac:(repeat constructor; cbv; intuition discriminate)); cbn in K.
  all: repeat match goal with
       | K : Forall2 _ _ (_ :: _) |- _ => inversion K; subst; clear K
       | K : Forall2 _ _ [] |- _ => inversion K; subst; clear K
       end.
  all: repeat match goal with H : _ \/ _ |- _ => destruct H end; subst.
  all: unfold parse_boolean; rewrite trim_space_pad by (assumption || (split; reflexivity)); reflexivity.
Qed.

Example bool_rejected :
  parse_boolean (bs "maybe") = Err invalid /\ parse_boolean (bs "") = Err invalid /\
  parse_boolean (bs "on") = Err invalid /\ parse_boolean (bs "TrUe") = Err invalid.
Proof. repeat split; vm_compute; reflexivity. Qed.

(* ------------------------------------------------------------------ durations *)
Definition digits (s : bytes) : Prop := s <> [] /\ forallb is_digit s = true.
Definition dval (s : bytes) : Z := digits_val 0 s.

Lemma digit_facts c : is_digit c = true ->
  is_space c = false /\ (c =? 32) = false /\ (c =? 100) = false /\ (c =? 46) = false /\ (c =? 43) = false /\
  (c =? 45) = false /\ (c =? 58) = false /\ ((0 <=? c) && (c <? 128)) = true.
Proof.
  unfold is_digit, is_space. rewrite andb_true_iff, !Z.leb_le. intros [H1 H2].
  repeat split; try (apply Z.eqb_neq; lia).
  - repeat (apply orb_false_iff; split); apply Z.eqb_neq; lia.
  - apply andb_true_iff; split; [apply Z.leb_le|apply Z.ltb_lt]; lia.
Qed.

(* a class of characters none of which is white space, 'd', '.', a sign or non-ASCII: digits, ':' and the
   unit letters h m s *)
Definition dur_char (c : Z) : bool := is_digit c || (c =? 58) || (c =? 104) || (c =? 109) || (c =? 115).

Lemma dur_char_facts c : dur_char c = true ->
  is_space c = false /\ (c =? 32) = false /\ (c =? 100) = false /\ (c =? 46) = false /\ (c =? 43) = false /\
  (c =? 45) = false /\ ((0 <=? c) && (c <? 128)) = true.
Proof.
  unfold dur_char, is_digit, is_space. rewrite !orb_true_iff, andb_true_iff, !Z.leb_le, !Z.eqb_eq.
  intros H.
  assert (48 <= c <= 58 \/ c = 104 \/ c = 109 \/ c = 115) as R by lia. clear H.
  repeat split; try (apply Z.eqb_neq; lia).
  - repeat (apply orb_false_iff; split); apply Z.eqb_neq; lia.
  - apply andb_true_iff; split; [apply Z.leb_le|apply Z.ltb_lt]; lia.
Qed.

Lemma forallb_imp {A} (p q : A -> bool) l : (forall x, p x = true -> q x = true) -> forallb p l = true -> forallb q l = true.
Proof. intros H. rewrite !forallb_forall. auto. Qed.

Lemma existsb_none {A} (p : A -> bool) q l : (forall x, q x = true -> p x = false) -> forallb q l = true -> existsb p l = false.
Proof.
  intros H F. induction l as [|x l IH]; [reflexivity|]. cbn in *.
  apply andb_true_iff in F; destruct F as [Fx F]. rewrite (H _ Fx), IH; auto.
Qed.

Section DurString.
  Variable s : bytes.
  Hypothesis Hs : forallb dur_char s = true.
  Hypothesis Hne : s <> [].

  Lemma dur_no_edge : no_edge_space s.
  Proof.
    split.
    - destruct s as [|c r]; [exact I|]. cbn in Hs. apply andb_true_iff in Hs. now apply dur_char_facts.
    - assert (forallb dur_char (rev s) = true) as R.
      { rewrite forallb_forall in *. intros x Hx. apply Hs. now apply in_rev. }
      destruct (rev s) as [|c r]; [exact I|]. cbn in R. apply andb_true_iff in R. now apply dur_char_facts.
  Qed.

  Lemma dur_remove_space : remove_byte 32 s = s.
  Proof.
    unfold remove_byte. clear Hne. induction s as [|c r IH]; [reflexivity|]. cbn in *.
    apply andb_true_iff in Hs. destruct Hs as [Hc Hr].
    destruct (dur_char_facts c Hc) as (_ & -> & _). cbn. now rewrite IH.
  Qed.

  Lemma dur_pad a b : all_space a -> all_space b -> remove_byte 32 (trim_space (a ++ s ++ b)) = s.
  Proof. intros Ha Hb. rewrite trim_space_pad by (assumption || apply dur_no_edge). apply dur_remove_space. Qed.

  Lemma dur_no_d : contains_byte 100 s = false.
  Proof. unfold contains_byte. apply existsb_none with (q := dur_char); [|exact Hs].
         intros x Hx. rewrite Z.eqb_sym. now apply dur_char_facts. Qed.
  Lemma dur_no_dot : contains_byte 46 s = false.
  Proof. unfold contains_byte. apply existsb_none with (q := dur_char); [|exact Hs].
         intros x Hx. rewrite Z.eqb_sym. now apply dur_char_facts. Qed.
  Lemma dur_ascii : is_ascii s = true.
  Proof. unfold is_ascii. apply forallb_imp with (p := dur_char); [|exact Hs]. intros x Hx. now apply dur_char_facts. Qed.
  Lemma dur_no_sign : has_prefix [43] s = false /\ has_prefix [45] s = false.
  Proof.
    destruct s as [|c r]; [congruence|]. cbn [forallb has_prefix] in *. apply andb_true_iff in Hs. destruct Hs as [Hc _].
    destruct (dur_char_facts c Hc) as (_ & _ & _ & _ & P & M & _).
    rewrite (Z.eqb_sym 43 c), (Z.eqb_sym 45 c), P, M. auto.
  Qed.

  (* on such a string go_parse_duration is the component loop *)
  Lemma go_parse_duration_dur : s <> [48] -> go_parse_duration s = pd_loop (length s) 0 s.
  Proof.
    intros H0. unfold go_parse_duration.
    rewrite dur_ascii, dur_no_dot. destruct dur_no_sign as [-> ->]. cbn [negb orb].
    destruct (beq_bytes s [48]) eqn:E; [apply beq_bytes_eq in E; congruence|].
    destruct s; [congruence|reflexivity].
  Qed.
End DurString.

Lemma digits_dur s : forallb is_digit s = true -> forallb dur_char s = true.
Proof. apply forallb_imp. intros x H. unfold dur_char. now rewrite H. Qed.

Lemma digits_val_app a b acc : digits_val acc (a ++ b) = digits_val (digits_val acc a) b.
Proof. revert acc; induction a as [|c a IH]; intros acc; cbn; [reflexivity|apply IH]. Qed.

Lemma digits_val_lower s : forallb is_digit s = true -> forall acc, 0 <= acc -> acc <= digits_val acc s.
Proof.
  induction s as [|c r IH]; intros H acc Ha; cbn in *; [lia|].
  apply andb_true_iff in H. destruct H as [Hc Hr]. unfold is_digit in Hc. rewrite andb_true_iff, !Z.leb_le in Hc.
  specialize (IH Hr (acc * 10 + (c - 48)) ltac:(lia)). lia.
Qed.

(* leadingInt on digits followed by a non-digit (or nothing): the value, no overflow below 2^62 *)
Lemma leading_int_digits ds : forallb is_digit ds = true -> forall x rest,
  0 <= x -> digits_val x ds < 2 ^ 62 ->
  match rest with [] => True | c :: _ => is_digit c = false end ->
  leading_int x (ds ++ rest) = Some (digits_val x ds, rest).
Proof.
  induction ds as [|c r IH]; intros H x rest Hx Hb Hrest.
  - cbn [app leading_int digits_val]. destruct rest as [|c rest]; [reflexivity|]. cbn [leading_int]. now rewrite Hrest.
  - cbn [forallb] in H. apply andb_true_iff in H. destruct H as [Hc Hr]. cbn [app leading_int digits_val]. rewrite Hc.
    cbn [digits_val] in Hb.
    assert (Hd : 0 <= c - 48 <= 9) by (unfold is_digit in Hc; rewrite andb_true_iff, !Z.leb_le in Hc; lia).
    pose proof (digits_val_lower r Hr (x * 10 + (c - 48)) ltac:(lia)) as L.
    assert (2 ^ 63 / 10 = 922337203685477580) as -> by reflexivity.
    assert (2 ^ 62 = 4611686018427387904) as E62 by reflexivity.
    assert (2 ^ 63 = 9223372036854775808) as E63 by reflexivity.
    destruct (Z.gtb_spec x 922337203685477580); [lia|].
    rewrite E63. destruct (Z.gtb_spec (x * 10 + (c - 48)) 9223372036854775808); [lia|].
    apply IH; auto; lia.
Qed.

(* --- format N: a number of seconds --- *)
Theorem duration_seconds : forall ds a b, digits ds -> all_space a -> all_space b ->
  0 < dval ds < 2 ^ 32 ->
  parse_duration (a ++ ds ++ b) = Ok (dval ds * second_ns).
Proof.
  intros ds a b [Hne Hd] Ha Hb Hv. unfold parse_duration.
  pose proof (digits_dur _ Hd) as Hc.
  rewrite (dur_pad ds Hc Hne a b Ha Hb). rewrite (dur_no_d ds Hc).
  assert (ds <> [48]) as H0 by (intros ->; unfold dval in Hv; cbn [digits_val] in Hv; lia).
  rewrite (go_parse_duration_dur ds Hc Hne H0).
  assert (pd_loop (length ds) 0 ds = DErr) as ->.
  { destruct ds as [|c r]; [congruence|]. cbn [length pd_loop].
    cbn [forallb] in Hd. apply andb_true_iff in Hd. destruct Hd as [Hdc Hdr]. rewrite Hdc. cbn [negb].
    pose proof (leading_int_digits (c :: r) ltac:(cbn; now rewrite Hdc) 0 [] ltac:(lia)) as L.
    rewrite app_nil_r in L. rewrite L; [reflexivity| |exact I].
    unfold dval in Hv. assert (2 ^ 32 < 2 ^ 62) by reflexivity. lia. }
  unfold parse_uint. destruct ds as [|c r]; [congruence|]. rewrite Hd.
  fold (dval (c :: r)). destruct (Z.ltb_spec (dval (c :: r)) (2 ^ 32)); [|lia].
  destruct (Z.ltb_spec 0 (dval (c :: r))); [reflexivity|lia].
Qed.

(* --- format h:m[:s] --- *)
Lemma digits_no_colon ds : forallb is_digit ds = true -> ~ In 58 ds.
Proof.
  rewrite forallb_forall. intros H Hin. specialize (H _ Hin). now destruct (digit_facts 58 H) as (_ & _ & _ & _ & _ & _ & E & _).
Qed.

Lemma parse_int16_digits ds : digits ds -> dval ds < 2 ^ 15 -> parse_int 16 ds = Some (dval ds).
Proof.
  intros [Hne Hd] Hv. unfold parse_int. destruct ds as [|c r]; [congruence|].
  cbn [forallb] in Hd. pose proof Hd as Hd'. apply andb_true_iff in Hd. destruct Hd as [Hc Hr].
  destruct (digit_facts c Hc) as (_ & _ & _ & _ & -> & -> & _).
  cbn [forallb]. rewrite Hd'. fold (dval (c :: r)).
  change (2 ^ (16 - 1)) with (2 ^ 15). destruct (Z.ltb_spec (dval (c :: r)) (2 ^ 15)); [reflexivity|lia].
Qed.

(* the h:m:s text is not a Go duration and not a number, so the colon branch is reached *)
Lemma colon_text_falls_through s ds rest :
  digits ds -> dval ds < 2 ^ 62 -> s = ds ++ 58 :: rest -> forallb dur_char s = true ->
  go_parse_duration s = DErr /\
  (match parse_uint 32 s with Some v => if 0 <? v then Some v else None | None => None end) = None.
Proof.
  intros [Hne Hd] Hv -> Hc. split.
  - rewrite go_parse_duration_dur; [|exact Hc|destruct ds; discriminate|].
    2:{ destruct ds as [|c [|c2 r]]; [congruence| |]; cbn; discriminate. }
    destruct ds as [|c r]; [congruence|]. cbn [app length pd_loop].
    cbn [forallb] in Hd. pose proof Hd as Hd'. apply andb_true_iff in Hd. destruct Hd as [Hdc Hdr]. rewrite Hdc. cbn [negb].
    change (c :: r ++ 58 :: rest) with ((c :: r) ++ 58 :: rest).
    rewrite (leading_int_digits (c :: r)); [|cbn; exact Hd'|lia|exact Hv|reflexivity].
    cbn [take_until is_digit]. change (is_digit 58) with false. cbn iota.
    (* the unit starts with ':' *)
    destruct (take_until is_digit rest); reflexivity.
  - unfold parse_uint. destruct (ds ++ 58 :: rest) eqn:E; [reflexivity|]. rewrite <- E.
    rewrite forallb_app. cbn [forallb]. change (is_digit 58) with false. cbn [andb].
    now rewrite andb_false_r.
Qed.

Theorem duration_h_m_s : forall dh dm dsec a b,
  digits dh -> digits dm -> digits dsec -> all_space a -> all_space b ->
  dval dh < 2 ^ 15 -> dval dm < 2 ^ 15 -> dval dsec < 2 ^ 15 ->
  parse_duration (a ++ (dh ++ 58 :: dm ++ 58 :: dsec) ++ b)
  = Ok (dval dh * hour_ns + dval dm * minute_ns + dval dsec * second_ns).
Proof.
  intros dh dm dsec a b Hh Hm Hs Ha Hb Vh Vm Vs.
  set (s := dh ++ 58 :: dm ++ 58 :: dsec).
  assert (Hc : forallb dur_char s = true).
  { unfold s. rewrite !forallb_app. cbn [forallb]. rewrite !forallb_app. cbn [forallb].
    rewrite (digits_dur _ (proj2 Hh)), (digits_dur _ (proj2 Hm)), (digits_dur _ (proj2 Hs)). reflexivity. }
  assert (Hsn : s <> []) by (unfold s; destruct dh; discriminate).
  unfold parse_duration. rewrite (dur_pad s Hc Hsn a b Ha Hb), (dur_no_d s Hc).
  assert (2 ^ 15 < 2 ^ 62) by reflexivity.
  destruct (colon_text_falls_through s dh (dm ++ 58 :: dsec) Hh ltac:(lia) eq_refl Hc) as [-> ->].
  assert (contains_byte 58 s = true) as ->.
  { apply contains_byte_in. unfold s. apply in_or_app. right. left. reflexivity. }
  unfold s. rewrite split_byte_app by (apply digits_no_colon, Hh).
  rewrite split_byte_app by (apply digits_no_colon, Hm).
  rewrite split_byte_no by (apply digits_no_colon, Hs).
  cbn [zlen length Z.of_nat Pos.of_succ_nat Pos.succ Z.ltb Z.compare Pos.compare Pos.compare_cont orb map_res].
  rewrite !parse_int16_digits by assumption. cbn. reflexivity.
Qed.

Theorem duration_h_m : forall dh dm a b,
  digits dh -> digits dm -> all_space a -> all_space b ->
  dval dh < 2 ^ 15 -> dval dm < 2 ^ 15 ->
  parse_duration (a ++ (dh ++ 58 :: dm) ++ b) = Ok (dval dh * hour_ns + dval dm * minute_ns).
Proof.
  intros dh dm a b Hh Hm Ha Hb Vh Vm.
  set (s := dh ++ 58 :: dm).
  assert (Hc : forallb dur_char s = true).
  { unfold s. rewrite !forallb_app. cbn [forallb].
    rewrite (digits_dur _ (proj2 Hh)), (digits_dur _ (proj2 Hm)). reflexivity. }
  assert (Hsn : s <> []) by (unfold s; destruct dh; discriminate).
  unfold parse_duration. rewrite (dur_pad s Hc Hsn a b Ha Hb), (dur_no_d s Hc).
  assert (2 ^ 15 < 2 ^ 62) by reflexivity.
  destruct (colon_text_falls_through s dh dm Hh ltac:(lia) eq_refl Hc) as [-> ->].
  assert (contains_byte 58 s = true) as ->.
  { apply contains_byte_in. unfold s. apply in_or_app. right. left. reflexivity. }
  unfold s. rewrite split_byte_app by (apply digits_no_colon, Hh).
  rewrite split_byte_no by (apply digits_no_colon, Hm).
  cbn [zlen length Z.of_nat Pos.of_succ_nat Pos.succ Z.ltb Z.compare Pos.compare Pos.compare_cont orb map_res].
  rewrite !parse_int16_digits by assumption. cbn. reflexivity.
Qed.

(* --- format NhNmNs (any of the components, in any order) and NdNhNmNs --- *)
(* a component: digits and a unit letter h / m / s *)
Definition unit_letter (u : Z) : option Z :=
  if u =? 104 then Some hour_ns else if u =? 109 then Some minute_ns else if u =? 115 then Some second_ns else None.

Fixpoint render_comps (l : list (bytes * Z)) : bytes :=
  match l with [] => [] | (ds, u) :: r => ds ++ u :: render_comps r end.
Fixpoint comps_value (l : list (bytes * Z)) : Z :=
  match l with
  | [] => 0
  | (ds, u) :: r => dval ds * match unit_letter u with Some x => x | None => 0 end + comps_value r
  end.
Definition comp_ok (c : bytes * Z) : Prop :=
  digits (fst c) /\ dval (fst c) < 2 ^ 40 /\ unit_letter (snd c) <> None.

Lemma unit_letter_facts u x : unit_letter u = Some x ->
  is_digit u = false /\ dur_char u = true /\ unit_ns [u] = Some x /\ 0 < x <= hour_ns.
Proof.
  unfold unit_letter.
  destruct (Z.eqb_spec u 104) as [->|]; [intros H; inversion H; subst; repeat split; try reflexivity; unfold hour_ns, minute_ns, second_ns; lia|].
  destruct (Z.eqb_spec u 109) as [->|]; [intros H; inversion H; subst; repeat split; try reflexivity; unfold hour_ns, minute_ns, second_ns; lia|].
  destruct (Z.eqb_spec u 115) as [->|]; [intros H; inversion H; subst; repeat split; try reflexivity; unfold hour_ns, minute_ns, second_ns; lia|].
  discriminate.
Qed.

Lemma render_comps_dur l : Forall comp_ok l -> forallb dur_char (render_comps l) = true.
Proof.
  induction 1 as [|[ds u] l [Hd [_ Hu]] _ IH]; [reflexivity|]. cbn in *.
  rewrite forallb_app. cbn [forallb]. rewrite (digits_dur _ (proj2 Hd)), IH.
  destruct (unit_letter u) as [x|] eqn:E; [|congruence].
  destruct (unit_letter_facts _ _ E) as (_ & -> & _). reflexivity.
Qed.

Lemma render_comps_head l : Forall comp_ok l ->
  match render_comps l with [] => True | c :: _ => is_digit c = true end.
Proof.
  destruct 1 as [|[ds u] l [[Hne Hd] _] _]; [exact I|]. cbn [fst snd render_comps] in *.
  destruct ds as [|c r]; [congruence|]. cbn [app forallb] in *. now apply andb_true_iff in Hd.
Qed.

Lemma take_until_unit u rest : is_digit u = false ->
  match rest with [] => True | c :: _ => is_digit c = true end ->
  take_until is_digit (u :: rest) = [u] /\ drop_while (fun b => negb (is_digit b)) (u :: rest) = rest.
Proof.
  intros Hu Hr. cbn. rewrite Hu. cbn. destruct rest as [|c rest]; [auto|]. cbn. rewrite Hr. auto.
Qed.

Lemma pd_loop_comps l : Forall comp_ok l -> forall fuel d,
  (length l <= fuel)%nat -> 0 <= d -> d + comps_value l < 2 ^ 62 ->
  pd_loop fuel d (render_comps l) = DOk (d + comps_value l).
Proof.
  induction 1 as [|[ds u] l Hc Hl IH]; intros fuel d Hf Hd Hb.
  - cbn [render_comps comps_value] in *. assert (2 ^ 62 < 2 ^ 63 - 1) by reflexivity.
    destruct fuel; cbn [pd_loop]; (destruct (Z.gtb_spec d (2 ^ 63 - 1)); [lia|]); now rewrite Z.add_0_r.
  - destruct Hc as [[Hne Hdg] [Hv Hu]]. cbn [fst snd] in *.
    destruct (unit_letter u) as [x|] eqn:E; [|congruence].
    destruct (unit_letter_facts _ _ E) as (Hud & _ & Hun & Hx).
    cbn [render_comps comps_value] in *. rewrite E in Hb. rewrite E.
    assert (Hcv : 0 <= comps_value l).
    { clear -Hl. induction Hl as [|[ds' u'] l' [[_ Hd'] _] _ IH']; cbn; [lia|].
      pose proof (digits_val_lower ds' Hd' 0 ltac:(lia)). unfold dval.
      destruct (unit_letter u') as [y|] eqn:E'; [|lia]. destruct (unit_letter_facts _ _ E') as (_ & _ & _ & Hy). nia. }
    pose proof (digits_val_lower ds Hdg 0 ltac:(lia)) as Hlow. fold (dval ds) in Hlow.
    destruct fuel as [|fuel]; [cbn in Hf; lia|].
    destruct ds as [|c r]; [congruence|]. cbn [app pd_loop].
    pose proof Hdg as Hdg'. cbn [forallb] in Hdg. apply andb_true_iff in Hdg. destruct Hdg as [Hdc Hdr]. rewrite Hdc. cbn [negb].
    change (c :: r ++ u :: render_comps l) with ((c :: r) ++ u :: render_comps l).
    assert (2 ^ 40 < 2 ^ 62) by reflexivity.
    rewrite (leading_int_digits (c :: r) Hdg' 0 (u :: render_comps l) ltac:(lia) ltac:(unfold dval in Hv; lia) Hud).
    destruct (take_until_unit u (render_comps l) Hud (render_comps_head l Hl)) as [-> ->].
    rewrite Hun. fold (dval (c :: r)).
    assert (hour_ns = 3600000000000) as EH by reflexivity.
    assert (2 ^ 62 = 4611686018427387904) as E62 by reflexivity.
    assert (2 ^ 63 = 9223372036854775808) as E63 by reflexivity.
    assert (2 ^ 40 = 1099511627776) as E40 by reflexivity.
    assert (dval (c :: r) <= 2 ^ 63 / x) as Q by (apply Z.div_le_lower_bound; nia).
    destruct (Z.gtb_spec (dval (c :: r)) (2 ^ 63 / x)); [lia|].
    destruct (Z.gtb_spec (d + dval (c :: r) * x) (2 ^ 63)); [nia|].
    rewrite IH; [f_equal; lia|cbn in Hf; lia|nia|lia].
Qed.

(* NhNmNs: any non-empty sequence of components *)
Theorem duration_units : forall l a b,
  l <> [] -> Forall comp_ok l -> all_space a -> all_space b -> comps_value l < 2 ^ 62 ->
  parse_duration (a ++ render_comps l ++ b) = Ok (comps_value l).
Proof.
  intros l a b Hne Hl Ha Hb Hv. unfold parse_duration.
  pose proof (render_comps_dur l Hl) as Hc.
  assert (render_comps l <> []) as Hn.
  { destruct l as [|[ds u] l]; [congruence|]. cbn. destruct ds; discriminate. }
  rewrite (dur_pad _ Hc Hn a b Ha Hb), (dur_no_d _ Hc).
  assert (render_comps l <> [48]) as H0.
  { destruct l as [|[ds u] l]; [congruence|]. cbn. inversion Hl as [|? ? [[Hd _] _] _]; subst. cbn in Hd.
    destruct ds as [|c [|c2 r]]; [congruence| |]; cbn; discriminate. }
  rewrite (go_parse_duration_dur _ Hc Hn H0).
  rewrite pd_loop_comps; [reflexivity|exact Hl| |lia|lia].
  clear -Hl. induction Hl as [|[ds u] l [[Hd _] _] _ IH]; cbn; [lia|]. rewrite app_length. cbn. cbn [fst] in Hd.
  destruct ds; [congruence|cbn; lia].
Qed.

(* NdNhNmNs: days followed by any (possibly empty) sequence of components; blanks between the day part and
   the rest are allowed as everywhere else *)
Theorem duration_days : forall dd l a b,
  digits dd -> dval dd < 2 ^ 32 -> Forall comp_ok l -> all_space a -> all_space b ->
  dval dd * 24 * hour_ns + comps_value l < 2 ^ 62 ->
  parse_duration (a ++ (dd ++ 100 :: render_comps l) ++ b) = Ok (dval dd * 24 * hour_ns + comps_value l).
Proof.
  intros dd l a b [Hdn Hdd] Hdv Hl Ha Hb Hv. unfold parse_duration.
  pose proof (render_comps_dur l Hl) as Hc.
  pose proof (digits_dur _ Hdd) as Hdc.
  (* white space: the text has no blank and no edge space *)
  assert (Hns : no_edge_space (dd ++ 100 :: render_comps l)).
  { split.
    - destruct dd as [|c r]; [congruence|]. cbn in *. apply andb_true_iff in Hdd. now apply digit_facts.
    - rewrite rev_app_distr. cbn [rev]. destruct (rev (render_comps l)) as [|c r] eqn:E; [reflexivity|].
      cbn. assert (In c (render_comps l)) by (apply in_rev; rewrite E; left; reflexivity).
      rewrite forallb_forall in Hc. now apply dur_char_facts, Hc. }
  rewrite trim_space_pad by assumption.
  assert (remove_byte 32 (dd ++ 100 :: render_comps l) = dd ++ 100 :: render_comps l) as ->.
  { unfold remove_byte. rewrite filter_app. cbn [filter]. change (negb (100 =? 32)) with true. cbn iota.
    fold (remove_byte 32 dd). fold (remove_byte 32 (render_comps l)).
    destruct l as [|x l'].
    - cbn. rewrite (dur_remove_space dd Hdc). reflexivity.
    - rewrite (dur_remove_space dd Hdc), (dur_remove_space _ Hc). reflexivity. }
  assert (contains_byte 100 (dd ++ 100 :: render_comps l) = true) as ->.
  { apply contains_byte_in, in_or_app. right; left; reflexivity. }
  assert (~ In 100 dd) as Hnd.
  { rewrite forallb_forall in Hdd. intros Hin. specialize (Hdd _ Hin). now destruct (digit_facts 100 Hdd) as (_ & _ & E & _). }
  change (splitn 100 2 (dd ++ 100 :: render_comps l)) with
    (match cut 100 (dd ++ 100 :: render_comps l) with None => [dd ++ 100 :: render_comps l] | Some (x, y) => x :: splitn 100 1 y end).
  rewrite cut_app by exact Hnd. cbn [splitn gindex Z.leb Z.compare Z.to_nat nth_error bind].
  cbn.
  unfold parse_uint. destruct dd as [|c r]; [congruence|]. rewrite Hdd. fold (dval (c :: r)).
  destruct (Z.ltb_spec (dval (c :: r)) (2 ^ 32)); [|lia].
  pose proof (digits_val_lower (c :: r) Hdd 0 ltac:(lia)) as Hlow. fold (dval (c :: r)) in Hlow.
  assert (Hcv : 0 <= comps_value l).
  { clear -Hl. induction Hl as [|[ds' u'] l' [[_ Hd'] _] _ IH']; cbn; [lia|].
    pose proof (digits_val_lower ds' Hd' 0 ltac:(lia)). unfold dval.
    destruct (unit_letter u') as [y|] eqn:E'; [|lia]. destruct (unit_letter_facts _ _ E') as (_ & _ & _ & Hy). nia. }
  assert (2 ^ 62 = 4611686018427387904) as E62 by reflexivity.
  assert (hour_ns = 3600000000000) as EH by reflexivity. rewrite EH in *.
  assert (Hs1 : sint 64 (dval (c :: r) * 24 * 3600000000000) = dval (c :: r) * 24 * 3600000000000)
    by (apply sint_small; [lia|]; change (2 ^ (64 - 1)) with 9223372036854775808; lia).
  rewrite Hs1. change (Pos.to_nat 1) with 1%nat. cbn [nth_error bind].
  destruct l as [|x l'].
  - cbn [render_comps comps_value]. f_equal. lia.
  - assert (render_comps (x :: l') <> []) as Hn by (destruct x as [ds u]; cbn; destruct ds; discriminate).
    assert (render_comps (x :: l') <> [48]) as H0.
    { destruct x as [ds u]. cbn. inversion Hl as [|? ? [[Hd _] _] _]; subst. cbn in Hd.
      destruct ds as [|c1 [|c2 r1]]; [congruence| |]; cbn; discriminate. }
    destruct (render_comps (x :: l')) as [|c0 r0] eqn:ER; [congruence|].
    rewrite (go_parse_duration_dur _ Hc Hn H0). rewrite <- ER.
    rewrite pd_loop_comps; [|exact Hl| |lia|lia].
    + f_equal. rewrite Z.add_0_l. apply sint_small; [lia|]. change (2 ^ (64 - 1)) with 9223372036854775808. lia.
    + clear -Hl. induction Hl as [|[ds u] l [[Hd _] _] _ IH]; cbn; [lia|]. rewrite app_length. cbn. cbn [fst] in Hd.
      destruct ds; [congruence|cbn; lia].
Qed.

(* the hypotheses are satisfiable, and the examples of MIT's documentation *)
Example duration_examples :
  parse_duration (bs " 3600 ") = Ok (3600 * second_ns) /\
  parse_duration (bs "36:00") = Ok (36 * hour_ns) /\
  parse_duration (bs "12:30:15") = Ok (12 * hour_ns + 30 * minute_ns + 15 * second_ns) /\
  parse_duration (bs "8h30s") = Ok (8 * hour_ns + 30 * second_ns) /\
  parse_duration (bs "1d 12h30m") = Ok (36 * hour_ns + 30 * minute_ns) /\
  parse_duration (bs "1d") = Ok (24 * hour_ns) /\
  parse_duration (bs "0") = Ok 0 /\
  parse_duration (bs "1x") = Err invalid /\
  parse_duration (bs "1.5h") = Err unmodelled.
Proof. repeat split; vm_compute; reflexivity. Qed.

Example duration_hypotheses_satisfiable :
  digits (bs "12") /\ dval (bs "12") = 12 /\
  Forall comp_ok [(bs "8", 104); (bs "30", 115)] /\ render_comps [(bs "8", 104); (bs "30", 115)] = bs "8h30s" /\
  comps_value [(bs "8", 104); (bs "30", 115)] = 8 * hour_ns + 30 * second_ns.
Proof.
  repeat split; try reflexivity; try discriminate.
  repeat constructor; cbn; try discriminate; reflexivity.
Qed.

(* ------------------------------------------------------------------ enctype lists *)
Lemma parse_etypes_app a b w : parse_etypes (a ++ b) w = parse_etypes a w ++ parse_etypes b w.
Proof.
  induction a as [|et a IH]; [reflexivity|]. cbn [app parse_etypes].
  destruct (negb w && existsb (beq_bytes et) weak_etypes); [exact IH|].
  destruct (etype_supported et =? 0); [exact IH|]. cbn. now rewrite IH.
Qed.

(* only identifiers of the six implemented enctypes are produced *)
Theorem parse_etypes_supported : forall names w,
  Forall (fun i => In i [17; 18; 19; 20; 16; 23]) (parse_etypes names w).
Proof.
  induction names as [|et r IH]; intros w; cbn [parse_etypes]; [constructor|].
  destruct (negb w && existsb (beq_bytes et) weak_etypes); [apply IH|].
  destruct (Z.eqb_spec (etype_supported et) 0) as [|Hne]; [apply IH|].
  constructor; [|apply IH].
  unfold etype_supported in *. destruct (lookup et etypes_by_name) as [id|]; [|congruence].
  destruct (existsb (Z.eqb id) [17; 18; 19; 20; 16; 23]) eqn:E; [|congruence].
  apply existsb_exists in E. destruct E as (x & Hin & Hx). apply Z.eqb_eq in Hx. now subst.
Qed.

(* the documented names of the implemented enctypes give the registered numbers, whatever
   allow_weak_crypto says; the weak and the unimplemented ones are dropped *)
Theorem parse_etypes_documented : forall w,
  parse_etypes [bs "aes256-cts-hmac-sha1-96"; bs "aes256-cts"; bs "aes256-sha1"] w = [18; 18; 18] /\
  parse_etypes [bs "aes128-cts-hmac-sha1-96"; bs "aes128-cts"; bs "aes128-sha1"] w = [17; 17; 17] /\
  parse_etypes [bs "aes128-cts-hmac-sha256-128"; bs "aes128-sha2"] w = [19; 19] /\
  parse_etypes [bs "aes256-cts-hmac-sha384-192"; bs "aes256-sha2"] w = [20; 20] /\
  parse_etypes [bs "arcfour-hmac"; bs "rc4-hmac"; bs "arcfour-hmac-md5"] w = [23; 23; 23] /\
  parse_etypes [bs "des3-cbc-sha1-kd"] w = [16] /\
  parse_etypes [bs "des-cbc-crc"; bs "des-cbc-md5"; bs "des-cbc-md4"; bs "des"; bs "arcfour-hmac-exp";
                bs "camellia256-cts-cmac"; bs "camellia128-cts-cmac"; bs "unknown"] w = [].
Proof. intros [|]; repeat split; vm_compute; reflexivity. Qed.

(* the default lists of newLibDefaults *)
Example parse_etypes_default : parse_etypes default_etypes false = [18; 17; 23].
Proof. vm_compute. reflexivity. Qed.

(* ------------------------------------------------------------------ final-value marker *)
Definition auf_fold (vals : list bytes) (st : list bytes * bool) : list bytes * bool :=
  fold_left (fun '(s, f) v => append_until_final s v f) vals st.

Definition marked (v : bytes) : Prop := exists r, v = r ++ [42].

Lemma auf_unmarked s v : ~ marked v -> append_until_final s v false = (s ++ [v], false).
Proof.
  intros H. unfold append_until_final. destruct (rev v) as [|c r] eqn:E; [reflexivity|].
  destruct (Z.eqb_spec c 42) as [->|Hc].
  - exfalso. apply H. exists (rev r). apply (f_equal (@rev Z)) in E. rewrite rev_involutive in E. exact E.
  - destruct c as [|p|p]; try reflexivity.
    do 6 (destruct p as [p|p|]; try reflexivity). congruence.
Qed.

Lemma auf_marked s r : append_until_final s (r ++ [42]) false = (s ++ [r], true).
Proof. unfold append_until_final. rewrite rev_app_distr. cbn. now rewrite rev_involutive. Qed.

Lemma auf_final_ignores vals : forall s, auf_fold vals (s, true) = (s, true).
Proof. induction vals as [|v vals IH]; intros s; [reflexivity|]. cbn. apply IH. Qed.

(* values up to and including the first one that carries the marker are kept (the marker is removed),
   every later value is ignored *)
Theorem append_until_final_spec : forall pre r post,
  Forall (fun v => ~ marked v) pre ->
  auf_fold (pre ++ (r ++ [42]) :: post) ([], false) = (pre ++ [r], true).
Proof.
  intros pre r post H.
  assert (forall s, auf_fold (pre ++ (r ++ [42]) :: post) (s, false) = (s ++ pre ++ [r], true)) as K.
  { induction H as [|v pre Hv _ IH]; intros s.
    - cbn [app auf_fold fold_left]. rewrite auf_marked. apply auf_final_ignores.
    - cbn [app auf_fold fold_left]. rewrite (auf_unmarked s v Hv). unfold auf_fold in IH. rewrite IH.
      now rewrite <- app_assoc. }
  apply K.
Qed.

Theorem append_until_final_no_marker : forall vals,
  Forall (fun v => ~ marked v) vals -> auf_fold vals ([], false) = (vals, false).
Proof.
  intros vals H.
  assert (forall s, auf_fold vals (s, false) = (s ++ vals, false)) as K.
  { induction H as [|v vals Hv _ IH]; intros s; cbn [auf_fold fold_left].
    - now rewrite app_nil_r.
    - rewrite (auf_unmarked s v Hv). unfold auf_fold in IH. rewrite IH. now rewrite <- app_assoc. }
  apply K.
Qed.

Example append_until_final_example :
  auf_fold [bs "k1:88"; bs "k2:88*"; bs "k3:88"; bs "k4:88*"] ([], false) = ([bs "k1:88"; bs "k2:88"], true) /\
  ~ marked (bs "k1:88") /\ marked (bs "k2:88*").
Proof.
  split; [vm_compute; reflexivity|]. split.
  - intros [r E]. apply (f_equal (@rev Z)) in E. rewrite rev_app_distr in E. cbn in E. discriminate.
  - exists (bs "k2:88"). reflexivity.
Qed.

(* kdc relations without a port get :88, with or without the marker *)
Example kdc_default_port_examples :
  kdc_default_port (bs "kdc.example.com") = bs "kdc.example.com:88" /\
  kdc_default_port (bs "kdc.example.com*") = bs "kdc.example.com:88*" /\
  kdc_default_port (bs "kdc.example.com *") = bs "kdc.example.com:88*" /\
  kdc_default_port (bs "kdc.example.com:750") = bs "kdc.example.com:750".
Proof. repeat split; vm_compute; reflexivity. Qed.
