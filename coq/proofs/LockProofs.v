(* Soundness of the lockset checker: under the mutual-exclusion semantics of sync.RWMutex, two threads can
   never be simultaneously at two conflicting accesses that the checker declared ordered. *)
From Coq Require Import String List Bool.
Import ListNotations.
From Gokrb5.model Require Import LockModel.
Open Scope string_scope.

Section Sound.
  Variable thread : Type.
  (* holds t l = Some w: thread t currently holds lock l, in write mode iff w *)
  Variable holds : thread -> string -> option bool.

  (* the semantics of sync.RWMutex (an invariant of the Go runtime, assumed): two different threads hold the
     same lock only if both hold it in read mode *)
  Definition rwmutex_invariant : Prop :=
    forall t1 t2 l m1 m2, t1 <> t2 -> holds t1 l = Some m1 -> holds t2 l = Some m2 -> m1 = false /\ m2 = false.

  (* thread t is at access a: it holds every lock the access model says is held there, at least in that mode *)
  Definition at_access (t : thread) (a : access) : Prop :=
    forall l w, In (l, w) (a_locks a) -> exists m, holds t l = Some m /\ (w = true -> m = true).

  Theorem ordered_pairs_never_race t1 t2 a b :
    rwmutex_invariant -> t1 <> t2 ->
    conflict a b = true -> ordered_by a b = true ->
    at_access t1 a -> at_access t2 b -> False.
  Proof.
    intros Inv Hne Hc Ho Ha Hb.
    unfold ordered_by in Ho. apply existsb_exists in Ho. destruct Ho as ([l wa] & Hla & Ho).
    apply existsb_exists in Ho. destruct Ho as ([l' wb] & Hlb & Ho).
    cbn [fst snd] in Ho. apply andb_true_iff in Ho. destruct Ho as [Ho Hwb].
    apply andb_true_iff in Ho. destruct Ho as [El Hwa]. apply String.eqb_eq in El. subst l'.
    destruct (Ha l wa Hla) as (m1 & H1 & M1). destruct (Hb l wb Hlb) as (m2 & H2 & M2).
    destruct (Inv t1 t2 l m1 m2 Hne H1 H2) as [-> ->].
    unfold conflict in Hc. apply andb_true_iff in Hc. destruct Hc as [_ Hw].
    apply orb_true_iff in Hw. destruct Hw as [Hw|Hw].
    - rewrite Hw in Hwa. cbn in Hwa. subst wa. specialize (M1 eq_refl). discriminate.
    - rewrite Hw in Hwb. cbn in Hwb. subst wb. specialize (M2 eq_refl). discriminate.
  Qed.

  (* lifted to a whole access model: the only fields on which two threads can race are the listed exceptions *)
  Theorem race_free_sound except accs t1 t2 a b :
    race_free_except except accs = true ->
    rwmutex_invariant -> t1 <> t2 -> In a accs -> In b accs ->
    conflict a b = true -> at_access t1 a -> at_access t2 b ->
    mem (a_field a) except = true.
  Proof.
    intros Hrf Inv Hne Hina Hinb Hc Ha Hb.
    unfold race_free_except in Hrf. rewrite forallb_forall in Hrf. specialize (Hrf a Hina).
    rewrite forallb_forall in Hrf. specialize (Hrf b Hinb). unfold pair_ok in Hrf.
    rewrite Hc in Hrf. cbn [negb orb] in Hrf. apply orb_true_iff in Hrf. destruct Hrf as [Ho|He]; [|exact He].
    exfalso. eapply ordered_pairs_never_race; eauto.
  Qed.
End Sound.

(* the checker does reject an unprotected write (non-vacuity) *)
Example checker_rejects_unlocked_write :
  race_free_except [] [mkAccess "f" "T.x" true []; mkAccess "g" "T.x" false [("T.mux", false)]] = false /\
  race_free_except [] [mkAccess "f" "T.x" true [("T.mux", true)]; mkAccess "g" "T.x" false [("T.mux", false)]] = true /\
  race_free_except [] [mkAccess "f" "T.x" true [("T.mux", false)]; mkAccess "g" "T.x" false [("T.mux", false)]] = false.
Proof. repeat split. Qed.
