(* An authenticator is accepted at most once while it remains acceptable; no false positives. *)
From Gokrb5.lib Require Import Bytes JV.
From Gokrb5.model Require Import Replay.

Lemma names_eqb_eq a b : names_eqb a b = true <-> a = b.
Proof.
  revert b; induction a as [|x a IH]; intros [|y b]; cbn; try (split; congruence).
  rewrite andb_true_iff, beq_bytes_eq, IH. split; [intros [-> ->]; reflexivity|intros H; inversion H; auto].
Qed.

Lemma auth_eqb_eq a b : auth_eqb a b = true <-> a = b.
Proof.
  unfold auth_eqb. rewrite !andb_true_iff, beq_bytes_eq, Z.eqb_eq, names_eqb_eq.
  destruct a, b; cbn. split; [intros [[-> ->] ->]; reflexivity|intros H; inversion H; auto].
Qed.

Lemma existsb_auth a c : existsb (auth_eqb a) c = true <-> In a c.
Proof.
  rewrite existsb_exists. split.
  - intros (x & Hx & E). apply auth_eqb_eq in E. now subst.
  - intros H. exists a. split; [exact H|now apply auth_eqb_eq].
Qed.

Definition nonneg_advances (ops : list op) : Prop :=
  Forall (fun o => match o with Advance dt => 0 <= dt | _ => True end) ops.

Lemma step_now_mono d s o : (match o with Advance dt => 0 <= dt | _ => True end) -> now s <= now (fst (step d s o)).
Proof.
  destruct o as [a| |dt]; cbn; intros H.
  - destruct (negb (acceptable d (now s) a)); cbn; [lia|]. destruct (existsb _ _); cbn; lia.
  - lia.
  - lia.
Qed.

Lemma run_now_mono d ops : forall s, nonneg_advances ops -> now s <= now (fst (run d s ops)).
Proof.
  induction ops as [|o r IH]; intros s H; cbn [run]; [cbn; lia|].
  inversion H as [|? ? Ho Hr]; subst.
  pose proof (step_now_mono d s o Ho) as M1.
  destruct (step d s o) as [s1 v] eqn:E1. specialize (IH s1 Hr).
  destruct (run d s1 r) as [s2 vs] eqn:E2. cbn in *. lia.
Qed.

(* an entry stays in the cache for as long as its client time is not older than the skew *)
Lemma step_keeps d s o e :
  In e (cache s) -> (match o with Advance dt => 0 <= dt | _ => True end) ->
  now (fst (step d s o)) - a_ct e <= d -> In e (cache (fst (step d s o))).
Proof.
  intros Hin Ho Hd. destruct o as [a| |dt]; cbn in *.
  - destruct (negb (acceptable d (now s) a)); cbn; [exact Hin|].
    destruct (existsb _ _); cbn; [exact Hin|right; exact Hin].
  - apply filter_In. split; [exact Hin|]. destruct (Z.ltb_spec d (now s - a_ct e)); [lia|reflexivity].
  - exact Hin.
Qed.

Lemma run_keeps d ops : forall s e,
  In e (cache s) -> nonneg_advances ops ->
  now (fst (run d s ops)) - a_ct e <= d -> In e (cache (fst (run d s ops))).
Proof.
  induction ops as [|o r IH]; intros s e Hin H Hd; cbn [run] in *; [exact Hin|].
  inversion H as [|? ? Ho Hr]; subst.
  pose proof (step_keeps d s o e Hin Ho) as K.
  destruct (step d s o) as [s1 v] eqn:E1. cbn [fst] in K.
  pose proof (run_now_mono d r s1 Hr) as M.
  destruct (run d s1 r) as [s2 vs] eqn:E2. cbn [fst] in *.
  specialize (IH s1 e). rewrite E2 in IH. cbn [fst] in IH. apply IH; [apply K; lia|exact Hr|exact Hd].
Qed.

(* Headline: once accepted, every later presentation is a replay while the timestamp still passes the skew
   check, whatever is presented, cleared or how far the clock advances in between. *)
Theorem replay_at_most_once d s1 a s2 ops s3 vs s4 v :
  step d s1 (Present a) = (s2, VAccept) ->
  nonneg_advances ops -> run d s2 ops = (s3, vs) ->
  step d s3 (Present a) = (s4, v) ->
  v = VReplay \/ (v = VSkew /\ d < Z.abs (now s3 - a_ct a)).
Proof.
  intros E1 Hops E2 E3.
  assert (In a (cache s2)) as Hin.
  { cbn in E1. destruct (negb (acceptable d (now s1) a)); [discriminate|].
    destruct (existsb _ _); [discriminate|]. injection E1 as <-. cbn. left; reflexivity. }
  cbn in E3. unfold acceptable in E3.
  destruct (Z.ltb_spec d (Z.abs (now s3 - a_ct a))) as [Hsk|Hok]; cbn [negb] in E3.
  - injection E3 as _ <-. right. split; [reflexivity|exact Hsk].
  - assert (In a (cache s3)) as Hin3.
    { pose proof (run_keeps d ops s2 a Hin Hops) as K. rewrite E2 in K. cbn [fst] in K. apply K. lia. }
    apply existsb_auth in Hin3. rewrite Hin3 in E3. injection E3 as _ <-. left; reflexivity.
Qed.

(* No false positive: a replay verdict means the very same (client, client time, service) was accepted before. *)
Fixpoint accepted (d : Z) (s : state) (ops : list op) : list auth :=
  match ops with
  | [] => []
  | o :: r => let '(s1, v) := step d s o in
              match o, v with
              | Present a, VAccept => a :: accepted d s1 r
              | _, _ => accepted d s1 r
              end
  end.

Lemma step_cache_sub d s o e :
  In e (cache (fst (step d s o))) -> In e (cache s) \/ (exists a, o = Present a /\ e = a /\ snd (step d s o) = VAccept).
Proof.
  destruct o as [a| |dt]; cbn.
  - destruct (negb (acceptable d (now s) a)); cbn; [auto|].
    destruct (existsb _ _); cbn; [auto|]. intros [<-|H]; [right; eauto|auto].
  - intros H. apply filter_In in H. left; apply H.
  - auto.
Qed.

Lemma run_cache_from_accepted d ops : forall s e,
  In e (cache (fst (run d s ops))) -> In e (cache s) \/ In e (accepted d s ops).
Proof.
  induction ops as [|o r IH]; intros s e H; cbn [run accepted] in *; [left; exact H|].
  pose proof (step_cache_sub d s o e) as S.
  destruct (step d s o) as [s1 v] eqn:E1. cbn [fst snd] in *.
  destruct (run d s1 r) as [s2 vs] eqn:E2. cbn [fst] in H.
  specialize (IH s1 e). rewrite E2 in IH. cbn [fst] in IH. destruct (IH H) as [H1|H1].
  - destruct (S H1) as [H0|(a & -> & -> & ->)]; [left; exact H0|right; left; reflexivity].
  - right. destruct o as [a| |dt]; try exact H1. destruct v; try exact H1. right; exact H1.
Qed.

Theorem replay_no_false_positive d ops s vs a s' :
  run d init ops = (s, vs) -> step d s (Present a) = (s', VReplay) -> In a (accepted d init ops).
Proof.
  intros E1 E2. cbn in E2. destruct (negb (acceptable d (now s) a)); [discriminate|].
  destruct (existsb (auth_eqb a) (cache s)) eqn:Ex; [|discriminate].
  apply existsb_auth in Ex.
  pose proof (run_cache_from_accepted d ops init a) as R. rewrite E1 in R. cbn [fst] in R.
  destruct (R Ex) as [[]|H]; exact H.
Qed.

(* authenticators differing in client name, client time or service are independent *)
Corollary distinct_keys_independent d s a b :
  a <> b -> In a (cache s) <-> In a (cache (fst (step d s (Present b)))).
Proof.
  intros Hne. cbn. destruct (negb (acceptable d (now s) b)); cbn; [tauto|].
  destruct (existsb _ _); cbn; [tauto|]. split; [auto|intros [E|H]; [congruence|exact H]].
Qed.

(* n presentations of one acceptable authenticator in any order (the lock makes each atomic): one accept *)
Fixpoint count_accept (vs : list verdict) : nat :=
  match vs with [] => O | VAccept :: r => S (count_accept r) | _ :: r => count_accept r end.

Lemma present_again d a : forall n s, In a (cache s) ->
  count_accept (snd (run d s (repeat (Present a) n))) = O.
Proof.
  induction n as [|n IH]; intros s Hin; cbn [repeat run]; [reflexivity|].
  cbn [step]. destruct (negb (acceptable d (now s) a)).
  - specialize (IH s Hin). destruct (run d s (repeat (Present a) n)). cbn in *. exact IH.
  - apply existsb_auth in Hin. rewrite Hin. apply existsb_auth in Hin.
    specialize (IH s Hin). destruct (run d s (repeat (Present a) n)). cbn in *. exact IH.
Qed.

Theorem concurrent_same_authenticator_once d a n s :
  (count_accept (snd (run d s (repeat (Present a) n))) <= 1)%nat.
Proof.
  destruct n as [|n]; cbn [repeat run]; [cbn; lia|].
  cbn [step]. destruct (negb (acceptable d (now s) a)) eqn:Ea.
  - (* not acceptable: never accepted, state unchanged *)
    assert (forall m, count_accept (snd (run d s (repeat (Present a) m))) = O) as Z0.
    { induction m as [|m IHm]; cbn [repeat run]; [reflexivity|]. cbn [step]. rewrite Ea.
      destruct (run d s (repeat (Present a) m)). cbn in *. exact IHm. }
    specialize (Z0 n). destruct (run d s (repeat (Present a) n)). cbn in *. lia.
  - destruct (existsb (auth_eqb a) (cache s)) eqn:Ex.
    + apply existsb_auth in Ex. pose proof (present_again d a n s Ex) as P.
      destruct (run d s (repeat (Present a) n)). cbn in *. lia.
    + pose proof (present_again d a n (mkState (now s) (a :: cache s)) (or_introl eq_refl)) as P.
      destruct (run d (mkState (now s) (a :: cache s)) (repeat (Present a) n)). cbn in *. lia.
Qed.

(* non-vacuity: accept, then replay late in the window after a clean-up, then skew *)
Example replay_example :
  let a := mkAuth [97] 250 [[72]; [104]] in
  snd (run 300 init [Present a; Advance 400; Clear; Present a; Advance 200; Present a])
  = [VAccept; VNone; VNone; VReplay; VNone; VSkew].
Proof. reflexivity. Qed.
