(* Gokrb5.proofs.KDCRepBytesProofs — bytes mode of C09 (model/KDCRepBytes.v).

   (a) REFINEMENT.  When the wire is the DER encoding of a well-formed KDC-REP value (RFC 4120 schema rfc_ASRep /
       rfc_TGSRep of C13) and its encrypted part decrypts to the DER encoding of the sealed fields er, the verdict
       computed from the bytes equals the verdict of the sealed-content model (KDCRep.v with the decoder
       "fun _ => Some er", which is what the C09 stream runs): asrep_bytes_refines, tgsrep_bytes_refines,
       with dec_enc_der_inject (the decoder of the decrypted part reads back inject_enc_rep er, under either
       APPLICATION tag and whatever follows the value) and parse_kdc_rep_encode.
   (b) THE UNSEALED FIELDS THAT MATTER, exactly.  AS: cname, crealm, enc-part etype / kvno / cipher and the padata
       hints; TGS: cname, the ticket's realm and the enc-part cipher.  Two wires whose parsed replies agree on these
       get the same verdict (asrep_bytes_unsealed_fields, tgsrep_bytes_unsealed_fields); at the level of reply
       values: pvno and the ticket (AS), pvno, padata, crealm, the ticket's other fields, enc-part etype and kvno
       (TGS) can be replaced freely (asrep_ignores_pvno_and_ticket, tgsrep_ignores_unchecked_fields).  That each
       listed field does matter is shown on a concrete exchange with the real cipher (Examples at the end).
   (c) PARSE FAILURE NEVER ACCEPTS, and acceptance from bytes is acceptance of the parsed reply in the sense of
       C09's as_valid / tgs_valid with the DER decoder in the place of the abstract one
       (asrep_bytes_accept_iff, tgsrep_bytes_accept_iff); the encoding of any message under another
       APPLICATION tag (the other kind of reply, KRB-ERROR, ...) is rejected (asrep_rejects_other_application). *)
From Coq Require Import ZifyBool.
From Gokrb5.lib Require Import Bytes JV.
From Gokrb5.model Require Import Keytab Crypto PAData Replay APReq KDCRep Schema DER DERCodec RFCSchemas KDCRepBytes.
From Gokrb5.proofs Require Import DERBasic DERProofs ReplayProofs APReqProofs KDCRepProofs KDCRepBytesDec.

(* ================= (a) refinement ================= *)

(* ---- the sealed part ---- *)
(* the fields of EncKDCRepPart that enc_rep does not carry *)
Record enc_extra := mkExtra {
  x_key : value; x_lastreq : value; x_keyexp : option value; x_endtime : value; x_renew : option value;
  x_sname_type : Z; x_epa : option value }.

Definition inject_addr (a : Z * bytes) : value := VSeq [Some (VInt (fst a)); Some (VBytes (snd a))].

Definition inject_enc_rep (x : enc_extra) (er : enc_rep) : value :=
  VSeq [Some (x_key x); Some (x_lastreq x); Some (VInt (er_nonce er)); x_keyexp x;
        Some (VBits 0 (er_flags er)); Some (VTime (er_authtime er)); option_map VTime (er_start er);
        Some (x_endtime x); x_renew x; Some (VBytes (er_srealm er));
        Some (VSeq [Some (VInt (x_sname_type x)); Some (VList (map VBytes (er_sname er)))]);
        (match er_caddr er with [] => None | l => Some (VList (map inject_addr l)) end);
        x_epa x].

(* well-formedness of the injected value, as a computable predicate: schema (strings and keys are octets, times
   are in 0001..9999, flags are whole octets), Go ranges (nonce fits int64, ...), size below 2^31 *)
Definition wf_enc_inj (n : Z) (x : enc_extra) (er : enc_rep) : bool :=
  let v := inject_enc_rep x er in
  wf_val rfc_EncKDCRepPart v && gowf g_EncKDCRepPart v && (zlen (enc (TApp n rfc_EncKDCRepPart) v) <? 2 ^ 31).

Lemma map_opt_v_bytes l : map_opt v_bytes (map VBytes l) = Some l.
Proof. induction l as [|a l IH]; [reflexivity|]. cbn [map map_opt v_bytes]. rewrite IH. reflexivity. Qed.

Lemma map_opt_v_addr l : map_opt v_addr (map inject_addr l) = Some l.
Proof.
  induction l as [|[t a] l IH]; [reflexivity|]. cbn [map map_opt v_addr inject_addr fst snd]. rewrite IH. reflexivity.
Qed.

Lemma project_inject x er : project_enc (inject_enc_rep x er) = Some er.
Proof.
  destruct er as [nonce sn srealm ca auth st fl]. unfold inject_enc_rep, project_enc.
  cbn [er_nonce er_sname er_srealm er_caddr er_authtime er_start er_flags].
  assert (Hn : v_names (Some (VSeq [Some (VInt (x_sname_type x)); Some (VList (map VBytes sn))])) = Some sn).
  { cbn [v_names]. apply map_opt_v_bytes. }
  assert (Ha : v_addrs (match ca with [] => None | a :: l => Some (VList (map inject_addr (a :: l))) end) = Some ca).
  { destruct ca as [|a ca]; [reflexivity|]. unfold v_addrs. apply map_opt_v_addr. }
  assert (Ht : v_opt_time (option_map VTime st) = Some st) by (destruct st; reflexivity).
  rewrite Hn, Ha, Ht. reflexivity.
Qed.

Lemma enc_nonempty t v : wf_val t v = true -> enc t v <> [].
Proof. intros H. destruct (enc_head t v H) as (x & r & E & _). rewrite E. discriminate. Qed.

(* the decoder of the decrypted part reads back what was sealed: under APPLICATION 25 or 26, and whatever octets
   follow the value (the zero padding of des3-cbc, for instance) *)
Theorem dec_enc_der_inject n x er b pad :
  n = 25 \/ n = 26 -> wf_enc_inj n x er = true ->
  encode (TApp n rfc_EncKDCRepPart) (inject_enc_rep x er) = Some b ->
  dec_enc_der (b ++ pad) = Some er.
Proof.
  intros Hn Hwf He. apply encode_some in He. destruct He as [_ ->].
  unfold wf_enc_inj in Hwf. apply andb_true_iff in Hwf. destruct Hwf as [Hwf Hs].
  apply andb_true_iff in Hwf. destruct Hwf as [Hw Hg]. apply Z.ltb_lt in Hs.
  rewrite <- erase_EncKDCRepPart in *. unfold dec_enc_der. destruct Hn as [-> | ->].
  - rewrite go_unmarshal_app_encode; auto; [apply project_inject | lia].
  - assert (E25 : go_unmarshal_app 25 g_EncKDCRepPart
                    (enc (TApp 26 (erase g_EncKDCRepPart)) (inject_enc_rep x er) ++ pad) = None).
    { cbn [enc]. apply go_unmarshal_app_other_tag; try lia; try reflexivity.
      - apply enc_nonempty, Hw.
      - cbn [enc] in Hs. pose proof (zlen_tlv (ident 1 true 26) (enc (erase g_EncKDCRepPart) (inject_enc_rep x er))). lia. }
    rewrite E25. rewrite go_unmarshal_app_encode; auto; [apply project_inject | lia].
Qed.

(* ---- the cleartext part ---- *)
Definition wf_rep_val (app : Z) (v : value) : bool :=
  wf_val rfc_KDCRep v && gowf g_KDCRep v
  && (match v_msg_type v with Some mt => mt =? app | None => false end)
  && (zlen (enc (TApp app rfc_KDCRep) v) <? 2 ^ 31).

Theorem parse_kdc_rep_encode app v w trailing :
  0 <= app < 31 -> wf_rep_val app v = true -> encode (TApp app rfc_KDCRep) v = Some w ->
  parse_kdc_rep app (w ++ trailing) = project_rep v.
Proof.
  intros Ha Hwf He. apply encode_some in He. destruct He as [_ ->].
  unfold wf_rep_val in Hwf.
  apply andb_true_iff in Hwf. destruct Hwf as [Hwf Hs]. apply Z.ltb_lt in Hs.
  apply andb_true_iff in Hwf. destruct Hwf as [Hwf Hm].
  apply andb_true_iff in Hwf. destruct Hwf as [Hw Hg].
  rewrite <- erase_KDCRep in *. unfold parse_kdc_rep.
  rewrite go_unmarshal_app_encode; auto.
  destruct (v_msg_type v) as [mt|]; [|discriminate]. rewrite Hm. reflexivity.
Qed.

(* every well-formed reply value has a cleartext projection *)
Lemma names_total l : forallb (wf_val TGenStr) l = true -> exists ns, map_opt v_bytes l = Some ns.
Proof.
  induction l as [|a l IH]; intros H; [eexists; reflexivity|]. cbn [forallb] in H.
  apply andb_true_iff in H. destruct H as [Ha Hl]. destruct (IH Hl) as (ns & E).
  destruct a; cbn [wf_val] in Ha; try discriminate. cbn [map_opt v_bytes]. rewrite E. eexists; reflexivity.
Qed.

Lemma hints_total l : forallb (wf_val rfc_PAData) l = true -> exists hs, map_opt v_hint l = Some hs.
Proof.
  induction l as [|a l IH]; intros H; [eexists; reflexivity|]. cbn [forallb] in H.
  apply andb_true_iff in H. destruct H as [Ha Hl]. destruct (IH Hl) as (hs & E).
  cbn [map_opt]. rewrite E.
  destruct a; try discriminate. unfold rfc_PAData, req in Ha. cbn [wf_val] in Ha.
  destruct fs as [|[f0|] fs]; try discriminate.
  rewrite wf_fields_cons in Ha. apply andb_true_iff in Ha. destruct Ha as [H0 Ha].
  destruct f0; cbn [wf_val] in H0; try discriminate.
  destruct fs as [|[f1|] fs]; try discriminate.
  rewrite wf_fields_cons in Ha. apply andb_true_iff in Ha. destruct Ha as [H1 Ha].
  destruct f1; cbn [wf_val] in H1; try discriminate.
  destruct fs; [|discriminate].
  cbn [v_hint]. eexists; reflexivity.
Qed.

Ltac wf_step H :=
  match type of H with
  | wf_fields _ (_ :: _) ?vs = true =>
    destruct vs as [|[?v|] ?vs]; try discriminate H;
    rewrite wf_fields_cons in H; apply andb_true_iff in H;
    let H1 := fresh "Hf" in destruct H as [H1 H]
  end.

Lemma principal_total v : wf_val rfc_PrincipalName v = true -> exists ns, v_names (Some v) = Some ns.
Proof.
  intros H. destruct v; try discriminate. unfold rfc_PrincipalName, req in H. cbn [wf_val] in H.
  wf_step H. wf_step H. destruct fs; [|discriminate].
  match goal with H : wf_val TInt ?a = true |- _ => destruct a; cbn [wf_val] in H; try discriminate H end.
  match goal with H : wf_val (TSeqOf TGenStr) ?a = true |- _ =>
    destruct a; cbn [wf_val] in H; try discriminate H; destruct (names_total _ H) as (ns & E) end.
  exists ns. cbn [v_names]. exact E.
Qed.

Ltac prim_shapes :=
  repeat match goal with
  | H : wf_val TInt ?a = true |- _ => destruct a; cbn [wf_val] in H; try discriminate H; clear H
  | H : wf_val TGenStr ?a = true |- _ => destruct a; cbn [wf_val] in H; try discriminate H; clear H
  | H : wf_val TOctets ?a = true |- _ => destruct a; cbn [wf_val] in H; try discriminate H; clear H
  end.

Lemma tkt_realm_total v : wf_val rfc_Ticket v = true -> exists r, v_tkt_realm (Some v) = Some r.
Proof.
  intros H. unfold rfc_Ticket, req in H. cbn [wf_val] in H. destruct v; try discriminate.
  wf_step H. wf_step H. wf_step H. wf_step H. destruct fs; [|discriminate].
  prim_shapes. eexists; reflexivity.
Qed.

Lemma encdata_total v : wf_val rfc_EncryptedData v = true -> exists x, v_encdata (Some v) = Some x.
Proof.
  intros H. unfold rfc_EncryptedData, req, opt in H. cbn [wf_val] in H. destruct v; try discriminate.
  wf_step H.
  destruct fs as [|kv fs]; try discriminate H.
  rewrite wf_fields_cons in H. apply andb_true_iff in H. destruct H as [Hkv H].
  wf_step H. destruct fs; [|discriminate].
  prim_shapes.
  destruct kv as [k|]; [|eexists; reflexivity].
  destruct k; cbn [wf_val] in Hkv; try discriminate. eexists; reflexivity.
Qed.

Theorem project_rep_total v : wf_val rfc_KDCRep v = true -> exists rp, project_rep v = Some rp.
Proof.
  intros H. destruct v; try discriminate. unfold rfc_KDCRep, req, opt in H. cbn [wf_val] in H.
  (* pvno, msg-type *)
  wf_step H. wf_step H.
  (* padata (optional) *)
  destruct fs as [|pad fs]; try discriminate H.
  rewrite wf_fields_cons in H. apply andb_true_iff in H. destruct H as [Hpad H].
  (* crealm, cname, ticket, enc-part *)
  wf_step H. wf_step H. wf_step H. wf_step H. destruct fs; [|discriminate].
  prim_shapes.
  match goal with H : wf_val rfc_PrincipalName ?c = true |- _ => destruct (principal_total c H) as (cn & Ecn); clear H end.
  match goal with H : wf_val rfc_Ticket ?k = true |- _ => destruct (tkt_realm_total k H) as (tr & Etr); clear H end.
  match goal with H : wf_val rfc_EncryptedData ?k = true |- _ => destruct (encdata_total k H) as ([[et k'] ci] & Eed); clear H end.
  assert (Hh : exists hs, v_hints pad = Some hs).
  { destruct pad as [p|]; [|eexists; reflexivity]. destruct p; cbn [wf_val] in Hpad; try discriminate.
    destruct (hints_total vs Hpad) as (hs & E). exists hs. exact E. }
  destruct Hh as (hs & Eh).
  unfold project_rep. cbn [v_int v_obytes]. rewrite Eh, Ecn, Etr, Eed. eexists; reflexivity.
Qed.

(* ---- the verdict from the bytes is the verdict of the sealed-content model ---- *)
Theorem asrep_bytes_refines skew c rq v w trailing rp er t :
  wf_rep_val 11 v = true -> encode rfc_ASRep v = Some w -> project_rep v = Some rp ->
  (forall kv kt pt, as_key c rp = Ok (kv, kt) -> decrypt kt kv 3 (rp_cipher rp) = Ok pt -> dec_enc_der pt = Some er) ->
  asrep_verify_bytes skew c rq (w ++ trailing) t = asrep_verify (fun _ => Some er) skew c rq rp t.
Proof.
  intros Hwf He Hp Hd. unfold asrep_verify_bytes, parse_asrep.
  rewrite (parse_kdc_rep_encode 11 v w trailing ltac:(lia) Hwf He). rewrite Hp.
  unfold asrep_verify.
  destruct (negb (names_eqb (rp_cname rp) (rq_cname rq))); [reflexivity|].
  destruct (negb (beq_bytes (rp_crealm rp) (rq_realm rq))); [reflexivity|].
  destruct (as_key c rp) as [[kv kt]| |] eqn:EK; try reflexivity.
  destruct (decrypt kt kv 3 (rp_cipher rp)) as [pt| |] eqn:ED; try reflexivity.
  rewrite (Hd kv kt pt eq_refl ED). reflexivity.
Qed.

Theorem tgsrep_bytes_refines skew stype skey rq v w trailing rp er t :
  wf_rep_val 13 v = true -> encode rfc_TGSRep v = Some w -> project_rep v = Some rp ->
  (forall pt, decrypt stype skey 8 (rp_cipher rp) = Ok pt -> dec_enc_der pt = Some er) ->
  tgsrep_verify_bytes skew stype skey rq (w ++ trailing) t = tgsrep_verify (fun _ => Some er) skew stype skey rq rp t.
Proof.
  intros Hwf He Hp Hd. unfold tgsrep_verify_bytes, parse_tgsrep.
  rewrite (parse_kdc_rep_encode 13 v w trailing ltac:(lia) Hwf He). rewrite Hp.
  unfold tgsrep_verify.
  destruct (decrypt stype skey 8 (rp_cipher rp)) as [pt| |] eqn:ED; try reflexivity.
  rewrite (Hd pt eq_refl). reflexivity.
Qed.

(* the same with the premise on the plaintext spelled out: it is the DER encoding of the sealed fields under
   APPLICATION 25 or 26, followed by anything *)
Definition seals (er : enc_rep) (pt : bytes) : Prop :=
  exists n x b pad, (n = 25 \/ n = 26) /\ wf_enc_inj n x er = true /\
                    encode (TApp n rfc_EncKDCRepPart) (inject_enc_rep x er) = Some b /\ pt = b ++ pad.

Lemma seals_dec er pt : seals er pt -> dec_enc_der pt = Some er.
Proof. intros (n & x & b & pad & Hn & Hwf & He & ->). eapply dec_enc_der_inject; eauto. Qed.

Corollary asrep_bytes_refines_sealed skew c rq v w trailing rp er t :
  wf_rep_val 11 v = true -> encode rfc_ASRep v = Some w -> project_rep v = Some rp ->
  (forall kv kt pt, as_key c rp = Ok (kv, kt) -> decrypt kt kv 3 (rp_cipher rp) = Ok pt -> seals er pt) ->
  asrep_verify_bytes skew c rq (w ++ trailing) t = asrep_verify (fun _ => Some er) skew c rq rp t.
Proof.
  intros Hwf He Hp Hd. eapply asrep_bytes_refines; eauto. intros kv kt pt EK ED. apply seals_dec. eauto.
Qed.

Corollary tgsrep_bytes_refines_sealed skew stype skey rq v w trailing rp er t :
  wf_rep_val 13 v = true -> encode rfc_TGSRep v = Some w -> project_rep v = Some rp ->
  (forall pt, decrypt stype skey 8 (rp_cipher rp) = Ok pt -> seals er pt) ->
  tgsrep_verify_bytes skew stype skey rq (w ++ trailing) t = tgsrep_verify (fun _ => Some er) skew stype skey rq rp t.
Proof.
  intros Hwf He Hp Hd. eapply tgsrep_bytes_refines; eauto. intros pt ED. apply seals_dec. eauto.
Qed.

(* ================= (b) the unsealed fields that matter ================= *)
Definition as_relevant (rp : kdc_rep) :=
  (rp_cname rp, rp_crealm rp, rp_etype rp, rp_kvno rp, rp_cipher rp, rp_hints rp).
Definition tgs_relevant (rp : kdc_rep) := (rp_cname rp, rp_tkt_realm rp, rp_cipher rp).

Lemma asrep_verify_relevant dec skew c rq r1 r2 t :
  as_relevant r1 = as_relevant r2 -> asrep_verify dec skew c rq r1 t = asrep_verify dec skew c rq r2 t.
Proof.
  destruct r1 as [cn1 cr1 tr1 et1 kv1 ci1 hs1], r2 as [cn2 cr2 tr2 et2 kv2 ci2 hs2].
  unfold as_relevant. cbn [rp_cname rp_crealm rp_etype rp_kvno rp_cipher rp_hints].
  intros E. injection E as -> -> -> -> -> ->. reflexivity.
Qed.

Lemma tgsrep_verify_relevant dec skew stype skey rq r1 r2 t :
  tgs_relevant r1 = tgs_relevant r2 ->
  tgsrep_verify dec skew stype skey rq r1 t = tgsrep_verify dec skew stype skey rq r2 t.
Proof.
  destruct r1 as [cn1 cr1 tr1 et1 kv1 ci1 hs1], r2 as [cn2 cr2 tr2 et2 kv2 ci2 hs2].
  unfold tgs_relevant. cbn [rp_cname rp_tkt_realm rp_cipher].
  intros E. injection E as -> -> ->. reflexivity.
Qed.

(* two wires (any octets at all) whose parsed replies agree on the listed fields get the same verdict *)
Theorem asrep_bytes_unsealed_fields skew c rq w1 w2 r1 r2 t :
  parse_asrep w1 = Some r1 -> parse_asrep w2 = Some r2 -> as_relevant r1 = as_relevant r2 ->
  asrep_verify_bytes skew c rq w1 t = asrep_verify_bytes skew c rq w2 t.
Proof. intros P1 P2 E. unfold asrep_verify_bytes. rewrite P1, P2. apply asrep_verify_relevant, E. Qed.

Theorem tgsrep_bytes_unsealed_fields skew stype skey rq w1 w2 r1 r2 t :
  parse_tgsrep w1 = Some r1 -> parse_tgsrep w2 = Some r2 -> tgs_relevant r1 = tgs_relevant r2 ->
  tgsrep_verify_bytes skew stype skey rq w1 t = tgsrep_verify_bytes skew stype skey rq w2 t.
Proof. intros P1 P2 E. unfold tgsrep_verify_bytes. rewrite P1, P2. apply tgsrep_verify_relevant, E. Qed.

(* the same on reply values: which fields of the KDC-REP can be replaced without any effect *)
(* AS: pvno [0] and the whole ticket [5] *)
Definition as_same_checked (v1 v2 : value) : Prop :=
  exists p1 p2 mt pad crealm cname k1 k2 encpart,
    v1 = VSeq [p1; mt; pad; crealm; cname; k1; encpart] /\
    v2 = VSeq [p2; mt; pad; crealm; cname; k2; encpart].

Lemma project_rep_as v1 v2 r1 r2 :
  as_same_checked v1 v2 -> project_rep v1 = Some r1 -> project_rep v2 = Some r2 -> as_relevant r1 = as_relevant r2.
Proof.
  intros (p1 & p2 & mt & pad & crealm & cname & k1 & k2 & encpart & -> & ->). unfold project_rep.
  destruct (v_int p1); [|discriminate]. destruct (v_int p2); [|discriminate].
  destruct (v_int mt); [|discriminate]. destruct (v_hints pad); [|discriminate].
  destruct (v_obytes crealm); [|discriminate]. destruct (v_names cname); [|discriminate].
  destruct (v_tkt_realm k1); [|discriminate]. destruct (v_tkt_realm k2); [|discriminate].
  destruct (v_encdata encpart) as [[[et k] ci]|]; [|discriminate].
  intros E1 E2. injection E1 as <-. injection E2 as <-. reflexivity.
Qed.

Theorem asrep_ignores_pvno_and_ticket skew c rq v1 v2 w1 w2 tr1 tr2 t :
  as_same_checked v1 v2 ->
  wf_rep_val 11 v1 = true -> wf_rep_val 11 v2 = true ->
  encode rfc_ASRep v1 = Some w1 -> encode rfc_ASRep v2 = Some w2 ->
  asrep_verify_bytes skew c rq (w1 ++ tr1) t = asrep_verify_bytes skew c rq (w2 ++ tr2) t.
Proof.
  intros Hs W1 W2 E1 E2.
  assert (T1 : exists r1, project_rep v1 = Some r1).
  { apply project_rep_total. unfold wf_rep_val in W1. repeat (apply andb_true_iff in W1; destruct W1 as [W1 ?]). exact W1. }
  assert (T2 : exists r2, project_rep v2 = Some r2).
  { apply project_rep_total. unfold wf_rep_val in W2. repeat (apply andb_true_iff in W2; destruct W2 as [W2 ?]). exact W2. }
  destruct T1 as (r1 & P1), T2 as (r2 & P2).
  eapply asrep_bytes_unsealed_fields.
  - unfold parse_asrep. rewrite (parse_kdc_rep_encode 11 v1 w1 tr1 ltac:(lia) W1 E1). exact P1.
  - unfold parse_asrep. rewrite (parse_kdc_rep_encode 11 v2 w2 tr2 ltac:(lia) W2 E2). exact P2.
  - eapply project_rep_as; eauto.
Qed.

(* TGS: pvno [0], padata [2], crealm [3], and inside the ticket tkt-vno, sname, enc-part, and of the reply's
   enc-part the etype and the kvno: only cname, the ticket's realm and the ciphertext are read *)
Definition tgs_same_checked (v1 v2 : value) : Prop :=
  exists p1 p2 mt pad1 pad2 cr1 cr2 cname tv1 tv2 trealm sn1 sn2 te1 te2 et1 et2 kv1 kv2 cipher,
    v1 = VSeq [p1; mt; pad1; cr1; cname; Some (VSeq [tv1; trealm; sn1; te1]); Some (VSeq [et1; kv1; cipher])] /\
    v2 = VSeq [p2; mt; pad2; cr2; cname; Some (VSeq [tv2; trealm; sn2; te2]); Some (VSeq [et2; kv2; cipher])].

Lemma project_rep_tgs v1 v2 r1 r2 :
  tgs_same_checked v1 v2 -> project_rep v1 = Some r1 -> project_rep v2 = Some r2 -> tgs_relevant r1 = tgs_relevant r2.
Proof.
  intros (p1 & p2 & mt & pad1 & pad2 & cr1 & cr2 & cname & tv1 & tv2 & trealm & sn1 & sn2 & te1 & te2 & et1 & et2
          & kv1 & kv2 & cipher & -> & ->). unfold project_rep, v_tkt_realm, v_encdata.
  destruct (v_int p1); [|discriminate]. destruct (v_int p2); [|discriminate].
  destruct (v_int mt); [|discriminate].
  destruct (v_hints pad1); [|discriminate]. destruct (v_hints pad2); [|discriminate].
  destruct (v_obytes cr1); [|discriminate]. destruct (v_obytes cr2); [|discriminate].
  destruct (v_names cname); [|discriminate].
  destruct (v_int tv1); [|discriminate]. destruct (v_int tv2); [|discriminate].
  destruct (v_obytes trealm); [|discriminate].
  destruct (v_int et1); [|discriminate]. destruct (v_int et2); [|discriminate].
  destruct (match kv1 with None => Some 0 | Some _ => v_int kv1 end); [|discriminate].
  destruct (match kv2 with None => Some 0 | Some _ => v_int kv2 end); [|discriminate].
  destruct (v_obytes cipher); [|discriminate].
  intros E1 E2. injection E1 as <-. injection E2 as <-. reflexivity.
Qed.

Theorem tgsrep_ignores_unchecked_fields skew stype skey rq v1 v2 w1 w2 tr1 tr2 t :
  tgs_same_checked v1 v2 ->
  wf_rep_val 13 v1 = true -> wf_rep_val 13 v2 = true ->
  encode rfc_TGSRep v1 = Some w1 -> encode rfc_TGSRep v2 = Some w2 ->
  tgsrep_verify_bytes skew stype skey rq (w1 ++ tr1) t = tgsrep_verify_bytes skew stype skey rq (w2 ++ tr2) t.
Proof.
  intros Hs W1 W2 E1 E2.
  assert (T1 : exists r1, project_rep v1 = Some r1).
  { apply project_rep_total. unfold wf_rep_val in W1. repeat (apply andb_true_iff in W1; destruct W1 as [W1 ?]). exact W1. }
  assert (T2 : exists r2, project_rep v2 = Some r2).
  { apply project_rep_total. unfold wf_rep_val in W2. repeat (apply andb_true_iff in W2; destruct W2 as [W2 ?]). exact W2. }
  destruct T1 as (r1 & P1), T2 as (r2 & P2).
  eapply tgsrep_bytes_unsealed_fields.
  - unfold parse_tgsrep. rewrite (parse_kdc_rep_encode 13 v1 w1 tr1 ltac:(lia) W1 E1). exact P1.
  - unfold parse_tgsrep. rewrite (parse_kdc_rep_encode 13 v2 w2 tr2 ltac:(lia) W2 E2). exact P2.
  - eapply project_rep_tgs; eauto.
Qed.

(* ================= (c) parse failure never accepts; acceptance from bytes ================= *)
Theorem asrep_bytes_parse_failure skew c rq w t :
  parse_asrep w = None -> asrep_verify_bytes skew c rq w t = Ok false.
Proof. intros H. unfold asrep_verify_bytes. rewrite H. reflexivity. Qed.

Theorem tgsrep_bytes_parse_failure skew stype skey rq w t :
  parse_tgsrep w = None -> tgsrep_verify_bytes skew stype skey rq w t = Ok false.
Proof. intros H. unfold tgsrep_verify_bytes. rewrite H. reflexivity. Qed.

(* acceptance from the bytes = the bytes parse to a reply that is valid in the sense of C09 (as_valid / tgs_valid),
   with the DER decoder in the place of the abstract decoder of the sealed part *)
Theorem asrep_bytes_accept_iff skew c rq w t :
  asrep_verify_bytes skew c rq w t = Ok true <->
  exists rp, parse_asrep w = Some rp /\ as_valid dec_enc_der skew c rq rp t.
Proof.
  unfold asrep_verify_bytes. split.
  - destruct (parse_asrep w) as [rp|]; [|discriminate]. intros H. exists rp. split; [reflexivity|].
    apply asrep_accept_iff, H.
  - intros (rp & -> & H). apply asrep_accept_iff, H.
Qed.

Theorem tgsrep_bytes_accept_iff skew stype skey rq w t :
  tgsrep_verify_bytes skew stype skey rq w t = Ok true <->
  exists rp, parse_tgsrep w = Some rp /\ tgs_valid dec_enc_der skew stype skey rq rp t.
Proof.
  unfold tgsrep_verify_bytes. split.
  - destruct (parse_tgsrep w) as [rp|]; [|discriminate]. intros H. exists rp. split; [reflexivity|].
    apply tgsrep_accept_iff, H.
  - intros (rp & -> & H). apply tgsrep_accept_iff, H.
Qed.

(* the encoding of ANY message under another APPLICATION tag - the other kind of reply, a KRB-ERROR (30), an
   AP-REP, ... - followed by anything, is not a reply *)
Lemma parse_other_application app m t' v w trailing :
  0 <= app < 31 -> 0 <= m < 31 -> m <> app -> encode (TApp m t') v = Some w -> zlen w < 2 ^ 31 ->
  parse_kdc_rep app (w ++ trailing) = None.
Proof.
  intros Ha Hm Hne He Hs. apply encode_some in He. destruct He as [Hwf ->]. cbn [wf_val enc] in *.
  unfold parse_kdc_rep. rewrite go_unmarshal_app_other_tag; auto; try lia.
  - apply enc_nonempty, Hwf.
  - pose proof (zlen_tlv (ident 1 true m) (enc t' v)). lia.
Qed.

Theorem asrep_rejects_other_application skew c rq m t' v w trailing t :
  0 <= m < 31 -> m <> 11 -> encode (TApp m t') v = Some w -> zlen w < 2 ^ 31 ->
  asrep_verify_bytes skew c rq (w ++ trailing) t = Ok false.
Proof.
  intros Hm Hne He Hs. apply asrep_bytes_parse_failure. unfold parse_asrep.
  eapply parse_other_application; eauto. lia.
Qed.

Theorem tgsrep_rejects_other_application skew stype skey rq m t' v w trailing t :
  0 <= m < 31 -> m <> 13 -> encode (TApp m t') v = Some w -> zlen w < 2 ^ 31 ->
  tgsrep_verify_bytes skew stype skey rq (w ++ trailing) t = Ok false.
Proof.
  intros Hm Hne He Hs. apply tgsrep_bytes_parse_failure. unfold parse_tgsrep.
  eapply parse_other_application; eauto. lia.
Qed.

(* in particular an AS-REP is never taken for a TGS-REP, nor the converse, nor a KRB-ERROR for either *)
Corollary tgsrep_rejects_asrep skew stype skey rq v w trailing t :
  encode rfc_ASRep v = Some w -> zlen w < 2 ^ 31 -> tgsrep_verify_bytes skew stype skey rq (w ++ trailing) t = Ok false.
Proof. intros He Hs. eapply (tgsrep_rejects_other_application _ _ _ _ 11); eauto; lia. Qed.

Corollary asrep_rejects_tgsrep skew c rq v w trailing t :
  encode rfc_TGSRep v = Some w -> zlen w < 2 ^ 31 -> asrep_verify_bytes skew c rq (w ++ trailing) t = Ok false.
Proof. intros He Hs. eapply (asrep_rejects_other_application _ _ _ 13); eauto; lia. Qed.

Corollary asrep_rejects_krb_error skew c rq v w trailing t :
  encode rfc_KRBError v = Some w -> zlen w < 2 ^ 31 -> asrep_verify_bytes skew c rq (w ++ trailing) t = Ok false.
Proof. intros He Hs. eapply (asrep_rejects_other_application _ _ _ 30); eauto; lia. Qed.

(* a reply whose msg-type is not the one of the exchange is not a reply either (pvno, by contrast, is not read) *)
Theorem parse_kdc_rep_msg_type app v w trailing :
  0 <= app < 31 ->
  wf_val rfc_KDCRep v = true -> gowf g_KDCRep v = true -> zlen (enc (TApp app rfc_KDCRep) v) < 2 ^ 31 ->
  v_msg_type v <> Some app ->
  encode (TApp app rfc_KDCRep) v = Some w -> parse_kdc_rep app (w ++ trailing) = None.
Proof.
  intros Ha Hw Hg Hs Hm He. apply encode_some in He. destruct He as [_ ->].
  rewrite <- erase_KDCRep in *. unfold parse_kdc_rep. rewrite go_unmarshal_app_encode; auto.
  destruct (v_msg_type v) as [mt|]; [|reflexivity].
  destruct (Z.eqb_spec mt app); [congruence | reflexivity].
Qed.
