(* Gokrb5.proofs.DERCanon — the converse of decode_encode: the strict decoder accepts only canonical DER.
   Whatever decode reads re-encodes to exactly the octets it consumed (no schema side condition). *)
From Coq Require Import ZifyBool.
From Gokrb5.lib Require Import Bytes JV.
From Gokrb5.model Require Import Schema DER DERCodec.
From Gokrb5.proofs Require Import DERBasic DERTime DEROid DERProofs.
Local Ltac Zify.zify_post_hook ::= Z.div_mod_to_equations.

Lemma dec_prim_inv id f b v rest : dec_prim id f b = Some (v, rest) ->
  exists body, b = tlv id body ++ rest /\ f body = Some v.
Proof.
  unfold dec_prim. destruct (parse_tlv b) as [[[i body] r]|] eqn:E; [|discriminate].
  destruct (Z.eqb_spec i id); [|discriminate]. subst i.
  destruct (f body) as [v'|] eqn:Ef; [|discriminate]. intros H. apply some_inj in H.
  apply parse_tlv_canon in E. destruct E as (E & _). inversion H; subst. exists body. split; auto.
Qed.

Lemma dec_cons_inv id d b v rest : dec_cons id d b = Some (v, rest) ->
  exists body, b = tlv id body ++ rest /\ d body = Some (v, []).
Proof.
  unfold dec_cons. destruct (parse_tlv b) as [[[i body] r]|] eqn:E; [|discriminate].
  destruct (Z.eqb_spec i id); [|discriminate]. subst i.
  destruct (d body) as [[v' [|? ?]]|] eqn:Ed; try discriminate. intros H. apply some_inj in H.
  apply parse_tlv_canon in E. destruct E as (E & _). inversion H; subst. exists body. split; auto.
Qed.

Lemma tlv_wf_inv id body rest : wf_bytes (tlv id body ++ rest) -> wf_bytes body /\ wf_bytes rest.
Proof.
  intros H. apply wf_bytes_app in H. destruct H as [H Hr]. split; [|exact Hr].
  unfold tlv in H. apply wf_bytes_cons in H. destruct H as [_ H]. apply wf_bytes_app in H. tauto.
Qed.

(* canonical-form statement for one type *)
Definition canon (t : ty) : Prop :=
  forall fuel b v rest, wf_bytes b -> decode t fuel b = Some (v, rest) ->
  wf_val t v = true /\ b = enc t v ++ rest.

Lemma dec_field_inv fuel tag t b v r : canon t -> wf_bytes b ->
  dec_field (fun t' b' => decode t' fuel b') tag t b = Some (v, r) ->
  wf_val t v = true /\ b = wrap_tag tag (enc t v) ++ r.
Proof.
  intros Hc Hw H. destruct tag as [n|]; cbn [dec_field wrap_tag] in *.
  - apply dec_cons_inv in H. destruct H as (body & -> & H).
    apply tlv_wf_inv in Hw. destruct Hw as [Hwb _].
    apply Hc in H; [|exact Hwb]. destruct H as [Hv ->]. rewrite app_nil_r. auto.
  - apply Hc in H; auto.
Qed.

Lemma dec_fields_inv fuel fs : Forall (fun f : field => canon (snd f)) fs ->
  forall b vs r, wf_bytes b -> dec_fields (fun t' b' => decode t' fuel b') fs b = Some (vs, r) ->
  wf_fields wf_val fs vs = true /\ b = enc_fields enc fs vs ++ r.
Proof.
  induction 1 as [|[[tag opt] t] fs Hc _ IH]; intros b vs r Hw H.
  - cbn in H. apply some_inj in H. inversion H; subst. auto.
  - cbn [snd] in Hc. rewrite dec_fields_cons in H.
    destruct (negb opt || present tag t b) eqn:Hp.
    + destruct (dec_field _ tag t b) as [[v r1]|] eqn:E1; [|discriminate].
      destruct (dec_fields _ fs r1) as [[vs' r2]|] eqn:E2; [|discriminate].
      apply some_inj in H. inversion H; subst vs r2; clear H.
      apply dec_field_inv in E1; auto. destruct E1 as [Hv ->].
      apply wf_bytes_app in Hw. destruct Hw as [_ Hw1].
      apply IH in E2; [|exact Hw1]. destruct E2 as [Hvs ->].
      rewrite wf_fields_cons, enc_fields_cons, Hv, Hvs, <- app_assoc. auto.
    + destruct (dec_fields _ fs b) as [[vs' r2]|] eqn:E2; [|discriminate].
      apply some_inj in H. inversion H; subst vs r2; clear H.
      apply IH in E2; [|exact Hw]. destruct E2 as [Hvs ->].
      rewrite wf_fields_cons, enc_fields_cons, Hvs. destruct opt; [auto | discriminate].
Qed.

Lemma dec_list_inv fuel e : canon e -> forall n b vs, wf_bytes b ->
  dec_list (decode e fuel) n b = Some vs ->
  forallb (wf_val e) vs = true /\ b = flat_map (enc e) vs.
Proof.
  intros Hc. induction n as [|n IH]; intros b vs Hw H.
  - destruct b; [|discriminate]. apply some_inj in H. subst. auto.
  - destruct b as [|x b]; [apply some_inj in H; subst; auto|].
    cbn [dec_list] in H. destruct (decode e fuel (x :: b)) as [[v r]|] eqn:E; [|discriminate].
    destruct (dec_list (decode e fuel) n r) as [l|] eqn:El; [|discriminate].
    apply some_inj in H. subst vs. apply Hc in E; [|exact Hw]. destruct E as [Hv E].
    rewrite E in Hw. apply wf_bytes_app in Hw. destruct Hw as [_ Hwr].
    apply IH in El; [|exact Hwr]. destruct El as [Hl ->].
    cbn [forallb flat_map]. rewrite Hv, Hl, E. auto.
Qed.

Theorem decode_canon : forall t, canon t.
Proof.
  induction t using ty_ind'; intros fuel b v rest Hw Hd; cbn [decode] in Hd.
  - (* TInt *) apply dec_prim_inv in Hd. destruct Hd as (body & -> & Hd).
    destruct (dec_int body) as [z|] eqn:E; [|discriminate]. apply some_inj in Hd. subst v.
    apply dec_int_canon in E. cbn [wf_val enc]. rewrite E. auto.
  - (* TOctets *) apply dec_prim_inv in Hd. destruct Hd as (body & -> & Hd). apply some_inj in Hd. subst v.
    apply tlv_wf_inv in Hw. destruct Hw as [Hwb _]. cbn [wf_val enc]. split; [apply wf_bytesb_iff, Hwb | reflexivity].
  - (* TGenStr *) apply dec_prim_inv in Hd. destruct Hd as (body & -> & Hd). apply some_inj in Hd. subst v.
    apply tlv_wf_inv in Hw. destruct Hw as [Hwb _]. cbn [wf_val enc]. split; [apply wf_bytesb_iff, Hwb | reflexivity].
  - (* TGenTime *) apply dec_prim_inv in Hd. destruct Hd as (body & -> & Hd).
    destruct (dec_time body) as [s|] eqn:E; [|discriminate]. apply some_inj in Hd. subst v.
    apply dec_time_canon in E. destruct E as [E Hok]. cbn [wf_val enc]. rewrite E. auto.
  - (* TBits *) apply dec_prim_inv in Hd. destruct Hd as (body & -> & Hd).
    apply tlv_wf_inv in Hw. destruct Hw as [Hwb _].
    unfold dec_bits in Hd. destruct body as [|u x]; [discriminate|].
    destruct (bits_ok u x) eqn:Hb; [|discriminate]. apply some_inj in Hd. subst v.
    apply wf_bytes_cons in Hwb. destruct Hwb as [_ Hwx]. apply wf_bytesb_iff in Hwx.
    cbn [wf_val enc]. unfold enc_bits. rewrite Hb, Hwx. auto.
  - (* TOid *) apply dec_prim_inv in Hd. destruct Hd as (body & -> & Hd).
    destruct (dec_oid body) as [a|] eqn:E; [|discriminate]. apply some_inj in Hd. subst v.
    apply dec_oid_canon in E. cbn [wf_val enc]. rewrite E. split; [eapply enc_oid_ok, E | reflexivity].
  - (* TEnum *) apply dec_prim_inv in Hd. destruct Hd as (body & -> & Hd).
    destruct (dec_int body) as [z|] eqn:E; [|discriminate]. apply some_inj in Hd. subst v.
    apply dec_int_canon in E. cbn [wf_val enc]. rewrite E. auto.
  - (* TBool *) apply dec_prim_inv in Hd. destruct Hd as (body & -> & Hd).
    unfold dec_bool in Hd. destruct body as [|x [|? ?]]; try discriminate.
    destruct (Z.eqb_spec x 255); [|destruct (Z.eqb_spec x 0); [|discriminate]];
      apply some_inj in Hd; subst; cbn [wf_val enc]; auto.
  - (* TSeq *) apply dec_cons_inv in Hd. destruct Hd as (body & -> & Hd).
    apply tlv_wf_inv in Hw. destruct Hw as [Hwb _].
    destruct (dec_fields _ fs body) as [[vs r]|] eqn:E; [|discriminate].
    apply some_inj in Hd. inversion Hd; subst v r; clear Hd.
    apply (dec_fields_inv fuel fs H) in E; [|exact Hwb]. destruct E as [Hvs ->].
    cbn [wf_val enc]. rewrite app_nil_r. auto.
  - (* TSeqOf *) apply dec_cons_inv in Hd. destruct Hd as (body & -> & Hd).
    apply tlv_wf_inv in Hw. destruct Hw as [Hwb _].
    destruct (dec_list (decode t fuel) fuel body) as [vs|] eqn:E; [|discriminate].
    apply some_inj in Hd. inversion Hd; subst v; clear Hd.
    apply (dec_list_inv fuel t IHt) in E; [|exact Hwb]. destruct E as [Hvs ->].
    cbn [wf_val enc]. auto.
  - (* TApp *) apply dec_cons_inv in Hd. destruct Hd as (body & -> & Hd).
    apply tlv_wf_inv in Hw. destruct Hw as [Hwb _].
    apply IHt in Hd; [|exact Hwb]. destruct Hd as [Hv ->]. cbn [wf_val enc]. rewrite app_nil_r. auto.
  - (* TRaw *) destruct (parse_tlv b) as [[[i body] r]|] eqn:E; [|discriminate].
    apply some_inj in Hd. inversion Hd; subst v r; clear Hd.
    apply parse_tlv_canon in E. destruct E as (-> & Hi & Hb).
    apply wf_bytes_app in Hw. destruct Hw as [Hwt _]. apply wf_bytesb_iff in Hwt.
    cbn [wf_val enc]. rewrite Hwt. unfold raw_ok.
    rewrite <- (app_nil_r (tlv i body)) at 1. rewrite parse_tlv_tlv by assumption. auto.
Qed.

(* what decode consumed is the encoding of what it returned *)
Theorem encode_decode_rest t fuel b v rest : wf_bytes b -> decode t fuel b = Some (v, rest) ->
  exists b0, encode t v = Some b0 /\ b = b0 ++ rest.
Proof.
  intros Hw H. apply decode_canon in H; [|exact Hw]. destruct H as [Hv ->].
  exists (enc t v). split; [apply encode_some; auto | reflexivity].
Qed.

(* canonical form: decoding accepts only DER that re-encodes to the same octets *)
Theorem encode_decode t b v : wf_bytes b -> decode_top t b = Some v -> encode t v = Some b.
Proof.
  intros Hw. unfold decode_top. destruct (decode t (S (length b)) b) as [[v' [|? ?]]|] eqn:E; try discriminate.
  intros H. apply some_inj in H. subst v'. apply encode_decode_rest in E; [|exact Hw].
  destruct E as (b0 & He & ->). rewrite app_nil_r. exact He.
Qed.

(* decoding is injective on octet strings *)
Corollary decode_top_injective t b1 b2 v : wf_bytes b1 -> wf_bytes b2 ->
  decode_top t b1 = Some v -> decode_top t b2 = Some v -> b1 = b2.
Proof.
  intros W1 W2 D1 D2. apply encode_decode in D1; [|exact W1]. apply encode_decode in D2; [|exact W2]. congruence.
Qed.

(* the two directions together: on unambiguous schemas and octet strings below 2^32, decode_top and encode
   are mutually inverse partial functions *)
Corollary decode_top_iff t b v : schema_ok t = true -> wf_bytes b -> zlen b < 2 ^ 32 ->
  (decode_top t b = Some v <-> encode t v = Some b).
Proof.
  intros Hok Hw Hl. split.
  - apply encode_decode, Hw.
  - intros He. apply decode_top_encode; auto. eapply encode_wf, He.
Qed.

Example ex_canon : encode ex_schema ex_value = Some ex_bytes.
Proof. apply encode_decode; [apply wf_bytesb_iff; vm_compute; reflexivity | exact ex_decode]. Qed.
