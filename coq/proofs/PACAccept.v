(* Exact characterisation of the acceptance set of the PAC model:
   pac_process returns Ok  <->  header and table fit the input, every buffer lies inside the PAC, the FIRST
   buffer of each mandatory type exists and decodes, and the keyed checksum (etype of the declared type,
   usage 17) of the zeroed image equals the server signature value. *)
From Gokrb5.lib Require Import Bytes JV.
From Gokrb5.model Require Import Crypto PAC.
From Gokrb5.proofs Require Import CryptoBasic PACTotal.

(* ---------- list helpers ---------- *)

Lemma skipn_add {A} a b (l : list A) : skipn a (skipn b l) = skipn (b + a) l.
Proof. revert l; induction b as [|b IH]; intros l; cbn [Nat.add]; [reflexivity|]. destruct l; [destruct a; reflexivity|]. cbn [skipn]. apply IH. Qed.

Lemma read_le_eq w r : (w <= length r)%nat -> read_le w r = Ok (le_val (firstn w r), skipn w r).
Proof. intros H. unfold read_le. destruct (Nat.ltb_spec (length r) w); [lia|reflexivity]. Qed.

(* ---------- positional description of header and table (MS-PAC 2.3, 2.4) ---------- *)

Definition entry_at (b : bytes) (k : nat) : info_buffer :=
  mkBuf (le_val (firstn 4 (skipn k b)))            (* ulType       : 4 bytes LE at k      *)
        (le_val (firstn 4 (skipn (k + 4) b)))      (* cbBufferSize : 4 bytes LE at k + 4  *)
        (le_val (firstn 8 (skipn (k + 8) b))).     (* Offset       : 8 bytes LE at k + 8  *)

Definition table_at (b : bytes) (n : nat) : list info_buffer :=
  map (fun i => entry_at b (8 + 16 * i)) (seq 0 n).

Definition cbuffers (b : bytes) : Z := le_val (firstn 4 b).

Definition header_ok (b : bytes) : Prop :=
  8 <= zlen b /\ 0 <= cbuffers b /\ 16 * cbuffers b <= zlen b - 8.

Lemma read_table_at n : forall k b, (k + 16 * n <= length b)%nat ->
  read_table n (skipn k b) = Ok (map (fun i => entry_at b (k + 16 * i)) (seq 0 n)).
Proof.
  induction n as [|n IH]; intros k b L; cbn [read_table]; [reflexivity|].
  rewrite read_le_eq by (rewrite skipn_length; lia). cbn [bind].
  rewrite skipn_add, read_le_eq by (rewrite skipn_length; lia). cbn [bind].
  rewrite skipn_add, read_le_eq by (rewrite skipn_length; lia). cbn [bind].
  rewrite skipn_add. replace (k + 4 + 4 + 8)%nat with (k + 16)%nat by lia.
  rewrite IH by lia. cbn [bind]. f_equal.
  cbn [seq map]. f_equal.
  - unfold entry_at. rewrite Nat.mul_0_r, Nat.add_0_r. replace (k + 4 + 4)%nat with (k + 8)%nat by lia. reflexivity.
  - rewrite <- seq_shift, map_map. apply map_ext. intros i. f_equal. lia.
Qed.

Lemma pac_unmarshal_iff b pt :
  pac_unmarshal b = Ok pt <->
  header_ok b /\ pt = mkPac (cbuffers b) (le_val (firstn 4 (skipn 4 b))) (table_at b (Z.to_nat (cbuffers b))).
Proof.
  unfold pac_unmarshal, header_ok, cbuffers.
  rewrite galloc_ok by (pose proof (zlen_nonneg b); lia). cbn [bind].
  unfold read_le at 1. destruct (Nat.ltb_spec (length b) 4) as [L4|L4]; cbn [bind].
  { split; [discriminate|]. intros [[H _] _]. unfold zlen in H. lia. }
  unfold read_le at 1. rewrite skipn_length. destruct (Nat.ltb_spec (length b - 4) 4) as [L8|L8]; cbn [bind].
  { split; [discriminate|]. intros [[H _] _]. unfold zlen in H. lia. }
  set (cb := le_val (firstn 4 b)).
  destruct (Z.ltb_spec (zlen b - 8) (cb * 16)) as [Hc|Hc].
  { split; [discriminate|]. intros [(_ & _ & H) _]. lia. }
  unfold galloc. destruct (Z.leb_spec 0 cb) as [H0|H0]; cbn [andb].
  2:{ cbn [bind]. split; [discriminate|]. intros [(_ & H & _) _]. lia. }
  destruct (Z.leb_spec cb (zlen b)) as [H1|H1]; [|lia]. cbn [bind].
  rewrite skipn_add. change (4 + 4)%nat with 8%nat.
  rewrite read_table_at by (unfold zlen in *; lia). cbn [bind].
  split.
  - intros E; injection E as <-. split; [unfold zlen in *; lia|reflexivity].
  - intros [_ ->]. reflexivity.
Qed.

(* ---------- PAC_SIGNATURE_DATA: positional meaning ---------- *)

Definition sig_spec (p : bytes) (sd : sigdata) : Prop :=
  4 <= zlen p /\
  let st := le_val (firstn 4 p) in
  let c := sig_len st in
  4 + c <= zlen p /\
  sd = mkSig st (slice p 4 (4 + c))
             (if 4 + c + 2 <=? zlen p then le_val (slice p (4 + c) (4 + c + 2)) else 0).

Definition zeroed (p : bytes) : bytes :=
  let c := sig_len (le_val (firstn 4 p)) in
  firstn 4 p ++ zeros (Z.to_nat c) ++ skipn (Z.to_nat (4 + c)) p.

Lemma slice_as_firstn_skipn {A} (l : list A) lo n : 0 <= lo -> 0 <= n ->
  slice l lo (lo + n) = firstn (Z.to_nat n) (skipn (Z.to_nat lo) l).
Proof. intros. unfold slice. f_equal. f_equal. lia. Qed.

Lemma sig_unmarshal_iff lim p sd zb : zlen p <= lim ->
  sig_unmarshal lim p = Ok (sd, zb) <-> sig_spec p sd /\ zb = zeroed p.
Proof.
  intros Hl. unfold sig_unmarshal, sig_spec, zeroed.
  unfold read_le at 1. destruct (Nat.ltb_spec (length p) 4) as [L4|L4]; cbn [bind].
  { split; [discriminate|]. intros [[H _] _]. unfold zlen in H. lia. }
  set (st := le_val (firstn 4 p)). pose proof (sig_len_range st) as Hc. set (c := sig_len st) in *.
  rewrite zlen_skipn. destruct (Z.ltb_spec (Z.max 0 (zlen p - Z.of_nat 4)) c) as [Hr|Hr].
  { split; [discriminate|]. intros [(_ & H & _) _]. cbv zeta in H. subst c st. lia. }
  assert (Hlen : 4 + c <= zlen p) by (unfold zlen in *; lia).
  assert (Hrodc : (if 4 + c + 2 <=? zlen p
                   then (do (v, _) <- read_le 2 (skipn (Z.to_nat c) (skipn 4 p)); Ok v) else Ok 0)
                  = Ok (if 4 + c + 2 <=? zlen p then le_val (slice p (4 + c) (4 + c + 2)) else 0)).
  { destruct (Z.leb_spec (4 + c + 2) (zlen p)) as [H2|H2]; [|reflexivity].
    rewrite skipn_add, read_le_eq by (rewrite skipn_length; unfold zlen in *; lia). cbn [bind].
    f_equal. f_equal. rewrite slice_as_firstn_skipn by lia. f_equal. f_equal. lia. }
  rewrite Hrodc. cbn [bind].
  rewrite !galloc_ok by (pose proof (zlen_nonneg p); lia). cbn [bind].
  rewrite gslice_ok by lia. cbn [bind].
  rewrite length_slice by lia. replace (4 + c - 4) with c by lia.
  replace (firstn (Z.to_nat c) (skipn 4 p)) with (slice p 4 (4 + c))
    by (rewrite slice_as_firstn_skipn by lia; reflexivity).
  split.
  - intros E; injection E as <- <-. repeat split; try reflexivity; unfold zlen in *; lia.
  - intros [(_ & _ & ->) ->]. reflexivity.
Qed.

Lemma zeroed_length p : 4 + sig_len (le_val (firstn 4 p)) <= zlen p -> length (zeroed p) = length p.
Proof.
  intros H. pose proof (sig_len_range (le_val (firstn 4 p))). unfold zeroed, zeros.
  rewrite !app_length, firstn_length, skipn_length.
  assert (length (repeatz 0 (Z.to_nat (sig_len (le_val (firstn 4 p))))) = Z.to_nat (sig_len (le_val (firstn 4 p)))) as ->.
  { generalize (Z.to_nat (sig_len (le_val (firstn 4 p)))). induction n; cbn; auto. }
  unfold zlen in H. lia.
Qed.

Lemma sig_unmarshal_zero_field lim p sd zb : zlen p <= lim ->
  sig_unmarshal lim p = Ok (sd, zb) -> zero_field p = Some zb /\ length zb = length p.
Proof.
  intros Hl E. apply sig_unmarshal_iff in E; [|exact Hl]. destruct E as [(H4 & Hc & _) ->].
  split; [|apply zeroed_length; exact Hc].
  unfold zero_field. rewrite read_le_eq by (unfold zlen in H4; lia).
  rewrite zlen_skipn. destruct (Z.ltb_spec (Z.max 0 (zlen p - Z.of_nat 4)) (sig_len (le_val (firstn 4 p)))); [lia|].
  reflexivity.
Qed.

(* ---------- one iteration of ProcessPACInfoBuffers ---------- *)

Definition ity (it : item) : Z := ib_type (it_buf it).
Definition ioff (it : item) : Z := ib_off (it_buf it).
Definition isize (it : item) : Z := ib_size (it_buf it).

Definition bounds_ok (data : bytes) (it : item) : Prop :=
  0 <= ioff it /\ 0 <= isize it /\ ioff it + isize it <= zlen data.

Definition buf_bytes (data : bytes) (it : item) : bytes := slice data (ioff it) (ioff it + isize it).

Lemma copy_into_splice site z off size src : 0 <= off -> 0 <= size -> off + size <= zlen z ->
  length src = Z.to_nat size -> copy_into site z off size src = Ok (splice z off src).
Proof.
  intros H0 H1 H2 Ls. unfold copy_into, splice. rewrite gslice_ok by lia. cbn [bind].
  rewrite length_slice by lia. replace (off + size - off) with size by lia.
  rewrite <- Ls, Nat.min_id, firstn_all. reflexivity.
Qed.

Definition untouched (st st' : pstate) : Prop :=
  st_kvi st' = st_kvi st /\ st_srv st' = st_srv st /\ st_kdc st' = st_kdc st /\ st_ci st' = st_ci st /\
  st_zsd st' = st_zsd st.

Lemma untouched_refl st : untouched st st.
Proof. repeat split. Qed.

Lemma step_inv data st it st' :
  zlen (st_zsd st) = zlen data -> step data st it = Ok st' ->
  bounds_ok data it /\
  ( (ity it = 1 /\ ((st_kvi st <> None /\ st' = st) \/
                    (st_kvi st = None /\ it_ok it = true /\ st' = set_kvi st (Some (it_idx it)))))
  \/ (ity it = 6 /\ ((st_srv st <> None /\ st' = st) \/
                    (st_srv st = None /\ exists sd zb, sig_unmarshal (zlen data) (buf_bytes data it) = Ok (sd, zb) /\
                                          st' = set_srv st (Some sd) (splice (st_zsd st) (ioff it) zb))))
  \/ (ity it = 7 /\ ((st_kdc st <> None /\ st' = st) \/
                    (st_kdc st = None /\ exists sd zb, sig_unmarshal (zlen data) (buf_bytes data it) = Ok (sd, zb) /\
                                          st' = set_kdc st (Some sd) (splice (st_zsd st) (ioff it) zb))))
  \/ (ity it = 10 /\ ((st_ci st <> None /\ st' = st) \/
                     (st_ci st = None /\ exists ci, client_info_unmarshal (buf_bytes data it) = Ok ci /\
                                          st' = set_ci st (Some (it_idx it, ci)))))
  \/ (ity it <> 1 /\ ity it <> 6 /\ ity it <> 7 /\ ity it <> 10 /\ untouched st st') ).
Proof.
  intros Hz. unfold step, bounds_ok, buf_bytes, ity, ioff, isize.
  set (off := ib_off (it_buf it)). set (size := ib_size (it_buf it)). set (ty := ib_type (it_buf it)).
  destruct (Z.ltb_spec (zlen data) off); cbn [orb]; [discriminate|].
  destruct (Z.ltb_spec (zlen data - off) size); [discriminate|].
  destruct (galloc 96 (zlen data) size) eqn:G; cbn [bind]; try discriminate. apply galloc_inv in G.
  destruct (gslice 97 data off (off + size)) as [p| |] eqn:S; cbn [bind]; try discriminate.
  apply gslice_inv in S. destruct S as (O0 & _ & _ & ->).
  set (p := slice data off (off + size)).
  assert (Lp : zlen p = size) by (unfold p; rewrite zlen_slice; lia).
  intros E. split; [lia|].
  destruct (Z.eqb_spec ty 1) as [T1|T1].
  { left. split; [exact T1|]. destruct (st_kvi st) eqn:K.
    - left. split; [discriminate|]. injection E as <-. reflexivity.
    - right. destruct (it_ok it); [|discriminate]. injection E as <-. auto. }
  destruct (Z.eqb_spec ty 2) as [T2|T2].
  { right. right. right. right. injection E as <-. repeat split; try lia; try apply untouched_refl. }
  destruct (Z.eqb_spec ty 6) as [T6|T6].
  { right. left. split; [exact T6|]. destruct (st_srv st) eqn:K.
    - left. split; [discriminate|]. injection E as <-. reflexivity.
    - right. split; [reflexivity|].
      destruct (sig_unmarshal (zlen data) p) as [[sd zb]| |] eqn:U.
      + destruct (sig_unmarshal_zero_field (zlen data) p sd zb ltac:(lia) U) as [_ Lzb].
        rewrite copy_into_splice in E by (unfold zlen in *; lia). cbn [bind] in E. injection E as <-.
        exists sd, zb. auto.
      + destruct (copy_into 98 (st_zsd st) off size []); cbn [bind] in E; discriminate.
      + destruct (copy_into 98 (st_zsd st) off size []); cbn [bind] in E; discriminate. }
  destruct (Z.eqb_spec ty 7) as [T7|T7].
  { right. right. left. split; [exact T7|]. destruct (st_kdc st) eqn:K.
    - left. split; [discriminate|]. injection E as <-. reflexivity.
    - right. split; [reflexivity|].
      destruct (sig_unmarshal (zlen data) p) as [[sd zb]| |] eqn:U.
      + destruct (sig_unmarshal_zero_field (zlen data) p sd zb ltac:(lia) U) as [_ Lzb].
        rewrite copy_into_splice in E by (unfold zlen in *; lia). cbn [bind] in E. injection E as <-.
        exists sd, zb. auto.
      + destruct (copy_into 99 (st_zsd st) off size []); cbn [bind] in E; discriminate.
      + destruct (copy_into 99 (st_zsd st) off size []); cbn [bind] in E; discriminate. }
  destruct (Z.eqb_spec ty 10) as [T10|T10].
  { right. right. right. left. split; [exact T10|]. destruct (st_ci st) eqn:K.
    - left. split; [discriminate|]. injection E as <-. reflexivity.
    - right. split; [reflexivity|].
      destruct (client_info_unmarshal p) as [ci| |]; cbn [bind] in E; try discriminate.
      injection E as <-. exists ci. auto. }
  right. right. right. right. repeat split; try assumption.
  all: destruct (is_optional ty); [|injection E as <-; reflexivity].
  all: destruct (has_opt ty (st_opt st) || _); [injection E as <-; reflexivity|].
  all: destruct (it_ok it); injection E as <-; reflexivity.
Qed.

Lemma step_ok_exists data st it :
  zlen (st_zsd st) = zlen data -> bounds_ok data it ->
  (ity it = 1 -> st_kvi st = None -> it_ok it = true) ->
  (ity it = 6 -> st_srv st = None -> exists r, sig_unmarshal (zlen data) (buf_bytes data it) = Ok r) ->
  (ity it = 7 -> st_kdc st = None -> exists r, sig_unmarshal (zlen data) (buf_bytes data it) = Ok r) ->
  (ity it = 10 -> st_ci st = None -> exists ci, client_info_unmarshal (buf_bytes data it) = Ok ci) ->
  exists st', step data st it = Ok st'.
Proof.
  unfold bounds_ok, buf_bytes, ity, ioff, isize. intros Hz (O0 & S0 & OS) H1 H6 H7 H10. unfold step.
  set (off := ib_off (it_buf it)) in *. set (size := ib_size (it_buf it)) in *. set (ty := ib_type (it_buf it)) in *.
  destruct (Z.ltb_spec (zlen data) off); [lia|]. cbn [orb].
  destruct (Z.ltb_spec (zlen data - off) size); [lia|].
  rewrite galloc_ok by lia. cbn [bind]. rewrite gslice_ok by lia. cbn [bind].
  set (p := slice data off (off + size)) in *.
  assert (Lp : zlen p = size) by (unfold p; rewrite zlen_slice; lia).
  destruct (Z.eqb_spec ty 1) as [T1|T1].
  { destruct (st_kvi st) eqn:K; [eauto|]. rewrite H1 by auto. eauto. }
  destruct (Z.eqb_spec ty 2); [eauto|].
  destruct (Z.eqb_spec ty 6) as [T6|T6].
  { destruct (st_srv st) eqn:K; [eauto|]. destruct (H6 T6 eq_refl) as [[sd zb] U]. rewrite U.
    destruct (sig_unmarshal_zero_field (zlen data) p sd zb ltac:(lia) U) as [_ Lzb].
    rewrite copy_into_splice by (unfold zlen in *; lia). cbn [bind]. eauto. }
  destruct (Z.eqb_spec ty 7) as [T7|T7].
  { destruct (st_kdc st) eqn:K; [eauto|]. destruct (H7 T7 eq_refl) as [[sd zb] U]. rewrite U.
    destruct (sig_unmarshal_zero_field (zlen data) p sd zb ltac:(lia) U) as [_ Lzb].
    rewrite copy_into_splice by (unfold zlen in *; lia). cbn [bind]. eauto. }
  destruct (Z.eqb_spec ty 10) as [T10|T10].
  { destruct (st_ci st) eqn:K; [eauto|]. destruct (H10 T10 eq_refl) as [ci U]. rewrite U. cbn [bind]. eauto. }
  destruct (is_optional ty); [|eauto]. destruct (has_opt ty (st_opt st) || _); [eauto|]. destruct (it_ok it); eauto.
Qed.

(* ---------- first-of-type semantics of the loop, generically for one field ---------- *)

Definition first_of (ty : Z) (its : list item) : option item := find (fun it => ity it =? ty) its.

Lemma zeros_length n : length (zeros n) = n.
Proof. unfold zeros. induction n; cbn; auto. Qed.

Lemma splice_length (z : bytes) off src : (Z.to_nat off + length src <= length z)%nat ->
  length (splice z off src) = length z.
Proof. intros H. unfold splice. rewrite !app_length, firstn_length, skipn_length. lia. Qed.

Lemma step_zlen data st it st' : zlen (st_zsd st) = zlen data -> step data st it = Ok st' ->
  zlen (st_zsd st') = zlen data.
Proof.
  intros Hz S. destruct (step_inv _ _ _ _ Hz S) as
    ((B0 & B1 & B2) & [ (T & [ (N & ->) | (N & O & ->) ])
         | [ (T & [ (N & ->) | (N & sd & zb & U & ->) ])
         | [ (T & [ (N & ->) | (N & sd & zb & U & ->) ])
         | [ (T & [ (N & ->) | (N & ci & U & ->) ])
         | (T1 & T6 & T7 & T10 & (U1 & U6 & U7 & U10 & Uz)) ]]]]); cbn; try assumption; try congruence.
  all: assert (Lb : zlen (buf_bytes data it) = isize it) by (unfold buf_bytes; rewrite zlen_slice; lia).
  all: destruct (sig_unmarshal_zero_field (zlen data) (buf_bytes data it) sd zb ltac:(lia) U) as [_ Lzb].
  all: unfold zlen in *; rewrite splice_length; lia.
Qed.

Lemma loop_zlen data its : forall st st', zlen (st_zsd st) = zlen data ->
  process_loop data its st = Ok st' -> zlen (st_zsd st') = zlen data.
Proof.
  induction its as [|it its IH]; intros st st' Hz; cbn [process_loop].
  - intros E; injection E as <-; exact Hz.
  - destruct (step data st it) as [st1| |] eqn:S; cbn [bind]; try discriminate.
    apply IH. eapply step_zlen; eauto.
Qed.

Section Field.
  Variable data : bytes.
  Variable A : Type.
  Variable get : pstate -> option A.
  Variable ty : Z.
  Variable val : item -> option A.
  Hypothesis keep : forall st it st' x, zlen (st_zsd st) = zlen data ->
    step data st it = Ok st' -> get st = Some x -> get st' = Some x.
  Hypothesis other : forall st it st', zlen (st_zsd st) = zlen data ->
    step data st it = Ok st' -> get st = None -> ity it <> ty -> get st' = None.
  Hypothesis hit : forall st it st', zlen (st_zsd st) = zlen data ->
    step data st it = Ok st' -> get st = None -> ity it = ty -> exists v, val it = Some v /\ get st' = Some v.

  Lemma loop_keep its : forall st st' x, zlen (st_zsd st) = zlen data ->
    process_loop data its st = Ok st' -> get st = Some x -> get st' = Some x.
  Proof.
    induction its as [|it its IH]; intros st st' x Hz; cbn [process_loop].
    - intros E; injection E as <-; auto.
    - destruct (step data st it) as [st1| |] eqn:S; cbn [bind]; try discriminate.
      intros E G. apply (IH st1 st' x (step_zlen _ _ _ _ Hz S) E). exact (keep _ _ _ _ Hz S G).
  Qed.

  Lemma loop_first its : forall st st', zlen (st_zsd st) = zlen data ->
    process_loop data its st = Ok st' -> get st = None ->
    match first_of ty its with
    | Some it => exists v, val it = Some v /\ get st' = Some v
    | None => get st' = None
    end.
  Proof.
    induction its as [|it its IH]; intros st st' Hz; cbn [process_loop].
    - intros E G; injection E as <-; exact G.
    - destruct (step data st it) as [st1| |] eqn:S; cbn [bind]; try discriminate.
      pose proof (step_zlen _ _ _ _ Hz S) as T.
      intros E G. unfold first_of. cbn [find]. destruct (Z.eqb_spec (ity it) ty) as [Ty|Ty].
      + destruct (hit _ _ _ Hz S G Ty) as (v & Hv & Gv). exists v. split; [exact Hv|].
        exact (loop_keep its st1 st' v T E Gv).
      + apply (IH st1 st' T E). exact (other _ _ _ Hz S G Ty).
  Qed.

  Lemma carry st it st1 : zlen (st_zsd st) = zlen data -> step data st it = Ok st1 -> get st1 = None ->
    get st = None /\ ity it <> ty.
  Proof.
    intros Hz S G. destruct (get st) eqn:G0.
    - rewrite (keep _ _ _ _ Hz S G0) in G. discriminate.
    - split; [reflexivity|]. intros Ty. destruct (hit _ _ _ Hz S G0 Ty) as (v & _ & Gv). congruence.
  Qed.
End Field.

(* the four mandatory fields *)

Definition val_kvi (it : item) : option Z := if it_ok it then Some (it_idx it) else None.
Definition val_sig (data : bytes) (it : item) : option sigdata :=
  match sig_unmarshal (zlen data) (buf_bytes data it) with Ok (sd, _) => Some sd | _ => None end.
Definition val_ci (data : bytes) (it : item) : option (Z * clientinfo) :=
  match client_info_unmarshal (buf_bytes data it) with Ok ci => Some (it_idx it, ci) | _ => None end.

Ltac step_cases Hz S :=
  let B := fresh "B" in
  destruct (step_inv _ _ _ _ Hz S) as
    (B & [ (T & [ (N & ->) | (N & O & ->) ])
         | [ (T & [ (N & ->) | (N & sd & zb & U & ->) ])
         | [ (T & [ (N & ->) | (N & sd & zb & U & ->) ])
         | [ (T & [ (N & ->) | (N & ci & U & ->) ])
         | (T1 & T6 & T7 & T10 & (U1 & U6 & U7 & U10 & Uz)) ]]]]).

Lemma kvi_keep data st it st' x : zlen (st_zsd st) = zlen data -> step data st it = Ok st' -> st_kvi st = Some x -> st_kvi st' = Some x.
Proof. intros Hz S G. step_cases Hz S; cbn; try congruence. Qed.
Lemma kvi_other data st it st' : zlen (st_zsd st) = zlen data -> step data st it = Ok st' -> st_kvi st = None -> ity it <> 1 -> st_kvi st' = None.
Proof. intros Hz S G Ty. step_cases Hz S; cbn; try congruence. Qed.
Lemma kvi_hit data st it st' : zlen (st_zsd st) = zlen data -> step data st it = Ok st' -> st_kvi st = None -> ity it = 1 ->
  exists v, val_kvi it = Some v /\ st_kvi st' = Some v.
Proof. intros Hz S G Ty. step_cases Hz S; cbn; try congruence. unfold val_kvi. rewrite O. eauto. Qed.

Lemma srv_keep data st it st' x : zlen (st_zsd st) = zlen data -> step data st it = Ok st' -> st_srv st = Some x -> st_srv st' = Some x.
Proof. intros Hz S G. step_cases Hz S; cbn; try congruence. Qed.
Lemma srv_other data st it st' : zlen (st_zsd st) = zlen data -> step data st it = Ok st' -> st_srv st = None -> ity it <> 6 -> st_srv st' = None.
Proof. intros Hz S G Ty. step_cases Hz S; cbn; try congruence. Qed.
Lemma srv_hit data st it st' : zlen (st_zsd st) = zlen data -> step data st it = Ok st' -> st_srv st = None -> ity it = 6 ->
  exists v, val_sig data it = Some v /\ st_srv st' = Some v.
Proof. intros Hz S G Ty. step_cases Hz S; cbn; try congruence. unfold val_sig. rewrite U. eauto. Qed.

Lemma kdc_keep data st it st' x : zlen (st_zsd st) = zlen data -> step data st it = Ok st' -> st_kdc st = Some x -> st_kdc st' = Some x.
Proof. intros Hz S G. step_cases Hz S; cbn; try congruence. Qed.
Lemma kdc_other data st it st' : zlen (st_zsd st) = zlen data -> step data st it = Ok st' -> st_kdc st = None -> ity it <> 7 -> st_kdc st' = None.
Proof. intros Hz S G Ty. step_cases Hz S; cbn; try congruence. Qed.
Lemma kdc_hit data st it st' : zlen (st_zsd st) = zlen data -> step data st it = Ok st' -> st_kdc st = None -> ity it = 7 ->
  exists v, val_sig data it = Some v /\ st_kdc st' = Some v.
Proof. intros Hz S G Ty. step_cases Hz S; cbn; try congruence. unfold val_sig. rewrite U. eauto. Qed.

Lemma ci_keep data st it st' x : zlen (st_zsd st) = zlen data -> step data st it = Ok st' -> st_ci st = Some x -> st_ci st' = Some x.
Proof. intros Hz S G. step_cases Hz S; cbn; try congruence. Qed.
Lemma ci_other data st it st' : zlen (st_zsd st) = zlen data -> step data st it = Ok st' -> st_ci st = None -> ity it <> 10 -> st_ci st' = None.
Proof. intros Hz S G Ty. step_cases Hz S; cbn; try congruence. Qed.
Lemma ci_hit data st it st' : zlen (st_zsd st) = zlen data -> step data st it = Ok st' -> st_ci st = None -> ity it = 10 ->
  exists v, val_ci data it = Some v /\ st_ci st' = Some v.
Proof. intros Hz S G Ty. step_cases Hz S; cbn; try congruence. unfold val_ci. rewrite U. eauto. Qed.

(* ---------- every buffer of an accepted PAC lies inside it ---------- *)

Lemma loop_bounds data its : forall st st', zlen (st_zsd st) = zlen data ->
  process_loop data its st = Ok st' -> Forall (bounds_ok data) its.
Proof.
  induction its as [|it its IH]; intros st st' Hz; cbn [process_loop]; [constructor|].
  destruct (step data st it) as [st1| |] eqn:S; cbn [bind]; try discriminate.
  intros E. constructor.
  - destruct (step_inv _ _ _ _ Hz S) as [B _]. exact B.
  - eapply IH; [eapply step_zlen; eauto|exact E].
Qed.

(* ---------- the image that is signed: the loop computes zero_loop ---------- *)

Definition is_some {A} (o : option A) : bool := match o with Some _ => true | None => false end.

Lemma annotate_bufs t : forall i dec, map it_buf (annotate i t dec) = t.
Proof. induction t as [|b t IH]; intros i dec; cbn [annotate]; [reflexivity|]. destruct dec; cbn [map it_buf]; rewrite IH; reflexivity. Qed.

Lemma bounds_in_bounds data it : bounds_ok data it -> in_bounds data (it_buf it) = true.
Proof.
  unfold bounds_ok, in_bounds, ioff, isize. intros (A & B & C).
  destruct (Z.leb_spec 0 (ib_off (it_buf it))), (Z.leb_spec 0 (ib_size (it_buf it))),
           (Z.leb_spec (ib_off (it_buf it) + ib_size (it_buf it)) (zlen data)); cbn; auto; lia.
Qed.

Lemma zero_loop_skip data s6 s7 b r z : in_bounds data b = true ->
  (ib_type b =? 6) && negb s6 = false -> (ib_type b =? 7) && negb s7 = false ->
  zero_loop data s6 s7 (b :: r) z = zero_loop data s6 s7 r z.
Proof. intros B A6 A7. cbn [zero_loop]. rewrite B, A6, A7. reflexivity. Qed.

Lemma zero_loop_6 data s7 b r z zb : in_bounds data b = true -> ib_type b = 6 ->
  zero_field (slice data (ib_off b) (ib_off b + ib_size b)) = Some zb ->
  zero_loop data false s7 (b :: r) z = zero_loop data true s7 r (splice z (ib_off b) zb).
Proof. intros B T Z. cbn [zero_loop]. rewrite B, T, Z. reflexivity. Qed.

Lemma zero_loop_7 data s6 b r z zb : in_bounds data b = true -> ib_type b = 7 ->
  zero_field (slice data (ib_off b) (ib_off b + ib_size b)) = Some zb ->
  zero_loop data s6 false (b :: r) z = zero_loop data s6 true r (splice z (ib_off b) zb).
Proof. intros B T Z. cbn [zero_loop]. rewrite B, T, Z. cbn. reflexivity. Qed.

Lemma loop_zsd data its : forall st st', zlen (st_zsd st) = zlen data ->
  process_loop data its st = Ok st' ->
  st_zsd st' = zero_loop data (is_some (st_srv st)) (is_some (st_kdc st)) (map it_buf its) (st_zsd st).
Proof.
  induction its as [|it its IH]; intros st st' Hz; cbn [process_loop map].
  - intros E; injection E as <-; reflexivity.
  - destruct (step data st it) as [st1| |] eqn:S; cbn [bind]; try discriminate.
    intros E. rewrite (IH st1 st' (step_zlen _ _ _ _ Hz S) E). clear IH E.
    destruct (step_inv _ _ _ _ Hz S) as
      (B & [ (T & [ (N & ->) | (N & O & ->) ])
           | [ (T & [ (N & ->) | (N & sd & zb & U & ->) ])
           | [ (T & [ (N & ->) | (N & sd & zb & U & ->) ])
           | [ (T & [ (N & ->) | (N & ci & U & ->) ])
           | (T1 & T6 & T7 & T10 & (U1 & U6 & U7 & U10 & Uz)) ]]]]).
    all: pose proof (bounds_in_bounds _ _ B) as IB; unfold ity in *.
    all: try (assert (Lb : zlen (buf_bytes data it) <= zlen data)
               by (destruct B as (? & ? & ?); unfold buf_bytes; rewrite zlen_slice; lia)).
    + rewrite zero_loop_skip; [reflexivity|exact IB|rewrite T; reflexivity|rewrite T; reflexivity].
    + cbn [set_kvi st_srv st_kdc st_zsd].
      rewrite zero_loop_skip; [reflexivity|exact IB|rewrite T; reflexivity|rewrite T; reflexivity].
    + destruct (st_srv st); [|congruence]. cbn [is_some].
      rewrite zero_loop_skip; [reflexivity|exact IB|apply andb_false_r|rewrite T; reflexivity].
    + rewrite N. cbn [set_srv st_srv st_kdc st_zsd is_some].
      destruct (sig_unmarshal_zero_field (zlen data) (buf_bytes data it) sd zb Lb U) as [ZF _].
      rewrite (zero_loop_6 data _ (it_buf it) _ _ zb IB T ZF). reflexivity.
    + destruct (st_kdc st); [|congruence]. cbn [is_some].
      rewrite zero_loop_skip; [reflexivity|exact IB|rewrite T; reflexivity|apply andb_false_r].
    + rewrite N. cbn [set_kdc st_srv st_kdc st_zsd is_some].
      destruct (sig_unmarshal_zero_field (zlen data) (buf_bytes data it) sd zb Lb U) as [ZF _].
      rewrite (zero_loop_7 data _ (it_buf it) _ _ zb IB T ZF). reflexivity.
    + rewrite zero_loop_skip; [reflexivity|exact IB|rewrite T; reflexivity|rewrite T; reflexivity].
    + cbn [set_ci st_srv st_kdc st_zsd].
      rewrite zero_loop_skip; [reflexivity|exact IB|rewrite T; reflexivity|rewrite T; reflexivity].
    + rewrite U6, U7, Uz.
      rewrite zero_loop_skip; [reflexivity|exact IB| |].
      * destruct (Z.eqb_spec (ib_type (it_buf it)) 6); [contradiction|reflexivity].
      * destruct (Z.eqb_spec (ib_type (it_buf it)) 7); [contradiction|reflexivity].
Qed.

(* ---------- completeness of the loop ---------- *)

Lemma first_of_skip ty it r : ity it <> ty -> first_of ty (it :: r) = first_of ty r.
Proof. intros H. unfold first_of. cbn [find]. destruct (Z.eqb_spec (ity it) ty); [contradiction|reflexivity]. Qed.

Lemma first_of_here ty it r : ity it = ty -> first_of ty (it :: r) = Some it.
Proof. intros H. unfold first_of. cbn [find]. destruct (Z.eqb_spec (ity it) ty); [reflexivity|contradiction]. Qed.

Lemma loop_complete data its : forall st, zlen (st_zsd st) = zlen data -> Forall (bounds_ok data) its ->
  (st_kvi st = None -> forall it, first_of 1 its = Some it -> val_kvi it <> None) ->
  (st_srv st = None -> forall it, first_of 6 its = Some it -> val_sig data it <> None) ->
  (st_kdc st = None -> forall it, first_of 7 its = Some it -> val_sig data it <> None) ->
  (st_ci st = None -> forall it, first_of 10 its = Some it -> val_ci data it <> None) ->
  exists st', process_loop data its st = Ok st'.
Proof.
  induction its as [|it its IH]; intros st Hz HB H1 H6 H7 H10; cbn [process_loop]; [eauto|].
  inversion HB as [|? ? Bit Brest]; subst.
  destruct (step_ok_exists data st it Hz Bit) as [st1 S].
  - intros T N. specialize (H1 N it (first_of_here _ _ _ T)). unfold val_kvi in H1. destruct (it_ok it); congruence.
  - intros T N. specialize (H6 N it (first_of_here _ _ _ T)). unfold val_sig in H6.
    destruct (sig_unmarshal (zlen data) (buf_bytes data it)) as [r| |]; [eauto|congruence|congruence].
  - intros T N. specialize (H7 N it (first_of_here _ _ _ T)). unfold val_sig in H7.
    destruct (sig_unmarshal (zlen data) (buf_bytes data it)) as [r| |]; [eauto|congruence|congruence].
  - intros T N. specialize (H10 N it (first_of_here _ _ _ T)). unfold val_ci in H10.
    destruct (client_info_unmarshal (buf_bytes data it)) as [r| |]; [eauto|congruence|congruence].
  - rewrite S. cbn [bind]. apply IH; [eapply step_zlen; eauto|exact Brest| | | |].
    + intros N1 it' F. destruct (carry data Z st_kvi 1 val_kvi (kvi_keep data) (kvi_hit data) st it st1 Hz S N1) as [N0 Ty].
      apply (H1 N0). rewrite first_of_skip by exact Ty. exact F.
    + intros N1 it' F. destruct (carry data sigdata st_srv 6 (val_sig data) (srv_keep data) (srv_hit data) st it st1 Hz S N1) as [N0 Ty].
      apply (H6 N0). rewrite first_of_skip by exact Ty. exact F.
    + intros N1 it' F. destruct (carry data sigdata st_kdc 7 (val_sig data) (kdc_keep data) (kdc_hit data) st it st1 Hz S N1) as [N0 Ty].
      apply (H7 N0). rewrite first_of_skip by exact Ty. exact F.
    + intros N1 it' F. destruct (carry data _ st_ci 10 (val_ci data) (ci_keep data) (ci_hit data) st it st1 Hz S N1) as [N0 Ty].
      apply (H10 N0). rewrite first_of_skip by exact Ty. exact F.
Qed.

(* ---------- the acceptance set ---------- *)

Definition items_of (data : bytes) (dec : list Z) : list item :=
  annotate 0 (table_at data (Z.to_nat (cbuffers data))) dec.

Definition accept_spec (data key : bytes) (dec : list Z) : Prop :=
  (* header and table fit the input (the count is checked against the input length) *)
  header_ok data /\
  (* every buffer of the table, whatever its type, lies inside the PAC *)
  Forall (bounds_ok data) (items_of data dec) /\
  (* mandatory buffers: the FIRST of each type exists and decodes *)
  (exists it, first_of 1 (items_of data dec) = Some it /\ it_ok it = true) /\
  (exists it ci, first_of 10 (items_of data dec) = Some it /\ client_info_unmarshal (buf_bytes data it) = Ok ci) /\
  (exists it sd, first_of 7 (items_of data dec) = Some it /\ sig_spec (buf_bytes data it) sd) /\
  (* the server signature: declared type -> etype, keyed checksum with usage 17 over the zeroed image *)
  (exists it sd et, first_of 6 (items_of data dec) = Some it /\ sig_spec (buf_bytes data it) sd /\
       etype_of_chksum_type (sint 32 (sd_type sd)) = Some et /\
       checksum et key 17 (zero_sigs data) = Ok (sd_sig sd)).

Lemma buf_bytes_le data it : bounds_ok data it -> zlen (buf_bytes data it) <= zlen data.
Proof. intros (A & B & C). unfold buf_bytes. rewrite zlen_slice; lia. Qed.

Lemma val_sig_spec data it sd : bounds_ok data it -> val_sig data it = Some sd <-> sig_spec (buf_bytes data it) sd.
Proof.
  intros B. pose proof (buf_bytes_le _ _ B) as L. unfold val_sig. split.
  - destruct (sig_unmarshal (zlen data) (buf_bytes data it)) as [[sd' zb]| |] eqn:U; try discriminate.
    intros E; injection E as ->. apply sig_unmarshal_iff in U; [tauto|exact L].
  - intros S. assert (sig_unmarshal (zlen data) (buf_bytes data it) = Ok (sd, zeroed (buf_bytes data it))) as ->
      by (apply sig_unmarshal_iff; [exact L|auto]). reflexivity.
Qed.

Lemma first_of_In ty its it : first_of ty its = Some it -> In it its.
Proof. unfold first_of. intros H. apply find_some in H. tauto. Qed.

Lemma table_of_eq data pt : pac_unmarshal data = Ok pt -> table_of data = pt_buffers pt.
Proof. intros E. unfold table_of. rewrite E. reflexivity. Qed.

Theorem pac_accept_iff data key dec :
  (exists st, pac_process data key dec = Ok st) <-> accept_spec data key dec.
Proof.
  unfold pac_process, accept_spec, items_of. split.
  - intros [stf E].
    destruct (pac_unmarshal data) as [pt| |] eqn:EU; cbn [bind] in E; try discriminate.
    pose proof (table_of_eq _ _ EU) as TO.
    apply pac_unmarshal_iff in EU. destruct EU as [HO ->]. cbn [pt_buffers] in *.
    set (its := annotate 0 (table_at data (Z.to_nat (cbuffers data))) dec) in *.
    destruct (process_loop data its (init_state data)) as [st| |] eqn:EL; cbn [bind] in E; try discriminate.
    destruct (pac_verify key st) as [[]| |] eqn:EV; cbn [bind] in E; try discriminate.
    assert (Hz : zlen (st_zsd (init_state data)) = zlen data) by reflexivity.
    pose proof (loop_bounds _ _ _ _ Hz EL) as HB.
    pose proof (loop_first data Z st_kvi 1 val_kvi (kvi_keep data) (kvi_other data) (kvi_hit data) its _ _ Hz EL eq_refl) as F1.
    pose proof (loop_first data _ st_srv 6 (val_sig data) (srv_keep data) (srv_other data) (srv_hit data) its _ _ Hz EL eq_refl) as F6.
    pose proof (loop_first data _ st_kdc 7 (val_sig data) (kdc_keep data) (kdc_other data) (kdc_hit data) its _ _ Hz EL eq_refl) as F7.
    pose proof (loop_first data _ st_ci 10 (val_ci data) (ci_keep data) (ci_other data) (ci_hit data) its _ _ Hz EL eq_refl) as F10.
    pose proof (loop_zsd _ _ _ _ Hz EL) as ZS. cbn [init_state st_srv st_kdc st_zsd is_some] in ZS.
    unfold its in ZS at 1. rewrite annotate_bufs, <- TO in ZS. fold (zero_sigs data) in ZS.
    unfold pac_verify in EV.
    destruct (st_kvi st) as [k|] eqn:K; [|discriminate].
    destruct (st_srv st) as [sd|] eqn:SR; [|discriminate].
    destruct (st_kdc st) as [kd|] eqn:KD; [|discriminate].
    destruct (st_ci st) as [ci|] eqn:CI; [|discriminate].
    destruct (etype_of_chksum_type (sint 32 (sd_type sd))) as [et|] eqn:ET; [|discriminate].
    destruct (verify_checksum et key 17 (st_zsd st) (sd_sig sd)) eqn:VC; [|discriminate].
    apply verify_checksum_iff in VC. rewrite ZS in VC.
    split; [exact HO|]. split; [exact HB|].
    assert (forall it, In it its -> bounds_ok data it) as HBi by (apply Forall_forall; exact HB).
    repeat split.
    + destruct (first_of 1 its) as [it|] eqn:F; [|congruence]. destruct F1 as (v & Hv & _).
      exists it. split; [reflexivity|]. unfold val_kvi in Hv. destruct (it_ok it); [reflexivity|discriminate].
    + destruct (first_of 10 its) as [it|] eqn:F; [|congruence]. destruct F10 as (v & Hv & _).
      unfold val_ci in Hv. destruct (client_info_unmarshal (buf_bytes data it)) as [c| |] eqn:CU; try discriminate.
      exists it, c. auto.
    + destruct (first_of 7 its) as [it|] eqn:F; [|congruence]. destruct F7 as (v & Hv & _).
      exists it, v. split; [reflexivity|]. apply val_sig_spec; [apply HBi, first_of_In with 7, F|exact Hv].
    + destruct (first_of 6 its) as [it|] eqn:F; [|congruence]. destruct F6 as (v & Hv & Gv).
      assert (v = sd) as -> by congruence.
      exists it, sd, et. split; [reflexivity|]. split; [apply val_sig_spec; [apply HBi, first_of_In with 6, F|exact Hv]|].
      split; [exact ET|exact VC].
  - intros (HO & HB & (i1 & F1 & O1) & (i10 & ci & F10 & C10) & (i7 & sd7 & F7 & S7) & (i6 & sd & et & F6 & S6 & ET & CK)).
    assert (EU : pac_unmarshal data = Ok (mkPac (cbuffers data) (le_val (firstn 4 (skipn 4 data))) (table_at data (Z.to_nat (cbuffers data)))))
      by (apply pac_unmarshal_iff; auto).
    pose proof (table_of_eq _ _ EU) as TO. rewrite EU. cbn [bind pt_buffers] in *.
    set (its := annotate 0 (table_at data (Z.to_nat (cbuffers data))) dec) in *.
    assert (Hz : zlen (st_zsd (init_state data)) = zlen data) by reflexivity.
    assert (forall it, In it its -> bounds_ok data it) as HBi by (apply Forall_forall; exact HB).
    destruct (loop_complete data its (init_state data) Hz HB) as [st EL].
    + intros _ it F. assert (it = i1) as -> by congruence. unfold val_kvi. rewrite O1. discriminate.
    + intros _ it F. assert (it = i6) as -> by congruence.
      apply (val_sig_spec data i6 sd (HBi _ (first_of_In _ _ _ F6))) in S6. congruence.
    + intros _ it F. assert (it = i7) as -> by congruence.
      apply (val_sig_spec data i7 sd7 (HBi _ (first_of_In _ _ _ F7))) in S7. congruence.
    + intros _ it F. assert (it = i10) as -> by congruence. unfold val_ci. rewrite C10. discriminate.
    + rewrite EL. cbn [bind].
      pose proof (loop_first data Z st_kvi 1 val_kvi (kvi_keep data) (kvi_other data) (kvi_hit data) its _ _ Hz EL eq_refl) as G1.
      pose proof (loop_first data _ st_srv 6 (val_sig data) (srv_keep data) (srv_other data) (srv_hit data) its _ _ Hz EL eq_refl) as G6.
      pose proof (loop_first data _ st_kdc 7 (val_sig data) (kdc_keep data) (kdc_other data) (kdc_hit data) its _ _ Hz EL eq_refl) as G7.
      pose proof (loop_first data _ st_ci 10 (val_ci data) (ci_keep data) (ci_other data) (ci_hit data) its _ _ Hz EL eq_refl) as G10.
      rewrite F1 in G1. rewrite F6 in G6. rewrite F7 in G7. rewrite F10 in G10.
      destruct G1 as (v1 & _ & K1). destruct G6 as (v6 & V6 & K6). destruct G7 as (v7 & _ & K7). destruct G10 as (v10 & _ & K10).
      apply (val_sig_spec data i6 sd (HBi _ (first_of_In _ _ _ F6))) in S6. assert (v6 = sd) as -> by congruence.
      pose proof (loop_zsd _ _ _ _ Hz EL) as ZS. cbn [init_state st_srv st_kdc st_zsd is_some] in ZS.
      unfold its in ZS at 1. rewrite annotate_bufs, <- TO in ZS. fold (zero_sigs data) in ZS.
      unfold pac_verify. rewrite K1, K6, K7, K10, ET.
      assert (verify_checksum et key 17 (st_zsd st) (sd_sig sd) = true) as -> by (apply verify_checksum_iff; rewrite ZS; exact CK).
      cbn [bind]. eauto.
Qed.
