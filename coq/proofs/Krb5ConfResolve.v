(* Gokrb5.proofs.Krb5ConfResolve — Config.ResolveRealm returns the most specific mapping.

   The code tries the whole name, then for i = 2 .. Count(name, ".")+1 the key "." + last(SplitN(name, ".", i)).
   [dot_suffixes] is the independent description of those keys: the suffixes of the name that begin at a
   dot, longest first. *)
From Coq Require Import String Sorted.
From Gokrb5.lib Require Import Bytes GoString.
From Gokrb5.model Require Import Krb5Conf.
Open Scope Z_scope.

Fixpoint dot_suffixes (s : bytes) : list bytes :=
  match s with
  | [] => []
  | c :: t => if c =? 46 then (c :: t) :: dot_suffixes t else dot_suffixes t
  end.

(* s is a suffix of h that starts with a dot *)
Definition is_dot_suffix (s h : bytes) : Prop := exists p t, h = p ++ s /\ s = 46 :: t.

Fixpoint first_mapped (m : dmap) (l : list bytes) : bytes :=
  match l with
  | [] => []
  | s :: r => match lookup s m with Some x => x | None => first_mapped m r end
  end.

Lemma dot_suffixes_nodot a : ~ In 46 a -> forall b, dot_suffixes (a ++ b) = dot_suffixes b.
Proof.
  induction a as [|x a IH]; intros H b; [reflexivity|]. cbn.
  destruct (Z.eqb_spec x 46) as [->|_]; [exfalso; apply H; left; reflexivity|].
  apply IH. intros E; apply H; right; exact E.
Qed.

Lemma dot_suffixes_cut_some s a b : cut 46 s = Some (a, b) -> dot_suffixes s = (46 :: b) :: dot_suffixes b.
Proof.
  intros H. destruct (cut_spec _ _ _ _ H) as [-> Hn].
  rewrite dot_suffixes_nodot by exact Hn. cbn. reflexivity.
Qed.

Lemma dot_suffixes_cut_none s : cut 46 s = None -> dot_suffixes s = [].
Proof.
  intros H. apply cut_none in H. rewrite <- (app_nil_r s). rewrite dot_suffixes_nodot by exact H. reflexivity.
Qed.

Lemma count_dot_suffixes s : count_byte 46 s = length (dot_suffixes s).
Proof.
  unfold count_byte. induction s as [|c t IH]; [reflexivity|]. cbn [filter dot_suffixes].
  rewrite (Z.eqb_sym 46 c). destruct (c =? 46); cbn [length]; now rewrite IH.
Qed.

Lemma after_cuts_nth k : forall s, (k < length (dot_suffixes s))%nat ->
  46 :: after_cuts 46 (S k) s = nth k (dot_suffixes s) [].
Proof.
  induction k as [|k IH]; intros s Hk.
  - cbn [after_cuts]. destruct (cut 46 s) as [[a b]|] eqn:E.
    + rewrite (dot_suffixes_cut_some _ _ _ E). reflexivity.
    + rewrite (dot_suffixes_cut_none _ E) in Hk. cbn in Hk; lia.
  - change (after_cuts 46 (S (S k)) s) with
      (match cut 46 s with Some (_, b) => after_cuts 46 (S k) b | None => s end).
    destruct (cut 46 s) as [[a b]|] eqn:E.
    + rewrite (dot_suffixes_cut_some _ _ _ E) in *. cbn [nth]. apply IH. cbn in Hk; lia.
    + rewrite (dot_suffixes_cut_none _ E) in Hk. cbn in Hk; lia.
Qed.

Lemma splitn_nonempty c n s : splitn c (S n) s <> [].
Proof.
  destruct n; cbn; [discriminate|]. destruct (cut c s) as [[? ?]|]; discriminate.
Qed.

Lemma gindex_last {A} site (l : list A) d : l <> [] -> gindex site l (zlen l - 1) = Ok (last l d).
Proof.
  intros H. unfold gindex.
  assert (0 < zlen l) by (destruct l; [congruence|rewrite zlen_cons; pose proof (zlen_nonneg l); lia]).
  destruct (Z.leb_spec 0 (zlen l - 1)); [|lia].
  replace (Z.to_nat (zlen l - 1)) with (length l - 1)%nat by (unfold zlen; lia).
  clear -H. induction l as [|x l IH]; [congruence|].
  destruct l as [|y l]; [reflexivity|].
  cbn [length last]. replace (S (S (length l)) - 1)%nat with (S (length l)) by lia.
  cbn [nth_error]. specialize (IH ltac:(discriminate)). cbn [length] in IH.
  replace (S (length l) - 1)%nat with (length l) in IH by lia. exact IH.
Qed.

Lemma skipn_nth {A} (l : list A) k d : (k < length l)%nat -> skipn k l = nth k l d :: skipn (S k) l.
Proof.
  revert l; induction k as [|k IH]; intros [|x l] H; cbn in *; try lia; [reflexivity|].
  apply IH; lia.
Qed.

Lemma rr_loop_spec m h : forall todo k, (k + todo = length (dot_suffixes h))%nat ->
  rr_loop m h (S (S k)) todo = Ok (first_mapped m (skipn k (dot_suffixes h))).
Proof.
  induction todo as [|t IH]; intros k Hk.
  - cbn. rewrite skipn_all2 by lia. reflexivity.
  - cbn [rr_loop].
    rewrite (gindex_last 50 (splitn 46 (S (S k)) h) ([] : bytes)) by apply splitn_nonempty.
    cbn [bind]. rewrite splitn_last.
    rewrite (skipn_nth (dot_suffixes h) k ([] : bytes)) by lia. cbn [first_mapped].
    rewrite after_cuts_nth by lia.
    destruct (lookup (nth k (dot_suffixes h) []) m); [reflexivity|].
    apply IH. lia.
Qed.

(* the code computes: exact mapping, else the first mapped dotted suffix, else "" *)
Lemma resolve_realm_eq m name :
  resolve_realm m name =
  Ok (let h := trim_suffix name [46] in
      match lookup h m with Some r => r | None => first_mapped m (dot_suffixes h) end).
Proof.
  unfold resolve_realm. cbv zeta. destruct (lookup (trim_suffix name [46]) m); [reflexivity|].
  rewrite count_dot_suffixes. rewrite (rr_loop_spec m _ _ 0%nat) by lia. reflexivity.
Qed.

Lemma resolve_realm_never_panics m name : is_ok (resolve_realm m name) = true.
Proof. now rewrite resolve_realm_eq. Qed.

(* ---- the independent reading of dot_suffixes ---- *)
Lemma dot_suffixes_in s h : In s (dot_suffixes h) <-> is_dot_suffix s h.
Proof.
  unfold is_dot_suffix. induction h as [|c t IH]; cbn.
  - split; [tauto|]. intros (p & u & E & ->). destruct p; discriminate.
  - destruct (Z.eqb_spec c 46) as [->|Hc]; cbn.
    + split.
      * intros [<-|H]; [exists [], t; auto|].
        apply IH in H. destruct H as (p & u & -> & ->). exists (46 :: p), u; auto.
      * intros (p & u & E & ->). destruct p as [|x p]; cbn in E.
        -- left; now rewrite E.
        -- right. apply IH. inversion E; subst. exists p, u; auto.
    + split.
      * intros H. apply IH in H. destruct H as (p & u & -> & ->). exists (c :: p), u; auto.
      * intros (p & u & E & ->). destruct p as [|x p]; cbn in E.
        -- inversion E; congruence.
        -- apply IH. inversion E; subst. exists p, u; auto.
Qed.

Lemma dot_suffixes_len s h : In s (dot_suffixes h) -> (length s <= length h)%nat.
Proof.
  intros H. apply dot_suffixes_in in H. destruct H as (p & u & -> & _). rewrite app_length; lia.
Qed.

Lemma dot_suffixes_sorted h : StronglySorted (fun a b => (length a > length b)%nat) (dot_suffixes h).
Proof.
  induction h as [|c t IH]; cbn; [constructor|].
  destruct (c =? 46); [|exact IH]. constructor; [exact IH|].
  apply Forall_forall. intros x Hx. apply dot_suffixes_len in Hx. cbn; lia.
Qed.

Lemma first_mapped_spec m l : StronglySorted (fun a b => (length a > length b)%nat) l ->
  (exists s, In s l /\ lookup s m = Some (first_mapped m l) /\
             forall s', In s' l -> (length s' > length s)%nat -> lookup s' m = None)
  \/ ((forall s, In s l -> lookup s m = None) /\ first_mapped m l = []).
Proof.
  induction 1 as [|x l Hs IH Hx]; cbn [first_mapped].
  - right. split; [intros s []|reflexivity].
  - destruct (lookup x m) as [r|] eqn:E.
    + left. exists x. split; [left; reflexivity|]. split; [exact E|].
      intros s' [<-|Hin] Hlen; [lia|].
      rewrite Forall_forall in Hx. specialize (Hx _ Hin). lia.
    + destruct IH as [(s & Hin & Hl & Hmax)|[Hnone Hr]].
      * left. exists s. split; [right; exact Hin|]. split; [exact Hl|].
        intros s' [<-|Hin'] Hlen; [exact E|]. now apply Hmax.
      * right. split; [|exact Hr]. intros s [<-|Hin]; [exact E|now apply Hnone].
Qed.

(* ResolveRealm returns the exact mapping if there is one, else the mapping of the longest suffix of the
   name that begins at a dot and is mapped, else "" — for every mapping and every name (a single trailing
   dot of the name is dropped first). *)
Theorem resolve_realm_most_specific : forall (m : dmap) (name : bytes),
  let h := trim_suffix name [46] in
  exists r, resolve_realm m name = Ok r /\
  match lookup h m with
  | Some x => r = x
  | None =>
    (exists s, is_dot_suffix s h /\ lookup s m = Some r /\
               forall s', is_dot_suffix s' h -> (length s' > length s)%nat -> lookup s' m = None)
    \/ ((forall s, is_dot_suffix s h -> lookup s m = None) /\ r = [])
  end.
Proof.
  intros m name h. rewrite resolve_realm_eq. fold h. cbv zeta.
  eexists; split; [reflexivity|].
  destruct (lookup h m) as [x|] eqn:E; [reflexivity|].
  destruct (first_mapped_spec m _ (dot_suffixes_sorted h)) as [(s & Hin & Hl & Hmax)|[Hnone Hr]].
  - left. exists s. split; [now apply dot_suffixes_in|]. split; [exact Hl|].
    intros s' Hs'. apply Hmax. now apply dot_suffixes_in.
  - right. split; [|exact Hr]. intros s Hs. apply Hnone. now apply dot_suffixes_in.
Qed.

(* the hypotheses are satisfiable: host.sub.example.com with mappings for .example.com, .sub.example.com
   and a bare sub.example.com resolves to the longer dotted suffix; the bare key only matches itself *)
Example resolve_example :
  let m := [(bs ".example.com", bs "EX"); (bs "sub.example.com", bs "BARE"); (bs ".sub.example.com", bs "SUB")] in
  resolve_realm m (bs "host.sub.example.com") = Ok (bs "SUB") /\
  resolve_realm m (bs "sub.example.com.") = Ok (bs "BARE") /\
  resolve_realm m (bs "other.example.com") = Ok (bs "EX") /\
  resolve_realm m (bs "example.com") = Ok [] /\
  is_dot_suffix (bs ".sub.example.com") (bs "host.sub.example.com").
Proof.
  cbv zeta. repeat split; try (vm_compute; reflexivity).
  exists (bs "host"), (bs "sub.example.com"). split; reflexivity.
Qed.
