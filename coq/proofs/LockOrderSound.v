(* Soundness of the lock-order checker with respect to call chains.  `nested evs h l` says: along some chain of
   same-package calls of ANY depth, lock l is acquired while lock h is held.  If the table of "locks a call may
   acquire" is closed under one more level of calls (a check done by computation on the generated events) and every
   edge computed from it is ranked upwards, then every nested pair is ranked upwards. *)
From Coq Require Import String List Bool Arith Lia.
Import ListNotations.
From Gokrb5.model Require Import LockOrder.
Open Scope string_scope.

(* ---- the semantic notions ---- *)
Inductive reach_acq (evs : list lev) : string -> string -> Prop :=
| RA_here f l held : In (Acq f l held) evs -> reach_acq evs f l
| RA_call f g held l : In (Call f g held) evs -> reach_acq evs g l -> reach_acq evs f l.

Inductive nested (evs : list lev) : string -> string -> Prop :=
| N_here f l held h : In (Acq f l held) evs -> In h held -> nested evs h l
| N_call f g held h l : In (Call f g held) evs -> In h held -> reach_acq evs g l -> nested evs h l.

(* ---- list-of-strings facts ---- *)
Lemma mem_In s l : mem s l = true <-> In s l.
Proof.
  unfold mem. rewrite existsb_exists. split.
  - intros (x & Hx & E). apply String.eqb_eq in E. now subst.
  - intros H. exists s. split; [exact H|apply String.eqb_refl].
Qed.

Lemma add_In s x l : In s (add x l) <-> s = x \/ In s l.
Proof.
  unfold add. destruct (mem x l) eqn:E.
  - apply mem_In in E. split; [auto|]. intros [->|H]; auto.
  - cbn. intuition.
Qed.

Lemma union_In s a b : In s (union a b) <-> In s a \/ In s b.
Proof.
  unfold union. induction a as [|x a IH]; cbn [fold_right]; [cbn; tauto|].
  rewrite add_In, IH. cbn. intuition.
Qed.

Lemma fns_In evs e : In e evs -> In (fn_of e) (fns evs).
Proof.
  unfold fns. induction evs as [|x evs IH]; intros H; [destruct H|].
  cbn [map fold_right]. rewrite add_In. destruct H as [->|H]; auto.
Qed.

(* one closure step, characterised *)
Lemma step_acq_In evs cur f l :
  In l (step_acq evs cur f) <->
  (exists held, In (Acq f l held) evs) \/ (exists g held, In (Call f g held) evs /\ In l (cur g)).
Proof.
  unfold step_acq. induction evs as [|e evs IH]; cbn [fold_right].
  - split; [intros []|]. intros [(h & [])|(g & h & [] & _)].
  - destruct e as [g l0 held|g c held|g w held].
    + destruct (String.eqb_spec g f) as [->|Ne].
      * rewrite add_In, IH. split.
        -- intros [->|[(h & H)|(g' & h & H & Hl)]]; [left; exists held; left; reflexivity|left; exists h; right; exact H|right; exists g', h; split; [right; exact H|exact Hl]].
        -- intros [(h & [E|H])|(g' & h & [E|H] & Hl)]; try discriminate.
           ++ injection E as <- <-. left. reflexivity.
           ++ right. left. exists h. exact H.
           ++ right. right. exists g', h. auto.
      * rewrite IH. split.
        -- intros [(h & H)|(g' & h & H & Hl)]; [left; exists h; right; exact H|right; exists g', h; split; [right; exact H|exact Hl]].
        -- intros [(h & [E|H])|(g' & h & [E|H] & Hl)]; try discriminate.
           ++ injection E as E1 _ _. congruence.
           ++ left. exists h. exact H.
           ++ right. exists g', h. auto.
    + destruct (String.eqb_spec g f) as [->|Ne].
      * rewrite union_In, IH. split.
        -- intros [Hc|[(h & H)|(g' & h & H & Hl)]]; [right; exists c, held; split; [left; reflexivity|exact Hc]|left; exists h; right; exact H|right; exists g', h; split; [right; exact H|exact Hl]].
        -- intros [(h & [E|H])|(g' & h & [E|H] & Hl)]; try discriminate.
           ++ right. left. exists h. exact H.
           ++ injection E as <- <-. left. exact Hl.
           ++ right. right. exists g', h. auto.
      * rewrite IH. split.
        -- intros [(h & H)|(g' & h & H & Hl)]; [left; exists h; right; exact H|right; exists g', h; split; [right; exact H|exact Hl]].
        -- intros [(h & [E|H])|(g' & h & [E|H] & Hl)]; try discriminate.
           ++ left. exists h. exact H.
           ++ injection E as E1 _ _. congruence.
           ++ right. exists g', h. auto.
    + rewrite IH. split.
      * intros [(h & H)|(g' & h & H & Hl)]; [left; exists h; right; exact H|right; exists g', h; split; [right; exact H|exact Hl]].
      * intros [(h & [E|H])|(g' & h & [E|H] & Hl)]; try discriminate.
        -- left. exists h. exact H.
        -- right. exists g', h. auto.
Qed.

(* ---- the closure check ---- *)
Definition subset (a b : list string) : bool := forallb (fun s => mem s b) a.

Definition closed_table (evs : list lev) (t : table) : bool :=
  forallb (fun f => subset (step_acq evs (look t) f) (look t f)) (fns evs).

Lemma subset_In a b : subset a b = true -> forall s, In s a -> In s b.
Proof. unfold subset. rewrite forallb_forall. intros H s Hs. apply mem_In, H, Hs. Qed.

Theorem closed_table_complete evs t :
  closed_table evs t = true -> forall f l, reach_acq evs f l -> In l (look t f).
Proof.
  intros Hc f l R. unfold closed_table in Hc. rewrite forallb_forall in Hc.
  induction R as [f l held Hin|f g held l Hin R IH].
  - apply (subset_In _ _ (Hc f (fns_In evs _ Hin))). apply step_acq_In. left. exists held. exact Hin.
  - apply (subset_In _ _ (Hc f (fns_In evs _ Hin))). apply step_acq_In. right. exists g, held. auto.
Qed.

(* ---- edges from a table ---- *)
Definition edges_t (t : table) (evs : list lev) : list (string * string) :=
  flat_map (fun e =>
    match e with
    | Acq _ l held => map (fun h => (h, l)) held
    | Call _ c held => flat_map (fun h => map (fun l => (h, l)) (look t c)) held
    | Block _ _ _ => []
    end) evs.

Lemma edges_is_edges_t evs : edges evs = edges_t (may_acquire evs) evs.
Proof. reflexivity. Qed.

Theorem nested_in_edges evs t :
  closed_table evs t = true -> forall h l, nested evs h l -> In (h, l) (edges_t t evs).
Proof.
  intros Hc h l N. unfold edges_t. apply in_flat_map. destruct N as [f l held h Hin Hh|f g held h l Hin Hh R].
  - exists (Acq f l held). split; [exact Hin|]. apply in_map_iff. exists h. auto.
  - exists (Call f g held). split; [exact Hin|]. apply in_flat_map. exists h. split; [exact Hh|].
    apply in_map_iff. exists l. split; [reflexivity|]. apply (closed_table_complete evs t Hc). exact R.
Qed.

(* ---- the checker's verdict means: every nested pair goes strictly up in rank ---- *)
Definition lock_order_sound_check (ranks : list (string * nat)) (evs : list lev) : bool :=
  closed_table evs (may_acquire evs) && lock_order_ok ranks evs.

Theorem lock_order_check_sound ranks evs :
  lock_order_sound_check ranks evs = true ->
  forall h l, nested evs h l ->
  exists rh rl, rank_of ranks h = Some rh /\ rank_of ranks l = Some rl /\ rh < rl.
Proof.
  unfold lock_order_sound_check, lock_order_ok. intros H h l N.
  apply andb_true_iff in H. destruct H as [Hc H]. apply andb_true_iff in H. destruct H as [He _].
  rewrite forallb_forall in He. rewrite edges_is_edges_t in He.
  specialize (He (h, l) (nested_in_edges evs _ Hc h l N)). unfold edge_ok in He. cbn [fst snd] in He.
  destruct (rank_of ranks h) as [rh|]; [|discriminate]. destruct (rank_of ranks l) as [rl|]; [|discriminate].
  exists rh, rl. repeat split. apply Nat.ltb_lt. exact He.
Qed.

(* in particular no lock class is acquired again while it is held, through any chain of calls *)
Corollary lock_order_no_reentry ranks evs :
  lock_order_sound_check ranks evs = true -> forall l, ~ nested evs l l.
Proof.
  intros H l N. destruct (lock_order_check_sound ranks evs H l l N) as (a & b & Ha & Hb & Hlt).
  rewrite Ha in Hb. injection Hb as <-. lia.
Qed.

(* ---- blocking channel operations under a lock ---- *)
Inductive reach_block (evs : list lev) : string -> Prop :=
| RB_here f w held : In (Block f w held) evs -> reach_block evs f
| RB_call f g held : In (Call f g held) evs -> reach_block evs g -> reach_block evs f.

Inductive blocks_under_lock (evs : list lev) : Prop :=
| BU_here f w h held : In (Block f w (h :: held)) evs -> blocks_under_lock evs
| BU_call f g h held : In (Call f g (h :: held)) evs -> reach_block evs g -> blocks_under_lock evs.

Definition closed_block (evs : list lev) (b : list string) : bool :=
  forallb (fun f => negb (step_block evs (fun c => mem c b) f) || mem f b) (fns evs).

Lemma step_block_true evs cur f :
  step_block evs cur f = true <->
  (exists w held, In (Block f w held) evs) \/ (exists g held, In (Call f g held) evs /\ cur g = true).
Proof.
  unfold step_block. rewrite existsb_exists. split.
  - intros (e & Hin & He). destruct e as [g l held|g c held|g w held]; [discriminate| |].
    + apply andb_true_iff in He. destruct He as [E Hc]. apply String.eqb_eq in E. subst g. right. exists c, held. auto.
    + apply String.eqb_eq in He. subst g. left. exists w, held. exact Hin.
  - intros [(w & held & Hin)|(g & held & Hin & Hc)].
    + exists (Block f w held). split; [exact Hin|apply String.eqb_refl].
    + exists (Call f g held). split; [exact Hin|]. now rewrite String.eqb_refl, Hc.
Qed.

Theorem closed_block_complete evs b :
  closed_block evs b = true -> forall f, reach_block evs f -> In f b.
Proof.
  intros Hc f R. unfold closed_block in Hc. rewrite forallb_forall in Hc.
  induction R as [f w held Hin|f g held Hin R IH].
  - specialize (Hc f (fns_In evs _ Hin)). apply orb_true_iff in Hc. destruct Hc as [Hc|Hc]; [|apply mem_In, Hc].
    apply negb_true_iff in Hc. assert (step_block evs (fun c => mem c b) f = true) as T
      by (apply step_block_true; left; exists w, held; exact Hin). congruence.
  - specialize (Hc f (fns_In evs _ Hin)). apply orb_true_iff in Hc. destruct Hc as [Hc|Hc]; [|apply mem_In, Hc].
    apply negb_true_iff in Hc. assert (step_block evs (fun c => mem c b) f = true) as T
      by (apply step_block_true; right; exists g, held; split; [exact Hin|apply mem_In, IH]). congruence.
Qed.

Definition no_block_sound_check (evs : list lev) : bool :=
  closed_block evs (may_block evs) && no_block_under_lock evs.

Theorem no_block_check_sound evs : no_block_sound_check evs = true -> ~ blocks_under_lock evs.
Proof.
  unfold no_block_sound_check, no_block_under_lock. intros H B.
  apply andb_true_iff in H. destruct H as [Hc Hn].
  destruct (blocking_under_lock evs) as [|x xs] eqn:E; [|discriminate].
  assert (forall p, ~ In p (blocking_under_lock evs)) as Hempty by (rewrite E; intros p []).
  unfold blocking_under_lock in Hempty.
  destruct B as [f w h held Hin|f g h held Hin R].
  - apply (Hempty (f, w)). apply in_flat_map. exists (Block f w (h :: held)). split; [exact Hin|left; reflexivity].
  - apply (Hempty (f, g)). apply in_flat_map. exists (Call f g (h :: held)). split; [exact Hin|].
    pose proof (closed_block_complete evs _ Hc g R) as Hg. apply mem_In in Hg. rewrite Hg. left; reflexivity.
Qed.
