(* Whole-history form of the replay property: over ANY history of presentations, clean-ups and (non-negative)
   clock advances, from ANY cache state, no authenticator is accepted twice - not only "a second presentation
   is rejected while it is fresh" but also "once it has aged out and been cleaned up it can never pass the skew
   check again", which is what makes dropping old entries safe. *)
From Gokrb5.lib Require Import Bytes JV.
From Gokrb5.model Require Import Replay.
From Gokrb5.proofs Require Import ReplayProofs.

(* the authenticator is remembered, or is already too old for the skew check (and stays so: the clock is monotone) *)
Definition guarded (d : Z) (a : auth) (s : state) : Prop := In a (cache s) \/ d < now s - a_ct a.

Lemma guarded_step d a s o :
  guarded d a s -> (match o with Advance dt => 0 <= dt | _ => True end) -> guarded d a (fst (step d s o)).
Proof.
  unfold guarded. intros G Ho. destruct o as [b| |dt]; cbn.
  - destruct (negb (acceptable d (now s) b)); cbn; [exact G|].
    destruct (existsb _ _); cbn; [exact G|]. destruct G as [G|G]; [left; right; exact G|right; exact G].
  - destruct G as [G|G]; [|right; exact G].
    destruct (Z.ltb_spec d (now s - a_ct a)) as [L|L]; [right; exact L|].
    left. apply filter_In. split; [exact G|]. destruct (Z.ltb_spec d (now s - a_ct a)); [lia|reflexivity].
  - destruct G as [G|G]; [left; exact G|right; lia].
Qed.

Lemma guarded_not_accepted d a s :
  guarded d a s -> snd (step d s (Present a)) <> VAccept.
Proof.
  unfold guarded. intros G. cbn. unfold acceptable.
  destruct (Z.ltb_spec d (Z.abs (now s - a_ct a))) as [L|L]; cbn; [discriminate|].
  destruct G as [G|G]; [|lia]. apply existsb_auth in G. rewrite G. cbn. discriminate.
Qed.

Lemma guarded_never_accepted d a ops : forall s,
  guarded d a s -> nonneg_advances ops -> ~ In a (accepted d s ops).
Proof.
  induction ops as [|o r IH]; intros s G H; cbn [accepted]; [intros []|].
  inversion H as [|? ? Ho Hr]; subst.
  pose proof (guarded_step d a s o G Ho) as G1.
  pose proof (guarded_not_accepted d a s G) as NA.
  destruct (step d s o) as [s1 v] eqn:E1. cbn [fst] in G1.
  specialize (IH s1 G1 Hr).
  destruct o as [b| |dt]; try exact IH. destruct v; try exact IH.
  intros [E|Hin]; [|exact (IH Hin)]. subst b. rewrite E1 in NA. cbn in NA. congruence.
Qed.

Lemma accept_guards d s a s1 : step d s (Present a) = (s1, VAccept) -> guarded d a s1.
Proof.
  cbn. destruct (negb (acceptable d (now s) a)); [discriminate|].
  destruct (existsb _ _); [discriminate|]. intros E. injection E as <-. left. cbn. left; reflexivity.
Qed.

Theorem accepted_NoDup d ops : forall s, nonneg_advances ops -> NoDup (accepted d s ops).
Proof.
  induction ops as [|o r IH]; intros s H; cbn [accepted]; [constructor|].
  inversion H as [|? ? Ho Hr]; subst.
  destruct (step d s o) as [s1 v] eqn:E1. specialize (IH s1 Hr).
  destruct o as [b| |dt]; try exact IH. destruct v; try exact IH.
  constructor; [|exact IH]. apply guarded_never_accepted; [|exact Hr]. eapply accept_guards; exact E1.
Qed.

(* the list of accepted authenticators is what the verdicts say *)
Lemma accepted_length d ops : forall s, length (accepted d s ops) = count_accept (snd (run d s ops)).
Proof.
  induction ops as [|o r IH]; intros s; cbn [accepted run]; [reflexivity|].
  destruct (step d s o) as [s1 v] eqn:E1. specialize (IH s1).
  destruct (run d s1 r) as [s2 vs] eqn:E2. cbn [snd] in *.
  destruct o as [b| |dt].
  - destruct v; cbn [count_accept length]; congruence.
  - cbn in E1. injection E1 as _ <-. cbn [count_accept]. exact IH.
  - cbn in E1. injection E1 as _ <-. cbn [count_accept]. exact IH.
Qed.

(* an authenticator already remembered (or already stale) when the history starts is never accepted in it *)
Theorem remembered_never_accepted d s a ops :
  In a (cache s) -> nonneg_advances ops -> ~ In a (accepted d s ops).
Proof. intros Hin. apply guarded_never_accepted. left; exact Hin. Qed.

(* clean-up is invisible to verdicts on fresh authenticators: a Clear changes no later verdict for an
   authenticator that still passes the skew check at the time it is presented *)
Lemma clear_preserves_fresh d s a :
  acceptable d (now s) a = true ->
  snd (step d (fst (step d s Clear)) (Present a)) = snd (step d s (Present a)).
Proof.
  intros Ha. cbn. rewrite Ha. cbn [negb].
  assert (existsb (auth_eqb a) (filter (fun e => negb (d <? now s - a_ct e)) (cache s)) = existsb (auth_eqb a) (cache s)) as E.
  { destruct (existsb (auth_eqb a) (cache s)) eqn:Ex.
    - apply existsb_auth. apply existsb_auth in Ex. apply filter_In. split; [exact Ex|].
      unfold acceptable in Ha. destruct (Z.ltb_spec d (Z.abs (now s - a_ct a))); [discriminate|].
      destruct (Z.ltb_spec d (now s - a_ct a)); [lia|reflexivity].
    - destruct (existsb (auth_eqb a) (filter _ (cache s))) eqn:Ef; [|reflexivity].
      apply existsb_auth in Ef. apply filter_In in Ef. destruct Ef as [Ef _].
      apply existsb_auth in Ef. congruence. }
  rewrite E. clear E. destruct (existsb (auth_eqb a) (cache s)); reflexivity.
Qed.
