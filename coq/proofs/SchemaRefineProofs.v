(* Gokrb5.proofs.SchemaRefineProofs — what the computed refinement check buys: if the code's wire schema refines
   the RFC schema, every well-formed value of the code's schema is a well-formed value of the RFC schema with
   the SAME encoding; hence (with the codec's decode_encode) a decoder written from the RFC reads every encoding
   the code produces back to the same field values. *)
From Gokrb5.lib Require Import Bytes JV.
From Gokrb5.model Require Import Schema DER DERCodec SchemaRefine.
From Gokrb5.proofs Require Import DERBasic DERProofs.
From Coq Require Import String.

Local Open Scope Z_scope.

Lemma tag_eqb_eq a b : tag_eqb a b = true -> a = b.
Proof.
  destruct a, b; simpl; try discriminate; try reflexivity.
  intros H. apply Z.eqb_eq in H. subst. reflexivity.
Qed.

Definition same_enc (c : ty) : Prop :=
  forall r v, schema_refines c r = true -> wf_val c v = true -> wf_val r v = true /\ enc r v = enc c v.

Lemma same_enc_fields cs : Forall (fun f => same_enc (snd f)) cs ->
  forall rs vs, fields_refine schema_refines cs rs = true -> wf_fields wf_val cs vs = true ->
    wf_fields wf_val rs vs = true /\ enc_fields enc rs vs = enc_fields enc cs vs.
Proof.
  induction 1 as [| [[ctag copt] ct] cs Hc _ IH]; intros rs vs HR HW.
  - destruct rs; [|discriminate]. destruct vs; [|discriminate]. split; reflexivity.
  - destruct rs as [| [[rtag ropt] rt] rs]; [discriminate|].
    cbn [fields_refine] in HR. rewrite !andb_true_iff in HR. destruct HR as [[[Ht Ho] Hty] Hrest].
    apply tag_eqb_eq in Ht. subst rtag.
    destruct vs as [| o vs]; [discriminate|].
    cbn [wf_fields] in HW. apply andb_true_iff in HW. destruct HW as [Hv Hvs].
    destruct (IH rs vs Hrest Hvs) as [IW IE].
    cbn [wf_fields enc_fields]. rewrite IW, IE. cbn [snd] in Hc.
    destruct o as [v|].
    + destruct (Hc rt v Hty Hv) as [W E]. rewrite W, E. split; reflexivity.
    + (* absent: the field is optional in the code, hence optional in the RFC *)
      subst copt. cbn [negb orb] in Ho. rewrite Ho. split; reflexivity.
Qed.

Theorem refines_same_encoding : forall c, same_enc c.
Proof.
  apply ty_ind'; unfold same_enc.
  1-8: intros r v HR HW; destruct r; try discriminate HR; split; [exact HW | reflexivity].
  - (* TSeq *) intros fs Hfs r v HR HW. destruct r; try discriminate HR. cbn [schema_refines] in HR.
    destruct v; try discriminate HW. cbn [wf_val enc] in *.
    destruct (same_enc_fields fs Hfs _ _ HR HW) as [W E]. rewrite W, E. split; reflexivity.
  - (* TSeqOf *) intros e IH r v HR HW. destruct r; try discriminate HR. cbn [schema_refines] in HR.
    destruct v; try discriminate HW. cbn [wf_val enc] in *.
    assert (H : forallb (wf_val r) vs = true /\ flat_map (enc r) vs = flat_map (enc e) vs).
    { induction vs as [| x vs IHvs]; [split; reflexivity|].
      cbn [forallb] in HW. apply andb_true_iff in HW. destruct HW as [Hx Hvs].
      destruct (IH r x HR Hx) as [W E]. destruct (IHvs Hvs) as [W' E'].
      cbn [forallb flat_map]. rewrite W, W', E, E'. split; reflexivity. }
    destruct H as [W E]. rewrite W, E. split; reflexivity.
  - (* TApp *) intros n t IH r v HR HW. destruct r; try discriminate HR. cbn [schema_refines] in HR.
    apply andb_true_iff in HR. destruct HR as [Hn HR]. apply Z.eqb_eq in Hn. subst.
    cbn [wf_val enc] in *. destruct (IH r v HR HW) as [W E]. rewrite W, E. split; reflexivity.
  - (* TRaw *) intros r v HR HW. destruct r; try discriminate HR. split; [exact HW | reflexivity].
Qed.

(* the code's encoder and the RFC's encoder agree on every value the code can encode *)
Corollary refines_encode c r v b :
  schema_refines c r = true -> encode c v = Some b -> encode r v = Some b.
Proof.
  intros HR HE. apply encode_some in HE. destruct HE as [HW ->].
  destruct (refines_same_encoding c r v HR HW) as [W E]. apply encode_some. split; [exact W | symmetry; exact E].
Qed.

(* an independent decoder written from the RFC schema reads the code's encoding to the same field values *)
Theorem rfc_decoder_reads_code_encoding c r v b :
  schema_refines c r = true -> schema_ok r = true ->
  encode c v = Some b -> zlen b < 2 ^ 32 ->
  decode_top r b = Some v.
Proof.
  intros HR Hok HE Hlen. pose proof (refines_encode c r v b HR HE) as HE'.
  apply (decode_top_encode r v b Hok (encode_wf _ _ _ HE') HE' Hlen).
Qed.

(* lifted to tables of named schemas *)
Theorem schemas_refine_sound gen rfc :
  schemas_refine gen rfc = true ->
  forall name g, In (name, g) gen ->
  exists r, lookup name rfc = Some r /\ schema_refines g r = true.
Proof.
  unfold schemas_refine. intros H name g Hin.
  rewrite forallb_forall in H. specialize (H _ Hin). unfold schema_refines_in in H. cbn [fst snd] in H.
  destruct (lookup name rfc) as [r|]; [|discriminate]. exists r. split; [reflexivity | exact H].
Qed.

(* refinement is reflexive (sanity: the checker accepts identical schemas) *)
Theorem schema_refines_refl : forall t, schema_refines t t = true.
Proof.
  apply ty_ind'; try reflexivity.
  - intros fs H. cbn [schema_refines]. induction H as [| [[tag o] t] fs Ht _ IH]; [reflexivity|].
    cbn [fields_refine]. cbn [snd] in Ht. rewrite Ht, IH.
    assert (tag_eqb tag tag = true) as -> by (destruct tag; simpl; [apply Z.eqb_refl | reflexivity]).
    destruct o; reflexivity.
  - intros e H. exact H.
  - intros n t H. cbn [schema_refines]. rewrite Z.eqb_refl, H. reflexivity.
Qed.

(* the check is not vacuous: a wrong tag, a wrong string kind, an optional-for-mandatory and a missing field are
   each rejected *)
Example refines_rejects :
  let rfc := TSeq [(Some 0, false, TInt); (Some 1, true, TGenStr)] in
  schema_refines (TSeq [(Some 0, false, TInt); (Some 1, false, TGenStr)]) rfc = true /\
  schema_refines (TSeq [(Some 0, false, TInt); (Some 2, true, TGenStr)]) rfc = false /\
  schema_refines (TSeq [(Some 0, false, TInt); (Some 1, true, TOctets)]) rfc = false /\
  schema_refines (TSeq [(Some 0, true, TInt); (Some 1, true, TGenStr)]) rfc = false /\
  schema_refines (TSeq [(Some 0, false, TInt)]) rfc = false.
Proof. repeat split. Qed.

Lemma lookup_forallb (P : ty -> bool) l : forallb (fun e : string * ty => P (snd e)) l = true ->
  forall n r, lookup n l = Some r -> P r = true.
Proof.
  induction l as [| [k t] l IH]; intros H n r L; [discriminate|].
  cbn [forallb snd] in H. apply andb_true_iff in H. destruct H as [Ht Hl].
  cbn [lookup] in L. destruct (String.eqb k n); [inversion L; subst; exact Ht | eapply IH; eauto].
Qed.

(* The form used by conform/ConfSchemas.v: from the two computed facts (the generated table refines the RFC
   table; every RFC schema is unambiguous) every encoding of a generated schema is read back by the RFC schema
   of the same name. *)
Theorem refinement_gives_interop gen rfc :
  schemas_refine gen rfc = true ->
  forallb (fun e : string * ty => schema_ok (snd e)) rfc = true ->
  forall name g v b, In (name, g) gen -> encode g v = Some b -> zlen b < 2 ^ 32 ->
  exists r, lookup name rfc = Some r /\ decode_top r b = Some v.
Proof.
  intros HR Hok name g v b Hin HE Hlen.
  destruct (schemas_refine_sound gen rfc HR name g Hin) as (r & L & R).
  exists r. split; [exact L|].
  apply (rfc_decoder_reads_code_encoding g r v b R (lookup_forallb schema_ok rfc Hok name r L) HE Hlen).
Qed.
