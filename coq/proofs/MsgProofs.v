(* Gokrb5.proofs.MsgProofs — Ticket.Marshal and MarshalTicketSequence.
   * repaired Ticket.Marshal does not depend on the decrypted part (it is literally not an input of the bytes);
   * the pinned Ticket.Marshal agrees with it on a ticket that was never decrypted, and is REFUTED on a
     decrypted one: the plaintext EncTicketPart is appended inside the Ticket SEQUENCE;
   * MarshalTicketSequence (hand-written 0x30 + MarshalLengthBytes) is the DER SEQUENCE OF Ticket, so the
     codec's decoder reads back the n tickets that were put in, for every n. *)
From Gokrb5.lib Require Import Bytes JV.
From Gokrb5.model Require Import Schema DER DERCodec RFCSchemas LenOctets Msg.
From Gokrb5.proofs Require Import DERBasic DERProofs LenOctetsProofs.

Local Open Scope Z_scope.

Theorem ticket_marshal_ignores_decrypted_part w d : ticket_marshal (mkTicket w d) = ticket_marshal (mkTicket w None).
Proof. reflexivity. Qed.

(* fields followed by one untagged OPTIONAL field that is absent *)
Lemma fields_app_absent t : forall (fs : list field) (vs : list (option value)),
  wf_fields wf_val fs vs = true ->
  wf_fields wf_val (fs ++ [(None, true, t)]) (vs ++ [None]) = true /\
  enc_fields enc (fs ++ [(None, true, t)]) (vs ++ [None]) = enc_fields enc fs vs.
Proof.
  induction fs as [| [[tag o] ft] fs IH]; intros vs H.
  - destruct vs; [|discriminate]. split; reflexivity.
  - destruct vs as [| v vs]; [discriminate|].
    cbn [wf_fields] in H. apply andb_true_iff in H. destruct H as [Hv Hr].
    destruct (IH vs Hr) as [W E]. cbn [app wf_fields enc_fields]. rewrite Hv, W, E. split; reflexivity.
Qed.

(* ... and present: its encoding is appended *)
Lemma fields_app_present t d : forall (fs : list field) (vs : list (option value)),
  wf_fields wf_val fs vs = true -> wf_val t d = true ->
  wf_fields wf_val (fs ++ [(None, true, t)]) (vs ++ [Some d]) = true /\
  enc_fields enc (fs ++ [(None, true, t)]) (vs ++ [Some d]) = enc_fields enc fs vs ++ enc t d.
Proof.
  induction fs as [| [[tag o] ft] fs IH]; intros vs H Hd.
  - destruct vs; [|discriminate]. cbn [app wf_fields enc_fields wrap_tag]. rewrite Hd, app_nil_r. split; reflexivity.
  - destruct vs as [| v vs]; [discriminate|].
    cbn [wf_fields] in H. apply andb_true_iff in H. destruct H as [Hv Hr].
    destruct (IH vs Hr Hd) as [W E]. cbn [app wf_fields enc_fields]. rewrite Hv, W, E, app_assoc. split; reflexivity.
Qed.

(* the pinned code is right as long as the ticket was never decrypted *)
Theorem ticket_marshal_orig_undecrypted w :
  wf_fields wf_val ticket_fields w = true ->
  ticket_marshal_orig (mkTicket w None) = ticket_marshal (mkTicket w None).
Proof.
  intros H. unfold ticket_marshal_orig, ticket_marshal, go_ticket_struct, encode. cbn [t_wire t_decrypted wf_val enc].
  destruct (fields_app_absent enc_ticket_part_seq ticket_fields w H) as [W E]. rewrite W, E, H. reflexivity.
Qed.

(* ... and appends the plaintext EncTicketPart SEQUENCE once it was *)
Theorem ticket_marshal_orig_appends_plaintext w d :
  wf_fields wf_val ticket_fields w = true -> wf_val enc_ticket_part_seq d = true ->
  ticket_marshal_orig (mkTicket w (Some d)) =
    Some (app_tag_1 (tlv id_seq (enc_fields enc ticket_fields w ++ enc enc_ticket_part_seq d))) /\
  ticket_marshal (mkTicket w (Some d)) = Some (app_tag_1 (tlv id_seq (enc_fields enc ticket_fields w))).
Proof.
  intros H Hd. unfold ticket_marshal_orig, ticket_marshal, go_ticket_struct, encode. cbn [t_wire t_decrypted wf_val enc].
  destruct (fields_app_present enc_ticket_part_seq d ticket_fields w H Hd) as [W E]. rewrite W, E, H. split; reflexivity.
Qed.

(* a concrete decrypted ticket: krbtgt/R@R, etype 18, and a minimal decrypted part *)
Definition ex_wire : list (option value) :=
  [Some (VInt 5); Some (VBytes [82]);
   Some (VSeq [Some (VInt 2); Some (VList [VBytes [107;114;98;116;103;116]; VBytes [82]])]);
   Some (VSeq [Some (VInt 18); Some (VInt 1); Some (VBytes [1;2;3;4])])].
Definition ex_decrypted : value :=
  VSeq [Some (VBits 0 [0;0;0;0]); Some (VSeq [Some (VInt 18); Some (VBytes [9;9;9;9])]); Some (VBytes [82]);
        Some (VSeq [Some (VInt 1); Some (VList [VBytes [117]])]); Some (VSeq [Some (VInt 0); Some (VBytes [])]);
        Some (VTime 1700000000); None; Some (VTime 1700003600); None; None; None].

Theorem ticket_marshal_orig_refuted :
  exists w d, ticket_marshal_orig (mkTicket w (Some d)) <> ticket_marshal_orig (mkTicket w None) /\
              ticket_marshal_orig (mkTicket w None) <> None.
Proof. exists ex_wire, ex_decrypted. split; vm_compute; discriminate. Qed.

Example ticket_marshal_orig_lengths :
  option_map (@length Z) (ticket_marshal_orig (mkTicket ex_wire None)) = Some 60%nat /\
  option_map (@length Z) (ticket_marshal_orig (mkTicket ex_wire (Some ex_decrypted))) = Some 162%nat /\
  option_map (@length Z) (ticket_marshal (mkTicket ex_wire (Some ex_decrypted))) = Some 60%nat.
Proof. vm_compute. repeat split. Qed.

(* ------------------------------------------------------------------ MarshalTicketSequence *)
Definition ticket_value (t : ticket) : value := VSeq (t_wire t).
Definition wf_ticket (t : ticket) : bool := wf_val rfc_Ticket (ticket_value t).

Lemma ticket_marshal_enc t : wf_ticket t = true -> ticket_marshal t = Some (enc rfc_Ticket (ticket_value t)).
Proof.
  unfold wf_ticket, ticket_value. intros H. unfold ticket_marshal, encode.
  change (wf_val rfc_Ticket (VSeq (t_wire t))) with (wf_val (TSeq ticket_fields) (VSeq (t_wire t))) in H.
  rewrite H. reflexivity.
Qed.

Lemma concat_marshal_enc ts : forallb wf_ticket ts = true ->
  concat_marshal ts = Some (flat_map (enc rfc_Ticket) (map ticket_value ts)).
Proof.
  induction ts as [| t r IH]; intros H; [reflexivity|].
  cbn [forallb] in H. apply andb_true_iff in H. destruct H as [Ht Hr].
  cbn [concat_marshal map flat_map]. rewrite (ticket_marshal_enc t Ht), (IH Hr). reflexivity.
Qed.

(* the hand-written framing is the DER SEQUENCE OF Ticket *)
Theorem ticket_seq_marshal_is_seqof ts b :
  ts <> [] -> forallb wf_ticket ts = true ->
  encode (TSeqOf rfc_Ticket) (VList (map ticket_value ts)) = Some b -> zlen b < 2 ^ 56 ->
  ticket_seq_marshal ts = Ok b.
Proof.
  intros Hne Hwf He Hlen. apply encode_some in He. destruct He as [_ ->].
  unfold ticket_seq_marshal. destruct ts as [| t r]; [congruence|].
  rewrite (concat_marshal_enc _ Hwf). cbn [enc] in *.
  set (body := flat_map (enc rfc_Ticket) (map ticket_value (t :: r))) in *.
  pose proof (zlen_tlv id_seq body) as Hz. pose proof (zlen_nonneg body).
  rewrite marshal_len_codec by lia. cbn [bind]. reflexivity.
Qed.

Lemma ticket_seq_schema_ok : schema_ok (TSeqOf rfc_Ticket) = true.
Proof. vm_compute. reflexivity. Qed.

(* round trip for every number of additional tickets *)
Theorem ticket_seq_roundtrip ts b :
  ts <> [] -> forallb wf_ticket ts = true ->
  encode (TSeqOf rfc_Ticket) (VList (map ticket_value ts)) = Some b -> zlen b < 2 ^ 32 ->
  ticket_seq_marshal ts = Ok b /\ decode_top (TSeqOf rfc_Ticket) b = Some (VList (map ticket_value ts)).
Proof.
  intros Hne Hwf He Hlen. split.
  - apply ticket_seq_marshal_is_seqof; auto. lia.
  - apply (decode_top_encode _ _ _ ticket_seq_schema_ok (encode_wf _ _ _ He) He Hlen).
Qed.

Theorem ticket_seq_empty : ticket_seq_marshal [] = Ok [].
Proof. reflexivity. Qed.

Example ticket_seq_ex :
  exists b, ticket_seq_marshal [mkTicket ex_wire None; mkTicket ex_wire (Some ex_decrypted)] = Ok b /\
            decode_top (TSeqOf rfc_Ticket) b = Some (VList [VSeq ex_wire; VSeq ex_wire]).
Proof. eexists. split; vm_compute; reflexivity. Qed.
