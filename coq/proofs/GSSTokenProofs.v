(* RFC 4121 token layout, decode/encode round trip, injectivity of the signed data, verification. *)
From Gokrb5.lib Require Import Bytes JV.
From Gokrb5.model Require Import GSSToken.

Lemma zeros_length n : length (zeros n) = n.
Proof. unfold zeros; induction n; cbn; auto. Qed.

Lemma zeros_add n m : zeros (n + m) = zeros n ++ zeros m.
Proof. unfold zeros; induction n; cbn; [reflexivity|now rewrite IHn]. Qed.

Lemma skipn_zeros k n : skipn k (zeros n) = zeros (n - k).
Proof.
  unfold zeros; revert k; induction n as [|n IH]; intros [|k]; cbn; auto.
Qed.

Lemma copy_zeros_step pre src n off :
  off = length pre -> (length src <= n)%nat ->
  copy_at (pre ++ zeros n) off src = (pre ++ src) ++ zeros (n - length src).
Proof.
  intros -> Hn. unfold copy_at. rewrite app_length, zeros_length.
  replace (length pre + n - length pre)%nat with n by lia.
  rewrite Nat.min_r by lia.
  rewrite firstn_app_exact, firstn_all.
  rewrite skipn_app, skipn_all2 by lia.
  replace (length pre + length src - length pre)%nat with (length src) by lia.
  rewrite skipn_zeros. cbn [app]. now rewrite <- app_assoc.
Qed.

Definition wf_wrap (t : wrap_token) : Prop :=
  0 <= wt_flags t < 256 /\ wt_ec t = zlen (wt_cksum t) /\ wt_ec t < 2 ^ 16 /\
  0 <= wt_rrc t < 2 ^ 16 /\ 0 <= wt_seq t < 2 ^ 64.

Definition wrap_hdr (t : wrap_token) : bytes :=
  [5; 4; wt_flags t; 255] ++ be_bytes 2 (wt_ec t) ++ be_bytes 2 (wt_rrc t) ++ be_bytes 8 (wt_seq t).

Lemma wrap_hdr_length t : length (wrap_hdr t) = 16%nat.
Proof. unfold wrap_hdr. rewrite !app_length, !be_bytes_length. reflexivity. Qed.

Lemma wrap_layout_hdr t : wrap_layout t = wrap_hdr t ++ wt_payload t ++ wt_cksum t.
Proof. unfold wrap_layout, wrap_hdr. now rewrite <- !app_assoc. Qed.

(* Marshal produces exactly the RFC 4121 4.2.6.2 layout *)
Theorem wrap_marshal_layout t : wf_wrap t -> wrap_marshal t = wrap_layout t.
Proof.
  intros (Hf & Hec & Hec16 & Hrrc & Hseq). unfold wrap_marshal.
  assert (Z.to_nat (wt_ec t) = length (wt_cksum t)) as Ec by (rewrite Hec; unfold zlen; apply Nat2Z.id).
  rewrite Ec.
  set (N := (16 + length (wt_payload t) + length (wt_cksum t))%nat).
  change (zeros N) with ([] ++ zeros N).
  rewrite (copy_zeros_step [] [5;4] N 0) by (cbn; lia).
  rewrite (copy_zeros_step _ [wrap 8 (wt_flags t)]) by (cbn; lia).
  rewrite (copy_zeros_step _ [255]) by (cbn; lia).
  rewrite (copy_zeros_step _ (be_bytes 2 (wt_ec t))) by (rewrite ?be_bytes_length; cbn; lia).
  rewrite (copy_zeros_step _ (be_bytes 2 (wt_rrc t)))
    by (rewrite ?app_length, ?be_bytes_length; cbn; lia).
  rewrite (copy_zeros_step _ (be_bytes 8 (wt_seq t)))
    by (rewrite ?app_length, ?be_bytes_length; cbn; lia).
  rewrite (copy_zeros_step _ (wt_payload t))
    by (rewrite ?app_length, ?be_bytes_length; cbn; lia).
  rewrite (copy_zeros_step _ (wt_cksum t))
    by (rewrite ?app_length, ?be_bytes_length; cbn; lia).
  rewrite !be_bytes_length. cbn [length].
  replace (N - 2 - 1 - 1 - 2 - 2 - 8 - length (wt_payload t) - length (wt_cksum t))%nat with 0%nat by lia.
  cbn [zeros repeatz]. rewrite app_nil_r.
  unfold wrap_layout, wrap. change (2 ^ 8) with 256. rewrite Z.mod_small by lia.
  cbn [app]. rewrite <- !app_assoc. reflexivity.
Qed.

Lemma slice_mid {A} (pre x rest : list A) lo hi :
  lo = zlen pre -> hi = lo + zlen x -> slice (pre ++ x ++ rest) lo hi = x.
Proof.
  intros -> ->. unfold slice.
  replace (zlen pre + zlen x - zlen pre) with (zlen x) by lia.
  unfold zlen. rewrite !Nat2Z.id, skipn_app_exact, firstn_app_exact. reflexivity.
Qed.

Lemma slice_suffix {A} (pre x : list A) lo hi :
  lo = zlen pre -> hi = lo + zlen x -> slice (pre ++ x) lo hi = x.
Proof. intros. rewrite <- (app_nil_r x) at 1. now apply slice_mid. Qed.

Definition wrap_from_acceptor (t : wrap_token) : bool := Z.land (wt_flags t) 1 =? 1.

(* Encoding a token and decoding it again returns the same fields *)
Theorem wrap_unmarshal_marshal t :
  wf_wrap t -> wrap_unmarshal (wrap_marshal t) (wrap_from_acceptor t) = Ok t.
Proof.
  intros Hwf. rewrite wrap_marshal_layout by assumption.
  destruct Hwf as (Hf & Hec & Hec16 & Hrrc & Hseq).
  pose proof (zlen_nonneg (wt_cksum t)) as Hc0. pose proof (zlen_nonneg (wt_payload t)) as Hp0.
  unfold wrap_unmarshal.
  assert (Hlen : zlen (wrap_layout t) = 16 + zlen (wt_payload t) + zlen (wt_cksum t)).
  { rewrite wrap_layout_hdr, !zlen_app. unfold zlen at 1. rewrite wrap_hdr_length. lia. }
  destruct (Nat.ltb_spec (length (wrap_layout t)) 16) as [Hlt|_];
    [unfold zlen in Hlen; lia|].
  assert (slice (wrap_layout t) 0 2 = [5; 4]) as -> by reflexivity.
  cbn [beq_bytes Z.eqb Pos.eqb andb negb].
  assert (nth 2 (wrap_layout t) 0 = wt_flags t) as -> by reflexivity.
  assert (nth 3 (wrap_layout t) 0 = 255) as -> by reflexivity.
  fold (wrap_from_acceptor t).
  destruct (wrap_from_acceptor t); cbn [andb negb Z.eqb Pos.eqb].
  all: assert (slice (wrap_layout t) 4 6 = be_bytes 2 (wt_ec t)) as ->
      by (unfold wrap_layout; apply (slice_mid [5; 4; wt_flags t; 255]); [reflexivity|unfold zlen; rewrite be_bytes_length; reflexivity]).
  all: rewrite be_val_be_bytes; change (256 ^ Z.of_nat 2) with (2 ^ 16); rewrite Z.mod_small by lia.
  all: rewrite Hlen; destruct (Z.ltb_spec (16 + zlen (wt_payload t) + zlen (wt_cksum t) - 16) (wt_ec t)); [lia|].
  all: assert (slice (wrap_layout t) 6 8 = be_bytes 2 (wt_rrc t)) as ->
      by (unfold wrap_layout; rewrite (app_assoc [5; 4; wt_flags t; 255]); apply slice_mid;
          [unfold zlen; rewrite app_length, be_bytes_length; reflexivity|unfold zlen; rewrite be_bytes_length; reflexivity]).
  all: assert (slice (wrap_layout t) 8 16 = be_bytes 8 (wt_seq t)) as ->
      by (unfold wrap_layout; rewrite (app_assoc [5; 4; wt_flags t; 255]), (app_assoc (_ ++ _) (be_bytes 2 (wt_rrc t))); apply slice_mid;
          [unfold zlen; rewrite !app_length, !be_bytes_length; reflexivity|unfold zlen; rewrite be_bytes_length; reflexivity]).
  all: rewrite !be_val_be_bytes; change (256 ^ Z.of_nat 2) with (2 ^ 16); change (256 ^ Z.of_nat 8) with (2 ^ 64);
       rewrite !Z.mod_small by lia.
  all: assert (Hh : zlen (wrap_hdr t) = 16) by (unfold zlen; now rewrite wrap_hdr_length).
  all: rewrite wrap_layout_hdr.
  all: rewrite (slice_mid (wrap_hdr t) (wt_payload t) (wt_cksum t)) by lia.
  all: rewrite (app_assoc (wrap_hdr t)), (slice_suffix (wrap_hdr t ++ wt_payload t) (wt_cksum t))
      by (rewrite ?zlen_app; lia).
  all: destruct t; reflexivity.
Qed.

(* hence Marshal is injective on well-formed tokens (same direction flag follows from same flags) *)
Corollary wrap_marshal_injective t1 t2 :
  wf_wrap t1 -> wf_wrap t2 -> wrap_marshal t1 = wrap_marshal t2 -> t1 = t2.
Proof.
  intros H1 H2 E.
  pose proof (wrap_unmarshal_marshal t1 H1) as U1. pose proof (wrap_unmarshal_marshal t2 H2) as U2.
  assert (wt_flags t1 = wt_flags t2) as Ef.
  { rewrite !wrap_marshal_layout in E by assumption. unfold wrap_layout in E. cbn in E. congruence. }
  unfold wrap_from_acceptor in *. rewrite E, Ef, U2 in U1. congruence.
Qed.

(* decoding rejects: short input, wrong token id, wrong filler, wrong direction *)
Theorem wrap_unmarshal_rejects b acc :
  (length b < 16)%nat \/ slice b 0 2 <> [5; 4] \/ nth 3 b 0 <> 255 \/
  (Z.land (nth 2 b 0) 1 =? 1) <> acc \/ zlen b - 16 < be_val (slice b 4 6) ->
  exists c, wrap_unmarshal b acc = Err c.
Proof.
  intros H. unfold wrap_unmarshal.
  destruct (Nat.ltb_spec (length b) 16); [eauto|].
  destruct (beq_bytes (slice b 0 2) [5; 4]) eqn:Eid; cbn [negb]; [|eauto].
  apply beq_bytes_eq in Eid.
  destruct (Z.land (nth 2 b 0) 1 =? 1) eqn:Ea, acc; cbn [andb negb]; eauto.
  all: destruct (Z.eqb_spec (nth 3 b 0) 255); cbn [negb]; eauto.
  all: destruct (Z.ltb_spec (zlen b - 16) (be_val (slice b 4 6))); eauto.
  all: exfalso; destruct H as [H|[H|[H|[H|H]]]]; try lia; congruence.
Qed.

(* the data the checksum covers is { payload | header with EC and RRC zeroed } as RFC 4121 4.2.4 says *)
Lemma copy_at_0_all (src : bytes) n :
  copy_at (zeros (length src + n)) 0 src = src ++ zeros n.
Proof.
  change (zeros (length src + n)) with ([] ++ zeros (length src + n)).
  rewrite (copy_zeros_step [] src) by (cbn; lia). cbn [app].
  now replace (length src + n - length src)%nat with n by lia.
Qed.

Lemma wrap_cksum_header_spec flags seq : 0 <= flags < 256 ->
  wrap_cksum_header flags seq = [5; 4; flags; 255; 0; 0; 0; 0] ++ be_bytes 8 seq.
Proof.
  intros Hf. unfold wrap_cksum_header. change (zeros 16) with ([] ++ zeros 16).
  rewrite (copy_zeros_step [] [5; 4; wrap 8 flags; 255; 0; 0; 0; 0]) by (cbn; lia).
  rewrite (copy_zeros_step _ (be_bytes 8 seq)) by (rewrite ?be_bytes_length; cbn; lia).
  rewrite be_bytes_length. cbn [length Nat.sub zeros repeatz app]. rewrite app_nil_r.
  unfold wrap. change (2 ^ 8) with 256. rewrite Z.mod_small by lia. reflexivity.
Qed.

Theorem wrap_cksum_input_spec t :
  0 <= wt_flags t < 256 -> wrap_cksum_input t = wrap_signed_data t.
Proof.
  intros Hf. unfold wrap_cksum_input, wrap_signed_data.
  rewrite Nat.add_comm, copy_at_0_all, wrap_cksum_header_spec by assumption.
  rewrite (copy_zeros_step (wt_payload t)); [|reflexivity|rewrite app_length, be_bytes_length; cbn; lia].
  rewrite app_length, be_bytes_length. cbn [length Nat.add Nat.sub zeros repeatz].
  now rewrite app_nil_r.
Qed.

(* every field except RRC and EC is bound by the checksum: the signed data determines them *)
Lemma app_inv_tail_len {A} (a b c d : list A) : length c = length d -> a ++ c = b ++ d -> a = b /\ c = d.
Proof.
  intros Hl E. assert (length a = length b) as Hab.
  { apply (f_equal (@length A)) in E. rewrite !app_length in E. lia. }
  revert b Hab E; induction a as [|x a IH]; intros [|y b] Hab E; cbn in *; try lia; [auto|].
  injection E as -> E. destruct (IH b ltac:(lia) E) as [-> ->]. auto.
Qed.

Lemma be_bytes_inj n a b : 0 <= a < 256 ^ Z.of_nat n -> 0 <= b < 256 ^ Z.of_nat n ->
  be_bytes n a = be_bytes n b -> a = b.
Proof.
  intros Ha Hb E. apply (f_equal be_val) in E. rewrite !be_val_be_bytes in E.
  rewrite !Z.mod_small in E by assumption. exact E.
Qed.

Theorem wrap_signed_data_injective t1 t2 :
  0 <= wt_seq t1 < 2 ^ 64 -> 0 <= wt_seq t2 < 2 ^ 64 ->
  wrap_signed_data t1 = wrap_signed_data t2 ->
  wt_payload t1 = wt_payload t2 /\ wt_flags t1 = wt_flags t2 /\ wt_seq t1 = wt_seq t2.
Proof.
  intros H1 H2 E. unfold wrap_signed_data in E.
  apply app_inv_tail_len in E; [|rewrite !app_length, !be_bytes_length; reflexivity].
  destruct E as [Ep Eh]. split; [exact Ep|].
  remember (be_bytes 8 _) as X in Eh. remember (be_bytes 8 _) as Y in Eh.
  cbn [app] in Eh. injection Eh as Ef Es. split; [exact Ef|]. subst X Y.
  apply (be_bytes_inj 8); auto.
Qed.

Section Keyed.
  Variable checksum : Z -> bytes -> Z -> bytes -> option bytes.

  (* Verify succeeds exactly when the carried checksum equals the keyed checksum of the signed data *)
  Theorem wrap_verify_iff t et key usage :
    wrap_verify checksum t et key usage = Some true <->
    checksum et key usage (wrap_cksum_input t) = Some (wt_cksum t).
  Proof.
    unfold wrap_verify, wrap_compute.
    destruct (checksum et key usage (wrap_cksum_input t)) as [c|]; [|split; discriminate].
    split.
    - intros H. injection H as H. apply beq_bytes_eq in H. now subst.
    - intros H. injection H as ->. now rewrite beq_bytes_refl.
  Qed.

  Theorem mic_verify_iff t et key usage :
    mic_verify checksum t et key usage = Some true <->
    checksum et key usage (mic_cksum_input t) = Some (mt_cksum t).
  Proof.
    unfold mic_verify, mic_compute.
    destruct (checksum et key usage (mic_cksum_input t)) as [c|]; [|split; discriminate].
    split.
    - intros H. injection H as H. apply beq_bytes_eq in H. now subst.
    - intros H. injection H as ->. now rewrite beq_bytes_refl.
  Qed.
End Keyed.

(* ---- MIC token ---- *)
Definition wf_mic (t : mic_token) : Prop := 0 <= mt_flags t < 256 /\ 0 <= mt_seq t < 2 ^ 64.

Lemma mic_header_spec flags seq : 0 <= flags < 256 ->
  mic_header flags seq = [4; 4; flags; 255; 255; 255; 255; 255] ++ be_bytes 8 seq.
Proof.
  intros Hf. unfold mic_header. change (zeros 16) with ([] ++ zeros 16).
  rewrite (copy_zeros_step [] [4;4]) by (cbn; lia).
  rewrite (copy_zeros_step _ [wrap 8 flags]) by (cbn; lia).
  rewrite (copy_zeros_step _ [255;255;255;255;255]) by (cbn; lia).
  rewrite (copy_zeros_step _ (be_bytes 8 seq)) by (rewrite ?be_bytes_length; cbn; lia).
  rewrite be_bytes_length. cbn [length Nat.sub zeros repeatz app]. rewrite app_nil_r.
  unfold wrap. change (2 ^ 8) with 256. rewrite Z.mod_small by lia. reflexivity.
Qed.

Lemma mic_header_length flags seq : 0 <= flags < 256 -> length (mic_header flags seq) = 16%nat.
Proof. intros H. rewrite mic_header_spec by assumption. rewrite app_length, be_bytes_length. reflexivity. Qed.

Theorem mic_marshal_layout t : wf_mic t -> mic_marshal t = mic_layout t.
Proof.
  intros (Hf & Hs). unfold mic_marshal.
  change (zeros (16 + length (mt_cksum t))) with ([] ++ zeros (16 + length (mt_cksum t))).
  rewrite (copy_zeros_step [] (mic_header (mt_flags t) (mt_seq t)))
    by (rewrite ?mic_header_length by assumption; cbn; lia).
  rewrite (copy_zeros_step _ (mt_cksum t))
    by (cbn [app]; rewrite ?mic_header_length by assumption; lia).
  rewrite mic_header_length by assumption.
  replace (16 + length (mt_cksum t) - 16 - length (mt_cksum t))%nat with 0%nat by lia.
  cbn [zeros repeatz app]. rewrite app_nil_r, mic_header_spec by assumption.
  unfold mic_layout. now rewrite <- app_assoc.
Qed.

Theorem mic_unmarshal_marshal t :
  wf_mic t ->
  mic_unmarshal (mic_marshal t) (negb (Z.land (mt_flags t) 1 =? 0)) = Ok (mt_flags t, mt_seq t, mt_cksum t).
Proof.
  intros Hwf. rewrite mic_marshal_layout by assumption. destruct Hwf as (Hf & Hs).
  unfold mic_unmarshal, mic_layout.
  assert (Hlen : zlen ([4; 4; mt_flags t; 255; 255; 255; 255; 255] ++ be_bytes 8 (mt_seq t) ++ mt_cksum t)
                 = 16 + zlen (mt_cksum t)).
  { rewrite !zlen_app. unfold zlen at 1 2. rewrite be_bytes_length. cbn [length]. lia. }
  pose proof (zlen_nonneg (mt_cksum t)).
  destruct (Nat.ltb_spec (length ([4; 4; mt_flags t; 255; 255; 255; 255; 255] ++ be_bytes 8 (mt_seq t) ++ mt_cksum t)) 16);
    [unfold zlen in Hlen; lia|].
  cbn [app]. unfold slice at 1. cbn [Z.sub Z.to_nat Pos.to_nat Pos.iter_op Nat.add skipn firstn Z.opp Z.add Z.pos_sub].
  cbn [beq_bytes Z.eqb Pos.eqb andb negb nth].
  destruct (negb (Z.land (mt_flags t) 1 =? 0)); cbn [andb negb].
  all: unfold slice at 1; cbn [Z.sub Z.to_nat Pos.to_nat Pos.iter_op Nat.add skipn firstn Z.opp Z.add Z.pos_sub Pos.add Pos.succ].
  all: cbn [beq_bytes Z.eqb Pos.eqb andb negb].
  all: change (4 :: 4 :: mt_flags t :: 255 :: 255 :: 255 :: 255 :: 255 :: be_bytes 8 (mt_seq t) ++ mt_cksum t)
    with ([4; 4; mt_flags t; 255; 255; 255; 255; 255] ++ be_bytes 8 (mt_seq t) ++ mt_cksum t).
  all: rewrite (slice_mid [4; 4; mt_flags t; 255; 255; 255; 255; 255] (be_bytes 8 (mt_seq t)))
      by (unfold zlen; rewrite ?be_bytes_length; reflexivity).
  all: rewrite Hlen, (app_assoc _ (be_bytes 8 (mt_seq t))), (slice_suffix _ (mt_cksum t))
      by (rewrite ?zlen_app; unfold zlen at 1 2; rewrite ?be_bytes_length; cbn [length]; lia).
  all: rewrite be_val_be_bytes; change (256 ^ Z.of_nat 8) with (2 ^ 64); rewrite Z.mod_small by lia.
  all: reflexivity.
Qed.

Theorem mic_cksum_input_spec t :
  0 <= mt_flags t < 256 -> mic_cksum_input t = mic_signed_data t.
Proof.
  intros Hf. unfold mic_cksum_input, mic_signed_data.
  rewrite Nat.add_comm, copy_at_0_all.
  rewrite (copy_zeros_step (mt_payload t)); [|reflexivity|rewrite mic_header_length by assumption; lia].
  rewrite mic_header_length by assumption. cbn [Nat.sub zeros repeatz]. rewrite app_nil_r.
  now rewrite mic_header_spec.
Qed.

Theorem mic_signed_data_injective t1 t2 :
  0 <= mt_seq t1 < 2 ^ 64 -> 0 <= mt_seq t2 < 2 ^ 64 ->
  mic_signed_data t1 = mic_signed_data t2 ->
  mt_payload t1 = mt_payload t2 /\ mt_flags t1 = mt_flags t2 /\ mt_seq t1 = mt_seq t2.
Proof.
  intros H1 H2 E. unfold mic_signed_data in E.
  apply app_inv_tail_len in E; [|rewrite !app_length, !be_bytes_length; reflexivity].
  destruct E as [Ep Eh]. split; [exact Ep|].
  remember (be_bytes 8 _) as X in Eh. remember (be_bytes 8 _) as Y in Eh.
  cbn [app] in Eh. injection Eh as Ef Es. split; [exact Ef|]. subst X Y.
  apply (be_bytes_inj 8); auto.
Qed.

Theorem mic_unmarshal_rejects b acc :
  (length b < 16)%nat \/ slice b 0 2 <> [4; 4] \/ slice b 3 8 <> [255;255;255;255;255] \/
  negb (Z.land (nth 2 b 0) 1 =? 0) <> acc ->
  exists c, mic_unmarshal b acc = Err c.
Proof.
  intros H. unfold mic_unmarshal.
  destruct (Nat.ltb_spec (length b) 16); [eauto|].
  destruct (beq_bytes (slice b 0 2) [4; 4]) eqn:Eid; cbn [negb]; [|eauto].
  apply beq_bytes_eq in Eid.
  destruct (negb (Z.land (nth 2 b 0) 1 =? 0)) eqn:Ea, acc; cbn [andb negb]; eauto.
  all: destruct (beq_bytes (slice b 3 8) [255;255;255;255;255]) eqn:Efl; cbn [negb]; eauto.
  all: apply beq_bytes_eq in Efl.
  all: exfalso; destruct H as [H|[H|[H|H]]]; try lia; congruence.
Qed.

Example wrap_example :
  let t := mkWrap 1 3 0 4294967296 [10; 20] [7; 8; 9] in
  wf_wrap t /\ wrap_marshal t = [5;4;1;255; 0;3; 0;0; 0;0;0;1;0;0;0;0; 10;20; 7;8;9].
Proof. split; [unfold wf_wrap; cbn; lia|reflexivity]. Qed.
