(* The service accepts an AP-REQ exactly when RFC 4120 3.2.3 says it is valid, and the identity it reports is
   the one sealed in the ticket. *)
From Gokrb5.lib Require Import Bytes JV.
From Gokrb5.model Require Import Keytab Crypto Replay APReq.
From Gokrb5.proofs Require Import ReplayProofs CryptoBasic.

Lemma addr_eqb_eq a b : addr_eqb a b = true <-> a = b.
Proof.
  unfold addr_eqb. rewrite andb_true_iff, Z.eqb_eq, beq_bytes_eq. destruct a, b; cbn.
  split; [intros [-> ->]; reflexivity|intros H; inversion H; auto].
Qed.

Lemma existsb_addr a l : existsb (addr_eqb a) l = true <-> In a l.
Proof.
  rewrite existsb_exists. split.
  - intros (x & Hx & E). apply addr_eqb_eq in E. now subst.
  - intros H. exists a. split; [exact H|now apply addr_eqb_eq].
Qed.

Section Spec.
  Variable dec_ticket : bytes -> option enc_ticket.
  Variable dec_auth : bytes -> option authenticator.

  (* RFC 4120 3.2.3, written as a specification (no control flow). *)
  Definition rfc_valid (st : settings) (kt : list entry) (t : Z) (rc : list auth)
             (tk : ticket) (au_cipher : bytes) (id : identity) (rc' : list auth) : Prop :=
    exists kv ktype kvno pt et apt au,
      let d := st_skew st in
      let ct := us (au_ctime au) + au_cusec au in
      let a := mkAuth (join_slash (au_cname au)) ct (eff_sname st tk) in
      (* the ticket decrypts under the keytab key selected by realm, kvno and etype for the service (or override) principal *)
      get_key kt (match st_override st with Some o => o | None => tk_sname tk end)
              (tk_realm tk) (tk_kvno tk) (tk_etype tk) = Ok (kv, ktype, kvno) /\
      decrypt ktype kv 2 (tk_cipher tk) = Ok pt /\ dec_ticket pt = Some et /\
      (* now lies inside the ticket's validity extended by the skew; the ticket is not flagged invalid *)
      match et_start et with Some s => us s - t <= d | None => True end /\
      flag_invalid (et_flags et) = false /\ t - us (et_end et) <= d /\
      (* address requirements *)
      (et_caddr et = [] \/ In (st_caddr st) (et_caddr et)) /\
      (st_require_addr st = true -> et_caddr et <> []) /\
      (* the authenticator decrypts under the ticket's session key, names the same client and realm, is fresh *)
      decrypt (et_keytype et) (et_key et) (auth_usage (tk_sname tk)) au_cipher = Ok apt /\
      dec_auth apt = Some au /\
      au_cname au = et_cname et /\ au_crealm au = et_crealm et /\
      Z.abs (t - ct) <= d /\
      (* not a replay *)
      ~ In a rc /\
      (* what the application is told is what the KDC sealed in the ticket *)
      id = mkIdentity (join_slash (et_cname et)) (et_crealm et) (et_cname et) (et_end et) /\
      rc' = a :: rc.

  Theorem apreq_accept_iff st kt t rc tk aet ac id rc' :
    verify_apreq dec_ticket dec_auth st kt t rc tk aet ac = (Accept id, rc') <->
    rfc_valid st kt t rc tk ac id rc'.
  Proof.
    unfold verify_apreq, rfc_valid. split.
    - destruct (get_key kt _ (tk_realm tk) (tk_kvno tk) (tk_etype tk)) as [[[kv ktype] kvno]| |] eqn:EK; try discriminate.
      destruct (decrypt ktype kv 2 (tk_cipher tk)) as [pt| |] eqn:ED; try discriminate.
      destruct (dec_ticket pt) as [et|] eqn:ET; try discriminate.
      destruct (_ || flag_invalid (et_flags et)) eqn:ENY; try discriminate.
      apply orb_false_iff in ENY. destruct ENY as [ENY EFI].
      destruct (Z.ltb_spec (st_skew st) (t - us (et_end et))) as [|HE]; try discriminate.
      destruct (negb (length (et_caddr et) =? 0)%nat && negb (existsb (addr_eqb (st_caddr st)) (et_caddr et))) eqn:EA; try discriminate.
      destruct (decrypt (et_keytype et) (et_key et) (auth_usage (tk_sname tk)) ac) as [apt| |] eqn:EDA; try discriminate.
      destruct (dec_auth apt) as [au|] eqn:EAU; try discriminate.
      destruct (names_eqb (au_cname au) (et_cname et)) eqn:ECN; cbn [negb]; try discriminate.
      destruct (beq_bytes (au_crealm au) (et_crealm et)) eqn:ECR; cbn [negb]; try discriminate.
      destruct (Z.ltb_spec (st_skew st) (Z.abs (t - (us (au_ctime au) + au_cusec au)))) as [|HS]; try discriminate.
      destruct (st_require_addr st && (length (et_caddr et) =? 0)%nat) eqn:ERA; try discriminate.
      destruct (existsb (auth_eqb _) rc) eqn:ERC; try discriminate.
      intros H. injection H as <- <-.
      apply names_eqb_eq in ECN. apply beq_bytes_eq in ECR.
      exists kv, ktype, kvno, pt, et, apt, au. cbv zeta.
      repeat split; auto.
      + destruct (et_start et) as [s|]; [|exact I]. destruct (Z.ltb_spec (st_skew st) (us s - t)); [discriminate|lia].
      + apply andb_false_iff in EA. destruct EA as [EA|EA].
        * left. apply negb_false_iff in EA. apply Nat.eqb_eq in EA. destruct (et_caddr et); [reflexivity|discriminate].
        * right. apply negb_false_iff in EA. now apply existsb_addr.
      + intros Hr Hn. rewrite Hr, Hn in ERA. discriminate.
      + intros Hin. apply existsb_auth in Hin. congruence.
      + rewrite ECN, ECR. reflexivity.
    - intros (kv & ktype & kvno & pt & et & apt & au & H). cbv zeta in H.
      destruct H as (EK & ED & ET & HS & EFI & HE & HA & HR & EDA & EAU & ECN & ECR & HSK & HRC & -> & ->).
      rewrite EK, ED, ET, EFI.
      assert ((match et_start et with Some s => st_skew st <? us s - t | None => false end) = false) as ->.
      { destruct (et_start et) as [s|]; [|reflexivity]. destruct (Z.ltb_spec (st_skew st) (us s - t)); [lia|reflexivity]. }
      cbn [orb].
      destruct (Z.ltb_spec (st_skew st) (t - us (et_end et))); [lia|].
      assert (negb (length (et_caddr et) =? 0)%nat && negb (existsb (addr_eqb (st_caddr st)) (et_caddr et)) = false) as ->.
      { destruct HA as [->|HA]; [reflexivity|]. apply existsb_addr in HA. rewrite HA. apply andb_false_r. }
      rewrite EDA, EAU.
      assert (names_eqb (au_cname au) (et_cname et) = true) as -> by (now apply names_eqb_eq).
      assert (beq_bytes (au_crealm au) (et_crealm et) = true) as -> by (now apply beq_bytes_eq).
      cbn [negb].
      destruct (Z.ltb_spec (st_skew st) (Z.abs (t - (us (au_ctime au) + au_cusec au)))); [lia|].
      assert (st_require_addr st && (length (et_caddr et) =? 0)%nat = false) as ->.
      { destruct (st_require_addr st); [|reflexivity]. cbn. specialize (HR eq_refl).
        destruct (et_caddr et); [congruence|reflexivity]. }
      assert (existsb (auth_eqb (mkAuth (join_slash (au_cname au)) (us (au_ctime au) + au_cusec au) (eff_sname st tk))) rc = false) as ->.
      { destruct (existsb _ rc) eqn:E; [|reflexivity]. apply existsb_auth in E. contradiction. }
      rewrite ECN, ECR. reflexivity.
  Qed.

  (* On success nothing reported to the application comes from the authenticator or any unauthenticated part:
     name, realm and expiry are projections of the decrypted EncTicketPart. *)
  Corollary apreq_identity_from_ticket st kt t rc tk aet ac id rc' :
    verify_apreq dec_ticket dec_auth st kt t rc tk aet ac = (Accept id, rc') ->
    exists kv ktype kvno pt et,
      get_key kt (match st_override st with Some o => o | None => tk_sname tk end)
              (tk_realm tk) (tk_kvno tk) (tk_etype tk) = Ok (kv, ktype, kvno) /\
      decrypt ktype kv 2 (tk_cipher tk) = Ok pt /\ dec_ticket pt = Some et /\
      id_username id = join_slash (et_cname et) /\ id_domain id = et_crealm et /\
      id_cname id = et_cname et /\ id_valid_until id = et_end et.
  Proof.
    intros H. apply apreq_accept_iff in H.
    destruct H as (kv & ktype & kvno & pt & et & apt & au & H). cbv zeta in H.
    destruct H as (EK & ED & ET & _ & _ & _ & _ & _ & _ & _ & _ & _ & _ & _ & -> & _).
    exists kv, ktype, kvno, pt, et. repeat split; auto.
  Qed.

  (* A rejected request leaves the replay cache untouched. *)
  Theorem apreq_reject_keeps_cache st kt t rc tk aet ac o rc' :
    verify_apreq dec_ticket dec_auth st kt t rc tk aet ac = (o, rc') ->
    (forall id, o <> Accept id) -> rc' = rc.
  Proof.
    unfold verify_apreq. intros H Hn.
    repeat match type of H with
           | context [match ?x with _ => _ end] => destruct x eqn:?; try (injection H as <- <-; reflexivity)
           | context [if ?x then _ else _] => destruct x eqn:?; try (injection H as <- <-; reflexivity)
           end.
    all: try (injection H as <- <-; try reflexivity; exfalso; eapply Hn; reflexivity).
  Qed.

  (* The model never panics when decryption does not (C06 proves decrypt never panics, keytab look-up never does). *)
  Theorem apreq_total st kt t rc tk aet ac :
    fst (verify_apreq dec_ticket dec_auth st kt t rc tk aet ac) <> Crash.
  Proof.
    unfold verify_apreq.
    destruct (get_key kt _ _ _ _) as [[[kv ktype] kvno]|c|s] eqn:EK.
    - pose proof (CryptoBasic.decrypt_never_panics ktype kv 2 (tk_cipher tk)) as P1.
      destruct (decrypt ktype kv 2 (tk_cipher tk)) as [pt|e1|s1].
      + destruct (dec_ticket pt) as [et|]; [|cbn; discriminate].
        destruct (_ || _); [cbn; discriminate|].
        destruct (_ <? _); [cbn; discriminate|].
        destruct (_ && _); [cbn; discriminate|].
        pose proof (CryptoBasic.decrypt_never_panics (et_keytype et) (et_key et) (auth_usage (tk_sname tk)) ac) as P2.
        destruct (decrypt (et_keytype et) (et_key et) (auth_usage (tk_sname tk)) ac) as [apt|e2|s2].
        * destruct (dec_auth apt) as [au|]; [|cbn; discriminate].
          repeat match goal with |- context [if ?x then _ else _] => destruct x; try (cbn; discriminate) end.
        * cbn; discriminate.
        * cbn in P2; discriminate.
      + cbn; discriminate.
      + cbn in P1; discriminate.
    - cbn; discriminate.
    - exfalso. unfold get_key in EK. destruct (get_key_loop _ _ _ _ _ _); [destruct (_ <? _)%nat|]; discriminate.
  Qed.
End Spec.
