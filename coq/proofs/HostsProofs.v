(* Gokrb5.proofs.HostsProofs — randServOrder returns every configured server exactly once under the keys
   1..n for every sequence of rand.Intn results, and (repaired code) leaves the configuration untouched;
   GetKDCs / GetKpasswdServers inherit both. *)
From Coq Require Import String Permutation.
From Gokrb5.lib Require Import Bytes GoString.
From Gokrb5.model Require Import Krb5Conf Hosts.
Open Scope Z_scope.

Lemma gindex_ok {A} site (l : list A) i : 0 <= i < zlen l ->
  exists v, gindex site l i = Ok v /\ nth_error l (Z.to_nat i) = Some v.
Proof.
  intros H. unfold gindex. destruct (Z.leb_spec 0 i); [|lia].
  destruct (nth_error l (Z.to_nat i)) as [v|] eqn:E; [eauto|].
  apply nth_error_None in E. unfold zlen in H. lia.
Qed.

Lemma set_nth_perm {A} (l : list A) : forall i v x, nth_error l i = Some v ->
  Permutation (v :: set_nth i x l) (x :: l).
Proof.
  induction l as [|y l IH]; intros [|i] v x H; cbn in *; try discriminate.
  - inversion H; subst. apply perm_swap.
  - specialize (IH i v x H).
    apply perm_trans with (y :: v :: set_nth i x l); [apply perm_swap|].
    apply perm_trans with (y :: x :: l); [now apply perm_skip|apply perm_swap].
Qed.

Lemma set_nth_length {A} (l : list A) : forall i x, length (set_nth i x l) = length l.
Proof. induction l as [|y l IH]; intros [|i] x; cbn; auto. Qed.

Lemma set_nth_app_l {A} (a b : list A) : forall i x, (i < length a)%nat ->
  set_nth i x (a ++ b) = set_nth i x a ++ b.
Proof.
  induction a as [|y a IH]; intros [|i] x H; cbn in *; try lia; [reflexivity|].
  rewrite IH by lia. reflexivity.
Qed.

Lemma set_nth_last_same {A} (a : list A) x : set_nth (length a) x (a ++ [x]) = a ++ [x].
Proof. induction a as [|y a IH]; cbn; [reflexivity|now rewrite IH]. Qed.

(* removing the chosen element by "move the last one into its place, drop the last" *)
Lemma swap_remove_perm {A} (cur : list A) i v lastv :
  nth_error cur i = Some v -> nth_error cur (length cur - 1) = Some lastv ->
  Permutation (v :: removelast (set_nth i lastv cur)) cur /\
  length (removelast (set_nth i lastv cur)) = (length cur - 1)%nat.
Proof.
  intros Hv Hl.
  destruct (exists_last (l := cur)) as (init & z & ->).
  { intros ->. destruct i; discriminate. }
  rewrite app_length in Hl. cbn [length] in Hl.
  replace (length init + 1 - 1)%nat with (length init) in Hl by lia.
  rewrite nth_error_app2 in Hl by lia. rewrite Nat.sub_diag in Hl. cbn in Hl. inversion Hl; subst z.
  assert (i < length init \/ i = length init)%nat as [Hi| ->].
  { assert (i < length (init ++ [lastv]))%nat by (apply nth_error_Some; congruence).
    rewrite app_length in H; cbn in H; lia. }
  - rewrite set_nth_app_l by exact Hi. rewrite removelast_last.
    rewrite nth_error_app1 in Hv by exact Hi.
    split.
    + apply perm_trans with (lastv :: init); [now apply set_nth_perm|]. apply Permutation_cons_append.
    + rewrite set_nth_length, app_length. cbn; lia.
  - rewrite set_nth_last_same, removelast_last.
    rewrite nth_error_app2 in Hv by lia. rewrite Nat.sub_diag in Hv. cbn in Hv. inversion Hv; subst v.
    split; [apply Permutation_cons_append|]. rewrite app_length; cbn; lia.
Qed.

(* the loop returns a permutation of the slice and leaves a permutation in the backing array *)
Lemma rso_loop_ok : forall n cur tail o, length cur = n ->
  exists vals arr, rso_loop n cur tail o = Ok (vals, arr) /\
                   Permutation vals cur /\ Permutation arr (cur ++ tail).
Proof.
  induction n as [|n IH]; intros cur tail o Hn.
  - destruct cur; [|discriminate]. exists [], tail. cbn. auto.
  - cbn [rso_loop].
    set (l := zlen cur). assert (Hl : l = Z.of_nat (S n)) by (unfold l, zlen; now rewrite Hn).
    destruct (match o with [] => (0, []) | o0 :: r => (o0, r) end) as [x o'].
    assert (Hr : 0 <= x mod l < zlen cur) by (apply Z.mod_pos_bound; lia).
    destruct (gindex_ok 70 cur (x mod l) Hr) as (v & -> & Hv). cbn [bind].
    destruct (Z.ltb_spec 1 l) as [H1|H1].
    + assert (Hq : 0 <= l - 1 < zlen cur) by (fold l; lia).
      destruct (gindex_ok 71 cur (l - 1) Hq) as (lastv & -> & Hlast). cbn [bind].
      replace (Z.to_nat (l - 1)) with (length cur - 1)%nat in Hlast by (unfold l, zlen; lia).
      destruct (swap_remove_perm cur _ v lastv Hv Hlast) as [Hp Hlen].
      destruct (IH (removelast (set_nth (Z.to_nat (x mod l)) lastv cur)) (v :: tail) o'
                   ltac:(rewrite Hlen, Hn; lia)) as (vals & arr & -> & Pv & Pa).
      cbn [bind fst snd]. exists (v :: vals), arr. split; [reflexivity|]. split.
      * apply perm_trans with (v :: removelast (set_nth (Z.to_nat (x mod l)) lastv cur)); [now apply perm_skip|exact Hp].
      * apply perm_trans with (1 := Pa).
        apply perm_trans with ((v :: removelast (set_nth (Z.to_nat (x mod l)) lastv cur)) ++ tail).
        -- apply Permutation_sym, Permutation_middle.
        -- now apply Permutation_app_tail.
    + assert (n = 0)%nat by lia. subst n.
      destruct cur as [|c [|c2 cur]]; try discriminate.
      assert (x mod l = 0) by (rewrite Hl; apply Z.mod_1_r). rewrite H in Hv. cbn in Hv. inversion Hv; subst v.
      exists [c], ([c] ++ tail). auto.
Qed.

Lemma numbered_keys vals : forall i, map fst (numbered i vals) = map (fun k => i + Z.of_nat k) (seq 0 (length vals)).
Proof.
  induction vals as [|v vals IH]; intros i; [reflexivity|].
  cbn [numbered map length seq fst]. f_equal; [lia|].
  rewrite IH. rewrite <- seq_shift, map_map. apply map_ext. intros; lia.
Qed.

Lemma numbered_vals vals : forall i, map snd (numbered i vals) = vals.
Proof. induction vals as [|v vals IH]; intros i; cbn; [reflexivity|now rewrite IH]. Qed.

(* randServOrder, for every sequence of rand.Intn results: the values stored under the keys 1..n are a
   permutation of the configured servers (each exactly once), and the argument slice is unchanged *)
Theorem rand_serv_order_perm : forall (servers : list bytes) (oracle : list Z),
  servers <> [] ->
  exists vals, rand_serv_order servers oracle = Ok (vals, servers) /\
               Permutation vals servers /\
               map fst (numbered 1 vals) = map (fun k => 1 + Z.of_nat k) (seq 0 (length servers)) /\
               map snd (numbered 1 vals) = vals.
Proof.
  intros servers oracle Hne. unfold rand_serv_order.
  assert (forall vals, Permutation vals servers ->
            map fst (numbered 1 vals) = map (fun k => 1 + Z.of_nat k) (seq 0 (length servers)) /\
            map snd (numbered 1 vals) = vals) as K.
  { intros vals P. rewrite numbered_keys, numbered_vals, (Permutation_length P). auto. }
  destruct (Z.ltb_spec 1 (zlen servers)).
  - destruct (rso_loop_ok (length servers) servers [] oracle eq_refl) as (vals & arr & -> & P & _).
    cbn [bind fst]. exists vals. split; [reflexivity|]. split; [exact P|]. now apply K.
  - destruct servers as [|s [|s2 rest]]; [congruence| |rewrite !zlen_cons in H; pose proof (zlen_nonneg rest); lia].
    cbn. exists [s]. split; [reflexivity|]. split; [apply Permutation_refl|]. now apply K.
Qed.

Example rand_serv_order_example :
  rand_serv_order [bs "k1"; bs "k2"; bs "k3"; bs "k4"] [3; 0; 1; 0]
  = Ok ([bs "k4"; bs "k1"; bs "k2"; bs "k3"], [bs "k1"; bs "k2"; bs "k3"; bs "k4"]).
Proof. vm_compute. reflexivity. Qed.

(* the code as it was: the same call permutes the caller's slice (Realm.KDC) *)
Theorem rand_serv_order_unrepaired_modifies_config :
  exists servers oracle vals arr,
    rand_serv_order_unrepaired servers oracle = Ok (vals, arr) /\ arr <> servers.
Proof.
  exists [bs "k1"; bs "k2"; bs "k3"; bs "k4"], [0; 0; 0; 0]. eexists; eexists.
  split; [vm_compute; reflexivity|]. intros E. discriminate E.
Qed.

Theorem rand_serv_order_empty_panics : forall oracle, is_panic (rand_serv_order [] oracle) = true.
Proof. reflexivity. Qed.

(* ------------------------------------------------------------------ GetKDCs *)
Definition has_realm (rname : bytes) (rs : list realm) : bool :=
  existsb (fun r => beq_bytes (r_name r) rname) rs.

Lemma last_kdcs_acc rname rs : forall acc,
  fold_left (fun ks r => if beq_bytes (r_name r) rname then r_kdc r else ks) rs acc =
  if has_realm rname rs then last_kdcs rname rs else acc.
Proof.
  unfold last_kdcs. induction rs as [|r rs IH]; intros acc; [reflexivity|].
  cbn [fold_left has_realm existsb]. rewrite IH. rewrite (IH (if beq_bytes (r_name r) rname then r_kdc r else [])).
  fold (has_realm rname rs). destruct (has_realm rname rs); [now rewrite orb_true_r|].
  rewrite orb_false_r. destruct (beq_bytes (r_name r) rname); reflexivity.
Qed.

Lemma set_last_kdcs_done rname k rs : snd (set_last_kdcs rname k rs) = has_realm rname rs.
Proof.
  induction rs as [|r rs IH]; [reflexivity|]. cbn [set_last_kdcs has_realm existsb].
  fold (has_realm rname rs). destruct (set_last_kdcs rname k rs) as [rest' done]. cbn [snd] in IH. subst done.
  destruct (has_realm rname rs); cbn; [now rewrite orb_true_r|].
  rewrite orb_false_r. destruct (beq_bytes (r_name r) rname); reflexivity.
Qed.

Lemma set_last_kdcs_nomatch rname k rs : has_realm rname rs = false -> fst (set_last_kdcs rname k rs) = rs.
Proof.
  induction rs as [|r rs IH]; [reflexivity|]. cbn [set_last_kdcs has_realm existsb].
  rewrite orb_false_iff. intros [Hr Hrs]. specialize (IH Hrs).
  pose proof (set_last_kdcs_done rname k rs) as D. fold (has_realm rname rs) in Hrs. rewrite Hrs in D.
  destruct (set_last_kdcs rname k rs) as [rest' done]. cbn [fst snd] in *. subst.
  rewrite Hr. reflexivity.
Qed.

Lemma with_kdc_same r : with_kdc r (r_kdc r) = r.
Proof. destruct r; reflexivity. Qed.

(* writing the list that was read back into the same entry changes nothing *)
Lemma set_last_kdcs_same rname rs : fst (set_last_kdcs rname (last_kdcs rname rs) rs) = rs.
Proof.
  induction rs as [|r rs IH]; [reflexivity|].
  unfold last_kdcs at 1. cbn [fold_left]. rewrite last_kdcs_acc.
  cbn [set_last_kdcs].
  pose proof (set_last_kdcs_done rname (if has_realm rname rs then last_kdcs rname rs
                                        else if beq_bytes (r_name r) rname then r_kdc r else []) rs) as D.
  destruct (has_realm rname rs) eqn:Hm.
  - destruct (set_last_kdcs rname (last_kdcs rname rs) rs) as [rest' done] eqn:E.
    cbn [fst snd] in *. subst. reflexivity.
  - pose proof (set_last_kdcs_nomatch rname (if beq_bytes (r_name r) rname then r_kdc r else []) rs Hm) as N.
    destruct (set_last_kdcs rname (if beq_bytes (r_name r) rname then r_kdc r else []) rs) as [rest' done].
    cbn [fst snd] in *. subst.
    destruct (beq_bytes (r_name r) rname); cbn [fst]; [now rewrite with_kdc_same|reflexivity].
Qed.

Lemma hcfg_eta c : {| h_default_realm := h_default_realm c; h_dns_lookup_kdc := h_dns_lookup_kdc c;
                      h_realms := h_realms c |} = c.
Proof. destruct c; reflexivity. Qed.

Lemma zlen_pos_ne {A} (l : list A) : l <> [] -> (0 <? zlen l) = true.
Proof. destruct l; [congruence|]. intros _. rewrite zlen_cons. pose proof (zlen_nonneg l). apply Z.ltb_lt; lia. Qed.

(* GetKDCs: when the realm (the default realm for "") has configured KDCs, the call returns their number
   and a map with the keys 1..n whose values are those KDCs, each exactly once, for every sequence of
   rand.Intn results; the configuration afterwards is the configuration before. *)
Theorem get_kdcs_each_once : forall (c : hcfg) (rname : bytes) (oracle : list Z),
  let name := if is_nil rname then h_default_realm c else rname in
  let ks := last_kdcs name (h_realms c) in
  ks <> [] ->
  exists vals, get_kdcs c rname oracle = Ok (zlen ks, numbered 1 vals, c) /\
               Permutation vals ks /\
               map fst (numbered 1 vals) = map (fun k => 1 + Z.of_nat k) (seq 0 (length ks)) /\
               map snd (numbered 1 vals) = vals.
Proof.
  intros c rname oracle name ks Hne. unfold get_kdcs. fold name. fold ks.
  rewrite (zlen_pos_ne ks Hne).
  destruct (rand_serv_order_perm ks oracle Hne) as (vals & -> & P & K1 & K2).
  cbn [bind fst snd]. exists vals. split; [|auto].
  unfold ks at 2. rewrite set_last_kdcs_same, hcfg_eta. reflexivity.
Qed.

(* without configured KDCs and without DNS look-up the call fails (and never panics) *)
Theorem get_kdcs_none : forall c rname oracle,
  last_kdcs (if is_nil rname then h_default_realm c else rname) (h_realms c) = [] ->
  h_dns_lookup_kdc c = false -> get_kdcs c rname oracle = Err invalid.
Proof. intros c rname oracle H D. unfold get_kdcs. rewrite H, D. reflexivity. Qed.

Example get_kdcs_example :
  let r := {| r_name := bs "A.B"; r_admin := []; r_dd := []; r_kdc := [bs "k1:88"; bs "k2:88"; bs "k3:88"];
              r_kpw := []; r_mkdc := [] |} in
  let c := {| h_default_realm := bs "A.B"; h_dns_lookup_kdc := false; h_realms := [r] |} in
  last_kdcs (bs "A.B") (h_realms c) <> [] /\
  get_kdcs c [] [2; 0; 0] = Ok (3, [(1, bs "k3:88"); (2, bs "k1:88"); (3, bs "k2:88")], c).
Proof. cbv zeta. split; [discriminate|vm_compute; reflexivity]. Qed.

(* ------------------------------------------------------------------ GetKpasswdServers *)
Lemma with_kpw_same r : with_kpw r (r_kpw r) = r.
Proof. destruct r; reflexivity. Qed.

Lemma set_first_kpw_same rname rs r : first_realm rname rs = Some r -> set_first_kpw rname (r_kpw r) rs = rs.
Proof.
  induction rs as [|x rs IH]; cbn; [discriminate|].
  destruct (beq_bytes (r_name x) rname).
  - intros H; inversion H; subst. now rewrite with_kpw_same.
  - intros H. now rewrite IH.
Qed.

(* GetKpasswdServers (no DNS look-up): the kpasswd servers of the first entry of the realm, each exactly
   once; the configuration is unchanged. *)
Theorem get_kpasswd_each_once : forall (c : hcfg) (rname : bytes) (oracle : list Z) (r : realm),
  h_dns_lookup_kdc c = false ->
  first_realm rname (h_realms c) = Some r -> r_kpw r <> [] ->
  exists vals, get_kpasswd_servers c rname oracle = Ok (zlen (r_kpw r), numbered 1 vals, c) /\
               Permutation vals (r_kpw r) /\
               map fst (numbered 1 vals) = map (fun k => 1 + Z.of_nat k) (seq 0 (length (r_kpw r))) /\
               map snd (numbered 1 vals) = vals.
Proof.
  intros c rname oracle r D F Hne. destruct c as [dr dns rs].
  cbn [h_dns_lookup_kdc h_realms h_default_realm] in *. subst dns.
  unfold get_kpasswd_servers. cbn [h_dns_lookup_kdc h_realms h_default_realm]. rewrite F.
  assert ((zlen (r_kpw r) <? 1) = false) as ->.
  { pose proof (zlen_pos_ne _ Hne) as Z. apply Z.ltb_lt in Z. apply Z.ltb_ge. lia. }
  destruct (rand_serv_order_perm (r_kpw r) oracle Hne) as (vals & -> & P & K1 & K2).
  cbn [bind fst snd]. exists vals. split; [|auto].
  rewrite (set_first_kpw_same _ _ _ F). reflexivity.
Qed.

(* the fall-back: no kpasswd_server configured, the admin servers "host:port" are served on port 464 *)
Theorem get_kpasswd_fallback_each_once : forall (c : hcfg) (rname : bytes) (oracle : list Z) (r : realm) ks,
  h_dns_lookup_kdc c = false ->
  first_realm rname (h_realms c) = Some r -> r_kpw r = [] ->
  admin_to_kpasswd (r_admin r) = Ok ks -> ks <> [] ->
  exists vals, get_kpasswd_servers c rname oracle = Ok (zlen ks, numbered 1 vals, c) /\ Permutation vals ks.
Proof.
  intros c rname oracle r ks D F E A Hne. destruct c as [dr dns rs].
  cbn [h_dns_lookup_kdc h_realms h_default_realm] in *. subst dns.
  unfold get_kpasswd_servers. cbn [h_dns_lookup_kdc h_realms h_default_realm]. rewrite F, E.
  cbn [zlen length Z.of_nat Z.ltb Z.compare]. rewrite A. cbn [bind].
  assert ((zlen ks <? 1) = false) as ->.
  { pose proof (zlen_pos_ne _ Hne) as Z. apply Z.ltb_lt in Z. apply Z.ltb_ge. lia. }
  destruct (rand_serv_order_perm ks oracle Hne) as (vals & -> & P & _).
  cbn [bind fst]. exists vals. auto.
Qed.

Example get_kpasswd_example :
  let r := {| r_name := bs "A.B"; r_admin := [bs "a1:749"; bs "a2"]; r_dd := []; r_kdc := [];
              r_kpw := []; r_mkdc := [] |} in
  let c := {| h_default_realm := []; h_dns_lookup_kdc := false; h_realms := [r] |} in
  admin_to_kpasswd (r_admin r) = Ok [bs "a1:464"] /\
  get_kpasswd_servers c (bs "A.B") [] = Ok (1, [(1, bs "a1:464")], c).
Proof. cbv zeta. split; vm_compute; reflexivity. Qed.
