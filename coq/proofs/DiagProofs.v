(* Noninterference of the diagnostic encodings: if no secret is visible, two states that differ only in their
   secrets (and hidden fields) encode identically - so no encoding of a secret, raw, hex or base64, can appear. *)
From Gokrb5.lib Require Import Bytes JV.
From Gokrb5.model Require Import Diag.

Section JtyInd.
  Variable P : jty -> Prop.
  Hypothesis Hpub : P JPublic.
  Hypothesis Hsec : P JSecret.
  Hypothesis Hstruct : forall fs, Forall (fun f => P (snd f)) fs -> P (JStruct fs).
  Hypothesis Hseq : forall e, P e -> P (JSeq e).
  Fixpoint jty_ind' (t : jty) : P t :=
    match t with
    | JPublic => Hpub
    | JSecret => Hsec
    | JStruct fs =>
      Hstruct fs ((fix go (fs : list (bool * jty)) : Forall (fun f => P (snd f)) fs :=
                     match fs with
                     | [] => Forall_nil _
                     | f :: r => Forall_cons f (jty_ind' (snd f)) (go r)
                     end) fs)
    | JSeq e => Hseq e (jty_ind' e)
    end.
End JtyInd.

Theorem render_noninterference : forall t a b,
  no_secret_visible t = true -> same_public t a b -> render t a = render t b.
Proof.
  induction t as [| |fs IH|e IH] using jty_ind'; intros a b Hc Hs.
  - destruct a, b; cbn in *; try contradiction. now subst.
  - discriminate.
  - destruct a as [| |xs|], b as [| |ys|]; cbn [same_public] in Hs; try contradiction.
    cbn [render]. cbn [no_secret_visible] in Hc.
    revert xs ys Hc Hs. induction IH as [|[vis ft] fr Hf Hfr IHfr]; intros xs ys Hc Hs.
    + destruct xs, ys; reflexivity.
    + destruct xs as [|x xr], ys as [|y yr]; cbn in Hs; try contradiction; try reflexivity.
      apply andb_true_iff in Hc. destruct Hc as [Hc1 Hc2]. destruct Hs as [Hs1 Hs2].
      f_equal.
      * destruct vis; [|reflexivity]. cbn [snd] in Hf. apply Hf; assumption.
      * apply IHfr; assumption.
  - destruct a as [| | |xs], b as [| | |ys]; cbn [same_public] in Hs; try contradiction.
    cbn [render]. cbn [no_secret_visible] in Hc.
    revert ys Hs. induction xs as [|x xr IHx]; intros [|y yr] Hs; cbn in Hs; try contradiction; [reflexivity|].
    destruct Hs as [H1 H2]. cbn [flat_map]. f_equal; [apply IH; assumption|apply IHx; exact H2].
Qed.

(* the checker is also necessary: a visible secret does show *)
Example visible_secret_leaks :
  render (JStruct [(true, JPublic); (true, JSecret)]) (VStruct [VP 1; VS 42]) = [1; 42] /\
  render (JStruct [(true, JPublic); (false, JSecret)]) (VStruct [VP 1; VS 42]) = [1] /\
  no_secret_visible (JStruct [(true, JPublic); (true, JSecret)]) = false /\
  no_secret_visible (JStruct [(true, JSeq (JStruct [(false, JSecret); (true, JPublic)]))]) = true.
Proof. repeat split. Qed.
