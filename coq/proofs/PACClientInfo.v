(* PAC_CLIENT_INFO: what the model (and the code) reports is what the buffer holds at fixed positions. *)
From Gokrb5.lib Require Import Bytes JV.
From Gokrb5.model Require Import Crypto PAC.
From Gokrb5.proofs Require Import CryptoBasic PACTotal PACAccept.

(* ---------- PAC_CLIENT_INFO: positional meaning (attribute faithfulness of the one info buffer the model decodes) ---------- *)

Definition u16_at (r : bytes) (i : nat) : Z := nth (2 * i) r 0 + 256 * nth (2 * i + 1) r 0.

Lemma read_u16s_spec r : forall cnt us, read_u16s r cnt = Ok us ->
  us = map (u16_at r) (seq 0 (Z.to_nat cnt)) /\ (2 * Z.to_nat cnt <= length r)%nat.
Proof.
  assert (forall n r, (length r <= n)%nat -> forall cnt us, read_u16s r cnt = Ok us ->
            us = map (u16_at r) (seq 0 (Z.to_nat cnt)) /\ (2 * Z.to_nat cnt <= length r)%nat) as H.
  { induction n as [|n IH]; intros r0 L cnt us.
    - destruct r0; [|cbn in L; lia]. cbn [read_u16s]. destruct (Z.leb_spec cnt 0); [|discriminate].
      intros E; injection E as <-. replace (Z.to_nat cnt) with 0%nat by lia. split; [reflexivity|cbn; lia].
    - destruct r0 as [|a [|b r']]; cbn [read_u16s]; destruct (Z.leb_spec cnt 0) as [C|C]; try discriminate.
      1-3: intros E; injection E as <-; replace (Z.to_nat cnt) with 0%nat by lia; split; [reflexivity|cbn; lia].
      destruct (read_u16s r' (cnt - 1)) as [rest| |] eqn:R; cbn [bind]; try discriminate.
      intros E; injection E as <-.
      destruct (IH r' ltac:(cbn in L; lia) _ _ R) as [-> Lr].
      replace (Z.to_nat cnt) with (S (Z.to_nat (cnt - 1))) by lia.
      split; [|cbn [length]; lia].
      cbn [seq map]. f_equal. rewrite <- seq_shift, map_map. apply map_ext. intros i.
      unfold u16_at. replace (2 * S i)%nat with (S (S (2 * i))) by lia.
      replace (2 * S i + 1)%nat with (S (S (2 * i + 1))) by lia. reflexivity. }
  intros cnt us E. destruct (H (length r) r (le_n _) cnt us E) as [A B]. split; [exact A|exact B].
Qed.

(* ClientId (FILETIME, low then high double word), NameLength and the UTF-16LE name are read from fixed
   positions; the reported name is the UTF-8 form of exactly NameLength/2 16-bit units *)
Theorem client_info_layout p ci : client_info_unmarshal p = Ok ci ->
  10 <= zlen p /\
  ci_lo ci = le_val (firstn 4 p) /\ ci_hi ci = le_val (firstn 4 (skipn 4 p)) /\
  ci_namelen ci = le_val (firstn 2 (skipn 8 p)) /\
  (10 + 2 * Z.to_nat (ci_namelen ci / 2) <= length p)%nat /\
  ci_name ci = flat_map utf8_of_u16 (map (u16_at (skipn 10 p)) (seq 0 (Z.to_nat (ci_namelen ci / 2)))).
Proof.
  unfold client_info_unmarshal.
  destruct (read_le 4 p) as [[lo r1]| |] eqn:E1; cbn [bind]; try discriminate.
  destruct (read_le 4 r1) as [[hi r2]| |] eqn:E2; cbn [bind]; try discriminate.
  destruct (read_le 2 r2) as [[nl r3]| |] eqn:E3; cbn [bind]; try discriminate.
  destruct (read_u16s r3 (nl / 2)) as [us| |] eqn:E4; cbn [bind]; try discriminate.
  intros E; injection E as <-. cbn [ci_lo ci_hi ci_namelen ci_name].
  apply read_le_ok in E1. destruct E1 as (L1 & -> & ->).
  apply read_le_ok in E2. destruct E2 as (L2 & -> & ->). rewrite skipn_length in L2.
  apply read_le_ok in E3. destruct E3 as (L3 & -> & ->). rewrite !skipn_length in L3.
  rewrite !skipn_add in *. change (4 + 4)%nat with 8%nat in *. change (8 + 2)%nat with 10%nat in *.
  apply read_u16s_spec in E4. destruct E4 as [-> L4]. rewrite skipn_length in L4.
  repeat split; try reflexivity; unfold zlen; lia.
Qed.
