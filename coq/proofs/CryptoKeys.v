(* Key derivation facts for C08: DES3 parity, UTF-16LE, PA-data precedence, generated key sizes. *)
From Coq Require Import Permutation.
From Gokrb5.lib Require Import Bytes JV.
From Gokrb5.prim Require HMAC.
From Gokrb5.model Require Import Crypto PAData.
Open Scope Z_scope.

(* ---- DES3 random-to-key ---- *)
Definition odd_parity (b : Z) : bool :=
  Z.odd (fold_left (fun acc i => acc + (if Z.testbit b i then 1 else 0)) [0;1;2;3;4;5;6;7] 0).

Fixpoint zrange (lo : Z) (n : nat) : list Z := match n with O => [] | S k => lo :: zrange (lo + 1) k end.

Lemma zrange_in lo n x : lo <= x < lo + Z.of_nat n -> In x (zrange lo n).
Proof.
  revert lo; induction n as [|n IH]; intros lo H; [lia|].
  cbn [zrange]. destruct (Z.eq_dec x lo) as [->|Hne]; [left; reflexivity|right; apply IH; lia].
Qed.

Lemma parity_fix_odd_all : forallb (fun b => odd_parity (parity_fix b)) (zrange 0 256) = true.
Proof. vm_compute. reflexivity. Qed.

Theorem parity_fix_odd b : 0 <= b < 256 -> odd_parity (parity_fix b) = true.
Proof.
  intros H. pose proof parity_fix_odd_all as A. rewrite forallb_forall in A.
  apply A. apply zrange_in. lia.
Qed.

Lemma stretch56_length b : length (stretch56 b) = S (length b).
Proof. unfold stretch56. rewrite app_length, map_length. cbn. lia. Qed.

Lemma fix_weak_length k : length k = 8%nat -> length (fix_weak k) = 8%nat.
Proof.
  intros H. unfold fix_weak. destruct (existsb (beq_bytes k) des_weak_keys); [|exact H].
  rewrite app_length, firstn_length, H. reflexivity.
Qed.

Lemma slice_length_le {A} (l : list A) lo hi : (length (slice l lo hi) <= Z.to_nat (hi - lo))%nat.
Proof. unfold slice. rewrite firstn_length. lia. Qed.

(* the output always has 24 bytes when the input has at least 21 *)
Theorem des3_random_to_key_length_21 b : (21 <= length b)%nat -> length (des3_random_to_key b) = 24%nat.
Proof.
  intros H. unfold des3_random_to_key.
  assert (length (slice b 0 7) = 7%nat /\ length (slice b 7 14) = 7%nat /\ length (slice b 14 21) = 7%nat)
    as (E0 & E7 & E14).
  { unfold slice. rewrite !firstn_length, !skipn_length.
    change (Z.to_nat (7 - 0)) with 7%nat. change (Z.to_nat (14 - 7)) with 7%nat.
    change (Z.to_nat (21 - 14)) with 7%nat. change (Z.to_nat 0) with 0%nat.
    change (Z.to_nat 7) with 7%nat. change (Z.to_nat 14) with 14%nat. lia. }
  rewrite !app_length.
  rewrite !fix_weak_length; [reflexivity| | |]; rewrite stretch56_length; congruence.
Qed.

(* ---- UTF-16LE ---- *)
Theorem utf16le_length runes :
  Forall (fun r => 0 <= r < 1114112) runes ->
  length (utf16le runes) = (2 * length (filter (fun r => (r <? 65536)%Z) runes)
                            + 4 * length (filter (fun r => negb (r <? 65536)%Z) runes))%nat.
Proof.
  induction 1 as [|r rs Hr Hrs IH]; [reflexivity|].
  unfold utf16le in *. cbn [flat_map filter]. rewrite app_length, IH.
  destruct (r <? 65536); cbn [negb length].
  - rewrite le_bytes_length. lia.
  - rewrite app_length, !le_bytes_length. lia.
Qed.

(* ---- PA-data precedence ---- *)
Theorem pa_step_skip_lower req s h s' :
  pa_step req s h = Ok s' -> hint_type h < ps_id s ->
  (hint_type h = 3 \/ hint_type h = 11 \/ hint_type h = 19) -> s' = s.
Proof.
  intros E Hlt Ht. destruct h as [salt|es|es|t]; cbn [pa_step hint_type] in *.
  - destruct (Z.ltb_spec 3 (ps_id s)); [congruence|lia].
  - destruct (Z.ltb_spec 11 (ps_id s)); [congruence|lia].
  - destruct (Z.ltb_spec 19 (ps_id s)); [congruence|lia].
  - congruence.
Qed.

Definition simple (h : hint) : Prop :=
  match h with
  | HInfo ((e0, _) :: _) => known_etype e0 = true
  | HInfo2 ((e0, _, _) :: _) => known_etype e0 = true
  | _ => True
  end.

(* at most one hint of each type, and the etypes the hints name are supported ones *)
Definition hints_simple (hs : list hint) : Prop :=
  NoDup (map hint_type hs) /\ Forall simple hs.

Definition step2 (req : Z) (s : pastate) (h1 h2 : hint) : res pastate :=
  bind (pa_step req s h1) (fun s1 => pa_step req s1 h2).

Lemma pastate_eta s : s = mkPS (ps_et s) (ps_salt s) (ps_params s) (ps_id s).
Proof. destruct s; reflexivity. Qed.

(* the default parameters in force are those of the etype selected (until ETYPE-INFO2 has spoken) *)
Definition pinv (s : pastate) : Prop := 19 <= ps_id s \/ ps_params s = default_s2kparams (ps_et s).

Lemma dflt_norm s e : ps_params s = default_s2kparams (ps_et s) ->
  (if ps_et s =? e then ps_params s else default_s2kparams e) = default_s2kparams e.
Proof. intros H. destruct (Z.eqb_spec (ps_et s) e); [subst; exact H|reflexivity]. Qed.
Lemma dflt_norm2 e1 e2 : (if e1 =? e2 then default_s2kparams e1 else default_s2kparams e2) = default_s2kparams e2.
Proof. destruct (Z.eqb_spec e1 e2); [subst|]; reflexivity. Qed.

Lemma pa_step_pinv req s h s' : pinv s -> pa_step req s h = Ok s' -> pinv s'.
Proof.
  intros Hi E. destruct h as [a|[|[e1 a1] es1]|[|[[e1 a1] p1] es1]|t1]; cbn [pa_step] in E.
  - destruct (Z.ltb_spec 3 (ps_id s)); injection E as <-; [exact Hi|].
    destruct Hi as [Hi|Hi]; [lia|right; exact Hi].
  - destruct (11 <? ps_id s); injection E as <-; exact Hi.
  - destruct (Z.ltb_spec 11 (ps_id s)); [injection E as <-; exact Hi|].
    destruct (negb (ps_et s =? e1) && negb (known_etype e1)); [discriminate|]. injection E as <-.
    destruct Hi as [Hi|Hi]; [lia|]. right. cbn [ps_params ps_et]. apply dflt_norm; exact Hi.
  - destruct (19 <? ps_id s); injection E as <-; exact Hi.
  - destruct (Z.ltb_spec 19 (ps_id s)); [injection E as <-; exact Hi|].
    destruct (negb (ps_et s =? e1) && negb (known_etype e1)); [discriminate|]. injection E as <-.
    left. cbn [ps_id]. lia.
  - injection E as <-; exact Hi.
Qed.

Lemma pa_step_commute req s h1 h2 :
  pinv s -> simple h1 -> simple h2 -> hint_type h1 <> hint_type h2 ->
  step2 req s h1 h2 = step2 req s h2 h1.
Proof.
  intros Hi S1 S2 Hne. unfold step2.
  destruct h1 as [a|[|[e1 a1] es1]|[|[[e1 a1] p1] es1]|t1];
  destruct h2 as [b|[|[e2 b2] es2]|[|[[e2 b2] p2] es2]|t2];
  cbn [pa_step hint_type simple] in *;
  try congruence;
  rewrite ?S1, ?S2, ?andb_false_r; cbn [negb andb bind];
  repeat match goal with
         | |- context [?x <? ps_id s] => destruct (Z.ltb_spec x (ps_id s))
         end; cbn [bind pa_step ps_id ps_et ps_salt ps_params Z.ltb Z.compare Pos.compare Pos.compare_cont];
  rewrite ?S1, ?S2, ?andb_false_r; cbn [negb andb bind];
  repeat match goal with
         | |- context [?x <? ps_id s] => destruct (Z.ltb_spec x (ps_id s))
         end;
  try lia; try reflexivity.
  all: destruct Hi as [Hi|Hi]; [lia|].
  all: rewrite ?(dflt_norm s _ Hi), ?dflt_norm2; try reflexivity.
Qed.

Lemma pa_fold_cons req s h r :
  pa_fold req s (h :: r) = bind (pa_step req s h) (fun s' => pa_fold req s' r).
Proof. reflexivity. Qed.

Lemma pa_fold_perm req hs hs' :
  Permutation hs hs' -> hints_simple hs -> forall s, pinv s -> pa_fold req s hs = pa_fold req s hs'.
Proof.
  induction 1 as [|h l l' Hp IH|h1 h2 l|l l' l'' H1 IH1 H2 IH2]; intros [Hnd Hs] s Hi.
  - reflexivity.
  - rewrite !pa_fold_cons. cbn [map] in Hnd. inversion Hnd; inversion Hs; subst.
    destruct (pa_step req s h) eqn:E; cbn [bind]; auto. apply IH; [split; assumption|].
    eapply pa_step_pinv; eassumption.
  - rewrite !pa_fold_cons. cbn [map] in Hnd.
    inversion Hnd as [|? ? Hn1 Hnd']; subst. inversion Hs as [|? ? S1 Hs']; subst. inversion Hs' as [|? ? S2 Hs'']; subst.
    assert (hint_type h2 <> hint_type h1) as Hne by (intros E; apply Hn1; left; symmetry; exact E).
    pose proof (pa_step_commute req s h2 h1 Hi S1 S2 Hne) as C. unfold step2 in C.
    destruct (pa_step req s h2) as [s2| |] eqn:E2; destruct (pa_step req s h1) as [s1| |] eqn:E1;
      cbn [bind] in *; rewrite ?pa_fold_cons.
    all: try congruence.
    all: try (destruct (pa_step req s2 h1) as [a| |]; cbn [bind] in *; congruence).
    all: try (destruct (pa_step req s1 h2) as [b| |]; cbn [bind] in *; congruence).
    all: destruct (pa_step req s2 h1) as [a| |], (pa_step req s1 h2) as [b| |]; cbn [bind] in *; congruence.
  - rewrite IH1 by (try split; assumption). apply IH2; [|assumption]. split.
    + eapply Permutation_NoDup; [apply Permutation_map; exact H1|exact Hnd].
    + eapply Permutation_Forall; eauto.
Qed.

Theorem padata_order_irrelevant pw names realm req hs hs' :
  hints_simple hs -> Permutation hs hs' ->
  key_from_password pw names realm req hs = key_from_password pw names realm req hs'.
Proof.
  intros Hs Hp. unfold key_from_password. destruct (negb (known_etype req)); [reflexivity|].
  rewrite (pa_fold_perm req hs hs' Hp Hs); [reflexivity|]. right. reflexivity.
Qed.

(* ---- RFC 4120 5.2.7.5 precedence: an ETYPE-INFO2 hint, wherever it stands, alone decides etype, salt and
   parameters; without one an ETYPE-INFO hint decides etype and salt; without either PW-SALT gives the salt ---- *)
Lemma pa_step_fixed_19 req s h :
  ps_id s = 19 -> (forall es, h <> HInfo2 es) -> pa_step req s h = Ok s.
Proof.
  intros Hid Hn. destruct h as [a|es|es|t]; cbn [pa_step]; rewrite ?Hid; try reflexivity.
  exfalso; exact (Hn es eq_refl).
Qed.

Lemma pa_fold_fixed_19 req hs : forall s,
  ps_id s = 19 -> (forall h, In h hs -> forall es, h <> HInfo2 es) -> pa_fold req s hs = Ok s.
Proof.
  induction hs as [|h r IH]; intros s Hid Hn; [reflexivity|].
  cbn [pa_fold]. rewrite pa_step_fixed_19 by (try assumption; apply Hn; left; reflexivity).
  apply IH; [assumption|]. intros h' Hin. apply Hn. right; assumption.
Qed.

Definition info2_params (p0 : option bytes) (dflt : bytes) : bytes :=
  match p0 with Some p => if (length p =? 4)%nat then hex_of_bytes p else dflt | None => dflt end.

Theorem padata_info2_decides req s0 hs e sl p0 es :
  hints_simple hs -> ps_id s0 <= 19 -> ps_params s0 = default_s2kparams (ps_et s0) ->
  In (HInfo2 ((e, sl, p0) :: es)) hs ->
  pa_fold req s0 hs = Ok (mkPS e sl (info2_params p0 (default_s2kparams e)) 19).
Proof.
  intros Hs Hid Hp0 Hin. assert (pinv s0) as Hi by (right; exact Hp0). destruct (in_split _ _ Hin) as (l1 & l2 & ->).
  assert (Permutation (l1 ++ HInfo2 ((e, sl, p0) :: es) :: l2) (HInfo2 ((e, sl, p0) :: es) :: l1 ++ l2)) as P
    by (symmetry; apply Permutation_middle).
  rewrite (pa_fold_perm req _ _ P Hs s0 Hi).
  destruct Hs as [Hnd Hf].
  assert (NoDup (map hint_type (HInfo2 ((e, sl, p0) :: es) :: l1 ++ l2))) as Hnd'
    by (eapply Permutation_NoDup; [apply Permutation_map; exact P|exact Hnd]).
  assert (simple (HInfo2 ((e, sl, p0) :: es))) as Hk by (rewrite Forall_forall in Hf; apply Hf; exact Hin).
  cbn [simple] in Hk. cbn [pa_fold pa_step].
  destruct (Z.ltb_spec 19 (ps_id s0)); [lia|]. rewrite Hk, andb_false_r. rewrite (dflt_norm s0 e Hp0).
  change (match p0 with Some p => if (length p =? 4)%nat then hex_of_bytes p else default_s2kparams e | None => default_s2kparams e end)
    with (info2_params p0 (default_s2kparams e)).
  apply pa_fold_fixed_19; [reflexivity|].
  intros h Hh es' ->. cbn [map hint_type] in Hnd'. inversion Hnd' as [|? ? Hni _]; subst.
  apply Hni. apply in_map_iff. exists (HInfo2 es'). split; [reflexivity|exact Hh].
Qed.

Lemma pa_step_fixed_11 req s h :
  ps_id s = 11 -> (forall es, h <> HInfo2 es) -> (forall es, h <> HInfo es) -> pa_step req s h = Ok s.
Proof.
  intros Hid Hn2 Hn1. destruct h as [a|es|es|t]; cbn [pa_step]; rewrite ?Hid; try reflexivity.
  - exfalso; exact (Hn1 es eq_refl).
  - exfalso; exact (Hn2 es eq_refl).
Qed.

Lemma pa_fold_fixed_11 req hs : forall s,
  ps_id s = 11 -> (forall h, In h hs -> (forall es, h <> HInfo2 es) /\ (forall es, h <> HInfo es)) -> pa_fold req s hs = Ok s.
Proof.
  induction hs as [|h r IH]; intros s Hid Hn; [reflexivity|].
  cbn [pa_fold]. destruct (Hn h (or_introl eq_refl)) as [A B]. rewrite pa_step_fixed_11 by assumption.
  apply IH; [assumption|]. intros h' Hin. apply Hn. right; assumption.
Qed.

Theorem padata_info_decides req s0 hs e sl es :
  hints_simple hs -> ps_id s0 <= 11 -> ps_params s0 = default_s2kparams (ps_et s0) ->
  In (HInfo ((e, sl) :: es)) hs -> (forall es2, ~ In (HInfo2 es2) hs) ->
  pa_fold req s0 hs = Ok (mkPS e sl (default_s2kparams e) 11).
Proof.
  intros Hs Hid Hp0 Hin Hno2. assert (pinv s0) as Hi by (right; exact Hp0). destruct (in_split _ _ Hin) as (l1 & l2 & ->).
  assert (Permutation (l1 ++ HInfo ((e, sl) :: es) :: l2) (HInfo ((e, sl) :: es) :: l1 ++ l2)) as P
    by (symmetry; apply Permutation_middle).
  rewrite (pa_fold_perm req _ _ P Hs s0 Hi).
  destruct Hs as [Hnd Hf].
  assert (NoDup (map hint_type (HInfo ((e, sl) :: es) :: l1 ++ l2))) as Hnd'
    by (eapply Permutation_NoDup; [apply Permutation_map; exact P|exact Hnd]).
  assert (simple (HInfo ((e, sl) :: es))) as Hk by (rewrite Forall_forall in Hf; apply Hf; exact Hin).
  cbn [simple] in Hk. cbn [pa_fold pa_step].
  destruct (Z.ltb_spec 11 (ps_id s0)); [lia|]. rewrite Hk, andb_false_r. rewrite (dflt_norm s0 e Hp0).
  apply pa_fold_fixed_11; [reflexivity|].
  intros h Hh. split.
  - intros es' ->. apply (Hno2 es'). apply (Permutation_in _ (Permutation_sym P)). right; exact Hh.
  - intros es' ->. cbn [map hint_type] in Hnd'. inversion Hnd' as [|? ? Hni _]; subst.
    apply Hni. apply in_map_iff. exists (HInfo es'). split; [reflexivity|exact Hh].
Qed.

(* The code as pinned: the same two hints in the two orders gave different states (and so different keys). *)
Theorem padata_pinned_order_matters_refuted :
  let hs := [HInfo [(23, [2])]; HInfo2 [(17, [3], Some [0;0;0;5])]] in
  hints_simple hs /\ Permutation hs (rev hs) /\
  pa_fold_pinned 17 (mkPS 17 [] (default_s2kparams 17) 0) hs <> pa_fold_pinned 17 (mkPS 17 [] (default_s2kparams 17) 0) (rev hs) /\
  pa_fold 17 (mkPS 17 [] (default_s2kparams 17) 0) hs = pa_fold 17 (mkPS 17 [] (default_s2kparams 17) 0) (rev hs).
Proof.
  cbn zeta. split; [|split; [apply Permutation_rev|split; [vm_compute; discriminate|reflexivity]]].
  split; [cbn; repeat constructor; cbn; intuition discriminate|repeat constructor].
Qed.

(* non-vacuity: all three hints, naming different etypes, two orders, same state; INFO2 wins *)
Example padata_example :
  let hs := [HSalt [1]; HInfo [(23, [2])]; HInfo2 [(18, [3], Some [0;0;0;5])]] in
  hints_simple hs /\
  pa_fold 18 (mkPS 18 [] (default_s2kparams 18) 0) hs = Ok (mkPS 18 [3] [48;48;48;48;48;48;48;53] 19) /\
  pa_fold 18 (mkPS 18 [] (default_s2kparams 18) 0) (rev hs) = Ok (mkPS 18 [3] [48;48;48;48;48;48;48;53] 19) /\
  pa_fold 23 (mkPS 23 [] (default_s2kparams 23) 0) (rev hs) = Ok (mkPS 18 [3] [48;48;48;48;48;48;48;53] 19).
Proof.
  split; [|split; [|split]; reflexivity]. split.
  - cbn. repeat constructor; cbn; intuition discriminate.
  - repeat constructor.
Qed.

(* ---- generated keys ---- *)
Lemma derive_key_ok_len et key c :
  In et [16; 17; 18; 19; 20; 23] -> length key = key_len et -> exists k, derive_key et key c = Ok k.
Proof.
  intros Hin Hl. cbn [In] in Hin. destruct Hin as [<-|[<-|[<-|[<-|[<-|[<-|[]]]]]]];
    unfold derive_key, et_family, key_len in *; cbn [Z.eqb Pos.eqb orb] in *;
    rewrite ?Hl; cbn [Nat.eqb negb]; eauto.
Qed.

Theorem generated_key_usable et key usage conf msg :
  In et [16; 17; 18; 19; 20; 23] -> length key = key_len et ->
  exists c, encrypt_with et key usage conf msg = Ok c.
Proof.
  intros Hin Hl.
  destruct (derive_key_ok_len et key (usage_const usage 170) Hin Hl) as [ke Eke].
  destruct (derive_key_ok_len et key (usage_const usage 85) Hin Hl) as [ki Eki].
  unfold encrypt_with, integrity_hash. rewrite ?Eke, ?Eki.
  cbn [In] in Hin. destruct Hin as [<-|[<-|[<-|[<-|[<-|[<-|[]]]]]]];
    unfold et_family, key_len in *; cbn [Z.eqb Pos.eqb orb] in *; rewrite ?Hl; cbn [Nat.eqb negb bind];
    rewrite ?Eke, ?Eki; cbn [bind]; eauto.
  unfold rc4_encrypt. rewrite HMAC.hmac_md5_length. cbn [Nat.eqb negb]. eauto.
Qed.
