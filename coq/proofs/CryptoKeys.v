(* Key derivation facts for C08: DES3 parity, UTF-16LE, PA-data precedence, generated key sizes. *)
From Coq Require Import Permutation.
From Gokrb5.lib Require Import Bytes JV.
From Gokrb5.prim Require HMAC.
From Gokrb5.model Require Import Crypto PAData.
Open Scope Z_scope.

(* ---- DES3 random-to-key ---- *)
Definition odd_parity (b : Z) : bool :=
  Z.odd (fold_left (fun acc i => acc + (if Z.testbit b i then 1 else 0)) [0;1;2;3;4;5;6;7] 0).

Fixpoint zrange (lo : Z) (n : nat) : list Z := match n with O => [] | S k => lo :: zrange (lo + 1) k end.

Lemma zrange_in lo n x : lo <= x < lo + Z.of_nat n -> In x (zrange lo n).
Proof.
  revert lo; induction n as [|n IH]; intros lo H; [lia|].
  cbn [zrange]. destruct (Z.eq_dec x lo) as [->|Hne]; [left; reflexivity|right; apply IH; lia].
Qed.

Lemma parity_fix_odd_all : forallb (fun b => odd_parity (parity_fix b)) (zrange 0 256) = true.
Proof. vm_compute. reflexivity. Qed.

Theorem parity_fix_odd b : 0 <= b < 256 -> odd_parity (parity_fix b) = true.
Proof.
  intros H. pose proof parity_fix_odd_all as A. rewrite forallb_forall in A.
  apply A. apply zrange_in. lia.
Qed.

Lemma stretch56_length b : length (stretch56 b) = S (length b).
Proof. unfold stretch56. rewrite app_length, map_length. cbn. lia. Qed.

Lemma fix_weak_length k : length k = 8%nat -> length (fix_weak k) = 8%nat.
Proof.
  intros H. unfold fix_weak. destruct (existsb (beq_bytes k) des_weak_keys); [|exact H].
  rewrite app_length, firstn_length, H. reflexivity.
Qed.

Lemma slice_length_le {A} (l : list A) lo hi : (length (slice l lo hi) <= Z.to_nat (hi - lo))%nat.
Proof. unfold slice. rewrite firstn_length. lia. Qed.

(* the output always has 24 bytes when the input has at least 21 *)
Theorem des3_random_to_key_length_21 b : (21 <= length b)%nat -> length (des3_random_to_key b) = 24%nat.
Proof.
  intros H. unfold des3_random_to_key.
  assert (length (slice b 0 7) = 7%nat /\ length (slice b 7 14) = 7%nat /\ length (slice b 14 21) = 7%nat)
    as (E0 & E7 & E14).
  { unfold slice. rewrite !firstn_length, !skipn_length.
    change (Z.to_nat (7 - 0)) with 7%nat. change (Z.to_nat (14 - 7)) with 7%nat.
    change (Z.to_nat (21 - 14)) with 7%nat. change (Z.to_nat 0) with 0%nat.
    change (Z.to_nat 7) with 7%nat. change (Z.to_nat 14) with 14%nat. lia. }
  rewrite !app_length.
  rewrite !fix_weak_length; [reflexivity| | |]; rewrite stretch56_length; congruence.
Qed.

(* ---- UTF-16LE ---- *)
Theorem utf16le_length runes :
  Forall (fun r => 0 <= r < 1114112) runes ->
  length (utf16le runes) = (2 * length (filter (fun r => (r <? 65536)%Z) runes)
                            + 4 * length (filter (fun r => negb (r <? 65536)%Z) runes))%nat.
Proof.
  induction 1 as [|r rs Hr Hrs IH]; [reflexivity|].
  unfold utf16le in *. cbn [flat_map filter]. rewrite app_length, IH.
  destruct (r <? 65536); cbn [negb length].
  - rewrite le_bytes_length. lia.
  - rewrite app_length, !le_bytes_length. lia.
Qed.

(* ---- PA-data precedence ---- *)
Theorem pa_step_skip_lower req s h s' :
  pa_step req s h = Ok s' -> hint_type h < ps_id s ->
  (hint_type h = 3 \/ hint_type h = 11 \/ hint_type h = 19) -> s' = s.
Proof.
  intros E Hlt Ht. destruct h as [salt|es|es|t]; cbn [pa_step hint_type] in *.
  - destruct (Z.ltb_spec 3 (ps_id s)); [congruence|lia].
  - destruct (Z.ltb_spec 11 (ps_id s)); [congruence|lia].
  - destruct (Z.ltb_spec 19 (ps_id s)); [congruence|lia].
  - congruence.
Qed.

Definition simple (req : Z) (h : hint) : Prop :=
  match h with
  | HInfo ((e0, _) :: _) => e0 = req
  | HInfo2 ((e0, _, _) :: _) => e0 = req
  | _ => True
  end.

Definition hints_simple (req : Z) (hs : list hint) : Prop :=
  NoDup (map hint_type hs) /\ Forall (simple req) hs.

Definition step2 (req : Z) (s : pastate) (h1 h2 : hint) : res pastate :=
  bind (pa_step req s h1) (fun s1 => pa_step req s1 h2).

Lemma pastate_eta s : s = mkPS (ps_et s) (ps_salt s) (ps_params s) (ps_id s).
Proof. destruct s; reflexivity. Qed.

Lemma pa_step_commute req s h1 h2 :
  simple req h1 -> simple req h2 -> hint_type h1 <> hint_type h2 ->
  step2 req s h1 h2 = step2 req s h2 h1.
Proof.
  intros S1 S2 Hne. unfold step2.
  destruct h1 as [a|[|[e1 a1] es1]|[|[[e1 a1] p1] es1]|t1];
  destruct h2 as [b|[|[e2 b2] es2]|[|[[e2 b2] p2] es2]|t2];
  cbn [pa_step hint_type simple] in *; subst;
  try congruence;
  rewrite ?Z.eqb_refl; cbn [negb andb bind];
  repeat match goal with
         | |- context [?x <? ps_id s] => destruct (Z.ltb_spec x (ps_id s))
         end; cbn [bind pa_step ps_id ps_et ps_salt ps_params Z.ltb Z.compare Pos.compare Pos.compare_cont];
  rewrite ?Z.eqb_refl; cbn [negb andb bind];
  repeat match goal with
         | |- context [?x <? ps_id s] => destruct (Z.ltb_spec x (ps_id s))
         end;
  try lia; try reflexivity.
Qed.

Lemma pa_fold_cons req s h r :
  pa_fold req s (h :: r) = bind (pa_step req s h) (fun s' => pa_fold req s' r).
Proof. reflexivity. Qed.

Lemma pa_fold_perm req hs hs' :
  Permutation hs hs' -> hints_simple req hs -> forall s, pa_fold req s hs = pa_fold req s hs'.
Proof.
  induction 1 as [|h l l' Hp IH|h1 h2 l|l l' l'' H1 IH1 H2 IH2]; intros [Hnd Hs] s.
  - reflexivity.
  - rewrite !pa_fold_cons. cbn [map] in Hnd. inversion Hnd; inversion Hs; subst.
    destruct (pa_step req s h); cbn [bind]; auto. apply IH. split; assumption.
  - rewrite !pa_fold_cons. cbn [map] in Hnd.
    inversion Hnd as [|? ? Hn1 Hnd']; subst. inversion Hs as [|? ? S1 Hs']; subst. inversion Hs' as [|? ? S2 Hs'']; subst.
    assert (hint_type h2 <> hint_type h1) as Hne by (intros E; apply Hn1; left; symmetry; exact E).
    pose proof (pa_step_commute req s h2 h1 S1 S2 Hne) as C. unfold step2 in C.
    destruct (pa_step req s h2) as [s2| |] eqn:E2; destruct (pa_step req s h1) as [s1| |] eqn:E1;
      cbn [bind] in *; rewrite ?pa_fold_cons.
    all: try congruence.
    all: try (destruct (pa_step req s2 h1) as [a| |]; cbn [bind] in *; congruence).
    all: try (destruct (pa_step req s1 h2) as [b| |]; cbn [bind] in *; congruence).
    all: destruct (pa_step req s2 h1) as [a| |], (pa_step req s1 h2) as [b| |]; cbn [bind] in *; congruence.
  - rewrite IH1 by (split; assumption). apply IH2. split.
    + eapply Permutation_NoDup; [apply Permutation_map; exact H1|exact Hnd].
    + eapply Permutation_Forall; eauto.
Qed.

Theorem padata_order_irrelevant pw names realm req hs hs' :
  hints_simple req hs -> Permutation hs hs' ->
  key_from_password pw names realm req hs = key_from_password pw names realm req hs'.
Proof.
  intros Hs Hp. unfold key_from_password. destruct (negb (known_etype req)); [reflexivity|].
  now rewrite (pa_fold_perm req hs hs' Hp Hs).
Qed.

(* non-vacuity: all three hints, two orders, same state; INFO2 wins *)
Example padata_example :
  let hs := [HSalt [1]; HInfo [(18, [2])]; HInfo2 [(18, [3], Some [0;0;0;5])]] in
  hints_simple 18 hs /\
  pa_fold 18 (mkPS 18 [] (default_s2kparams 18) 0) hs = Ok (mkPS 18 [3] [48;48;48;48;48;48;48;53] 19) /\
  pa_fold 18 (mkPS 18 [] (default_s2kparams 18) 0) (rev hs) = Ok (mkPS 18 [3] [48;48;48;48;48;48;48;53] 19).
Proof.
  split; [|split; reflexivity]. split.
  - cbn. repeat constructor; cbn; intuition discriminate.
  - repeat constructor.
Qed.

(* ---- generated keys ---- *)
Lemma derive_key_ok_len et key c :
  In et [16; 17; 18; 19; 20; 23] -> length key = key_len et -> exists k, derive_key et key c = Ok k.
Proof.
  intros Hin Hl. cbn [In] in Hin. destruct Hin as [<-|[<-|[<-|[<-|[<-|[<-|[]]]]]]];
    unfold derive_key, et_family, key_len in *; cbn [Z.eqb Pos.eqb orb] in *;
    rewrite ?Hl; cbn [Nat.eqb negb]; eauto.
Qed.

Theorem generated_key_usable et key usage conf msg :
  In et [16; 17; 18; 19; 20; 23] -> length key = key_len et ->
  exists c, encrypt_with et key usage conf msg = Ok c.
Proof.
  intros Hin Hl.
  destruct (derive_key_ok_len et key (usage_const usage 170) Hin Hl) as [ke Eke].
  destruct (derive_key_ok_len et key (usage_const usage 85) Hin Hl) as [ki Eki].
  unfold encrypt_with, integrity_hash. rewrite ?Eke, ?Eki.
  cbn [In] in Hin. destruct Hin as [<-|[<-|[<-|[<-|[<-|[<-|[]]]]]]];
    unfold et_family, key_len in *; cbn [Z.eqb Pos.eqb orb] in *; rewrite ?Hl; cbn [Nat.eqb negb bind];
    rewrite ?Eke, ?Eki; cbn [bind]; eauto.
  unfold rc4_encrypt. rewrite HMAC.hmac_md5_length. cbn [Nat.eqb negb]. eauto.
Qed.
