(* What the server signature covers, and how the declared type binds length and algorithm. *)
From Gokrb5.lib Require Import Bytes JV.
From Gokrb5.model Require Import Crypto PAC.
From Gokrb5.proofs Require Import CryptoBasic PACTotal PACAccept.

(* ---------- pointwise facts about splice / zero_field ---------- *)

Lemma nth_error_firstn {A} (l : list A) n i : (i < n)%nat -> nth_error (firstn n l) i = nth_error l i.
Proof. revert l i; induction n as [|n IH]; intros l i H; [lia|]. destruct l; [destruct i; reflexivity|]. destruct i; cbn; [reflexivity|apply IH; lia]. Qed.

Lemma nth_error_skipn {A} (l : list A) n i : nth_error (skipn n l) i = nth_error l (n + i).
Proof. revert l; induction n as [|n IH]; intros l; [reflexivity|]. destruct l; [destruct i; reflexivity|]. cbn. apply IH. Qed.

Lemma nth_error_splice (z : bytes) off src j : 0 <= off -> (Z.to_nat off + length src <= length z)%nat ->
  nth_error (splice z off src) j =
  if (j <? Z.to_nat off)%nat then nth_error z j
  else if (j <? Z.to_nat off + length src)%nat then nth_error src (j - Z.to_nat off)
  else nth_error z j.
Proof.
  intros H0 H. unfold splice. set (o := Z.to_nat off) in *.
  destruct (Nat.ltb_spec j o) as [A|A].
  - rewrite nth_error_app1 by (rewrite firstn_length; lia). apply nth_error_firstn; lia.
  - rewrite nth_error_app2 by (rewrite firstn_length; lia). rewrite firstn_length, Nat.min_l by lia.
    destruct (Nat.ltb_spec j (o + length src)) as [B|B].
    + rewrite nth_error_app1 by lia. reflexivity.
    + rewrite nth_error_app2 by lia. rewrite nth_error_skipn. f_equal. lia.
Qed.

Lemma nth_error_slice {A} (l : list A) lo hi i : 0 <= lo -> lo <= hi -> hi <= zlen l ->
  (i < Z.to_nat (hi - lo))%nat -> nth_error (slice l lo hi) i = nth_error l (Z.to_nat lo + i).
Proof.
  intros. unfold slice. rewrite nth_error_firstn by lia. apply nth_error_skipn.
Qed.

Lemma nth_error_zeros n i : (i < n)%nat -> nth_error (zeros n) i = Some 0.
Proof. unfold zeros. revert i; induction n; intros [|i] H; cbn; try lia; auto. apply IHn; lia. Qed.

(* zero_field leaves every byte of the buffer as it is except those of the value field [4, 4+c) *)
Lemma zero_field_nth p zb i : zero_field p = Some zb ->
  length zb = length p /\
  (~ (4 <= Z.of_nat i < 4 + sig_len (le_val (firstn 4 p))) -> nth_error zb i = nth_error p i).
Proof.
  unfold zero_field. unfold read_le. destruct (Nat.ltb_spec (length p) 4) as [L|L]; [discriminate|].
  pose proof (sig_len_range (le_val (firstn 4 p))) as Hc. set (c := sig_len (le_val (firstn 4 p))) in *.
  rewrite zlen_skipn. destruct (Z.ltb_spec (Z.max 0 (zlen p - Z.of_nat 4)) c) as [|Hr]; [discriminate|].
  intros E. assert (Ezb : zb = firstn 4 p ++ zeros (Z.to_nat c) ++ skipn (Z.to_nat (4 + c)) p) by congruence.
  clear E. subst zb.
  assert (Hl : 4 + c <= zlen p) by (unfold zlen in *; lia).
  split.
  { rewrite !app_length, firstn_length, zeros_length, skipn_length. unfold zlen in *. lia. }
  intros Hi. destruct (Nat.ltb_spec i 4) as [A|A].
  - rewrite nth_error_app1 by (rewrite firstn_length; lia). apply nth_error_firstn; lia.
  - rewrite nth_error_app2 by (rewrite firstn_length; lia). rewrite firstn_length, Nat.min_l by lia.
    rewrite nth_error_app2 by (rewrite zeros_length; lia). rewrite zeros_length, nth_error_skipn. f_equal. lia.
Qed.

(* ---------- every bit outside the two signature value fields is signed ---------- *)

Definition covered (F : list (Z * Z)) (j : nat) : Prop :=
  exists lo hi, In (lo, hi) F /\ lo <= Z.of_nat j < hi.

Lemma step_outside data b z zb F j :
  in_bounds data b = true -> length z = length data ->
  zero_field (slice data (ib_off b) (ib_off b + ib_size b)) = Some zb ->
  (~ covered F j -> nth_error z j = nth_error data j) ->
  length (splice z (ib_off b) zb) = length data /\
  (~ covered (F ++ [(ib_off b + 4, ib_off b + 4 + sig_len (le_val (firstn 4 (slice data (ib_off b) (ib_off b + ib_size b)))))]) j ->
   nth_error (splice z (ib_off b) zb) j = nth_error data j).
Proof.
  unfold in_bounds. intros IB Lz ZF Inv.
  destruct (Z.leb_spec 0 (ib_off b)) as [O0|]; [|discriminate].
  destruct (Z.leb_spec 0 (ib_size b)) as [S0|]; [|discriminate].
  destruct (Z.leb_spec (ib_off b + ib_size b) (zlen data)) as [OS|]; [|discriminate]. clear IB.
  set (p := slice data (ib_off b) (ib_off b + ib_size b)) in *.
  assert (Lp : length p = Z.to_nat (ib_size b)) by (unfold p; rewrite length_slice by lia; f_equal; lia).
  set (c := sig_len (le_val (firstn 4 p))).
  destruct (zero_field_nth p zb (j - Z.to_nat (ib_off b)) ZF) as [Lzb Hn]. fold c in Hn.
  assert (Hfit : (Z.to_nat (ib_off b) + length zb <= length z)%nat) by (unfold zlen in *; lia).
  split; [rewrite splice_length by exact Hfit; exact Lz|].
  intros NC. rewrite nth_error_splice by (try exact Hfit; lia).
  assert (NF : ~ covered F j).
  { intros (lo & hi & I & R). apply NC. exists lo, hi. split; [apply in_or_app; left; exact I|exact R]. }
  destruct (Nat.ltb_spec j (Z.to_nat (ib_off b))) as [A|A]; [apply Inv, NF|].
  destruct (Nat.ltb_spec j (Z.to_nat (ib_off b) + length zb)) as [B|B]; [|apply Inv, NF].
  rewrite Hn.
  - unfold p. rewrite nth_error_slice by lia. f_equal. lia.
  - intros R. apply NC. exists (ib_off b + 4), (ib_off b + 4 + c). split; [apply in_or_app; right; left; reflexivity|lia].
Qed.

Lemma zero_loop_outside data t : forall s6 s7 z F j,
  length z = length data ->
  (~ covered F j -> nth_error z j = nth_error data j) ->
  ~ covered (F ++ sig_fields_loop data s6 s7 t) j ->
  nth_error (zero_loop data s6 s7 t z) j = nth_error data j.
Proof.
  induction t as [|b t IH]; intros s6 s7 z F j Lz Inv NC; cbn [zero_loop sig_fields_loop] in *.
  { apply Inv. rewrite app_nil_r in NC. exact NC. }
  assert (NF : ~ covered F j).
  { intros (lo & hi & I & R). apply NC. exists lo, hi. split; [apply in_or_app; left; exact I|exact R]. }
  destruct (in_bounds data b) eqn:IB; [|apply Inv, NF].
  destruct ((ib_type b =? 6) && negb s6).
  { destruct (zero_field (slice data (ib_off b) (ib_off b + ib_size b))) as [zb|] eqn:ZF; [|apply Inv, NF].
    destruct (step_outside data b z zb F j IB Lz ZF Inv) as [L1 I1].
    apply (IH true s7 _ (F ++ [(ib_off b + 4, ib_off b + 4 + sig_len (le_val (firstn 4 (slice data (ib_off b) (ib_off b + ib_size b)))))]) j L1 I1).
    rewrite <- app_assoc. exact NC. }
  destruct ((ib_type b =? 7) && negb s7).
  { destruct (zero_field (slice data (ib_off b) (ib_off b + ib_size b))) as [zb|] eqn:ZF; [|apply Inv, NF].
    destruct (step_outside data b z zb F j IB Lz ZF Inv) as [L1 I1].
    apply (IH s6 true _ (F ++ [(ib_off b + 4, ib_off b + 4 + sig_len (le_val (firstn 4 (slice data (ib_off b) (ib_off b + ib_size b)))))]) j L1 I1).
    rewrite <- app_assoc. exact NC. }
  apply (IH s6 s7 z F j Lz Inv NC).
Qed.

(* the zeroed image agrees with the PAC at every position outside the signature value fields *)
Theorem zero_sigs_outside data j :
  ~ covered (sig_fields data) j -> nth_error (zero_sigs data) j = nth_error data j.
Proof.
  intros NC. unfold zero_sigs. apply (zero_loop_outside data (table_of data) false false data [] j eq_refl).
  - reflexivity.
  - exact NC.
Qed.

(* Two PACs with the same signature-field positions and the same signed image are equal everywhere
   outside those fields: every bit outside the two signature VALUES is covered by the server signature
   (header, table, all buffers, the declared signature types, RODC identifiers, padding). *)
Theorem zero_sigs_determines_rest p p' :
  sig_fields p = sig_fields p' -> zero_sigs p = zero_sigs p' ->
  forall j, ~ covered (sig_fields p) j -> nth_error p j = nth_error p' j.
Proof.
  intros SF ZS j NC.
  rewrite <- (zero_sigs_outside p j NC). rewrite ZS. apply zero_sigs_outside. rewrite <- SF. exact NC.
Qed.

(* in particular the two PACs have the same length *)
Corollary zero_sigs_determines_length p p' : zero_sigs p = zero_sigs p' -> length (zero_sigs p) = length (zero_sigs p').
Proof. intros ->. reflexivity. Qed.

(* at most two fields, each at most 24 bytes long *)
Lemma sig_fields_loop_small data t : forall s6 s7,
  (length (sig_fields_loop data s6 s7 t) <= (if s6 then 0 else 1) + (if s7 then 0 else 1))%nat /\
  Forall (fun r => 0 <= snd r - fst r <= 24) (sig_fields_loop data s6 s7 t).
Proof.
  induction t as [|b t IH]; intros s6 s7.
  { destruct s6, s7; split; cbn; try lia; constructor. }
  cbn [sig_fields_loop].
  destruct (in_bounds data b); [|destruct s6, s7; split; cbn; try lia; constructor].
  destruct (ib_type b =? 6) eqn:T6; destruct (ib_type b =? 7) eqn:T7; destruct s6, s7; cbn [andb negb]; try apply IH.
  all: destruct (zero_field _); [|split; [cbn; lia|constructor]].
  all: match goal with |- context [sig_fields_loop _ ?a ?b _] => destruct (IH a b) as [L Fa] end.
  all: split; [cbn in *; lia|].
  all: constructor; [cbn [fst snd]; pose proof (sig_len_range (le_val (firstn 4 (slice data (ib_off b) (ib_off b + ib_size b))))); lia|exact Fa].
Qed.

Theorem sig_fields_small data :
  (length (sig_fields data) <= 2)%nat /\ Forall (fun r => 0 <= snd r - fst r <= 24) (sig_fields data).
Proof. unfold sig_fields. destruct (sig_fields_loop_small data (table_of data) false false) as [L F]. split; [cbn in L; lia|exact F]. Qed.

(* ---------- the declared type binds length and algorithm ---------- *)

(* the length table of SignatureData.Unmarshal agrees with the MAC length of the etype of the declared
   type for the five types it knows; des3 (12) maps to an etype but has length 0 in the table *)
Lemma sig_len_mac_len st et : 0 <= st < 2 ^ 32 ->
  etype_of_chksum_type (sint 32 st) = Some et -> et <> 16 -> sig_len st = Z.of_nat (mac_len et).
Proof.
  intros R E N. unfold etype_of_chksum_type in E. change (2 ^ 32) with 4294967296 in R.
  assert (Hs : sint 32 st = st \/ sint 32 st = st - 4294967296).
  { unfold sint. change (2 ^ 32) with 4294967296. change (2 ^ (32 - 1)) with 2147483648.
    rewrite Z.mod_small by lia. destruct (st <? 2147483648); lia. }
  repeat match type of E with
  | context [?a =? ?b] => let Q := fresh "Q" in destruct (Z.eqb_spec a b) as [Q|Q]; [injection E as <-|]
  end; try discriminate; try congruence.
  all: assert (st = 15 \/ st = 16 \/ st = 19 \/ st = 20 \/ st = 4294967158) as D by lia.
  all: destruct D as [-> | [-> | [-> | [-> | ->]]]]; try reflexivity; exfalso; vm_compute in *; congruence.
Qed.

(* Acceptance implies: the declared type of the server signature is one gokrb5 maps to an etype, the
   signature value that was read has exactly the MAC length of that etype (so it was cut out with the
   length of the declared type), and it is that etype's checksum.  Unknown types and des3 (whose
   20-byte MAC cannot equal the 0 bytes read) are therefore always rejected. *)
Theorem declared_type_binds data key dec st :
  pac_process data key dec = Ok st ->
  exists it sd et,
    first_of 6 (items_of data dec) = Some it /\ sig_spec (buf_bytes data it) sd /\
    st_srv st = Some sd /\
    zlen (sd_sig sd) = sig_len (sd_type sd) /\
    etype_of_chksum_type (sint 32 (sd_type sd)) = Some et /\
    length (sd_sig sd) = mac_len et /\
    et <> 16 /\
    checksum et key 17 (zero_sigs data) = Ok (sd_sig sd).
Proof.
  intros E. assert (A : exists s, pac_process data key dec = Ok s) by eauto.
  apply pac_accept_iff in A.
  destruct A as (HO & HB & _ & _ & _ & (it & sd & et & F6 & S6 & ET & CK)).
  pose proof (checksum_length _ _ _ _ _ CK) as CL.
  pose proof S6 as S6'. destruct S6' as (H4 & Hc & Esd). cbv zeta in Hc, Esd.
  assert (Lsig : zlen (sd_sig sd) = sig_len (sd_type sd)).
  { rewrite Esd. cbn [sd_sig sd_type]. pose proof (sig_len_range (le_val (firstn 4 (buf_bytes data it)))).
    rewrite zlen_slice; lia. }
  exists it, sd, et.
  split; [exact F6|]. split; [exact S6|]. split; [|split; [exact Lsig|split; [exact ET|split; [exact CL|split; [|exact CK]]]]].
  - (* the state reports exactly this structure *)
    unfold pac_process in E.
    destruct (pac_unmarshal data) as [pt| |] eqn:EU; cbn [bind] in E; try discriminate.
    apply pac_unmarshal_iff in EU. destruct EU as [_ ->]. cbn [pt_buffers] in E.
    fold (items_of data dec) in E.
    destruct (process_loop data (items_of data dec) (init_state data)) as [s1| |] eqn:EL; cbn [bind] in E; try discriminate.
    destruct (pac_verify key s1) as [[]| |]; cbn [bind] in E; try discriminate. injection E as <-.
    pose proof (loop_first data _ st_srv 6 (val_sig data) (srv_keep data) (srv_other data) (srv_hit data)
                  (items_of data dec) (init_state data) s1 eq_refl EL eq_refl) as G6.
    rewrite F6 in G6. destruct G6 as (v & Hv & Gv). rewrite Gv. f_equal.
    assert (B6 : bounds_ok data it).
    { assert (forall i, In i (items_of data dec) -> bounds_ok data i) as HBi by (apply Forall_forall; exact HB).
      apply HBi, first_of_In with 6, F6. }
    apply (val_sig_spec data it v B6) in Hv. destruct Hv as (_ & _ & Ev). cbv zeta in Ev. congruence.
  - (* des3: the MAC has 20 bytes, and no entry of the length table is 20 *)
    intros ->. unfold zlen in Lsig. rewrite CL in Lsig. change (Z.of_nat (mac_len 16)) with 20 in Lsig.
    unfold sig_len in Lsig.
    repeat match type of Lsig with context [?a =? ?b] => destruct (a =? b) end; lia.
Qed.

(* an unknown declared type is an error (whatever the rest of the PAC) *)
Corollary unknown_declared_type_rejected data key dec st sd :
  pac_process data key dec = Ok st -> st_srv st = Some sd ->
  etype_of_chksum_type (sint 32 (sd_type sd)) <> None.
Proof.
  intros E S. destruct (declared_type_binds _ _ _ _ E) as (it & sd' & et & _ & _ & S' & _ & ET & _).
  assert (sd' = sd) as -> by congruence. congruence.
Qed.

(* ---------- the hypotheses are satisfiable: a concrete signed PAC (rc4-hmac, KERB_CHECKSUM_HMAC_MD5) ---------- *)

Definition ex_hdr : bytes :=
  le_bytes 4 4 ++ le_bytes 4 0
  ++ le_bytes 4 1 ++ le_bytes 4 0 ++ le_bytes 8 72        (* KERB_VALIDATION_INFO (decoded by the external decoder) *)
  ++ le_bytes 4 10 ++ le_bytes 4 10 ++ le_bytes 8 72      (* PAC_CLIENT_INFO: FILETIME 0, empty name *)
  ++ le_bytes 4 6 ++ le_bytes 4 20 ++ le_bytes 8 88       (* server signature *)
  ++ le_bytes 4 7 ++ le_bytes 4 20 ++ le_bytes 8 112.     (* KDC signature *)
Definition ex_pac (srv kdc : bytes) : bytes :=
  ex_hdr ++ repeatz 0 16 ++ (le_bytes 4 4294967158 ++ srv) ++ [0;0;0;0] ++ (le_bytes 4 4294967158 ++ kdc) ++ [0;0;0;0].
Definition ex_key : bytes := repeatz 1 16.
Definition ex_sig : bytes := [110; 184; 180; 252; 174; 144; 15; 176; 13; 132; 165; 60; 215; 231; 244; 149].

Example ex_accepted : exists st, pac_process (ex_pac ex_sig (repeatz 7 16)) ex_key [1;0;0;0] = Ok st.
Proof. vm_compute. eauto. Qed.

Example ex_accept_spec : accept_spec (ex_pac ex_sig (repeatz 7 16)) ex_key [1;0;0;0].
Proof. apply pac_accept_iff. exact ex_accepted. Qed.

(* the KDC signature value is not covered (the service has no KDC key): any value is accepted *)
Example ex_kdc_value_free : exists st, pac_process (ex_pac ex_sig (repeatz 99 16)) ex_key [1;0;0;0] = Ok st.
Proof. vm_compute. eauto. Qed.

(* one flipped bit in the client info, in the server signature value, in the declared type, or in the key *)
Example ex_flip_rejected :
  pac_process (ex_hdr ++ [1] ++ repeatz 0 15 ++ (le_bytes 4 4294967158 ++ ex_sig) ++ [0;0;0;0] ++ (le_bytes 4 4294967158 ++ repeatz 7 16) ++ [0;0;0;0])
              ex_key [1;0;0;0] = Err 25
  /\ pac_process (ex_pac (111 :: tl ex_sig) (repeatz 7 16)) ex_key [1;0;0;0] = Err 25
  /\ pac_process (ex_pac ex_sig (repeatz 7 16)) (0 :: repeatz 1 15) [1;0;0;0] = Err 25
  /\ pac_process (ex_hdr ++ repeatz 0 16 ++ (le_bytes 4 4294967159 ++ ex_sig) ++ [0;0;0;0] ++ (le_bytes 4 4294967158 ++ repeatz 7 16) ++ [0;0;0;0])
              ex_key [1;0;0;0] = Err 24
  /\ pac_process (ex_pac ex_sig (repeatz 7 16)) ex_key [0;0;0;0] = Err 11.
Proof. vm_compute. repeat split. Qed.

Example ex_fields : sig_fields (ex_pac ex_sig (repeatz 7 16)) = [(92, 108); (116, 132)].
Proof. vm_compute. reflexivity. Qed.
