(* First layer of facts about model/Crypto.v: checksum verification, lengths, short inputs, usage aliases. *)
From Gokrb5.lib Require Import Bytes JV.
From Gokrb5.prim Require SHA1 SHA256 SHA512 MD4 MD5 HMAC PBKDF2 CBC AES DES RC4.
From Gokrb5.model Require Import Crypto.

(* ---- C07 ---- *)
Theorem verify_checksum_iff et key usage data chk :
  verify_checksum et key usage data chk = true <-> checksum et key usage data = Ok chk.
Proof.
  unfold verify_checksum. destruct (checksum et key usage data) as [c|e|s].
  - rewrite beq_bytes_eq. split; [intros ->; reflexivity|intros H; injection H as ->; reflexivity].
  - split; discriminate.
  - split; discriminate.
Qed.

Lemma et_hmac_length et k d : (mac_len et <= length (et_hmac et k d))%nat.
Proof.
  unfold et_hmac, mac_len.
  destruct (Z.eqb_spec et 17) as [->|N17]; [cbn; rewrite HMAC.hmac_sha1_length; lia|].
  destruct (Z.eqb_spec et 18) as [->|N18]; [cbn; rewrite HMAC.hmac_sha1_length; lia|].
  destruct (Z.eqb_spec et 19) as [->|N19]; [cbn; rewrite HMAC.hmac_sha256_length; lia|].
  destruct (Z.eqb_spec et 20) as [->|N20]; [cbn; rewrite HMAC.hmac_sha384_length; lia|].
  destruct (Z.eqb_spec et 16) as [->|N16]; [cbn; rewrite HMAC.hmac_sha1_length; lia|].
  destruct (Z.eqb_spec et 23) as [->|N23]; [cbn; rewrite HMAC.hmac_md5_length; lia|].
  cbn. lia.
Qed.

Theorem checksum_length et key usage data c :
  checksum et key usage data = Ok c -> length c = mac_len et.
Proof.
  unfold checksum. destruct (et_family et) as [[| | |]|] eqn:F; try discriminate.
  1-3: destruct (derive_key et key (usage_const usage 153)) as [kc| |]; cbn [bind]; try discriminate;
       intros H; injection H as <-; rewrite firstn_length; pose proof (et_hmac_length et kc data); lia.
  intros H; injection H as <-. unfold rc4_checksum. rewrite HMAC.hmac_md5_length.
  unfold et_family in F. unfold mac_len.
  destruct ((et =? 17) || (et =? 18)); [discriminate|]. destruct ((et =? 19) || (et =? 20)) eqn:E; [discriminate|].
  destruct (et =? 16); [discriminate|]. destruct (et =? 23); [|discriminate].
  apply orb_false_iff in E. destruct E as [-> ->]. reflexivity.
Qed.

(* hence neither a proper prefix nor an extension of the right value verifies *)
Corollary verify_checksum_exact_length et key usage data chk :
  verify_checksum et key usage data chk = true -> length chk = mac_len et.
Proof. intros H. apply verify_checksum_iff in H. eapply checksum_length; eauto. Qed.

(* IANA: checksum type <-> encryption type (Kerberos parameters registry) *)
Definition iana_chksum_etype : list (Z * Z) :=
  [(12, 16); (15, 17); (16, 18); (19, 19); (20, 20); (-138, 23)].

Theorem chksum_etype_matches_iana :
  forallb (fun '(ct, et) => match etype_of_chksum_type ct with Some e => e =? et | None => false end
                            && (chksum_type_of_etype et =? ct)) iana_chksum_etype = true.
Proof. reflexivity. Qed.

Theorem chksum_etype_only_iana ct et :
  etype_of_chksum_type ct = Some et -> In (ct, et) iana_chksum_etype.
Proof.
  unfold etype_of_chksum_type, iana_chksum_etype.
  repeat match goal with |- context [?a =? ?b] => destruct (Z.eqb_spec a b); [subst; intros H; injection H as <-; cbn; tauto|] end.
  discriminate.
Qed.

(* ---- C06: short inputs are errors, never panics ---- *)
Theorem decrypt_short_is_error et key usage ct :
  (length ct < conf_len et + mac_len et)%nat -> exists e, decrypt et key usage ct = Err e.
Proof.
  intros H. unfold decrypt. destruct (et_family et) as [[| | |]|] eqn:F; eauto.
  1,3: destruct (Nat.ltb_spec (length ct) (conf_len et + mac_len et)); [eauto|lia].
  1: destruct (negb _); [eauto|]; destruct (Nat.ltb_spec (length ct) (conf_len et + mac_len et)); [eauto|lia].
  destruct (negb _); [eauto|].
  unfold rc4_decrypt. unfold et_family in F. unfold conf_len, mac_len in H.
  destruct ((et =? 17) || (et =? 18)); [discriminate|]. destruct ((et =? 19) || (et =? 20)) eqn:E; [discriminate|].
  destruct (et =? 16) eqn:E16; [discriminate|]. destruct (et =? 23) eqn:E23; [|discriminate].
  apply orb_false_iff in E. destruct E as [E19 E20]. rewrite E19, E20 in H. cbn in H.
  destruct (Nat.ltb_spec (length ct) 24); [eauto|lia].
Qed.

Lemma bind_no_panic {A B} (r : res A) (f : A -> res B) :
  is_panic r = false -> (forall a, is_panic (f a) = false) -> is_panic (bind r f) = false.
Proof. destruct r; cbn; auto. Qed.

Lemma derive_key_no_panic et key c : is_panic (derive_key et key c) = false.
Proof.
  unfold derive_key. destruct (et_family et) as [[| | |]|]; try reflexivity.
  all: repeat match goal with |- context [if ?c then _ else _] => destruct c; try reflexivity end.
Qed.

Lemma cts_decrypt_no_panic dec c : is_panic (cts_decrypt dec c) = false.
Proof.
  unfold cts_decrypt. destruct (length c <? 16)%nat; [reflexivity|].
  destruct (length c =? 16)%nat; [reflexivity|].
  destruct (last_two (CBC.chunks 16 c)) as [[[? ?] ?]|]; reflexivity.
Qed.

Lemma integrity_hash_no_panic et key usage d : is_panic (integrity_hash et key usage d) = false.
Proof. unfold integrity_hash. apply bind_no_panic; [apply derive_key_no_panic|reflexivity]. Qed.

Theorem decrypt_never_panics et key usage ct : is_panic (decrypt et key usage ct) = false.
Proof.
  unfold decrypt. destruct (et_family et) as [[| | |]|]; try reflexivity.
  - destruct (length ct <? conf_len et + mac_len et)%nat; [reflexivity|].
    apply bind_no_panic; [apply derive_key_no_panic|intros ke].
    apply bind_no_panic; [apply cts_decrypt_no_panic|intros pt].
    apply bind_no_panic; [apply integrity_hash_no_panic|intros ih].
    destruct (beq_bytes ih _); reflexivity.
  - destruct (negb _); [reflexivity|].
    destruct (length ct <? conf_len et + mac_len et)%nat; [reflexivity|].
    apply bind_no_panic; [apply derive_key_no_panic|intros ke].
    apply bind_no_panic; [apply cts_decrypt_no_panic|intros pt].
    apply bind_no_panic; [apply integrity_hash_no_panic|intros ih].
    destruct (beq_bytes ih _); reflexivity.
  - destruct (length ct <? conf_len et + mac_len et)%nat; [reflexivity|].
    apply bind_no_panic; [apply derive_key_no_panic|intros ke].
    destruct (negb _); [reflexivity|].
    apply bind_no_panic; [apply integrity_hash_no_panic|intros ih].
    destruct (beq_bytes ih _); reflexivity.
  - destruct (negb _); [reflexivity|].
    unfold rc4_decrypt. repeat match goal with |- context [if ?c then _ else _] => destruct c; try reflexivity end.
Qed.

(* ---- C05: RFC 4757 message types ---- *)
Definition rc4_alias (u : Z) : Z := if (u =? 3) || (u =? 9) then 8 else if u =? 23 then 13 else u.

Theorem rc4_usage_alias u : rc4_msg_type u = le_bytes 4 (rc4_alias u) /\ length (rc4_msg_type u) = 4%nat.
Proof. unfold rc4_msg_type, rc4_alias. split; [reflexivity|apply le_bytes_length]. Qed.

Lemma le_bytes_inj n a b : 0 <= a < 256 ^ Z.of_nat n -> 0 <= b < 256 ^ Z.of_nat n ->
  le_bytes n a = le_bytes n b -> a = b.
Proof.
  intros Ha Hb E. apply (f_equal le_val) in E. rewrite !le_val_le_bytes in E.
  rewrite !Z.mod_small in E by assumption. exact E.
Qed.

(* distinct message types for distinct (non-aliased) usages: every 32-bit usage, not only those < 128 *)
Theorem rc4_msg_type_injective u1 u2 :
  0 <= u1 < 2 ^ 32 -> 0 <= u2 < 2 ^ 32 ->
  (rc4_msg_type u1 = rc4_msg_type u2 <-> rc4_alias u1 = rc4_alias u2).
Proof.
  intros H1 H2. destruct (rc4_usage_alias u1) as [-> _]. destruct (rc4_usage_alias u2) as [-> _].
  assert (forall u, 0 <= u < 2 ^ 32 -> 0 <= rc4_alias u < 256 ^ Z.of_nat 4) as R.
  { intros u Hu. unfold rc4_alias. change (256 ^ Z.of_nat 4) with (2 ^ 32).
    destruct ((u =? 3) || (u =? 9)); [lia|]. destruct (u =? 23); lia. }
  split; [apply le_bytes_inj; auto|intros ->; reflexivity].
Qed.

Example rc4_msg_type_128 : rc4_msg_type 128 = [128; 0; 0; 0] /\ rc4_msg_type 3 = [8; 0; 0; 0]
                           /\ rc4_msg_type 9 = [8;0;0;0] /\ rc4_msg_type 23 = [13;0;0;0].
Proof. repeat split. Qed.

(* ---- C06: a key of another size than the etype's is refused by every family ---- *)
Theorem decrypt_wrong_key_size_is_error et key usage ct :
  length key <> key_len et -> exists e, decrypt et key usage ct = Err e.
Proof.
  intros H. apply Nat.eqb_neq in H. unfold decrypt.
  destruct (et_family et) as [[| | |]|] eqn:F; [| | | |eauto].
  - destruct (_ <? _)%nat; [eauto|]. unfold derive_key. rewrite F, H. cbn [negb bind]. eauto.
  - rewrite H. cbn [negb]. eauto.
  - destruct (_ <? _)%nat; [eauto|]. unfold derive_key. rewrite F.
    assert (et = 16) as -> by (unfold et_family in F;
      destruct ((et =? 17) || (et =? 18)); [discriminate|]; destruct ((et =? 19) || (et =? 20)); [discriminate|];
      destruct (Z.eqb_spec et 16); [assumption|]; destruct (et =? 23); discriminate).
    change (key_len 16) with 24%nat in H. rewrite H. cbn [negb bind]. eauto.
  - rewrite H. cbn [negb]. eauto.
Qed.
