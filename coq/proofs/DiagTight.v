(* Two complements to render_noninterference (DiagProofs.v):
   - the checker is TIGHT: whenever `no_secret_visible` rejects a type there are two states differing only in
     a secret whose encodings differ, so a failed generated obligation (conform/ConfDiag.v) always has a leak
     witness and the checker never demands more than the property;
   - a direct "never appears" reading: every token an accepted encoding emits is a public token of the state. *)
From Gokrb5.lib Require Import Bytes JV.
From Gokrb5.model Require Import Diag.
From Gokrb5.proofs Require Import DiagProofs.

(* a canonical inhabitant: publics 0, every secret s, one element per sequence *)
Fixpoint inhabit (s : Z) (t : jty) {struct t} : jval :=
  match t with
  | JPublic => VP 0
  | JSecret => VS s
  | JStruct fs =>
    VStruct ((fix go (fs : list (bool * jty)) : list jval :=
                match fs with
                | [] => []
                | f :: r => inhabit s (snd f) :: go r
                end) fs)
  | JSeq e => VSeq [inhabit s e]
  end.

Lemma inhabit_same_public : forall t s1 s2, same_public t (inhabit s1 t) (inhabit s2 t).
Proof.
  induction t as [| |fs IH|e IH] using jty_ind'; intros s1 s2; cbn [inhabit same_public].
  - reflexivity.
  - exact I.
  - induction IH as [|[vis ft] fr Hf Hfr IHfr]; [exact I|].
    cbn [snd] in *. split; [destruct vis; [apply Hf|exact I]|exact IHfr].
  - split; [apply IH|exact I].
Qed.

Lemma inhabit_zero_renders_zero : forall t x, In x (render t (inhabit 0 t)) -> x = 0.
Proof.
  induction t as [| |fs IH|e IH] using jty_ind'; intros x; cbn [inhabit render].
  - intros [H|[]]; auto.
  - intros [H|[]]; auto.
  - induction IH as [|[vis ft] fr Hf Hfr IHfr]; [intros []|].
    cbn [snd] in *. intros H. apply in_app_or in H. destruct H as [H|H].
    + destruct vis; [apply Hf; exact H|destruct H].
    + apply IHfr; exact H.
  - cbn [flat_map]. rewrite app_nil_r. apply IH.
Qed.

Lemma inhabit_leaks : forall t s, no_secret_visible t = false -> In s (render t (inhabit s t)).
Proof.
  induction t as [| |fs IH|e IH] using jty_ind'; intros s; cbn [inhabit render no_secret_visible].
  - discriminate.
  - intros _. left; reflexivity.
  - induction IH as [|[vis ft] fr Hf Hfr IHfr]; [discriminate|].
    cbn [snd] in *. intros H. apply andb_false_iff in H. apply in_or_app. destruct H as [H|H].
    + left. destruct vis; [apply Hf; exact H|discriminate].
    + right. apply IHfr; exact H.
  - intros H. cbn [flat_map]. rewrite app_nil_r. apply IH; exact H.
Qed.

Theorem checker_tight : forall t,
  no_secret_visible t = false ->
  exists a b, same_public t a b /\ render t a <> render t b.
Proof.
  intros t H. exists (inhabit 1 t), (inhabit 0 t). split; [apply inhabit_same_public|].
  intros E. pose proof (inhabit_leaks t 1 H) as L. rewrite E in L.
  apply inhabit_zero_renders_zero in L. discriminate.
Qed.

(* hence the checker decides the property of the type exactly *)
Theorem checker_exact : forall t,
  no_secret_visible t = true <-> (forall a b, same_public t a b -> render t a = render t b).
Proof.
  intros t. split.
  - intros H a b. apply render_noninterference; exact H.
  - intros H. destruct (no_secret_visible t) eqn:E; [reflexivity|].
    destruct (checker_tight t E) as (a & b & Hs & Hn). elim Hn. apply H; exact Hs.
Qed.

(* every public token of a value, wherever it sits *)
Fixpoint pub_tokens (v : jval) : list Z :=
  match v with
  | VP x => [x]
  | VS _ => []
  | VStruct fs => flat_map pub_tokens fs
  | VSeq l => flat_map pub_tokens l
  end.

Theorem render_only_public : forall t v x,
  no_secret_visible t = true -> In x (render t v) -> In x (pub_tokens v).
Proof.
  induction t as [| |fs IH|e IH] using jty_ind'; intros v x Hc; cbn [no_secret_visible] in Hc.
  - destruct v; cbn [render pub_tokens]; auto; intros [].
  - discriminate.
  - destruct v as [| |vs|]; cbn [render pub_tokens]; try (intros []).
    revert vs Hc. induction IH as [|[vis ft] fr Hf Hfr IHfr]; intros vs Hc; [intros []|].
    destruct vs as [|y vr]; [intros []|].
    cbn [snd] in *. apply andb_true_iff in Hc. destruct Hc as [Hc1 Hc2].
    intros H. apply in_app_or in H. cbn [flat_map]. apply in_or_app. destruct H as [H|H].
    + left. destruct vis; [apply Hf; assumption|destruct H].
    + right. apply IHfr; assumption.
  - destruct v as [| | |l]; cbn [render pub_tokens]; try (intros []).
    induction l as [|y l IHl]; cbn [flat_map]; [intros []|].
    intros H. apply in_app_or in H. apply in_or_app. destruct H as [H|H]; [left; apply IH; assumption|right; apply IHl; exact H].
Qed.

(* a secret whose token is not also a public token of the state never shows in an accepted encoding *)
Corollary fresh_secret_never_rendered : forall t v s,
  no_secret_visible t = true -> ~ In s (pub_tokens v) -> ~ In s (render t v).
Proof. intros t v s Hc Hn Hin. apply Hn. eapply render_only_public; eassumption. Qed.
