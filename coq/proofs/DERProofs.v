(* Gokrb5.proofs.DERProofs — the schema-directed codec of model/DERCodec.v: for EVERY schema t on which
   decoding is unambiguous (schema_ok), decode inverts encode (decode_encode); encode is total on well-formed
   values and injective. *)
From Coq Require Import ZifyBool.
From Gokrb5.lib Require Import Bytes JV.
From Gokrb5.model Require Import Schema DER DERCodec.
From Gokrb5.proofs Require Import DERBasic DERTime DEROid.
Local Ltac Zify.zify_post_hook ::= Z.div_mod_to_equations.

(* ---------- induction principle for ty (nested list in TSeq) ---------- *)
Section TyInd.
  Variable P : ty -> Prop.
  Hypothesis HInt : P TInt.
  Hypothesis HOctets : P TOctets.
  Hypothesis HGenStr : P TGenStr.
  Hypothesis HGenTime : P TGenTime.
  Hypothesis HBits : P TBits.
  Hypothesis HOid : P TOid.
  Hypothesis HEnum : P TEnum.
  Hypothesis HBool : P TBool.
  Hypothesis HSeq : forall fs : list field, Forall (fun f => P (snd f)) fs -> P (TSeq fs).
  Hypothesis HSeqOf : forall e, P e -> P (TSeqOf e).
  Hypothesis HApp : forall n t, P t -> P (TApp n t).
  Hypothesis HRaw : P TRaw.

  Fixpoint ty_ind' (t : ty) : P t :=
    match t with
    | TInt => HInt | TOctets => HOctets | TGenStr => HGenStr | TGenTime => HGenTime | TBits => HBits
    | TOid => HOid | TEnum => HEnum | TBool => HBool
    | TSeq fs =>
      HSeq fs ((fix go (l : list field) : Forall (fun f => P (snd f)) l :=
                  match l with
                  | [] => Forall_nil _
                  | f :: r => Forall_cons f (match f as f0 return P (snd f0) with (_, t') => ty_ind' t' end)
                                          (go r)
                  end) fs)
    | TSeqOf e => HSeqOf e (ty_ind' e)
    | TApp n t' => HApp n t' (ty_ind' t')
    | TRaw => HRaw
    end.
End TyInd.

(* ---------- size bookkeeping ---------- *)
(* b is short enough for 4 length octets and for the element fuel *)
Definition fits (fuel : nat) (b : bytes) : Prop := zlen b < 2 ^ 32 /\ zlen b <= Z.of_nat fuel.

Lemma fits_le fuel b b' : zlen b' <= zlen b -> fits fuel b -> fits fuel b'.
Proof. unfold fits. lia. Qed.

Lemma fits_tlv fuel id body : fits fuel (tlv id body) -> fits fuel body.
Proof. apply fits_le. pose proof (zlen_tlv id body). lia. Qed.

Lemma fits_app_l fuel a b : fits fuel (a ++ b) -> fits fuel a.
Proof. apply fits_le. rewrite zlen_app. pose proof (zlen_nonneg b). lia. Qed.

Lemma fits_app_r fuel a b : fits fuel (a ++ b) -> fits fuel b.
Proof. apply fits_le. rewrite zlen_app. pose proof (zlen_nonneg a). lia. Qed.

(* ---------- the two TLV readers on a freshly written TLV ---------- *)
Lemma dec_prim_tlv id f body rest : id mod 32 <> 31 -> zlen body < 2 ^ 32 ->
  dec_prim id f (tlv id body ++ rest) = match f body with Some v => Some (v, rest) | None => None end.
Proof. intros Hi Hb. unfold dec_prim. rewrite parse_tlv_tlv by assumption. rewrite Z.eqb_refl. reflexivity. Qed.

Lemma dec_cons_tlv id d body rest : id mod 32 <> 31 -> zlen body < 2 ^ 32 ->
  dec_cons id d (tlv id body ++ rest) = match d body with Some (v, []) => Some (v, rest) | _ => None end.
Proof. intros Hi Hb. unfold dec_cons. rewrite parse_tlv_tlv by assumption. rewrite Z.eqb_refl. reflexivity. Qed.

Lemma ident_low cls c n : 0 <= cls -> tag_ok n = true -> ident cls c n mod 32 <> 31.
Proof. unfold tag_ok, ident. intros Hc H. destruct c; lia. Qed.

(* ---------- the first octet of an encoding ---------- *)
Lemma enc_head t v : wf_val t v = true ->
  exists x r, enc t v = x :: r /\ (forall i, ty_id t = Some i -> x = i).
Proof.
  destruct t; destruct v; cbn [wf_val]; try discriminate; intros H; cbn [enc ty_id];
    try (unfold tlv; eexists; eexists; split; [reflexivity | intros i E; congruence]).
  (* TRaw *)
  apply andb_true_iff in H. destruct H as [_ H]. unfold raw_ok in H.
  destruct b as [|x r]; [discriminate|]. exists x, r. split; [reflexivity | discriminate].
Qed.

Lemma wrap_head tag t v : wf_val t v = true ->
  exists x r, wrap_tag tag (enc t v) = x :: r /\ (forall i, field_id tag t = Some i -> x = i).
Proof.
  intros H. destruct tag as [n|]; cbn [wrap_tag field_id].
  - unfold tlv. eexists; eexists; split; [reflexivity | intros i E; congruence].
  - apply enc_head, H.
Qed.

Lemma enc_fields_cons (e : ty -> value -> bytes) tag opt t fs o vs :
  enc_fields e ((tag, opt, t) :: fs) (o :: vs) =
  (match o with Some v => wrap_tag tag (e t v) | None => [] end) ++ enc_fields e fs vs.
Proof. reflexivity. Qed.

Lemma wf_fields_cons (w : ty -> value -> bool) tag opt t fs o vs :
  wf_fields w ((tag, opt, t) :: fs) (o :: vs) =
  (match o with Some v => w t v | None => opt end) && wf_fields w fs vs.
Proof. reflexivity. Qed.

Lemma enc_fields_head fs : forall vs, wf_fields wf_val fs vs = true ->
  enc_fields enc fs vs = [] \/
  exists x r o, enc_fields enc fs vs = x :: r /\ In o (first_ids fs) /\ (forall i, o = Some i -> x = i).
Proof.
  induction fs as [|[[tag opt] t] fs IH]; intros vs H.
  - left. destruct vs; reflexivity.
  - destruct vs as [|o vs]; [discriminate|]. rewrite wf_fields_cons in H. apply andb_true_iff in H.
    destruct H as [H1 H2]. rewrite enc_fields_cons. cbn [first_ids]. destruct o as [v|].
    + right. destruct (wrap_head tag t v H1) as (x & r & E & Hx). rewrite E. cbn [app].
      exists x, (r ++ enc_fields enc fs vs), (field_id tag t). split; [reflexivity|]. split; [left; reflexivity | exact Hx].
    + subst opt. cbn [app]. destruct (IH vs H2) as [E|(x & r & o & E & Hin & Hx)]; [left; exact E|].
      right. exists x, r, o. split; [exact E|]. split; [right; exact Hin | exact Hx].
Qed.

(* ---------- the round trip of the field list, given it for every field type ---------- *)
Definition rt (t : ty) : Prop :=
  forall v fuel rest, wf_val t v = true -> fits fuel (enc t v) ->
  decode t fuel (enc t v ++ rest) = Some (v, rest).

Lemma fields_ok_cons (ok : ty -> bool) tag opt t fs :
  fields_ok ok ((tag, opt, t) :: fs) =
  opt_tag_ok tag && ok t
  && (if opt then forallb (ids_distinct (field_id tag t)) (first_ids fs) else true)
  && fields_ok ok fs.
Proof. reflexivity. Qed.

Lemma dec_fields_cons dec tag opt t fs b :
  dec_fields dec ((tag, opt, t) :: fs) b =
  if negb opt || present tag t b then
    match dec_field dec tag t b with
    | Some (v, r) =>
      match dec_fields dec fs r with
      | Some (vs, r') => Some (Some v :: vs, r')
      | None => None
      end
    | None => None
    end
  else
    match dec_fields dec fs b with
    | Some (vs, r') => Some (None :: vs, r')
    | None => None
    end.
Proof. reflexivity. Qed.

Lemma dec_field_wrap fuel tag t v rest :
  opt_tag_ok tag = true -> rt t -> wf_val t v = true -> fits fuel (wrap_tag tag (enc t v)) ->
  dec_field (fun t' b' => decode t' fuel b') tag t (wrap_tag tag (enc t v) ++ rest) = Some (v, rest).
Proof.
  intros Htag Hrt Hwf Hfit. destruct tag as [n|]; cbn [wrap_tag dec_field opt_tag_ok] in *.
  - pose proof (fits_tlv _ _ _ Hfit) as Hfit'.
    rewrite dec_cons_tlv; [|apply ident_low; [lia | exact Htag] | apply Hfit'].
    rewrite <- (app_nil_r (enc t v)) at 1. rewrite Hrt by assumption. reflexivity.
  - apply Hrt; assumption.
Qed.

Lemma dec_fields_enc_fields fuel fs :
  Forall (fun f : field => schema_ok (snd f) = true -> rt (snd f)) fs ->
  fields_ok schema_ok fs = true ->
  forall vs, wf_fields wf_val fs vs = true -> fits fuel (enc_fields enc fs vs) ->
  dec_fields (fun t' b' => decode t' fuel b') fs (enc_fields enc fs vs) = Some (vs, []).
Proof.
  induction 1 as [|[[tag opt] t] fs Hrt _ IH]; intros Hok vs Hwf Hfit.
  - destruct vs; [reflexivity | discriminate].
  - destruct vs as [|o vs]; [discriminate|].
    rewrite wf_fields_cons in Hwf. apply andb_true_iff in Hwf. destruct Hwf as [Hw1 Hw2].
    rewrite fields_ok_cons in Hok. repeat (apply andb_true_iff in Hok; destruct Hok as [Hok ?]).
    cbn [snd] in Hrt. specialize (Hrt H1). specialize (IH H vs Hw2).
    rewrite enc_fields_cons in *. rewrite dec_fields_cons. destruct o as [v|].
    + assert (Hp : negb opt || present tag t (wrap_tag tag (enc t v) ++ enc_fields enc fs vs) = true).
      { destruct opt; [|reflexivity]. cbn [negb orb].
        destruct (wrap_head tag t v Hw1) as (x & r & E & Hx). rewrite E. cbn [app present].
        destruct (field_id tag t) as [i|]; [|reflexivity]. rewrite (Hx i eq_refl). apply Z.eqb_refl. }
      rewrite Hp. rewrite dec_field_wrap; auto; [|eapply fits_app_l, Hfit].
      rewrite IH by (eapply fits_app_r, Hfit). reflexivity.
    + subst opt. cbn [app negb orb] in *.
      assert (Hp : present tag t (enc_fields enc fs vs) = false).
      { destruct (enc_fields_head fs vs Hw2) as [E|(x & r & o & E & Hin & Hx)]; rewrite E; [reflexivity|].
        cbn [present]. rewrite forallb_forall in H0. specialize (H0 o Hin). unfold ids_distinct in H0.
        destruct (field_id tag t) as [a|]; [|discriminate]. destruct o as [y|]; [|discriminate].
        rewrite (Hx y eq_refl). lia. }
      rewrite Hp. rewrite IH by exact Hfit. reflexivity.
Qed.

(* ---------- SEQUENCE OF ---------- *)
Lemma Forall_forallb {A} (f : A -> bool) l : forallb f l = true -> Forall (fun x => f x = true) l.
Proof. intros H. apply Forall_forall. apply forallb_forall, H. Qed.

Lemma dec_list_flat_map fuel e : rt e -> forall vs (n : nat),
  Forall (fun v => wf_val e v = true) vs -> fits fuel (flat_map (enc e) vs) ->
  zlen (flat_map (enc e) vs) <= Z.of_nat n ->
  dec_list (decode e fuel) n (flat_map (enc e) vs) = Some vs.
Proof.
  intros Hrt vs. induction vs as [|v vs IH]; intros n Hwf Hfit Hn.
  - destruct n; reflexivity.
  - inversion Hwf as [|? ? Hv Hvs]; subst. cbn [flat_map] in *.
    destruct (enc_head e v Hv) as (x & r & E & _).
    assert (Hl : 1 <= zlen (enc e v)) by (rewrite E, zlen_cons; pose proof (zlen_nonneg r); lia).
    rewrite zlen_app in Hn. pose proof (zlen_nonneg (flat_map (enc e) vs)). destruct n as [|n]; [lia|].
    assert (D : dec_list (decode e fuel) (S n) (enc e v ++ flat_map (enc e) vs) =
                match decode e fuel (enc e v ++ flat_map (enc e) vs) with
                | Some (v0, r0) => match dec_list (decode e fuel) n r0 with Some l => Some (v0 :: l) | None => None end
                | None => None end).
    { rewrite E. reflexivity. }
    rewrite D. rewrite Hrt by (auto; eapply fits_app_l, Hfit).
    rewrite IH; [reflexivity | exact Hvs | eapply fits_app_r, Hfit | lia].
Qed.

(* ---------- the headline ---------- *)
Lemma two_mod : forall id, 0 <= id < 31 -> id mod 32 <> 31.
Proof. intros. lia. Qed.

Theorem decode_encode_rt : forall t, schema_ok t = true -> rt t.
Proof.
  induction t using ty_ind'; intros Hok v fuel rest Hwf Hfit; cbn [schema_ok] in Hok.
  1-10, 12: destruct v; cbn [wf_val] in Hwf; try discriminate.
  all: cbn [wf_val enc decode] in *.
  - (* TInt *) rewrite dec_prim_tlv; [|lia|apply (fits_tlv _ _ _ Hfit)]. rewrite dec_int_enc_int. reflexivity.
  - (* TOctets *) rewrite dec_prim_tlv; [|lia|apply (fits_tlv _ _ _ Hfit)]. reflexivity.
  - (* TGenStr *) rewrite dec_prim_tlv; [|lia|apply (fits_tlv _ _ _ Hfit)]. reflexivity.
  - (* TGenTime *) rewrite dec_prim_tlv; [|lia|apply (fits_tlv _ _ _ Hfit)]. rewrite dec_time_enc_time by exact Hwf. reflexivity.
  - (* TBits *) rewrite dec_prim_tlv; [|lia|apply (fits_tlv _ _ _ Hfit)].
    apply andb_true_iff in Hwf. destruct Hwf as [Hb _]. unfold enc_bits, dec_bits. rewrite Hb. reflexivity.
  - (* TOid *) rewrite dec_prim_tlv; [|lia|apply (fits_tlv _ _ _ Hfit)].
    destruct (oid_ok_enc arcs Hwf) as (x & E). rewrite E. rewrite (dec_oid_enc_oid _ _ E). reflexivity.
  - (* TEnum *) rewrite dec_prim_tlv; [|lia|apply (fits_tlv _ _ _ Hfit)]. rewrite dec_int_enc_int. reflexivity.
  - (* TBool *) rewrite dec_prim_tlv; [|lia|apply (fits_tlv _ _ _ Hfit)]. destruct b; reflexivity.
  - (* TSeq *) unfold id_seq in *. rewrite dec_cons_tlv; [|lia|apply (fits_tlv _ _ _ Hfit)].
    rewrite (dec_fields_enc_fields fuel fs); auto. apply (fits_tlv _ _ _ Hfit).
  - (* TSeqOf *) unfold id_seq in *. rewrite dec_cons_tlv; [|lia|apply (fits_tlv _ _ _ Hfit)].
    pose proof (fits_tlv _ _ _ Hfit) as Hf.
    rewrite (dec_list_flat_map fuel t (IHt Hok)); [reflexivity | apply Forall_forallb, Hwf | exact Hf | apply Hf].
  - (* TRaw *) apply andb_true_iff in Hwf. destruct Hwf as [_ Hr]. unfold raw_ok in Hr.
    destruct (parse_tlv b) as [[[i body] r]|] eqn:E; [|discriminate]. destruct r; [|discriminate].
    rewrite (parse_tlv_app _ _ _ _ rest E). apply parse_tlv_canon in E. destruct E as (E & _).
    rewrite app_nil_r in E. rewrite <- E. reflexivity.
  - (* TApp *) apply andb_true_iff in Hok. destruct Hok as [Hn Hok].
    pose proof (fits_tlv _ _ _ Hfit) as Hf.
    rewrite dec_cons_tlv; [|apply ident_low; [lia | exact Hn] | apply Hf].
    rewrite <- (app_nil_r (enc t v)) at 1. rewrite IHt by assumption. reflexivity.
Qed.

Lemma encode_some t v b : encode t v = Some b <-> wf_val t v = true /\ b = enc t v.
Proof.
  unfold encode. destruct (wf_val t v); split.
  - intros H. apply some_inj in H. auto.
  - intros [_ ->]. reflexivity.
  - discriminate.
  - intros [H _]. discriminate.
Qed.

(* THE HEADLINE: for every unambiguous schema, decoding an encoding (followed by anything) returns the value
   and the untouched rest.  Side conditions: the encoding is shorter than 2^32 octets (so that every length
   fits the 4 length octets parse_len accepts) and the element fuel is at least its length. *)
Theorem decode_encode t v b rest (fuel : nat) :
  schema_ok t = true -> wf_val t v = true -> encode t v = Some b ->
  zlen b < 2 ^ 32 -> (length b <= fuel)%nat ->
  decode t fuel (b ++ rest) = Some (v, rest).
Proof.
  intros Hok Hwf He Hlen Hfuel. apply encode_some in He. destruct He as [_ ->].
  apply decode_encode_rt; auto. split; [exact Hlen | unfold zlen; lia].
Qed.

Theorem decode_top_encode t v b :
  schema_ok t = true -> wf_val t v = true -> encode t v = Some b -> zlen b < 2 ^ 32 ->
  decode_top t b = Some v.
Proof.
  intros Hok Hwf He Hlen. unfold decode_top.
  rewrite <- (app_nil_r b) at 2. rewrite (decode_encode t v b [] _ Hok Hwf He Hlen); [reflexivity | lia].
Qed.

Theorem encode_total t v : wf_val t v = true -> exists b, encode t v = Some b.
Proof. intros H. unfold encode. rewrite H. eauto. Qed.

Theorem encode_wf t v b : encode t v = Some b -> wf_val t v = true.
Proof. intros H. apply encode_some in H. tauto. Qed.

Theorem encode_injective t v1 v2 b :
  schema_ok t = true -> encode t v1 = Some b -> encode t v2 = Some b -> zlen b < 2 ^ 32 -> v1 = v2.
Proof.
  intros Hok H1 H2 Hlen.
  pose proof (decode_top_encode t v1 b Hok (encode_wf _ _ _ H1) H1 Hlen) as D1.
  pose proof (decode_top_encode t v2 b Hok (encode_wf _ _ _ H2) H2 Hlen) as D2.
  congruence.
Qed.

(* prefix-freeness: an encoding followed by anything is never re-read differently *)
Corollary encode_prefix_free t v1 v2 b1 b2 r1 r2 :
  schema_ok t = true -> encode t v1 = Some b1 -> encode t v2 = Some b2 ->
  zlen b1 < 2 ^ 32 -> zlen b2 < 2 ^ 32 -> b1 ++ r1 = b2 ++ r2 -> v1 = v2 /\ r1 = r2.
Proof.
  intros Hok H1 H2 L1 L2 E.
  pose proof (decode_encode t v1 b1 r1 (length b1 + length b2) Hok (encode_wf _ _ _ H1) H1 L1 ltac:(lia)) as D1.
  pose proof (decode_encode t v2 b2 r2 (length b1 + length b2) Hok (encode_wf _ _ _ H2) H2 L2 ltac:(lia)) as D2.
  rewrite E in D1. rewrite D1 in D2. inversion D2. auto.
Qed.

(* ---------- examples ---------- *)
(* PrincipalName ::= SEQUENCE { name-type [0] Int32, name-string [1] SEQUENCE OF KerberosString } *)
Definition ex_PrincipalName : ty := TSeq [(Some 0, false, TInt); (Some 1, false, TSeqOf TGenStr)].
Definition ex_krbtgt : value :=
  VSeq [Some (VInt 1); Some (VList [VBytes [107;114;98;116;103;116];                     (* "krbtgt" *)
                                    VBytes [69;88;65;77;80;76;69;46;67;79;77]])].        (* "EXAMPLE.COM" *)

Example ex_principal_bytes :
  encode ex_PrincipalName ex_krbtgt =
  Some [48;30; 160;3;2;1;1; 161;23;48;21; 27;6;107;114;98;116;103;116; 27;11;69;88;65;77;80;76;69;46;67;79;77].
Proof. vm_compute. reflexivity. Qed.

(* an APPLICATION-wrapped SEQUENCE with tagged OPTIONAL fields, an untagged OPTIONAL, a nested SEQUENCE OF
   SEQUENCE, a raw embedded TLV, flags and an OID *)
Definition ex_schema : ty :=
  TApp 1 (TSeq [(Some 0, false, TInt);
                (Some 1, true, TGenStr);
                (Some 2, true, ex_PrincipalName);
                (None, true, TBool);
                (None, true, TEnum);
                (Some 5, false, TGenTime);
                (Some 6, true, TRaw);
                (Some 7, true, TBits);
                (Some 8, true, TOid);
                (Some 9, false, TSeqOf (TSeq [(Some 0, false, TInt); (Some 1, true, TOctets)]))]).

Definition ex_value : value :=
  VSeq [Some (VInt (-129)); None; Some ex_krbtgt; None; Some (VInt 5); Some (VTime 951782400);
        Some (VBytes [4;1;9]); Some (VBits 0 [64;129;0;0]); None;
        Some (VList [VSeq [Some (VInt 18); Some (VBytes [1;2;3])]; VSeq [Some (VInt 23); None]])].

Definition ex_bytes : bytes :=
  [97;103;48;101; 160;4;2;2;255;127;
   162;32;48;30;160;3;2;1;1;161;23;48;21;27;6;107;114;98;116;103;116;27;11;69;88;65;77;80;76;69;46;67;79;77;
   10;1;5;
   165;17;24;15;50;48;48;48;48;50;50;57;48;48;48;48;48;48;90;
   166;3;4;1;9;
   167;7;3;5;0;64;129;0;0;
   169;23;48;21; 48;12;160;3;2;1;18;161;5;4;3;1;2;3; 48;5;160;3;2;1;23].

Example ex_schema_ok : schema_ok ex_schema = true.
Proof. vm_compute. reflexivity. Qed.
Example ex_value_wf : wf_val ex_schema ex_value = true.
Proof. vm_compute. reflexivity. Qed.
Example ex_encode : encode ex_schema ex_value = Some ex_bytes.
Proof. vm_compute. reflexivity. Qed.
Example ex_decode : decode_top ex_schema ex_bytes = Some ex_value.
Proof. vm_compute. reflexivity. Qed.
(* the same through the theorem: its hypotheses are satisfiable *)
Example ex_decode_by_theorem : decode_top ex_schema ex_bytes = Some ex_value.
Proof.
  apply decode_top_encode; [exact ex_schema_ok | exact ex_value_wf | exact ex_encode | vm_compute; reflexivity].
Qed.
Example ex_trailing_rejected : decode_top ex_schema (ex_bytes ++ [0]) = None.
Proof. vm_compute. reflexivity. Qed.
Example ex_nonminimal_length_rejected : decode_top TInt [2; 129; 1; 5] = None.
Proof. vm_compute. reflexivity. Qed.
Example ex_nonminimal_int_rejected : decode_top TInt [2; 2; 0; 5] = None.
Proof. vm_compute. reflexivity. Qed.

(* schema_ok is needed: an untagged OPTIONAL INTEGER before a mandatory INTEGER cannot be told apart *)
Definition ex_ambiguous : ty := TSeq [(None, true, TInt); (None, false, TInt)].
Example ex_ambiguous_not_ok : schema_ok ex_ambiguous = false.
Proof. vm_compute. reflexivity. Qed.
Example ex_ambiguous_fails :
  wf_val ex_ambiguous (VSeq [None; Some (VInt 5)]) = true /\
  encode ex_ambiguous (VSeq [None; Some (VInt 5)]) = Some [48; 3; 2; 1; 5] /\
  decode_top ex_ambiguous [48; 3; 2; 1; 5] = None.
Proof. vm_compute. auto. Qed.

(* ---------- the encoder writes octets ---------- *)
Definition enc_octets (t : ty) : Prop :=
  forall v, wf_val t v = true -> zlen (enc t v) < 2 ^ 32 -> wf_bytes (enc t v).

Lemma tlv_wf_body id body : 0 <= id < 256 -> zlen (tlv id body) < 2 ^ 32 -> wf_bytes body -> wf_bytes (tlv id body).
Proof. intros Hi Hl Hb. apply tlv_wf; auto. pose proof (zlen_tlv id body). lia. Qed.

Lemma ident_byte cls c n : 0 <= cls <= 3 -> tag_ok n = true -> 0 <= ident cls c n < 256.
Proof. unfold tag_ok, ident. intros Hc H. destruct c; lia. Qed.

Lemma enc_fields_octets fs :
  Forall (fun f : field => schema_ok (snd f) = true -> enc_octets (snd f)) fs ->
  fields_ok schema_ok fs = true ->
  forall vs, wf_fields wf_val fs vs = true -> zlen (enc_fields enc fs vs) < 2 ^ 32 ->
  wf_bytes (enc_fields enc fs vs).
Proof.
  induction 1 as [|[[tag opt] t] fs Ho _ IH]; intros Hok vs Hwf Hl.
  - destruct vs; constructor.
  - destruct vs as [|o vs]; [discriminate|].
    rewrite wf_fields_cons in Hwf. apply andb_true_iff in Hwf. destruct Hwf as [Hw1 Hw2].
    rewrite fields_ok_cons in Hok. repeat (apply andb_true_iff in Hok; destruct Hok as [Hok ?]).
    cbn [snd] in Ho. specialize (Ho H1). rewrite enc_fields_cons in *. rewrite zlen_app in Hl.
    pose proof (zlen_nonneg (enc_fields enc fs vs)).
    destruct o as [v|].
    + pose proof (zlen_nonneg (wrap_tag tag (enc t v))).
      apply wf_bytes_app. split; [|apply IH; auto; lia].
      destruct tag as [n|]; cbn [wrap_tag opt_tag_ok] in *.
      * apply tlv_wf_body; [apply ident_byte; [lia | exact Hok] | lia |].
        apply Ho; auto. pose proof (zlen_tlv (ident 2 true n) (enc t v)). lia.
      * apply Ho; auto. lia.
    + cbn [app]. apply IH; auto; rewrite zlen_nil in Hl; lia.
Qed.

Theorem enc_wf_bytes : forall t, schema_ok t = true -> enc_octets t.
Proof.
  induction t using ty_ind'; intros Hok v Hwf Hl; cbn [schema_ok] in Hok.
  1-10, 12: destruct v; cbn [wf_val] in Hwf; try discriminate.
  all: cbn [wf_val enc] in *.
  - apply tlv_wf_body; [lia | exact Hl | apply enc_int_wf].
  - apply tlv_wf_body; [lia | exact Hl | apply wf_bytesb_iff, Hwf].
  - apply tlv_wf_body; [lia | exact Hl | apply wf_bytesb_iff, Hwf].
  - apply tlv_wf_body; [lia | exact Hl | apply enc_time_wf, Hwf].
  - apply andb_true_iff in Hwf. destruct Hwf as [Hb Hw]. apply tlv_wf_body; [lia | exact Hl |].
    unfold enc_bits. apply wf_bytes_cons. split; [unfold bits_ok in Hb; lia | apply wf_bytesb_iff, Hw].
  - destruct (oid_ok_enc arcs Hwf) as (x & E). rewrite E in *.
    apply tlv_wf_body; [lia | exact Hl | eapply enc_oid_wf, E].
  - apply tlv_wf_body; [lia | exact Hl | apply enc_int_wf].
  - apply tlv_wf_body; [lia | exact Hl |]. apply wf_bytes_cons. split; [destruct b; lia | constructor].
  - unfold id_seq in *. apply tlv_wf_body; [lia | exact Hl |].
    apply enc_fields_octets; auto. pose proof (zlen_tlv 48 (enc_fields enc fs fs0)). lia.
  - unfold id_seq in *. apply tlv_wf_body; [lia | exact Hl |].
    pose proof (zlen_tlv 48 (flat_map (enc t) vs)) as Hb.
    assert (Hb' : zlen (flat_map (enc t) vs) < 2 ^ 32) by lia. clear Hb Hl.
    induction vs as [|v vs IHvs]; [constructor|]. cbn [flat_map forallb] in *.
    apply andb_true_iff in Hwf. destruct Hwf as [Hv Hvs]. rewrite zlen_app in Hb'.
    pose proof (zlen_nonneg (enc t v)). pose proof (zlen_nonneg (flat_map (enc t) vs)).
    apply wf_bytes_app. split; [apply IHt; auto; lia | apply IHvs; auto; lia].
  - apply andb_true_iff in Hwf. destruct Hwf as [Hw _]. apply wf_bytesb_iff, Hw.
  - apply andb_true_iff in Hok. destruct Hok as [Hn Hok].
    apply tlv_wf_body; [apply ident_byte; [lia | exact Hn] | exact Hl |].
    apply IHt; auto. pose proof (zlen_tlv (ident 1 true n) (enc t v)). lia.
Qed.

Corollary encode_wf_bytes t v b :
  schema_ok t = true -> encode t v = Some b -> zlen b < 2 ^ 32 -> wf_bytes b.
Proof.
  intros Hok He Hl. apply encode_some in He. destruct He as [Hwf ->]. apply enc_wf_bytes; auto.
Qed.
