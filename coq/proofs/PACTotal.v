(* Totality of the PAC model (repaired code): no Go panic and no allocation above the input length
   for any byte string.  Allocation is part of the statement because every `make(n)` with an
   input-derived n is `galloc site (zlen pac) n`, which is a Panic when n exceeds the length of the PAC. *)
From Gokrb5.lib Require Import Bytes JV.
From Gokrb5.model Require Import Crypto PAC.

(* ---------- list / bytes helpers ---------- *)

Lemma wf_firstn n l : wf_bytes l -> wf_bytes (firstn n l).
Proof. unfold wf_bytes. revert l; induction n; intros [|x l] H; cbn; auto. inversion H; subst. constructor; auto. Qed.

Lemma wf_skipn n l : wf_bytes l -> wf_bytes (skipn n l).
Proof. unfold wf_bytes. revert l; induction n; intros [|x l] H; cbn; auto. inversion H; subst. auto. Qed.

Lemma wf_slice l lo hi : wf_bytes l -> wf_bytes (slice l lo hi).
Proof. intros H. unfold slice. apply wf_firstn, wf_skipn, H. Qed.

Lemma le_val_nonneg l : wf_bytes l -> 0 <= le_val l.
Proof. intros H. pose proof (le_val_bound l H). lia. Qed.

Lemma zlen_firstn {A} n (l : list A) : zlen (firstn n l) = Z.min (Z.of_nat n) (zlen l).
Proof. unfold zlen. rewrite firstn_length. lia. Qed.

Lemma zlen_skipn {A} n (l : list A) : zlen (skipn n l) = Z.max 0 (zlen l - Z.of_nat n).
Proof. unfold zlen. rewrite skipn_length. lia. Qed.

Lemma zlen_slice {A} (l : list A) lo hi : 0 <= lo -> lo <= hi -> hi <= zlen l -> zlen (slice l lo hi) = hi - lo.
Proof. intros. unfold slice. rewrite zlen_firstn, zlen_skipn. lia. Qed.

Lemma length_slice {A} (l : list A) lo hi : 0 <= lo -> lo <= hi -> hi <= zlen l -> length (slice l lo hi) = Z.to_nat (hi - lo).
Proof. intros. pose proof (zlen_slice l lo hi). unfold zlen in *. lia. Qed.

(* ---------- readers ---------- *)

Lemma read_le_ok w r v r' : read_le w r = Ok (v, r') ->
  (w <= length r)%nat /\ v = le_val (firstn w r) /\ r' = skipn w r.
Proof.
  unfold read_le. destruct (Nat.ltb_spec (length r) w); [discriminate|].
  intros E; injection E as <- <-. auto.
Qed.

Lemma read_le_no_panic w r : is_panic (read_le w r) = false.
Proof. unfold read_le. destruct (length r <? w)%nat; reflexivity. Qed.

Lemma read_le_wf w r v r' : wf_bytes r -> read_le w r = Ok (v, r') -> 0 <= v /\ wf_bytes r'.
Proof.
  intros W E. apply read_le_ok in E. destruct E as (_ & -> & ->).
  split; [apply le_val_nonneg, wf_firstn, W | apply wf_skipn, W].
Qed.

Lemma galloc_ok site lim n : 0 <= n <= lim -> galloc site lim n = Ok tt.
Proof. intros. unfold galloc. destruct (Z.leb_spec 0 n), (Z.leb_spec n lim); cbn; auto; lia. Qed.

Lemma galloc_inv site lim n u : galloc site lim n = Ok u -> 0 <= n <= lim.
Proof. unfold galloc. destruct (Z.leb_spec 0 n), (Z.leb_spec n lim); cbn; try discriminate. lia. Qed.

Lemma gslice_ok {A} site (l : list A) lo hi : 0 <= lo -> lo <= hi -> hi <= zlen l -> gslice site l lo hi = Ok (slice l lo hi).
Proof.
  intros. unfold gslice.
  destruct (Z.leb_spec 0 lo), (Z.leb_spec lo hi), (Z.leb_spec hi (zlen l)); cbn; auto; lia.
Qed.

Lemma gslice_inv {A} site (l : list A) lo hi r : gslice site l lo hi = Ok r ->
  0 <= lo /\ lo <= hi /\ hi <= zlen l /\ r = slice l lo hi.
Proof.
  unfold gslice.
  destruct (Z.leb_spec 0 lo), (Z.leb_spec lo hi), (Z.leb_spec hi (zlen l)); cbn; try discriminate.
  intros E; injection E as <-. auto.
Qed.

Definition nopanic {A} (r : res A) : Prop := is_panic r = false.

Lemma bind_nopanic {A B} (r : res A) (f : A -> res B) :
  nopanic r -> (forall a, r = Ok a -> nopanic (f a)) -> nopanic (bind r f).
Proof. unfold nopanic. destruct r; cbn; auto. Qed.

(* ---------- table ---------- *)

Definition buf_nonneg (b : info_buffer) : Prop := 0 <= ib_type b /\ 0 <= ib_size b /\ 0 <= ib_off b.

Lemma read_table_nopanic n r : nopanic (read_table n r).
Proof.
  revert r; induction n as [|n IH]; intros r; cbn [read_table]; [reflexivity|].
  apply bind_nopanic; [apply read_le_no_panic|intros [t r1] _].
  apply bind_nopanic; [apply read_le_no_panic|intros [s r2] _].
  apply bind_nopanic; [apply read_le_no_panic|intros [o r3] _].
  apply bind_nopanic; [apply IH|intros rest _]. reflexivity.
Qed.

Lemma read_table_nonneg n r t : wf_bytes r -> read_table n r = Ok t -> Forall buf_nonneg t.
Proof.
  revert r t; induction n as [|n IH]; intros r t W; cbn [read_table].
  - intros E; injection E as <-. constructor.
  - destruct (read_le 4 r) as [[ty r1]| |] eqn:E1; cbn [bind]; try discriminate.
    destruct (read_le 4 r1) as [[s r2]| |] eqn:E2; cbn [bind]; try discriminate.
    destruct (read_le 8 r2) as [[o r3]| |] eqn:E3; cbn [bind]; try discriminate.
    destruct (read_table n r3) as [rest| |] eqn:E4; cbn [bind]; try discriminate.
    intros E; injection E as <-.
    destruct (read_le_wf _ _ _ _ W E1) as [H1 W1].
    destruct (read_le_wf _ _ _ _ W1 E2) as [H2 W2].
    destruct (read_le_wf _ _ _ _ W2 E3) as [H3 W3].
    constructor; [repeat split; assumption | eapply IH; eauto].
Qed.

Lemma pac_unmarshal_nopanic b : wf_bytes b -> nopanic (pac_unmarshal b).
Proof.
  intros W. unfold pac_unmarshal.
  rewrite galloc_ok by (pose proof (zlen_nonneg b); lia). cbn [bind].
  destruct (read_le 4 b) as [[cb r1]| |] eqn:E1; cbn [bind]; try reflexivity;
    [|pose proof (read_le_no_panic 4 b) as P; rewrite E1 in P; discriminate].
  destruct (read_le 4 r1) as [[ver r2]| |] eqn:E2; cbn [bind]; try reflexivity;
    [|pose proof (read_le_no_panic 4 r1) as P; rewrite E2 in P; discriminate].
  destruct (read_le_wf _ _ _ _ W E1) as [Hcb W1].
  destruct (Z.ltb_spec (zlen b - 8) (cb * 16)); [reflexivity|].
  rewrite galloc_ok by lia. cbn [bind].
  apply bind_nopanic; [apply read_table_nopanic|intros t _; reflexivity].
Qed.

Lemma pac_unmarshal_nonneg b pt : wf_bytes b -> pac_unmarshal b = Ok pt -> Forall buf_nonneg (pt_buffers pt).
Proof.
  intros W. unfold pac_unmarshal.
  destruct (galloc 90 (zlen b) (zlen b)); cbn [bind]; try discriminate.
  destruct (read_le 4 b) as [[cb r1]| |] eqn:E1; cbn [bind]; try discriminate.
  destruct (read_le 4 r1) as [[ver r2]| |] eqn:E2; cbn [bind]; try discriminate.
  destruct (zlen b - 8 <? cb * 16); try discriminate.
  destruct (galloc 91 (zlen b) cb); cbn [bind]; try discriminate.
  destruct (read_table (Z.to_nat cb) r2) as [t| |] eqn:E3; cbn [bind]; try discriminate.
  intros E; injection E as <-. cbn.
  destruct (read_le_wf _ _ _ _ W E1) as [_ W1]. destruct (read_le_wf _ _ _ _ W1 E2) as [_ W2].
  eapply read_table_nonneg; eauto.
Qed.

(* the count is checked against the input before the table is allocated *)
Lemma pac_unmarshal_count b pt : pac_unmarshal b = Ok pt ->
  0 <= pt_cbuffers pt /\ 16 * pt_cbuffers pt <= zlen b - 8.
Proof.
  unfold pac_unmarshal.
  destruct (galloc 90 (zlen b) (zlen b)); cbn [bind]; try discriminate.
  destruct (read_le 4 b) as [[cb r1]| |] eqn:E1; cbn [bind]; try discriminate.
  destruct (read_le 4 r1) as [[ver r2]| |] eqn:E2; cbn [bind]; try discriminate.
  destruct (Z.ltb_spec (zlen b - 8) (cb * 16)); try discriminate.
  destruct (galloc 91 (zlen b) cb) eqn:G; cbn [bind]; try discriminate.
  apply galloc_inv in G.
  destruct (read_table (Z.to_nat cb) r2) as [t| |]; cbn [bind]; try discriminate.
  intros E; injection E as <-. cbn [pt_cbuffers]. lia.
Qed.

(* ---------- signature buffer, client info ---------- *)

Lemma sig_len_range st : 0 <= sig_len st <= 24.
Proof. unfold sig_len. repeat match goal with |- context [?a =? ?b] => destruct (a =? b) end; lia. Qed.

Lemma sig_unmarshal_nopanic lim p : zlen p <= lim -> nopanic (sig_unmarshal lim p).
Proof.
  intros L. unfold sig_unmarshal.
  destruct (read_le 4 p) as [[st r1]| |] eqn:E1; cbn [bind]; try reflexivity;
    [|pose proof (read_le_no_panic 4 p) as P; rewrite E1 in P; discriminate].
  pose proof (sig_len_range st) as Hc.
  apply read_le_ok in E1. destruct E1 as (L4 & _ & ->).
  destruct (Z.ltb_spec (zlen (skipn 4 p)) (sig_len st)) as [|Hr]; [reflexivity|].
  rewrite zlen_skipn in Hr.
  assert (4 + sig_len st <= zlen p) by (unfold zlen in *; lia).
  apply bind_nopanic.
  { destruct (4 + sig_len st + 2 <=? zlen p); [|reflexivity].
    apply bind_nopanic; [apply read_le_no_panic|intros [v r] _; reflexivity]. }
  intros rodc _.
  rewrite !galloc_ok by (pose proof (zlen_nonneg p); lia). cbn [bind].
  rewrite gslice_ok by lia. reflexivity.
Qed.

Lemma read_u16s_nopanic r cnt : nopanic (read_u16s r cnt).
Proof.
  assert (forall n r, (length r <= n)%nat -> forall cnt, nopanic (read_u16s r cnt)) as H.
  { induction n as [|n IH]; intros r0 L cnt0.
    - destruct r0; [|cbn in L; lia]. cbn [read_u16s]. destruct (cnt0 <=? 0); reflexivity.
    - destruct r0 as [|a [|b0 r']]; cbn [read_u16s]; destruct (cnt0 <=? 0); try reflexivity.
      apply bind_nopanic; [apply IH; cbn in L; lia|intros; reflexivity]. }
  apply (H (length r)); lia.
Qed.

Lemma client_info_nopanic p : nopanic (client_info_unmarshal p).
Proof.
  unfold client_info_unmarshal.
  apply bind_nopanic; [apply read_le_no_panic|intros [lo r1] _].
  apply bind_nopanic; [apply read_le_no_panic|intros [hi r2] _].
  apply bind_nopanic; [apply read_le_no_panic|intros [nl r3] _].
  apply bind_nopanic; [apply read_u16s_nopanic|intros us _]. reflexivity.
Qed.

(* ---------- the loop ---------- *)

Lemma copy_into_ok site z off size src : 0 <= off -> 0 <= size -> off + size <= zlen z ->
  exists z', copy_into site z off size src = Ok z' /\ zlen z' = zlen z.
Proof.
  intros. unfold copy_into. rewrite gslice_ok by lia. cbn [bind].
  eexists; split; [reflexivity|].
  pose proof (length_slice z off (off + size) ltac:(lia) ltac:(lia) ltac:(lia)) as Ld.
  unfold zlen in *. rewrite !app_length, !firstn_length, skipn_length. lia.
Qed.

Definition item_nonneg (it : item) : Prop := buf_nonneg (it_buf it).

Lemma annotate_nonneg i t dec : Forall buf_nonneg t -> Forall item_nonneg (annotate i t dec).
Proof.
  intros H; revert i dec; induction H as [|b t Hb Ht IH]; intros i dec; cbn [annotate]; [constructor|].
  destruct dec as [|d dr]; constructor; try apply IH; exact Hb.
Qed.

Lemma step_total data st it :
  item_nonneg it -> zlen (st_zsd st) = zlen data ->
  match step data st it with
  | Ok st' => zlen (st_zsd st') = zlen data
  | Err _ => True
  | Panic _ => False
  end.
Proof.
  intros (Hty & Hsz & Hoff) Hz. unfold step.
  destruct (Z.ltb_spec (zlen data) (ib_off (it_buf it))); cbn [orb]; [exact I|].
  destruct (Z.ltb_spec (zlen data - ib_off (it_buf it)) (ib_size (it_buf it))); [exact I|].
  rewrite galloc_ok by lia. cbn [bind]. rewrite gslice_ok by lia. cbn [bind].
  set (p := slice data (ib_off (it_buf it)) (ib_off (it_buf it) + ib_size (it_buf it))).
  assert (Lp : zlen p = ib_size (it_buf it)) by (unfold p; rewrite zlen_slice; lia).
  destruct (ib_type (it_buf it) =? 1).
  { destruct (st_kvi st); [exact Hz|]. destruct (it_ok it); [exact Hz|exact I]. }
  destruct (ib_type (it_buf it) =? 2); [exact Hz|].
  destruct (ib_type (it_buf it) =? 6).
  { destruct (st_srv st); [exact Hz|].
    pose proof (sig_unmarshal_nopanic (zlen data) p ltac:(lia)) as NP.
    destruct (copy_into_ok 98 (st_zsd st) (ib_off (it_buf it)) (ib_size (it_buf it))
               (match sig_unmarshal (zlen data) p with Ok (_, zb) => zb | _ => [] end)) as (z' & -> & Lz); try lia.
    cbn [bind]. destruct (sig_unmarshal (zlen data) p) as [[sd zb]| |]; cbn [bind]; try exact I; try discriminate.
    cbn. lia. }
  destruct (ib_type (it_buf it) =? 7).
  { destruct (st_kdc st); [exact Hz|].
    pose proof (sig_unmarshal_nopanic (zlen data) p ltac:(lia)) as NP.
    destruct (copy_into_ok 99 (st_zsd st) (ib_off (it_buf it)) (ib_size (it_buf it))
               (match sig_unmarshal (zlen data) p with Ok (_, zb) => zb | _ => [] end)) as (z' & -> & Lz); try lia.
    cbn [bind]. destruct (sig_unmarshal (zlen data) p) as [[sd zb]| |]; cbn [bind]; try exact I; try discriminate.
    cbn. lia. }
  destruct (ib_type (it_buf it) =? 10).
  { destruct (st_ci st); [exact Hz|].
    pose proof (client_info_nopanic p) as NP.
    destruct (client_info_unmarshal p); cbn [bind]; try exact I; try discriminate. exact Hz. }
  destruct (is_optional (ib_type (it_buf it))); [|exact Hz].
  destruct (has_opt _ _ || _); [exact Hz|]. destruct (it_ok it); exact Hz.
Qed.

Lemma process_loop_nopanic data its st :
  Forall item_nonneg its -> zlen (st_zsd st) = zlen data -> nopanic (process_loop data its st).
Proof.
  intros H; revert st; induction H as [|it its Hit Hits IH]; intros st Hz; cbn [process_loop]; [reflexivity|].
  pose proof (step_total data st it Hit Hz) as T.
  destruct (step data st it) as [st'| |]; cbn [bind]; [apply IH, T|reflexivity|destruct T].
Qed.

Lemma pac_verify_nopanic key st : nopanic (pac_verify key st).
Proof.
  unfold pac_verify.
  destruct (st_kvi st); [|reflexivity]. destruct (st_srv st); [|reflexivity].
  destruct (st_kdc st); [|reflexivity]. destruct (st_ci st); [|reflexivity].
  destruct (etype_of_chksum_type _); [|reflexivity].
  destruct (verify_checksum _ _ _ _ _); reflexivity.
Qed.

(* For every byte string, every key and every outcome of the external decoders: no Go panic (slice or
   index out of range) and no `make` larger than the PAC itself. *)
Theorem pac_total data key dec : wf_bytes data -> is_panic (pac_process data key dec) = false.
Proof.
  intros W. unfold pac_process.
  apply bind_nopanic; [apply pac_unmarshal_nopanic, W|intros pt E].
  apply bind_nopanic.
  { apply process_loop_nopanic; [|reflexivity].
    apply annotate_nonneg. eapply pac_unmarshal_nonneg; eauto. }
  intros st _. apply bind_nopanic; [apply pac_verify_nopanic|intros; reflexivity].
Qed.

(* the buffer count is checked against the input size before the table is allocated *)
Theorem pac_table_alloc_bounded data pt :
  pac_unmarshal data = Ok pt ->
  16 * pt_cbuffers pt <= zlen data - 8 /\ zlen (pt_buffers pt) = pt_cbuffers pt.
Proof.
  intros E. pose proof (pac_unmarshal_count _ _ E) as [H0 H1]. split; [exact H1|].
  revert E. unfold pac_unmarshal.
  destruct (galloc 90 (zlen data) (zlen data)); cbn [bind]; try discriminate.
  destruct (read_le 4 data) as [[cb r1]| |]; cbn [bind]; try discriminate.
  destruct (read_le 4 r1) as [[ver r2]| |]; cbn [bind]; try discriminate.
  destruct (zlen data - 8 <? cb * 16); try discriminate.
  destruct (galloc 91 (zlen data) cb) eqn:G; cbn [bind]; try discriminate. apply galloc_inv in G.
  destruct (read_table (Z.to_nat cb) r2) as [t| |] eqn:T; cbn [bind]; try discriminate.
  intros E; injection E as <-. cbn [pt_buffers pt_cbuffers].
  assert (forall n r t, read_table n r = Ok t -> length t = n) as L.
  { induction n as [|n IH]; intros r t0; cbn [read_table]; [intros E; injection E as <-; reflexivity|].
    destruct (read_le 4 r) as [[ty1 r1']| |]; cbn [bind]; try discriminate.
    destruct (read_le 4 r1') as [[b0 r2']| |]; cbn [bind]; try discriminate.
    destruct (read_le 8 r2') as [[c r3']| |]; cbn [bind]; try discriminate.
    destruct (read_table n r3') eqn:E4; cbn [bind]; try discriminate.
    intros E; injection E as <-. cbn. f_equal. eapply IH; eauto. }
  apply L in T. unfold zlen. lia.
Qed.

(* satisfiable: an 8 byte header that declares 2^32-1 buffers is an error, not a 96 GiB allocation *)
Example huge_count_is_error : pac_process [255;255;255;255;0;0;0;0] [] [] = Err 2.
Proof. reflexivity. Qed.

(* a table entry pointing outside the PAC is an error, not a slice panic *)
Example offset_outside_is_error :
  pac_process ([1;0;0;0; 0;0;0;0] ++ [1;0;0;0; 4;0;0;0; 0;16;0;0;0;0;0;0]) [] [] = Err 10.
Proof. reflexivity. Qed.
