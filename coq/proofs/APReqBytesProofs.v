(* Gokrb5.proofs.APReqBytesProofs — C01 in bytes mode (model/APReqBytes.v).
     dec_ticket_der_encode / dec_auth_der_encode : the decoders of the two encrypted parts invert the RFC 4120 DER
        encoding (DERCodec.encode with the hand-written RFC schemas), whatever follows the DER value;
     parse_apreq_encode     : so does the envelope parser on the DER of an AP-REQ;
     verify_apreq_bytes_refines : on the wire bytes of a well-formed AP-REQ the bytes-mode verdict IS the sealed-content
        verdict of model/APReq.v (about which C01's acceptance theorems speak);
     unsealed_trailer_ignored : a plaintext EncTicketPart travelling after enc-part never changes anything;
     verify_apreq_bytes_total, parse_failure_rejects, verify_apreq_bytes_accept_iff. *)
From Coq Require Import ZifyBool.
From Gokrb5.lib Require Import Bytes JV.
From Gokrb5.model Require Import Keytab Crypto Replay Schema DER DERCodec RFCSchemas GoASN1 APReq APReqBytes.
From Gokrb5.proofs Require Import DERBasic DERProofs GoASN1Proofs APReqProofs LenOctetsProofs.

(* ---------- the Go structs erase to the RFC 4120 types ---------- *)
Lemma erase_EncTicketPart : TApp 3 (erase go_EncTicketPart) = rfc_EncTicketPart.
Proof. reflexivity. Qed.
Lemma erase_Authenticator : TApp 2 (erase go_Authenticator) = rfc_Authenticator.
Proof. reflexivity. Qed.
Lemma erase_Ticket_fields : TApp 1 (TSeq (erase_fields go_Ticket_fields)) = rfc_Ticket.
Proof. reflexivity. Qed.
(* marshalAPReq: the RFC type with the ticket taken as one raw element *)
Definition env_APReq : ty :=
  TApp 14 (TSeq [req 0 TInt; req 1 TInt; req 2 TBits; req 3 TRaw; req 4 rfc_EncryptedData]).
Lemma erase_marshalAPReq : TApp 14 (erase go_marshalAPReq) = env_APReq.
Proof. reflexivity. Qed.

Lemma gok_EncTicketPart : gok go_EncTicketPart = true.
Proof. vm_compute. reflexivity. Qed.
Lemma gok_Authenticator : gok go_Authenticator = true.
Proof. vm_compute. reflexivity. Qed.
Lemma gok_marshalAPReq : gok go_marshalAPReq = true.
Proof. vm_compute. reflexivity. Qed.
Lemma gok_Ticket_fields : gfields_ok gok go_Ticket_fields = true /\ ends_mand go_Ticket_fields = true.
Proof. split; vm_compute; reflexivity. Qed.

(* ---------- decoders of the encrypted parts on DER ---------- *)
Theorem dec_ticket_der_value v pt rest :
  wfg go_EncTicketPart v = true -> encode rfc_EncTicketPart v = Some pt -> zlen pt < 2 ^ 31 ->
  dec_ticket_der (pt ++ rest) = proj_enc_ticket v.
Proof.
  intros Hw He Hl. apply encode_some in He. destruct He as [_ ->]. rewrite <- erase_EncTicketPart in *.
  unfold dec_ticket_der. rewrite unmarshal_app_enc; auto using gok_EncTicketPart. discriminate.
Qed.

Theorem dec_auth_der_value v pt rest :
  wfg go_Authenticator v = true -> encode rfc_Authenticator v = Some pt -> zlen pt < 2 ^ 31 ->
  dec_auth_der (pt ++ rest) = proj_authenticator v.
Proof.
  intros Hw He Hl. apply encode_some in He. destruct He as [_ ->]. rewrite <- erase_Authenticator in *.
  unfold dec_auth_der. rewrite unmarshal_app_enc; auto using gok_Authenticator. discriminate.
Qed.

(* ---------- injections of the records of APReq.v into RFC values ---------- *)
Definition int32_ok (z : Z) : bool := (- 2 ^ (8 * 4 - 1) <=? z) && (z <? 2 ^ (8 * 4 - 1)).
Definition int64_ok (z : Z) : bool := (- 2 ^ (8 * 8 - 1) <=? z) && (z <? 2 ^ (8 * 8 - 1)).

Definition inj_pname (ntype : Z) (names : list bytes) : value :=
  VSeq [Some (VInt ntype); Some (VList (map VBytes names))].
Definition inj_addr (a : Z * bytes) : value := VSeq [Some (VInt (fst a)); Some (VBytes (snd a))].
(* gofork omits an optional kvno that is zero *)
Definition inj_encdata (et kvno : Z) (c : bytes) : value :=
  VSeq [Some (VInt et); (if kvno =? 0 then None else Some (VInt kvno)); Some (VBytes c)].

(* fields the record does not carry: transited = (0, ""), authtime = the epoch, no renew-till, no authorization-data;
   an empty caddr is omitted (as gofork does) *)
Definition inject_enc_ticket (et : enc_ticket) : value :=
  VSeq [Some (VBits 0 (et_flags et));
        Some (VSeq [Some (VInt (et_keytype et)); Some (VBytes (et_key et))]);
        Some (VBytes (et_crealm et));
        Some (inj_pname 1 (et_cname et));
        Some (VSeq [Some (VInt 0); Some (VBytes [])]);
        Some (VTime 0);
        match et_start et with Some s => Some (VTime s) | None => None end;
        Some (VTime (et_end et));
        None;
        match et_caddr et with [] => None | _ :: _ => Some (VList (map inj_addr (et_caddr et))) end;
        None].

Definition wf_enc_ticket (et : enc_ticket) : bool :=
  wf_bytesb (et_flags et) && int32_ok (et_keytype et) && wf_bytesb (et_key et) && wf_bytesb (et_crealm et)
  && forallb wf_bytesb (et_cname et)
  && (match et_start et with Some s => time_ok s | None => true end) && time_ok (et_end et)
  && forallb (fun a => int32_ok (fst a) && wf_bytesb (snd a)) (et_caddr et).

(* authenticator-vno 5, no checksum, subkey, sequence number, authorization-data *)
Definition inject_authenticator (au : authenticator) : value :=
  VSeq [Some (VInt 5); Some (VBytes (au_crealm au)); Some (inj_pname 1 (au_cname au)); None;
        Some (VInt (au_cusec au)); Some (VTime (au_ctime au)); None; None; None].

(* cusec * 1000 nanoseconds fit an int64 (no wrap-around in time.Duration) *)
Definition cusec_ok (cu : Z) : bool := (- 2 ^ 63 <=? cu * 1000) && (cu * 1000 <? 2 ^ 63).

Definition wf_authenticator (au : authenticator) : bool :=
  wf_bytesb (au_crealm au) && forallb wf_bytesb (au_cname au) && int64_ok (au_cusec au) && time_ok (au_ctime au)
  && cusec_ok (au_cusec au).

Definition inject_ticket (tk : ticket) : value :=
  VSeq [Some (VInt 5); Some (VBytes (tk_realm tk)); Some (inj_pname 2 (tk_sname tk));
        Some (inj_encdata (tk_etype tk) (tk_kvno tk) (tk_cipher tk))].

(* pvno 5, msg-type 14, ap-options 32 zero bits, the authenticator sealed without kvno *)
Definition inject_apreq (tk : ticket) (aet : Z) (ac : bytes) : value :=
  VSeq [Some (VInt 5); Some (VInt 14); Some (VBits 0 [0; 0; 0; 0]); Some (inject_ticket tk);
        Some (inj_encdata aet 0 ac)].

Definition wf_apreq (tk : ticket) (aet : Z) (ac : bytes) : bool :=
  wf_bytesb (tk_realm tk) && forallb wf_bytesb (tk_sname tk) && int32_ok (tk_etype tk) && int64_ok (tk_kvno tk)
  && wf_bytesb (tk_cipher tk) && int32_ok aet && wf_bytesb ac.

(* ---------- projections undo injections ---------- *)
Lemma map_opt_v_bytes l : map_opt v_bytes (map VBytes l) = Some l.
Proof. induction l as [|x l IH]; [reflexivity|]. cbn [map map_opt v_bytes]. rewrite IH. reflexivity. Qed.

Lemma p_names_inj t l : p_names (inj_pname t l) = Some l.
Proof. unfold p_names, inj_pname. cbn [rfld fld nth_error obind v_list]. apply map_opt_v_bytes. Qed.

Lemma map_opt_hostaddr l : map_opt p_hostaddr (map inj_addr l) = Some l.
Proof.
  induction l as [|[t a] l IH]; [reflexivity|]. cbn [map map_opt]. rewrite IH.
  reflexivity.
Qed.

Lemma p_encdata_inj et kv c : p_encdata (inj_encdata et kv c) = Some (et, kv, c).
Proof.
  unfold p_encdata, inj_encdata. cbn [rfld fld nth_error obind v_int v_bytes].
  destruct (Z.eqb_spec kv 0) as [->|]; reflexivity.
Qed.

Lemma proj_inject_enc_ticket et : proj_enc_ticket (inject_enc_ticket et) = Some et.
Proof.
  destruct et as [fl kt kv cr cn st en ca]. unfold proj_enc_ticket, inject_enc_ticket.
  cbn [et_flags et_keytype et_key et_crealm et_cname et_start et_end et_caddr].
  cbn [rfld fld nth_error obind v_int v_bytes v_time]. rewrite p_names_inj. cbn [obind].
  destruct st as [s|]; cbn [obind option_map v_time]; (destruct ca as [|a ca]; cbn [obind v_list map_opt];
    [reflexivity | rewrite (map_opt_hostaddr (a :: ca)); reflexivity]).
Qed.

Lemma cusec_go_id cu : cusec_ok cu = true -> cusec_go cu = cu.
Proof.
  unfold cusec_ok, cusec_go. intros H. apply andb_true_iff in H. destruct H as [H1 H2].
  rewrite sint_id; [apply Z.div_mul; lia | lia | change (2 ^ (64 - 1)) with (2 ^ 63); lia].
Qed.

Lemma proj_inject_authenticator au : cusec_ok (au_cusec au) = true ->
  proj_authenticator (inject_authenticator au) = Some au.
Proof.
  destruct au as [cr cn ct cu]. unfold proj_authenticator, inject_authenticator.
  cbn [au_crealm au_cname au_ctime au_cusec]. intros Hcu. cbn [rfld fld nth_error obind v_int v_bytes v_time].
  rewrite p_names_inj. cbn [obind]. rewrite (cusec_go_id cu Hcu). reflexivity.
Qed.

Lemma proj_inject_ticket tk tr : proj_ticket (match inject_ticket tk with VSeq l => VSeq (l ++ [tr]) | v => v end) = Some tk.
Proof.
  destruct tk as [re sn et kv c]. unfold proj_ticket, inject_ticket.
  cbn [tk_realm tk_sname tk_etype tk_kvno tk_cipher app]. cbn [rfld fld nth_error obind v_bytes].
  rewrite p_names_inj. cbn [obind]. rewrite p_encdata_inj. reflexivity.
Qed.

(* ---------- well-formed records inject to well-formed values (of the RFC type, within Go's integer ranges) ---------- *)
Lemma forallb_genstr l : forallb (wf_val TGenStr) (map VBytes l) = forallb wf_bytesb l.
Proof. induction l as [|x l IH]; [reflexivity|]. cbn [map forallb]. rewrite IH. reflexivity. Qed.

Lemma forallb_gstring l : forallb (wfg GString) (map VBytes l) = true.
Proof. induction l as [|x l IH]; [reflexivity|]. cbn [map forallb]. rewrite IH. reflexivity. Qed.

Lemma wf_val_pname t l : forallb wf_bytesb l = true -> wf_val rfc_PrincipalName (inj_pname t l) = true.
Proof.
  intros H. unfold rfc_PrincipalName, inj_pname, req. cbn [wf_val wf_fields]. rewrite forallb_genstr, H. reflexivity.
Qed.

Lemma wfg_pname t l : int32_ok t = true -> wfg go_PrincipalName (inj_pname t l) = true.
Proof.
  intros H. unfold go_PrincipalName, inj_pname, greq. cbn [wfg wfg_fields]. rewrite forallb_gstring.
  unfold int32_ok in H. rewrite H. reflexivity.
Qed.

Lemma wf_val_addrs l : forallb (fun a => int32_ok (fst a) && wf_bytesb (snd a)) l = true ->
  forallb (wf_val rfc_HostAddress) (map inj_addr l) = true.
Proof.
  induction l as [|[t a] l IH]; [reflexivity|]. cbn [forallb map fst snd]. intros H.
  apply andb_true_iff in H. destruct H as [H1 H2]. apply andb_true_iff in H1. destruct H1 as [_ H1].
  rewrite (IH H2). unfold rfc_HostAddress, inj_addr, req. cbn [wf_val wf_fields fst snd]. rewrite H1. reflexivity.
Qed.

Lemma wfg_addrs l : forallb (fun a => int32_ok (fst a) && wf_bytesb (snd a)) l = true ->
  forallb (wfg go_HostAddress) (map inj_addr l) = true.
Proof.
  induction l as [|[t a] l IH]; [reflexivity|]. cbn [forallb map fst snd]. intros H.
  apply andb_true_iff in H. destruct H as [H1 H2]. apply andb_true_iff in H1. destruct H1 as [H1 _].
  rewrite (IH H2). unfold go_HostAddress, inj_addr, greq. cbn [wfg wfg_fields fst snd].
  unfold int32_ok in H1. rewrite H1. reflexivity.
Qed.

Lemma gbits_ok_0 b : gbits_ok 0 b = true.
Proof. unfold gbits_ok. change (2 ^ 0) with 1. rewrite Z.mod_1_r. destruct b; reflexivity. Qed.

Lemma bits_ok_0 b : bits_ok 0 b = true.
Proof. unfold bits_ok. destruct b; reflexivity. Qed.

Lemma int32_ok_1 : int32_ok 1 = true. Proof. reflexivity. Qed.
Lemma int32_ok_2 : int32_ok 2 = true. Proof. reflexivity. Qed.

Lemma wf_enc_ticket_value et : wf_enc_ticket et = true ->
  wf_val rfc_EncTicketPart (inject_enc_ticket et) = true /\ wfg go_EncTicketPart (inject_enc_ticket et) = true.
Proof.
  destruct et as [fl kt kv cr cn st en ca]. unfold wf_enc_ticket, inject_enc_ticket.
  cbn [et_flags et_keytype et_key et_crealm et_cname et_start et_end et_caddr]. intros H.
  repeat rewrite andb_true_iff in H. destruct H as (((((((Hfl & Hkt) & Hkv) & Hcr) & Hcn) & Hst) & Hen) & Hca).
  split.
  - unfold rfc_EncTicketPart, rfc_EncryptionKey, rfc_TransitedEncoding, rfc_HostAddresses, req, opt.
    cbn [wf_val wf_fields]. rewrite bits_ok_0, Hfl, Hkv, Hcr, Hen, (wf_val_pname 1 cn Hcn).
    destruct st as [s|]; [rewrite Hst|]; (destruct ca as [|a ca]; [reflexivity|]);
      cbn [wf_val]; rewrite (wf_val_addrs (a :: ca) Hca); reflexivity.
  - unfold go_EncTicketPart, go_EncryptionKey, go_TransitedEncoding, greq, gopt.
    cbn [wfg wfg_fields]. rewrite gbits_ok_0, Hen, (wfg_pname 1 cn int32_ok_1).
    unfold int32_ok in Hkt. rewrite Hkt.
    destruct st as [s|]; [rewrite Hst|]; (destruct ca as [|a ca]; [reflexivity|]);
      cbn [wfg]; rewrite (wfg_addrs (a :: ca) Hca); reflexivity.
Qed.

Lemma wf_authenticator_value au : wf_authenticator au = true ->
  wf_val rfc_Authenticator (inject_authenticator au) = true /\ wfg go_Authenticator (inject_authenticator au) = true.
Proof.
  destruct au as [cr cn ct cu]. unfold wf_authenticator, inject_authenticator.
  cbn [au_crealm au_cname au_ctime au_cusec]. intros H.
  repeat rewrite andb_true_iff in H. destruct H as ((((Hcr & Hcn) & Hcu) & Hct) & _).
  split.
  - unfold rfc_Authenticator, req, opt. cbn [wf_val wf_fields]. rewrite Hcr, Hct, (wf_val_pname 1 cn Hcn). reflexivity.
  - unfold go_Authenticator, greq, gopt. cbn [wfg wfg_fields]. rewrite Hct, (wfg_pname 1 cn int32_ok_1).
    unfold int64_ok in Hcu. rewrite Hcu. reflexivity.
Qed.

(* THE ROUND TRIPS of the two decoders: every well-formed sealed content, DER-encoded with the RFC 4120 type and
   followed by anything (zero padding of des3, garbage), is decoded to itself *)
Theorem dec_ticket_der_encode et pt rest :
  wf_enc_ticket et = true -> encode rfc_EncTicketPart (inject_enc_ticket et) = Some pt -> zlen pt < 2 ^ 31 ->
  dec_ticket_der (pt ++ rest) = Some et.
Proof.
  intros Hw He Hl. destruct (wf_enc_ticket_value et Hw) as [_ Hg].
  rewrite (dec_ticket_der_value _ _ _ Hg He Hl). apply proj_inject_enc_ticket.
Qed.

Theorem dec_auth_der_encode au pt rest :
  wf_authenticator au = true -> encode rfc_Authenticator (inject_authenticator au) = Some pt -> zlen pt < 2 ^ 31 ->
  dec_auth_der (pt ++ rest) = Some au.
Proof.
  intros Hw He Hl. destruct (wf_authenticator_value au Hw) as [_ Hg].
  rewrite (dec_auth_der_value _ _ _ Hg He Hl). apply proj_inject_authenticator.
  unfold wf_authenticator in Hw. apply andb_true_iff in Hw. apply Hw.
Qed.

(* the encodings exist *)
Lemma encode_enc_ticket_total et : wf_enc_ticket et = true ->
  exists pt, encode rfc_EncTicketPart (inject_enc_ticket et) = Some pt.
Proof. intros H. apply encode_total, (wf_enc_ticket_value et H). Qed.

Lemma encode_authenticator_total au : wf_authenticator au = true ->
  exists pt, encode rfc_Authenticator (inject_authenticator au) = Some pt.
Proof. intros H. apply encode_total, (wf_authenticator_value au H). Qed.

(* ---------- the envelope: AP-REQ and Ticket on the wire ---------- *)
Definition ticket_fields_val (tk : ticket) : list (option value) :=
  [Some (VInt 5); Some (VBytes (tk_realm tk)); Some (inj_pname 2 (tk_sname tk));
   Some (inj_encdata (tk_etype tk) (tk_kvno tk) (tk_cipher tk))].

(* the wire form of a Ticket, optionally with an UNSEALED EncTicketPart SEQUENCE after enc-part *)
Definition ticket_wire (tk : ticket) (tr : option value) : bytes :=
  tlv (ident 1 true 1)
      (tlv id_seq (enc_fields enc (erase_fields go_Ticket_fields) (ticket_fields_val tk)
                   ++ trailer_bytes go_EncTicketPart tr)).

(* the wire form of an AP-REQ around ticket octets tb *)
Definition apreq_wire (tb : bytes) (aet : Z) (ac : bytes) : bytes :=
  enc env_APReq (VSeq [Some (VInt 5); Some (VInt 14); Some (VBits 0 [0; 0; 0; 0]); Some (VBytes tb);
                       Some (inj_encdata aet 0 ac)]).

Lemma ticket_wire_none tk : ticket_wire tk None = enc rfc_Ticket (inject_ticket tk).
Proof. unfold ticket_wire. cbn [trailer_bytes]. rewrite app_nil_r. reflexivity. Qed.

(* without a trailer this is the RFC 4120 encoding of the AP-REQ *)
Lemma apreq_wire_rfc tk aet ac : apreq_wire (ticket_wire tk None) aet ac = enc rfc_APReq (inject_apreq tk aet ac).
Proof. rewrite ticket_wire_none. reflexivity. Qed.

Lemma wf_ticket_fields tk aet ac : wf_apreq tk aet ac = true ->
  wfg_fields wfg go_Ticket_fields (ticket_fields_val tk) = true /\ wfg go_EncryptedData (inj_encdata aet 0 ac) = true.
Proof.
  destruct tk as [re sn et kv c]. unfold wf_apreq, ticket_fields_val.
  cbn [tk_realm tk_sname tk_etype tk_kvno tk_cipher]. intros H.
  repeat rewrite andb_true_iff in H. destruct H as ((((((Hre & Hsn) & Het) & Hkv) & Hc) & Haet) & Hac).
  unfold int32_ok, int64_ok in *. split.
  - unfold go_Ticket_fields, go_EncryptedData, inj_encdata, greq, gopt. cbn [wfg_fields wfg].
    rewrite (wfg_pname 2 sn int32_ok_2), Het. destruct (kv =? 0); [reflexivity | rewrite Hkv; reflexivity].
  - unfold go_EncryptedData, inj_encdata, greq, gopt. cbn [wfg_fields wfg Z.eqb]. rewrite Haet. reflexivity.
Qed.

Lemma proj_ticket_fields tk tr : proj_ticket (VSeq (ticket_fields_val tk ++ [tr])) = Some tk.
Proof. exact (proj_inject_ticket tk tr). Qed.

(* Ticket.Unmarshal on the wire form, with or without the unsealed trailer *)
Lemma unmarshal_ticket_wire tk aet ac tr rest :
  wf_apreq tk aet ac = true -> (match tr with Some tv => wfg go_EncTicketPart tv = true | None => True end) ->
  zlen (ticket_wire tk tr) < 2 ^ 31 ->
  unmarshal_app 1 go_Ticket (ticket_wire tk tr ++ rest) = Some (VSeq (ticket_fields_val tk ++ [tr])).
Proof.
  intros Hwf Htr Hlen. destruct (wf_ticket_fields tk aet ac Hwf) as [Hf _]. destruct gok_Ticket_fields as [Hok He].
  unfold unmarshal_app, ticket_wire in *.
  match goal with |- context [gfield_dec ?d 1 (Some 1) false go_Ticket ?b] => change d with (D (S (length b))) end.
  set (body := tlv id_seq (enc_fields enc (erase_fields go_Ticket_fields) (ticket_fields_val tk) ++ trailer_bytes go_EncTicketPart tr)) in *.
  assert (Hfit : fits31 (S (length (tlv (ident 1 true 1) body ++ rest))) (tlv (ident 1 true 1) body)).
  { split; [exact Hlen|]. unfold zlen. rewrite app_length. lia. }
  rewrite (gfield_explicit_gen _ 1 1 false go_Ticket (VSeq (ticket_fields_val tk ++ [tr])) body rest); auto.
  - discriminate.
  - unfold body. apply tlv_nonempty.
  - unfold body, go_Ticket. apply grt_trailer; auto using gok_EncTicketPart.
    + discriminate.
    + apply fits31_tlv in Hfit. exact Hfit.
Qed.

Lemma raw_ok_ticket_wire tk tr : zlen (ticket_wire tk tr) < 2 ^ 31 ->
  match parse_tlv (ticket_wire tk tr) with Some (_, _, []) => true | _ => false end = true.
Proof.
  intros H. unfold ticket_wire in *. rewrite <- (app_nil_r (tlv (ident 1 true 1) _)).
  rewrite parse_tlv_tlv; [reflexivity | vm_compute; discriminate |].
  match goal with |- zlen ?b < _ => pose proof (zlen_tlv (ident 1 true 1) b) end. lia.
Qed.

Lemma zlen_ticket_in_apreq tb aet ac : zlen tb < zlen (apreq_wire tb aet ac).
Proof.
  unfold apreq_wire, env_APReq, req. cbn [enc enc_fields wrap_tag].
  match goal with |- _ < zlen (tlv ?a (tlv ?s (?f0 ++ ?f1 ++ ?f2 ++ tlv ?t tb ++ ?f4))) =>
    pose proof (zlen_tlv a (tlv s (f0 ++ f1 ++ f2 ++ tlv t tb ++ f4)));
    pose proof (zlen_tlv s (f0 ++ f1 ++ f2 ++ tlv t tb ++ f4));
    pose proof (zlen_tlv t tb);
    pose proof (zlen_nonneg f0); pose proof (zlen_nonneg f1); pose proof (zlen_nonneg f2); pose proof (zlen_nonneg f4);
    rewrite !zlen_app in *
  end.
  lia.
Qed.

Lemma wfg_envelope tk tr aet ac : wf_apreq tk aet ac = true -> zlen (ticket_wire tk tr) < 2 ^ 31 ->
  wfg go_marshalAPReq (VSeq [Some (VInt 5); Some (VInt 14); Some (VBits 0 [0; 0; 0; 0]);
                             Some (VBytes (ticket_wire tk tr)); Some (inj_encdata aet 0 ac)]) = true.
Proof.
  intros Hwf Hl. destruct (wf_ticket_fields tk aet ac Hwf) as [_ He].
  unfold go_marshalAPReq, greq. cbn [wfg wfg_fields]. rewrite He, (raw_ok_ticket_wire tk tr Hl). reflexivity.
Qed.

(* APReq.Unmarshal on the wire form: the cleartext ticket, the authenticator's etype and cipher — with or without
   an unsealed trailer inside the ticket, whatever follows the message *)
Theorem parse_apreq_wire tk aet ac tr rest :
  wf_apreq tk aet ac = true -> (match tr with Some tv => wfg go_EncTicketPart tv = true | None => True end) ->
  zlen (apreq_wire (ticket_wire tk tr) aet ac) < 2 ^ 31 ->
  parse_apreq (apreq_wire (ticket_wire tk tr) aet ac ++ rest) = Some (tk, aet, ac).
Proof.
  intros Hwf Htr Hlen.
  assert (Hlt : zlen (ticket_wire tk tr) < 2 ^ 31) by (pose proof (zlen_ticket_in_apreq (ticket_wire tk tr) aet ac); lia).
  unfold parse_apreq, apreq_wire in *. rewrite <- erase_marshalAPReq in *.
  rewrite unmarshal_app_enc; auto using gok_marshalAPReq, wfg_envelope; [|discriminate].
  cbn [obind rfld fld nth_error v_int v_bytes]. change (negb (14 =? msg_type_ap_req)) with false. cbn iota.
  rewrite <- (app_nil_r (ticket_wire tk tr)).
  rewrite (unmarshal_ticket_wire tk aet ac tr []); auto. cbn [obind].
  rewrite proj_ticket_fields. cbn [obind]. rewrite p_encdata_inj. reflexivity.
Qed.

(* ... in particular on the RFC 4120 DER encoding of a well-formed AP-REQ *)
Theorem parse_apreq_encode tk aet ac wire rest :
  wf_apreq tk aet ac = true -> encode rfc_APReq (inject_apreq tk aet ac) = Some wire -> zlen wire < 2 ^ 31 ->
  parse_apreq (wire ++ rest) = Some (tk, aet, ac).
Proof.
  intros Hwf He Hl. apply encode_some in He. destruct He as [_ ->]. rewrite <- apreq_wire_rfc in *.
  apply (parse_apreq_wire tk aet ac None); auto.
Qed.

Lemma wf_val_encdata et kv c : wf_bytesb c = true -> wf_val rfc_EncryptedData (inj_encdata et kv c) = true.
Proof.
  intros H. unfold rfc_EncryptedData, inj_encdata, req, opt. cbn [wf_val wf_fields]. rewrite H.
  destruct (kv =? 0); reflexivity.
Qed.

Lemma wf_apreq_value tk aet ac : wf_apreq tk aet ac = true -> wf_val rfc_APReq (inject_apreq tk aet ac) = true.
Proof.
  destruct tk as [re sn et kv c]. unfold wf_apreq, inject_apreq, inject_ticket.
  cbn [tk_realm tk_sname tk_etype tk_kvno tk_cipher]. intros H.
  repeat rewrite andb_true_iff in H. destruct H as ((((((Hre & Hsn) & Het) & Hkv) & Hc) & Haet) & Hac).
  unfold rfc_APReq, rfc_Ticket, req. cbn [wf_val wf_fields].
  rewrite Hre, (wf_val_pname 2 sn Hsn), (wf_val_encdata et kv c Hc), (wf_val_encdata aet 0 ac Hac). reflexivity.
Qed.

Lemma encode_apreq_total tk aet ac : wf_apreq tk aet ac = true ->
  exists wire, encode rfc_APReq (inject_apreq tk aet ac) = Some wire.
Proof. intros H. apply encode_total, (wf_apreq_value _ _ _ H). Qed.

(* ---------- the verdict ---------- *)
(* verify_apreq consults the two decoders only on the plaintexts that decryption returns *)
Lemma verify_apreq_decoders_ext dt dt' da da' st kt t rc tk aet ac :
  (forall kv ktype kvno pt,
     get_key kt (match st_override st with Some o => o | None => tk_sname tk end)
             (tk_realm tk) (tk_kvno tk) (tk_etype tk) = Ok (kv, ktype, kvno) ->
     decrypt ktype kv 2 (tk_cipher tk) = Ok pt -> dt pt = dt' pt) ->
  (forall et apt, decrypt (et_keytype et) (et_key et) (auth_usage (tk_sname tk)) ac = Ok apt -> da apt = da' apt) ->
  verify_apreq dt da st kt t rc tk aet ac = verify_apreq dt' da' st kt t rc tk aet ac.
Proof.
  intros Ht Ha. unfold verify_apreq.
  destruct (get_key kt _ (tk_realm tk) (tk_kvno tk) (tk_etype tk)) as [[[kv ktype] kvno]| |] eqn:Ek; try reflexivity.
  destruct (decrypt ktype kv 2 (tk_cipher tk)) as [pt| |] eqn:Ed; try reflexivity.
  rewrite (Ht kv ktype kvno pt eq_refl Ed). destruct (dt' pt) as [et|]; [|reflexivity].
  destruct (decrypt (et_keytype et) (et_key et) (auth_usage (tk_sname tk)) ac) as [apt| |] eqn:Ea; try reflexivity.
  rewrite (Ha et apt Ea). reflexivity.
Qed.

(* THE REFINEMENT: on the wire bytes of a well-formed AP-REQ (RFC 4120 DER, anything after it), if what the ticket
   decrypts to decodes to et and what the authenticator decrypts to decodes to au, the bytes-mode verdict and replay
   cache are those of the sealed-content model C01's theorems are about. *)
Theorem verify_apreq_bytes_refines st kt t rc tk aet ac wire rest et au :
  wf_apreq tk aet ac = true -> encode rfc_APReq (inject_apreq tk aet ac) = Some wire -> zlen wire < 2 ^ 31 ->
  (forall kv ktype kvno pt,
     get_key kt (match st_override st with Some o => o | None => tk_sname tk end)
             (tk_realm tk) (tk_kvno tk) (tk_etype tk) = Ok (kv, ktype, kvno) ->
     decrypt ktype kv 2 (tk_cipher tk) = Ok pt -> dec_ticket_der pt = Some et) ->
  (forall apt, decrypt (et_keytype et) (et_key et) (auth_usage (tk_sname tk)) ac = Ok apt -> dec_auth_der apt = Some au) ->
  verify_apreq_bytes st kt t rc (wire ++ rest) =
  verify_apreq (fun _ => Some et) (fun _ => Some au) st kt t rc tk aet ac.
Proof.
  intros Hwf He Hl Ht Ha. unfold verify_apreq_bytes. rewrite (parse_apreq_encode tk aet ac wire rest Hwf He Hl).
  unfold verify_apreq.
  destruct (get_key kt _ (tk_realm tk) (tk_kvno tk) (tk_etype tk)) as [[[kv ktype] kvno]| |] eqn:Ek; try reflexivity.
  destruct (decrypt ktype kv 2 (tk_cipher tk)) as [pt| |] eqn:Ed; try reflexivity.
  rewrite (Ht kv ktype kvno pt eq_refl Ed).
  destruct (decrypt (et_keytype et) (et_key et) (auth_usage (tk_sname tk)) ac) as [apt| |] eqn:Ea; try reflexivity.
  rewrite (Ha apt eq_refl). reflexivity.
Qed.

(* the same with the hypotheses on the decoders discharged by the round-trip theorems: the two plaintexts are the
   RFC 4120 DER encodings of et and au, each followed by anything (padding) *)
Corollary verify_apreq_bytes_refines_der st kt t rc tk aet ac wire rest et au ept pad apt0 apad :
  wf_apreq tk aet ac = true -> encode rfc_APReq (inject_apreq tk aet ac) = Some wire -> zlen wire < 2 ^ 31 ->
  wf_enc_ticket et = true -> encode rfc_EncTicketPart (inject_enc_ticket et) = Some ept -> zlen ept < 2 ^ 31 ->
  wf_authenticator au = true -> encode rfc_Authenticator (inject_authenticator au) = Some apt0 -> zlen apt0 < 2 ^ 31 ->
  (forall kv ktype kvno pt,
     get_key kt (match st_override st with Some o => o | None => tk_sname tk end)
             (tk_realm tk) (tk_kvno tk) (tk_etype tk) = Ok (kv, ktype, kvno) ->
     decrypt ktype kv 2 (tk_cipher tk) = Ok pt -> pt = ept ++ pad) ->
  (forall apt, decrypt (et_keytype et) (et_key et) (auth_usage (tk_sname tk)) ac = Ok apt -> apt = apt0 ++ apad) ->
  verify_apreq_bytes st kt t rc (wire ++ rest) =
  verify_apreq (fun _ => Some et) (fun _ => Some au) st kt t rc tk aet ac.
Proof.
  intros Hwf He Hl Hwt Het Hlt Hwa Hea Hla Ht Ha.
  apply verify_apreq_bytes_refines; auto.
  - intros kv ktype kvno pt Ek Ed. rewrite (Ht kv ktype kvno pt Ek Ed). apply dec_ticket_der_encode; assumption.
  - intros apt Ea. rewrite (Ha apt Ea). apply dec_auth_der_encode; assumption.
Qed.

(* NOTHING UNSEALED COUNTS: a well-formed plaintext EncTicketPart carried after enc-part (it fills
   Ticket.DecryptedEncPart at Unmarshal) changes neither what is parsed nor the verdict nor the replay cache *)
Theorem unsealed_trailer_ignored st kt t rc tk aet ac tv rest :
  wf_apreq tk aet ac = true -> wfg go_EncTicketPart tv = true ->
  zlen (apreq_wire (ticket_wire tk (Some tv)) aet ac) < 2 ^ 31 ->
  zlen (apreq_wire (ticket_wire tk None) aet ac) < 2 ^ 31 ->
  parse_apreq (apreq_wire (ticket_wire tk (Some tv)) aet ac ++ rest) =
  parse_apreq (apreq_wire (ticket_wire tk None) aet ac ++ rest)
  /\ verify_apreq_bytes st kt t rc (apreq_wire (ticket_wire tk (Some tv)) aet ac ++ rest) =
     verify_apreq_bytes st kt t rc (apreq_wire (ticket_wire tk None) aet ac ++ rest).
Proof.
  intros Hwf Htv H1 H0.
  assert (E : parse_apreq (apreq_wire (ticket_wire tk (Some tv)) aet ac ++ rest) =
              parse_apreq (apreq_wire (ticket_wire tk None) aet ac ++ rest)).
  { rewrite (parse_apreq_wire tk aet ac (Some tv) rest Hwf Htv H1).
    rewrite (parse_apreq_wire tk aet ac None rest Hwf I H0). reflexivity. }
  split; [exact E|]. unfold verify_apreq_bytes. rewrite E. reflexivity.
Qed.

(* ---------- totality ---------- *)
(* a wire that does not parse is rejected (never a panic), the replay cache is untouched *)
Theorem parse_failure_rejects st kt t rc wire :
  parse_apreq wire = None -> verify_apreq_bytes st kt t rc wire = (Reject reject_unparsable, rc).
Proof. intros H. unfold verify_apreq_bytes. rewrite H. reflexivity. Qed.

(* no wire input makes the acceptor panic: decoding is total and the decision core never crashes *)
Theorem verify_apreq_bytes_total st kt t rc wire : fst (verify_apreq_bytes st kt t rc wire) <> Crash.
Proof.
  unfold verify_apreq_bytes. destruct (parse_apreq wire) as [[[tk aet] ac]|]; [apply apreq_total | discriminate].
Qed.

(* acceptance from bytes, in terms of the RFC 4120 3.2.3 conjunction of C01 *)
Theorem verify_apreq_bytes_accept_iff st kt t rc wire id rc' :
  verify_apreq_bytes st kt t rc wire = (Accept id, rc') <->
  exists tk aet ac, parse_apreq wire = Some (tk, aet, ac) /\
                    rfc_valid dec_ticket_der dec_auth_der st kt t rc tk ac id rc'.
Proof.
  unfold verify_apreq_bytes. destruct (parse_apreq wire) as [[[tk aet] ac]|]; split.
  - intros H. exists tk, aet, ac. split; [reflexivity|]. apply (apreq_accept_iff dec_ticket_der dec_auth_der) in H. exact H.
  - intros (tk' & aet' & ac' & E & H). inversion E; subst. apply (apreq_accept_iff dec_ticket_der dec_auth_der). exact H.
  - discriminate.
  - intros (tk' & aet' & ac' & E & _). discriminate.
Qed.

(* a rejected wire leaves the replay cache as it was *)
Theorem verify_apreq_bytes_reject_keeps_cache st kt t rc wire o rc' :
  verify_apreq_bytes st kt t rc wire = (o, rc') -> (forall id, o <> Accept id) -> rc' = rc.
Proof.
  unfold verify_apreq_bytes. destruct (parse_apreq wire) as [[[tk aet] ac]|].
  - apply apreq_reject_keeps_cache.
  - intros H _. inversion H. reflexivity.
Qed.

(* ---------- examples: the hypotheses are satisfiable, on a request that is really sealed (rc4-hmac) ---------- *)
Definition ex_user : bytes := [117; 115; 101; 114].
Definition ex_realm : bytes := [69; 88; 65; 77; 80; 76; 69; 46; 67; 79; 77].
Definition ex_session : bytes := [1; 2; 3; 4; 5; 6; 7; 8; 9; 10; 11; 12; 13; 14; 15; 16].
Definition ex_svc_key : bytes := [16; 15; 14; 13; 12; 11; 10; 9; 8; 7; 6; 5; 4; 3; 2; 1].
Definition ex_conf : bytes := [9; 8; 7; 6; 5; 4; 3; 2].
Definition ex_sname : list bytes := [[72; 84; 84; 80]; [104; 111; 115; 116]].
Definition ex_et : enc_ticket :=
  mkEncTicket [64; 128; 0; 0] 23 ex_session ex_realm [ex_user] (Some 1700000000) 1700036000 [(2, [10; 1; 2; 3])].
Definition ex_au : authenticator := mkAuthenticator ex_realm [ex_user] 1700000100 123456.
Definition opt_get {A} (d : A) (o : option A) : A := match o with Some a => a | None => d end.
Definition res_get (r : res bytes) : bytes := match r with Ok b => b | _ => [] end.
Definition ex_pt : bytes := opt_get [] (encode rfc_EncTicketPart (inject_enc_ticket ex_et)).
Definition ex_apt : bytes := opt_get [] (encode rfc_Authenticator (inject_authenticator ex_au)).
Definition ex_tk : ticket := mkTicket ex_realm ex_sname 23 3 (res_get (encrypt_with 23 ex_svc_key 2 ex_conf ex_pt)).
Definition ex_ac : bytes := res_get (encrypt_with 23 ex_session 11 ex_conf ex_apt).
Definition ex_wire : bytes := opt_get [] (encode rfc_APReq (inject_apreq ex_tk 23 ex_ac)).
Definition ex_kt : list entry := [mkEntry (mkPrincipal 2 ex_realm ex_sname 1) 0 3 23 ex_svc_key 3].
Definition ex_st : settings := mkSettings 300000000 false (2, [10; 1; 2; 3]) None.
Definition ex_now : Z := 1700000101 * 1000000.
(* a complete foreign EncTicketPart: INVALID flag, other client, other realm, other key, expired in 1970 *)
Definition ex_evil : value :=
  inject_enc_ticket (mkEncTicket [65; 0; 0; 0] 18 [9; 9] [69; 86; 73; 76] [[114; 111; 111; 116]] None 5 []).

Example ex_wellformed :
  (wf_enc_ticket ex_et, wf_authenticator ex_au, wf_apreq ex_tk 23 ex_ac, wfg go_EncTicketPart ex_evil) = (true, true, true, true).
Proof. vm_compute. reflexivity. Qed.

Example ex_encodings :
  encode rfc_EncTicketPart (inject_enc_ticket ex_et) = Some ex_pt /\
  encode rfc_Authenticator (inject_authenticator ex_au) = Some ex_apt /\
  encode rfc_APReq (inject_apreq ex_tk 23 ex_ac) = Some ex_wire /\ zlen ex_wire = 403.
Proof. vm_compute. auto. Qed.

(* the decoders on the sealed contents, with des3-style zero padding / junk behind them *)
Example ex_decoders :
  dec_ticket_der (ex_pt ++ [0; 0; 0; 0]) = Some ex_et /\ dec_auth_der (ex_apt ++ [222; 173]) = Some ex_au.
Proof. vm_compute. auto. Qed.

(* the hypotheses of verify_apreq_bytes_refines hold: the ciphers decrypt to those plaintexts *)
Example ex_sealed :
  decrypt 23 ex_svc_key 2 (tk_cipher ex_tk) = Ok ex_pt /\ decrypt 23 ex_session 11 ex_ac = Ok ex_apt.
Proof. vm_compute. auto. Qed.

(* and the request is accepted from its bytes, with the sealed identity, exactly as the sealed-content model says *)
Example ex_accepted :
  verify_apreq_bytes ex_st ex_kt ex_now [] (ex_wire ++ [0; 0]) =
  (Accept (mkIdentity ex_user ex_realm [ex_user] 1700036000), [mkAuth ex_user 1700000100123456 ex_sname])
  /\ verify_apreq_bytes ex_st ex_kt ex_now [] (ex_wire ++ [0; 0]) =
     verify_apreq (fun _ => Some ex_et) (fun _ => Some ex_au) ex_st ex_kt ex_now [] ex_tk 23 ex_ac.
Proof. vm_compute. auto. Qed.

(* the same ticket with the foreign EncTicketPart appended in clear: parsed the same, decided the same *)
Example ex_trailer :
  apreq_wire (ticket_wire ex_tk None) 23 ex_ac = ex_wire /\
  apreq_wire (ticket_wire ex_tk (Some ex_evil)) 23 ex_ac <> ex_wire /\
  parse_apreq (apreq_wire (ticket_wire ex_tk (Some ex_evil)) 23 ex_ac) = Some (ex_tk, 23, ex_ac) /\
  verify_apreq_bytes ex_st ex_kt ex_now [] (apreq_wire (ticket_wire ex_tk (Some ex_evil)) 23 ex_ac) =
  verify_apreq_bytes ex_st ex_kt ex_now [] ex_wire.
Proof. vm_compute. repeat split; auto. discriminate. Qed.

(* what does not parse is rejected with the code of parse_failure_rejects: truncation, wrong msg-type, wrong tag *)
Example ex_unparsable :
  verify_apreq_bytes ex_st ex_kt ex_now [] (firstn 402 ex_wire) = (Reject reject_unparsable, []) /\
  parse_apreq (110 :: skipn 1 ex_wire) = Some (ex_tk, 23, ex_ac) /\ parse_apreq (111 :: skipn 1 ex_wire) = None.
Proof. vm_compute. auto. Qed.
