(* Gokrb5.proofs.Krb5ConfParse — the line parsers of krb5.conf (repaired code).
   parse_total            no input makes NewFromScanner index or slice out of range (every Go index / slice
                          expression of the model returns Ok): the nested-block panic and the one-line
                          block panic are gone;
   *_rejected             the structurally invalid shapes the parser detects give an error;
   *_relation_partial     per-line halves of parse (render cfg layout) = cfg: a relation line rendered
                          with any white space, key case and trailing comment has exactly the intended
                          effect (the whole-file round trip is not proved). *)
From Coq Require Import String.
From Gokrb5.lib Require Import Bytes GoString.
From Gokrb5.model Require Import Krb5Conf.
From Gokrb5.proofs Require Import Krb5ConfValues.
Open Scope Z_scope.

Definition no_panic {A} (r : res A) : Prop := is_panic r = false.

Lemma no_panic_bind {A B} (r : res A) (f : A -> res B) :
  no_panic r -> (forall a, r = Ok a -> no_panic (f a)) -> no_panic (bind r f).
Proof. destruct r; cbn; auto. Qed.

Lemma fold_res_inv {A S} (f : S -> A -> res S) (P : S -> Prop) :
  (forall s x, P s -> match f s x with Ok s' => P s' | Err _ => True | Panic _ => False end) ->
  forall l s, P s -> match fold_res f s l with Ok s' => P s' | Err _ => True | Panic _ => False end.
Proof.
  intros H l. induction l as [|x l IH]; intros s Hs; cbn; [exact Hs|].
  specialize (H s x Hs). destruct (f s x) as [s'|e|p]; cbn [bind]; [apply IH; exact H|exact I|contradiction].
Qed.

Lemma map_res_no_panic {A B} (f : A -> res B) l : (forall x, no_panic (f x)) -> no_panic (map_res f l).
Proof.
  intros H. induction l as [|x l IH]; [reflexivity|]. cbn.
  specialize (H x). destruct (f x); cbn in *; try assumption; try reflexivity.
  destruct (map_res f l); cbn in *; auto.
Qed.

Lemma map_res_length {A B} (f : A -> res B) l r : map_res f l = Ok r -> length r = length l.
Proof.
  revert r; induction l as [|x l IH]; intros r; cbn; [intros H; inversion H; reflexivity|].
  destruct (f x); cbn; try discriminate. destruct (map_res f l); cbn; try discriminate.
  intros H; inversion H; subst. cbn. now rewrite (IH _ eq_refl).
Qed.

Lemma split_byte_nonempty c s : exists h t, split_byte c s = h :: t.
Proof.
  induction s as [|x s (h & t & E)]; cbn; [eauto|].
  destruct (x =? c); [eauto|]. rewrite E. eauto.
Qed.

Lemma split_byte_two c s : contains_byte c s = true -> exists a b t, split_byte c s = a :: b :: t.
Proof.
  intros H. apply contains_byte_in in H.
  destruct (cut c s) as [[a rest]|] eqn:E; [|apply cut_none in E; contradiction].
  destruct (cut_spec _ _ _ _ E) as [-> Hn]. rewrite split_byte_app by exact Hn.
  destruct (split_byte_nonempty c rest) as (h & t & ->). eauto.
Qed.

Lemma gindex_0 {A} site (x : A) l : gindex site (x :: l) 0 = Ok x.
Proof. reflexivity. Qed.
Lemma gindex_1 {A} site (x y : A) l : gindex site (x :: y :: l) 1 = Ok y.
Proof. reflexivity. Qed.
Lemma gindex_2 {A} site (x y z : A) l : gindex site (x :: y :: z :: l) 2 = Ok z.
Proof. reflexivity. Qed.

(* ------------------------------------------------------------------ values *)
Lemma parse_duration_total s : no_panic (parse_duration s).
Proof.
  unfold parse_duration. set (t := remove_byte 32 (trim_space s)).
  destruct (contains_byte 100 t) eqn:Ed.
  - apply contains_byte_in in Ed.
    destruct (cut 100 t) as [[a b]|] eqn:E; [|apply cut_none in E; contradiction].
    change (splitn 100 2 t) with (match cut 100 t with None => [t] | Some (x, y) => x :: splitn 100 1 y end).
    rewrite E. cbn [splitn]. rewrite gindex_0. cbn [bind].
    destruct (parse_uint 32 a); [|reflexivity]. rewrite gindex_1. cbn [bind].
    destruct b; [reflexivity|]. destruct (go_parse_duration (z0 :: b)); reflexivity.
  - destruct (go_parse_duration t); try reflexivity.
    destruct (match parse_uint 32 t with Some v => if 0 <? v then Some v else None | None => None end); [reflexivity|].
    destruct (contains_byte 58 t); [|reflexivity].
    destruct ((zlen (split_byte 58 t) <? 2) || (3 <? zlen (split_byte 58 t))) eqn:El; [reflexivity|].
    apply orb_false_iff in El. destruct El as [L2 L3]. apply Z.ltb_ge in L2, L3.
    destruct (map_res _ (split_byte 58 t)) as [i| |] eqn:Em; try reflexivity.
    + pose proof (map_res_length _ _ _ Em) as Hlen. unfold zlen in L2, L3.
      destruct i as [|i0 [|i1 [|i2 [|i3 i]]]]; cbn in Hlen; try lia.
      * cbn [bind]. rewrite gindex_0, gindex_1. cbn [bind]. change (zlen [i0; i1] =? 3) with false. reflexivity.
      * cbn [bind]. rewrite gindex_0, gindex_1. cbn [bind]. change (zlen [i0; i1; i2] =? 3) with true.
        rewrite gindex_2. reflexivity.
    + exfalso. assert (no_panic (map_res (fun n => match parse_int 16 n with Some j => Ok j | None => Err invalid end) (split_byte 58 t))) as N
        by (apply map_res_no_panic; intros x; destruct (parse_int 16 x); reflexivity).
      rewrite Em in N. discriminate.
Qed.

Lemma parse_val_total k p1 : no_panic (parse_val k p1).
Proof.
  destruct k; cbn [parse_val].
  - unfold parse_boolean. destruct (parse_bool_go _); [reflexivity|].
    destruct (_ || _); [reflexivity|]. destruct (_ || _); reflexivity.
  - pose proof (parse_duration_total p1) as H. destruct (parse_duration p1); cbn in *; auto.
  - reflexivity.
  - reflexivity.
  - destruct ((if unsigned then parse_uint 32 else parse_int 32) (trim_space p1)); [|reflexivity].
    destruct (_ && _); reflexivity.
  - destruct (hex_decode _); reflexivity.
  - assert (no_panic (map_res (fun s => match parse_int 32 (trim_space s) with Some i => Ok i | None => Err invalid end)
                              (split_byte 44 (trim_space p1)))) as N
      by (apply map_res_no_panic; intros x; destruct (parse_int 32 (trim_space x)); reflexivity).
    destruct (map_res _ _); cbn in *; auto.
  - reflexivity.
Qed.

(* ------------------------------------------------------------------ [libdefaults] *)
Lemma ld_line_total l line : no_panic (ld_line l line).
Proof.
  unfold ld_line. set (t := trim_space (strip_comment line)).
  destruct (is_nil t); [reflexivity|].
  destruct (contains_byte 61 t) eqn:E; [|reflexivity]. cbn [negb].
  destruct (split_byte_two 61 t E) as (a & b & r & ->). rewrite gindex_0. cbn [bind].
  destruct (lookup _ ld_keys) as [k|]; [|reflexivity]. rewrite gindex_1. cbn [bind].
  pose proof (parse_val_total k b) as H. destruct (parse_val k b) as [[v|]| |]; cbn in *; auto.
Qed.

Lemma fold_res_total {A S} (f : S -> A -> res S) : (forall s x, no_panic (f s x)) ->
  forall l s, no_panic (fold_res f s l).
Proof.
  intros H l s. pose proof (fold_res_inv f (fun _ => True)) as K.
  specialize (K ltac:(intros s0 x _; specialize (H s0 x); destruct (f s0 x); cbn in *; auto; discriminate) l s I).
  destruct (fold_res f s l); [reflexivity|reflexivity|contradiction].
Qed.

Lemma ld_parse_total l lines : no_panic (ld_parse_lines l lines).
Proof. apply fold_res_total, ld_line_total. Qed.

(* ------------------------------------------------------------------ [domain_realm] *)
Lemma dr_line_total d line : no_panic (dr_line d line).
Proof.
  unfold dr_line. set (t := strip_comment line).
  destruct (is_nil (trim_space t)); [reflexivity|].
  destruct (contains_byte 61 t) eqn:E; [|reflexivity]. cbn [negb].
  destruct (split_byte_two 61 t E) as (a & b & r & ->). reflexivity.
Qed.

Lemma dr_parse_total d lines : no_panic (dr_parse_lines d lines).
Proof. apply fold_res_total, dr_line_total. Qed.

(* ------------------------------------------------------------------ a realm block *)
(* inside a nested block (depth > 0) the parser is ignoring *)
Definition rinv (st : rstate) : Prop := 0 <= rs_c st /\ (0 < rs_c st -> rs_ignore st = true).

Lemma realm_relation_flow st key v :
  rs_ignore (realm_relation st key v) = rs_ignore st /\ rs_c (realm_relation st key v) = rs_c st.
Proof.
  unfold realm_relation.
  repeat match goal with
         | |- context [if ?b then _ else _] => destruct b
         | |- context [let '(_, _) := ?p in _] => destruct p
         end; cbn; auto.
Qed.

Lemma realm_line_inv st l0 : rinv st ->
  match realm_line st l0 with Ok st' => rinv st' | Err _ => True | Panic _ => False end.
Proof.
  intros [Hc Hi]. unfold realm_line.
  destruct (rs_ignore st && (0 <? rs_c st) && negb (contains_byte 123 l0) && negb (contains_byte 125 l0));
    [split; assumption|].
  set (line := trim_space (strip_comment l0)).
  destruct (is_nil line); [split; assumption|].
  set (ign := rs_ignore st || contains S_v4_tag line).
  assert (CloseBoth : 0 <= rs_c st ->
    match (if rs_c st + 1 - 1 <? 0 then Err invalid
           else if ign || true
                then if rs_c st + 1 - 1 <? 1 then Ok (rs_flow st false 0 (rs_v4 st || contains S_v4_tag line))
                     else Ok (rs_flow st (ign || true) (rs_c st + 1 - 1) (rs_v4 st || contains S_v4_tag line))
                else @Err rstate invalid) with
    | Ok st' => rinv st' | Err _ => True | Panic _ => False end).
  { intros _. replace (rs_c st + 1 - 1) with (rs_c st) by lia.
    destruct (Z.ltb_spec (rs_c st) 0); [lia|]. rewrite orb_true_r.
    destruct (Z.ltb_spec (rs_c st) 1); unfold rinv, rs_flow; cbn [rs_c rs_ignore]; (split; [lia|intros; try lia; auto]). }
  destruct (contains_byte 61 line) eqn:Eeq; destruct (contains_byte 125 line) eqn:Ecl;
    destruct (contains_byte 123 line) eqn:Eop; cbn [negb andb orb].
  - (* = } { *)
    specialize (CloseBoth Hc). rewrite orb_true_r in *. exact CloseBoth.
  - (* = } *)
    destruct (Z.ltb_spec (rs_c st - 1) 0); [exact I|].
    assert (rs_ignore st = true) as Hig by (apply Hi; lia).
    assert (ign = true) as -> by (unfold ign; now rewrite Hig). cbn [orb].
    destruct (Z.ltb_spec (rs_c st - 1) 1); unfold rinv, rs_flow; cbn [rs_c rs_ignore]; (split; [lia|intros; try lia; auto]).
  - (* = { *)
    unfold rinv, rs_flow; cbn [rs_c rs_ignore]. rewrite orb_true_r. split; [lia|reflexivity].
  - (* = : a relation, or a line inside a nested block *)
    rewrite orb_false_r.
    destruct (ign && (0 <? rs_c st)) eqn:Esk.
    + apply andb_true_iff in Esk. destruct Esk as [Hg _].
      unfold rinv, rs_flow; cbn [rs_c rs_ignore]. auto.
    + destruct (split_byte_two 61 line Eeq) as (a & b & r & ->). rewrite gindex_0, gindex_1. cbn [bind].
      destruct (realm_relation_flow (rs_flow st ign (rs_c st) (rs_v4 st || contains S_v4_tag line))
                                    (trim_space (to_lower a)) (trim_space b)) as [E1 E2].
      unfold rinv. rewrite E1, E2. unfold rs_flow; cbn [rs_c rs_ignore].
      split; [lia|]. intros Hpos.
      apply andb_false_iff in Esk. destruct Esk as [Hg|Hz]; [|apply Z.ltb_ge in Hz; lia].
      unfold ign in Hg. rewrite (Hi Hpos) in Hg. discriminate.
  - (* } { *)
    specialize (CloseBoth Hc). rewrite orb_true_r in *. exact CloseBoth.
  - (* } *)
    destruct (Z.ltb_spec (rs_c st - 1) 0); [exact I|].
    assert (rs_ignore st = true) as Hig by (apply Hi; lia).
    assert (ign = true) as -> by (unfold ign; now rewrite Hig). cbn [orb].
    destruct (Z.ltb_spec (rs_c st - 1) 1); unfold rinv, rs_flow; cbn [rs_c rs_ignore]; (split; [lia|intros; try lia; auto]).
  - exact I.
  - exact I.
Qed.

Lemma kpasswd_default_total r : no_panic (kpasswd_default r).
Proof.
  unfold kpasswd_default. destruct (zlen (r_kpw r) <? 1); [|reflexivity].
  assert (no_panic (map_res (fun a => do h <- gindex 22 (split_byte 58 a) 0; Ok (h ++ S_port464)) (r_admin r))) as N.
  { apply map_res_no_panic. intros x. destruct (split_byte_nonempty 58 x) as (h & t & ->). reflexivity. }
  destruct (map_res _ (r_admin r)); cbn in *; auto.
Qed.

Lemma realm_parse_total name lines : no_panic (realm_parse name lines).
Proof.
  unfold realm_parse.
  pose proof (fold_res_inv realm_line rinv realm_line_inv lines (realm_init name)) as K.
  specialize (K ltac:(split; cbn; [lia|intros; lia])).
  destruct (fold_res realm_line (realm_init name) lines) as [st| |]; [|reflexivity|contradiction].
  cbn [bind]. pose proof (kpasswd_default_total (rs_r st)) as N.
  destruct (kpasswd_default (rs_r st)); cbn in *; auto.
Qed.

(* ------------------------------------------------------------------ [realms] *)
Lemma realms_loop_total all : forall rest i name start c acc v4,
  0 <= start <= i -> i + zlen rest = zlen all ->
  no_panic (realms_loop all rest i name start c acc v4).
Proof.
  induction rest as [|l0 rest IH]; intros i name start c acc v4 Hs Hi; cbn [realms_loop].
  - destruct (c =? 0); reflexivity.
  - rewrite zlen_cons in Hi. pose proof (zlen_nonneg rest) as Hr.
    set (l := trim_space (strip_comment l0)).
    destruct (is_nil l); [apply IH; lia|].
    destruct ((c =? 0) && negb (has_any_of_eq_braces l)); [reflexivity|].
    destruct (contains_byte 123 l) eqn:Eop; cbn [andb].
    + destruct (contains_byte 61 l) eqn:Eeq; cbn [negb]; [|reflexivity].
      destruct (c + 1 =? 1) eqn:E1.
      * destruct (split_byte_nonempty 61 l) as (h & t & ->). rewrite gindex_0. cbn [bind].
        destruct (contains_byte 125 l).
        -- destruct (c + 1 <? 1); [reflexivity|]. destruct (c + 1 - 1 =? 0); [|apply IH; lia].
           rewrite Z.eqb_refl. reflexivity.
        -- apply IH; lia.
      * cbn [bind]. destruct (contains_byte 125 l); [|apply IH; lia].
        destruct (c + 1 <? 1); [reflexivity|]. destruct (c + 1 - 1 =? 0); [|apply IH; lia].
        destruct (Z.eqb_spec start i); [reflexivity|].
        assert (G : exists sub, gslice 31 all (start + 1) i = Ok sub).
        { unfold gslice. destruct (Z.leb_spec 0 (start + 1)); [|lia]. destruct (Z.leb_spec (start + 1) i); [|lia].
          destruct (Z.leb_spec i (zlen all)); [|lia]. cbn. eauto. }
        destruct G as (sub & ->). cbn [bind].
        pose proof (realm_parse_total name sub) as N.
        destruct (realm_parse name sub) as [[r rv4]| |]; cbn [bind]; [apply IH; lia|reflexivity|discriminate N].
    + cbn [bind]. destruct (contains_byte 125 l); [|apply IH; lia].
      destruct (c <? 1); [reflexivity|]. destruct (c - 1 =? 0); [|apply IH; lia].
      destruct (Z.eqb_spec start i); [reflexivity|].
      assert (G : exists sub, gslice 31 all (start + 1) i = Ok sub).
      { unfold gslice. destruct (Z.leb_spec 0 (start + 1)); [|lia]. destruct (Z.leb_spec (start + 1) i); [|lia].
        destruct (Z.leb_spec i (zlen all)); [|lia]. cbn. eauto. }
      destruct G as (sub & ->). cbn [bind].
      pose proof (realm_parse_total name sub) as N.
      destruct (realm_parse name sub) as [[r rv4]| |]; cbn [bind]; [apply IH; lia|reflexivity|discriminate N].
Qed.

Lemma parse_realms_total lines : no_panic (parse_realms lines).
Proof. unfold parse_realms. apply realms_loop_total; lia. Qed.

(* ------------------------------------------------------------------ the whole file *)
(* section starts are line counts taken while the line list grows: lo <= s1 <= s2 <= ... <= n *)
Fixpoint secs_wf (lo : Z) (secs : list (Z * Z)) (n : Z) : Prop :=
  match secs with
  | [] => lo <= n
  | (s, _) :: r => lo <= s /\ secs_wf s r n
  end.

Lemma secs_wf_snoc secs : forall lo n k, secs_wf lo secs n -> secs_wf lo (secs ++ [(n, k)]) n.
Proof.
  induction secs as [|[s k0] r IH]; intros lo n k H; cbn in *; [lia|].
  destruct H as [H1 H2]. split; [exact H1|]. now apply IH.
Qed.

Lemma secs_wf_mono secs : forall lo n n', secs_wf lo secs n -> n <= n' -> secs_wf lo secs n'.
Proof.
  induction secs as [|[s k0] r IH]; intros lo n n' H Hn; cbn in *; [lia|].
  destruct H as [H1 H2]. split; [exact H1|]. eapply IH; eauto.
Qed.

Lemma secs_wf_le secs : forall lo n, secs_wf lo secs n -> lo <= n.
Proof.
  induction secs as [|[s k0] r IH]; intros lo n H; cbn in *; [lia|].
  destruct H as [H1 H2]. specialize (IH _ _ H2). lia.
Qed.

Lemma scan_sections_wf ls : forall lines secs, secs_wf 0 secs (zlen lines) ->
  secs_wf 0 (snd (scan_sections ls lines secs)) (zlen (fst (scan_sections ls lines secs))).
Proof.
  induction ls as [|l r IH]; intros lines secs H; cbn [scan_sections]; [exact H|].
  destruct (re_comment l); [now apply IH|].
  destruct (re_section S_libdefaults l); [apply IH; now apply secs_wf_snoc|].
  destruct (re_section S_realms l); [apply IH; now apply secs_wf_snoc|].
  destruct (re_section S_domain_realm l); [apply IH; now apply secs_wf_snoc|].
  destruct (re_any_section l); [apply IH; now apply secs_wf_snoc|].
  apply IH. apply secs_wf_mono with (n := zlen lines); [exact H|]. rewrite zlen_app, zlen_cons, zlen_nil. lia.
Qed.

Lemma run_sections_total allsecs lines : forall todo lo c,
  0 <= lo -> secs_wf lo todo (zlen lines) -> no_panic (run_sections allsecs todo lines c).
Proof.
  induction todo as [|[start k0] rest IH]; intros lo c Hlo H; cbn [run_sections]; [reflexivity|].
  cbn [secs_wf] in H. destruct H as [H1 H2].
  set (stop := match rest with [] => zlen lines | (s2, _) :: _ => s2 end).
  assert (start <= stop <= zlen lines) as Hst.
  { unfold stop. destruct rest as [|[s2 k2] rest']; cbn [secs_wf] in H2; [lia|].
    destruct H2 as [H3 H4]. pose proof (secs_wf_le _ _ _ H4). lia. }
  assert (G : exists sub, gslice 60 lines start stop = Ok sub).
  { unfold gslice. destruct (Z.leb_spec 0 start); [|lia]. destruct (Z.leb_spec start stop); [|lia].
    destruct (Z.leb_spec stop (zlen lines)); [|lia]. cbn. eauto. }
  destruct G as (sub & ->). cbn [bind].
  destruct (kind_of start allsecs 0 =? 1).
  { pose proof (ld_parse_total (c_ld c) sub) as N. destruct (ld_parse_lines (c_ld c) sub); cbn in *; try assumption; try reflexivity.
    apply IH with (lo := start); [lia|exact H2]. }
  destruct (kind_of start allsecs 0 =? 2).
  { pose proof (parse_realms_total sub) as N. destruct (parse_realms sub) as [[rs v4]| |]; cbn in *; try assumption; try reflexivity.
    apply IH with (lo := start); [lia|exact H2]. }
  destruct (kind_of start allsecs 0 =? 3).
  { pose proof (dr_parse_total (c_dr c) sub) as N. destruct (dr_parse_lines (c_dr c) sub); cbn in *; try assumption; try reflexivity.
    apply IH with (lo := start); [lia|exact H2]. }
  apply IH with (lo := start); [lia|exact H2].
Qed.

(* NewFromScanner never indexes or slices out of range: for every text (and both environment strings) the
   result is a configuration or an error *)
Theorem parse_total : forall client_keytab k5login_dir text,
  is_panic (parse_config client_keytab k5login_dir text) = false.
Proof.
  intros ck kd text. unfold parse_config.
  destruct (negb (is_ascii text) || (max_text <=? zlen text)); [reflexivity|].
  pose proof (scan_sections_wf (scan_lines text) [] [] ltac:(cbn; lia)) as W.
  destruct (scan_sections (scan_lines text) [] []) as [lines secs]. cbn [fst snd] in W.
  apply run_sections_total with (lo := 0); [lia|exact W].
Qed.

(* ------------------------------------------------------------------ structurally invalid shapes *)
(* a non-blank line without '=' in [libdefaults] or [domain_realm] *)
Theorem ld_line_no_equals_rejected : forall l line,
  trim_space (strip_comment line) <> [] -> contains_byte 61 (trim_space (strip_comment line)) = false ->
  ld_line l line = Err invalid.
Proof.
  intros l line Hn He. unfold ld_line. destruct (trim_space (strip_comment line)); [congruence|].
  cbn [is_nil]. now rewrite He.
Qed.

Theorem dr_line_no_equals_rejected : forall d line,
  trim_space (strip_comment line) <> [] -> contains_byte 61 (strip_comment line) = false ->
  dr_line d line = Err invalid.
Proof.
  intros d line Hn He. unfold dr_line. destruct (trim_space (strip_comment line)); [congruence|].
  cbn [is_nil]. now rewrite He.
Qed.

Lemma fold_res_err {A S} (f : S -> A -> res S) a x b s e :
  (forall s', f s' x = Err e) -> no_panic (fold_res f s a) ->
  fold_res f s (a ++ x :: b) = Err e \/ exists e', fold_res f s (a ++ x :: b) = Err e'.
Proof.
  intros H. revert s. induction a as [|y a IH]; intros s N; cbn.
  - rewrite H. cbn. auto.
  - cbn in N. destruct (f s y); cbn in *; [apply IH; exact N|eauto|discriminate].
Qed.

(* a line without '=' makes the whole [libdefaults] section fail, wherever it stands *)
Theorem ld_section_no_equals_rejected : forall l a line b,
  trim_space (strip_comment line) <> [] -> contains_byte 61 (trim_space (strip_comment line)) = false ->
  is_ok (ld_parse_lines l (a ++ line :: b)) = false.
Proof.
  intros l a line b Hn He. unfold ld_parse_lines.
  destruct (fold_res_err ld_line a line b l invalid
              ltac:(intros; now apply ld_line_no_equals_rejected) (ld_parse_total l a)) as [->|[e' ->]]; reflexivity.
Qed.

(* inside a realm block (top level or nested) a non-blank line with neither '=' nor '}' *)
Theorem realm_line_no_equals_rejected : forall st line,
  (rs_ignore st && (0 <? rs_c st) && negb (contains_byte 123 line) && negb (contains_byte 125 line)) = false ->
  trim_space (strip_comment line) <> [] ->
  contains_byte 61 (trim_space (strip_comment line)) = false ->
  contains_byte 125 (trim_space (strip_comment line)) = false ->
  realm_line st line = Err invalid.
Proof.
  intros st line H0 Hn He Hc. unfold realm_line. rewrite H0.
  destruct (trim_space (strip_comment line)); [congruence|]. cbn [is_nil]. now rewrite He, Hc.
Qed.

(* a closing bracket that closes nothing *)
Theorem realm_line_extra_close_rejected : forall st line,
  rs_c st = 0 -> rs_ignore st = false ->
  contains_byte 125 (trim_space (strip_comment line)) = true ->
  contains_byte 123 (trim_space (strip_comment line)) = false ->
  realm_line st line = Err invalid.
Proof.
  intros st line Hc Hi Hcl Hop. unfold realm_line. rewrite Hc, Hi. cbn [andb].
  destruct (trim_space (strip_comment line)) eqn:E; [discriminate|]. cbn [is_nil].
  rewrite Hcl, Hop. rewrite andb_false_r. cbn [negb andb orb]. reflexivity.
Qed.

(* [realms]: a block that is never closed (fix-4) — whatever follows the opening line, if no line closes
   the block the section is rejected *)
Lemma realms_loop_unterminated all : forall rest i name start c acc v4,
  0 < c ->
  Forall (fun l0 => contains_byte 125 (trim_space (strip_comment l0)) = false) rest ->
  is_ok (realms_loop all rest i name start c acc v4) = false.
Proof.
  induction rest as [|l0 rest IH]; intros i name start c acc v4 Hc H; cbn [realms_loop].
  - destruct (Z.eqb_spec c 0); [lia|reflexivity].
  - inversion H as [|? ? Hl Hr]; subst. set (l := trim_space (strip_comment l0)) in *.
    destruct (is_nil l); [now apply IH|].
    destruct (Z.eqb_spec c 0); [lia|]. cbn [andb].
    destruct (contains_byte 123 l); cbn [andb].
    + destruct (contains_byte 61 l); cbn [negb]; [|reflexivity].
      destruct (c + 1 =? 1).
      * destruct (gindex 30 (split_byte 61 l) 0); cbn [bind]; try reflexivity. rewrite Hl. apply IH; [lia|exact Hr].
      * cbn [bind]. rewrite Hl. apply IH; [lia|exact Hr].
    + cbn [bind]. rewrite Hl. now apply IH.
Qed.

Theorem realms_unterminated_rejected : forall name_line body,
  contains_byte 123 (trim_space (strip_comment name_line)) = true ->
  contains_byte 125 (trim_space (strip_comment name_line)) = false ->
  Forall (fun l0 => contains_byte 125 (trim_space (strip_comment l0)) = false) body ->
  is_ok (parse_realms (name_line :: body)) = false.
Proof.
  intros nl body Hop Hcl Hb. unfold parse_realms. cbn [realms_loop].
  set (l := trim_space (strip_comment nl)) in *.
  destruct (is_nil l) eqn:En; [destruct l; [discriminate Hop|discriminate En]|].
  unfold has_any_of_eq_braces. rewrite Hop. rewrite orb_true_r. cbn [orb negb andb].
  destruct (contains_byte 61 l); cbn [negb]; [|reflexivity].
  change (0 + 1 =? 1) with true. cbn iota.
  destruct (gindex 30 (split_byte 61 l) 0); cbn [bind]; try reflexivity.
  rewrite Hcl. apply realms_loop_unterminated; [lia|exact Hb].
Qed.

(* the invalid shapes of the harness, on concrete text (every one is an error, none a panic) *)
Definition rejected_text (t : string) : Prop :=
  is_ok (parse_config [] [] (bs t)) = false /\ is_panic (parse_config [] [] (bs t)) = false.
Arguments rejected_text t%string.
Notation bad := rejected_text (only parsing).

Example invalid_rejected_examples :
  bad "[libdefaults]
 forwardable
" /\
  bad "[libdefaults]
 forwardable = maybe
" /\
  bad "[libdefaults]
 ticket_lifetime = 1x
" /\
  bad "[realms]
 A.B = {
  kdc = k1
" /\
  bad "[realms]
 A.B = {
  kdc = k1
 }
 }
" /\
  bad "[realms]
 A.B = { kdc = k1 }
" /\
  bad "[realms]
 A.B = {
  kdc k1
 }
" /\
  bad "[realms]
 A.B {
  kdc = k1
 }
" /\
  bad "[realms]
 stray words
 A.B = {
  kdc = k1
 }
" /\
  bad "[realms]
 A.B = {
  auth_to_local_names = {
   x = y
 }
" /\
  bad "[domain_realm]
 .example.com EXAMPLE.COM
".
Proof. unfold rejected_text. repeat split; vm_compute; reflexivity. Qed.

(* the nested block that used to panic: its relations are skipped, the realm is complete *)
Example nested_block_example :
  match parse_config [] [] (bs "[realms]
 A.B = {
  kdc = k1
  auth_to_local_names = {
   kdc = evil
  }
  kdc = k2:750
  admin_server = a1
 }
") with
  | Ok c => c_realms c = [ {| r_name := bs "A.B"; r_admin := [bs "a1"]; r_dd := []; r_kdc := [bs "k1:88"; bs "k2:750"];
                              r_kpw := [bs "a1:464"]; r_mkdc := [] |} ] /\ c_v4 c = false
  | _ => False
  end.
Proof. vm_compute. split; reflexivity. Qed.

(* ------------------------------------------------------------------ per-line halves of parse (render c) = c *)
(* a character of a key or value: not '=', not a comment character *)
Definition plain (c : Z) : bool := negb (c =? 61) && negb (is_comment_char c).

Lemma space_plain c : is_space c = true -> plain c = true /\ lower_byte c = c /\ (c =? 123) = false /\ (c =? 125) = false.
Proof.
  unfold is_space, plain, is_comment_char, lower_byte. rewrite !orb_true_iff, !Z.eqb_eq. intros H.
  assert (c = 9 \/ c = 10 \/ c = 11 \/ c = 12 \/ c = 13 \/ c = 32) as R by tauto. clear H.
  destruct R as [->|[->|[->|[->|[->| ->]]]]]; repeat split; reflexivity.
Qed.

Lemma all_space_plain a : all_space a -> forallb plain a = true.
Proof. unfold all_space. rewrite !forallb_forall. intros H x Hx. now apply space_plain, H. Qed.

Lemma all_space_lower a : all_space a -> to_lower a = a.
Proof.
  unfold all_space, to_lower. induction a as [|c a IH]; [reflexivity|]. cbn. rewrite andb_true_iff. intros [Hc Ha].
  destruct (space_plain c Hc) as (_ & -> & _). now rewrite IH.
Qed.

Lemma plain_no_eq s : forallb plain s = true -> ~ In 61 s.
Proof. rewrite forallb_forall. intros H Hin. specialize (H _ Hin). discriminate. Qed.

Lemma plain_no_comment s : forallb plain s = true -> forallb (fun b => negb (is_comment_char b)) s = true.
Proof.
  rewrite !forallb_forall. intros H x Hx. specialize (H _ Hx). unfold plain in H. now apply andb_true_iff in H.
Qed.

(* the comment part of a line: nothing, or text that starts with '#' or ';' *)
Definition comment_tail (cmt : bytes) : Prop := cmt = [] \/ exists c r, cmt = c :: r /\ is_comment_char c = true.

Definition no_comment_char (s : bytes) : Prop := forallb (fun b => negb (is_comment_char b)) s = true.

Lemma strip_comment_tail s cmt : no_comment_char s -> comment_tail cmt -> strip_comment (s ++ cmt) = s.
Proof.
  intros Hs [->|(c & r & -> & Hc)]; unfold strip_comment.
  - rewrite app_nil_r. apply take_until_all, Hs.
  - apply take_until_app; [apply Hs|exact Hc].
Qed.

Lemma trim_space_drop_left ws s : all_space ws -> trim_space (ws ++ s) = trim_space s.
Proof. intros H. unfold trim_space, trim_left. now rewrite drop_while_app_true. Qed.

Lemma fields_aux_skip p ws s : forallb p ws = true -> fields_aux p (ws ++ s) [] = fields_aux p s [].
Proof.
  induction ws as [|c ws IH]; [reflexivity|]. cbn. rewrite andb_true_iff. intros [-> H]. now apply IH.
Qed.

(* white space between '=' and the value does not matter to any of the value parsers *)
Lemma parse_val_pad k ws val : all_space ws -> parse_val k (ws ++ val) = parse_val k val.
Proof.
  intros H. destruct k; cbn [parse_val]; unfold parse_boolean, parse_duration; rewrite ?(trim_space_drop_left ws val H); try reflexivity.
  unfold fields_by. rewrite fields_aux_skip; [reflexivity|].
  unfold all_space in H. rewrite forallb_forall in *. intros x Hx. unfold is_list_sep. now rewrite (H _ Hx).
Qed.

Lemma no_edge_app a b : a <> [] -> b <> [] ->
  match a with [] => True | c :: _ => is_space c = false end ->
  match rev b with [] => True | c :: _ => is_space c = false end ->
  forall mid, no_edge_space (a ++ mid ++ b).
Proof.
  intros Ha Hb H1 H2 mid. split.
  - destruct a; [congruence|exact H1].
  - rewrite !rev_app_distr. destruct (rev b) eqn:E; [|exact H2].
    apply (f_equal (@rev Z)) in E. rewrite rev_involutive in E. cbn in E. congruence.
Qed.

Section RelationLine.
  Variables (ws1 key' ws2 ws3 val ws4 cmt : bytes).
  Hypothesis Hw1 : all_space ws1.
  Hypothesis Hw2 : all_space ws2.
  Hypothesis Hw3 : all_space ws3.
  Hypothesis Hw4 : all_space ws4.
  Hypothesis Hk : forallb plain key' = true.
  Hypothesis Hv : forallb plain val = true.
  Hypothesis Hke : no_edge_space key'.
  Hypothesis Hve : no_edge_space val.
  Hypothesis Hkn : key' <> [].
  Hypothesis Hvn : val <> [].
  Hypothesis Hc : comment_tail cmt.

  (* the rendered line:  <ws> key <ws> = <ws> value <ws> [comment] *)
  Definition rendered : bytes := ws1 ++ (key' ++ ws2 ++ 61 :: ws3 ++ val) ++ ws4 ++ cmt.
  Definition core : bytes := key' ++ ws2 ++ 61 :: ws3 ++ val.

  Lemma rendered_strip : strip_comment rendered = ws1 ++ core ++ ws4.
  Proof.
    unfold rendered. fold core.
    replace (ws1 ++ core ++ ws4 ++ cmt) with ((ws1 ++ core ++ ws4) ++ cmt) by (now rewrite <- !app_assoc).
    apply strip_comment_tail; [|exact Hc].
    unfold core, no_comment_char. rewrite !forallb_app. cbn [forallb]. rewrite !forallb_app.
    rewrite (plain_no_comment _ (all_space_plain _ Hw1)), (plain_no_comment _ (all_space_plain _ Hw2)),
            (plain_no_comment _ (all_space_plain _ Hw3)), (plain_no_comment _ (all_space_plain _ Hw4)),
            (plain_no_comment _ Hk), (plain_no_comment _ Hv).
    reflexivity.
  Qed.

  Lemma core_no_edge : no_edge_space core.
  Proof.
    unfold core. change (key' ++ ws2 ++ 61 :: ws3 ++ val) with (key' ++ (ws2 ++ 61 :: ws3) ++ val) || idtac.
    replace (key' ++ ws2 ++ 61 :: ws3 ++ val) with (key' ++ (ws2 ++ 61 :: ws3) ++ val)
      by (now rewrite <- !app_assoc).
    apply no_edge_app; [exact Hkn|exact Hvn|apply Hke|apply Hve].
  Qed.

  Lemma rendered_trim : trim_space (strip_comment rendered) = core.
  Proof. rewrite rendered_strip. apply trim_space_pad; [exact Hw1|exact Hw4|apply core_no_edge]. Qed.

  Lemma core_has_eq : contains_byte 61 core = true.
  Proof. apply contains_byte_in. unfold core. apply in_or_app; right. apply in_or_app; right. left; reflexivity. Qed.

  Lemma core_split : split_byte 61 core = [key' ++ ws2; ws3 ++ val].
  Proof.
    unfold core. rewrite app_assoc. rewrite split_byte_app.
    - rewrite split_byte_no; [reflexivity|].
      intros Hin. apply in_app_or in Hin. destruct Hin as [Hin|Hin]; [now apply (plain_no_eq _ (all_space_plain _ Hw3))|now apply (plain_no_eq _ Hv)].
    - intros Hin. apply in_app_or in Hin. destruct Hin as [Hin|Hin]; [now apply (plain_no_eq _ Hk)|now apply (plain_no_eq _ (all_space_plain _ Hw2))].
  Qed.

  Lemma lower_no_edge : no_edge_space (to_lower key').
  Proof.
    assert (forall c, is_space c = false -> is_space (lower_byte c) = false) as L.
    { intros c H. unfold lower_byte. destruct ((65 <=? c) && (c <=? 90)) eqn:E; [|exact H].
      rewrite andb_true_iff, !Z.leb_le in E. unfold is_space. repeat (apply orb_false_iff; split); apply Z.eqb_neq; lia. }
    destruct Hke as [H1 H2]. unfold to_lower. split.
    - destruct key'; [exact I|]. cbn. now apply L.
    - rewrite <- map_rev. destruct (rev key'); [exact I|]. cbn. now apply L.
  Qed.

  Lemma key_of_p0 : trim_space (to_lower (key' ++ ws2)) = to_lower key'.
  Proof.
    unfold to_lower. rewrite map_app. fold (to_lower key') (to_lower ws2). rewrite (all_space_lower _ Hw2).
    rewrite <- (app_nil_l (to_lower key' ++ ws2)). apply trim_space_pad; [reflexivity|exact Hw2|apply lower_no_edge].
  Qed.

  (* [libdefaults]: the relation sets exactly its key (written in any case) to the parsed value *)
  Theorem ld_line_relation_partial : forall l k v,
    lookup (to_lower key') ld_keys = Some k -> parse_val k val = Ok (Some v) ->
    ld_line l rendered = Ok (ld_set (to_lower key') v l).
  Proof.
    intros l k v Hl Hp. unfold ld_line. rewrite rendered_trim.
    assert (is_nil core = false) as -> by (unfold core; destruct key'; [congruence|reflexivity]).
    rewrite core_has_eq, core_split. cbn [negb]. rewrite gindex_0. cbn [bind]. rewrite key_of_p0, Hl.
    rewrite gindex_1. cbn [bind]. rewrite (parse_val_pad k ws3 val Hw3), Hp. reflexivity.
  Qed.

  (* an unknown relation leaves [libdefaults] alone *)
  Theorem ld_line_unknown_partial : forall l,
    lookup (to_lower key') ld_keys = None -> ld_line l rendered = Ok l.
  Proof.
    intros l Hl. unfold ld_line. rewrite rendered_trim.
    assert (is_nil core = false) as -> by (unfold core; destruct key'; [congruence|reflexivity]).
    rewrite core_has_eq, core_split. cbn [negb]. rewrite gindex_0. cbn [bind]. now rewrite key_of_p0, Hl.
  Qed.

  (* [domain_realm]: the mapping of the lower-cased domain is added *)
  Theorem dr_line_relation_partial : forall d,
    dr_line d rendered = Ok ((to_lower key', val) :: d).
  Proof.
    intros d. unfold dr_line. rewrite rendered_strip.
    assert (trim_space (ws1 ++ core ++ ws4) = core) as E by (apply trim_space_pad; [exact Hw1|exact Hw4|apply core_no_edge]).
    rewrite E. assert (is_nil core = false) as -> by (unfold core; destruct key'; [congruence|reflexivity]).
    assert (contains_byte 61 (ws1 ++ core ++ ws4) = true) as ->.
    { apply contains_byte_in. apply in_or_app; right. apply in_or_app; left. apply contains_byte_in, core_has_eq. }
    cbn [negb].
    assert (split_byte 61 (ws1 ++ core ++ ws4) = [ws1 ++ key' ++ ws2; ws3 ++ val ++ ws4]) as ->.
    { unfold core. replace (ws1 ++ (key' ++ ws2 ++ 61 :: ws3 ++ val) ++ ws4) with ((ws1 ++ key' ++ ws2) ++ 61 :: (ws3 ++ val ++ ws4))
        by (rewrite <- !app_assoc; cbn; now rewrite <- !app_assoc).
      rewrite split_byte_app.
      - rewrite split_byte_no; [reflexivity|]. intros Hin.
        apply in_app_or in Hin. destruct Hin as [Hin|Hin]; [now apply (plain_no_eq _ (all_space_plain _ Hw3))|].
        apply in_app_or in Hin. destruct Hin as [Hin|Hin]; [now apply (plain_no_eq _ Hv)|now apply (plain_no_eq _ (all_space_plain _ Hw4))].
      - intros Hin. apply in_app_or in Hin. destruct Hin as [Hin|Hin]; [now apply (plain_no_eq _ (all_space_plain _ Hw1))|].
        apply in_app_or in Hin. destruct Hin as [Hin|Hin]; [now apply (plain_no_eq _ Hk)|now apply (plain_no_eq _ (all_space_plain _ Hw2))]. }
    rewrite gindex_0, gindex_1. cbn [bind]. f_equal. f_equal. f_equal.
    - unfold to_lower. rewrite !map_app. fold (to_lower ws1) (to_lower key') (to_lower ws2).
      rewrite (all_space_lower _ Hw1), (all_space_lower _ Hw2). apply trim_space_pad; [exact Hw1|exact Hw2|apply lower_no_edge].
    - apply trim_space_pad; [exact Hw3|exact Hw4|exact Hve].
  Qed.

  (* a realm block, outside nested blocks: the relation line is handed to realm_relation with the lower-cased
     key and the trimmed value, and the block state is otherwise unchanged *)
  Theorem realm_line_relation_partial : forall st,
    rs_c st = 0 ->
    contains S_v4_tag core = false -> contains_byte 123 core = false -> contains_byte 125 core = false ->
    realm_line st rendered = Ok (realm_relation st (to_lower key') val).
  Proof.
    intros st Hc0 Hv4 Hop Hcl. unfold realm_line. rewrite Hc0.
    change (0 <? 0) with false. rewrite andb_false_r. cbn [andb].
    rewrite rendered_trim.
    assert (is_nil core = false) as -> by (unfold core; destruct key'; [congruence|reflexivity]).
    rewrite core_has_eq, Hv4, Hop, Hcl. cbn [negb andb orb]. rewrite !orb_false_r.
    change (0 <? 0) with false. rewrite andb_false_r.
    rewrite core_split, gindex_0, gindex_1. cbn [bind]. rewrite key_of_p0.
    rewrite (trim_space_drop_left ws3 val Hw3), (trim_space_id val Hve).
    f_equal. f_equal. unfold rs_flow. rewrite <- Hc0. destruct st; reflexivity.
  Qed.
End RelationLine.

(* the pieces combined on one kind of relation: every boolean key of [libdefaults], every documented
   spelling, any white space and any trailing comment *)
Definition bool_keys : list bytes := Eval cbv in
  [ bs "allow_weak_crypto"; bs "canonicalize"; bs "dns_canonicalize_hostname"; bs "dns_lookup_kdc";
    bs "dns_lookup_realm"; bs "forwardable"; bs "ignore_acceptor_hostname"; bs "k5login_authoritative";
    bs "noaddresses"; bs "proxiable"; bs "rdns"; bs "verify_ap_req_nofail" ].

Lemma bool_key_facts key : In key bool_keys ->
  forallb plain key = true /\ no_edge_space key /\ key <> [] /\ to_lower key = key /\ lookup key ld_keys = Some KBool.
Proof.
  intros H. cbn in H.
  repeat (destruct H as [<-|H]; [repeat split; try reflexivity; discriminate|]). destruct H.
Qed.

Lemma bool_spelling_facts sp v : In (sp, v) bool_table ->
  forallb plain sp = true /\ no_edge_space sp /\ sp <> [] /\ parse_val KBool sp = Ok (Some (VB v)).
Proof.
  intros H. cbn in H.
  repeat (destruct H as [H|H]; [inversion H; subst; repeat split; try reflexivity; discriminate|]). destruct H.
Qed.

Theorem ld_line_bool_partial : forall l key ws1 ws2 ws3 ws4 cmt sp v,
  In key bool_keys -> In (sp, v) bool_table ->
  all_space ws1 -> all_space ws2 -> all_space ws3 -> all_space ws4 -> comment_tail cmt ->
  ld_line l (rendered ws1 key ws2 ws3 sp ws4 cmt) = Ok (ld_set key (VB v) l).
Proof.
  intros l key ws1 ws2 ws3 ws4 cmt sp v Hk Hs H1 H2 H3 H4 Hc.
  destruct (bool_key_facts key Hk) as (K1 & K2 & K3 & K4 & K5).
  destruct (bool_spelling_facts sp v Hs) as (S1 & S2 & S3 & S4).
  rewrite <- K4 at 2. apply ld_line_relation_partial with (k := KBool); try assumption. now rewrite K4.
Qed.

Example ld_line_bool_example :
  ld_line (ld_init [] []) (bs "   forwardable	 = 	yes  # comment = { } ; x")
  = Ok (ld_set (bs "forwardable") (VB true) (ld_init [] [])) /\
  bs "   forwardable	 = 	yes  # comment = { } ; x"
  = rendered (bs "   ") (bs "forwardable") (bs "	 ") (bs " 	") (bs "yes") (bs "  ") (bs "# comment = { } ; x").
Proof. split; vm_compute; reflexivity. Qed.
