(* "Two encryptions of the same plaintext produce different ciphertexts because each uses a fresh random
   confounder": for the AES profiles, encryption under one key and usage is injective in the confounder - two
   different confounders never give the same ciphertext, for every key, usage and plaintext.  (What "fresh" means -
   that the confounders the library draws differ - is the random source's business and is exercised by the stream.) *)
From Gokrb5.lib Require Import Bytes JV.
From Gokrb5.prim Require CBC HMAC RC4 AES DES AESInverse DESInverse.
From Gokrb5.model Require Import Crypto.
From Gokrb5.proofs Require Import CryptoBasic CBCGuarded CTSProofs CryptoWf CryptoRoundTrip.
Import CBC.

Lemma app_eq_same_length {A} (a1 a2 b1 b2 : list A) :
  length a1 = length a2 -> a1 ++ b1 = a2 ++ b2 -> a1 = a2.
Proof.
  intros L E. pose proof (f_equal (firstn (length a1)) E) as F.
  rewrite firstn_app_exact in F. rewrite L, firstn_app_exact in F. exact F.
Qed.

Lemma ok_inj {A} (x y : A) : Ok x = Ok y -> x = y.
Proof. intros H; injection H; auto. Qed.

Section Fresh.
  Variables (et : Z) (key : bytes) (usage : Z) (c1 c2 msg ct1 ct2 : bytes).
  Hypothesis Hl1 : length c1 = 16%nat.
  Hypothesis Hl2 : length c2 = 16%nat.
  Hypothesis Wk : wf_bytes key.
  Hypothesis W1 : wf_bytes c1.
  Hypothesis W2 : wf_bytes c2.
  Hypothesis Wm : wf_bytes msg.

  Lemma cts_encrypt_conf_injective ke : wf_bytes ke ->
    cts_encrypt (aes_ecb ke) (c1 ++ msg) = cts_encrypt (aes_ecb ke) (c2 ++ msg) -> c1 = c2.
  Proof.
    intros Wke E.
    assert (L1 : (16 <= length (c1 ++ msg))%nat) by (rewrite app_length; lia).
    assert (L2 : (16 <= length (c2 ++ msg))%nat) by (rewrite app_length; lia).
    pose proof (cts_roundtrip (aes_ecb ke) (aes_ecb_dec ke) (aes_ecb_inverse ke Wke) (aes_ecb_length ke) (aes_ecb_wf ke Wke)
                  (c1 ++ msg) L1 (proj2 (wf_bytes_app _ _) (conj W1 Wm))) as R1.
    pose proof (cts_roundtrip (aes_ecb ke) (aes_ecb_dec ke) (aes_ecb_inverse ke Wke) (aes_ecb_length ke) (aes_ecb_wf ke Wke)
                  (c2 ++ msg) L2 (proj2 (wf_bytes_app _ _) (conj W2 Wm))) as R2.
    rewrite E in R1. rewrite R1 in R2. apply ok_inj in R2. apply app_inv_tail in R2. exact R2.
  Qed.

  Theorem aes_sha1_confounder_injective :
    et_family et = Some FAesSha1 ->
    encrypt_with et key usage c1 msg = Ok ct1 -> encrypt_with et key usage c2 msg = Ok ct2 ->
    ct1 = ct2 -> c1 = c2.
  Proof.
    intros Hf. unfold encrypt_with. rewrite Hf.
    destruct (negb (length key =? key_len et)%nat); [discriminate|].
    destruct (derive_key et key (usage_const usage 170)) as [ke| |] eqn:Ek; cbn [bind]; try discriminate.
    destruct (integrity_hash et key usage (c1 ++ msg)) as [ih1| |] eqn:Ei1; cbn [bind]; try discriminate.
    destruct (integrity_hash et key usage (c2 ++ msg)) as [ih2| |] eqn:Ei2; cbn [bind]; try discriminate.
    intros H1 H2 E. apply ok_inj in H1. apply ok_inj in H2. subst ct1 ct2.
    assert (Wke : wf_bytes ke) by exact (derive_key_aes_wf et key _ ke (or_introl Hf) Wk (usage_const_nonempty _ _) Ek).
    apply (cts_encrypt_conf_injective ke Wke).
    apply app_eq_same_length in E; [exact E|].
    rewrite !(cts_encrypt_length (aes_ecb ke) (aes_ecb_length ke)); rewrite !app_length; lia.
  Qed.

  Theorem aes_sha2_confounder_injective :
    et_family et = Some FAesSha2 ->
    encrypt_with et key usage c1 msg = Ok ct1 -> encrypt_with et key usage c2 msg = Ok ct2 ->
    ct1 = ct2 -> c1 = c2.
  Proof.
    intros Hf. unfold encrypt_with. rewrite Hf.
    destruct (negb (length key =? key_len et)%nat); [discriminate|].
    destruct (derive_key et key (usage_const usage 170)) as [ke| |] eqn:Ek; cbn [bind]; try discriminate.
    destruct (integrity_hash et key usage (zeros 16 ++ cts_encrypt (aes_ecb ke) (c1 ++ msg))) as [ih1| |] eqn:Ei1; cbn [bind]; try discriminate.
    destruct (integrity_hash et key usage (zeros 16 ++ cts_encrypt (aes_ecb ke) (c2 ++ msg))) as [ih2| |] eqn:Ei2; cbn [bind]; try discriminate.
    intros H1 H2 E. apply ok_inj in H1. apply ok_inj in H2. subst ct1 ct2.
    assert (Wke : wf_bytes ke) by exact (derive_key_aes_wf et key _ ke (or_intror Hf) Wk (usage_const_nonempty _ _) Ek).
    apply (cts_encrypt_conf_injective ke Wke).
    apply app_eq_same_length in E; [exact E|].
    rewrite !(cts_encrypt_length (aes_ecb ke) (aes_ecb_length ke)); rewrite !app_length; lia.
  Qed.
End Fresh.
