(* Gokrb5.proofs.GoASN1Proofs — the lenient decoder of model/GoASN1.v (what gofork asn1 accepts) returns, on every
   DER encoding written by DERCodec.enc for the erased type, exactly the encoded value and the untouched rest:
     gdec_enc          for every Go type description with explicit context tags (gok) and every value in Go's ranges (wfg)
     unmarshal_app_enc the same through [APPLICATION n], octets after the element ignored
     grt_trailer       a struct whose last field is an untagged OPTIONAL struct (messages.Ticket.DecryptedEncPart):
                       decoded with and without the trailing element. *)
From Coq Require Import ZifyBool.
From Gokrb5.lib Require Import Bytes JV.
From Gokrb5.model Require Import Schema DER DERCodec GoASN1.
From Gokrb5.proofs Require Import DERBasic DERTime DERProofs.
Local Ltac Zify.zify_post_hook ::= Z.div_mod_to_equations.

(* ---------- induction principle for gty (nested list in GStruct) ---------- *)
Section GtyInd.
  Variable P : gty -> Prop.
  Hypothesis HInt : forall w, P (GInt w).
  Hypothesis HBytes : P GBytes.
  Hypothesis HString : P GString.
  Hypothesis HTime : P GTime.
  Hypothesis HBits : P GBits.
  Hypothesis HStruct : forall fs : list gfield, Forall (fun f => P (snd f)) fs -> P (GStruct fs).
  Hypothesis HSlice : forall e, P e -> P (GSlice e).
  Hypothesis HRaw : P GRaw.

  Fixpoint gty_ind' (g : gty) : P g :=
    match g with
    | GInt w => HInt w | GBytes => HBytes | GString => HString | GTime => HTime | GBits => HBits
    | GStruct fs =>
      HStruct fs ((fix go (l : list gfield) : Forall (fun f => P (snd f)) l :=
                     match l with
                     | [] => Forall_nil _
                     | f :: r => Forall_cons f (match f as f0 return P (snd f0) with (_, g') => gty_ind' g' end)
                                             (go r)
                     end) fs)
    | GSlice e => HSlice e (gty_ind' e)
    | GRaw => HRaw
    end.
End GtyInd.

(* ---------- erase on field lists ---------- *)
Definition erase_fields : list gfield -> list field :=
  fix go (l : list gfield) : list field :=
    match l with
    | [] => []
    | (tag, opt, g') :: r => (tag, opt, erase g') :: go r
    end.

Lemma erase_struct fs : erase (GStruct fs) = TSeq (erase_fields fs).
Proof. reflexivity. Qed.

Lemma erase_fields_cons tag opt g fs : erase_fields ((tag, opt, g) :: fs) = (tag, opt, erase g) :: erase_fields fs.
Proof. reflexivity. Qed.

Lemma erase_fields_app a b : erase_fields (a ++ b) = erase_fields a ++ erase_fields b.
Proof.
  induction a as [|[[tag opt] g] a IH]; [reflexivity|].
  cbn [app]. rewrite !erase_fields_cons, IH. reflexivity.
Qed.

(* ---------- sizes ---------- *)
Definition fits31 (fuel : nat) (b : bytes) : Prop := zlen b < 2 ^ 31 /\ zlen b <= Z.of_nat fuel.

Lemma fits31_le fuel b b' : zlen b' <= zlen b -> fits31 fuel b -> fits31 fuel b'.
Proof. unfold fits31. lia. Qed.
Lemma fits31_tlv fuel id body : fits31 fuel (tlv id body) -> fits31 fuel body.
Proof. apply fits31_le. pose proof (zlen_tlv id body). lia. Qed.
Lemma fits31_app_l fuel a b : fits31 fuel (a ++ b) -> fits31 fuel a.
Proof. apply fits31_le. rewrite zlen_app. pose proof (zlen_nonneg b). lia. Qed.
Lemma fits31_app_r fuel a b : fits31 fuel (a ++ b) -> fits31 fuel b.
Proof. apply fits31_le. rewrite zlen_app. pose proof (zlen_nonneg a). lia. Qed.

(* ---------- the header of a freshly written TLV ---------- *)
Definition hdr_id (id n : Z) : hdr := mkHdr (id / 64) ((id / 32) mod 2 =? 1) (id mod 32) n.

Lemma ghdr_tlv id body rest : id mod 32 <> 31 -> zlen body < 2 ^ 31 ->
  ghdr (tlv id body ++ rest) = Some (hdr_id id (zlen body), body ++ rest).
Proof.
  intros Hid Hb. unfold tlv. cbn [app ghdr]. destruct (Z.eqb_spec (id mod 32) 31); [contradiction|].
  unfold glen. rewrite <- app_assoc, parse_len_der_len by (pose proof (zlen_nonneg body); lia).
  replace (zlen body <? 2 ^ 31) with true by lia. reflexivity.
Qed.

Lemma ident_ctx n : gtag_ok n = true -> ident 2 true n mod 32 <> 31 /\ hdr_id (ident 2 true n) = mkHdr 2 true n.
Proof.
  unfold gtag_ok, ident, hdr_id. intros H. split; [lia|].
  replace ((2 * 64 + 32 + n) / 64) with 2 by lia. replace ((2 * 64 + 32 + n) mod 32) with n by lia.
  replace ((2 * 64 + 32 + n) / 32) with 5 by lia. reflexivity.
Qed.

Lemma ident_app n : gtag_ok n = true -> ident 1 true n mod 32 <> 31 /\ hdr_id (ident 1 true n) = mkHdr 1 true n.
Proof.
  unfold gtag_ok, ident, hdr_id. intros H. split; [lia|].
  replace ((1 * 64 + 32 + n) / 64) with 1 by lia. replace ((1 * 64 + 32 + n) mod 32) with n by lia.
  replace ((1 * 64 + 32 + n) / 32) with 3 by lia. reflexivity.
Qed.

(* ---------- encodings are never empty ---------- *)
Lemma enc_nonempty g v : wfg g v = true -> exists x r, enc (erase g) v = x :: r.
Proof.
  destruct g; destruct v; cbn [wfg]; try discriminate; intros H; cbn [erase enc];
    try (unfold tlv; eexists; eexists; reflexivity).
  destruct b as [|x r]; [discriminate|]. eauto.
Qed.

Lemma wrap_nonempty tag g v : wfg g v = true -> exists x r, wrap_tag tag (enc (erase g) v) = x :: r.
Proof.
  intros H. destruct tag as [n|]; cbn [wrap_tag].
  - unfold tlv. eauto.
  - apply enc_nonempty, H.
Qed.

Lemma gty_eq_raw g : g = GRaw \/ g <> GRaw.
Proof. destruct g; (left; reflexivity) || (right; discriminate). Qed.

Lemma match_app_nonempty {A B} (l r : list A) (X Y : B) :
  l <> [] -> match l ++ r with [] => X | _ :: _ => Y end = Y.
Proof. destruct l; [contradiction | reflexivity]. Qed.

(* ---------- the statement proved for every Go type ---------- *)
Definition D (fuel : nat) : gty -> hdr -> bytes -> option value := fun g' h' b' => gdec g' fuel h' b'.

Definition grt (g : gty) : Prop :=
  forall v fuel rest opt orig, wfg g v = true -> fits31 fuel (enc (erase g) v) ->
  gelem (D fuel) g opt orig (enc (erase g) v ++ rest) = Some (Some v, rest).

Lemma gfield_dec_nonraw dec ecls tag opt g x l : g <> GRaw ->
  gfield_dec dec ecls tag opt g (x :: l) =
  match tag with
  | None => gelem dec g opt (x :: l) (x :: l)
  | Some n =>
    match ghdr (x :: l) with
    | None => None
    | Some (h, r) =>
      match r with
      | [] => None
      | _ :: _ =>
        if (h_cls h =? ecls) && (h_tag h =? n) && ((h_len h =? 0) || h_cons h) then
          if h_len h =? 0 then None else gelem dec g opt (x :: l) r
        else if opt then Some (None, x :: l) else None
      end
    end
  end.
Proof. intros H. destruct g; try reflexivity. contradiction. Qed.

(* a present field under an explicit tag of class ecls (2: context, 1: application) *)
Lemma gfield_explicit fuel ecls n opt g v rest :
  (ecls = 1 \/ ecls = 2) -> gtag_ok n = true -> (g <> GRaw -> grt g) -> wfg g v = true ->
  fits31 fuel (tlv (ident ecls true n) (enc (erase g) v)) ->
  gfield_dec (D fuel) ecls (Some n) opt g (tlv (ident ecls true n) (enc (erase g) v) ++ rest) = Some (Some v, rest).
Proof.
  intros Hc Hn Hrt Hwf Hfit.
  assert (Hid : ident ecls true n mod 32 <> 31 /\ hdr_id (ident ecls true n) = mkHdr ecls true n).
  { destruct Hc; subst; [apply ident_app | apply ident_ctx]; exact Hn. }
  destruct Hid as [Hid Hh]. pose proof (fits31_tlv _ _ _ Hfit) as Hfb.
  destruct (enc_nonempty g v Hwf) as (y & ry & Ey).
  assert (Hlen : 1 <= zlen (enc (erase g) v)) by (rewrite Ey, zlen_cons; pose proof (zlen_nonneg ry); lia).
  assert (G : forall id body, tlv id body ++ rest = id :: (der_len (zlen body) ++ body) ++ rest) by reflexivity.
  destruct (gty_eq_raw g) as [-> | Hnr].
  - (* RawValue: takes the whole [n] element, returns its contents *)
    destruct v; cbn [wfg] in Hwf; try discriminate. cbn [erase enc] in *.
    rewrite G. cbn [gfield_dec]. rewrite <- G. rewrite ghdr_tlv by (auto; apply Hfb).
    unfold hdr_id. cbn [h_len]. rewrite splitz_app. reflexivity.
  - rewrite G. rewrite gfield_dec_nonraw by exact Hnr. rewrite <- G.
    rewrite ghdr_tlv by (auto; apply Hfb). rewrite Hh. cbn [h_cls h_tag h_len h_cons].
    rewrite match_app_nonempty by (rewrite Ey; discriminate). rewrite !Z.eqb_refl. cbn [andb orb].
    replace (zlen (enc (erase g) v) =? 0) with false by lia. cbn [andb orb].
    apply Hrt; assumption.
Qed.

(* the same for any octets body the element decoder reads v from (used where the octets are not literally an enc) *)
Lemma gfield_explicit_gen fuel ecls n opt g v body rest :
  (ecls = 1 \/ ecls = 2) -> gtag_ok n = true -> g <> GRaw -> body <> [] ->
  fits31 fuel (tlv (ident ecls true n) body) ->
  gelem (D fuel) g opt (tlv (ident ecls true n) body ++ rest) (body ++ rest) = Some (Some v, rest) ->
  gfield_dec (D fuel) ecls (Some n) opt g (tlv (ident ecls true n) body ++ rest) = Some (Some v, rest).
Proof.
  intros Hc Hn Hnr Hne Hfit Hel.
  assert (Hid : ident ecls true n mod 32 <> 31 /\ hdr_id (ident ecls true n) = mkHdr ecls true n).
  { destruct Hc; subst; [apply ident_app | apply ident_ctx]; exact Hn. }
  destruct Hid as [Hid Hh]. pose proof (fits31_tlv _ _ _ Hfit) as Hfb.
  assert (Hlen : 1 <= zlen body).
  { destruct body as [|y ry]; [contradiction|]. rewrite zlen_cons. pose proof (zlen_nonneg ry). lia. }
  assert (G : tlv (ident ecls true n) body ++ rest = ident ecls true n :: (der_len (zlen body) ++ body) ++ rest) by reflexivity.
  rewrite G at 1. rewrite gfield_dec_nonraw by exact Hnr. rewrite <- G.
  rewrite ghdr_tlv by (auto; apply Hfb). rewrite Hh. cbn [h_cls h_tag h_len h_cons].
  rewrite match_app_nonempty by exact Hne. rewrite !Z.eqb_refl. cbn [andb orb].
  replace (zlen body =? 0) with false by lia. cbn [andb orb]. exact Hel.
Qed.

(* ---------- the fields of a struct ---------- *)
Lemma gfields_cons dec tag opt g fs b :
  gfields dec ((tag, opt, g) :: fs) b =
  match gfield_dec dec 2 tag opt g b with
  | Some (o, r) => match gfields dec fs r with Some (os, r') => Some (o :: os, r') | None => None end
  | None => None
  end.
Proof. reflexivity. Qed.

Lemma wfg_fields_cons (w : gty -> value -> bool) tag opt g fs o vs :
  wfg_fields w ((tag, opt, g) :: fs) (o :: vs) =
  (match o with Some v => w g v | None => opt end) && wfg_fields w fs vs.
Proof. reflexivity. Qed.

Lemma gfields_ok_cons ok n opt g fs :
  gfields_ok ok ((Some n, opt, g) :: fs) =
  gtag_ok n && ok g && (match g with GRaw => negb opt | _ => true end)
  && (if opt then forallb (gids_distinct n) (gfirst fs) else true) && gfields_ok ok fs.
Proof. reflexivity. Qed.

Lemma gfields_ok_inv ok n opt g fs : gfields_ok ok ((Some n, opt, g) :: fs) = true ->
  gtag_ok n = true /\ ok g = true /\ (match g with GRaw => negb opt | _ => true end) = true /\
  (if opt then forallb (gids_distinct n) (gfirst fs) else true) = true /\ gfields_ok ok fs = true.
Proof. rewrite gfields_ok_cons. intros H. repeat rewrite andb_true_iff in H. tauto. Qed.

Fixpoint ends_mand (fs : list gfield) : bool :=
  match fs with
  | [] => true
  | (_, opt, _) :: fs' => match fs' with [] => negb opt | _ :: _ => ends_mand fs' end
  end.

(* what the encoding of a run of tagged fields starts with *)
Lemma enc_fields_shape fs : forall vs, gfields_ok gok fs = true -> wfg_fields wfg fs vs = true ->
  enc_fields enc (erase_fields fs) vs = [] \/
  exists n' opt' g' body' rest',
    In (Some n', opt', g') (gfirst fs) /\ gtag_ok n' = true /\ body' <> [] /\
    enc_fields enc (erase_fields fs) vs = tlv (ident 2 true n') body' ++ rest'.
Proof.
  induction fs as [|[[tag opt] g] fs IH]; intros vs Hok Hwf.
  - left. destruct vs; reflexivity.
  - destruct vs as [|o vs]; [discriminate|]. destruct tag as [n|]; [|discriminate].
    apply gfields_ok_inv in Hok. destruct Hok as (Hok & H2 & H1 & H0 & H).
    rewrite wfg_fields_cons in Hwf. apply andb_true_iff in Hwf. destruct Hwf as [Hw1 Hw2].
    rewrite erase_fields_cons, enc_fields_cons. cbn [gfirst]. destruct o as [v|].
    + right. destruct (enc_nonempty g v Hw1) as (x & r & E).
      exists n, opt, g, (enc (erase g) v), (enc_fields enc (erase_fields fs) vs).
      split; [left; reflexivity|]. split; [exact Hok|]. split; [rewrite E; discriminate | reflexivity].
    + subst opt. cbn [app]. destruct (IH vs H Hw2) as [E|(n' & o' & g' & b' & r' & Hin & Hn & Hb & E)]; [left; exact E|].
      right. exists n', o', g', b', r'. split; [right; exact Hin | auto].
Qed.

Lemma enc_fields_nonempty fs : forall vs, fs <> [] -> ends_mand fs = true -> wfg_fields wfg fs vs = true ->
  enc_fields enc (erase_fields fs) vs <> [].
Proof.
  induction fs as [|[[tag opt] g] fs IH]; intros vs Hne He Hwf; [contradiction|].
  destruct vs as [|o vs]; [discriminate|].
  rewrite wfg_fields_cons in Hwf. apply andb_true_iff in Hwf. destruct Hwf as [Hw1 Hw2].
  rewrite erase_fields_cons, enc_fields_cons. cbn [ends_mand] in He. destruct fs as [|f fs].
  - destruct o as [v|]; [|subst opt; discriminate].
    destruct (wrap_nonempty tag g v Hw1) as (x & r & E). rewrite E. discriminate.
  - specialize (IH vs ltac:(discriminate) He Hw2). intros E. apply app_eq_nil in E. tauto.
Qed.

(* an absent OPTIONAL field: the input is exhausted, or the next element carries another context tag *)
Lemma gfield_absent fuel n g b : g <> GRaw ->
  (b = [] \/ exists n' body' rest', n' <> n /\ gtag_ok n' = true /\ body' <> [] /\ zlen body' < 2 ^ 31 /\
                                    b = tlv (ident 2 true n') body' ++ rest') ->
  gfield_dec (D fuel) 2 (Some n) true g b = Some (None, b).
Proof.
  intros Hnr [->|(n' & body' & rest' & Hne & Hn' & Hb & Hl & ->)]; [reflexivity|].
  destruct (ident_ctx n' Hn') as [Hid Hh].
  assert (G : tlv (ident 2 true n') body' ++ rest' = ident 2 true n' :: (der_len (zlen body') ++ body') ++ rest') by reflexivity.
  rewrite G at 1. rewrite gfield_dec_nonraw by exact Hnr. rewrite <- G.
  rewrite ghdr_tlv by assumption. rewrite Hh. cbn [h_cls h_tag h_len h_cons].
  rewrite match_app_nonempty by exact Hb.
  replace (n' =? n) with false by lia. rewrite andb_false_r. reflexivity.
Qed.

Lemma gfields_enc fuel fs :
  Forall (fun f : gfield => gok (snd f) = true -> snd f <> GRaw -> grt (snd f)) fs ->
  gfields_ok gok fs = true ->
  forall vs rest, wfg_fields wfg fs vs = true -> fits31 fuel (enc_fields enc (erase_fields fs) vs) ->
  (rest = [] \/ ends_mand fs = true) ->
  gfields (D fuel) fs (enc_fields enc (erase_fields fs) vs ++ rest) = Some (vs, rest).
Proof.
  induction 1 as [|[[tag opt] g] fs Hrt _ IH]; intros Hok vs rest Hwf Hfit Hrest.
  - destruct vs; [reflexivity | discriminate].
  - destruct vs as [|o vs]; [discriminate|]. destruct tag as [n|]; [|discriminate].
    apply gfields_ok_inv in Hok. destruct Hok as (Hok & H2 & H1 & H0 & H).
    rewrite wfg_fields_cons in Hwf. apply andb_true_iff in Hwf. destruct Hwf as [Hw1 Hw2].
    cbn [snd] in Hrt. specialize (Hrt H2).
    rewrite erase_fields_cons, enc_fields_cons in *. rewrite gfields_cons.
    assert (Hrest' : rest = [] \/ ends_mand fs = true).
    { destruct Hrest as [->|He]; [left; reflexivity|]. cbn [ends_mand] in He. destruct fs; [right; reflexivity | right; exact He]. }
    destruct o as [v|].
    + cbn [wrap_tag] in *. rewrite <- app_assoc.
      rewrite gfield_explicit; auto; [|eapply fits31_app_l, Hfit].
      rewrite IH; auto. eapply fits31_app_r, Hfit.
    + subst opt. cbn [app] in *.
      assert (Hnr : g <> GRaw) by (intros ->; discriminate).
      rewrite gfield_absent; [rewrite IH; auto| exact Hnr |].
      destruct (enc_fields_shape fs vs H Hw2) as [E|(n' & o' & g' & b' & r' & Hin & Hn' & Hb & E)].
      * rewrite E in *. cbn [app]. destruct Hrest as [->|He]; [left; reflexivity|].
        exfalso. cbn [ends_mand] in He. destruct fs as [|f fs]; [discriminate|].
        apply (enc_fields_nonempty (f :: fs) vs); auto. discriminate.
      * right. exists n', b', (r' ++ rest). rewrite E, <- app_assoc.
        rewrite forallb_forall in H0. specialize (H0 _ Hin). cbn [gids_distinct] in H0.
        repeat split; auto; [lia|].
        assert (F : fits31 fuel (tlv (ident 2 true n') b')) by (rewrite E in Hfit; eapply fits31_app_l, Hfit).
        apply fits31_tlv in F. apply F.
Qed.

(* ---------- the elements of a slice ---------- *)
Lemma gelems_enc fuel e : e <> GRaw -> grt e -> forall vs (n : nat),
  Forall (fun v => wfg e v = true) vs -> fits31 fuel (flat_map (enc (erase e)) vs) ->
  zlen (flat_map (enc (erase e)) vs) <= Z.of_nat n ->
  gelems (gfield_dec (D fuel) 2 None false e) n (flat_map (enc (erase e)) vs) = Some vs.
Proof.
  intros Hnr Hrt vs. induction vs as [|v vs IH]; intros n Hwf Hfit Hn.
  - destruct n; reflexivity.
  - pose proof (Forall_inv Hwf) as Hv. pose proof (Forall_inv_tail Hwf) as Hvs. cbn [flat_map] in *.
    destruct (enc_nonempty e v Hv) as (x & r & E).
    assert (Hl : 1 <= zlen (enc (erase e) v)) by (rewrite E, zlen_cons; pose proof (zlen_nonneg r); lia).
    rewrite zlen_app in Hn. pose proof (zlen_nonneg (flat_map (enc (erase e)) vs)). destruct n as [|n]; [lia|].
    assert (G : gelems (gfield_dec (D fuel) 2 None false e) (S n) (enc (erase e) v ++ flat_map (enc (erase e)) vs) =
                match gelem (D fuel) e false (enc (erase e) v ++ flat_map (enc (erase e)) vs)
                            (enc (erase e) v ++ flat_map (enc (erase e)) vs) with
                | Some (Some v0, r0) =>
                  match gelems (gfield_dec (D fuel) 2 None false e) n r0 with Some l => Some (v0 :: l) | None => None end
                | _ => None
                end).
    { rewrite E. cbn [app gelems]. rewrite gfield_dec_nonraw by exact Hnr. reflexivity. }
    rewrite G. rewrite Hrt by (auto; eapply fits31_app_l, Hfit).
    rewrite IH; [reflexivity | exact Hvs | eapply fits31_app_r, Hfit | lia].
Qed.

(* ---------- the headline ---------- *)
Lemma gelem_tlv fuel g opt orig id body rest v :
  id mod 32 <> 31 -> zlen body < 2 ^ 31 -> tag_match g (hdr_id id (zlen body)) = true ->
  gdec g fuel (hdr_id id (zlen body)) body = Some v ->
  gelem (D fuel) g opt orig (tlv id body ++ rest) = Some (Some v, rest).
Proof.
  intros Hid Hb Ht Hd. unfold gelem. rewrite ghdr_tlv by assumption. rewrite Ht.
  unfold hdr_id at 1. cbn [h_len]. rewrite splitz_app. unfold D. rewrite Hd. reflexivity.
Qed.

Theorem gdec_enc : forall g, gok g = true -> g <> GRaw -> grt g.
Proof.
  induction g using gty_ind'; intros Hok Hnr v fuel rest opt orig Hwf Hfit; [| | | | | | |contradiction].
  1-7: destruct v; cbn [wfg] in Hwf; try discriminate.
  all: try rewrite erase_struct in *; cbn [erase enc] in *; pose proof (fits31_tlv _ _ _ Hfit) as Hf.
  - (* int *) apply gelem_tlv; [lia | apply Hf | reflexivity |]. cbn [gdec]. unfold gint.
    rewrite dec_int_enc_int, Hwf. reflexivity.
  - (* []byte *) apply gelem_tlv; [lia | apply Hf | reflexivity | reflexivity].
  - (* string *) apply gelem_tlv; [lia | apply Hf | reflexivity | reflexivity].
  - (* time *) apply gelem_tlv; [lia | apply Hf | reflexivity |]. cbn [gdec].
    change (h_tag (hdr_id 24 (zlen (enc_time secs)))) with 24. unfold gtime. cbn [Z.eqb Pos.eqb].
    unfold ggentime. rewrite dec_time_enc_time by exact Hwf. reflexivity.
  - (* BitString *) apply gelem_tlv; [lia | apply Hf | reflexivity |]. cbn [gdec]. unfold enc_bits, gbits.
    rewrite Hwf. reflexivity.
  - (* struct *) unfold id_seq in *.
    apply gelem_tlv; [lia | apply Hf | reflexivity |]. cbn [gdec]. fold (D fuel).
    rewrite <- (app_nil_r (enc_fields enc (erase_fields fs) fs0)).
    rewrite (gfields_enc fuel fs); auto.
  - (* slice *) unfold id_seq in *. cbn [gok] in Hok. apply andb_true_iff in Hok. destruct Hok as [Hok He].
    assert (Hne : g <> GRaw) by (intros ->; discriminate).
    apply gelem_tlv; [lia | apply Hf | reflexivity |]. cbn [gdec]. fold (D fuel).
    rewrite (gelems_enc fuel g Hne (IHg Hok Hne)); [reflexivity | apply Forall_forallb, Hwf | exact Hf | apply Hf].
Qed.

(* asn1.UnmarshalWithParams(b, &v, "application,explicit,tag:n") on the DER of [APPLICATION n] followed by anything *)
Theorem unmarshal_app_enc n g v rest :
  gtag_ok n = true -> gok g = true -> g <> GRaw -> wfg g v = true ->
  zlen (enc (TApp n (erase g)) v) < 2 ^ 31 ->
  unmarshal_app n g (enc (TApp n (erase g)) v ++ rest) = Some v.
Proof.
  intros Hn Hok Hnr Hwf Hlen. unfold unmarshal_app. cbn [enc] in *.
  fold (D (S (length (tlv (ident 1 true n) (enc (erase g) v) ++ rest)))).
  rewrite gfield_explicit; auto.
  - intros _. apply gdec_enc; assumption.
  - split; [exact Hlen|]. unfold zlen. rewrite app_length. lia.
Qed.

(* ---------- a struct that ends with an untagged OPTIONAL struct (messages.Ticket) ---------- *)
Lemma gfields_app dec fs1 : forall fs2 b,
  gfields dec (fs1 ++ fs2) b =
  match gfields dec fs1 b with
  | Some (vs1, r) => match gfields dec fs2 r with Some (vs2, r') => Some (vs1 ++ vs2, r') | None => None end
  | None => None
  end.
Proof.
  induction fs1 as [|[[tag opt] g] fs1 IH]; intros fs2 b.
  - cbn [app]. change (gfields dec [] b) with (Some (@nil (option value), b)). cbn iota beta.
    destruct (gfields dec fs2 b) as [[vs2 r']|]; reflexivity.
  - cbn [app]. rewrite !gfields_cons. destruct (gfield_dec dec 2 tag opt g b) as [[o r]|]; [|reflexivity].
    rewrite IH. destruct (gfields dec fs1 r) as [[vs1 r1]|]; [|reflexivity].
    destruct (gfields dec fs2 r1) as [[vs2 r2]|]; reflexivity.
Qed.

Definition trailer_bytes (gt : gty) (o : option value) : bytes :=
  match o with Some tv => enc (erase gt) tv | None => [] end.

Theorem grt_trailer fs gt vs o fuel rest opt orig :
  gfields_ok gok fs = true -> ends_mand fs = true -> gok gt = true -> gt <> GRaw ->
  wfg_fields wfg fs vs = true -> (match o with Some tv => wfg gt tv = true | None => True end) ->
  fits31 fuel (tlv id_seq (enc_fields enc (erase_fields fs) vs ++ trailer_bytes gt o)) ->
  gelem (D fuel) (GStruct (fs ++ [(None, true, gt)])) opt orig
        (tlv id_seq (enc_fields enc (erase_fields fs) vs ++ trailer_bytes gt o) ++ rest)
  = Some (Some (VSeq (vs ++ [o])), rest).
Proof.
  intros Hok He Hgt Hnr Hwf Ho Hfit. pose proof (fits31_tlv _ _ _ Hfit) as Hf. unfold id_seq in *.
  apply gelem_tlv; [lia | apply Hf | reflexivity |]. cbn [gdec]. fold (D fuel).
  rewrite gfields_app.
  rewrite (gfields_enc fuel fs); auto; [| |eapply fits31_app_l, Hf].
  2: { apply Forall_forall. intros f _ H1 H2. apply gdec_enc; assumption. }
  rewrite gfields_cons. destruct o as [tv|]; cbn [trailer_bytes] in *.
  - destruct (enc_nonempty gt tv Ho) as (x & r & E).
    assert (G : gfield_dec (D fuel) 2 None true gt (enc (erase gt) tv) =
                gelem (D fuel) gt true (enc (erase gt) tv) (enc (erase gt) tv)).
    { rewrite E. apply gfield_dec_nonraw, Hnr. }
    rewrite G. rewrite <- (app_nil_r (enc (erase gt) tv)) at 2.
    rewrite (gdec_enc gt Hgt Hnr) by (auto; eapply fits31_app_r, Hf). reflexivity.
  - reflexivity.
Qed.
