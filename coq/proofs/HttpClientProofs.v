(* Client.Do terminates after a bounded number of requests for every server script. *)
From Gokrb5.lib Require Import Bytes JV.
From Gokrb5.model Require Import HttpClient.
Open Scope nat_scope.

Definition measure (redirects : nat) (authed : bool) : nat :=
  2 * (10 - redirects) + (if authed then 0 else 1).

Definition sent_of (o : outcome) : list bool :=
  match o with Final _ fl => fl | TooManyRedirects fl => fl | OutOfFuel => [] end.

Lemma do_bounded : forall fuel script i redirects authed sent,
  measure redirects authed < fuel ->
  do_ fuel script i redirects authed sent <> OutOfFuel /\
  length (sent_of (do_ fuel script i redirects authed sent)) <= length sent + measure redirects authed + 1.
Proof.
  induction fuel as [|f IH]; intros script i redirects authed sent Hm; [lia|].
  cbn [do_]. destruct (script i).
  - cbn [sent_of]. rewrite app_length. cbn [length]. split; [discriminate|lia].
  - destruct authed.
    + cbn [sent_of]. rewrite app_length. cbn [length]. split; [discriminate|lia].
    + specialize (IH script (S i) redirects true (sent ++ [false])).
      assert (measure redirects true < f) as H1 by (unfold measure in *; lia).
      destruct (IH H1) as [A B]. split; [exact A|].
      rewrite app_length in B. cbn [length] in B. unfold measure in *. lia.
  - cbn [sent_of]. rewrite app_length. cbn [length]. split; [discriminate|lia].
  - cbn [sent_of]. rewrite app_length. cbn [length]. split; [discriminate|lia].
  - destruct (Nat.leb_spec 10 (redirects + 1)).
    + cbn [sent_of]. rewrite app_length. cbn [length]. split; [discriminate|lia].
    + specialize (IH script (S i) (redirects + 1) false (sent ++ [authed])).
      assert (measure (redirects + 1) false < f) as H1 by (unfold measure in *; destruct authed; lia).
      destruct (IH H1) as [A B]. split; [exact A|].
      rewrite app_length in B. cbn [length] in B. unfold measure in *. destruct authed; lia.
  - cbn [sent_of]. rewrite app_length. cbn [length]. split; [discriminate|lia].
Qed.

(* For every sequence of server responses the call returns (the server's final response or an error) after at
   most 22 requests, starting from a fresh client. *)
Theorem do_terminates script :
  exists o, do_ 64 script 0 0 false [] = o /\ o <> OutOfFuel /\ length (sent_of o) <= 22.
Proof.
  eexists; split; [reflexivity|].
  destruct (do_bounded 64 script 0 0 false []) as [A B]; [cbn; lia|].
  split; [exact A|]. change (length (@nil bool) + measure 0 false + 1) with 22 in B. exact B.
Qed.

(* any fuel above the measure gives the same answer: the fuel 64 of the executable model is not a cut-off *)
Theorem do_terminates_general fuel script i redirects authed sent :
  measure redirects authed < fuel ->
  do_ fuel script i redirects authed sent <> OutOfFuel /\
  length (sent_of (do_ fuel script i redirects authed sent)) <= length sent + 2 * (10 - redirects) + 2.
Proof.
  intros H. destruct (do_bounded fuel script i redirects authed sent H) as [A B].
  split; [exact A|]. unfold measure in B. destruct authed; lia.
Qed.

(* a token is sent only in answer to a bare challenge, and never twice in a row *)
Lemma do_flags_shape : forall fuel script i redirects authed sent,
  (forall k, nth_error sent k = Some true -> nth_error sent (S k) = Some true -> False) ->
  (authed = true -> exists pre, sent = pre ++ [false]) ->
  forall k, nth_error (sent_of (do_ fuel script i redirects authed sent)) k = Some true ->
            nth_error (sent_of (do_ fuel script i redirects authed sent)) (S k) = Some true -> False.
Proof.
  induction fuel as [|f IH]; intros script i redirects authed sent Hs Ha k; [destruct k; discriminate|].
  assert (Hs' : forall k, nth_error (sent ++ [authed]) k = Some true -> nth_error (sent ++ [authed]) (S k) = Some true -> False).
  { intros j H1 H2.
    destruct (Nat.lt_ge_cases (S j) (length sent)) as [Hlt|Hge].
    - rewrite nth_error_app1 in H1, H2 by lia. eauto.
    - assert (S j = length sent) as E.
      { assert (S j < length (sent ++ [authed])) by (apply nth_error_Some; congruence).
        rewrite app_length in H; cbn in H; lia. }
      rewrite nth_error_app2 in H2 by lia. replace (S j - length sent) with 0 in H2 by lia. cbn in H2.
      injection H2 as ->. destruct (Ha eq_refl) as (pre & ->).
      rewrite app_length in E. cbn in E. assert (j = length pre) as -> by lia.
      rewrite <- app_assoc in H1. rewrite nth_error_app2 in H1 by lia. rewrite Nat.sub_diag in H1. discriminate. }
  cbn [do_]. destruct (script i); cbn [sent_of]; try apply Hs'.
  - destruct authed; cbn [sent_of]; [apply Hs'|].
    apply IH; [exact Hs'|]. intros _. exists sent. reflexivity.
  - destruct (10 <=? redirects + 1); cbn [sent_of]; [apply Hs'|].
    apply IH; [exact Hs'|discriminate].
Qed.

Theorem no_two_tokens_in_a_row script k :
  nth_error (sent_of (do_ 64 script 0 0 false [])) k = Some true ->
  nth_error (sent_of (do_ 64 script 0 0 false [])) (S k) = Some true -> False.
Proof.
  apply do_flags_shape; [intros j H; destruct j; discriminate|discriminate].
Qed.

(* The pinned code diverges against a server that always answers a bare challenge. *)
Theorem do_pinned_diverges_refuted : forall fuel i redirects authed sent,
  do_pinned fuel (fun _ => R401Nego) i redirects authed sent = OutOfFuel.
Proof. induction fuel as [|f IH]; intros; cbn; [reflexivity|apply IH]. Qed.

Example do_example :
  do_ 64 (script_of [R401Nego; R302; R401Nego] R200) 0 0 false [] = Final R200 [false; true; false; true]
  /\ do_ 64 (script_of [] R401Nego) 0 0 false [] = Final R401Nego [false; true]
  /\ sent_of (do_ 64 (script_of [] R302) 0 0 false []) = repeat false 10.
Proof. repeat split. Qed.
