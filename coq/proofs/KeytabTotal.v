(* Keytab.kt_unmarshal is total on every byte string: it never panics and the fuel given by
   kt_unmarshal (one unit per remaining byte) is never exhausted, i.e. the Go loop terminates. *)
From Gokrb5.lib Require Import Bytes JV.
From Gokrb5.model Require Import Keytab.
From Gokrb5.proofs Require Import KeytabParse.

Definition fine {A} (r : res A) : Prop := match r with Panic _ => False | Err c => c <> 99 | Ok _ => True end.

Lemma read_n_fine w r : fine (read_n w r).
Proof. unfold read_n. destruct (length r <? w)%nat; cbn; lia. Qed.

Lemma read_int_fine w le r : fine (read_int w le r).
Proof. unfold read_int, read_n. destruct (length r <? w)%nat; cbn; lia. Qed.

Lemma read_bytes_fine s r : fine (read_bytes s r).
Proof. unfold read_bytes. destruct (s <? 0); [cbn; lia|apply read_n_fine]. Qed.

Lemma bind_fine {A B} (r : res A) (f : A -> res B) : fine r -> (forall a, fine (f a)) -> fine (bind r f).
Proof. destruct r; cbn; auto. Qed.

Lemma parse_entry_fine v le eb : fine (parse_entry v le eb).
Proof.
  unfold parse_entry. destruct (parse_principal v le eb) as [pr r1].
  apply bind_fine; [apply read_int_fine|intros [ts r2]].
  apply bind_fine; [apply read_int_fine|intros [k8 r3]].
  apply bind_fine; [apply read_int_fine|intros [kt r4]].
  apply bind_fine; [apply read_int_fine|intros [kl r5]].
  apply bind_fine; [apply read_bytes_fine|intros [kv r6]].
  apply bind_fine; [|intros; exact I].
  destruct (4 <=? length r6)%nat; [|exact I].
  apply bind_fine; [apply read_int_fine|intros [x r7]; exact I].
Qed.

Lemma read_int_range w le r l r' : (0 < w)%nat -> read_int w le r = Ok (l, r') ->
  - 2 ^ (8 * Z.of_nat w - 1) <= l < 2 ^ (8 * Z.of_nat w - 1).
Proof.
  unfold read_int. destruct (read_n w r) as [[x r0]| |]; try discriminate.
  intros Hw E. injection E as <- _. apply sint_range. lia.
Qed.

Lemma kt_loop_fine v le : forall f l r acc,
  - 2 ^ 31 <= l < 2 ^ 31 -> (length r < f)%nat -> fine (kt_loop f v le l r acc).
Proof.
  induction f as [|f IH]; intros l r acc Hl Hf; [lia|].
  assert (Hnext : forall r' acc', (length r' < length r)%nat \/ (length r' <= length r /\ 4 <= length r')%nat ->
                                  (length r' < 4)%nat \/ (length r' - 4 < f)%nat ->
                                  fine (kt_next f v le r' acc')).
  { intros r' acc' _ Hlen. unfold kt_next.
    destruct (Nat.ltb_spec (length r') 4); [exact I|].
    destruct (read_int 4 le r') as [[l' r'']|c|s] eqn:E.
    - apply IH.
      + apply (read_int_range 4 le r' l' r''); [lia|exact E].
      + rewrite (read_int_rest_length _ _ _ _ _ E). lia.
    - pose proof (read_int_fine 4 le r') as F. rewrite E in F. exact F.
    - pose proof (read_int_fine 4 le r') as F. rewrite E in F. exact F. }
  rewrite kt_loop_unfold.
  destruct (Z.eqb_spec l 0) as [|Hnz]; [exact I|].
  destruct (Z.ltb_spec l 0) as [Hneg|Hpos].
  - cbv zeta. destruct (Z.ltb_spec (sint 32 (- l)) 0) as [|Hh]; [exact I|].
    destruct (Z.ltb_spec (zlen r) (sint 32 (- l))) as [|Hle]; [exact I|].
    assert (sint 32 (- l) = - l) as Eh.
    { destruct (Z.eq_dec l (- 2 ^ 31)) as [->|Hne].
      - exfalso. vm_compute in Hh. apply Hh. reflexivity.
      - apply sint_small; lia. }
    rewrite Eh in *. apply Hnext.
    + left. rewrite skipn_length. unfold zlen in Hle. lia.
    + rewrite skipn_length. unfold zlen in Hle. lia.
  - destruct (Z.ltb_spec (zlen r) l) as [|Hle]; [cbn; lia|].
    pose proof (parse_entry_fine v le (firstn (Z.to_nat l) r)) as F.
    destruct (parse_entry v le (firstn (Z.to_nat l) r)) as [e|c|s]; try exact F.
    apply Hnext.
    + left. rewrite skipn_length. unfold zlen in Hle. lia.
    + rewrite skipn_length. unfold zlen in Hle. lia.
Qed.

Theorem kt_unmarshal_total b : fine (kt_unmarshal b).
Proof.
  unfold kt_unmarshal. destruct b as [|b0 [|v r]]; try (cbn; lia).
  destruct (negb (b0 =? 5)); [cbn; lia|].
  destruct (negb ((v =? 1) || (v =? 2))); [cbn; lia|].
  destruct (length r =? 0)%nat; [exact I|].
  destruct (read_int 4 (v =? 1) r) as [[l r']|c|s] eqn:E.
  - pose proof (kt_loop_fine v (v =? 1) (S (length r')) l r' []
                  (read_int_range 4 _ _ _ _ ltac:(lia) E) ltac:(lia)) as F.
    destruct (kt_loop (S (length r')) v (v =? 1) l r' []); exact F.
  - pose proof (read_int_fine 4 (v =? 1) r) as F. rewrite E in F. exact F.
  - pose proof (read_int_fine 4 (v =? 1) r) as F. rewrite E in F. exact F.
Qed.
