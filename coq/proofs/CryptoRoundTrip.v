(* Message-level round trip: whatever `encrypt_with` produces, `decrypt` with the same key and usage returns
   the plaintext — for the AES profiles (RFC 3962 / 8009, ciphertext stealing), DES3 (RFC 3961) and RC4
   (RFC 4757). No hypothesis on the ciphers: AES and triple-DES decryption are proved to invert encryption
   (prim/AESInverse.v, prim/DESInverse.v); the premises only say that keys and data are byte strings. *)
From Gokrb5.lib Require Import Bytes JV.
From Gokrb5.prim Require CBC HMAC RC4 AES DES AESInverse DESInverse.
From Gokrb5.model Require Import Crypto.
From Gokrb5.proofs Require Import CryptoBasic CBCGuarded CTSProofs CryptoWf.
Import CBC.

Lemma last_two_some (bl r : list bytes) p l : last_two bl = Some (r, p, l) -> bl = r ++ [p; l].
Proof.
  unfold last_two. destruct (rev bl) as [|l0 [|p0 r0]] eqn:E; try discriminate.
  intros H. injection H as <- <- <-. apply (f_equal (@rev bytes)) in E. rewrite rev_involutive in E.
  rewrite E. cbn [rev]. rewrite <- app_assoc. reflexivity.
Qed.

Lemma last_two_ge2 (bl : list bytes) : (2 <= length bl)%nat -> exists r p l, last_two bl = Some (r, p, l).
Proof.
  intros H. unfold last_two. pose proof (rev_length bl) as L.
  destruct (rev bl) as [|l0 [|p0 r0]]; cbn [length] in L; try lia. eauto.
Qed.

Lemma zpad_length16 d : exists k, length (zpad 16 d) = (k * 16)%nat /\ (length d <= k * 16)%nat.
Proof.
  unfold zpad. rewrite app_length, zeros_length.
  pose proof (Nat.div_mod (length d) 16 ltac:(lia)) as D.
  pose proof (Nat.mod_upper_bound (length d) 16 ltac:(lia)) as U.
  destruct (Nat.eq_dec (length d mod 16) 0) as [E|N].
  - exists (length d / 16)%nat. rewrite E in *. cbn [Nat.sub]. rewrite Nat.mod_same by lia. lia.
  - exists (S (length d / 16)). rewrite (Nat.mod_small (16 - length d mod 16) 16) by lia. lia.
Qed.

Section CTSLen.
  Variable enc : bytes -> bytes.
  Hypothesis enc_length : forall b, length b = 16%nat -> length (enc b) = 16%nat.

  Lemma cts_encrypt_length d : (16 <= length d)%nat -> length (cts_encrypt enc d) = length d.
  Proof.
    intros Hd. unfold cts_encrypt.
    destruct (zpad_length16 d) as (k & Hk & Hle).
    assert (Lc : length (cbc_encrypt enc 16 (zeros 16) (zpad 16 d)) = (k * 16)%nat).
    { rewrite (cbc_encrypt_length enc 16 enc_length (zeros 16) _ k); [exact Hk|lia|apply zeros_length|exact Hk]. }
    destruct (Nat.leb_spec (length d) 16) as [Hle16|Hgt].
    - rewrite Lc. assert (length d = 16%nat) by lia.
      unfold zpad in Hk. rewrite app_length, zeros_length, H in Hk. cbn in Hk. lia.
    - set (c := cbc_encrypt enc 16 (zeros 16) (zpad 16 d)) in *.
      pose proof (chunks_lengths 16 k c ltac:(lia) Lc) as F.
      assert (length (chunks 16 c) = k) as Lk.
      { pose proof (concat_length_const 16 _ F) as Q. rewrite concat_chunks in Q by lia. rewrite Lc in Q. lia. }
      destruct (last_two_ge2 (chunks 16 c)) as (r & p & l & E); [lia|].
      rewrite E. apply last_two_some in E.
      rewrite firstn_length. apply Nat.min_l.
      rewrite E in F. apply Forall_app in F. destruct F as [Fr Fpl].
      pose proof (Forall_inv Fpl) as Hp. pose proof (Forall_inv (Forall_inv_tail Fpl)) as Hl. cbn beta in Hp, Hl.
      rewrite (concat_length_const 16 (r ++ [l; p])).
      + rewrite app_length. cbn [length]. rewrite E, app_length in Lk. cbn [length] in Lk. lia.
      + apply Forall_app. split; [exact Fr|]. repeat constructor; assumption.
  Qed.
End CTSLen.

Lemma integrity_hash_length et key usage d ih :
  integrity_hash et key usage d = Ok ih -> length ih = mac_len et.
Proof.
  unfold integrity_hash. destruct (derive_key et key _); cbn [bind]; try discriminate.
  intros H. injection H as <-. rewrite firstn_length. apply Nat.min_l. apply et_hmac_length.
Qed.

Lemma firstn_app_exact {A} (a b : list A) : firstn (length a) (a ++ b) = a.
Proof. rewrite firstn_app, Nat.sub_diag, firstn_all. cbn. apply app_nil_r. Qed.
Lemma skipn_app_exact {A} (a b : list A) : skipn (length a) (a ++ b) = b.
Proof. rewrite skipn_app, Nat.sub_diag, skipn_all. reflexivity. Qed.

Lemma et_family_cases et f : et_family et = Some f ->
  match f with
  | FAesSha1 => et = 17 \/ et = 18 | FAesSha2 => et = 19 \/ et = 20 | FDes3 => et = 16 | FRc4 => et = 23
  end.
Proof.
  unfold et_family.
  destruct (Z.eqb_spec et 17); [intros H; injection H as <-; auto|].
  destruct (Z.eqb_spec et 18); [intros H; injection H as <-; auto|].
  destruct (Z.eqb_spec et 19); [intros H; injection H as <-; auto|].
  destruct (Z.eqb_spec et 20); [intros H; injection H as <-; auto|].
  destruct (Z.eqb_spec et 16); [intros H; injection H as <-; auto|].
  destruct (Z.eqb_spec et 23); [intros H; injection H as <-; auto|]. discriminate.
Qed.

Section AES.
  Lemma aes_ecb_length ke b : length b = 16%nat -> length (aes_ecb ke b) = 16%nat.
  Proof. unfold aes_ecb. apply AES.aes_encrypt_rk_length. Qed.

  Theorem aes_sha1_roundtrip et key usage conf msg ct :
    et_family et = Some FAesSha1 -> length conf = 16%nat ->
    wf_bytes key -> wf_bytes conf -> wf_bytes msg ->
    encrypt_with et key usage conf msg = Ok ct -> decrypt et key usage ct = Ok msg.
  Proof.
    intros Hf Hc Wk Wc Wm. unfold encrypt_with, decrypt. rewrite Hf.
    destruct (negb (length key =? key_len et)%nat); [discriminate|].
    destruct (derive_key et key (usage_const usage 170)) as [ke| |] eqn:Ek; cbn [bind]; try discriminate.
    destruct (integrity_hash et key usage (conf ++ msg)) as [ih| |] eqn:Ei; cbn [bind]; try discriminate.
    intros H. injection H as <-.
    pose proof (integrity_hash_length _ _ _ _ _ Ei) as Lih.
    assert (Lpt : (16 <= length (conf ++ msg))%nat) by (rewrite app_length; lia).
    pose proof (cts_encrypt_length (aes_ecb ke) (aes_ecb_length ke) _ Lpt) as Lc.
    assert (conf_len et = 16%nat) as Hcl.
    { destruct (et_family_cases _ _ Hf) as [->| ->]; reflexivity. }
    rewrite app_length, Lih, Lc, Hcl.
    destruct (Nat.ltb_spec (length (conf ++ msg) + mac_len et) (16 + mac_len et)); [lia|].
    replace (length (conf ++ msg) + mac_len et - mac_len et)%nat with (length (cts_encrypt (aes_ecb ke) (conf ++ msg))) by lia.
    rewrite firstn_app_exact, skipn_app_exact.
    assert (Wke : wf_bytes ke) by exact (derive_key_aes_wf et key _ ke (or_introl Hf) Wk (usage_const_nonempty _ _) Ek).
    rewrite (cts_roundtrip (aes_ecb ke) (aes_ecb_dec ke) (aes_ecb_inverse ke Wke) (aes_ecb_length ke) (aes_ecb_wf ke Wke));
      [|exact Lpt|apply wf_bytes_app; auto].
    cbn [bind]. rewrite Ei. cbn [bind]. rewrite beq_bytes_refl.
    rewrite <- Hc. rewrite skipn_app_exact. reflexivity.
  Qed.
End AES.

Section AES2.
  Theorem aes_sha2_roundtrip et key usage conf msg ct :
    et_family et = Some FAesSha2 -> length conf = 16%nat ->
    wf_bytes key -> wf_bytes conf -> wf_bytes msg ->
    encrypt_with et key usage conf msg = Ok ct -> decrypt et key usage ct = Ok msg.
  Proof.
    intros Hf Hc Wk Wc Wm. unfold encrypt_with, decrypt. rewrite Hf.
    destruct (negb (length key =? key_len et)%nat); [discriminate|].
    destruct (derive_key et key (usage_const usage 170)) as [ke| |] eqn:Ek; cbn [bind]; try discriminate.
    set (c := cts_encrypt (aes_ecb ke) (conf ++ msg)).
    destruct (integrity_hash et key usage (zeros 16 ++ c)) as [ih| |] eqn:Ei; cbn [bind]; try discriminate.
    intros H. injection H as <-.
    pose proof (integrity_hash_length _ _ _ _ _ Ei) as Lih.
    assert (Lpt : (16 <= length (conf ++ msg))%nat) by (rewrite app_length; lia).
    pose proof (cts_encrypt_length (aes_ecb ke) (aes_ecb_length ke) _ Lpt) as Lc. fold c in Lc.
    assert (conf_len et = 16%nat) as Hcl.
    { destruct (et_family_cases _ _ Hf) as [->| ->]; reflexivity. }
    rewrite app_length, Lih, Lc, Hcl.
    destruct (Nat.ltb_spec (length (conf ++ msg) + mac_len et) (16 + mac_len et)); [lia|].
    replace (length (conf ++ msg) + mac_len et - mac_len et)%nat with (length c) by lia.
    rewrite firstn_app_exact, skipn_app_exact. unfold c at 1.
    assert (Wke : wf_bytes ke) by exact (derive_key_aes_wf et key _ ke (or_intror Hf) Wk (usage_const_nonempty _ _) Ek).
    rewrite (cts_roundtrip (aes_ecb ke) (aes_ecb_dec ke) (aes_ecb_inverse ke Wke) (aes_ecb_length ke) (aes_ecb_wf ke Wke));
      [|exact Lpt|apply wf_bytes_app; auto].
    cbn [bind]. rewrite Ei. cbn [bind]. rewrite beq_bytes_refl.
    rewrite <- Hc. rewrite skipn_app_exact. reflexivity.
  Qed.
End AES2.

(* DES3: the RFC 3961 profile pads with zeros and the padding stays in the decrypted message *)
Lemma zpad_length8 d : exists k, length (zpad 8 d) = (k * 8)%nat.
Proof.
  unfold zpad. rewrite app_length, zeros_length.
  pose proof (Nat.div_mod (length d) 8 ltac:(lia)) as D.
  pose proof (Nat.mod_upper_bound (length d) 8 ltac:(lia)) as U.
  destruct (Nat.eq_dec (length d mod 8) 0) as [E|N].
  - exists (length d / 8)%nat. rewrite E in *. cbn [Nat.sub]. rewrite Nat.mod_same by lia. lia.
  - exists (S (length d / 8)). rewrite (Nat.mod_small (8 - length d mod 8) 8) by lia. lia.
Qed.

Section DES3.
  Lemma des3_inv ke b : length b = 8%nat -> wf_bytes b -> des3_ecb_dec ke (des3_ecb ke b) = b.
  Proof. intros. unfold des3_ecb, des3_ecb_dec. now apply DESInverse.tdes_decrypt_encrypt_ks. Qed.

  Lemma des3_ecb_wf ke b : length b = 8%nat -> wf_bytes b -> wf_bytes (des3_ecb ke b).
  Proof. intros _ _. unfold des3_ecb. apply DES.tdes_encrypt_ks_wf. Qed.

  Lemma des3_ecb_length ke b : length b = 8%nat -> length (des3_ecb ke b) = 8%nat.
  Proof. intros _. unfold des3_ecb. apply DES.tdes_encrypt_ks_length. Qed.

  Theorem des3_roundtrip key usage conf msg ct :
    length conf = 8%nat -> wf_bytes conf -> wf_bytes msg ->
    encrypt_with 16 key usage conf msg = Ok ct ->
    decrypt 16 key usage ct = Ok (msg ++ zeros ((8 - length (conf ++ msg) mod 8) mod 8)).
  Proof.
    intros Hc Wc Wm. unfold encrypt_with, decrypt. change (et_family 16) with (Some FDes3). cbv iota.
    destruct (derive_key 16 key (usage_const usage 170)) as [ke| |] eqn:Ek; cbn [bind]; try discriminate.
    set (pt := zpad 8 (conf ++ msg)).
    destruct (integrity_hash 16 key usage pt) as [ih| |] eqn:Ei; cbn [bind]; try discriminate.
    intros H. injection H as <-.
    pose proof (integrity_hash_length _ _ _ _ _ Ei) as Lih.
    destruct (zpad_length8 (conf ++ msg)) as (k & Hk). fold pt in Hk.
    assert (Lc : length (cbc_encrypt (des3_ecb ke) 8 (zeros 8) pt) = length pt).
    { apply (cbc_encrypt_length (des3_ecb ke) 8 (des3_ecb_length ke) (zeros 8) pt k); [lia|apply zeros_length|exact Hk]. }
    set (c := cbc_encrypt (des3_ecb ke) 8 (zeros 8) pt) in *.
    assert (8 <= length pt)%nat as L8.
    { unfold pt, zpad. rewrite !app_length. lia. }
    rewrite app_length, Lih, Lc.
    change (conf_len 16) with 8%nat.
    destruct (Nat.ltb_spec (length pt + mac_len 16) (8 + mac_len 16)); [lia|].
    replace (length pt + mac_len 16 - mac_len 16)%nat with (length c) by lia.
    rewrite Lc at 1. rewrite Hk at 1. rewrite Nat.mod_mul by lia. cbn [Nat.eqb negb].
    rewrite firstn_app_exact, skipn_app_exact. unfold c.
    rewrite (cbc_decrypt_encrypt_g (des3_ecb ke) (des3_ecb_dec ke) 8 (des3_inv ke) (des3_ecb_length ke) (des3_ecb_wf ke) (zeros 8) pt k);
      [|lia|apply zeros_length|apply zeros_wf|exact Hk|unfold pt, zpad; repeat (apply wf_bytes_app; split); auto using zeros_wf].
    rewrite Ei. cbn [bind]. rewrite beq_bytes_refl.
    unfold pt, zpad. rewrite <- app_assoc, <- Hc, skipn_app_exact. reflexivity.
  Qed.
End DES3.

(* RC4: the stream cipher is an involution, with no hypothesis *)
Lemma rc4_prga_involutive data i j s : RC4.rc4_prga (RC4.rc4_prga data i j s) i j s = data.
Proof.
  revert i j s; induction data as [|d r IH]; intros i j s; cbn [RC4.rc4_prga]; [reflexivity|].
  rewrite IH. f_equal. rewrite Z.lxor_assoc, Z.lxor_nilpotent, Z.lxor_0_r. reflexivity.
Qed.

Theorem rc4_involutive k d : RC4.rc4 k (RC4.rc4 k d) = d.
Proof. apply rc4_prga_involutive. Qed.

Theorem rc4_roundtrip key usage conf msg ct :
  length conf = 8%nat -> length key = 16%nat ->
  encrypt_with 23 key usage conf msg = Ok ct -> decrypt 23 key usage ct = Ok msg.
Proof.
  intros Hc Hk. unfold encrypt_with, decrypt. change (et_family 23) with (Some FRc4). cbv iota.
  change (key_len 23) with 16%nat. rewrite Hk. cbn [Nat.eqb negb].
  assert (rc4_encrypt key usage conf msg = Ok ct -> rc4_decrypt key usage ct = Ok msg) as R.
  { unfold rc4_encrypt, rc4_decrypt.
    set (k2 := HMAC.hmac_md5 key (rc4_msg_type usage)).
    set (chk := HMAC.hmac_md5 k2 (conf ++ msg)).
    destruct (negb _); [discriminate|]. intros H. injection H as <-.
    assert (length chk = 16%nat) as Lchk by apply HMAC.hmac_md5_length.
    rewrite app_length, RC4.rc4_length, Lchk, app_length, Hc.
    destruct (Nat.ltb_spec (16 + (8 + length msg)) 24); [lia|].
    rewrite <- Lchk. rewrite firstn_app_exact, skipn_app_exact.
    rewrite rc4_involutive. rewrite beq_bytes_refl. rewrite <- Hc, skipn_app_exact. reflexivity. }
  exact R.
Qed.

(* Acceptance set: decryption succeeds only when the trailing MAC equals the integrity hash the RFC defines. *)
Theorem decrypt_accepts_only_valid_mac et key usage ct m :
  decrypt et key usage ct = Ok m ->
  let n := (length ct - mac_len et)%nat in
  match et_family et with
  | Some FAesSha1 => exists ke pt, derive_key et key (usage_const usage 170) = Ok ke /\
      cts_decrypt (aes_ecb_dec ke) (firstn n ct) = Ok pt /\
      integrity_hash et key usage pt = Ok (skipn n ct) /\ m = skipn 16 pt
  | Some FAesSha2 => length key = key_len et /\ exists ke pt, derive_key et key (usage_const usage 170) = Ok ke /\
      cts_decrypt (aes_ecb_dec ke) (firstn n ct) = Ok pt /\
      integrity_hash et key usage (zeros 16 ++ firstn n ct) = Ok (skipn n ct) /\ m = skipn 16 pt
  | Some FDes3 => exists ke, derive_key et key (usage_const usage 170) = Ok ke /\
      let pt := cbc_decrypt (des3_ecb_dec ke) 8 (zeros 8) (firstn n ct) in
      integrity_hash et key usage pt = Ok (skipn n ct) /\ m = skipn 8 pt
  | Some FRc4 =>
      let k2 := HMAC.hmac_md5 key (rc4_msg_type usage) in
      let pt := RC4.rc4 (HMAC.hmac_md5 k2 (firstn 16 ct)) (skipn 16 ct) in
      length key = key_len et /\ HMAC.hmac_md5 k2 pt = firstn 16 ct /\ m = skipn 8 pt
  | None => False
  end.
Proof.
  unfold decrypt. destruct (et_family et) as [[| | |]|]; cbv zeta.
  - destruct (_ <? _)%nat; [discriminate|].
    destruct (derive_key et key _) as [ke| |]; cbn [bind]; try discriminate.
    destruct (cts_decrypt _ _) as [pt| |] eqn:Ec; cbn [bind]; try discriminate.
    destruct (integrity_hash et key usage pt) as [ih| |] eqn:Ei; cbn [bind]; try discriminate.
    destruct (beq_bytes ih _) eqn:B; [|discriminate]. apply beq_bytes_eq in B. subst ih.
    intros H. injection H as <-. exists ke, pt. repeat split; assumption.
  - destruct (Nat.eqb_spec (length key) (key_len et)) as [Hk|]; cbn [negb]; [|discriminate].
    destruct (_ <? _)%nat; [discriminate|].
    destruct (derive_key et key _) as [ke| |]; cbn [bind]; try discriminate.
    destruct (cts_decrypt _ _) as [pt| |] eqn:Ec; cbn [bind]; try discriminate.
    destruct (integrity_hash et key usage _) as [ih| |] eqn:Ei; cbn [bind]; try discriminate.
    destruct (beq_bytes ih _) eqn:B; [|discriminate]. apply beq_bytes_eq in B. subst ih.
    intros H. injection H as <-. split; [exact Hk|]. exists ke, pt. repeat split; assumption.
  - destruct (_ <? _)%nat; [discriminate|].
    destruct (derive_key et key _) as [ke| |]; cbn [bind]; try discriminate.
    destruct (negb _); [discriminate|].
    destruct (integrity_hash et key usage _) as [ih| |] eqn:Ei; cbn [bind]; try discriminate.
    destruct (beq_bytes ih _) eqn:B; [|discriminate]. apply beq_bytes_eq in B. subst ih.
    intros H. injection H as <-. exists ke. repeat split; assumption.
  - destruct (Nat.eqb_spec (length key) (key_len et)) as [Hk|]; cbn [negb]; [|discriminate].
    unfold rc4_decrypt. destruct (_ <? _)%nat; [discriminate|].
    destruct (beq_bytes _ _) eqn:B; [|discriminate]. apply beq_bytes_eq in B.
    intros H. injection H as <-. split; [exact Hk|]. split; [exact B|reflexivity].
  - discriminate.
Qed.
