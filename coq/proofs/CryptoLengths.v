(* Ciphertext lengths of the RFC profiles: what a peer can rely on when framing messages. *)
From Gokrb5.lib Require Import Bytes JV.
From Gokrb5.prim Require CBC HMAC RC4 AES DES.
From Gokrb5.model Require Import Crypto.
From Gokrb5.proofs Require Import CryptoBasic CBCGuarded CTSProofs CryptoWf CryptoRoundTrip.
Import CBC.

(* AES profiles (RFC 3962 / 8009): confounder + message + truncated MAC, no padding (ciphertext stealing) *)
Theorem aes_ciphertext_length et key usage conf msg ct :
  (et_family et = Some FAesSha1 \/ et_family et = Some FAesSha2) -> length conf = 16%nat ->
  encrypt_with et key usage conf msg = Ok ct ->
  length ct = (16 + length msg + mac_len et)%nat.
Proof.
  intros Hf Hc. unfold encrypt_with.
  assert (Lpt : (16 <= length (conf ++ msg))%nat) by (rewrite app_length; lia).
  destruct Hf as [Hf|Hf]; rewrite Hf.
  - destruct (negb _); [discriminate|].
    destruct (derive_key et key _) as [ke| |]; cbn [bind]; try discriminate.
    destruct (integrity_hash et key usage _) as [ih| |] eqn:Ei; cbn [bind]; try discriminate.
    intros H. injection H as <-. rewrite app_length, (integrity_hash_length _ _ _ _ _ Ei).
    rewrite (cts_encrypt_length (aes_ecb ke) (aes_ecb_length ke) _ Lpt), app_length. lia.
  - destruct (negb _); [discriminate|].
    destruct (derive_key et key _) as [ke| |]; cbn [bind]; try discriminate.
    destruct (integrity_hash et key usage _) as [ih| |] eqn:Ei; cbn [bind]; try discriminate.
    intros H. injection H as <-. rewrite app_length, (integrity_hash_length _ _ _ _ _ Ei).
    rewrite (cts_encrypt_length (aes_ecb ke) (aes_ecb_length ke) _ Lpt), app_length. lia.
Qed.

(* RC4 (RFC 4757): 16-byte checksum + confounder + message *)
Theorem rc4_ciphertext_length key usage conf msg ct :
  encrypt_with 23 key usage conf msg = Ok ct -> length ct = (16 + length conf + length msg)%nat.
Proof.
  unfold encrypt_with. change (et_family 23) with (Some FRc4). cbv iota.
  assert (rc4_encrypt key usage conf msg = Ok ct -> length ct = (16 + length conf + length msg)%nat) as R.
  { unfold rc4_encrypt. destruct (negb _); [discriminate|]. intros H. injection H as <-.
    rewrite app_length, HMAC.hmac_md5_length, RC4.rc4_length, app_length. lia. }
  destruct (negb _); exact R.
Qed.

(* DES3 (RFC 3961): confounder + message padded with zeros to the 8-byte block + 20-byte MAC *)
Theorem des3_ciphertext_length key usage conf msg ct :
  encrypt_with 16 key usage conf msg = Ok ct ->
  length ct = (length (conf ++ msg) + (8 - length (conf ++ msg) mod 8) mod 8 + 20)%nat.
Proof.
  unfold encrypt_with. change (et_family 16) with (Some FDes3). cbv iota.
  destruct (derive_key 16 key _) as [ke| |]; cbn [bind]; try discriminate.
  set (pt := zpad 8 (conf ++ msg)).
  destruct (integrity_hash 16 key usage pt) as [ih| |] eqn:Ei; cbn [bind]; try discriminate.
  intros H. injection H as <-.
  destruct (zpad_length8 (conf ++ msg)) as (k & Hk). fold pt in Hk.
  rewrite app_length, (integrity_hash_length _ _ _ _ _ Ei).
  rewrite (cbc_encrypt_length (des3_ecb ke) 8 (des3_ecb_length ke) (zeros 8) pt k); [|lia|apply zeros_length|exact Hk].
  unfold pt, zpad. rewrite app_length, zeros_length. reflexivity.
Qed.

(* Key-usage separation starts with the derivation constant: it is injective in the usage number over the whole
   32-bit range and in the key kind (0xAA encryption, 0x55 integrity, 0x99 checksum), so distinct usages or kinds
   never share a constant (what the derived keys then are is HMAC / DK strength). *)
Theorem usage_const_injective u1 o1 u2 o2 :
  0 <= u1 < 2 ^ 32 -> 0 <= u2 < 2 ^ 32 ->
  usage_const u1 o1 = usage_const u2 o2 -> u1 = u2 /\ o1 = o2.
Proof.
  intros H1 H2 E. unfold usage_const in E.
  apply app_inj_tail in E. destruct E as [E Eo]. split; [|exact Eo].
  unfold be_bytes in E. apply (f_equal (@rev Z)) in E. rewrite !rev_involutive in E.
  apply (le_bytes_inj 4); [| |exact E]; change (256 ^ Z.of_nat 4) with (2 ^ 32); assumption.
Qed.

Example usage_const_bits_8_15_matter : usage_const 2 170 <> usage_const 1026 170 /\ usage_const 256 85 <> usage_const 0 85.
Proof. split; intros H; discriminate H. Qed.
