(* Gokrb5.proofs.DERBasic — round trips of the TLV layer and of the INTEGER body (model/DER.v), in both
   directions: the parser inverts the writer, and the parser accepts only what the writer writes. *)
From Coq Require Import ZifyBool.
From Gokrb5.lib Require Import Bytes.
From Gokrb5.model Require Import DER.
Local Ltac Zify.zify_post_hook ::= Z.div_mod_to_equations.

(* ---------- generalities ---------- *)
Lemma wf_bytesb_iff l : wf_bytesb l = true <-> wf_bytes l.
Proof.
  unfold wf_bytesb, wf_bytes. rewrite forallb_forall, Forall_forall.
  split; intros H x Hx; specialize (H x Hx); unfold is_byte in *; lia.
Qed.

Lemma is_byte_iff x : is_byte x = true <-> 0 <= x < 256.
Proof. unfold is_byte; lia. Qed.

Lemma wf_bytes_cons x l : wf_bytes (x :: l) <-> 0 <= x < 256 /\ wf_bytes l.
Proof. unfold wf_bytes. split; [intros H; inversion H; auto | intros [? ?]; constructor; auto]. Qed.

Lemma wf_bytes_nil : wf_bytes [].
Proof. constructor. Qed.

Lemma zlen_length {A} (l : list A) : Z.to_nat (zlen l) = length l.
Proof. unfold zlen. apply Nat2Z.id. Qed.

Lemma zfuel_spec n : Z.abs n < 2 ^ Z.of_nat (zfuel n).
Proof.
  unfold zfuel. rewrite Nat2Z.inj_succ, Z2Nat.id by apply Z.log2_nonneg.
  destruct (Z.eq_dec (Z.abs n) 0) as [E|E].
  - rewrite E. cbn. lia.
  - apply Z.log2_spec. lia.
Qed.

Lemma pow_base_le (B : Z) (f : nat) : 2 <= B -> 2 ^ Z.of_nat f <= B ^ Z.of_nat f.
Proof. intros H. apply Z.pow_le_mono_l. lia. Qed.

Lemma pow_succ_nat (B : Z) (f : nat) : B ^ Z.of_nat (S f) = B * B ^ Z.of_nat f.
Proof. rewrite Nat2Z.inj_succ, Z.pow_succ_r by lia. reflexivity. Qed.

Lemma pow_pos_nat (B : Z) (f : nat) : 0 < B -> 0 < B ^ Z.of_nat f.
Proof. intros. apply Z.pow_pos_nonneg; lia. Qed.

Lemma zfuel_256 n : 0 <= n -> n < 256 ^ Z.of_nat (zfuel n).
Proof. intros H. pose proof (zfuel_spec n). pose proof (pow_base_le 256 (zfuel n)). lia. Qed.

Lemma be_val_acc_ge c l : wf_bytes l -> 0 <= c -> c <= be_val_acc c l.
Proof.
  intros H; revert c; induction H as [|x l Hx Hl IH]; intros c Hc; cbn [be_val_acc]; [lia|].
  specialize (IH (c * 256 + x)). lia.
Qed.

(* ---------- length octets ---------- *)
Lemma be_min_0 f acc : be_min f 0 acc = acc.
Proof. destruct f; reflexivity. Qed.

Lemma be_min_val f : forall n acc, 0 <= n < 256 ^ Z.of_nat f ->
  be_val_acc 0 (be_min f n acc) = be_val_acc n acc.
Proof.
  induction f as [|f IH]; intros n acc H.
  - change (256 ^ Z.of_nat 0) with 1 in H. assert (n = 0) by lia; subst. reflexivity.
  - rewrite pow_succ_nat in H. cbn [be_min]. destruct (Z.leb_spec n 0).
    + assert (n = 0) by lia; subst; reflexivity.
    + rewrite IH by lia. cbn [be_val_acc]. f_equal. lia.
Qed.

Lemma be_min_wf f : forall n acc, wf_bytes acc -> wf_bytes (be_min f n acc).
Proof.
  induction f as [|f IH]; intros n acc H; cbn [be_min]; destruct (n <=? 0); auto.
  apply IH. apply wf_bytes_cons. split; [lia | auto].
Qed.

Lemma be_min_len f : forall (k : nat) n acc, 0 <= n < 256 ^ Z.of_nat k ->
  (length (be_min f n acc) <= k + length acc)%nat.
Proof.
  induction f as [|f IH]; intros k n acc H; cbn [be_min]; destruct (Z.leb_spec n 0); try lia.
  destruct k as [|k]; [change (256 ^ Z.of_nat 0) with 1 in H; lia|].
  rewrite pow_succ_nat in H. specialize (IH k (n / 256) (n mod 256 :: acc)). cbn [length] in IH. lia.
Qed.

Lemma be_min_head f : forall n acc, 0 < n < 256 ^ Z.of_nat f ->
  exists x l, be_min f n acc = x :: l /\ x <> 0.
Proof.
  induction f as [|f IH]; intros n acc H.
  - change (256 ^ Z.of_nat 0) with 1 in H. lia.
  - rewrite pow_succ_nat in H. cbn [be_min]. destruct (Z.leb_spec n 0); [lia|].
    destruct (Z.eq_dec (n / 256) 0) as [E|E].
    + rewrite E, be_min_0. exists (n mod 256), acc. split; [reflexivity | lia].
    + apply IH. lia.
Qed.

Lemma be_take_app o : forall r c, wf_bytes o ->
  be_take (length o) (o ++ r) c = Some (be_val_acc c o, r).
Proof.
  induction o as [|x o IH]; intros r c H; [reflexivity|].
  apply wf_bytes_cons in H. destruct H as [Hx Ho]. cbn [length app be_take be_val_acc].
  replace (is_byte x) with true by (symmetry; apply is_byte_iff; lia). apply IH, Ho.
Qed.

Lemma be_take_inv k : forall b c n r, be_take k b c = Some (n, r) ->
  exists o, b = o ++ r /\ length o = k /\ wf_bytes o /\ n = be_val_acc c o.
Proof.
  induction k as [|k IH]; intros b c n r H; cbn [be_take] in H.
  - inversion H; subst. exists []. repeat split. constructor.
  - destruct b as [|x b]; [discriminate|]. destruct (is_byte x) eqn:Hx; [|discriminate].
    apply IH in H. destruct H as (o & -> & Hl & Hw & ->). exists (x :: o).
    cbn [app length be_val_acc]. repeat split; try lia.
    apply wf_bytes_cons. split; [apply is_byte_iff, Hx | exact Hw].
Qed.

Theorem parse_len_der_len n r : 0 <= n < 2 ^ 32 -> parse_len (der_len n ++ r) = Some (n, r).
Proof.
  intros H. unfold der_len. destruct (Z.ltb_spec n 128) as [Hs|Hs].
  - cbn [app parse_len]. replace ((0 <=? n) && (n <? 128)) with true by lia. reflexivity.
  - set (o := be_min (zfuel n) n []).
    pose proof (zfuel_256 n ltac:(lia)) as Hf.
    assert (Hlen : (length o <= 4)%nat).
    { pose proof (be_min_len (zfuel n) 4 n [] ltac:(change (256 ^ Z.of_nat 4) with (2 ^ 32); lia)) as L.
      cbn [length] in L. fold o in L. lia. }
    destruct (be_min_head (zfuel n) n [] ltac:(lia)) as (x & l & Ho & Hx). fold o in Ho.
    assert (Hw : wf_bytes o) by (apply be_min_wf; constructor).
    assert (Hv : be_val_acc 0 o = n) by (unfold o; rewrite be_min_val by lia; reflexivity).
    assert (Hz : 1 <= zlen o <= 4) by (unfold zlen; rewrite Ho in *; cbn [length] in *; lia).
    cbn [app parse_len].
    replace ((0 <=? 128 + zlen o) && (128 + zlen o <? 128)) with false by lia.
    replace ((128 <? 128 + zlen o) && (128 + zlen o <=? 132)) with true by lia.
    replace (128 + zlen o - 128) with (zlen o) by lia. rewrite zlen_length.
    rewrite be_take_app by exact Hw. rewrite Hv.
    rewrite Ho. cbn [app]. replace (x =? 0) with false by lia.
    replace (n <? 128) with false by lia. reflexivity.
Qed.

Definition nz_head (o : bytes) : Prop := match o with [] => True | x :: _ => x <> 0 end.

Lemma be_val_pos x l : wf_bytes (x :: l) -> x <> 0 -> 1 <= be_val_acc 0 (x :: l).
Proof.
  intros H Hx. apply wf_bytes_cons in H. destruct H as [Hb Hl]. cbn [be_val_acc].
  pose proof (be_val_acc_ge (0 * 256 + x) l Hl ltac:(lia)). lia.
Qed.

Lemma be_min_canon o : wf_bytes o -> nz_head o -> forall f acc,
  be_val_acc 0 o < 256 ^ Z.of_nat f -> be_min f (be_val_acc 0 o) acc = o ++ acc.
Proof.
  induction o as [|y o IH] using rev_ind; intros Hw Hn f acc Hf.
  - cbn. apply be_min_0.
  - apply wf_bytes_app in Hw. destruct Hw as [Hwo Hy]. apply wf_bytes_cons in Hy. destruct Hy as [Hy _].
    rewrite be_val_acc_app in *. cbn [be_val_acc] in *.
    assert (Hno : nz_head o) by (destruct o; [exact I | exact Hn]).
    assert (Hpos : 0 < be_val_acc 0 o * 256 + y).
    { destruct o as [|x o]; [cbn in *; lia|]. pose proof (be_val_pos x o Hwo Hn). lia. }
    assert (0 <= be_val_acc 0 o) by (apply be_val_acc_ge; [exact Hwo | lia]).
    destruct f as [|f]; [change (256 ^ Z.of_nat 0) with 1 in Hf; lia|].
    rewrite pow_succ_nat in Hf. cbn [be_min]. destruct (Z.leb_spec (be_val_acc 0 o * 256 + y) 0); [lia|].
    replace ((be_val_acc 0 o * 256 + y) / 256) with (be_val_acc 0 o) by lia.
    replace ((be_val_acc 0 o * 256 + y) mod 256) with y by lia.
    rewrite IH by (auto; lia). rewrite <- app_assoc. reflexivity.
Qed.

(* parse_len accepts only the minimal encoding *)
Theorem parse_len_canon b n r : parse_len b = Some (n, r) -> b = der_len n ++ r /\ 0 <= n < 2 ^ 32.
Proof.
  unfold parse_len. destruct b as [|l b]; [discriminate|].
  destruct ((0 <=? l) && (l <? 128)) eqn:C1.
  - intros E; inversion E; subst. unfold der_len. replace (n <? 128) with true by lia. split; [reflexivity | lia].
  - destruct ((128 <? l) && (l <=? 132)) eqn:C2; [|discriminate].
    destruct b as [|x b']; [discriminate|]. destruct (Z.eqb_spec x 0); [discriminate|].
    destruct (be_take (Z.to_nat (l - 128)) (x :: b') 0) as [[n' r']|] eqn:E; [|discriminate].
    destruct (Z.ltb_spec n' 128); [discriminate|]. intros E'; inversion E'; subst n' r'.
    apply be_take_inv in E. destruct E as (o & Eb & Hl & Hw & Hn).
    assert (Hnz : nz_head o).
    { destruct o as [|x' o']; [exact I|]. cbn [app] in Eb. inversion Eb; subst. exact n0. }
    assert (Hb : 0 <= n < 256 ^ zlen o).
    { subst n. apply (be_val_bound o Hw). }
    assert (Hz : zlen o = l - 128) by (unfold zlen; lia).
    assert (Hlt : n < 2 ^ 32).
    { assert (256 ^ zlen o <= 256 ^ 4) by (apply Z.pow_le_mono_r; lia).
      change (256 ^ 4) with (2 ^ 32) in *. lia. }
    split; [|lia].
    unfold der_len. replace (n <? 128) with false by lia.
    pose proof (zfuel_256 n ltac:(lia)) as Hf.
    assert (Hm : be_min (zfuel n) n [] = o ++ []).
    { revert Hf. generalize (zfuel n). intros f Hf. subst n. apply be_min_canon; auto. }
    rewrite Hm, app_nil_r. rewrite Eb. cbn [app]. f_equal. lia.
Qed.

Lemma der_len_nonempty n : der_len n <> [].
Proof. unfold der_len. destruct (n <? 128); discriminate. Qed.

Lemma der_len_wf n : 0 <= n < 2 ^ 32 -> wf_bytes (der_len n).
Proof.
  intros H. unfold der_len. destruct (Z.ltb_spec n 128).
  - apply wf_bytes_cons. split; [lia | constructor].
  - apply wf_bytes_cons. split; [|apply be_min_wf; constructor].
    pose proof (be_min_len (zfuel n) 4 n [] ltac:(change (256 ^ Z.of_nat 4) with (2 ^ 32); lia)) as L.
    cbn [length] in L. unfold zlen. lia.
Qed.

(* ---------- TLV ---------- *)
Lemma splitz_app a : forall r, splitz (a ++ r) (zlen a) = Some (a, r).
Proof.
  induction a as [|x a IH]; intros r.
  - destruct r; reflexivity.
  - rewrite zlen_cons. cbn [app splitz]. pose proof (zlen_nonneg a).
    destruct (Z.leb_spec (1 + zlen a) 0); [lia|].
    replace (1 + zlen a - 1) with (zlen a) by lia. rewrite IH. reflexivity.
Qed.

Lemma splitz_inv l : forall n a r, 0 <= n -> splitz l n = Some (a, r) -> l = a ++ r /\ zlen a = n.
Proof.
  induction l as [|x l IH]; intros n a r Hn H; cbn [splitz] in H.
  - destruct (Z.leb_spec n 0); [|discriminate]. inversion H; subst. split; [reflexivity | cbn; lia].
  - destruct (Z.leb_spec n 0).
    + inversion H; subst. split; [reflexivity | cbn; lia].
    + destruct (splitz l (n - 1)) as [[a' b']|] eqn:E; [|discriminate]. inversion H; subst.
      apply IH in E; [|lia]. destruct E as [-> Hz]. split; [reflexivity | rewrite zlen_cons; lia].
Qed.

Theorem parse_tlv_tlv id body r : id mod 32 <> 31 -> zlen body < 2 ^ 32 ->
  parse_tlv (tlv id body ++ r) = Some (id, body, r).
Proof.
  intros Hid Hb. unfold tlv. cbn [app parse_tlv]. destruct (Z.eqb_spec (id mod 32) 31); [contradiction|].
  rewrite <- app_assoc, parse_len_der_len by (pose proof (zlen_nonneg body); lia).
  rewrite splitz_app. reflexivity.
Qed.

Corollary parse_tlv_tlv_ident cls c tag body r :
  0 <= cls -> 0 <= tag < 31 -> zlen body < 2 ^ 32 ->
  parse_tlv (tlv (ident cls c tag) body ++ r) = Some (ident cls c tag, body, r).
Proof.
  intros Hc Ht Hb. apply parse_tlv_tlv; [|exact Hb]. unfold ident. destruct c; lia.
Qed.

(* parse_tlv accepts only minimal-length TLVs: what it consumed is exactly the re-encoding *)
Theorem parse_tlv_canon b id body r :
  parse_tlv b = Some (id, body, r) -> b = tlv id body ++ r /\ id mod 32 <> 31 /\ zlen body < 2 ^ 32.
Proof.
  unfold parse_tlv. destruct b as [|i b]; [discriminate|].
  destruct (Z.eqb_spec (i mod 32) 31); [discriminate|].
  destruct (parse_len b) as [[len r']|] eqn:E; [|discriminate].
  destruct (splitz r' len) as [[bd rs]|] eqn:E2; [|discriminate].
  intros H; inversion H; subst. apply parse_len_canon in E. destruct E as [-> Hn].
  apply splitz_inv in E2; [|lia]. destruct E2 as [-> Hz].
  unfold tlv. rewrite Hz. cbn [app]. rewrite <- app_assoc. repeat split; auto; lia.
Qed.

Lemma parse_tlv_app b id body r r' :
  parse_tlv b = Some (id, body, r) -> parse_tlv (b ++ r') = Some (id, body, r ++ r').
Proof.
  intros H. apply parse_tlv_canon in H. destruct H as (-> & Hi & Hb).
  rewrite <- app_assoc. apply parse_tlv_tlv; assumption.
Qed.

Lemma tlv_nonempty id body : tlv id body <> [].
Proof. discriminate. Qed.

Lemma zlen_tlv id body : zlen body < zlen (tlv id body).
Proof.
  unfold tlv. rewrite zlen_cons, zlen_app. pose proof (zlen_nonneg (der_len (zlen body))). lia.
Qed.

Lemma tlv_wf id body : 0 <= id < 256 -> zlen body < 2 ^ 32 -> wf_bytes body -> wf_bytes (tlv id body).
Proof.
  intros Hi Hb Hw. unfold tlv. apply wf_bytes_cons. split; [exact Hi|].
  apply wf_bytes_app. split; [|exact Hw]. apply der_len_wf. pose proof (zlen_nonneg body). lia.
Qed.

(* ---------- INTEGER ---------- *)
Definition int_bound (f : nat) (z : Z) : Prop := -128 * 256 ^ Z.of_nat f <= z < 128 * 256 ^ Z.of_nat f.

Lemma zfuel_int z : int_bound (zfuel z) z.
Proof.
  unfold int_bound. pose proof (zfuel_spec z). pose proof (pow_base_le 256 (zfuel z)). lia.
Qed.

Lemma int_bound_0 z : int_bound 0 z -> small_int z = true.
Proof. unfold int_bound, small_int. change (256 ^ Z.of_nat 0) with 1. lia. Qed.

Lemma int_bound_S f z : int_bound (S f) z -> int_bound f (z / 256).
Proof.
  unfold int_bound. rewrite pow_succ_nat. pose proof (pow_pos_nat 256 f).
  set (p := 256 ^ Z.of_nat f) in *. lia.
Qed.

Lemma int_be_val f : forall z acc, int_bound f z -> sbe (int_be f z acc) = be_val_acc z acc.
Proof.
  induction f as [|f IH]; intros z acc H; cbn [int_be]; destruct (small_int z) eqn:S.
  - cbn [sbe]. f_equal. unfold small_int in S. destruct (Z.ltb_spec (z mod 256) 128); lia.
  - apply int_bound_0 in H. congruence.
  - cbn [sbe]. f_equal. unfold small_int in S. destruct (Z.ltb_spec (z mod 256) 128); lia.
  - rewrite IH by (apply int_bound_S, H). cbn [be_val_acc]. f_equal. lia.
Qed.

Lemma int_be_nonempty f : forall z acc, int_be f z acc <> [].
Proof.
  induction f as [|f IH]; intros z acc; cbn [int_be]; destruct (small_int z); try discriminate. apply IH.
Qed.

Lemma int_be_wf f : forall z acc, wf_bytes acc -> wf_bytes (int_be f z acc).
Proof.
  induction f as [|f IH]; intros z acc H; cbn [int_be];
    assert (wf_bytes (z mod 256 :: acc)) by (apply wf_bytes_cons; split; [lia | exact H]);
    destruct (small_int z); auto.
Qed.

Definition int_inv (z : Z) (acc : bytes) : Prop :=
  match acc with [] => True | a :: _ => 0 <= a < 256 /\ small_int (256 * z + a) = false end.

Lemma int_be_minimal f : forall z acc, int_bound f z -> int_inv z acc -> int_minimal (int_be f z acc) = true.
Proof.
  induction f as [|f IH]; intros z acc H Hi; cbn [int_be]; destruct (small_int z) eqn:S.
  - destruct acc as [|a acc]; [reflexivity|]. cbn [int_inv] in Hi. unfold int_minimal, small_int in *. lia.
  - apply int_bound_0 in H. congruence.
  - destruct acc as [|a acc]; [reflexivity|]. cbn [int_inv] in Hi. unfold int_minimal, small_int in *. lia.
  - apply IH; [apply int_bound_S, H|]. cbn [int_inv]. split; [lia|].
    replace (256 * (z / 256) + z mod 256) with z by lia. exact S.
Qed.

Theorem dec_int_enc_int z : dec_int (enc_int z) = Some z.
Proof.
  unfold enc_int, dec_int. pose proof (zfuel_int z) as Hf.
  pose proof (int_be_nonempty (zfuel z) z []) as Hne.
  pose proof (int_be_wf (zfuel z) z [] wf_bytes_nil) as Hw. apply wf_bytesb_iff in Hw.
  pose proof (int_be_minimal (zfuel z) z [] Hf I) as Hm.
  pose proof (int_be_val (zfuel z) z [] Hf) as Hv.
  destruct (int_be (zfuel z) z []) as [|x l]; [congruence|].
  rewrite Hw, Hm, Hv. reflexivity.
Qed.

Lemma enc_int_nonempty z : enc_int z <> [].
Proof. apply int_be_nonempty. Qed.

Lemma enc_int_wf z : wf_bytes (enc_int z).
Proof. apply int_be_wf. constructor. Qed.

(* converse: dec_int accepts only the minimal encoding *)
Lemma sbe_snoc l y : l <> [] -> sbe (l ++ [y]) = sbe l * 256 + y.
Proof.
  destruct l as [|b l]; [congruence|]. intros _. cbn [app sbe]. rewrite be_val_acc_app. reflexivity.
Qed.

Lemma be_val_acc_far c r : wf_bytes r ->
  (128 <= c -> 128 <= be_val_acc c r) /\ (c < -128 -> be_val_acc c r < -128).
Proof.
  intros H; revert c; induction H as [|x r Hx Hr IH]; intros c; cbn [be_val_acc]; [lia|].
  specialize (IH (c * 256 + x)). lia.
Qed.

Lemma int_minimal_not_small b0 b1 r :
  wf_bytes (b0 :: b1 :: r) -> int_minimal (b0 :: b1 :: r) = true -> small_int (sbe (b0 :: b1 :: r)) = false.
Proof.
  intros Hw Hm. apply wf_bytes_cons in Hw. destruct Hw as [H0 Hw].
  apply wf_bytes_cons in Hw. destruct Hw as [H1 Hw].
  cbn [sbe be_val_acc]. unfold int_minimal in Hm.
  pose proof (be_val_acc_far ((if b0 <? 128 then b0 else b0 - 256) * 256 + b1) r Hw) as [Ha Hb].
  unfold small_int. destruct (Z.ltb_spec b0 128); lia.
Qed.

Lemma int_be_canon l : l <> [] -> wf_bytes l -> int_minimal l = true ->
  forall f acc, int_bound f (sbe l) -> int_be f (sbe l) acc = l ++ acc.
Proof.
  induction l as [|y l IH] using rev_ind; intros Hne Hw Hm f acc Hf; [congruence|].
  apply wf_bytes_app in Hw. destruct Hw as [Hwl Hy]. apply wf_bytes_cons in Hy. destruct Hy as [Hy _].
  destruct l as [|b0 l].
  - cbn [app sbe be_val_acc] in *.
    assert (S : small_int (if y <? 128 then y else y - 256) = true)
      by (unfold small_int; destruct (Z.ltb_spec y 128); lia).
    destruct f; cbn [int_be]; rewrite S; f_equal; destruct (Z.ltb_spec y 128); lia.
  - assert (Hwall : wf_bytes ((b0 :: l) ++ [y])).
    { apply wf_bytes_app; split; auto; apply wf_bytes_cons; split; [lia | constructor]. }
    assert (Hns : small_int (sbe ((b0 :: l) ++ [y])) = false).
    { destruct l as [|b1 l]; cbn [app] in *; apply int_minimal_not_small; auto. }
    assert (Hml : int_minimal (b0 :: l) = true).
    { destruct l as [|b1 l]; [reflexivity|]. exact Hm. }
    rewrite sbe_snoc in * by discriminate.
    destruct f as [|f]; [apply int_bound_0 in Hf; congruence|].
    cbn [int_be]. rewrite Hns.
    pose proof (int_bound_S _ _ Hf) as Hf'.
    replace ((sbe (b0 :: l) * 256 + y) / 256) with (sbe (b0 :: l)) in * by lia.
    replace ((sbe (b0 :: l) * 256 + y) mod 256) with y by lia.
    rewrite IH by (auto; discriminate). rewrite <- app_assoc. reflexivity.
Qed.

Theorem dec_int_canon b z : dec_int b = Some z -> enc_int z = b.
Proof.
  unfold dec_int. destruct b as [|x b]; [discriminate|].
  destruct (wf_bytesb (x :: b)) eqn:Hw; [|discriminate]. destruct (int_minimal (x :: b)) eqn:Hm; [|discriminate].
  cbn [andb]. intros H. assert (Hz : sbe (x :: b) = z) by congruence. clear H. rewrite <- Hz. unfold enc_int.
  rewrite int_be_canon; [apply app_nil_r | discriminate | apply wf_bytesb_iff, Hw | exact Hm | apply zfuel_int].
Qed.
