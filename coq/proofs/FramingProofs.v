(* Gokrb5.proofs.FramingProofs — the hand-assembled SPNEGO / GSS-API framing round-trips: a NegotiationToken
   alternative is read back as the same alternative with the same value; an initial context token is split
   into the same mechanism OID and inner token; a KRB5 mechanism token into OID, TOK_ID and message. *)
From Gokrb5.lib Require Import Bytes JV.
From Gokrb5.model Require Import Schema DER DERCodec Framing.
From Gokrb5.proofs Require Import DERBasic DEROid DERProofs.

Local Open Scope Z_scope.

Lemma tag_ok_range n : tag_ok n = true -> 0 <= n < 31.
Proof. unfold tag_ok. rewrite andb_true_iff, Z.leb_le, Z.ltb_lt. tauto. Qed.

(* NegotiationToken ::= CHOICE { [0] NegTokenInit, [1] NegTokenResp }: alternative n of the list is taken when
   no earlier alternative has the same tag *)
Theorem choice_decode_encode alts n t v b :
  alt_lookup alts (ident 2 true n) = Some (n, t) ->
  schema_ok t = true ->
  choice_encode n t v = Some b -> zlen b < 2 ^ 32 ->
  choice_decode alts b = Some (n, v).
Proof.
  intros HL Hok HE Hlen. unfold choice_encode in HE.
  destruct (tag_ok n) eqn:Ht; [|discriminate]. apply tag_ok_range in Ht.
  destruct (encode t v) as [e|] eqn:Ee; [|discriminate]. inversion HE; subst b. clear HE.
  pose proof (zlen_tlv (ident 2 true n) e) as Hz.
  unfold choice_decode. rewrite <- (app_nil_r (tlv _ e)).
  rewrite parse_tlv_tlv_ident by lia. rewrite HL.
  rewrite (decode_top_encode t v e Hok (encode_wf _ _ _ Ee) Ee) by lia. reflexivity.
Qed.

Example choice_lookup_init_resp ti tr :
  alt_lookup [(0, ti); (1, tr)] (ident 2 true 0) = Some (0, ti) /\
  alt_lookup [(0, ti); (1, tr)] (ident 2 true 1) = Some (1, tr).
Proof. split; reflexivity. Qed.

(* InitialContextToken: [APPLICATION 0] { thisMech, innerContextToken } *)
Theorem gss_unframe_frame mech inner b :
  gss_frame mech inner = Some b -> zlen b < 2 ^ 32 -> gss_unframe b = Some (mech, inner).
Proof.
  intros HF Hlen. unfold gss_frame in HF. destruct (enc_oid mech) as [o|] eqn:Eo; [|discriminate].
  injection HF as Hb. subst b.
  change (6 :: (der_len (zlen o) ++ o) ++ inner) with (tlv 6 o ++ inner) in *.
  pose proof (zlen_tlv (ident 1 true 0) (tlv 6 o ++ inner)) as Hz.
  pose proof (zlen_tlv 6 o) as Hz6. pose proof (zlen_app (tlv 6 o) inner) as Ha. pose proof (zlen_nonneg inner).
  unfold gss_unframe. rewrite <- (app_nil_r (tlv (ident 1 true 0) _)).
  rewrite parse_tlv_tlv_ident by lia. rewrite Z.eqb_refl.
  rewrite parse_tlv_tlv by (try lia; simpl; lia).
  rewrite (dec_oid_enc_oid mech o Eo). reflexivity.
Qed.

Theorem krb5_split_inner tok msg : length tok = 2%nat -> krb5_split (krb5_inner tok msg) = Some (tok, msg).
Proof. intros H. destruct tok as [| a [| b [| c r]]]; try discriminate. reflexivity. Qed.

(* the two mechanism OIDs and their DER (RFC 4178 / RFC 4121) *)
Example gss_frame_spnego_ex :
  gss_frame [1; 3; 6; 1; 5; 5; 2] [160; 0] = Some [96; 10; 6; 6; 43; 6; 1; 5; 5; 2; 160; 0].
Proof. reflexivity. Qed.
Example gss_frame_krb5_ex :
  gss_frame [1; 2; 840; 113554; 1; 2; 2] (krb5_inner [1; 0] [110; 0]) =
  Some [96; 15; 6; 9; 42; 134; 72; 134; 247; 18; 1; 2; 2; 1; 0; 110; 0].
Proof. reflexivity. Qed.
