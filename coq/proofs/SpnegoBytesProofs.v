(* Gokrb5.proofs.SpnegoBytesProofs — C03 in bytes mode (model/SpnegoBytes.v).
     b64_decode_encode            : base64.StdEncoding decoding inverts encoding, for every octet string;
     goid_enc_oid                 : gofork's lenient OBJECT IDENTIFIER reader returns the arcs DER.enc_oid wrote;
     spnego_unmarshal_init / _resp, krb5_unmarshal_apreq : the lenient framing decoders return, on the encodings
        written by model/Framing.v (gss_frame, choice_encode with the RFC 4178 schemas — what gokrb5's Marshal writes,
        C13), exactly the encoded structure, whatever follows the token;
     serve_bytes_refines_init / _resp / _raw : THE REFINEMENT — for a header "Negotiate " ++ base64 of such a token
        carrying the DER of a well-formed AP-REQ, the bytes-mode response IS the structure-mode response of
        model/Spnego.v (about which C03's theorems speak) on the corresponding structure, the AP-REQ verdict being that
        of the sealed-content model of C01;
     handler_only_if_valid_apreq  : for EVERY header value, the wrapped handler runs only under an established
        session or when the value is "Negotiate " ++ base64 of octets that carry (as SPNEGO mech token or raw) a KRB5
        token with tok-id 01 00 whose AP-REQ octets verify_apreq_bytes accepts, with the accepted identity;
     undecodable_401, serve_bytes_refused, no_crash, spnego_serve_bytes_never_panics : whatever does not decode gets
        401 with a challenge; nothing panics. *)
From Coq Require Import ZifyBool.
From Gokrb5.lib Require Import Bytes JV.
From Gokrb5.model Require Import Keytab Crypto Replay Schema DER DERCodec RFCSchemas GoASN1 Framing APReq APReqBytes
     Spnego SpnegoBytes.
From Gokrb5.proofs Require Import DERBasic DEROid DERProofs GoASN1Proofs APReqProofs APReqBytesProofs SpnegoProofs.
Local Ltac Zify.zify_post_hook ::= Z.div_mod_to_equations.

Local Open Scope Z_scope.

(* ================= base64 ================= *)
Lemma b64_val_char i : 0 <= i < 64 -> b64_val (b64_char i) = Some i.
Proof.
  intros H. unfold b64_char, b64_val.
  destruct (Z.ltb_spec i 26); [replace ((65 <=? 65 + i) && (65 + i <=? 90)) with true by lia; f_equal; lia|].
  destruct (Z.ltb_spec i 52).
  { replace ((65 <=? 71 + i) && (71 + i <=? 90)) with false by lia.
    replace ((97 <=? 71 + i) && (71 + i <=? 122)) with true by lia. f_equal; lia. }
  destruct (Z.ltb_spec i 62).
  { replace ((65 <=? i - 4) && (i - 4 <=? 90)) with false by lia.
    replace ((97 <=? i - 4) && (i - 4 <=? 122)) with false by lia.
    replace ((48 <=? i - 4) && (i - 4 <=? 57)) with true by lia. f_equal; lia. }
  destruct (Z.eqb_spec i 62); [subst; reflexivity|].
  assert (i = 63) by lia. subst. reflexivity.
Qed.

Lemma b64_char_not_nl i : 0 <= i < 64 -> is_nl (b64_char i) = false.
Proof.
  intros H. unfold b64_char, is_nl.
  destruct (Z.ltb_spec i 26); [lia|]. destruct (Z.ltb_spec i 52); [lia|]. destruct (Z.ltb_spec i 62); [lia|].
  destruct (Z.eqb_spec i 62); reflexivity.
Qed.

(* induction three octets at a time *)
Lemma list_ind3 {A} (P : list A -> Prop) :
  P [] -> (forall x, P [x]) -> (forall x y, P [x; y]) -> (forall x y z r, P r -> P (x :: y :: z :: r)) ->
  forall l, P l.
Proof.
  intros H0 H1 H2 H3.
  assert (G : forall l, P l /\ (forall x, P (x :: l)) /\ (forall x y, P (x :: y :: l))).
  { induction l as [|a l (IH0 & IH1 & IH2)]; [auto|]. repeat split; auto. }
  intros l. apply G.
Qed.

Lemma b64_quanta_full c0 c1 c2 c3 rest v0 v1 v2 v3 :
  b64_val c0 = Some v0 -> b64_val c1 = Some v1 -> b64_val c2 = Some v2 -> b64_val c3 = Some v3 ->
  b64_quanta (c0 :: c1 :: c2 :: c3 :: rest) =
  match b64_quanta rest with
  | Some o => Some (v0 * 4 + v1 / 16 :: (v1 mod 16) * 16 + v2 / 4 :: (v2 mod 4) * 64 + v3 :: o)
  | None => None
  end.
Proof. intros E0 E1 E2 E3. cbn [b64_quanta]. rewrite E0, E1, E2, E3. reflexivity. Qed.

Lemma b64_encode_no_nl b : wf_bytes b -> filter (fun c => negb (is_nl c)) (b64_encode b) = b64_encode b.
Proof.
  induction b as [| x | x y | x y z r IH] using list_ind3; intros Hwf.
  - reflexivity.
  - apply wf_bytes_cons in Hwf. destruct Hwf as [Hx _]. cbn [b64_encode filter].
    rewrite !b64_char_not_nl by lia. reflexivity.
  - apply wf_bytes_cons in Hwf. destruct Hwf as [Hx Hwf]. apply wf_bytes_cons in Hwf. destruct Hwf as [Hy _].
    cbn [b64_encode filter]. rewrite !b64_char_not_nl by lia. reflexivity.
  - apply wf_bytes_cons in Hwf. destruct Hwf as [Hx Hwf]. apply wf_bytes_cons in Hwf. destruct Hwf as [Hy Hwf].
    apply wf_bytes_cons in Hwf. destruct Hwf as [Hz Hwf].
    cbn [b64_encode filter]. rewrite !b64_char_not_nl by lia. cbn [negb]. rewrite IH by exact Hwf. reflexivity.
Qed.

Lemma b64_quanta_encode b : wf_bytes b -> b64_quanta (b64_encode b) = Some b.
Proof.
  induction b as [| x | x y | x y z r IH] using list_ind3; intros Hwf.
  - reflexivity.
  - apply wf_bytes_cons in Hwf. destruct Hwf as [Hx _]. cbn [b64_encode b64_quanta].
    rewrite !b64_val_char by lia. change (b64_val b64_pad) with (@None Z). cbn [is_nil andb Z.eqb Pos.eqb b64_pad].
    f_equal. f_equal. lia.
  - apply wf_bytes_cons in Hwf. destruct Hwf as [Hx Hwf]. apply wf_bytes_cons in Hwf. destruct Hwf as [Hy _].
    cbn [b64_encode b64_quanta]. rewrite !b64_val_char by lia. change (b64_val b64_pad) with (@None Z).
    cbn [is_nil andb Z.eqb Pos.eqb b64_pad]. f_equal. f_equal; [lia|]. f_equal. lia.
  - apply wf_bytes_cons in Hwf. destruct Hwf as [Hx Hwf]. apply wf_bytes_cons in Hwf. destruct Hwf as [Hy Hwf].
    apply wf_bytes_cons in Hwf. destruct Hwf as [Hz Hwf]. cbn [b64_encode].
    rewrite (b64_quanta_full _ _ _ _ _ (x / 4) ((x mod 4) * 16 + y / 16) ((y mod 16) * 4 + z / 64) (z mod 64))
      by (apply b64_val_char; lia).
    rewrite IH by exact Hwf. f_equal. f_equal; [lia|]. f_equal; [lia|]. f_equal. lia.
Qed.

(* (d) base64.StdEncoding.DecodeString(EncodeToString(b)) = b *)
Theorem b64_decode_encode b : wf_bytes b -> b64_decode (b64_encode b) = Some b.
Proof. intros H. unfold b64_decode. rewrite b64_encode_no_nl by exact H. apply b64_quanta_encode, H. Qed.

Example b64_ex :
  b64_encode [65] = [81; 81; 61; 61] /\ b64_encode [65; 66] = [81; 85; 73; 61] /\ b64_encode [251; 255; 191] = [43; 47; 43; 47] /\
  b64_decode [81; 10; 81; 13; 61; 10; 61; 10] = Some [65] /\            (* newlines are skipped, even inside the padding *)
  b64_decode [81; 82; 61; 61] = Some [65] /\                            (* unused bits are not checked *)
  b64_decode [81; 81] = None /\ b64_decode [81; 81; 61] = None /\       (* padding is mandatory *)
  b64_decode [81; 81; 61; 61; 81; 81; 61; 61] = None /\                 (* nothing after the padding *)
  b64_decode [81; 85; 32; 74; 68] = None /\ b64_decode [45; 95; 45; 95] = None.   (* no blanks, not the URL alphabet *)
Proof. repeat split; reflexivity. Qed.

(* ================= OBJECT IDENTIFIER ================= *)
Definition arc_small (x : Z) : bool := (0 <=? x) && (x <? 2 ^ 28).

Lemma base128_step n x r acc : 128 <= x < 256 ->
  base128 (S n) (x :: r) acc = base128 n r (acc * 128 + (x - 128)).
Proof.
  intros H. cbn [base128]. replace (x <? 128) with false by lia. replace (x mod 128) with (x - 128) by lia. reflexivity.
Qed.

Lemma base128_last n x r acc : 0 <= x < 128 -> base128 (S n) (x :: r) acc = Some (acc * 128 + x, r).
Proof.
  intros H. cbn [base128]. replace (x <? 128) with true by lia. replace (x mod 128) with x by lia. reflexivity.
Qed.

Lemma base128_enc_b128 n r : arc_small n = true -> base128 4 (enc_b128 n ++ r) 0 = Some (n, r).
Proof.
  unfold arc_small. intros H. assert (Hn : 0 <= n < 2 ^ 28) by lia. clear H.
  rewrite enc_b128_B by lia.
  destruct (Z.eq_dec (n / 128) 0) as [E1|E1].
  { rewrite E1, B_0. cbn [app]. rewrite base128_last by lia. f_equal. f_equal. lia. }
  rewrite B_step by lia.
  destruct (Z.eq_dec (n / 128 / 128) 0) as [E2|E2].
  { rewrite E2, B_0. cbn [app]. rewrite base128_step by lia. rewrite base128_last by lia. f_equal. f_equal. lia. }
  rewrite B_step by lia.
  destruct (Z.eq_dec (n / 128 / 128 / 128) 0) as [E3|E3].
  { rewrite E3, B_0. cbn [app]. rewrite !base128_step by lia. rewrite base128_last by lia. f_equal. f_equal. lia. }
  rewrite B_step by lia.
  assert (E4 : n / 128 / 128 / 128 / 128 = 0) by lia.
  rewrite E4, B_0. cbn [app]. rewrite !base128_step by lia. rewrite base128_last by lia. f_equal. f_equal. lia.
Qed.

Lemma enc_b128_nonempty n : 0 <= n -> exists x r, enc_b128 n = x :: r.
Proof.
  intros H. rewrite enc_b128_B by exact H. rewrite <- (app_nil_l [n mod 128]), B_app.
  destruct (B (n / 128) []); cbn [app]; eauto.
Qed.

Lemma garcs_flat_map l : forall (n : nat) rest, forallb arc_small l = true -> rest = [] ->
  (length (flat_map enc_b128 l) <= n)%nat -> garcs n (flat_map enc_b128 l ++ rest) = Some l.
Proof.
  induction l as [|x l IH]; intros n rest Hs -> Hn.
  - destruct n; reflexivity.
  - cbn [forallb] in Hs. apply andb_true_iff in Hs. destruct Hs as [Hx Hl]. cbn [flat_map] in *.
    assert (0 <= x) by (unfold arc_small in Hx; lia).
    destruct (enc_b128_nonempty x H) as (y & ys & E).
    rewrite app_length in Hn. rewrite app_nil_r.
    destruct n as [|n]; [rewrite E in Hn; cbn [length] in Hn; lia|].
    assert (G : garcs (S n) (enc_b128 x ++ flat_map enc_b128 l) =
                match base128 4 (enc_b128 x ++ flat_map enc_b128 l) 0 with
                | Some (v, r) => match garcs n r with Some l0 => Some (v :: l0) | None => None end
                | None => None
                end).
    { rewrite E. reflexivity. }
    rewrite G, base128_enc_b128 by exact Hx.
    rewrite <- (app_nil_r (flat_map enc_b128 l)), IH; auto.
    rewrite E in Hn. cbn [length] in Hn. lia.
Qed.

Definition oid_small (arcs : list Z) : bool :=
  match arcs with
  | a :: b :: r => arc_small (40 * a + b) && forallb arc_small r
  | _ => false
  end.

(* gofork reads back the arcs of a DER OBJECT IDENTIFIER whose sub-identifiers fit 28 bits (4 octets) *)
Theorem goid_enc_oid arcs o : enc_oid arcs = Some o -> oid_small arcs = true -> goid o = Some arcs.
Proof.
  intros He Hs. pose proof (enc_oid_ok _ _ He) as Hok. unfold enc_oid in He.
  destruct arcs as [|a [|b r]]; try discriminate. rewrite Hok in He. apply some_inj in He. subst o.
  cbn [oid_small] in Hs. apply andb_true_iff in Hs. destruct Hs as [Hv Hr].
  assert (Hv0 : 0 <= 40 * a + b) by (unfold arc_small in Hv; lia).
  destruct (enc_b128_nonempty _ Hv0) as (y & ys & E).
  assert (G : goid (enc_b128 (40 * a + b) ++ flat_map enc_b128 r) =
              match base128 4 (enc_b128 (40 * a + b) ++ flat_map enc_b128 r) 0 with
              | Some (v, r0) =>
                match garcs (length r0) r0 with
                | Some l => Some (if v <? 80 then v / 40 :: v mod 40 :: l else 2 :: v - 80 :: l)
                | None => None
                end
              | None => None
              end).
  { rewrite E. reflexivity. }
  rewrite G, base128_enc_b128 by exact Hv.
  rewrite <- (app_nil_r (flat_map enc_b128 r)) at 2. rewrite garcs_flat_map; auto.
  unfold oid_ok in Hok. 
  destruct (Z.ltb_spec (40 * a + b) 80).
  - f_equal. f_equal; [lia|]. f_equal. lia.
  - f_equal. f_equal; [lia|]. f_equal. lia.
Qed.

Example goid_ex :
  goid [42; 134; 72; 134; 247; 18; 1; 2; 2] = Some rfc_oid_krb5 /\
  goid [42; 134; 72; 134; 247; 18; 1; 2; 128; 128; 128; 2] = Some rfc_oid_krb5 /\      (* not minimal: accepted *)
  goid [42; 134; 72; 134; 247; 18; 1; 2; 128; 128; 128; 128; 2] = None /\              (* five octets: too large *)
  goid [43; 6; 1; 5; 5; 2] = Some rfc_oid_spnego /\ goid [] = None /\ goid [43; 134] = None /\
  oid_small rfc_oid_krb5 = true /\ oid_small rfc_oid_spnego = true /\ oid_small oid_ms_krb5 = true.
Proof. repeat split; reflexivity. Qed.

(* ================= xelem / xfield on freshly written TLVs ================= *)
Lemma xelem_tlv {A} utag ucons (dec : bytes -> option A) opt orig id body rest v :
  id mod 32 <> 31 -> zlen body < 2 ^ 31 ->
  id / 64 = 0 -> id mod 32 = utag -> ((id / 32) mod 2 =? 1) = ucons -> dec body = Some v ->
  xelem utag ucons dec opt orig (tlv id body ++ rest) = Some (Some v, rest).
Proof.
  intros Hid Hb Hc Ht Hk Hd. unfold xelem. rewrite ghdr_tlv by assumption. unfold hdr_id.
  cbn [h_cls h_tag h_cons h_len]. rewrite Hc, Ht, Hk, Z.eqb_refl, Z.eqb_refl, Bool.eqb_reflx. cbn [andb].
  rewrite splitz_app, Hd. reflexivity.
Qed.

Lemma xfield_tlv {A} ecls n utag ucons (dec : bytes -> option A) opt id body extra rest v :
  (ecls = 1 \/ ecls = 2) -> gtag_ok n = true ->
  id mod 32 <> 31 -> id / 64 = 0 -> id mod 32 = utag -> ((id / 32) mod 2 =? 1) = ucons ->
  zlen (tlv id body ++ extra) < 2 ^ 31 -> dec body = Some v ->
  xfield ecls n utag ucons dec opt (tlv (ident ecls true n) (tlv id body ++ extra) ++ rest) = Some (Some v, extra ++ rest).
Proof.
  intros Hc Hn Hid Hcl Ht Hk Hl Hd.
  assert (Hi : ident ecls true n mod 32 <> 31 /\ hdr_id (ident ecls true n) = mkHdr ecls true n).
  { destruct Hc; subst; [apply ident_app | apply ident_ctx]; exact Hn. }
  destruct Hi as [Hi Hh].
  pose proof (zlen_tlv id body) as Hz. pose proof (zlen_nonneg body). pose proof (zlen_nonneg extra).
  rewrite zlen_app in Hl.
  assert (G : forall i b, tlv i b ++ rest = i :: (der_len (zlen b) ++ b) ++ rest) by reflexivity.
  rewrite G. cbn [xfield]. rewrite <- G. rewrite ghdr_tlv by (auto; rewrite zlen_app; lia).
  rewrite Hh. cbn [h_cls h_tag h_len h_cons].
  assert (Hne : tlv id body ++ extra <> []) by (unfold tlv; discriminate).
  rewrite match_app_nonempty by exact Hne. rewrite !Z.eqb_refl. cbn [andb orb].
  replace (zlen (tlv id body ++ extra) =? 0) with false by (rewrite zlen_app; lia). cbn [andb orb].
  rewrite <- app_assoc. apply xelem_tlv; auto. lia.
Qed.

(* an absent OPTIONAL field: the next element carries another context tag, or nothing is left *)
Lemma xfield_absent {A} n utag ucons (dec : bytes -> option A) b :
  (b = [] \/ exists n' body' rest', n' <> n /\ gtag_ok n' = true /\ body' <> [] /\ zlen body' < 2 ^ 31 /\
                                    b = tlv (ident 2 true n') body' ++ rest') ->
  xfield 2 n utag ucons dec true b = Some (None, b).
Proof.
  intros [->|(n' & body' & rest' & Hne & Hn' & Hb & Hl & ->)]; [reflexivity|].
  destruct (ident_ctx n' Hn') as [Hid Hh].
  assert (G : tlv (ident 2 true n') body' ++ rest' = ident 2 true n' :: (der_len (zlen body') ++ body') ++ rest') by reflexivity.
  rewrite G at 1. cbn [xfield]. rewrite <- G. rewrite ghdr_tlv by assumption. rewrite Hh. cbn [h_cls h_tag h_len h_cons].
  rewrite match_app_nonempty by exact Hb.
  replace (n' =? n) with false by lia. rewrite andb_false_r. reflexivity.
Qed.

(* ================= the GSS-API framing ================= *)
Theorem gss_oid_frame mech inner b rest :
  gss_frame mech inner = Some b -> oid_small mech = true -> zlen b < 2 ^ 31 ->
  gss_oid (b ++ rest) = Some (mech, inner ++ rest).
Proof.
  intros HF Hs Hl. unfold gss_frame in HF. destruct (enc_oid mech) as [o|] eqn:Eo; [|discriminate].
  apply some_inj in HF. subst b. unfold gss_oid.
  pose proof (zlen_tlv (ident 1 true 0) (tlv 6 o ++ inner)).
  rewrite (xfield_tlv 1 0 6 false goid false 6 o inner rest mech); auto; try reflexivity; try lia.
  apply goid_enc_oid; assumption.
Qed.

Lemma gss_frame_head mech inner b : gss_frame mech inner = Some b -> exists r, b = 96 :: r.
Proof.
  unfold gss_frame. destruct (enc_oid mech); [|discriminate]. intros H. apply some_inj in H. subst b.
  unfold tlv. eexists. reflexivity.
Qed.

Lemma oid_eqb_refl a : oid_eqb a a = true.
Proof. induction a as [|x a IH]; [reflexivity|]. cbn [oid_eqb]. rewrite Z.eqb_refl, IH. reflexivity. Qed.

Lemma oid_eqb_eq a : forall b, oid_eqb a b = true -> a = b.
Proof.
  induction a as [|x a IH]; intros [|y b] H; try discriminate; [reflexivity|].
  cbn [oid_eqb] in H. apply andb_true_iff in H. destruct H as [H1 H2]. f_equal; [lia | apply IH, H2].
Qed.

(* ================= the mechanism list ================= *)
Definition mech_ok (m : list Z) : bool := oid_ok m && oid_small m.

Lemma goids_enc mechs : forall n : nat, forallb mech_ok mechs = true ->
  zlen (flat_map (enc TOid) (map VOid mechs)) < 2 ^ 31 ->
  (length (flat_map (enc TOid) (map VOid mechs)) <= n)%nat ->
  goids n (flat_map (enc TOid) (map VOid mechs)) = Some mechs.
Proof.
  induction mechs as [|m ms IH]; intros n Hok Hl Hn.
  - destruct n; reflexivity.
  - cbn [forallb] in Hok. apply andb_true_iff in Hok. destruct Hok as [Hm Hms].
    unfold mech_ok in Hm. apply andb_true_iff in Hm. destruct Hm as [Hm1 Hm2].
    destruct (oid_ok_enc m Hm1) as [o Eo].
    cbn [map flat_map] in *.
    change (enc TOid (VOid m)) with (tlv 6 (match enc_oid m with Some x => x | None => [] end)) in *. rewrite Eo in *.
    rewrite app_length in Hn. rewrite zlen_app in Hl.
    pose proof (zlen_tlv 6 o). pose proof (zlen_nonneg o). pose proof (zlen_nonneg (flat_map (enc TOid) (map VOid ms))).
    assert (L : (1 <= length (tlv 6 o))%nat) by (unfold tlv; cbn [length]; lia).
    destruct n as [|n]; [lia|].
    assert (G : goids (S n) (tlv 6 o ++ flat_map (enc TOid) (map VOid ms)) =
                match xelem 6 false goid false (tlv 6 o ++ flat_map (enc TOid) (map VOid ms))
                            (tlv 6 o ++ flat_map (enc TOid) (map VOid ms)) with
                | Some (Some o0, r) => match goids n r with Some l => Some (o0 :: l) | None => None end
                | _ => None
                end) by reflexivity.
    rewrite G. rewrite (xelem_tlv 6 false goid false _ 6 o _ m); auto; try reflexivity; try lia.
    + rewrite IH; auto; lia.
    + apply goid_enc_oid; assumption.
Qed.

(* ================= NegTokenInit / NegTokenResp ================= *)
Definition j_flags (f : option (Z * bytes)) : option value := option_map (fun x => VBits (fst x) (snd x)) f.
Definition flags_ok (f : option (Z * bytes)) : bool := match f with Some (u, b) => gbits_ok u b | None => true end.

(* the value gokrb5's NegTokenInit.Marshal encodes (RFC 4178 4.2.1) *)
Definition init_value (mechs : list (list Z)) (flags : option (Z * bytes)) (token : bytes) (mic : option bytes) : value :=
  VSeq [Some (VList (map VOid mechs)); j_flags flags; Some (VBytes token); option_map VBytes mic].

(* ... and NegTokenResp.Marshal (RFC 4178 4.2.2), negState present *)
Definition resp_value (state : Z) (mech : option (list Z)) (token : bytes) (mic : option bytes) : value :=
  VSeq [Some (VInt state); option_map VOid mech; Some (VBytes token); option_map VBytes mic].

Lemma erase_init_tail : erase_fields init_tail = [opt 1 TBits; opt 2 TOctets; opt 3 TOctets].
Proof. reflexivity. Qed.
Lemma erase_resp_tail : erase_fields resp_tail = [opt 2 TOctets; opt 3 TOctets].
Proof. reflexivity. Qed.

Lemma tail_grt (fs : list gfield) :
  Forall (fun f : gfield => gok (snd f) = true -> snd f <> GRaw -> grt (snd f)) fs.
Proof. apply Forall_forall. intros f _ H1 H2. apply gdec_enc; assumption. Qed.

Lemma wf_init_inv mechs flags token mic : wf_val rfc_NegTokenInit (init_value mechs flags token mic) = true ->
  forallb oid_ok mechs = true.
Proof.
  unfold rfc_NegTokenInit, init_value. cbn [wf_val wf_fields req opt]. intros H.
  apply andb_true_iff in H. destruct H as [H _]. clear -H.
  induction mechs as [|m ms IH]; [reflexivity|]. cbn [map forallb wf_val] in *.
  apply andb_true_iff in H. destruct H as [H1 H2]. rewrite H1, IH by exact H2. reflexivity.
Qed.

Lemma forallb_and {A} (f g : A -> bool) l : forallb f l = true -> forallb g l = true ->
  forallb (fun x => f x && g x) l = true.
Proof.
  intros Hf Hg. rewrite forallb_forall in *. intros x Hx. rewrite Hf, Hg by exact Hx. reflexivity.
Qed.

Lemma enc_seq fs vs : enc (TSeq fs) (VSeq vs) = tlv 48 (enc_fields enc fs vs).
Proof. reflexivity. Qed.
Lemma enc_seqof e vs : enc (TSeqOf e) (VList vs) = tlv 48 (flat_map (enc e) vs).
Proof. reflexivity. Qed.
Lemma enc_enum z : enc TEnum (VInt z) = tlv 10 (enc_int z).
Proof. reflexivity. Qed.

Theorem neg_init_dec_enc mechs flags token mic rest :
  wf_val rfc_NegTokenInit (init_value mechs flags token mic) = true ->
  forallb oid_small mechs = true -> flags_ok flags = true ->
  zlen (enc rfc_NegTokenInit (init_value mechs flags token mic)) < 2 ^ 31 ->
  neg_init_dec (enc rfc_NegTokenInit (init_value mechs flags token mic) ++ rest) = Some (RInit mechs (Some token)).
Proof.
  intros Hwf Hsm Hfl Hlen. pose proof (wf_init_inv _ _ _ _ Hwf) as Hok.
  unfold rfc_NegTokenInit, init_value in *. rewrite enc_seq in *. unfold req in *.
  rewrite enc_fields_cons in *. cbn [wrap_tag] in *. rewrite enc_seqof in *.
  set (ML := flat_map (enc TOid) (map VOid mechs)) in *.
  set (TL := enc_fields enc [opt 1 TBits; opt 2 TOctets; opt 3 TOctets] [j_flags flags; Some (VBytes token); option_map VBytes mic]) in *.
  set (BODY := tlv (ident 2 true 0) (tlv 48 ML) ++ TL) in *.
  pose proof (zlen_tlv 48 BODY) as Z1. pose proof (zlen_tlv (ident 2 true 0) (tlv 48 ML)) as Z2.
  pose proof (zlen_tlv 48 ML) as Z3. pose proof (zlen_nonneg ML). pose proof (zlen_nonneg TL).
  assert (ZB : zlen BODY = zlen (tlv (ident 2 true 0) (tlv 48 ML)) + zlen TL) by (unfold BODY; apply zlen_app).
  unfold neg_init_dec.
  rewrite (xelem_tlv 16 true Some false _ 48 BODY rest BODY); try reflexivity; try lia.
  cbn [obind fst snd]. unfold BODY at 1.
  rewrite <- (app_nil_r (tlv 48 ML)).
  rewrite (xfield_tlv 2 0 16 true (fun l => goids (length l) l) false 48 ML [] TL mechs); auto; try reflexivity; try lia;
    try (rewrite app_nil_r; lia).
  2: { apply goids_enc; [apply forallb_and; assumption | fold ML; lia | fold ML; lia]. }
  cbn [obind fst snd app].
  change (DD (S (length BODY))) with (D (S (length BODY))).
  rewrite <- (app_nil_r TL). unfold TL. rewrite <- erase_init_tail.
  rewrite (gfields_enc (S (length BODY)) init_tail (tail_grt _)); auto.
  - unfold init_tail, gopt. cbn [wfg_fields wfg]. destruct flags as [[u b]|]; cbn [j_flags option_map fst snd flags_ok] in *.
    + rewrite Hfl. destruct mic; reflexivity.
    + destruct mic; reflexivity.
  - rewrite erase_init_tail. fold TL. split; [lia|]. unfold zlen in *. lia.
Qed.

Theorem neg_resp_dec_enc state mech token mic rest :
  wf_val rfc_NegTokenResp (resp_value state mech token mic) = true ->
  int32_ok state = true -> (match mech with Some m => oid_small m = true | None => True end) ->
  zlen (enc rfc_NegTokenResp (resp_value state mech token mic)) < 2 ^ 31 ->
  neg_resp_dec (enc rfc_NegTokenResp (resp_value state mech token mic) ++ rest) = Some (RResp mech (Some token)).
Proof.
  intros Hwf Hst Hsm Hlen.
  unfold rfc_NegTokenResp, resp_value in *. rewrite enc_seq in *. unfold opt at 1 2 in Hlen. unfold opt at 1 2.
  rewrite !enc_fields_cons in *. cbn [wrap_tag] in *. rewrite enc_enum in *.
  fold (opt 2 TOctets) in *. fold (opt 3 TOctets) in *.
  set (TL := enc_fields enc [opt 2 TOctets; opt 3 TOctets] [Some (VBytes token); option_map VBytes mic]) in *.
  set (MB := match option_map VOid mech with Some v => tlv (ident 2 true 1) (enc TOid v) | None => [] end) in *.
  set (BODY := tlv (ident 2 true 0) (tlv 10 (enc_int state)) ++ MB ++ TL) in *.
  assert (Hlen' : zlen (tlv 48 BODY) < 2 ^ 31) by exact Hlen.
  pose proof (zlen_tlv 48 BODY) as Z1. pose proof (zlen_tlv (ident 2 true 0) (tlv 10 (enc_int state))) as Z2.
  pose proof (zlen_tlv 10 (enc_int state)) as Z3. pose proof (zlen_nonneg (enc_int state)).
  pose proof (zlen_nonneg TL). pose proof (zlen_nonneg MB).
  assert (ZB : zlen BODY = zlen (tlv (ident 2 true 0) (tlv 10 (enc_int state))) + (zlen MB + zlen TL)).
  { unfold BODY. rewrite !zlen_app. reflexivity. }
  unfold neg_resp_dec.
  rewrite (xelem_tlv 16 true Some false _ 48 BODY rest BODY); try reflexivity; try lia.
  cbn [obind fst snd]. unfold BODY at 1.
  rewrite <- (app_nil_r (tlv 10 (enc_int state))).
  rewrite (xfield_tlv 2 0 10 false (gint 4) false 10 (enc_int state) [] (MB ++ TL) (VInt state)); auto; try reflexivity; try lia;
    try (rewrite app_nil_r; lia).
  2: { unfold gint. rewrite dec_int_enc_int. unfold int32_ok in Hst. rewrite Hst. reflexivity. }
  cbn [obind fst snd app].
  assert (HT : wfg_fields wfg resp_tail [Some (VBytes token); option_map VBytes mic] = true) by (destruct mic; reflexivity).
  assert (HM : xfield 2 1 6 false goid true (MB ++ TL) = Some (mech, TL)).
  { unfold MB. destruct mech as [m|]; cbn [option_map].
    - cbn [enc]. unfold wf_fields in Hwf. cbn [wf_val] in Hwf.
      assert (Hm : oid_ok m = true).
      { cbn [wf_fields wf_val opt] in Hwf. repeat (apply andb_true_iff in Hwf; destruct Hwf as [? Hwf]). assumption. }
      destruct (oid_ok_enc m Hm) as [o Eo]. rewrite Eo.
      assert (ZM : zlen MB = zlen (tlv (ident 2 true 1) (tlv 6 o))) by (unfold MB; cbn [option_map enc]; rewrite Eo; reflexivity).
      pose proof (zlen_tlv (ident 2 true 1) (tlv 6 o)). pose proof (zlen_tlv 6 o). pose proof (zlen_nonneg o).
      rewrite <- (app_nil_r (tlv 6 o)).
      rewrite (xfield_tlv 2 1 6 false goid true 6 o [] TL m); auto; try reflexivity; try lia; try (rewrite app_nil_r; lia).
      apply goid_enc_oid; assumption.
    - cbn [app]. apply xfield_absent.
      destruct (enc_fields_shape resp_tail _ eq_refl HT) as [E|(n' & o' & g' & b' & r' & Hin & Hn' & Hb & E)].
      + rewrite erase_resp_tail in E. fold TL in E. left. exact E.
      + rewrite erase_resp_tail in E. fold TL in E. right. exists n', b', r'.
        assert (n' = 2 \/ n' = 3).
        { cbn [gfirst resp_tail gopt In] in Hin. destruct Hin as [Hin|[Hin|[]]]; inversion Hin; auto. }
        repeat split; auto; [lia|].
        pose proof (zlen_tlv (ident 2 true n') b'). assert (zlen TL = zlen (tlv (ident 2 true n') b') + zlen r') by (rewrite E; apply zlen_app).
        pose proof (zlen_nonneg r'). lia. }
  rewrite HM. cbn [obind fst snd].
  change (DD (S (length BODY))) with (D (S (length BODY))).
  rewrite <- (app_nil_r TL). unfold TL. rewrite <- erase_resp_tail.
  rewrite (gfields_enc (S (length BODY)) resp_tail (tail_grt _)); auto.
  rewrite erase_resp_tail. fold TL. split; [lia|]. unfold zlen in *. lia.
Qed.

(* ================= SPNEGOToken.Unmarshal / KRB5Token.Unmarshal on what gokrb5 marshals ================= *)
Lemma unmarshal_neg_token_tlv id body rest : id mod 32 <> 31 -> zlen body < 2 ^ 31 ->
  unmarshal_neg_token (tlv id body ++ rest) =
  if id mod 32 =? 0 then neg_init_dec body else if id mod 32 =? 1 then neg_resp_dec body else None.
Proof.
  intros Hid Hl.
  assert (G : tlv id body ++ rest = id :: (der_len (zlen body) ++ body) ++ rest) by reflexivity.
  rewrite G. cbn [unmarshal_neg_token]. rewrite <- G. rewrite ghdr_tlv by assumption.
  unfold hdr_id. cbn [h_len h_tag]. rewrite splitz_app. reflexivity.
Qed.

Lemma gss_frame_len mech inner b : gss_frame mech inner = Some b -> zlen inner < zlen b.
Proof.
  unfold gss_frame. destruct (enc_oid mech) as [o|]; [|discriminate]. intros H. apply some_inj in H. subst b.
  pose proof (zlen_tlv (ident 1 true 0) (tlv 6 o ++ inner)). rewrite zlen_app in H. pose proof (zlen_nonneg (tlv 6 o)). lia.
Qed.

Lemma choice_encode_inv n t v b : choice_encode n t v = Some b ->
  tag_ok n = true /\ wf_val t v = true /\ b = tlv (ident 2 true n) (enc t v).
Proof.
  unfold choice_encode. destruct (tag_ok n); [|discriminate]. destruct (encode t v) as [e|] eqn:E; [|discriminate].
  apply encode_some in E. destruct E as [Hw ->]. intros H. apply some_inj in H. auto.
Qed.

(* a NegTokenInit in the GSS-API framing (SPNEGOToken.Marshal, init), anything after it *)
Theorem spnego_unmarshal_init mechs flags mt mic inner tok rest :
  choice_encode 0 rfc_NegTokenInit (init_value mechs flags mt mic) = Some inner ->
  gss_frame rfc_oid_spnego inner = Some tok ->
  forallb oid_small mechs = true -> flags_ok flags = true -> zlen tok < 2 ^ 31 ->
  spnego_unmarshal (tok ++ rest) = Some (RInit mechs (Some mt)).
Proof.
  intros HC HF Hsm Hfl Hl. apply choice_encode_inv in HC. destruct HC as (_ & Hwf & ->).
  pose proof (gss_frame_len _ _ _ HF) as Hi.
  pose proof (zlen_tlv (ident 2 true 0) (enc rfc_NegTokenInit (init_value mechs flags mt mic))) as He.
  destruct (gss_frame_head _ _ _ HF) as [r Er].
  assert (G : spnego_unmarshal (tok ++ rest) =
              match gss_oid (tok ++ rest) with
              | Some (o, r0) => if oid_eqb o rfc_oid_spnego then unmarshal_neg_token r0 else None
              | None => None
              end) by (rewrite Er; reflexivity).
  rewrite G, (gss_oid_frame _ _ _ rest HF) by (auto; reflexivity).
  rewrite oid_eqb_refl, unmarshal_neg_token_tlv by (try lia; cbv; congruence).
  change (ident 2 true 0 mod 32 =? 0) with true. cbn iota.
  rewrite <- (app_nil_r (enc _ _)). apply neg_init_dec_enc; auto. lia.
Qed.

(* a bare NegTokenResp (SPNEGOToken.Marshal, resp), anything after it *)
Theorem spnego_unmarshal_resp state mech mt mic tok rest :
  choice_encode 1 rfc_NegTokenResp (resp_value state mech mt mic) = Some tok ->
  int32_ok state = true -> (match mech with Some m => oid_small m = true | None => True end) -> zlen tok < 2 ^ 31 ->
  spnego_unmarshal (tok ++ rest) = Some (RResp mech (Some mt)).
Proof.
  intros HC Hst Hsm Hl. apply choice_encode_inv in HC. destruct HC as (_ & Hwf & ->).
  pose proof (zlen_tlv (ident 2 true 1) (enc rfc_NegTokenResp (resp_value state mech mt mic))) as He.
  assert (G : forall b, spnego_unmarshal (tlv (ident 2 true 1) b ++ rest) = unmarshal_neg_token (tlv (ident 2 true 1) b ++ rest))
    by reflexivity.
  rewrite G, unmarshal_neg_token_tlv by (try lia; cbv; congruence).
  change (ident 2 true 1 mod 32 =? 0) with false. change (ident 2 true 1 mod 32 =? 1) with true. cbn iota.
  rewrite <- (app_nil_r (enc _ _)). apply neg_resp_dec_enc; auto. lia.
Qed.

(* a KRB5 mechanism token carrying the DER of a well-formed AP-REQ (KRB5Token.Marshal), anything after it *)
Theorem krb5_unmarshal_apreq tk aet ac wire mt rest :
  wf_apreq tk aet ac = true -> encode rfc_APReq (inject_apreq tk aet ac) = Some wire ->
  gss_frame rfc_oid_krb5 (krb5_inner rfc_tok_id_ap_req wire) = Some mt -> zlen mt < 2 ^ 31 ->
  krb5_unmarshal (mt ++ rest) = Some (KAPReq (wire ++ rest)).
Proof.
  intros Hwf He HF Hl. pose proof (gss_frame_len _ _ _ HF) as Hi.
  unfold krb5_inner, rfc_tok_id_ap_req in *. rewrite zlen_app in Hi. pose proof (zlen_nonneg [1; 0]).
  unfold krb5_unmarshal. rewrite (gss_oid_frame _ _ _ rest HF) by (auto; reflexivity).
  rewrite oid_eqb_refl. cbn [app Z.eqb Pos.eqb andb].
  rewrite (parse_apreq_encode tk aet ac wire rest Hwf He) by lia. reflexivity.
Qed.

(* ... and such a token is not an SPNEGO token (the wrapper then tries it as a raw KRB5 token) *)
Theorem krb5_token_not_spnego inner mt rest :
  gss_frame rfc_oid_krb5 inner = Some mt -> zlen mt < 2 ^ 31 -> spnego_unmarshal (mt ++ rest) = None.
Proof.
  intros HF Hl. destruct (gss_frame_head _ _ _ HF) as [r Er].
  assert (G : spnego_unmarshal (mt ++ rest) =
              match gss_oid (mt ++ rest) with
              | Some (o, r0) => if oid_eqb o rfc_oid_spnego then unmarshal_neg_token r0 else None
              | None => None
              end) by (rewrite Er; reflexivity).
  rewrite G, (gss_oid_frame _ _ _ rest HF) by (auto; reflexivity). reflexivity.
Qed.

(* ================= THE REFINEMENT ================= *)
Definition accepted (o : outcome) : option identity := match o with Accept id => Some id | _ => None end.

(* wire is the RFC 4120 DER of a well-formed AP-REQ whose two encrypted parts, when they decrypt, decode to et and au
   (the hypotheses of APReqBytesProofs.verify_apreq_bytes_refines; ex_sealed_apreq shows they are satisfiable) *)
Definition sealed_apreq (st : settings) (kt : list entry) (tk : ticket) (aet : Z) (ac wire : bytes)
           (et : enc_ticket) (au : authenticator) : Prop :=
  wf_apreq tk aet ac = true /\ encode rfc_APReq (inject_apreq tk aet ac) = Some wire /\
  (forall kv ktype kvno pt,
     get_key kt (match st_override st with Some o => o | None => tk_sname tk end)
             (tk_realm tk) (tk_kvno tk) (tk_etype tk) = Ok (kv, ktype, kvno) ->
     decrypt ktype kv 2 (tk_cipher tk) = Ok pt -> dec_ticket_der pt = Some et) /\
  (forall apt, decrypt (et_keytype et) (et_key et) (auth_usage (tk_sname tk)) ac = Ok apt -> dec_auth_der apt = Some au).

(* the verdict of the sealed-content model of C01 (model/APReq.v) *)
Definition sealed_verdict st kt t rc tk aet ac et au : option identity :=
  accepted (fst (verify_apreq (fun _ => Some et) (fun _ => Some au) st kt t rc tk aet ac)).

Lemma mech_of_bytes_apreq st kt t rc tk aet ac wire et au mt rest :
  sealed_apreq st kt tk aet ac wire et au ->
  gss_frame rfc_oid_krb5 (krb5_inner rfc_tok_id_ap_req wire) = Some mt -> zlen mt < 2 ^ 31 ->
  mech_of_bytes st kt t rc (mt ++ rest) = MTAPReq (sealed_verdict st kt t rc tk aet ac et au).
Proof.
  intros (Hwf & He & Ht & Ha) HF Hl. unfold mech_of_bytes.
  rewrite (krb5_unmarshal_apreq tk aet ac wire mt rest Hwf He HF Hl).
  unfold apreq_verdict_bytes, sealed_verdict.
  pose proof (gss_frame_len _ _ _ HF) as Hi. unfold krb5_inner in Hi. rewrite zlen_app in Hi.
  pose proof (zlen_nonneg rfc_tok_id_ap_req).
  rewrite (verify_apreq_bytes_refines st kt t rc tk aet ac wire rest et au Hwf He ltac:(lia) Ht Ha). reflexivity.
Qed.

Lemma split_space_negotiate v : split_space (negotiate ++ 32 :: v) = Some (negotiate, v).
Proof. reflexivity. Qed.

(* the header layer: "Negotiate " ++ base64 of any octets *)
Theorem header_of_bytes_b64 st kt t rc b : wf_bytes b ->
  header_of_bytes st kt t rc (negotiate ++ 32 :: b64_encode b) =
  match token_of_bytes st kt t rc b with Some tk => HToken tk | None => HUndecodable end.
Proof.
  intros Hb. unfold header_of_bytes. rewrite split_space_negotiate, beq_bytes_refl, b64_decode_encode by exact Hb. reflexivity.
Qed.

Lemma token_len_gen (A B C : bytes) x mt : zlen mt < zlen (tlv 48 (A ++ B ++ tlv x (tlv 4 mt) ++ C)).
Proof.
  pose proof (zlen_tlv 48 (A ++ B ++ tlv x (tlv 4 mt) ++ C)) as H. rewrite !zlen_app in H.
  pose proof (zlen_tlv x (tlv 4 mt)). pose proof (zlen_tlv 4 mt).
  pose proof (zlen_nonneg A). pose proof (zlen_nonneg B). pose proof (zlen_nonneg C). lia.
Qed.

Lemma init_token_len mechs flags mt mic : zlen mt < zlen (enc rfc_NegTokenInit (init_value mechs flags mt mic)).
Proof.
  unfold rfc_NegTokenInit, init_value. rewrite enc_seq. unfold req, opt. rewrite !enc_fields_cons. cbn [wrap_tag].
  apply token_len_gen.
Qed.

Lemma resp_token_len state mech mt mic : zlen mt < zlen (enc rfc_NegTokenResp (resp_value state mech mt mic)).
Proof.
  unfold rfc_NegTokenResp, resp_value. rewrite enc_seq. unfold opt. rewrite !enc_fields_cons. cbn [wrap_tag].
  apply token_len_gen.
Qed.

(* (a) NegTokenInit in the GSS-API framing *)
Theorem serve_bytes_refines_init s st kt t rc tk aet ac wire et au mt mechs flags mic inner tok rest :
  sealed_apreq st kt tk aet ac wire et au ->
  gss_frame rfc_oid_krb5 (krb5_inner rfc_tok_id_ap_req wire) = Some mt ->
  choice_encode 0 rfc_NegTokenInit (init_value mechs flags mt mic) = Some inner ->
  gss_frame rfc_oid_spnego inner = Some tok ->
  forallb oid_small mechs = true -> flags_ok flags = true -> zlen tok < 2 ^ 31 -> wf_bytes (tok ++ rest) ->
  serve_bytes st kt t rc s (negotiate ++ 32 :: b64_encode (tok ++ rest)) =
  serve s (HToken (NInit (map classify_oid mechs) (Some (MTAPReq (sealed_verdict st kt t rc tk aet ac et au))))).
Proof.
  intros HS HM HC HF Hsm Hfl Hl Hwb. unfold serve_bytes. rewrite header_of_bytes_b64 by exact Hwb.
  unfold token_of_bytes. rewrite (spnego_unmarshal_init mechs flags mt mic inner tok rest HC HF Hsm Hfl Hl).
  cbn [neg_of_raw option_map].
  assert (Hm : zlen mt < 2 ^ 31).
  { pose proof (gss_frame_len _ _ _ HF) as H1. apply choice_encode_inv in HC. destruct HC as (_ & _ & ->).
    pose proof (zlen_tlv (ident 2 true 0) (enc rfc_NegTokenInit (init_value mechs flags mt mic))) as H2.
    pose proof (init_token_len mechs flags mt mic). lia. }
  rewrite <- (app_nil_r mt).
  rewrite (mech_of_bytes_apreq st kt t rc tk aet ac wire et au mt [] HS HM Hm). reflexivity.
Qed.

(* (a) a bare NegTokenResp *)
Theorem serve_bytes_refines_resp s st kt t rc tk aet ac wire et au mt state mech mic tok rest :
  sealed_apreq st kt tk aet ac wire et au ->
  gss_frame rfc_oid_krb5 (krb5_inner rfc_tok_id_ap_req wire) = Some mt ->
  choice_encode 1 rfc_NegTokenResp (resp_value state mech mt mic) = Some tok ->
  int32_ok state = true -> (match mech with Some m => oid_small m = true | None => True end) ->
  zlen tok < 2 ^ 31 -> wf_bytes (tok ++ rest) ->
  serve_bytes st kt t rc s (negotiate ++ 32 :: b64_encode (tok ++ rest)) =
  serve s (HToken (NResp (match mech with Some o => classify_oid o | None => OOther end)
                         (Some (MTAPReq (sealed_verdict st kt t rc tk aet ac et au))))).
Proof.
  intros HS HM HC Hst Hsm Hl Hwb. unfold serve_bytes. rewrite header_of_bytes_b64 by exact Hwb.
  unfold token_of_bytes. rewrite (spnego_unmarshal_resp state mech mt mic tok rest HC Hst Hsm Hl).
  cbn [neg_of_raw option_map].
  assert (Hm : zlen mt < 2 ^ 31).
  { apply choice_encode_inv in HC. destruct HC as (_ & _ & ->).
    pose proof (zlen_tlv (ident 2 true 1) (enc rfc_NegTokenResp (resp_value state mech mt mic))) as H2.
    pose proof (resp_token_len state mech mt mic). lia. }
  rewrite <- (app_nil_r mt).
  rewrite (mech_of_bytes_apreq st kt t rc tk aet ac wire et au mt [] HS HM Hm). reflexivity.
Qed.

(* (a) a raw KRB5 mechanism token (no SPNEGO layer): the wrapper turns it into NegTokenInit{[KRB5], token} *)
Theorem serve_bytes_refines_raw s st kt t rc tk aet ac wire et au mt rest :
  sealed_apreq st kt tk aet ac wire et au ->
  gss_frame rfc_oid_krb5 (krb5_inner rfc_tok_id_ap_req wire) = Some mt ->
  zlen mt < 2 ^ 31 -> wf_bytes (mt ++ rest) ->
  serve_bytes st kt t rc s (negotiate ++ 32 :: b64_encode (mt ++ rest)) =
  serve s (HToken (NInit [OKrb5] (Some (MTAPReq (sealed_verdict st kt t rc tk aet ac et au))))).
Proof.
  intros HS HM Hl Hwb. unfold serve_bytes. rewrite header_of_bytes_b64 by exact Hwb.
  unfold token_of_bytes. rewrite (krb5_token_not_spnego _ mt rest HM Hl).
  destruct HS as (Hwf & He & Ht & Ha).
  rewrite (krb5_unmarshal_apreq tk aet ac wire mt rest Hwf He HM Hl).
  rewrite (mech_of_bytes_apreq st kt t rc tk aet ac wire et au mt rest (conj Hwf (conj He (conj Ht Ha))) HM Hl). reflexivity.
Qed.

(* the verification API on token octets: SPNEGOToken.Unmarshal + AcceptSecContext *)
Theorem accept_bytes_refines_init st kt t rc tk aet ac wire et au mt mechs flags mic inner tok rest :
  sealed_apreq st kt tk aet ac wire et au ->
  gss_frame rfc_oid_krb5 (krb5_inner rfc_tok_id_ap_req wire) = Some mt ->
  choice_encode 0 rfc_NegTokenInit (init_value mechs flags mt mic) = Some inner ->
  gss_frame rfc_oid_spnego inner = Some tok ->
  forallb oid_small mechs = true -> flags_ok flags = true -> zlen tok < 2 ^ 31 ->
  accept_bytes st kt t rc (tok ++ rest) =
  Some (accept_sec_context (NInit (map classify_oid mechs) (Some (MTAPReq (sealed_verdict st kt t rc tk aet ac et au))))).
Proof.
  intros HS HM HC HF Hsm Hfl Hl. unfold accept_bytes.
  rewrite (spnego_unmarshal_init mechs flags mt mic inner tok rest HC HF Hsm Hfl Hl).
  cbn [neg_of_raw option_map].
  assert (Hm : zlen mt < 2 ^ 31).
  { pose proof (gss_frame_len _ _ _ HF) as H1. apply choice_encode_inv in HC. destruct HC as (_ & _ & ->).
    pose proof (zlen_tlv (ident 2 true 0) (enc rfc_NegTokenInit (init_value mechs flags mt mic))) as H2.
    pose proof (init_token_len mechs flags mt mic). lia. }
  rewrite <- (app_nil_r mt).
  rewrite (mech_of_bytes_apreq st kt t rc tk aet ac wire et au mt [] HS HM Hm). reflexivity.
Qed.

(* ================= (b) the handler runs only for an accepted AP-REQ ================= *)
Lemma mech_of_bytes_apreq_inv st kt t rc mb v :
  mech_of_bytes st kt t rc mb = MTAPReq v ->
  exists wire, krb5_unmarshal mb = Some (KAPReq wire) /\ v = apreq_verdict_bytes st kt t rc wire.
Proof.
  unfold mech_of_bytes. destruct (krb5_unmarshal mb) as [[w| | |]|]; try discriminate.
  intros H. injection H as <-. eauto.
Qed.

Lemma apreq_verdict_bytes_some st kt t rc wire id :
  apreq_verdict_bytes st kt t rc wire = Some id -> fst (verify_apreq_bytes st kt t rc wire) = Accept id.
Proof.
  unfold apreq_verdict_bytes. destruct (fst (verify_apreq_bytes st kt t rc wire)); try discriminate.
  intros H. injection H as ->. reflexivity.
Qed.

Lemma token_of_bytes_carried st kt t rc b tk id :
  token_of_bytes st kt t rc b = Some tk -> carried tk = Some (MTAPReq (Some id)) ->
  exists wire, carried_wire b = Some wire /\ fst (verify_apreq_bytes st kt t rc wire) = Accept id.
Proof.
  unfold token_of_bytes, carried_wire. destruct (spnego_unmarshal b) as [[ms tok|m tok]|].
  - intros H. injection H as <-. cbn [neg_of_raw carried]. destruct tok as [mb|]; [|discriminate]. cbn [option_map].
    intros H. injection H as H. apply mech_of_bytes_apreq_inv in H. destruct H as (w & -> & Hv).
    exists w. split; [reflexivity|]. apply apreq_verdict_bytes_some. symmetry. exact Hv.
  - intros H. injection H as <-. cbn [neg_of_raw carried]. destruct tok as [mb|]; [|discriminate]. cbn [option_map].
    intros H. injection H as H. apply mech_of_bytes_apreq_inv in H. destruct H as (w & -> & Hv).
    exists w. split; [reflexivity|]. apply apreq_verdict_bytes_some. symmetry. exact Hv.
  - destruct (krb5_unmarshal b) as [k|] eqn:Ek; [|discriminate]. intros H. injection H as <-. cbn [carried].
    intros H. injection H as H. apply mech_of_bytes_apreq_inv in H. destruct H as (w & Hw & Hv).
    rewrite Ek in Hw. injection Hw as ->.
    exists w. split; [reflexivity|]. apply apreq_verdict_bytes_some. symmetry. exact Hv.
Qed.

Lemma header_of_bytes_token st kt t rc hv tk :
  header_of_bytes st kt t rc hv = HToken tk ->
  exists value b, split_space hv = Some (negotiate, value) /\ b64_decode value = Some b /\
                  token_of_bytes st kt t rc b = Some tk.
Proof.
  unfold header_of_bytes. destruct (split_space hv) as [[scheme value]|]; [|discriminate].
  destruct (beq_bytes scheme negotiate) eqn:Es; [|discriminate]. apply beq_bytes_eq in Es. subst scheme.
  destruct (b64_decode value) as [b|] eqn:Eb; [|discriminate].
  destruct (token_of_bytes st kt t rc b) as [tk'|] eqn:Et; [|discriminate].
  intros H. injection H as ->. exists value, b. auto.
Qed.

(* For EVERY header value: the wrapped handler runs (with identity id in the request context) only under an
   established authenticated session of id, or when the value is "Negotiate" ' ' base64(tok) and tok carries — as the
   mech token of an SPNEGO token, or as a raw KRB5 token — a KRB5 token with tok-id 01 00 whose AP-REQ octets
   verify_apreq_bytes accepts with that identity. *)
Theorem handler_only_if_valid_apreq s st kt t rc hv id :
  r_inner (serve_bytes st kt t rc s hv) = Some id ->
  s = Session id true \/
  exists value tok wire,
    split_space hv = Some (negotiate, value) /\ b64_decode value = Some tok /\
    carried_wire tok = Some wire /\ fst (verify_apreq_bytes st kt t rc wire) = Accept id.
Proof.
  intros H. unfold serve_bytes in H. apply handler_only_if_authenticated in H.
  destruct H as [H|(tk & Hh & Hc)]; [left; exact H|]. right.
  apply header_of_bytes_token in Hh. destruct Hh as (value & b & Hs & Hb & Ht).
  destruct (token_of_bytes_carried _ _ _ _ _ _ _ Ht Hc) as (w & Hw & Hv).
  exists value, b, w. auto.
Qed.

(* what carried_wire means: the octets are the AP-REQ of a KRB5 token found as mech token or as the whole token *)
Theorem carried_wire_spec tok wire : carried_wire tok = Some wire ->
  exists mb, krb5_unmarshal mb = Some (KAPReq wire) /\
             ((exists ms, spnego_unmarshal tok = Some (RInit ms (Some mb))) \/
              (exists m, spnego_unmarshal tok = Some (RResp m (Some mb))) \/
              (spnego_unmarshal tok = None /\ mb = tok)).
Proof.
  unfold carried_wire. destruct (spnego_unmarshal tok) as [[ms [mb|]|m [mb|]]|]; try discriminate.
  - destruct (krb5_unmarshal mb) as [[w| | |]|] eqn:E; try discriminate. intros H. injection H as ->. eauto 6.
  - destruct (krb5_unmarshal mb) as [[w| | |]|] eqn:E; try discriminate. intros H. injection H as ->. eauto 6.
  - destruct (krb5_unmarshal tok) as [[w| | |]|] eqn:E; try discriminate. intros H. injection H as ->. eauto 6.
Qed.

(* ... a KRB5 token: [APPLICATION 0] { OID 1.2.840.113554.1.2.2, 01 00, AP-REQ } with an AP-REQ APReq.Unmarshal accepts *)
Theorem krb5_unmarshal_apreq_inv mb wire : krb5_unmarshal mb = Some (KAPReq wire) ->
  gss_oid mb = Some (rfc_oid_krb5, 1 :: 0 :: wire) /\ parse_apreq wire <> None.
Proof.
  unfold krb5_unmarshal. destruct (gss_oid mb) as [[o r]|]; [|discriminate].
  destruct (oid_eqb o rfc_oid_krb5) eqn:Eo; [|discriminate]. apply oid_eqb_eq in Eo. subst o.
  destruct r as [|t0 [|t1 msg]]; try discriminate.
  destruct ((t0 =? 1) && (t1 =? 0)) eqn:E1.
  - apply andb_true_iff in E1. destruct E1 as [E1 E2]. assert (t0 = 1) by lia. assert (t1 = 0) by lia. subst.
    destruct (parse_apreq msg) eqn:Ep; [|discriminate]. intros H. injection H as <-. rewrite Ep. split; [reflexivity | discriminate].
  - destruct ((t0 =? 2) && (t1 =? 0)); [destruct (krb_msg_ok 15 go_APRep msg); discriminate|].
    destruct ((t0 =? 3) && (t1 =? 0)); [destruct (krb_msg_ok 30 go_KRBError msg); discriminate | discriminate].
Qed.

(* with C01's characterisation of acceptance from bytes: the conjunction of RFC 4120 3.2.3 holds of the carried AP-REQ *)
Corollary handler_only_if_rfc_valid s st kt t rc hv id :
  r_inner (serve_bytes st kt t rc s hv) = Some id ->
  s = Session id true \/
  exists value tok wire tk aet ac rc',
    split_space hv = Some (negotiate, value) /\ b64_decode value = Some tok /\ carried_wire tok = Some wire /\
    parse_apreq wire = Some (tk, aet, ac) /\ rfc_valid dec_ticket_der dec_auth_der st kt t rc tk ac id rc'.
Proof.
  intros H. apply handler_only_if_valid_apreq in H. destruct H as [H|(value & tok & wire & Hs & Hb & Hw & Hv)]; [left; exact H|].
  right. destruct (verify_apreq_bytes st kt t rc wire) as [o rc'] eqn:E. cbn [fst] in Hv. subst o.
  apply verify_apreq_bytes_accept_iff in E. destruct E as (tk & aet & ac & Hp & Hr).
  exists value, tok, wire, tk, aet, ac, rc'. auto.
Qed.

(* ================= (c) what does not decode is refused with 401; nothing panics ================= *)
Definition no_session (s : session) : Prop := forall id, s <> Session id true.

(* the header is not a decodable token exactly in these cases *)
Theorem header_not_token st kt t rc hv :
  (forall tk, header_of_bytes st kt t rc hv <> HToken tk) <->
  (forall value, split_space hv = Some (negotiate, value) ->
     forall b, b64_decode value = Some b -> spnego_unmarshal b = None /\ krb5_unmarshal b = None).
Proof.
  split.
  - intros H value Hs b Hb. unfold header_of_bytes in H. rewrite Hs, beq_bytes_refl, Hb in H.
    unfold token_of_bytes in H. destruct (spnego_unmarshal b) as [r|]; [exfalso; eapply H; reflexivity|].
    destruct (krb5_unmarshal b) as [k|]; [exfalso; eapply H; reflexivity|]. auto.
  - intros H tk Hh. apply header_of_bytes_token in Hh. destruct Hh as (value & b & Hs & Hb & Ht).
    destruct (H value Hs b Hb) as [H1 H2]. unfold token_of_bytes in Ht. rewrite H1, H2 in Ht. discriminate.
Qed.

(* no scheme "Negotiate", malformed base64, octets that are neither an SPNEGO token nor a raw KRB5 token: 401 with a
   challenge (bare "Negotiate", or the accept-incomplete NegTokenResp), the handler is not reached *)
Theorem undecodable_401 s st kt t rc hv :
  no_session s -> (forall tk, header_of_bytes st kt t rc hv <> HToken tk) ->
  r_status (serve_bytes st kt t rc s hv) = 401 /\ r_inner (serve_bytes st kt t rc s hv) = None /\
  (r_challenge (serve_bytes st kt t rc s hv) = CNegotiate \/ r_challenge (serve_bytes st kt t rc s hv) = CIncomplete).
Proof.
  intros Hs Hh. unfold serve_bytes, serve.
  destruct (header_of_bytes st kt t rc hv) as [| | |tk]; [| | |exfalso; eapply Hh; reflexivity];
    destruct s as [|nf|sid [|]]; try (exfalso; eapply Hs; reflexivity); cbn; auto.
Qed.

(* every request that does not reach the handler gets 401 with a Negotiate challenge, or 5xx exactly when the session
   store fails after a successful authentication *)
Theorem serve_bytes_refused s st kt t rc hv :
  r_inner (serve_bytes st kt t rc s hv) = None ->
  (r_status (serve_bytes st kt t rc s hv) = 401 /\ r_challenge (serve_bytes st kt t rc s hv) <> CNone /\
   r_challenge (serve_bytes st kt t rc s hv) <> CAcceptCompleted) \/
  (r_status (serve_bytes st kt t rc s hv) = 500 /\ s = NoSession true).
Proof.
  intros H. unfold serve_bytes in *. destruct (otherwise_refused _ _ H) as [H1|(H1 & H2 & _)]; [left; exact H1 | right; auto].
Qed.

Theorem serve_bytes_served_200 s st kt t rc hv id :
  r_inner (serve_bytes st kt t rc s hv) = Some id -> r_status (serve_bytes st kt t rc s hv) = 200.
Proof. apply served_status. Qed.

(* service.VerifyAPREQ never panics on the carried AP-REQ: the jv entry points never answer "panic" *)
Theorem no_crash st kt t rc b : crashes st kt t rc b = false.
Proof.
  unfold crashes. destruct (carried_wire b) as [w|]; [|reflexivity].
  pose proof (verify_apreq_bytes_total st kt t rc w) as H.
  destruct (fst (verify_apreq_bytes st kt t rc w)); try reflexivity. contradiction.
Qed.

Theorem spnego_serve_bytes_never_panics j : spnego_serve_bytes_j j <> jpanic.
Proof.
  unfold spnego_serve_bytes_j.
  assert (G : forall s st kt t rc hv,
    match un_session s, un_settings st, map_opt un_entry kt, un_rc rc with
    | Some s', Some st', Some kt', Some rc' =>
      if crashes st' kt' t rc' (header_token hv) then jpanic else
      let r := serve_bytes st' kt' t rc' s' hv in
      jok [JI (r_status r); JI (challenge_code (r_challenge r)); j_id (r_inner r)]
    | _, _, _, _ => jbad
    end <> jpanic).
  { intros. destruct (un_session s); [|discriminate]. destruct (un_settings st); [|discriminate].
    destruct (map_opt un_entry kt); [|discriminate]. destruct (un_rc rc); [|discriminate].
    rewrite no_crash. discriminate. }
  destruct j as [z|b|l]; try discriminate.
  destruct l as [|a [|b [|c [|d [|e [|f [|g l]]]]]]].
  all: repeat first [discriminate | apply G
                    | match goal with |- context [match ?x with _ => _ end] => is_var x; destruct x end].
Qed.

Theorem spnego_accept_bytes_never_panics j : spnego_accept_bytes_j j <> jpanic.
Proof.
  unfold spnego_accept_bytes_j.
  destruct j as [z|b|l]; try discriminate.
  assert (G : forall st kt t rc b,
    match un_settings st, map_opt un_entry kt, un_rc rc with
    | Some st', Some kt', Some rc' =>
      match accept_bytes st' kt' t rc' b with
      | None => jerr
      | Some (o, s) =>
        if crashes st' kt' t rc' b then jpanic else
        jok [jbool (match o with Some _ => true | None => false end); j_id o;
             jbool (match s with SComplete | SContinueNeeded => true | _ => false end)]
      end
    | _, _, _ => jbad
    end <> jpanic).
  { intros. destruct (un_settings st); [|discriminate]. destruct (map_opt un_entry kt); [|discriminate].
    destruct (un_rc rc); [|discriminate]. destruct (accept_bytes _ _ _ _ _) as [[o s0]|]; [|discriminate].
    rewrite no_crash. discriminate. }
  destruct l as [|a [|b [|c [|d [|e [|f l]]]]]].
  all: repeat first [discriminate | apply G
                    | match goal with |- context [match ?x with _ => _ end] => is_var x; destruct x end].
Qed.

(* ================= examples: the premises are satisfiable, on the really sealed AP-REQ of APReqBytesProofs (rc4-hmac) ===== *)
Definition ex_mt : bytes := opt_get [] (gss_frame rfc_oid_krb5 (krb5_inner rfc_tok_id_ap_req ex_wire)).
Definition ex_mechs : list (list Z) := [oid_ms_krb5; rfc_oid_krb5].
Definition ex_flags : option (Z * bytes) := Some (1, [64]).
Definition ex_inner : bytes := opt_get [] (choice_encode 0 rfc_NegTokenInit (init_value ex_mechs ex_flags ex_mt None)).
Definition ex_tok : bytes := opt_get [] (gss_frame rfc_oid_spnego ex_inner).
Definition ex_resp_tok : bytes :=
  opt_get [] (choice_encode 1 rfc_NegTokenResp (resp_value 1 (Some rfc_oid_krb5) ex_mt (Some [1; 2]))).
Definition ex_hdr (tok : bytes) : bytes := negotiate ++ 32 :: b64_encode tok.
Definition ex_id : identity := mkIdentity ex_user ex_realm [ex_user] 1700036000.

Example ex_wellformed_apreq :
  wf_apreq ex_tk 23 ex_ac = true /\ dec_ticket_der ex_pt = Some ex_et /\ dec_auth_der ex_apt = Some ex_au.
Proof. vm_compute. auto. Qed.

Example ex_sealed_apreq : sealed_apreq ex_st ex_kt ex_tk 23 ex_ac ex_wire ex_et ex_au.
Proof.
  destruct ex_sealed as [S1 S2]. destruct ex_encodings as (_ & _ & E3 & _). destruct ex_wellformed_apreq as [W D].
  destruct D as [D1 D2].
  split; [exact W|]. split; [exact E3|]. split.
  - intros kv ktype kvno pt Hk Hd.
    assert (E : get_key ex_kt (match st_override ex_st with Some o => o | None => tk_sname ex_tk end)
                        (tk_realm ex_tk) (tk_kvno ex_tk) (tk_etype ex_tk) = Ok (ex_svc_key, 23, 3)) by (vm_compute; reflexivity).
    rewrite E in Hk. injection Hk as <- <- <-. rewrite S1 in Hd. injection Hd as <-. exact D1.
  - intros apt Ha. change (decrypt 23 ex_session 11 ex_ac = Ok apt) in Ha. rewrite S2 in Ha. injection Ha as <-. exact D2.
Qed.

(* the framings exist, have the announced OIDs / alternatives and are small *)
Example ex_tokens :
  gss_frame rfc_oid_krb5 (krb5_inner rfc_tok_id_ap_req ex_wire) = Some ex_mt /\
  choice_encode 0 rfc_NegTokenInit (init_value ex_mechs ex_flags ex_mt None) = Some ex_inner /\
  gss_frame rfc_oid_spnego ex_inner = Some ex_tok /\
  choice_encode 1 rfc_NegTokenResp (resp_value 1 (Some rfc_oid_krb5) ex_mt (Some [1; 2])) = Some ex_resp_tok /\
  forallb oid_small ex_mechs = true /\ flags_ok ex_flags = true /\ int32_ok 1 = true /\
  zlen ex_mt = 420 /\ zlen ex_tok = 480 /\ zlen ex_resp_tok = 460 /\
  wf_bytesb (ex_tok ++ [222; 173]) = true /\ wf_bytesb ex_resp_tok = true /\ wf_bytesb (ex_mt ++ [0]) = true.
Proof. vm_compute. repeat split; reflexivity. Qed.

(* the decoders on them *)
Example ex_unmarshal :
  spnego_unmarshal (ex_tok ++ [222; 173]) = Some (RInit ex_mechs (Some ex_mt)) /\
  spnego_unmarshal ex_resp_tok = Some (RResp (Some rfc_oid_krb5) (Some ex_mt)) /\
  spnego_unmarshal ex_mt = None /\ krb5_unmarshal ex_mt = Some (KAPReq ex_wire) /\
  spnego_unmarshal ex_inner = None /\ krb5_unmarshal ex_inner = None /\         (* a bare NegTokenInit is not accepted *)
  carried_wire ex_tok = Some ex_wire /\ carried_wire ex_resp_tok = Some ex_wire /\ carried_wire ex_mt = Some ex_wire.
Proof. vm_compute. repeat split; reflexivity. Qed.

(* served from the header octets, with the sealed identity, exactly as the structure model says (premise and
   conclusion of serve_bytes_refines_init / _resp / _raw and of handler_only_if_valid_apreq) *)
Example ex_served :
  sealed_verdict ex_st ex_kt ex_now [] ex_tk 23 ex_ac ex_et ex_au = Some ex_id /\
  serve_bytes ex_st ex_kt ex_now [] NoManager (ex_hdr (ex_tok ++ [222; 173])) = mkResp 200 CAcceptCompleted (Some ex_id) /\
  serve NoManager (HToken (NInit (map classify_oid ex_mechs) (Some (MTAPReq (Some ex_id))))) = mkResp 200 CAcceptCompleted (Some ex_id) /\
  serve_bytes ex_st ex_kt ex_now [] NoManager (ex_hdr ex_resp_tok) = mkResp 200 CAcceptCompleted (Some ex_id) /\
  serve_bytes ex_st ex_kt ex_now [] NoManager (ex_hdr (ex_mt ++ [0])) = mkResp 200 CAcceptCompleted (Some ex_id) /\
  serve_bytes ex_st ex_kt ex_now [] (NoSession true) (ex_hdr ex_tok) = mkResp 500 CNone None /\
  accept_bytes ex_st ex_kt ex_now [] ex_tok = Some (Some ex_id, SComplete) /\
  fst (verify_apreq_bytes ex_st ex_kt ex_now [] ex_wire) = Accept ex_id.
Proof. vm_compute. repeat split; reflexivity. Qed.

(* refused: the hypotheses of undecodable_401 are satisfiable in each of its three ways, and tokens that decode but
   carry no acceptable AP-REQ are rejected *)
Definition ex_aprep_mech : bytes := opt_get [] (gss_frame rfc_oid_krb5 (krb5_inner rfc_tok_id_ap_rep ex_wire)).
Definition ex_ms_mech : bytes := opt_get [] (gss_frame oid_ms_krb5 (krb5_inner rfc_tok_id_ap_req ex_wire)).
Definition ex_tok_of (mechs : list (list Z)) (mt : bytes) : bytes :=
  opt_get [] (gss_frame rfc_oid_spnego (opt_get [] (choice_encode 0 rfc_NegTokenInit (init_value mechs None mt None)))).

Example ex_refused :
  let sv := serve_bytes ex_st ex_kt ex_now [] NoManager in
  sv [] = mkResp 401 CNegotiate None /\
  sv (78 :: 69 :: 71 :: 79 :: 84 :: 73 :: 65 :: 84 :: 69 :: 32 :: b64_encode ex_tok) = mkResp 401 CNegotiate None /\   (* "NEGOTIATE" *)
  sv (negotiate ++ 32 :: 32 :: b64_encode ex_tok) = mkResp 401 CIncomplete None /\                                     (* two blanks *)
  sv (negotiate ++ 32 :: removelast (b64_encode ex_tok)) = mkResp 401 CIncomplete None /\                              (* padding missing *)
  sv (ex_hdr ex_inner) = mkResp 401 CIncomplete None /\                                                                 (* bare NegTokenInit *)
  sv (ex_hdr (firstn 400 ex_tok)) = mkResp 401 CIncomplete None /\                                                      (* truncated *)
  sv (ex_hdr (ex_tok_of [rfc_oid_krb5] ex_aprep_mech)) = mkResp 401 CReject None /\                                     (* tok-id 02 00 *)
  sv (ex_hdr (ex_tok_of [rfc_oid_krb5] ex_ms_mech)) = mkResp 401 CReject None /\                                        (* MS OID in the mech token *)
  sv (ex_hdr (ex_tok_of [[1; 3; 6; 1; 4; 1; 311; 2; 2; 10]; rfc_oid_krb5] ex_mt)) = mkResp 401 CReject None /\          (* NTLMSSP first *)
  sv (ex_hdr (ex_tok_of [] ex_mt)) = mkResp 401 CReject None /\                                                         (* empty mech list *)
  serve_bytes ex_st ex_kt (ex_now + 3600 * 1000000) [] NoManager (ex_hdr ex_tok) = mkResp 401 CReject None /\           (* clock skew *)
  serve_bytes ex_st ex_kt ex_now [mkAuth ex_user 1700000100123456 ex_sname] NoManager (ex_hdr ex_tok) = mkResp 401 CReject None. (* replay *)
Proof. vm_compute. repeat split; reflexivity. Qed.

Example ex_not_token :
  (forall tk, header_of_bytes ex_st ex_kt ex_now [] (ex_hdr ex_inner) <> HToken tk) /\ no_session NoManager /\
  no_session (NoSession false).
Proof. split; [|split]; [intros tk; vm_compute; discriminate | intros id; discriminate | intros id; discriminate]. Qed.
