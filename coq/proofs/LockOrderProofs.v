(* Deadlock freedom from a lock ranking.  Abstract machine: a thread holds some locks and may be blocked waiting for
   one more; a set of threads is deadlocked when each of them waits for a lock that a member of the set holds (for
   sync.RWMutex: a writer waits for the readers, a reader waits for the writer or — behind a queued writer — for the
   earlier readers; in every case the wait is for a thread holding that lock).  If every wait is for a lock ranked
   strictly above everything the waiter holds, no such set exists. *)
From Coq Require Import List Arith Lia.
Import ListNotations.

Section Ranked.
  Variable lock : Type.
  Variable rank : lock -> nat.

  Record thread := mkThread { held : list lock; waiting : option lock }.

  (* the discipline the checker establishes for every acquisition site *)
  Definition ordered (t : thread) : Prop :=
    match waiting t with
    | Some w => forall h, In h (held t) -> rank h < rank w
    | None => True
    end.

  (* a non-empty set of threads, each waiting for a lock held by a member of the set *)
  Definition deadlocked (S : list thread) : Prop :=
    S <> [] /\
    forall t, In t S -> exists w, waiting t = Some w /\ exists u, In u S /\ In w (held u).

  Definition wrank (t : thread) : nat := match waiting t with Some w => rank w | None => 0 end.

  Lemma exists_max (S : list thread) : S <> [] -> exists t, In t S /\ forall u, In u S -> wrank u <= wrank t.
  Proof.
    induction S as [|a S IH]; intros H; [congruence|].
    destruct S as [|b S'].
    - exists a. split; [left; reflexivity|]. intros u [<-|[]]. lia.
    - destruct (IH ltac:(discriminate)) as (m & Hm & Hmax).
      destruct (le_lt_dec (wrank a) (wrank m)) as [Hle|Hlt].
      + exists m. split; [right; exact Hm|]. intros u [<-|Hu]; [exact Hle|apply Hmax, Hu].
      + exists a. split; [left; reflexivity|]. intros u [<-|Hu]; [lia|]. specialize (Hmax u Hu). lia.
  Qed.

  Theorem ordered_no_deadlock (S : list thread) :
    Forall ordered S -> ~ deadlocked S.
  Proof.
    intros Hord [Hne Hwait].
    destruct (exists_max S Hne) as (t & Ht & Hmax).
    destruct (Hwait t Ht) as (w & Hw & u & Hu & Hheld).
    destruct (Hwait u Hu) as (w' & Hw' & _).
    rewrite Forall_forall in Hord. specialize (Hord u Hu). unfold ordered in Hord. rewrite Hw' in Hord.
    specialize (Hord w Hheld). specialize (Hmax u Hu). unfold wrank in Hmax. rewrite Hw, Hw' in Hmax. lia.
  Qed.

  (* in particular a thread never waits for a lock it already holds (no self-deadlock by re-entry) *)
  Corollary ordered_no_reentry (t : thread) w : ordered t -> waiting t = Some w -> ~ In w (held t).
  Proof. intros Ho Hw Hin. unfold ordered in Ho. rewrite Hw in Ho. specialize (Ho w Hin). lia. Qed.
End Ranked.

(* the hypotheses are satisfiable and the conclusion is not vacuous: two threads taking two locks in opposite
   orders can deadlock, and that state is not ordered under any ranking *)
Example opposite_orders_deadlock :
  deadlocked nat [mkThread nat [1] (Some 2); mkThread nat [2] (Some 1)].
Proof.
  split; [discriminate|]. intros t [<-|[<-|[]]]; cbn.
  - exists 2. split; [reflexivity|]. exists (mkThread nat [2] (Some 1)). cbn. auto.
  - exists 1. split; [reflexivity|]. exists (mkThread nat [1] (Some 2)). cbn. auto.
Qed.

Example opposite_orders_not_ordered (rank : nat -> nat) :
  ~ Forall (ordered nat rank) [mkThread nat [1] (Some 2); mkThread nat [2] (Some 1)].
Proof. intros H. exact (ordered_no_deadlock nat rank _ H opposite_orders_deadlock). Qed.
