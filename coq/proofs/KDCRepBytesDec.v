(* Gokrb5.proofs.KDCRepBytesDec — the Go-shaped lenient decoder of model/KDCRepBytes.v reads back every DER
   encoding (model/DERCodec.v: enc) of a well-formed value of the corresponding RFC schema:

     go_unmarshal_app_encode :  gok g -> wf_val (erase g) v -> gowf g v -> |enc| < 2^31 ->
                                go_unmarshal_app n g (enc (TApp n (erase g)) v ++ trailing) = Some v

   for EVERY Go type description g (erase g is its wire schema; gowf adds what Go's types add to the schema:
   integers fit int32 / int64, BIT STRING padding bits are zero).  Together with erase g_X = rfc_X (by
   computation, at the end) this is what connects bytes mode to the RFC schemas of C13. *)
From Coq Require Import ZifyBool.
From Gokrb5.lib Require Import Bytes JV.
From Gokrb5.model Require Import Schema DER DERCodec RFCSchemas KDCRep KDCRepBytes.
From Gokrb5.proofs Require Import DERBasic DERTime DERProofs.
Local Ltac Zify.zify_post_hook ::= Z.div_mod_to_equations.

(* ---------- the wire schema of a Go type ---------- *)
Fixpoint erase (g : gty) : ty :=
  match g with
  | GInt _ => TInt
  | GOctets => TOctets
  | GStr => TGenStr
  | GTime => TGenTime
  | GBits => TBits
  | GStruct fs _ => TSeq (map (fun f : gfield => (Some (fst (fst f)), snd (fst f), erase (snd f))) fs)
  | GSliceOf e => TSeqOf (erase e)
  | GRawApp n g' => TApp n (erase g')
  end.

Definition efield (f : gfield) : field := (Some (fst (fst f)), snd (fst f), erase (snd f)).

(* what the Go types require beyond the schema *)
Definition gowf_fields (w : gty -> value -> bool) : list gfield -> list (option value) -> bool :=
  fix go (fs : list gfield) (vs : list (option value)) : bool :=
  match fs, vs with
  | [], [] => true
  | (_, _, g) :: fs', o :: vs' => (match o with Some v => w g v | None => true end) && go fs' vs'
  | _, _ => false
  end.

Fixpoint gowf (g : gty) (v : value) {struct g} : bool :=
  match g, v with
  | GInt w, VInt z => (- 2 ^ (w - 1) <=? z) && (z <? 2 ^ (w - 1))
  | GBits, VBits u b => pad_zero u b
  | GStruct fs _, VSeq vs => gowf_fields gowf fs vs
  | GSliceOf e, VList vs => forallb (gowf e) vs
  | GRawApp _ g', _ => gowf g' v
  | _, _ => true
  end.

(* Go declarations on which decoding is unambiguous: context tags below 31 and increasing, no OPTIONAL RawValue *)
Definition gok_fields (ok : gty -> bool) : Z -> list gfield -> bool :=
  fix go (prev : Z) (fs : list gfield) : bool :=
  match fs with
  | [] => true
  | (t, o, g) :: fs' => (prev <? t) && (t <? 31) && ok g && negb (o && is_raw g) && go t fs'
  end.

Fixpoint gok (g : gty) : bool :=
  match g with
  | GStruct fs _ => gok_fields gok (-1) fs
  | GSliceOf e => gok e && negb (is_raw e)
  | GRawApp n g' => (0 <=? n) && (n <? 31) && gok g' && negb (is_raw g')
  | _ => true
  end.

(* ---------- induction principle (nested list in GStruct) ---------- *)
Section GtyInd.
  Variable P : gty -> Prop.
  Hypothesis HInt : forall w, P (GInt w).
  Hypothesis HOctets : P GOctets.
  Hypothesis HStr : P GStr.
  Hypothesis HTime : P GTime.
  Hypothesis HBits : P GBits.
  Hypothesis HStruct : forall fs extra, Forall (fun f : gfield => P (snd f)) fs -> P (GStruct fs extra).
  Hypothesis HSlice : forall e, P e -> P (GSliceOf e).
  Hypothesis HRaw : forall n g, P g -> P (GRawApp n g).

  Fixpoint gty_ind' (g : gty) : P g :=
    match g with
    | GInt w => HInt w | GOctets => HOctets | GStr => HStr | GTime => HTime | GBits => HBits
    | GStruct fs extra =>
      HStruct fs extra ((fix go (l : list gfield) : Forall (fun f : gfield => P (snd f)) l :=
                          match l with
                          | [] => Forall_nil _
                          | f :: r => Forall_cons f (match f as f0 return P (snd f0) with (_, g') => gty_ind' g' end)
                                                  (go r)
                          end) fs)
    | GSliceOf e => HSlice e (gty_ind' e)
    | GRawApp n g' => HRaw n g' (gty_ind' g')
    end.
End GtyInd.

(* ---------- the header reader on a freshly written TLV ---------- *)
Lemma go_hdr_tlv id body rest :
  0 <= id < 256 -> id mod 32 <> 31 -> zlen body < 2147483648 ->
  go_hdr (tlv id body ++ rest) = Some (id / 64, (id / 32) mod 2 =? 1, id mod 32, zlen body, body ++ rest).
Proof.
  intros Hid Hm Hb. unfold tlv, go_hdr. cbn [app].
  replace (is_byte id) with true by (unfold is_byte; lia).
  destruct (Z.eqb_spec (id mod 32) 31); [contradiction|].
  rewrite <- app_assoc. rewrite parse_len_der_len by (pose proof (zlen_nonneg body); lia).
  replace (zlen body <? 2147483648) with true by lia. reflexivity.
Qed.

Lemma ident_fields c n : 0 <= c <= 3 -> 0 <= n < 31 ->
  0 <= ident c true n < 256 /\ ident c true n mod 32 <> 31 /\
  ident c true n / 64 = c /\ ((ident c true n / 32) mod 2 =? 1) = true /\ ident c true n mod 32 = n.
Proof. unfold ident. intros. lia. Qed.

Lemma tlv_cons id body : exists r, tlv id body = id :: r.
Proof. unfold tlv. eauto. Qed.

Lemma match_cons {A B} (l : list A) (a b : B) : l <> [] -> match l with [] => a | _ :: _ => b end = b.
Proof. destruct l; [congruence | reflexivity]. Qed.

Lemma tlv_app_nonempty id body rest : tlv id body ++ rest <> [].
Proof. unfold tlv. discriminate. Qed.

Lemma app_nonempty_l {A} (a b : list A) : a <> [] -> a ++ b <> [].
Proof. destruct a; [congruence | discriminate]. Qed.

(* a field without explicit wrapper *)
Lemma gelem_gen_plain um bodyf opt id body rest v :
  0 <= id < 256 -> id mod 32 <> 31 -> zlen body < 2147483648 ->
  um (id / 64) ((id / 32) mod 2 =? 1) (id mod 32) = true -> bodyf (id mod 32) body = Some v ->
  gelem_gen false um bodyf None opt (tlv id body ++ rest) = Some (Some v, rest).
Proof.
  intros Hid Hm Hb Hu Hf. unfold gelem_gen.
  rewrite match_cons by apply tlv_app_nonempty.
  rewrite go_hdr_tlv by assumption.
  rewrite Hu. rewrite splitz_app. rewrite Hf. reflexivity.
Qed.

(* a field inside its explicit wrapper [c n]; the wrapper's own length plays no role *)
Lemma gelem_gen_wrapped um bodyf c n opt id body rest v :
  0 <= c <= 3 -> 0 <= n < 31 ->
  0 <= id < 256 -> id mod 32 <> 31 -> zlen body < 2147483648 -> zlen (tlv id body) < 2147483648 ->
  um (id / 64) ((id / 32) mod 2 =? 1) (id mod 32) = true -> bodyf (id mod 32) body = Some v ->
  gelem_gen false um bodyf (Some (c, n)) opt (tlv (ident c true n) (tlv id body) ++ rest) = Some (Some v, rest).
Proof.
  intros Hc Hn Hid Hm Hb Hb2 Hu Hf. unfold gelem_gen.
  destruct (ident_fields c n Hc Hn) as (I1 & I2 & I3 & I4 & I5).
  rewrite match_cons by apply tlv_app_nonempty.
  rewrite go_hdr_tlv by assumption. rewrite I3, I4, I5.
  rewrite match_cons by apply tlv_app_nonempty.
  rewrite !Z.eqb_refl. cbn [orb andb].
  pose proof (zlen_tlv id body). pose proof (zlen_nonneg body).
  replace (0 <? zlen (tlv id body)) with true by lia.
  rewrite go_hdr_tlv by assumption. rewrite Hu. rewrite splitz_app. rewrite Hf. reflexivity.
Qed.

(* ---------- what an encoding of a non-raw Go type looks like, and that its contents parse ---------- *)
Definition shape (g : gty) (v : value) : Prop :=
  exists id body,
    enc (erase g) v = tlv id body /\ 0 <= id < 256 /\ id mod 32 <> 31 /\
    univ_match g (id / 64) ((id / 32) mod 2 =? 1) (id mod 32) = true /\
    gbody g (id mod 32) body = Some v.

Definition small (b : bytes) : Prop := zlen b < 2147483648.

(* Q g: every small well-formed value of g has the shape above (non-raw g), or its contents parser reads it back
   from the APPLICATION-wrapped encoding (raw g) *)
Definition Q (g : gty) : Prop :=
  forall v, wf_val (erase g) v = true -> gowf g v = true -> small (enc (erase g) v) ->
  if is_raw g then forall tag, gbody g tag (enc (erase g) v) = Some v
  else shape g v.

Lemma small_tlv id body : small (tlv id body) -> small body.
Proof. unfold small. pose proof (zlen_tlv id body). lia. Qed.

Lemma small_app_l a b : small (a ++ b) -> small a.
Proof. unfold small. rewrite zlen_app. pose proof (zlen_nonneg b). lia. Qed.

Lemma small_app_r a b : small (a ++ b) -> small b.
Proof. unfold small. rewrite zlen_app. pose proof (zlen_nonneg a). lia. Qed.

(* the field wrapped in its context tag, for raw and non-raw types alike *)
Lemma gelem_field g t o v rest :
  0 <= t < 31 -> Q g -> wf_val (erase g) v = true -> gowf g v = true -> small (enc (erase g) v) ->
  gelem_gen (is_raw g) (univ_match g) (gbody g) (Some (2, t)) o (tlv (ident 2 true t) (enc (erase g) v) ++ rest)
  = Some (Some v, rest).
Proof.
  intros Ht HQ Hwf Hgo Hs. specialize (HQ v Hwf Hgo Hs). destruct (is_raw g) eqn:R.
  - (* asn1.RawValue: any TLV; its contents go to the contents parser *)
    unfold gelem_gen. destruct (ident_fields 2 t ltac:(lia) Ht) as (I1 & I2 & I3 & I4 & I5).
    rewrite match_cons by apply tlv_app_nonempty.
    rewrite go_hdr_tlv by assumption.
    rewrite splitz_app. rewrite HQ. reflexivity.
  - destruct HQ as (id & body & E & Hid & Hm & Hu & Hf). rewrite E in *.
    apply gelem_gen_wrapped; auto; try lia. apply small_tlv in Hs. exact Hs.
Qed.

(* ---------- SEQUENCE: the field list ---------- *)
Lemma efields_cons t o g fs : map efield ((t, o, g) :: fs) = (Some t, o, erase g) :: map efield fs.
Proof. reflexivity. Qed.

Lemma gowf_fields_cons (w : gty -> value -> bool) t o g fs ov vs :
  gowf_fields w ((t, o, g) :: fs) (ov :: vs) =
  (match ov with Some v => w g v | None => true end) && gowf_fields w fs vs.
Proof. reflexivity. Qed.

Lemma gok_fields_cons (ok : gty -> bool) prev t o g fs :
  gok_fields ok prev ((t, o, g) :: fs) =
  (prev <? t) && (t <? 31) && ok g && negb (o && is_raw g) && gok_fields ok t fs.
Proof. reflexivity. Qed.

Lemma gfields_cons fld t o g fs b :
  gfields fld ((t, o, g) :: fs) b =
  match fld g t o b with
  | Some (ov, r) => match gfields fld fs r with Some (vs, r') => Some (ov :: vs, r') | None => None end
  | None => None
  end.
Proof. reflexivity. Qed.

Lemma gok_fields_weaken (ok : gty -> bool) fs : forall p p', p' <= p -> gok_fields ok p fs = true -> gok_fields ok p' fs = true.
Proof.
  destruct fs as [|[[t o] g] fs]; intros p p' Hp H; [reflexivity|].
  rewrite gok_fields_cons in *. repeat (apply andb_true_iff in H; destruct H as [H ?]).
  repeat (apply andb_true_iff; split); auto. lia.
Qed.

(* the encoding of the remaining fields is empty or starts with a context-tagged TLV whose number is larger than
   prev, whose contents are not empty, and which is small *)
Lemma enc_fields_next fs : forall prev vs,
  gok_fields gok prev fs = true -> wf_fields wf_val (map efield fs) vs = true ->
  small (enc_fields enc (map efield fs) vs) ->
  enc_fields enc (map efield fs) vs = [] \/
  exists t x more, enc_fields enc (map efield fs) vs = tlv (ident 2 true t) x ++ more /\
                   prev < t < 31 /\ x <> [] /\ small x.
Proof.
  induction fs as [|[[t o] g] fs IH]; intros prev vs Hok Hwf Hs.
  - left. destruct vs; reflexivity.
  - destruct vs as [|ov vs]; [discriminate|]. rewrite efields_cons in *.
    rewrite wf_fields_cons in Hwf. apply andb_true_iff in Hwf. destruct Hwf as [Hw1 Hw2].
    rewrite gok_fields_cons in Hok.
    apply andb_true_iff in Hok. destruct Hok as [Hok Hrest].
    apply andb_true_iff in Hok. destruct Hok as [Hok Hnr].
    apply andb_true_iff in Hok. destruct Hok as [Hok Hokg].
    apply andb_true_iff in Hok. destruct Hok as [Hp Ht31].
    rewrite enc_fields_cons in *. destruct ov as [v|].
    + right. cbn [wrap_tag] in *. exists t, (enc (erase g) v), (enc_fields enc (map efield fs) vs).
      split; [reflexivity|]. split; [lia|].
      destruct (enc_head (erase g) v Hw1) as (x & r & E & _). split; [rewrite E; discriminate|].
      apply small_app_l in Hs. apply small_tlv in Hs. exact Hs.
    + cbn [app] in *. destruct (IH t vs Hrest Hw2 Hs) as [E|(t' & x & more & E & Ht & Hx & Hsx)]; [left; exact E|].
      right. exists t', x, more. split; [exact E|]. split; [lia|]. auto.
Qed.

Definition fld_of : gty -> Z -> bool -> bytes -> option (option value * bytes) :=
  fun g' t o b => gelem_gen (is_raw g') (univ_match g') (gbody g') (Some (2, t)) o b.

Lemma gfields_enc_fields fs :
  Forall (fun f : gfield => gok (snd f) = true -> Q (snd f)) fs ->
  forall prev vs, -1 <= prev -> gok_fields gok prev fs = true ->
  wf_fields wf_val (map efield fs) vs = true -> gowf_fields gowf fs vs = true ->
  small (enc_fields enc (map efield fs) vs) ->
  gfields fld_of fs (enc_fields enc (map efield fs) vs) = Some (vs, []).
Proof.
  induction 1 as [|[[t o] g] fs HQ _ IH]; intros prev vs Hprev Hok Hwf Hgo Hs.
  - destruct vs; [reflexivity | discriminate].
  - destruct vs as [|ov vs]; [discriminate|]. rewrite efields_cons in *.
    rewrite wf_fields_cons in Hwf. apply andb_true_iff in Hwf. destruct Hwf as [Hw1 Hw2].
    rewrite gowf_fields_cons in Hgo. apply andb_true_iff in Hgo. destruct Hgo as [Hg1 Hg2].
    rewrite gok_fields_cons in Hok.
    apply andb_true_iff in Hok. destruct Hok as [Hok Hrest].
    apply andb_true_iff in Hok. destruct Hok as [Hok Hnr].
    apply andb_true_iff in Hok. destruct Hok as [Hok Hokg].
    apply andb_true_iff in Hok. destruct Hok as [Hp Ht31].
    assert (Ht : 0 <= t < 31) by lia.
    cbn [snd] in HQ. specialize (HQ Hokg).
    rewrite enc_fields_cons in *. rewrite gfields_cons. destruct ov as [v|].
    + cbn [wrap_tag] in *. unfold fld_of at 1.
      assert (Hsv : small (enc (erase g) v)) by (apply small_app_l in Hs; apply small_tlv in Hs; exact Hs).
      rewrite (gelem_field g t o v _ Ht HQ Hw1 Hg1 Hsv).
      rewrite (IH t vs ltac:(lia) Hrest Hw2 Hg2) by (eapply small_app_r, Hs). reflexivity.
    + subst o. cbn [app] in *. cbn [andb] in Hnr. apply negb_true_iff in Hnr. unfold fld_of at 1. rewrite Hnr.
      assert (Hskip : gelem_gen false (univ_match g) (gbody g) (Some (2, t)) true (enc_fields enc (map efield fs) vs)
                      = Some (None, enc_fields enc (map efield fs) vs)).
      { destruct (enc_fields_next fs t vs Hrest Hw2 Hs) as [E|(t' & x & more & E & Ht' & Hx & Hsx)].
        - rewrite E. reflexivity.
        - rewrite E. unfold gelem_gen.
          destruct (ident_fields 2 t' ltac:(lia) ltac:(lia)) as (I1 & I2 & I3 & I4 & I5).
          rewrite match_cons by apply tlv_app_nonempty.
          rewrite go_hdr_tlv by assumption. rewrite I3, I4, I5.
          rewrite match_cons by (apply app_nonempty_l, Hx).
          replace (t' =? t) with false by lia. rewrite andb_false_r. cbn [andb]. reflexivity. }
      rewrite Hskip. rewrite (IH t vs ltac:(lia) Hrest Hw2 Hg2 Hs). reflexivity.
Qed.

(* ---------- SEQUENCE OF ---------- *)
Lemma glist_flat_map e : Q e -> is_raw e = false -> forall vs (n : nat),
  Forall (fun v => wf_val (erase e) v = true) vs -> Forall (fun v => gowf e v = true) vs ->
  small (flat_map (enc (erase e)) vs) -> zlen (flat_map (enc (erase e)) vs) <= Z.of_nat n ->
  glist (gelem_gen false (univ_match e) (gbody e) None false) n (flat_map (enc (erase e)) vs) = Some vs.
Proof.
  intros HQ HR vs. induction vs as [|v vs IH]; intros n Hwf Hgo Hs Hn.
  - destruct n; reflexivity.
  - inversion Hwf as [|? ? Hv Hvs]; subst. inversion Hgo as [|? ? Hg Hgs]; subst. cbn [flat_map] in *.
    pose proof (HQ v Hv Hg (small_app_l _ _ Hs)) as Hsh. rewrite HR in Hsh.
    destruct Hsh as (id & body & E & Hid & Hm & Hu & Hf).
    assert (Hl : 1 <= zlen (enc (erase e) v)).
    { rewrite E. pose proof (zlen_tlv id body). pose proof (zlen_nonneg body). lia. }
    rewrite zlen_app in Hn. pose proof (zlen_nonneg (flat_map (enc (erase e)) vs)). destruct n as [|n]; [lia|].
    assert (D : glist (gelem_gen false (univ_match e) (gbody e) None false) (S n) (enc (erase e) v ++ flat_map (enc (erase e)) vs) =
                match gelem_gen false (univ_match e) (gbody e) None false (enc (erase e) v ++ flat_map (enc (erase e)) vs) with
                | Some (Some v0, r0) =>
                  match glist (gelem_gen false (univ_match e) (gbody e) None false) n r0 with
                  | Some l => Some (v0 :: l) | None => None end
                | _ => None end).
    { rewrite E. destruct (tlv_cons id body) as (r & E'). rewrite E'. reflexivity. }
    assert (Hsb : zlen body < 2147483648).
    { apply small_app_l in Hs. rewrite E in Hs. apply small_tlv in Hs. exact Hs. }
    rewrite D. rewrite E. rewrite (gelem_gen_plain _ _ false id body _ v Hid Hm Hsb Hu Hf).
    rewrite IH; [reflexivity | exact Hvs | exact Hgs | eapply small_app_r, Hs | lia].
Qed.

Lemma gextras_nil chk gs :
  (forall g, chk g [] = Some (None, [])) -> gextras chk gs [] = true.
Proof. intros H. induction gs as [|g gs IH]; [reflexivity|]. cbn [gextras]. rewrite H. exact IH. Qed.

(* ---------- the headline ---------- *)
Lemma pow31 : 2 ^ 31 = 2147483648. Proof. reflexivity. Qed.

Theorem gdec_enc : forall g, gok g = true -> Q g.
Proof.
  induction g using gty_ind'; intros Hok v Hwf Hgo Hs; cbn [is_raw].
  - (* GInt *) destruct v; cbn [erase wf_val] in Hwf; try discriminate. cbn [gowf] in Hgo.
    exists 2, (enc_int z). cbn [erase enc gbody univ_match]. repeat split; try lia; try reflexivity.
    unfold go_int. rewrite dec_int_enc_int. rewrite Hgo. reflexivity.
  - (* GOctets *) destruct v; cbn [erase wf_val] in Hwf; try discriminate.
    exists 4, b. cbn [erase enc gbody univ_match]. repeat split; try lia; reflexivity.
  - (* GStr *) destruct v; cbn [erase wf_val] in Hwf; try discriminate.
    exists 27, b. cbn [erase enc gbody univ_match]. repeat split; try lia; reflexivity.
  - (* GTime *) destruct v; cbn [erase wf_val] in Hwf; try discriminate.
    exists 24, (enc_time secs). cbn [erase enc gbody univ_match]. repeat split; try lia; try reflexivity.
    replace (24 mod 32 =? 23) with false by reflexivity.
    unfold go_gentime. rewrite dec_time_enc_time by exact Hwf. reflexivity.
  - (* GBits *) destruct v; cbn [erase wf_val] in Hwf; try discriminate. cbn [gowf] in Hgo.
    apply andb_true_iff in Hwf. destruct Hwf as [Hb _].
    exists 3, (enc_bits unused b). cbn [erase enc gbody univ_match]. repeat split; try lia; try reflexivity.
    unfold go_bits, enc_bits, dec_bits. rewrite Hb, Hgo. reflexivity.
  - (* GStruct *) destruct v; cbn [erase wf_val] in Hwf; try discriminate. cbn [gowf gok] in Hgo, Hok.
    exists 48, (enc_fields enc (map efield fs) fs0).
    split; [reflexivity|]. split; [lia|]. split; [lia|]. split; [reflexivity|].
    replace (48 mod 32) with 16 by reflexivity. cbn [gbody].
    change (gfields (fun g' t o b => gelem_gen (is_raw g') (univ_match g') (gbody g') (Some (2, t)) o b))
      with (gfields fld_of).
    cbn [erase enc] in Hs. apply small_tlv in Hs.
    rewrite (gfields_enc_fields fs H (-1) fs0); auto; try lia.
    rewrite gextras_nil; [reflexivity|]. intros g'. reflexivity.
  - (* GSliceOf *) destruct v; cbn [erase wf_val] in Hwf; try discriminate. cbn [gowf gok] in Hgo, Hok.
    apply andb_true_iff in Hok. destruct Hok as [Hok HR]. apply negb_true_iff in HR.
    exists 48, (flat_map (enc (erase g)) vs).
    split; [reflexivity|]. split; [lia|]. split; [lia|]. split; [reflexivity|].
    replace (48 mod 32) with 16 by reflexivity. cbn [gbody].
    cbn [erase enc] in Hs. apply small_tlv in Hs.
    rewrite (glist_flat_map g (IHg Hok) HR vs (length (flat_map (enc (erase g)) vs))); auto.
    + apply Forall_forallb, Hwf.
    + apply Forall_forallb, Hgo.
    + unfold zlen. lia.
  - (* GRawApp *) cbn [gok] in Hok.
    apply andb_true_iff in Hok. destruct Hok as [Hok HR]. apply negb_true_iff in HR.
    apply andb_true_iff in Hok. destruct Hok as [Hok Hokg].
    apply andb_true_iff in Hok. destruct Hok as [Hn0 Hn31].
    cbn [erase wf_val gowf] in Hwf, Hgo. cbn [erase enc] in Hs |- *.
    intros tag. cbn [gbody].
    pose proof (IHg Hokg v Hwf Hgo (small_tlv _ _ Hs)) as Hsh. rewrite HR in Hsh.
    destruct Hsh as (id & body & E & Hid & Hm & Hu & Hf). rewrite E in *.
    assert (Hs1 : zlen (tlv id body) < 2147483648) by (apply small_tlv in Hs; exact Hs).
    assert (Hs2 : zlen body < 2147483648) by (pose proof (zlen_tlv id body); lia).
    rewrite <- (app_nil_r (tlv (ident 1 true n) (tlv id body))).
    rewrite (gelem_gen_wrapped (univ_match g) (gbody g) 1 n false id body [] v ltac:(lia) ltac:(lia) Hid Hm Hs2 Hs1 Hu Hf).
    reflexivity.
Qed.

(* asn1.UnmarshalWithParams(b, &x, "application,explicit,tag:n") reads back the APPLICATION-wrapped encoding of
   x's wire schema, whatever follows it *)
Theorem go_unmarshal_app_encode n g v trailing :
  0 <= n < 31 -> gok g = true -> is_raw g = false ->
  wf_val (erase g) v = true -> gowf g v = true -> zlen (enc (TApp n (erase g)) v) < 2 ^ 31 ->
  go_unmarshal_app n g (enc (TApp n (erase g)) v ++ trailing) = Some v.
Proof.
  intros Hn Hok HR Hwf Hgo Hs. rewrite pow31 in Hs. unfold go_unmarshal_app, gelem. rewrite HR.
  cbn [enc] in *. fold (small (tlv (ident 1 true n) (enc (erase g) v))) in Hs.
  pose proof (gdec_enc g Hok v Hwf Hgo (small_tlv _ _ Hs)) as Hsh. rewrite HR in Hsh.
  destruct Hsh as (id & body & E & Hid & Hm & Hu & Hf). rewrite E in *.
  assert (Hs1 : zlen (tlv id body) < 2147483648) by (apply small_tlv in Hs; exact Hs).
  assert (Hs2 : zlen body < 2147483648) by (pose proof (zlen_tlv id body); lia).
  rewrite (gelem_gen_wrapped (univ_match g) (gbody g) 1 n false id body trailing v ltac:(lia) Hn Hid Hm Hs2 Hs1 Hu Hf).
  reflexivity.
Qed.

(* a reply under another APPLICATION tag is not read *)
Theorem go_unmarshal_app_other_tag n m g x trailing :
  0 <= n < 31 -> 0 <= m < 31 -> n <> m -> x <> [] -> zlen x < 2 ^ 31 -> is_raw g = false ->
  go_unmarshal_app n g (tlv (ident 1 true m) x ++ trailing) = None.
Proof.
  intros Hn Hm Hne Hx Hs HR. rewrite pow31 in Hs. unfold go_unmarshal_app, gelem, gelem_gen. rewrite HR.
  destruct (ident_fields 1 m ltac:(lia) Hm) as (I1 & I2 & I3 & I4 & I5).
  rewrite match_cons by apply tlv_app_nonempty.
  rewrite go_hdr_tlv by assumption. rewrite I3, I4, I5.
  rewrite match_cons by (apply app_nonempty_l, Hx).
  replace (m =? n) with false by lia. rewrite andb_false_r. cbn [andb]. reflexivity.
Qed.

(* ---------- the Go declarations of model/KDCRepBytes.v are the RFC 4120 schemas of model/RFCSchemas.v ---------- *)
Example erase_KDCRep : erase g_KDCRep = rfc_KDCRep.
Proof. reflexivity. Qed.
Example erase_EncKDCRepPart : erase g_EncKDCRepPart = rfc_EncKDCRepPart.
Proof. reflexivity. Qed.
Example erase_Ticket : TApp 1 (erase g_Ticket) = rfc_Ticket.
Proof. reflexivity. Qed.
Example erase_EncTicketPart : TApp 3 (erase g_EncTicketPart) = rfc_EncTicketPart.
Proof. reflexivity. Qed.
Example erase_ETypeInfo2 : erase g_ETypeInfo2 = TSeqOf rfc_ETypeInfo2Entry.
Proof. reflexivity. Qed.
Example erase_ETypeInfo : erase g_ETypeInfo = TSeqOf rfc_ETypeInfoEntry.
Proof. reflexivity. Qed.
Example gok_KDCRep : gok g_KDCRep = true.
Proof. reflexivity. Qed.
Example gok_EncKDCRepPart : gok g_EncKDCRepPart = true.
Proof. reflexivity. Qed.
