(* Gokrb5.proofs.FlagsProofs — types.KerberosFlags: flag i is bit (7 - i mod 8) of octet i/8 (RFC 4120 5.2.8:
   bit 0 is the most significant bit of the first octet); SetFlag / UnsetFlag change exactly that bit;
   IsFlagSet reads it; the pinned IsFlagSet panics on a short flag word, the repaired one never does. *)
From Gokrb5.lib Require Import Bytes JV.
From Gokrb5.model Require Import Flags.

Local Open Scope Z_scope.

(* the RFC numbering, written independently of the code *)
Definition rfc_bit (bs : bytes) (i : Z) : option bool :=
  match nth_error bs (Z.to_nat (i / 8)) with
  | Some x => Some (Z.testbit x (7 - i mod 8))
  | None => None
  end.

(* ------------------------------------------------------------------ bytes *)
Lemma upd_nat_spec : forall l n g l', upd_nat l n g = Some l' ->
  length l' = length l /\
  forall m, nth_error l' m = if Nat.eqb m n then option_map g (nth_error l n) else nth_error l m.
Proof.
  induction l as [| x r IH]; intros n g l' H; [discriminate|].
  destruct n as [| n]; cbn [upd_nat] in H.
  - inversion H; subst. split; [reflexivity|]. intros [| m]; reflexivity.
  - destruct (upd_nat r n g) as [r'|] eqn:E; [|discriminate]. inversion H; subst.
    destruct (IH _ _ _ E) as [HL HN]. split; [simpl; congruence|].
    intros [| m]; [reflexivity|]. simpl. apply HN.
Qed.

Lemma upd_nat_some : forall l n g, (n < length l)%nat -> exists l', upd_nat l n g = Some l'.
Proof.
  induction l as [| x r IH]; intros n g H; [simpl in H; lia|].
  destruct n; [eexists; reflexivity|]. simpl in H.
  destruct (IH n g ltac:(lia)) as [r' E]. exists (x :: r'). cbn [upd_nat]. rewrite E. reflexivity.
Qed.

Lemma upd_nat_none : forall l n g, (length l <= n)%nat -> upd_nat l n g = None.
Proof.
  induction l as [| x r IH]; intros n g H; [reflexivity|].
  destruct n; [simpl in H; lia|]. cbn [upd_nat]. rewrite IH by (simpl in H; lia). reflexivity.
Qed.

Lemma upd_nat_wf : forall l n g l', wf_bytes l -> (forall x, 0 <= x < 256 -> 0 <= g x < 256) ->
  upd_nat l n g = Some l' -> wf_bytes l'.
Proof.
  induction l as [| x r IH]; intros n g l' W G H; [discriminate|]. inversion W; subst.
  destruct n; cbn [upd_nat] in H.
  - inversion H; subst. constructor; [apply G; assumption | assumption].
  - destruct (upd_nat r n g) eqn:E; [|discriminate]. inversion H; subst.
    constructor; [assumption | eapply IH; eassumption].
Qed.

(* ------------------------------------------------------------------ padding to 32 bits *)
Lemma pad_loop_bytes : forall n f, bs_bytes (pad_loop n f) = bs_bytes f ++ repeatz 0 n.
Proof.
  induction n; intros f; cbn [pad_loop repeatz]; [rewrite app_nil_r; reflexivity|].
  rewrite IHn. cbn [bs_bytes]. rewrite <- app_assoc. reflexivity.
Qed.

Lemma pad4_bytes f : bs_bytes (pad4 f) = bs_bytes f ++ repeatz 0 (4 - length (bs_bytes f)).
Proof. apply pad_loop_bytes. Qed.

Lemma repeatz_length x n : length (repeatz x n) = n.
Proof. induction n; simpl; congruence. Qed.

Lemma pad4_length f : length (bs_bytes (pad4 f)) = Nat.max 4 (length (bs_bytes f)).
Proof. rewrite pad4_bytes, app_length, repeatz_length. lia. Qed.

Lemma pad4_id f : (4 <= length (bs_bytes f))%nat -> pad4 f = f.
Proof. intros H. unfold pad4. replace (4 - length (bs_bytes f))%nat with 0%nat by lia. reflexivity. Qed.

Lemma pad_loop_bitlen : forall n f, n <> O -> bs_bitlen (pad_loop n f) = 8 * Z.of_nat (length (bs_bytes f) + n).
Proof.
  induction n; intros f H; [congruence|]. cbn [pad_loop].
  destruct n.
  - cbn [pad_loop bs_bitlen]. unfold zlen. rewrite app_length. simpl length. lia.
  - rewrite IHn by congruence. cbn [bs_bytes]. rewrite app_length. simpl length. lia.
Qed.

(* BitLength after padding: 32 when bytes were appended, unchanged otherwise *)
Lemma pad4_bitlen f :
  bs_bitlen (pad4 f) = if (length (bs_bytes f) <? 4)%nat then 32 else bs_bitlen f.
Proof.
  destruct (Nat.ltb_spec (length (bs_bytes f)) 4).
  - unfold pad4. rewrite pad_loop_bitlen by lia. lia.
  - rewrite pad4_id by lia. reflexivity.
Qed.

Lemma repeatz_wf n : wf_bytes (repeatz 0 n).
Proof. induction n; constructor; [lia | assumption]. Qed.

Lemma pad4_wf f : wf_bytes (bs_bytes f) -> wf_bytes (bs_bytes (pad4 f)).
Proof. intros. rewrite pad4_bytes. apply wf_bytes_app. split; [assumption | apply repeatz_wf]. Qed.

(* ------------------------------------------------------------------ bits *)
Lemma byte_ix_nonneg i : 0 <= i -> byte_ix i = i / 8.
Proof. intros. unfold byte_ix. apply Z.quot_div_nonneg; lia. Qed.

Lemma bit_mask_nonneg i : 0 <= i -> bit_mask i = 2 ^ (7 - i mod 8).
Proof.
  intros H. unfold bit_mask. rewrite byte_ix_nonneg by assumption.
  replace (i - 8 * (i / 8)) with (i mod 8) by (rewrite Z.mod_eq; lia).
  pose proof (Z.mod_pos_bound i 8 ltac:(lia)). destruct (Z.ltb_spec (7 - i mod 8) 8); [reflexivity | lia].
Qed.

Lemma land_pow2 x p : 0 <= p -> Z.land x (2 ^ p) = if Z.testbit x p then 2 ^ p else 0.
Proof.
  intros Hp. apply Z.bits_inj'. intros n Hn. rewrite Z.land_spec, Z.pow2_bits_eqb by assumption.
  destruct (Z.eqb_spec p n) as [E | E].
  - subst. destruct (Z.testbit x n); [rewrite Z.pow2_bits_true by assumption; reflexivity | rewrite Z.bits_0; reflexivity].
  - rewrite andb_false_r. destruct (Z.testbit x p); [rewrite Z.pow2_bits_false by lia; reflexivity | rewrite Z.bits_0; reflexivity].
Qed.

Lemma test_mask x p : 0 <= p -> negb (Z.land x (2 ^ p) =? 0) = Z.testbit x p.
Proof.
  intros Hp. rewrite land_pow2 by assumption. destruct (Z.testbit x p); [|reflexivity].
  pose proof (Z.pow_pos_nonneg 2 p ltac:(lia) Hp). destruct (Z.eqb_spec (2 ^ p) 0); [lia | reflexivity].
Qed.

Lemma lor_pow2_bit x p q : 0 <= p -> 0 <= q -> Z.testbit (Z.lor x (2 ^ p)) q = Z.testbit x q || (p =? q).
Proof. intros. rewrite Z.lor_spec, Z.pow2_bits_eqb by assumption. reflexivity. Qed.

Lemma ldiff_pow2_bit x p q : 0 <= p -> 0 <= q -> Z.testbit (Z.ldiff x (2 ^ p)) q = Z.testbit x q && negb (p =? q).
Proof. intros. rewrite Z.ldiff_spec, Z.pow2_bits_eqb by assumption. reflexivity. Qed.

Lemma byte_bits_bound x p : 0 <= p < 8 -> 0 <= x < 256 -> 0 <= Z.lor x (2 ^ p) < 256 /\ 0 <= Z.ldiff x (2 ^ p) < 256.
Proof.
  intros Hp Hx.
  assert (Hhi : forall y, 0 <= y -> (forall n, 8 <= n -> Z.testbit y n = false) -> y < 256).
  { intros y Hy Hb. destruct (Z_lt_le_dec y 256); [assumption|]. exfalso.
    assert (Hl : 8 <= Z.log2 y) by (change 8 with (Z.log2 256); apply Z.log2_le_mono; lia).
    pose proof (Z.bit_log2 y ltac:(lia)) as Ht. rewrite Hb in Ht by assumption. discriminate. }
  assert (Hxb : forall n, 8 <= n -> Z.testbit x n = false).
  { intros n Hn. destruct (Z.eq_dec x 0); [subst; apply Z.bits_0|].
    apply Z.bits_above_log2; [lia|]. assert (Z.log2 x < 8) by (apply Z.log2_lt_pow2; simpl; lia). lia. }
  split; split.
  - apply Z.lor_nonneg. split; [lia | apply Z.pow_nonneg; lia].
  - apply Hhi; [apply Z.lor_nonneg; split; [lia | apply Z.pow_nonneg; lia]|].
    intros n Hn. rewrite lor_pow2_bit by lia. rewrite Hxb by assumption. destruct (Z.eqb_spec p n); [lia | reflexivity].
  - apply Z.ldiff_nonneg. left. lia.
  - apply Hhi; [apply Z.ldiff_nonneg; left; lia|].
    intros n Hn. rewrite ldiff_pow2_bit by lia. rewrite Hxb by assumption. reflexivity.
Qed.

(* ------------------------------------------------------------------ IsFlagSet *)
Definition bit_or_false (o : option bool) : bool := match o with Some b => b | None => false end.

(* the repaired IsFlagSet reads the RFC bit, and a bit that is not there is not set *)
Theorem is_flag_set_spec f i : 0 <= i -> is_flag_set f i = Ok (bit_or_false (rfc_bit (bs_bytes f) i)).
Proof.
  intros Hi. unfold is_flag_set, is_flag_set_orig, rfc_bit, gindex.
  rewrite byte_ix_nonneg, bit_mask_nonneg by assumption.
  destruct (Z.ltb_spec i 0); [lia|]. cbn [orb].
  assert (H8 : 0 <= i / 8) by (apply Z.div_pos; lia).
  pose proof (Z.mod_pos_bound i 8 ltac:(lia)).
  destruct (Z.leb_spec (zlen (bs_bytes f)) (i / 8)) as [Hs | Hs].
  - rewrite (proj2 (nth_error_None _ _)) by (unfold zlen in Hs; lia). reflexivity.
  - destruct (Z.leb_spec 0 (i / 8)); [|lia].
    destruct (nth_error (bs_bytes f) (Z.to_nat (i / 8))) eqn:E.
    + cbn [bind bit_or_false]. rewrite test_mask by lia. reflexivity.
    + apply nth_error_None in E. unfold zlen in Hs. lia.
Qed.

Theorem is_flag_set_total f i : exists b, is_flag_set f i = Ok b.
Proof.
  destruct (Z_lt_le_dec i 0).
  - exists false. unfold is_flag_set. destruct (Z.ltb_spec i 0); [reflexivity | lia].
  - eexists. apply is_flag_set_spec. assumption.
Qed.

(* the pinned IsFlagSet: index out of range on a flag word shorter than the bit tested (C04) *)
Theorem is_flag_set_orig_panics_short f i :
  0 <= i -> 8 * zlen (bs_bytes f) <= i -> is_flag_set_orig f i = Panic site_flag_index.
Proof.
  intros Hi Hs. unfold is_flag_set_orig, gindex. rewrite byte_ix_nonneg by assumption.
  assert (H8 : zlen (bs_bytes f) <= i / 8) by (apply Z.div_le_lower_bound; lia).
  pose proof (zlen_nonneg (bs_bytes f)).
  destruct (Z.leb_spec 0 (i / 8)); [|lia].
  rewrite (proj2 (nth_error_None _ _)) by (unfold zlen in H8; lia). reflexivity.
Qed.

Example is_flag_set_orig_panics_ex :
  is_flag_set_orig (mkBits [64; 0] 16) 31 = Panic site_flag_index /\ is_flag_set (mkBits [64; 0] 16) 31 = Ok false
  /\ is_flag_set (mkBits [64; 0] 16) 1 = Ok true.
Proof. repeat split. Qed.

(* wherever the pinned code returns, the repaired code returns the same *)
Theorem is_flag_set_repair_conservative f i b : is_flag_set_orig f i = Ok b -> is_flag_set f i = Ok b.
Proof.
  intros H. unfold is_flag_set.
  destruct (Z.ltb_spec i 0) as [Hn | Hn]; cbn [orb].
  - (* negative i: either the index is negative (panic) or the mask is 0 *)
    unfold is_flag_set_orig, gindex in H.
    destruct (Z.leb_spec 0 (byte_ix i)) as [Hb | Hb]; [|discriminate].
    destruct (nth_error (bs_bytes f) (Z.to_nat (byte_ix i))); [|discriminate].
    cbn [bind] in H. unfold bit_mask in H.
    assert (Hq : byte_ix i <= 0).
    { unfold byte_ix. replace i with (- (- i)) by lia. rewrite Z.quot_opp_l by lia.
      pose proof (Z.quot_pos (- i) 8 ltac:(lia) ltac:(lia)). lia. }
    assert (E : byte_ix i = 0) by lia. rewrite E in H.
    destruct (Z.ltb_spec (7 - (i - 8 * 0)) 8); [lia|].
    rewrite Z.land_0_r in H. inversion H. reflexivity.
  - destruct (Z.leb_spec (zlen (bs_bytes f)) (byte_ix i)) as [Hs | Hs]; [|exact H].
    unfold is_flag_set_orig, gindex in H. rewrite byte_ix_nonneg in * by assumption.
    assert (H8 : 0 <= i / 8) by (apply Z.div_pos; lia).
    destruct (Z.leb_spec 0 (i / 8)); [|lia].
    rewrite (proj2 (nth_error_None _ _)) in H by (unfold zlen in Hs; lia). discriminate.
Qed.

(* ------------------------------------------------------------------ widening a short flag word *)
Lemma nth_error_repeatz n k x : nth_error (repeatz 0 n) k = Some x -> x = 0.
Proof.
  revert k. induction n; intros k H; [destruct k; discriminate|].
  destruct k; [inversion H; reflexivity | simpl in H; eauto].
Qed.

Lemma rfc_bit_app_zeros bs n j : 0 <= j ->
  bit_or_false (rfc_bit (bs ++ repeatz 0 n) j) = bit_or_false (rfc_bit bs j).
Proof.
  intros Hj. unfold rfc_bit.
  destruct (Nat.lt_ge_cases (Z.to_nat (j / 8)) (length bs)) as [L | L].
  - rewrite nth_error_app1 by assumption. reflexivity.
  - rewrite nth_error_app2 by assumption. rewrite (proj2 (nth_error_None bs _)) by assumption.
    destruct (nth_error (repeatz 0 n) (Z.to_nat (j / 8) - length bs)) eqn:E; [|reflexivity].
    apply nth_error_repeatz in E. subst. cbn [bit_or_false]. apply Z.bits_0.
Qed.

(* appending the padding never changes what IsFlagSet reports: flag i keeps its number *)
Theorem pad4_preserves_flags f j : 0 <= j -> is_flag_set (pad4 f) j = is_flag_set f j.
Proof. intros. rewrite !is_flag_set_spec by assumption. rewrite pad4_bytes, rfc_bit_app_zeros by assumption. reflexivity. Qed.

Theorem kdc_options_widen_preserves_flags f j :
  0 <= j -> is_flag_set (kdc_options_widen f) j = is_flag_set f j /\
            (4 <= length (bs_bytes (kdc_options_widen f)))%nat.
Proof.
  intros Hj. unfold kdc_options_widen. destruct (Nat.ltb_spec (length (bs_bytes f)) 4).
  - split.
    + rewrite !is_flag_set_spec by assumption. cbn [bs_bytes]. rewrite rfc_bit_app_zeros by assumption. reflexivity.
    + cbn [bs_bytes]. rewrite app_length, repeatz_length. lia.
  - split; [reflexivity | lia].
Qed.

(* the pinned tree prepended the padding: a one-octet word with forwardable (bit 1) set reads as bit 25 *)
Example pad4_front_moves_flags :
  let f := mkBits [64] 8 in
  is_flag_set f 1 = Ok true /\ is_flag_set (pad4_front f) 1 = Ok false /\ is_flag_set (pad4_front f) 25 = Ok true /\ is_flag_set (kdc_options_widen f) 1 = Ok true /\ is_flag_set (kdc_options_widen f) 25 = Ok false.
Proof. repeat split. Qed.

(* ------------------------------------------------------------------ SetFlag / UnsetFlag *)
Lemma rfc_bit_update l l' i g :
  0 <= i -> upd_nat l (Z.to_nat (i / 8)) g = Some l' ->
  forall j, 0 <= j ->
    rfc_bit l' j = if (j / 8 =? i / 8) then option_map (fun x => Z.testbit (g x) (7 - j mod 8)) (nth_error l (Z.to_nat (i / 8)))
                   else rfc_bit l j.
Proof.
  intros Hi H j Hj. destruct (upd_nat_spec _ _ _ _ H) as [_ HN]. unfold rfc_bit. rewrite HN.
  assert (0 <= i / 8) by (apply Z.div_pos; lia). assert (0 <= j / 8) by (apply Z.div_pos; lia).
  destruct (Z.eqb_spec (j / 8) (i / 8)) as [E | E].
  - rewrite E, Nat.eqb_refl. destruct (nth_error l (Z.to_nat (i / 8))); reflexivity.
  - destruct (Nat.eqb_spec (Z.to_nat (j / 8)) (Z.to_nat (i / 8))); [lia | reflexivity].
Qed.

Lemma same_byte_other_bit i j : j / 8 = i / 8 -> j <> i -> 7 - i mod 8 <> 7 - j mod 8.
Proof. intros E N. pose proof (Z.div_mod i 8 ltac:(lia)). pose proof (Z.div_mod j 8 ltac:(lia)). lia. Qed.

Section SetUnset.
  Variables (f : bitstring) (i : Z).
  Hypothesis Hwf : wf_bytes (bs_bytes f).
  Hypothesis Hi : 0 <= i < 8 * zlen (bs_bytes (pad4 f)).     (* i < 32, or i < 8*len for longer words *)

  Let P := pad4 f.
  Let n := Z.to_nat (i / 8).

  Lemma in_range : (n < length (bs_bytes P))%nat.
  Proof.
    subst n P. unfold zlen in Hi. assert (i / 8 < Z.of_nat (length (bs_bytes (pad4 f)))) by (apply Z.div_lt_upper_bound; lia).
    assert (0 <= i / 8) by (apply Z.div_pos; lia). lia.
  Qed.

  Lemma set_flag_ok : exists bs, upd_nat (bs_bytes P) n (fun x => Z.lor x (bit_mask i)) = Some bs /\
                                 set_flag f i = Ok (mkBits bs (bs_bitlen P)).
  Proof.
    destruct (upd_nat_some (bs_bytes P) n (fun x => Z.lor x (bit_mask i)) in_range) as [bs E].
    exists bs. split; [exact E|]. unfold set_flag, update_at. fold P. rewrite byte_ix_nonneg by lia.
    assert (0 <= i / 8) by (apply Z.div_pos; lia). destruct (Z.ltb_spec (i / 8) 0); [lia|].
    fold n. rewrite E. reflexivity.
  Qed.

  Lemma unset_flag_ok : exists bs, upd_nat (bs_bytes P) n (fun x => Z.ldiff x (bit_mask i)) = Some bs /\
                                   unset_flag f i = Ok (mkBits bs (bs_bitlen P)).
  Proof.
    destruct (upd_nat_some (bs_bytes P) n (fun x => Z.ldiff x (bit_mask i)) in_range) as [bs E].
    exists bs. split; [exact E|]. unfold unset_flag, update_at. fold P. rewrite byte_ix_nonneg by lia.
    assert (0 <= i / 8) by (apply Z.div_pos; lia). destruct (Z.ltb_spec (i / 8) 0); [lia|].
    fold n. rewrite E. reflexivity.
  Qed.

  (* SetFlag: bit i (= bit 7 - i mod 8 of octet i/8) becomes 1, every other bit of the padded word is unchanged,
     the length is max(4, len), bytes stay bytes, and IsFlagSet then reports i as set *)
  Theorem flag_bit_numbering :
    exists f', set_flag f i = Ok f' /\
      length (bs_bytes f') = Nat.max 4 (length (bs_bytes f)) /\
      wf_bytes (bs_bytes f') /\
      bs_bitlen f' = (if (length (bs_bytes f) <? 4)%nat then 32 else bs_bitlen f) /\
      rfc_bit (bs_bytes f') i = Some true /\
      (forall j, 0 <= j -> j <> i -> rfc_bit (bs_bytes f') j = rfc_bit (bs_bytes (pad4 f)) j) /\
      is_flag_set f' i = Ok true /\
      (forall j, 0 <= j -> j <> i -> is_flag_set f' j = is_flag_set (pad4 f) j).
  Proof.
    destruct set_flag_ok as (bs & E & HS). exists (mkBits bs (bs_bitlen P)). cbn [bs_bytes bs_bitlen].
    pose proof (Z.mod_pos_bound i 8 ltac:(lia)) as Hm.
    destruct (upd_nat_spec _ _ _ _ E) as [HL _].
    destruct (nth_error (bs_bytes P) n) as [x|] eqn:EX; [|apply nth_error_None in EX; pose proof in_range; lia].
    assert (Hbit : rfc_bit bs i = Some true).
    { rewrite (rfc_bit_update _ _ i _ ltac:(lia) E i ltac:(lia)). rewrite Z.eqb_refl. fold n. rewrite EX. cbn [option_map].
      rewrite bit_mask_nonneg, lor_pow2_bit by lia. rewrite Z.eqb_refl, orb_true_r. reflexivity. }
    assert (Hoth : forall j, 0 <= j -> j <> i -> rfc_bit bs j = rfc_bit (bs_bytes P) j).
    { intros j Hj Hne. rewrite (rfc_bit_update _ _ i _ ltac:(lia) E j Hj).
      destruct (Z.eqb_spec (j / 8) (i / 8)) as [E8 | E8]; [|reflexivity].
      fold n. rewrite EX. cbn [option_map]. unfold rfc_bit. rewrite E8. fold n. rewrite EX.
      pose proof (Z.mod_pos_bound j 8 ltac:(lia)).
      rewrite bit_mask_nonneg, lor_pow2_bit by lia.
      destruct (Z.eqb_spec (7 - i mod 8) (7 - j mod 8)) as [E7 | E7]; [exfalso; revert E7; apply same_byte_other_bit; assumption|].
      rewrite orb_false_r. reflexivity. }
    split; [exact HS|]. split; [rewrite HL; apply pad4_length|].
    split.
    { eapply upd_nat_wf; [apply pad4_wf; exact Hwf | | exact E].
      intros y Hy. rewrite bit_mask_nonneg by lia. apply byte_bits_bound; lia. }
    split; [apply pad4_bitlen|].
    split; [exact Hbit|]. split; [exact Hoth|].
    split.
    - rewrite is_flag_set_spec by lia. cbn [bs_bytes]. rewrite Hbit. reflexivity.
    - intros j Hj Hne. rewrite !is_flag_set_spec by lia. cbn [bs_bytes]. rewrite Hoth by assumption. reflexivity.
  Qed.

  Theorem unset_flag_bit :
    exists f', unset_flag f i = Ok f' /\
      length (bs_bytes f') = Nat.max 4 (length (bs_bytes f)) /\
      wf_bytes (bs_bytes f') /\
      rfc_bit (bs_bytes f') i = Some false /\
      (forall j, 0 <= j -> j <> i -> rfc_bit (bs_bytes f') j = rfc_bit (bs_bytes (pad4 f)) j) /\
      is_flag_set f' i = Ok false.
  Proof.
    destruct unset_flag_ok as (bs & E & HS). exists (mkBits bs (bs_bitlen P)). cbn [bs_bytes bs_bitlen].
    pose proof (Z.mod_pos_bound i 8 ltac:(lia)) as Hm.
    destruct (upd_nat_spec _ _ _ _ E) as [HL _].
    destruct (nth_error (bs_bytes P) n) as [x|] eqn:EX; [|apply nth_error_None in EX; pose proof in_range; lia].
    assert (Hbit : rfc_bit bs i = Some false).
    { rewrite (rfc_bit_update _ _ i _ ltac:(lia) E i ltac:(lia)). rewrite Z.eqb_refl. fold n. rewrite EX. cbn [option_map].
      rewrite bit_mask_nonneg, ldiff_pow2_bit by lia. rewrite Z.eqb_refl, andb_false_r. reflexivity. }
    split; [exact HS|]. split; [rewrite HL; apply pad4_length|].
    split.
    { eapply upd_nat_wf; [apply pad4_wf; exact Hwf | | exact E].
      intros y Hy. rewrite bit_mask_nonneg by lia. apply byte_bits_bound; lia. }
    split; [exact Hbit|].
    assert (Hoth : forall j, 0 <= j -> j <> i -> rfc_bit bs j = rfc_bit (bs_bytes P) j).
    { intros j Hj Hne. rewrite (rfc_bit_update _ _ i _ ltac:(lia) E j Hj).
      destruct (Z.eqb_spec (j / 8) (i / 8)) as [E8 | E8]; [|reflexivity].
      fold n. rewrite EX. cbn [option_map]. unfold rfc_bit. rewrite E8. fold n. rewrite EX.
      pose proof (Z.mod_pos_bound j 8 ltac:(lia)).
      rewrite bit_mask_nonneg, ldiff_pow2_bit by lia.
      destruct (Z.eqb_spec (7 - i mod 8) (7 - j mod 8)) as [E7 | E7]; [exfalso; revert E7; apply same_byte_other_bit; assumption|].
      rewrite andb_true_r. reflexivity. }
    split.
    - exact Hoth.
    - rewrite is_flag_set_spec by lia. cbn [bs_bytes]. rewrite Hbit. reflexivity.
  Qed.
End SetUnset.

(* SetFlag / UnsetFlag beyond the (padded) word: index out of range *)
Theorem set_flag_out_of_range_panics f i :
  8 * zlen (bs_bytes (pad4 f)) <= i -> set_flag f i = Panic site_flag_index /\ unset_flag f i = Panic site_flag_index.
Proof.
  intros H. pose proof (zlen_nonneg (bs_bytes (pad4 f))).
  assert (zlen (bs_bytes (pad4 f)) <= i / 8) by (apply Z.div_le_lower_bound; lia).
  unfold set_flag, unset_flag, update_at. rewrite byte_ix_nonneg by lia.
  destruct (Z.ltb_spec (i / 8) 0); [lia|].
  rewrite !upd_nat_none by (unfold zlen in *; lia). split; reflexivity.
Qed.

(* the hypotheses are satisfiable: flag 1 (forwardable) on an empty word, flag 31 on a 4-byte word *)
Example flag_ex1 : set_flag (mkBits [] 0) 1 = Ok (mkBits [64; 0; 0; 0] 32).
Proof. reflexivity. Qed.
Example flag_ex2 : set_flag (mkBits [0; 0; 0; 0] 32) 31 = Ok (mkBits [0; 0; 0; 1] 32).
Proof. reflexivity. Qed.
Example flag_ex3 : unset_flag (mkBits [255; 255; 255; 255] 32) 8 = Ok (mkBits [255; 127; 255; 255] 32).
Proof. reflexivity. Qed.
Example flag_ex4 : set_flag (mkBits [0; 0; 0; 0] 32) 32 = Panic site_flag_index.
Proof. reflexivity. Qed.
