(* CCache.cc_unmarshal is total on every byte string: it never panics, and the fuel it gives its loops
   (one unit per remaining byte) is never exhausted, i.e. the Go loops of the repaired reader terminate
   with a value or an error.  (C04 share of property C15.) *)
From Gokrb5.lib Require Import Bytes JV.
From Gokrb5.model Require Import CCache.

Definition cc_fine {A} (r : res A) : Prop :=
  match r with Panic _ => False | Err c => c <> 99 | Ok _ => True end.

(* rd consumes at least k bytes whenever it succeeds *)
Definition eats {A} (k : nat) (rd : bytes -> res (A * bytes)) : Prop :=
  forall r x r', rd r = Ok (x, r') -> (length r' + k <= length r)%nat.

Lemma bind_fine {A B} (r : res A) (f : A -> res B) :
  cc_fine r -> (forall a, r = Ok a -> cc_fine (f a)) -> cc_fine (bind r f).
Proof. destruct r; cbn; auto. Qed.

Lemma bind_ok {A B} (r : res A) (f : A -> res B) b :
  bind r f = Ok b -> exists a, r = Ok a /\ f a = Ok b.
Proof. destruct r; cbn; try discriminate. eauto. Qed.

Lemma rd_bytes_fine s r : cc_fine (rd_bytes s r).
Proof. unfold rd_bytes. destruct ((s <? 0) || (zlen r <? s)); cbn; lia. Qed.

Lemma rd_bytes_eats s r x r' : rd_bytes s r = Ok (x, r') -> 0 <= s /\ Z.of_nat (length r') + s = Z.of_nat (length r).
Proof.
  unfold rd_bytes. destruct (Z.ltb_spec s 0); [discriminate|].
  destruct (Z.ltb_spec (zlen r) s); [discriminate|]. cbn [orb].
  intros E. injection E as _ <-. rewrite skipn_length. unfold zlen in *. lia.
Qed.

Lemma rd_int_fine w le r : cc_fine (rd_int w le r).
Proof. unfold rd_int. apply bind_fine; [apply rd_bytes_fine|]. intros [x r'] _. exact I. Qed.

Lemma rd_int_eats w le r x r' : rd_int w le r = Ok (x, r') -> Z.of_nat (length r') + w = Z.of_nat (length r).
Proof.
  unfold rd_int. intros E. apply bind_ok in E. destruct E as ([y r1] & E1 & E2).
  injection E2 as _ <-. apply rd_bytes_eats in E1. lia.
Qed.

Lemma rd_data_fine le r : cc_fine (rd_data le r).
Proof.
  unfold rd_data. apply bind_fine; [apply rd_int_fine|]. intros [l r1] _. apply rd_bytes_fine.
Qed.

Lemma rd_data_eats le : eats 4 (rd_data le).
Proof.
  intros r x r' E. unfold rd_data in E. apply bind_ok in E. destruct E as ([l r1] & E1 & E2).
  apply rd_int_eats in E1. apply rd_bytes_eats in E2. lia.
Qed.

Lemma rd_tagged_fine le r : cc_fine (rd_tagged le r).
Proof.
  unfold rd_tagged. apply bind_fine; [apply rd_int_fine|]. intros [t r1] _.
  apply bind_fine; [apply rd_data_fine|]. intros [d r2] _. exact I.
Qed.

Lemma rd_tagged_eats le : eats 6 (rd_tagged le).
Proof.
  intros r x r' E. unfold rd_tagged in E. apply bind_ok in E. destruct E as ([t r1] & E1 & E).
  apply bind_ok in E. destruct E as ([d r2] & E2 & E3). injection E3 as _ <-.
  apply rd_int_eats in E1. apply rd_data_eats in E2. lia.
Qed.

Lemma rd_many_eats {A} (rd : bytes -> res (A * bytes)) : eats 0 rd ->
  forall fuel n, eats 0 (rd_many rd fuel n).
Proof.
  intros Hrd. induction fuel as [|fuel IH]; intros n r xs r' E; cbn [rd_many] in E.
  - destruct (n <=? 0); [|discriminate]. injection E as _ <-. lia.
  - destruct (n <=? 0); [injection E as _ <-; lia|].
    apply bind_ok in E. destruct E as ([x r1] & E1 & E).
    apply bind_ok in E. destruct E as ([ys r2] & E2 & E3). injection E3 as _ <-.
    apply Hrd in E1. apply IH in E2. lia.
Qed.

Lemma eats_weaken {A} k (rd : bytes -> res (A * bytes)) : eats k rd -> eats 0 rd.
Proof. intros H r x r' E. apply H in E. lia. Qed.

Lemma rd_many_fine {A} (rd : bytes -> res (A * bytes)) :
  (forall r, cc_fine (rd r)) -> eats 1 rd ->
  forall fuel n r, (length r < fuel)%nat -> cc_fine (rd_many rd fuel n r).
Proof.
  intros Hf He. induction fuel as [|fuel IH]; intros n r Hlen; [lia|].
  cbn [rd_many]. destruct (n <=? 0); [exact I|].
  apply bind_fine; [apply Hf|]. intros [x r1] E1.
  apply He in E1.
  apply bind_fine; [apply IH; lia|]. intros [xs r2] _. exact I.
Qed.

Lemma rd_principal_fine v le r : cc_fine (rd_principal v le r).
Proof.
  unfold rd_principal.
  apply bind_fine; [destruct (v =? 1); [exact I|apply rd_int_fine]|]. intros [nt r1] _.
  apply bind_fine; [apply rd_int_fine|]. intros [nc0 r2] _. cbv zeta.
  apply bind_fine; [apply rd_data_fine|]. intros [realm r3] _.
  apply bind_fine; [|intros [comps r4] _; exact I].
  apply rd_many_fine; [apply rd_data_fine| |lia].
  intros r0 x r' E. apply rd_data_eats in E. lia.
Qed.

Lemma rd_principal_eats v le : eats 8 (rd_principal v le).
Proof.
  intros r p r' E. unfold rd_principal in E.
  apply bind_ok in E. destruct E as ([nt r1] & E1 & E).
  apply bind_ok in E. destruct E as ([nc0 r2] & E2 & E). cbv zeta in E.
  apply bind_ok in E. destruct E as ([realm r3] & E3 & E).
  apply bind_ok in E. destruct E as ([comps r4] & E4 & E5). injection E5 as _ <-.
  apply rd_int_eats in E2. apply rd_data_eats in E3.
  apply (rd_many_eats (rd_data le) (eats_weaken 4 _ (rd_data_eats le))) in E4.
  assert (length r1 <= length r)%nat.
  { destruct (v =? 1); [injection E1 as _ <-; lia|apply rd_int_eats in E1; lia]. }
  lia.
Qed.

Lemma rd_counted_fine le r : cc_fine (rd_counted le r).
Proof.
  unfold rd_counted. apply bind_fine; [apply rd_int_fine|]. intros [l r1] _.
  destruct ((l <? 0) || (zlen r1 <? l)); [cbn; lia|].
  apply rd_many_fine; [apply rd_tagged_fine| |lia].
  intros r0 x r' E. apply rd_tagged_eats in E. lia.
Qed.

Lemma rd_counted_eats le : eats 4 (rd_counted le).
Proof.
  intros r x r' E. unfold rd_counted in E. apply bind_ok in E. destruct E as ([l r1] & E1 & E).
  destruct ((l <? 0) || (zlen r1 <? l)); [discriminate|].
  apply rd_int_eats in E1.
  apply (rd_many_eats (rd_tagged le) (eats_weaken 6 _ (rd_tagged_eats le))) in E. lia.
Qed.

Lemma rd_credential_fine v le r : cc_fine (rd_credential v le r).
Proof.
  unfold rd_credential.
  apply bind_fine; [apply rd_principal_fine|]. intros [cl r1] _.
  apply bind_fine; [apply rd_principal_fine|]. intros [sv r2] _.
  apply bind_fine; [apply rd_int_fine|]. intros [kt0 r3] _.
  apply bind_fine; [destruct (v =? 3); [apply rd_int_fine|exact I]|]. intros [kt r4] _.
  apply bind_fine; [apply rd_data_fine|]. intros [key r5] _.
  apply bind_fine; [apply rd_int_fine|]. intros [t1 r6] _.
  apply bind_fine; [apply rd_int_fine|]. intros [t2 r7] _.
  apply bind_fine; [apply rd_int_fine|]. intros [t3 r8] _.
  apply bind_fine; [apply rd_int_fine|]. intros [t4 r9] _.
  apply bind_fine; [apply rd_int_fine|]. intros [sk r10] _.
  apply bind_fine; [apply rd_int_fine|]. intros [fl r11] _.
  apply bind_fine; [apply rd_counted_fine|]. intros [addrs r12] _.
  apply bind_fine; [apply rd_counted_fine|]. intros [ad r13] _.
  apply bind_fine; [apply rd_data_fine|]. intros [tk r14] _.
  apply bind_fine; [apply rd_data_fine|]. intros [tk2 r15] _. exact I.
Qed.

Lemma rd_credential_eats v le : eats 1 (rd_credential v le).
Proof.
  intros r c r' E. unfold rd_credential in E.
  apply bind_ok in E. destruct E as ([cl r1] & E1 & E).
  apply bind_ok in E. destruct E as ([sv r2] & E2 & E).
  apply bind_ok in E. destruct E as ([kt0 r3] & E3 & E).
  apply bind_ok in E. destruct E as ([kt r4] & E4 & E).
  apply bind_ok in E. destruct E as ([key r5] & E5 & E).
  apply bind_ok in E. destruct E as ([t1 r6] & E6 & E).
  apply bind_ok in E. destruct E as ([t2 r7] & E7 & E).
  apply bind_ok in E. destruct E as ([t3 r8] & E8 & E).
  apply bind_ok in E. destruct E as ([t4 r9] & E9 & E).
  apply bind_ok in E. destruct E as ([sk r10] & E10 & E).
  apply bind_ok in E. destruct E as ([fl r11] & E11 & E).
  apply bind_ok in E. destruct E as ([addrs r12] & E12 & E).
  apply bind_ok in E. destruct E as ([ad r13] & E13 & E).
  apply bind_ok in E. destruct E as ([tk r14] & E14 & E).
  apply bind_ok in E. destruct E as ([tk2 r15] & E15 & E16). injection E16 as _ <-.
  apply rd_principal_eats in E1. apply rd_principal_eats in E2. apply rd_int_eats in E3.
  assert (length r4 <= length r3)%nat.
  { destruct (v =? 3); [apply rd_int_eats in E4; lia|injection E4 as _ <-; lia]. }
  apply rd_data_eats in E5. apply rd_int_eats in E6. apply rd_int_eats in E7. apply rd_int_eats in E8.
  apply rd_int_eats in E9. apply rd_int_eats in E10. apply rd_int_eats in E11.
  apply rd_counted_eats in E12. apply rd_counted_eats in E13.
  apply rd_data_eats in E14. apply rd_data_eats in E15. lia.
Qed.

Lemma rd_creds_fine v le : forall fuel r, (length r < fuel)%nat -> cc_fine (rd_creds fuel v le r).
Proof.
  induction fuel as [|fuel IH]; intros r Hlen; [lia|].
  destruct r as [|x r0]; [exact I|]. cbn [rd_creds].
  apply bind_fine; [apply rd_credential_fine|]. intros [c r1] E1.
  apply rd_credential_eats in E1.
  apply bind_fine; [apply IH; lia|]. intros cs _. exact I.
Qed.

Lemma rd_hfields_fine : forall fuel p hlen r, (length r < fuel)%nat -> cc_fine (rd_hfields fuel p hlen r).
Proof.
  induction fuel as [|fuel IH]; intros p hlen r Hlen; [lia|].
  cbn [rd_hfields]. destruct (p <=? hlen); [|exact I].
  apply bind_fine; [apply rd_int_fine|]. intros [tag0 r1] E1.
  apply bind_fine; [apply rd_int_fine|]. intros [len0 r2] E2. cbv zeta.
  apply bind_fine; [apply rd_bytes_fine|]. intros [val r3] E3.
  destruct (hf_valid (wrap 16 tag0) (wrap 16 len0) val); [|cbn; lia].
  apply rd_int_eats in E1. apply rd_int_eats in E2. apply rd_bytes_eats in E3.
  apply bind_fine; [apply IH; lia|]. intros [fs r4] _. exact I.
Qed.

Lemma rd_header_fine r : cc_fine (rd_header r).
Proof.
  unfold rd_header. apply bind_fine; [apply rd_int_fine|]. intros [hl r0] _. cbv zeta.
  apply bind_fine; [apply rd_hfields_fine; lia|]. intros [fs r1] _. exact I.
Qed.

(* Headline: for every byte string the repaired Unmarshal returns a value or an error. *)
Theorem cc_unmarshal_total b : cc_fine (cc_unmarshal b).
Proof.
  unfold cc_unmarshal. destruct b as [|b0 [|v r]]; try (cbn; lia).
  destruct (negb (b0 =? 5)); [cbn; lia|].
  destruct ((v <? 1) || (4 <? v)); [cbn; lia|].
  apply bind_fine; [destruct (v =? 4); [apply rd_header_fine|exact I]|]. intros [hdr r1] _.
  apply bind_fine; [apply rd_principal_fine|]. intros [pr r2] _.
  apply bind_fine; [apply rd_creds_fine; lia|]. intros cs _. exact I.
Qed.

(* the jv entry point therefore never reports a panic *)
Corollary cc_unmarshal_j_never_panics b : cc_unmarshal_j (JB b) <> jpanic.
Proof.
  unfold cc_unmarshal_j, jres. pose proof (cc_unmarshal_total b) as H.
  destruct (cc_unmarshal b); cbn in *; [discriminate|discriminate|contradiction].
Qed.

(* Allocation (C04 share): what a successful parse holds is bounded by the input, element by element:
   a counted list of n addresses / authdata entries took at least 4 + 6n bytes, n credentials took at
   least n bytes.  With the count check of fix-1 (`l <= remaining`) make() is never called with more
   elements than bytes remain. *)
Lemma rd_many_eats_k {A} (rd : bytes -> res (A * bytes)) k : eats k rd ->
  forall fuel n r xs r', rd_many rd fuel n r = Ok (xs, r') -> (length r' + k * length xs <= length r)%nat.
Proof.
  intros Hrd. induction fuel as [|fuel IH]; intros n r xs r' E; cbn [rd_many] in E.
  - destruct (n <=? 0); [|discriminate]. injection E as <- <-. cbn. lia.
  - destruct (n <=? 0); [injection E as <- <-; cbn; lia|].
    apply bind_ok in E. destruct E as ([x r1] & E1 & E).
    apply bind_ok in E. destruct E as ([ys r2] & E2 & E3). injection E3 as <- <-.
    apply Hrd in E1. apply IH in E2. cbn [length]. lia.
Qed.

Theorem rd_counted_bounded le r l r' :
  rd_counted le r = Ok (l, r') -> (length r' + 4 + 6 * length l <= length r)%nat.
Proof.
  intros E. unfold rd_counted in E. apply bind_ok in E. destruct E as ([n r1] & E1 & E).
  destruct ((n <? 0) || (zlen r1 <? n)); [discriminate|].
  apply rd_int_eats in E1. apply (rd_many_eats_k _ 6 (rd_tagged_eats le)) in E. lia.
Qed.

Lemma rd_creds_bounded v le : forall fuel r cs, rd_creds fuel v le r = Ok cs -> (length cs <= length r)%nat.
Proof.
  induction fuel as [|fuel IH]; intros r cs E; destruct r as [|x r0]; cbn [rd_creds] in E;
    try (injection E as <-; cbn; lia); try discriminate.
  apply bind_ok in E. destruct E as ([c r1] & E1 & E).
  apply bind_ok in E. destruct E as (cs' & E2 & E3). injection E3 as <-.
  apply rd_credential_eats in E1. apply IH in E2. cbn [length] in *. lia.
Qed.

(* Non-vacuity: the three outcomes classes occur (value, error on truncation, error on a hostile count),
   and the hostile count 0x7fffffff is rejected without running the loop. *)
Example total_example :
  cc_unmarshal [5; 3; 0;0;0;1; 0;0;0;0; 0;0;0;1; 65] = Ok (mkCC 3 0 [] (mkCP 1 [65] []) []) /\
  cc_unmarshal [5; 3; 0;0;0;1; 0;0;0;0; 0;0;0;1] = Err 1 /\
  cc_unmarshal [] = Err 12 /\
  rd_counted false [127;255;255;255; 0;2; 0;0;0;0] = Err 3.
Proof. repeat split; vm_compute; reflexivity. Qed.
