(* Composition of the C16 and C12 models: the server order that GetKDCs hands to sendToKDC is duplicate-free,
   so (NetworkMore.no_attempt_repeated) no endpoint is tried twice in one exchange. *)
From Coq Require Import Permutation.
From Gokrb5.lib Require Import Bytes JV GoString.
From Gokrb5.model Require Import Krb5Conf Hosts Network.
From Gokrb5.proofs Require Import HostsProofs NetworkProofs NetworkMore.

Lemma nodup_shifted_seq n : NoDup (map (fun k => 1 + Z.of_nat k) (seq 0 n)).
Proof.
  apply FinFun.Injective_map_NoDup; [|apply seq_NoDup].
  intros a b H. lia.
Qed.

Theorem getkdcs_order_no_attempt_repeated : forall (c : hcfg) (rname : bytes) (oracle : list Z) mode beh,
  let name := if is_nil rname then h_default_realm c else rname in
  last_kdcs name (h_realms c) <> [] ->
  exists n ks c', get_kdcs c rname oracle = Ok (n, ks, c') /\
    NoDup (map fst ks) /\
    NoDup (snd (send_to_kdc mode beh (map fst ks) (map fst ks))).
Proof.
  intros c rname oracle mode beh name Hne.
  destruct (get_kdcs_each_once c rname oracle Hne) as (vals & E & _ & Hidx & _).
  eexists _, _, _. split; [exact E|].
  assert (NoDup (map fst (numbered 1 vals))) as N by (rewrite Hidx; apply nodup_shifted_seq).
  split; [exact N|]. apply no_attempt_repeated; exact N.
Qed.
