(* Gokrb5.proofs.KDCRepHonest — COMPLETENESS of the client side of the AS and TGS exchanges, end to end:
   a reply honestly built by a KDC for the request the client sent is ACCEPTED, from the wire bytes, through the
   real cipher model.

   "Honestly built" means: the wire is the DER encoding of a well-formed KDC-REP value (C13's encoder); its
   encrypted part is what `encrypt_with` (model/Crypto.v, the RFC 3961/3962/8009/4757 encryption) produces for
   SOME confounder of the right length on the DER encoding of an EncKDCRepPart whose fields answer the request
   (nonce, server name, realm, addresses, KDC time within the skew), under the client's key (AS, usage 3) or
   the TGT session key (TGS, usage 8).

   The proofs compose  asrep_bytes_refines_sealed / tgsrep_bytes_refines_sealed (bytes -> sealed-content model,
   KDCRepBytesProofs.v), the right-to-left directions of asrep_accept_iff / tgsrep_accept_iff (KDCRepProofs.v)
   and the four message round trips of CryptoRoundTrip.v.  des3-cbc-sha1 returns the plaintext followed by its
   zero padding; `seals` (and the Go decoder it describes) ignores octets after the value, so no case is lost. *)
From Gokrb5.lib Require Import Bytes JV.
From Gokrb5.model Require Import Keytab Crypto PAData Replay APReq KDCRep Schema DER DERCodec RFCSchemas KDCRepBytes.
From Gokrb5.proofs Require Import DERBasic DERProofs CryptoRoundTrip KDCRepProofs KDCRepBytesDec KDCRepBytesProofs
     KDCRepBytesExamples.

(* ================= sealing with the real cipher ================= *)

(* confounder length of the etype: one cipher block (16 for AES, 8 for des3), 8 for rc4-hmac *)
Definition kconf_len (et : Z) : nat := conf_len et.

(* ct is an encryption of msg under (et, key, usage): with SOME confounder of the right length *)
Definition ksealed (et : Z) (key : bytes) (usage : Z) (msg ct : bytes) : Prop :=
  exists conf, length conf = kconf_len et /\ wf_bytes conf /\ encrypt_with et key usage conf msg = Ok ct.

(* what the round trips need of the key: octets for AES (the key length is checked by encrypt_with itself),
   16 octets for rc4-hmac (encrypt_with does not check it, decrypt does), nothing for des3 *)
Definition kkey_ok (et : Z) (key : bytes) : Prop :=
  match et_family et with
  | Some FAesSha1 | Some FAesSha2 => wf_bytes key
  | Some FRc4 => length key = 16%nat
  | Some FDes3 | None => True
  end.

(* the zero padding decryption leaves after the message: only des3 (CBC without ciphertext stealing) pads *)
Definition kpad_len (et : Z) (msg : bytes) : nat :=
  match et_family et with
  | Some FDes3 => ((8 - (8 + length msg) mod 8) mod 8)%nat
  | _ => 0%nat
  end.

Lemma ksealed_supported et key usage msg ct : ksealed et key usage msg ct -> et_family et <> None.
Proof.
  intros (conf & _ & _ & E) F. unfold encrypt_with in E. rewrite F in E. discriminate.
Qed.

(* Decryption of a sealed message returns the message followed by kpad_len zero octets (none except for des3).
   "et is supported" need not be assumed: ksealed implies it (ksealed_supported). *)
Theorem ksealed_decrypt et key usage msg ct :
  kkey_ok et key -> wf_bytes msg -> ksealed et key usage msg ct ->
  decrypt et key usage ct = Ok (msg ++ Crypto.zeros (kpad_len et msg)).
Proof.
  intros Hk Wm (conf & Hc & Wc & E). unfold kkey_ok in Hk. unfold kpad_len. unfold kconf_len, conf_len in Hc.
  destruct (et_family et) as [[| | |]|] eqn:F.
  - pose proof (et_family_cases et _ F) as [-> | ->]; change (length conf = 16%nat) in Hc;
      change (Crypto.zeros 0) with (@nil Z); rewrite app_nil_r;
      eapply aes_sha1_roundtrip; eauto.
  - pose proof (et_family_cases et _ F) as [-> | ->]; change (length conf = 16%nat) in Hc;
      change (Crypto.zeros 0) with (@nil Z); rewrite app_nil_r;
      eapply aes_sha2_roundtrip; eauto.
  - pose proof (et_family_cases et _ F) as H. cbv beta iota in H. subst et. change (length conf = 8%nat) in Hc.
    rewrite (des3_roundtrip key usage conf msg ct Hc Wc Wm E). rewrite app_length, Hc. reflexivity.
  - pose proof (et_family_cases et _ F) as H. cbv beta iota in H. subst et. change (length conf = 8%nat) in Hc.
    change (Crypto.zeros 0) with (@nil Z). rewrite app_nil_r. eapply rc4_roundtrip; eauto.
  - exfalso. unfold encrypt_with in E. rewrite F in E. discriminate.
Qed.

(* the same in the shape asked for by `seals`: message, then a pad that is all zeros *)
Corollary ksealed_decrypt_pad et key usage msg ct :
  kkey_ok et key -> wf_bytes msg -> ksealed et key usage msg ct ->
  exists pad n, pad = Crypto.zeros n /\ (et_family et <> Some FDes3 -> n = 0%nat) /\ (n < 8)%nat /\
                decrypt et key usage ct = Ok (msg ++ pad).
Proof.
  intros Hk Wm Hs. exists (Crypto.zeros (kpad_len et msg)), (kpad_len et msg).
  split; [reflexivity|]. split; [|split; [|apply ksealed_decrypt; assumption]].
  - intros Hn. unfold kpad_len. destruct (et_family et) as [[| | |]|]; congruence.
  - unfold kpad_len. destruct (et_family et) as [[| | |]|]; try lia. apply Nat.mod_upper_bound. lia.
Qed.

(* ================= the sealed part is octets ================= *)
Lemma schema_ok_enc_part n : n = 25 \/ n = 26 -> schema_ok (TApp n rfc_EncKDCRepPart) = true.
Proof. intros [-> | ->]; vm_compute; reflexivity. Qed.

Lemma enc_part_octets n x er ept :
  n = 25 \/ n = 26 -> wf_enc_inj n x er = true ->
  encode (TApp n rfc_EncKDCRepPart) (inject_enc_rep x er) = Some ept -> wf_bytes ept.
Proof.
  intros Hn Hwf He. unfold wf_enc_inj in Hwf.
  apply andb_true_iff in Hwf. destruct Hwf as [Hwf Hs]. apply andb_true_iff in Hwf. destruct Hwf as [Hwf _].
  apply Z.ltb_lt in Hs.
  assert (E : ept = enc (TApp n rfc_EncKDCRepPart) (inject_enc_rep x er)).
  { unfold encode in He. cbn [wf_val] in He. rewrite Hwf in He. congruence. }
  subst ept.
  exact (enc_wf_bytes (TApp n rfc_EncKDCRepPart) (schema_ok_enc_part n Hn) (inject_enc_rep x er) Hwf ltac:(lia)).
Qed.

(* ================= AS exchange ================= *)
(* The conditions on names, realm, nonce, server name, addresses, KDC time and the FAST flag are those of
   as_valid (KDCRepProofs.v), word for word. *)
Theorem honest_asrep_accepted skew c rq v w trailing rp t n x er ept kv kt :
  (* the wire: DER encoding of a well-formed AS-REP value whose cleartext projection is rp *)
  wf_rep_val 11 v = true -> encode rfc_ASRep v = Some w -> project_rep v = Some rp ->
  (* the sealed part: DER encoding of an EncKDCRepPart (APPLICATION 25 or 26) carrying the fields er *)
  (n = 25 \/ n = 26) -> wf_enc_inj n x er = true ->
  encode (TApp n rfc_EncKDCRepPart) (inject_enc_rep x er) = Some ept ->
  (* ... encrypted under the client's key with usage 3 *)
  as_key c rp = Ok (kv, kt) -> kkey_ok kt kv -> ksealed kt kv 3 ept (rp_cipher rp) ->
  (* the reply answers the request *)
  rp_cname rp = rq_cname rq -> rp_crealm rp = rq_realm rq ->
  er_nonce er = rq_nonce rq -> er_sname er = rq_sname rq -> er_srealm er = rq_realm rq ->
  (rq_addrs rq = [] \/ addrs_equal (er_caddr er) (rq_addrs rq) = true) ->
  Z.abs (t - us (er_authtime er)) <= skew ->
  flag_enc_pa_rep (er_flags er) = false ->
  asrep_verify_bytes skew c rq (w ++ trailing) t = Ok true.
Proof.
  intros Hwf He Hp Hn Hwe Hee EK Hk Hs H1 H2 H3 H4 H5 H6 H7 H8.
  pose proof (enc_part_octets n x er ept Hn Hwe Hee) as Wm.
  pose proof (ksealed_decrypt kt kv 3 ept (rp_cipher rp) Hk Wm Hs) as ED.
  rewrite (asrep_bytes_refines_sealed skew c rq v w trailing rp er t Hwf He Hp).
  - apply asrep_accept_iff.
    exists kv, kt, (ept ++ Crypto.zeros (kpad_len kt ept)), er. repeat split; assumption.
  - intros kv' kt' pt EK' ED'. rewrite EK in EK'. injection EK' as <- <-.
    rewrite ED in ED'. injection ED' as <-.
    exists n, x, ept, (Crypto.zeros (kpad_len kt ept)). repeat split; assumption.
Qed.

(* ================= TGS exchange ================= *)
(* The model (and gokrb5's TGSRep.DecryptEncPart) decrypts with the TGT session key and usage 8 only.
   Conditions as in tgs_valid, word for word. *)
Theorem honest_tgsrep_accepted skew stype skey rq v w trailing rp t n x er ept :
  wf_rep_val 13 v = true -> encode rfc_TGSRep v = Some w -> project_rep v = Some rp ->
  (n = 25 \/ n = 26) -> wf_enc_inj n x er = true ->
  encode (TApp n rfc_EncKDCRepPart) (inject_enc_rep x er) = Some ept ->
  kkey_ok stype skey -> ksealed stype skey 8 ept (rp_cipher rp) ->
  rp_cname rp = rq_cname rq -> rp_tkt_realm rp = rq_realm rq ->
  er_nonce er = rq_nonce rq -> er_srealm er = rq_realm rq ->
  (forall a, In a (er_caddr er) -> In a (rq_addrs rq)) ->
  ((exists s, er_start er = Some s /\ Z.abs (t - us s) <= skew) \/ Z.abs (t - us (er_authtime er)) <= skew) ->
  tgsrep_verify_bytes skew stype skey rq (w ++ trailing) t = Ok true.
Proof.
  intros Hwf He Hp Hn Hwe Hee Hk Hs H1 H2 H3 H5 H6 H7.
  pose proof (enc_part_octets n x er ept Hn Hwe Hee) as Wm.
  pose proof (ksealed_decrypt stype skey 8 ept (rp_cipher rp) Hk Wm Hs) as ED.
  rewrite (tgsrep_bytes_refines_sealed skew stype skey rq v w trailing rp er t Hwf He Hp).
  - apply tgsrep_accept_iff.
    exists (ept ++ Crypto.zeros (kpad_len stype ept)), er. repeat split; assumption.
  - intros pt ED'. rewrite ED in ED'. injection ED' as <-.
    exists n, x, ept, (Crypto.zeros (kpad_len stype ept)). repeat split; assumption.
Qed.

(* ================= the hypotheses are satisfiable ================= *)
(* ksealed / kkey_ok / ksealed_decrypt on small concrete messages: aes128 (17), rc4-hmac (23) and des3 (16,
   where the pad shows) *)
Example ksealed_17 :
  exists ct, kkey_ok 17 (repeatz 7 16) /\ ksealed 17 (repeatz 7 16) 3 [104; 105] ct /\
             decrypt 17 (repeatz 7 16) 3 ct = Ok [104; 105].
Proof.
  destruct (encrypt_with 17 (repeatz 7 16) 3 (repeatz 1 16) [104; 105]) as [ct| |] eqn:E;
    [|vm_compute in E; discriminate..].
  assert (K : kkey_ok 17 (repeatz 7 16)) by (apply wf_bytesb_iff; vm_compute; reflexivity).
  assert (S : ksealed 17 (repeatz 7 16) 3 [104; 105] ct).
  { exists (repeatz 1 16). split; [reflexivity|]. split; [apply wf_bytesb_iff; vm_compute; reflexivity | exact E]. }
  exists ct. split; [exact K|]. split; [exact S|].
  rewrite (ksealed_decrypt 17 _ 3 [104; 105] ct K ltac:(apply wf_bytesb_iff; vm_compute; reflexivity) S).
  reflexivity.
Qed.

Example ksealed_23 :
  exists ct, kkey_ok 23 (repeatz 7 16) /\ ksealed 23 (repeatz 7 16) 8 [104; 105] ct /\
             decrypt 23 (repeatz 7 16) 8 ct = Ok [104; 105].
Proof.
  destruct (encrypt_with 23 (repeatz 7 16) 8 (repeatz 1 8) [104; 105]) as [ct| |] eqn:E;
    [|vm_compute in E; discriminate..].
  assert (K : kkey_ok 23 (repeatz 7 16)) by reflexivity.
  assert (S : ksealed 23 (repeatz 7 16) 8 [104; 105] ct).
  { exists (repeatz 1 8). split; [reflexivity|]. split; [apply wf_bytesb_iff; vm_compute; reflexivity | exact E]. }
  exists ct. split; [exact K|]. split; [exact S|].
  rewrite (ksealed_decrypt 23 _ 8 [104; 105] ct K ltac:(apply wf_bytesb_iff; vm_compute; reflexivity) S).
  reflexivity.
Qed.

Example ksealed_16_pads :
  exists ct, ksealed 16 (repeatz 7 24) 3 [104; 105] ct /\
             decrypt 16 (repeatz 7 24) 3 ct = Ok ([104; 105] ++ [0; 0; 0; 0; 0; 0]).
Proof.
  destruct (encrypt_with 16 (repeatz 7 24) 3 (repeatz 1 8) [104; 105]) as [ct| |] eqn:E;
    [|vm_compute in E; discriminate..].
  assert (S : ksealed 16 (repeatz 7 24) 3 [104; 105] ct).
  { exists (repeatz 1 8). split; [reflexivity|]. split; [apply wf_bytesb_iff; vm_compute; reflexivity | exact E]. }
  exists ct. split; [exact S|].
  rewrite (ksealed_decrypt 16 _ 3 [104; 105] ct I ltac:(apply wf_bytesb_iff; vm_compute; reflexivity) S).
  reflexivity.
Qed.

(* The concrete exchanges of KDCRepBytesExamples.v (sealed with the executable aes128-cts-hmac-sha1-96) satisfy
   every hypothesis: their acceptance follows from the theorems, with trailing octets after the wire. *)
Module HonestEx.
  Import Ex.

  Lemma ex_encode n : n = 25 \/ n = 26 -> encode (TApp n rfc_EncKDCRepPart) (inject_enc_rep x er) = Some (plain n).
  Proof. intros [-> | ->]; vm_compute; reflexivity. Qed.

  Example as_accepted_by_theorem :
    asrep_verify_bytes skew creds_kt rq (as_wire ++ [0; 0; 0]) now = Ok true.
  Proof.
    apply (honest_asrep_accepted skew creds_kt rq as_val as_wire [0; 0; 0] as_rp now 25 x er (plain 25) key 17).
    - exact as_wf.
    - exact as_encode.
    - exact as_project.
    - left; reflexivity.
    - apply er_wf.
    - apply ex_encode. left; reflexivity.
    - vm_compute. reflexivity.
    - apply wf_bytesb_iff. vm_compute. reflexivity.
    - exists (repeatz 9 16). split; [reflexivity|]. split; [apply wf_bytesb_iff; vm_compute; reflexivity|].
      vm_compute. reflexivity.
    - reflexivity.
    - reflexivity.
    - reflexivity.
    - reflexivity.
    - reflexivity.
    - left; reflexivity.
    - vm_compute. discriminate.
    - reflexivity.
  Qed.

  Definition tgs_rp : kdc_rep := mkRep [user] realm realm 17 0 tgs_cipher [].

  Example tgs_accepted_by_theorem :
    tgsrep_verify_bytes skew 17 skey trq (enc rfc_TGSRep tgs_val ++ [0; 0; 0]) now = Ok true.
  Proof.
    apply (honest_tgsrep_accepted skew 17 skey trq tgs_val (enc rfc_TGSRep tgs_val) [0; 0; 0] tgs_rp now 26 x er (plain 26)).
    - exact tgs_wf.
    - vm_compute. reflexivity.
    - vm_compute. reflexivity.
    - right; reflexivity.
    - apply er_wf.
    - apply ex_encode. right; reflexivity.
    - apply wf_bytesb_iff. vm_compute. reflexivity.
    - exists (repeatz 9 16). split; [reflexivity|]. split; [apply wf_bytesb_iff; vm_compute; reflexivity|].
      vm_compute. reflexivity.
    - reflexivity.
    - reflexivity.
    - reflexivity.
    - reflexivity.
    - intros a [].
    - right. vm_compute. discriminate.
  Qed.
End HonestEx.
