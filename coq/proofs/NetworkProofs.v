(* Fail-over completeness, KRB-ERROR surfacing and bounded attempts of the KDC exchange. *)
From Gokrb5.lib Require Import Bytes JV.
From Gokrb5.model Require Import Network.

Definition dead (b : behaviour) : Prop := b = Refuses \/ b = ClosesEarly \/ b = Silent.
Definition no_krb_errors (beh : Z -> transport -> behaviour) : Prop := forall k t c, beh k t <> KrbError c.

Lemma dial_send_attempts_le beh t order : (length (snd (dial_send beh t order)) <= length order)%nat.
Proof.
  induction order as [|k r IH]; cbn; [lia|].
  destruct (beh k t); cbn; try lia; destruct (dial_send beh t r); cbn in *; lia.
Qed.

Lemma dial_send_reply_sound beh t order x :
  fst (dial_send beh t order) = Reply x -> exists k, In k order /\ beh k t = Answers x.
Proof.
  induction order as [|k r IH]; cbn; [discriminate|].
  destruct (beh k t) eqn:E; cbn.
  - intros H; injection H as ->. exists k; split; [left; reflexivity|exact E].
  - destruct (dial_send beh t r); cbn in *. intros H. destruct (IH H) as (k' & Hin & Hb). exists k'; auto.
  - destruct (dial_send beh t r); cbn in *. intros H. destruct (IH H) as (k' & Hin & Hb). exists k'; auto.
  - destruct (dial_send beh t r); cbn in *. intros H. destruct (IH H) as (k' & Hin & Hb). exists k'; auto.
  - discriminate.
Qed.

Lemma dial_send_krberr_sound beh t order c :
  fst (dial_send beh t order) = KrbErr c -> exists k, In k order /\ beh k t = KrbError c.
Proof.
  induction order as [|k r IH]; cbn; [discriminate|].
  destruct (beh k t) eqn:E; cbn.
  - discriminate.
  - destruct (dial_send beh t r); cbn in *. intros H. destruct (IH H) as (k' & Hin & Hb). exists k'; auto.
  - destruct (dial_send beh t r); cbn in *. intros H. destruct (IH H) as (k' & Hin & Hb). exists k'; auto.
  - destruct (dial_send beh t r); cbn in *. intros H. destruct (IH H) as (k' & Hin & Hb). exists k'; auto.
  - intros H; injection H as ->. exists k; split; [left; reflexivity|exact E].
Qed.

Lemma dial_send_commerr beh t order :
  fst (dial_send beh t order) = CommErr <-> (forall k, In k order -> dead (beh k t)).
Proof.
  induction order as [|k r IH]; cbn; [split; [intros _ k []|reflexivity]|].
  destruct (beh k t) eqn:E; cbn.
  - split; [discriminate|]. intros H. destruct (H k (or_introl eq_refl)) as [D|[D|D]]; congruence.
  - destruct (dial_send beh t r); cbn in *. rewrite IH. split.
    + intros H k' [<-|Hin]; [rewrite E; left; reflexivity|auto].
    + intros H k' Hin. apply H; right; exact Hin.
  - destruct (dial_send beh t r); cbn in *. rewrite IH. split.
    + intros H k' [<-|Hin]; [rewrite E; right; left; reflexivity|auto].
    + intros H k' Hin. apply H; right; exact Hin.
  - destruct (dial_send beh t r); cbn in *. rewrite IH. split.
    + intros H k' [<-|Hin]; [rewrite E; right; right; reflexivity|auto].
    + intros H k' Hin. apply H; right; exact Hin.
  - split; [discriminate|]. intros H. destruct (H k (or_introl eq_refl)) as [D|[D|D]]; congruence.
Qed.

(* the first endpoint of the order that is not dead decides *)
Lemma dial_send_first_live beh t pre k post :
  (forall j, In j pre -> dead (beh j t)) ->
  dial_send beh t (pre ++ k :: post) =
    match beh k t with
    | Answers x => (Reply x, pre ++ [k])
    | KrbError c => (KrbErr c, pre ++ [k])
    | _ => let '(res, att) := dial_send beh t post in (res, pre ++ k :: att)
    end.
Proof.
  induction pre as [|j pre IH]; intros Hd; cbn [app dial_send].
  - destruct (beh k t); try reflexivity.
  - assert (dead (beh j t)) as Dj by (apply Hd; left; reflexivity).
    rewrite IH by (intros j' Hj'; apply Hd; right; exact Hj').
    destruct Dj as [->|[->| ->]]; destruct (beh k t); try reflexivity;
      destruct (dial_send beh t post); reflexivity.
Qed.

(* ---- C12 headline theorems ---- *)

(* If some configured KDC answers over a permitted transport and every other endpoint is dead (refuses,
   closes early or is silent), the exchange returns an answer that some endpoint gave — for every server
   order and whichever transport the size preference tries first. *)
Theorem failover_complete mode beh ou ot :
  no_krb_errors beh ->
  (exists k x, In k ot /\ beh k TCP = Answers x) \/
  (mode <> 0 /\ exists k x, In k ou /\ beh k UDP = Answers x) ->
  exists y, fst (send_to_kdc mode beh ou ot) = Reply y /\
            exists k t, beh k t = Answers y /\ In k (match t with UDP => ou | TCP => ot end).
Proof.
  intros Hne Hlive.
  assert (forall t order, (exists k x, In k order /\ beh k t = Answers x) ->
                          exists y, fst (dial_send beh t order) = Reply y) as Live.
  { intros t order (k & x & Hin & Hb).
    destruct (fst (dial_send beh t order)) as [y|c|] eqn:E; [eauto| |].
    - apply dial_send_krberr_sound in E. destruct E as (k' & _ & Hk'). exfalso; exact (Hne _ _ _ Hk').
    - rewrite dial_send_commerr in E. destruct (E k Hin) as [D|[D|D]]; congruence. }
  assert (forall t order, fst (dial_send beh t order) <> KrbErr too_big /\
                          forall c, fst (dial_send beh t order) <> KrbErr c) as NoErr.
  { intros t order. split; [|intros c]; intros E; apply dial_send_krberr_sound in E;
      destruct E as (k' & _ & Hk'); exact (Hne _ _ _ Hk'). }
  unfold send_to_kdc.
  destruct (Z.eqb_spec mode 0) as [->|Hm0].
  - destruct Hlive as [Ht|[Hc _]]; [|congruence].
    destruct (Live TCP ot Ht) as (y & Ey).
    destruct (dial_send beh TCP ot) as [r a] eqn:E. cbn in *. subst r. exists y. split; [reflexivity|].
    pose proof (dial_send_reply_sound beh TCP ot y) as S. rewrite E in S. destruct (S eq_refl) as (k & Hin & Hb).
    exists k, TCP; auto.
  - destruct (Z.eqb_spec mode 1) as [->|Hm1].
    + destruct (dial_send beh UDP ou) as [r a] eqn:EU. destruct r as [x|c|].
      * exists x. split; [reflexivity|].
        pose proof (dial_send_reply_sound beh UDP ou x) as S. rewrite EU in S.
        destruct (S eq_refl) as (k & Hin & Hb). exists k, UDP; auto.
      * exfalso. destruct (NoErr UDP ou) as [_ N]. apply (N c). now rewrite EU.
      * destruct (dial_send beh TCP ot) as [r2 a2] eqn:ET.
        destruct Hlive as [Ht|[_ Hu]].
        -- destruct (Live TCP ot Ht) as (y & Ey). rewrite ET in Ey. cbn in Ey. subst r2.
           exists y. split; [reflexivity|].
           pose proof (dial_send_reply_sound beh TCP ot y) as S. rewrite ET in S.
           destruct (S eq_refl) as (k & Hin & Hb). exists k, TCP; auto.
        -- destruct (Live UDP ou Hu) as (y & Ey). rewrite EU in Ey. discriminate.
    + destruct (dial_send beh TCP ot) as [r a] eqn:ET. destruct r as [x|c|].
      * exists x. split; [reflexivity|].
        pose proof (dial_send_reply_sound beh TCP ot x) as S. rewrite ET in S.
        destruct (S eq_refl) as (k & Hin & Hb). exists k, TCP; auto.
      * exfalso. destruct (NoErr TCP ot) as [_ N]. apply (N c). now rewrite ET.
      * destruct (dial_send beh UDP ou) as [r2 a2] eqn:EU.
        destruct Hlive as [Ht|[_ Hu]].
        -- destruct (Live TCP ot Ht) as (y & Ey). rewrite ET in Ey. discriminate.
        -- destruct (Live UDP ou Hu) as (y & Ey). rewrite EU in Ey. cbn in Ey. subst r2.
           exists y. split; [reflexivity|].
           pose proof (dial_send_reply_sound beh UDP ou y) as S. rewrite EU in S.
           destruct (S eq_refl) as (k & Hin & Hb). exists k, UDP; auto.
Qed.

(* A KRB-ERROR result is one that some KDC sent. *)
Theorem krb_error_sound mode beh ou ot c :
  fst (send_to_kdc mode beh ou ot) = KrbErr c -> exists k t, beh k t = KrbError c.
Proof.
  unfold send_to_kdc.
  destruct (mode =? 0).
  - destruct (dial_send beh TCP ot) as [r a] eqn:E. cbn. intros ->.
    pose proof (dial_send_krberr_sound beh TCP ot c) as S. rewrite E in S. destruct (S eq_refl) as (k & _ & H). eauto.
  - destruct (mode =? 1).
    + destruct (dial_send beh UDP ou) as [r a] eqn:EU. destruct r as [x|c'|].
      * discriminate.
      * destruct (c' =? too_big).
        -- destruct (dial_send beh TCP ot) as [r2 a2] eqn:ET. cbn. intros ->.
           pose proof (dial_send_krberr_sound beh TCP ot c) as S. rewrite ET in S. destruct (S eq_refl) as (k & _ & H). eauto.
        -- cbn. intros H; injection H as ->.
           pose proof (dial_send_krberr_sound beh UDP ou c) as S. rewrite EU in S. destruct (S eq_refl) as (k & _ & H). eauto.
      * destruct (dial_send beh TCP ot) as [r2 a2] eqn:ET. cbn. intros ->.
        pose proof (dial_send_krberr_sound beh TCP ot c) as S. rewrite ET in S. destruct (S eq_refl) as (k & _ & H). eauto.
    + destruct (dial_send beh TCP ot) as [r a] eqn:ET. destruct r as [x|c'|].
      * discriminate.
      * cbn. intros H; injection H as ->.
        pose proof (dial_send_krberr_sound beh TCP ot c) as S. rewrite ET in S. destruct (S eq_refl) as (k & _ & H). eauto.
      * destruct (dial_send beh UDP ou) as [r2 a2] eqn:EU. cbn. intros ->.
        pose proof (dial_send_krberr_sound beh UDP ou c) as S. rewrite EU in S. destruct (S eq_refl) as (k & _ & H). eauto.
Qed.

(* When the first live endpoint of the transport tried first answers KRB-ERROR c, that error is the result;
   only response-too-big over UDP (UDP tried first) falls back to TCP. *)
Theorem krb_error_surfaces mode beh pre k post other c :
  (forall j, In j pre -> dead (beh j (if mode =? 1 then UDP else TCP))) ->
  beh k (if mode =? 1 then UDP else TCP) = KrbError c ->
  (mode = 1 -> c <> too_big) ->
  fst (if mode =? 1 then send_to_kdc mode beh (pre ++ k :: post) other
       else send_to_kdc mode beh other (pre ++ k :: post)) = KrbErr c.
Proof.
  intros Hd Hk Hc. unfold send_to_kdc.
  destruct (Z.eqb_spec mode 1) as [->|Hm1]; cbn [Z.eqb Pos.eqb] in *.
  - rewrite dial_send_first_live by assumption. rewrite Hk.
    destruct (Z.eqb_spec c too_big); [exfalso; apply Hc; auto|reflexivity].
  - destruct (mode =? 0); rewrite dial_send_first_live by assumption; rewrite Hk; reflexivity.
Qed.

Theorem too_big_falls_back_to_tcp beh pre k post ot :
  (forall j, In j pre -> dead (beh j UDP)) -> beh k UDP = KrbError too_big ->
  fst (send_to_kdc 1 beh (pre ++ k :: post) ot) = fst (dial_send beh TCP ot).
Proof.
  intros Hd Hk. unfold send_to_kdc. cbn [Z.eqb Pos.eqb].
  rewrite dial_send_first_live by assumption. rewrite Hk. cbn [Z.eqb Pos.eqb too_big].
  destruct (dial_send beh TCP ot); reflexivity.
Qed.

(* If no server works the call fails, after at most one attempt per endpoint. *)
Theorem all_dead_fails mode beh ou ot :
  (forall k t, dead (beh k t)) -> fst (send_to_kdc mode beh ou ot) = CommErr.
Proof.
  intros Hd.
  assert (forall t o, fst (dial_send beh t o) = CommErr) as D
      by (intros t o; apply dial_send_commerr; intros; apply Hd).
  unfold send_to_kdc.
  destruct (mode =? 0).
  - specialize (D TCP ot). destruct (dial_send beh TCP ot); cbn in *; auto.
  - destruct (mode =? 1).
    + pose proof (D UDP ou) as DU. pose proof (D TCP ot) as DT.
      destruct (dial_send beh UDP ou) as [r a]; cbn in DU; subst r.
      destruct (dial_send beh TCP ot) as [r2 a2]; cbn in *; auto.
    + pose proof (D UDP ou) as DU. pose proof (D TCP ot) as DT.
      destruct (dial_send beh TCP ot) as [r a]; cbn in DT; subst r.
      destruct (dial_send beh UDP ou) as [r2 a2]; cbn in *; auto.
Qed.

Theorem attempts_bounded mode beh ou ot :
  (length (snd (send_to_kdc mode beh ou ot)) <= length ou + length ot)%nat.
Proof.
  pose proof (dial_send_attempts_le beh UDP ou) as LU. pose proof (dial_send_attempts_le beh TCP ot) as LT.
  unfold send_to_kdc.
  destruct (mode =? 0).
  - destruct (dial_send beh TCP ot); cbn in *. rewrite map_length. lia.
  - destruct (mode =? 1).
    + destruct (dial_send beh UDP ou) as [r a]; destruct (dial_send beh TCP ot) as [r2 a2]; cbn in *.
      destruct r as [x|c|]; [|destruct (c =? too_big)|]; cbn; rewrite ?app_length, ?map_length; lia.
    + destruct (dial_send beh TCP ot) as [r a]; destruct (dial_send beh UDP ou) as [r2 a2]; cbn in *.
      destruct r as [x|c|]; cbn; rewrite ?app_length, ?map_length; lia.
Qed.

(* non-vacuity: TCP first, both TCP endpoints dead, second UDP endpoint answers *)
Example failover_example :
  let beh := beh_table [(Silent, Refuses); (Answers 7, ClosesEarly)] in
  send_to_kdc 2 beh [0; 1] [1; 0] = (Reply 7, [(1, TCP); (0, TCP); (0, UDP); (1, UDP)]).
Proof. reflexivity. Qed.
