(* Extraction of the executable model.  ExtrOcamlBasic only: Z / positive / nat stay Coq datatypes. *)
Require Extraction.
Require Import ExtrOcamlBasic.
From Gokrb5.lib Require Import Bytes JV.
From Gokrb5.model Require Import Keytab.
Extraction "model.ml" jv kt_unmarshal_j kt_marshal_j kt_getkey_j.
