(* Extraction of the executable model.  ExtrOcamlBasic only: Z / positive / nat stay Coq datatypes. *)
Require Extraction.
Require Import ExtrOcamlBasic.
From Gokrb5.lib Require Import Bytes JV.
From Gokrb5.model Require Import Keytab CCache GSSToken Crypto GSSVerify PAData Replay Network APReq Spnego HttpClient KDCRep DER DERCodec ClientSM ClientPairs ASExchange Krb5Conf Hosts LenOctets Flags Framing PAC GoASN1 APReqBytes SpnegoBytes KDCRepBytes.
Extraction "model.ml" jv
  kt_unmarshal_j kt_marshal_j kt_getkey_j
  wrap_marshal_j wrap_unmarshal_j mic_marshal_j mic_unmarshal_j wrap_verify_j mic_verify_j
  nfold_j derive_key_j checksum_j verify_checksum_j decrypt_j crypt_check_j encrypt_with_j string_to_key_j
  des3_random_to_key_j key_from_password_j replay_run_j replay_conc_j send_to_kdc_j send_to_kdc_visible_j verify_apreq_j serve_j accept_sec_context_j http_do_j asrep_verify_j tgsrep_verify_j
  cc_unmarshal_j cc_getentry_j cc_contains_j cc_getentries_j cc_client_j
  client_run_j client_pairs_j as_exchange_j new_as_req_j referrals_j
  c16_parse_j c16_resolve_j c16_bool_j c16_dur_j c16_etypes_j c16_auf_j c16_rso_j c16_getkdcs_j c16_getkpasswd_j
  der_encode_j der_decode_j der_len_j parse_len_j enc_int_j dec_int_j enc_time_j dec_time_j
  marshal_len_j get_length_j len_hdr_bytes_j add_app_tag_j
  set_flag_j unset_flag_j is_flag_set_j is_flag_set_orig_j kdc_options_widen_j
  choice_encode_j choice_decode_j gss_frame_j gss_unframe_j krb5_token_j krb5_untoken_j
  pac_process_j pac_unmarshal_j sig_unmarshal_j client_info_j
  verify_apreq_bytes_j apreq_decode_j
  spnego_serve_bytes_j spnego_accept_bytes_j spnego_decode_j
  asrep_verify_bytes_j tgsrep_verify_bytes_j parse_kdc_rep_j dec_enc_der_j.
