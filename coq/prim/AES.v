(* Gokrb5.prim.AES — AES-128 / AES-256 block cipher (FIPS 197), executable, over bytes = list Z.

   The state is the 16-byte list in input order, i.e. column-major: element r + 4*c is the
   FIPS state byte s[r,c].  Round keys are 16-byte lists in the same order.
   S-boxes are literal tables laid out as 16 rows of 16 (row = high nibble, column = low
   nibble, exactly FIPS 197 figure 7 / figure 14); [sbox] / [inv_sbox] are the flat 256-entry
   tables and [sub_byte_flat] / [inv_sub_byte_flat] state that the two-level lookup is the flat
   lookup [nth (Z.to_nat b) sbox 0]. *)
From Gokrb5.lib Require Import Bytes.
From Gokrb5.prim Require Import CBC.

Definition sbox_rows : list (list Z) :=
  [ [99; 124; 119; 123; 242; 107; 111; 197; 48; 1; 103; 43; 254; 215; 171; 118];
    [202; 130; 201; 125; 250; 89; 71; 240; 173; 212; 162; 175; 156; 164; 114; 192];
    [183; 253; 147; 38; 54; 63; 247; 204; 52; 165; 229; 241; 113; 216; 49; 21];
    [4; 199; 35; 195; 24; 150; 5; 154; 7; 18; 128; 226; 235; 39; 178; 117];
    [9; 131; 44; 26; 27; 110; 90; 160; 82; 59; 214; 179; 41; 227; 47; 132];
    [83; 209; 0; 237; 32; 252; 177; 91; 106; 203; 190; 57; 74; 76; 88; 207];
    [208; 239; 170; 251; 67; 77; 51; 133; 69; 249; 2; 127; 80; 60; 159; 168];
    [81; 163; 64; 143; 146; 157; 56; 245; 188; 182; 218; 33; 16; 255; 243; 210];
    [205; 12; 19; 236; 95; 151; 68; 23; 196; 167; 126; 61; 100; 93; 25; 115];
    [96; 129; 79; 220; 34; 42; 144; 136; 70; 238; 184; 20; 222; 94; 11; 219];
    [224; 50; 58; 10; 73; 6; 36; 92; 194; 211; 172; 98; 145; 149; 228; 121];
    [231; 200; 55; 109; 141; 213; 78; 169; 108; 86; 244; 234; 101; 122; 174; 8];
    [186; 120; 37; 46; 28; 166; 180; 198; 232; 221; 116; 31; 75; 189; 139; 138];
    [112; 62; 181; 102; 72; 3; 246; 14; 97; 53; 87; 185; 134; 193; 29; 158];
    [225; 248; 152; 17; 105; 217; 142; 148; 155; 30; 135; 233; 206; 85; 40; 223];
    [140; 161; 137; 13; 191; 230; 66; 104; 65; 153; 45; 15; 176; 84; 187; 22] ].
Definition inv_sbox_rows : list (list Z) :=
  [ [82; 9; 106; 213; 48; 54; 165; 56; 191; 64; 163; 158; 129; 243; 215; 251];
    [124; 227; 57; 130; 155; 47; 255; 135; 52; 142; 67; 68; 196; 222; 233; 203];
    [84; 123; 148; 50; 166; 194; 35; 61; 238; 76; 149; 11; 66; 250; 195; 78];
    [8; 46; 161; 102; 40; 217; 36; 178; 118; 91; 162; 73; 109; 139; 209; 37];
    [114; 248; 246; 100; 134; 104; 152; 22; 212; 164; 92; 204; 93; 101; 182; 146];
    [108; 112; 72; 80; 253; 237; 185; 218; 94; 21; 70; 87; 167; 141; 157; 132];
    [144; 216; 171; 0; 140; 188; 211; 10; 247; 228; 88; 5; 184; 179; 69; 6];
    [208; 44; 30; 143; 202; 63; 15; 2; 193; 175; 189; 3; 1; 19; 138; 107];
    [58; 145; 17; 65; 79; 103; 220; 234; 151; 242; 207; 206; 240; 180; 230; 115];
    [150; 172; 116; 34; 231; 173; 53; 133; 226; 249; 55; 232; 28; 117; 223; 110];
    [71; 241; 26; 113; 29; 41; 197; 137; 111; 183; 98; 14; 170; 24; 190; 27];
    [252; 86; 62; 75; 198; 210; 121; 32; 154; 219; 192; 254; 120; 205; 90; 244];
    [31; 221; 168; 51; 136; 7; 199; 49; 177; 18; 16; 89; 39; 128; 236; 95];
    [96; 81; 127; 169; 25; 181; 74; 13; 45; 229; 122; 159; 147; 201; 156; 239];
    [160; 224; 59; 77; 174; 42; 245; 176; 200; 235; 187; 60; 131; 83; 153; 97];
    [23; 43; 4; 126; 186; 119; 214; 38; 225; 105; 20; 99; 85; 33; 12; 125] ].

Definition sbox : list Z := concat sbox_rows.
Definition inv_sbox : list Z := concat inv_sbox_rows.

Definition lookup_rows (rows : list (list Z)) (b : Z) : Z :=
  nth (Z.to_nat (Z.land b 15)) (nth (Z.to_nat (Z.shiftr b 4)) rows []) 0.

Definition sub_byte (b : Z) : Z := lookup_rows sbox_rows b.
Definition inv_sub_byte (b : Z) : Z := lookup_rows inv_sbox_rows b.

(* multiplication by x in GF(2^8) modulo x^8 + x^4 + x^3 + x + 1 (0x11b = 283) *)
Definition xtime (x : Z) : Z :=
  let y := Z.shiftl x 1 in if x <? 128 then y else Z.lxor y 283.

Definition sub_bytes (s : bytes) : bytes := map sub_byte s.
Definition inv_sub_bytes (s : bytes) : bytes := map inv_sub_byte s.

(* s'[r,c] = s[r,(c+r) mod 4] *)
Definition shift_rows (s : bytes) : bytes :=
  match s with
  | [s0; s1; s2; s3; s4; s5; s6; s7; s8; s9; s10; s11; s12; s13; s14; s15] =>
      [s0; s5; s10; s15; s4; s9; s14; s3; s8; s13; s2; s7; s12; s1; s6; s11]
  | _ => s
  end.

(* s'[r,c] = s[r,(c-r) mod 4] *)
Definition inv_shift_rows (s : bytes) : bytes :=
  match s with
  | [s0; s1; s2; s3; s4; s5; s6; s7; s8; s9; s10; s11; s12; s13; s14; s15] =>
      [s0; s13; s10; s7; s4; s1; s14; s11; s8; s5; s2; s15; s12; s9; s6; s3]
  | _ => s
  end.

(* column * (02 03 01 01 / 01 02 03 01 / 01 01 02 03 / 03 01 01 02) *)
Fixpoint mix_columns (s : bytes) : bytes :=
  match s with
  | a0 :: a1 :: a2 :: a3 :: r =>
      let x0 := xtime a0 in let x1 := xtime a1 in let x2 := xtime a2 in let x3 := xtime a3 in
      Z.lxor (Z.lxor x0 (Z.lxor x1 a1)) (Z.lxor a2 a3)
      :: Z.lxor (Z.lxor a0 x1) (Z.lxor (Z.lxor x2 a2) a3)
      :: Z.lxor (Z.lxor a0 a1) (Z.lxor x2 (Z.lxor x3 a3))
      :: Z.lxor (Z.lxor (Z.lxor x0 a0) a1) (Z.lxor a2 x3)
      :: mix_columns r
  | _ => s
  end.

(* column * (0e 0b 0d 09 / 09 0e 0b 0d / 0d 09 0e 0b / 0b 0d 09 0e) *)
Fixpoint inv_mix_columns (s : bytes) : bytes :=
  match s with
  | a0 :: a1 :: a2 :: a3 :: r =>
      let mul (a : Z) : Z * Z * Z * Z :=
        let x2 := xtime a in let x4 := xtime x2 in let x8 := xtime x4 in
        (Z.lxor x8 a,                      (* 09 *)
         Z.lxor (Z.lxor x8 x2) a,          (* 0b *)
         Z.lxor (Z.lxor x8 x4) a,          (* 0d *)
         Z.lxor (Z.lxor x8 x4) x2) in      (* 0e *)
      let '(a0_9, a0_b, a0_d, a0_e) := mul a0 in
      let '(a1_9, a1_b, a1_d, a1_e) := mul a1 in
      let '(a2_9, a2_b, a2_d, a2_e) := mul a2 in
      let '(a3_9, a3_b, a3_d, a3_e) := mul a3 in
      Z.lxor (Z.lxor a0_e a1_b) (Z.lxor a2_d a3_9)
      :: Z.lxor (Z.lxor a0_9 a1_e) (Z.lxor a2_b a3_d)
      :: Z.lxor (Z.lxor a0_d a1_9) (Z.lxor a2_e a3_b)
      :: Z.lxor (Z.lxor a0_b a1_d) (Z.lxor a2_9 a3_e)
      :: inv_mix_columns r
  | _ => s
  end.

(* xor of the state with a round key; has the length of the state whatever the key is *)
Fixpoint add_round_key (s rk : bytes) : bytes :=
  match s with
  | [] => []
  | x :: s' =>
      match rk with
      | [] => x :: add_round_key s' []
      | k :: rk' => Z.lxor x k :: add_round_key s' rk'
      end
  end.

(* ---------- key expansion (FIPS 197 section 5.2) ---------- *)

Definition sub_word (w : bytes) : bytes := map sub_byte w.
Definition rot_word (w : bytes) : bytes := match w with a :: r => r ++ [a] | [] => [] end.
Definition xor_rcon (w : bytes) (rc : Z) : bytes :=
  match w with a :: r => Z.lxor a rc :: r | [] => [] end.

(* ws holds the words computed so far, most recent first; j is (index of the next word) mod nk;
   rc is the current round constant byte. *)
Fixpoint expand_loop (fuel nk j : nat) (rc : Z) (ws : list bytes) : list bytes :=
  match fuel with
  | O => ws
  | S f =>
      let prev := hd [] ws in
      let old := nth (Nat.pred nk) ws [] in
      let temp :=
        if Nat.eqb j 0 then xor_rcon (sub_word (rot_word prev)) rc
        else if Nat.eqb nk 8 && Nat.eqb j 4 then sub_word prev
        else prev in
      let rc' := if Nat.eqb j 0 then xtime rc else rc in
      let j' := if Nat.eqb (S j) nk then O else S j in
      expand_loop f nk j' rc' (xor_bytes old temp :: ws)
  end.

Definition expand_words (nk total : nat) (key : bytes) : list bytes :=
  chunks 16 (concat (rev (expand_loop (total - nk) nk 0 1 (rev (chunks 4 key))))).

Definition aes_expand_key (key : bytes) : list bytes :=
  if Nat.eqb (length key) 16 then expand_words 4 44 key
  else if Nat.eqb (length key) 32 then expand_words 8 60 key
  else [].

(* ---------- cipher / inverse cipher (FIPS 197 sections 5.1, 5.3) ---------- *)

Fixpoint enc_rounds (rks : list bytes) (s : bytes) : bytes :=
  match rks with
  | [] => s
  | rk :: rest =>
      match rest with
      | [] => add_round_key (shift_rows (sub_bytes s)) rk
      | _ :: _ => enc_rounds rest (add_round_key (mix_columns (shift_rows (sub_bytes s))) rk)
      end
  end.

Definition aes_encrypt_rk (rks : list bytes) (blk : bytes) : bytes :=
  match rks with
  | [] => blk
  | rk0 :: rest => enc_rounds rest (add_round_key blk rk0)
  end.

(* rks in decreasing round order *)
Fixpoint dec_rounds (rks : list bytes) (s : bytes) : bytes :=
  match rks with
  | [] => s
  | rk :: rest =>
      match rest with
      | [] => add_round_key (inv_sub_bytes (inv_shift_rows s)) rk
      | _ :: _ =>
          dec_rounds rest (inv_mix_columns (add_round_key (inv_sub_bytes (inv_shift_rows s)) rk))
      end
  end.

Definition aes_decrypt_rk (rks : list bytes) (blk : bytes) : bytes :=
  match rev rks with
  | [] => blk
  | rkn :: rest => dec_rounds rest (add_round_key blk rkn)
  end.

Definition aes_encrypt_block (key blk : bytes) : bytes := aes_encrypt_rk (aes_expand_key key) blk.
Definition aes_decrypt_block (key blk : bytes) : bytes := aes_decrypt_rk (aes_expand_key key) blk.

(* ---------- table sanity, checked by computation ---------- *)

Definition byte_range : list Z := map Z.of_nat (seq 0 256).

Lemma byte_range_spec b : 0 <= b < 256 -> In b byte_range.
Proof.
  intros H. unfold byte_range. rewrite <- (Z2Nat.id b) by lia.
  apply in_map, in_seq. lia.
Qed.

Lemma forall_bytes (P : Z -> bool) :
  forallb P byte_range = true -> forall b, 0 <= b < 256 -> P b = true.
Proof. intros H b Hb. rewrite forallb_forall in H. apply H, byte_range_spec, Hb. Qed.

Lemma sbox_length : length sbox = 256%nat /\ length inv_sbox = 256%nat.
Proof. split; reflexivity. Qed.

Lemma sub_byte_flat b : 0 <= b < 256 -> sub_byte b = nth (Z.to_nat b) sbox 0.
Proof.
  intros Hb. apply Z.eqb_eq.
  apply (forall_bytes (fun b => sub_byte b =? nth (Z.to_nat b) sbox 0)); [vm_compute; reflexivity | exact Hb].
Qed.

Lemma inv_sub_byte_flat b : 0 <= b < 256 -> inv_sub_byte b = nth (Z.to_nat b) inv_sbox 0.
Proof.
  intros Hb. apply Z.eqb_eq.
  apply (forall_bytes (fun b => inv_sub_byte b =? nth (Z.to_nat b) inv_sbox 0)); [vm_compute; reflexivity | exact Hb].
Qed.

Lemma inv_sub_byte_sub_byte b : 0 <= b < 256 -> inv_sub_byte (sub_byte b) = b.
Proof.
  intros Hb. apply Z.eqb_eq.
  apply (forall_bytes (fun b => inv_sub_byte (sub_byte b) =? b)); [vm_compute; reflexivity | exact Hb].
Qed.

Lemma sub_byte_inv_sub_byte b : 0 <= b < 256 -> sub_byte (inv_sub_byte b) = b.
Proof.
  intros Hb. apply Z.eqb_eq.
  apply (forall_bytes (fun b => sub_byte (inv_sub_byte b) =? b)); [vm_compute; reflexivity | exact Hb].
Qed.

Lemma sub_byte_range b : 0 <= b < 256 -> 0 <= sub_byte b < 256.
Proof.
  intros Hb.
  pose proof (forall_bytes (fun b => is_byte (sub_byte b)) ltac:(vm_compute; reflexivity) b Hb) as H.
  unfold is_byte in H. apply andb_true_iff in H. destruct H as [H1 H2].
  apply Z.leb_le in H1. apply Z.ltb_lt in H2. lia.
Qed.

Lemma inv_sub_byte_range b : 0 <= b < 256 -> 0 <= inv_sub_byte b < 256.
Proof.
  intros Hb.
  pose proof (forall_bytes (fun b => is_byte (inv_sub_byte b)) ltac:(vm_compute; reflexivity) b Hb) as H.
  unfold is_byte in H. apply andb_true_iff in H. destruct H as [H1 H2].
  apply Z.leb_le in H1. apply Z.ltb_lt in H2. lia.
Qed.

Lemma xtime_range b : 0 <= b < 256 -> 0 <= xtime b < 256.
Proof.
  intros Hb.
  pose proof (forall_bytes (fun b => is_byte (xtime b)) ltac:(vm_compute; reflexivity) b Hb) as H.
  unfold is_byte in H. apply andb_true_iff in H. destruct H as [H1 H2].
  apply Z.leb_le in H1. apply Z.ltb_lt in H2. lia.
Qed.

(* ---------- lengths ---------- *)

Ltac list16 s H :=
  do 16 (destruct s as [|? s]; [cbn in H; discriminate H|]);
  destruct s; [|cbn in H; discriminate H].

Lemma add_round_key_length s rk : length (add_round_key s rk) = length s.
Proof.
  revert rk; induction s as [|x s IH]; intros rk; [reflexivity|].
  destruct rk; cbn; now rewrite IH.
Qed.

Lemma sub_bytes_length s : length (sub_bytes s) = length s.
Proof. apply map_length. Qed.

Lemma inv_sub_bytes_length s : length (inv_sub_bytes s) = length s.
Proof. apply map_length. Qed.

Lemma shift_rows_length s : length (shift_rows s) = length s.
Proof.
  destruct (Nat.eq_dec (length s) 16) as [H|H].
  - list16 s H. reflexivity.
  - unfold shift_rows.
    do 16 (destruct s as [|? s]; [reflexivity|]). destruct s; [cbn in H; congruence | reflexivity].
Qed.

Lemma inv_shift_rows_length s : length (inv_shift_rows s) = length s.
Proof.
  destruct (Nat.eq_dec (length s) 16) as [H|H].
  - list16 s H. reflexivity.
  - unfold inv_shift_rows.
    do 16 (destruct s as [|? s]; [reflexivity|]). destruct s; [cbn in H; congruence | reflexivity].
Qed.

Lemma mix_columns_length16 s : length s = 16%nat -> length (mix_columns s) = 16%nat.
Proof. intros H. list16 s H. reflexivity. Qed.

Lemma inv_mix_columns_length16 s : length s = 16%nat -> length (inv_mix_columns s) = 16%nat.
Proof. intros H. list16 s H. reflexivity. Qed.

Lemma enc_rounds_length rks s : length s = 16%nat -> length (enc_rounds rks s) = 16%nat.
Proof.
  revert s; induction rks as [|rk rest IH]; intros s H; [exact H|].
  cbn [enc_rounds]. destruct rest as [|rk' rest'].
  - now rewrite add_round_key_length, shift_rows_length, sub_bytes_length.
  - apply IH. rewrite add_round_key_length. apply mix_columns_length16.
    now rewrite shift_rows_length, sub_bytes_length.
Qed.

Lemma dec_rounds_length rks s : length s = 16%nat -> length (dec_rounds rks s) = 16%nat.
Proof.
  revert s; induction rks as [|rk rest IH]; intros s H; [exact H|].
  cbn [dec_rounds]. destruct rest as [|rk' rest'].
  - now rewrite add_round_key_length, inv_sub_bytes_length, inv_shift_rows_length.
  - apply IH. apply inv_mix_columns_length16.
    now rewrite add_round_key_length, inv_sub_bytes_length, inv_shift_rows_length.
Qed.

(* unconditional in the round keys *)
Theorem aes_encrypt_rk_length rks blk : length blk = 16%nat -> length (aes_encrypt_rk rks blk) = 16%nat.
Proof.
  intros H. unfold aes_encrypt_rk. destruct rks as [|rk0 rest]; [exact H|].
  apply enc_rounds_length. now rewrite add_round_key_length.
Qed.

Theorem aes_decrypt_rk_length rks blk : length blk = 16%nat -> length (aes_decrypt_rk rks blk) = 16%nat.
Proof.
  intros H. unfold aes_decrypt_rk. destruct (rev rks) as [|rkn rest]; [exact H|].
  apply dec_rounds_length. now rewrite add_round_key_length.
Qed.

Theorem aes_encrypt_block_length key blk :
  length blk = 16%nat -> length (aes_encrypt_block key blk) = 16%nat.
Proof. apply aes_encrypt_rk_length. Qed.

Theorem aes_decrypt_block_length key blk :
  length blk = 16%nat -> length (aes_decrypt_block key blk) = 16%nat.
Proof. apply aes_decrypt_rk_length. Qed.

(* quick self-check: FIPS 197 appendix C.1 *)
Example aes128_c1 :
  aes_encrypt_block (map Z.of_nat (seq 0 16))
    [0x00;0x11;0x22;0x33;0x44;0x55;0x66;0x77;0x88;0x99;0xaa;0xbb;0xcc;0xdd;0xee;0xff]
  = [0x69;0xc4;0xe0;0xd8;0x6a;0x7b;0x04;0x30;0xd8;0xcd;0xb7;0x80;0x70;0xb4;0xc5;0x5a].
Proof. vm_compute. reflexivity. Qed.
