(* Gokrb5.prim.SHA256 — SHA-256 per FIPS 180-4 sections 4.1.2, 4.2.2, 5.1.1, 5.3.3, 6.2. *)
From Gokrb5.lib Require Import Bytes.
From Gokrb5.prim Require Import HashCommon.
Open Scope Z_scope.

Definition sha256_st : Type := (Z * Z * Z * Z * Z * Z * Z * Z)%type.

Definition sha256_iv : sha256_st :=
  (0x6A09E667, 0xBB67AE85, 0x3C6EF372, 0xA54FF53A,
   0x510E527F, 0x9B05688C, 0x1F83D9AB, 0x5BE0CD19).

Definition sha256_K : list Z :=
  [0x428A2F98; 0x71374491; 0xB5C0FBCF; 0xE9B5DBA5;
   0x3956C25B; 0x59F111F1; 0x923F82A4; 0xAB1C5ED5;
   0xD807AA98; 0x12835B01; 0x243185BE; 0x550C7DC3;
   0x72BE5D74; 0x80DEB1FE; 0x9BDC06A7; 0xC19BF174;
   0xE49B69C1; 0xEFBE4786; 0x0FC19DC6; 0x240CA1CC;
   0x2DE92C6F; 0x4A7484AA; 0x5CB0A9DC; 0x76F988DA;
   0x983E5152; 0xA831C66D; 0xB00327C8; 0xBF597FC7;
   0xC6E00BF3; 0xD5A79147; 0x06CA6351; 0x14292967;
   0x27B70A85; 0x2E1B2138; 0x4D2C6DFC; 0x53380D13;
   0x650A7354; 0x766A0ABB; 0x81C2C92E; 0x92722C85;
   0xA2BFE8A1; 0xA81A664B; 0xC24B8B70; 0xC76C51A3;
   0xD192E819; 0xD6990624; 0xF40E3585; 0x106AA070;
   0x19A4C116; 0x1E376C08; 0x2748774C; 0x34B0BCB5;
   0x391C0CB3; 0x4ED8AA4A; 0x5B9CCA4F; 0x682E6FF3;
   0x748F82EE; 0x78A5636F; 0x84C87814; 0x8CC70208;
   0x90BEFFFA; 0xA4506CEB; 0xBEF9A3F7; 0xC67178F2].

(* Ch(x,y,z) = (x & y) ^ (~x & z) = z ^ (x & (y ^ z)) *)
Definition sha256_ch (x y z : Z) : Z := Z.lxor z (Z.land x (Z.lxor y z)).
(* Maj(x,y,z) = (x & y) ^ (x & z) ^ (y & z) = (x & y) | (z & (x | y)) *)
Definition sha256_maj (x y z : Z) : Z := Z.lor (Z.land x y) (Z.land z (Z.lor x y)).

Definition sha256_bsig0 (x : Z) : Z := Z.lxor (rotr32 x 2) (Z.lxor (rotr32 x 13) (rotr32 x 22)).
Definition sha256_bsig1 (x : Z) : Z := Z.lxor (rotr32 x 6) (Z.lxor (rotr32 x 11) (rotr32 x 25)).
Definition sha256_ssig0 (x : Z) : Z := Z.lxor (rotr32 x 7) (Z.lxor (rotr32 x 18) (Z.shiftr x 3)).
Definition sha256_ssig1 (x : Z) : Z := Z.lxor (rotr32 x 17) (Z.lxor (rotr32 x 19) (Z.shiftr x 10)).

(* message schedule: n words W_t, W_{t+1}, ... from the sliding window W_t .. W_{t+15} *)
Fixpoint sha256_sched (n : nat) (w : list Z) : list Z :=
  match n with
  | O => []
  | S n' =>
    match w with
    | w0 :: w1 :: w2 :: w3 :: w4 :: w5 :: w6 :: w7 :: w8 :: w9 :: w10 :: w11 :: w12 :: w13 :: w14 :: w15 :: _ =>
        w0 :: sha256_sched n' [w1; w2; w3; w4; w5; w6; w7; w8; w9; w10; w11; w12; w13; w14; w15;
                               Z.land (sha256_ssig1 w14 + w9 + sha256_ssig0 w1 + w0) mask32]
    | _ => []
    end
  end.

Definition sha256_round (s : sha256_st) (k w : Z) : sha256_st :=
  let '(a, b, c, d, e, f, g, h) := s in
  let t1 := h + sha256_bsig1 e + sha256_ch e f g + k + w in
  let t2 := sha256_bsig0 a + sha256_maj a b c in
  (Z.land (t1 + t2) mask32, a, b, c, Z.land (d + t1) mask32, e, f, g).

Fixpoint sha256_rounds (ks ws : list Z) (s : sha256_st) : sha256_st :=
  match ks, ws with
  | k :: ks', w :: ws' => sha256_rounds ks' ws' (sha256_round s k w)
  | _, _ => s
  end.

Definition sha256_compress (hh : sha256_st) (blk : list Z) : sha256_st :=
  let '(a, b, c, d, e, f, g, h) := sha256_rounds sha256_K (sha256_sched 64 blk) hh in
  let '(h0, h1, h2, h3, h4, h5, h6, h7) := hh in
  (add32 h0 a, add32 h1 b, add32 h2 c, add32 h3 d, add32 h4 e, add32 h5 f, add32 h6 g, add32 h7 h).

Definition sha256_state (m : bytes) : sha256_st :=
  fold_left sha256_compress (chunks 16 (be32s (pad64_be m))) sha256_iv.

Definition sha256 (m : bytes) : bytes :=
  let '(h0, h1, h2, h3, h4, h5, h6, h7) := sha256_state m in
  flat_map be32_bytes [h0; h1; h2; h3; h4; h5; h6; h7].

Lemma sha256_length : forall m, length (sha256 m) = 32%nat.
Proof.
  intros m. unfold sha256. destruct (sha256_state m) as [[[[[[[h0 h1] h2] h3] h4] h5] h6] h7].
  reflexivity.
Qed.
