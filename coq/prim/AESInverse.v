(* Gokrb5.prim.AESInverse — the inverse cipher of Gokrb5.prim.AES undoes the cipher.

   Main results
     aes_decrypt_encrypt_rks : for ANY list of well-formed round keys (any number of them, of any
                               lengths) decryption undoes encryption on well-formed 16-byte blocks;
     aes_expand_key_wf       : the key schedule of a well-formed key is a list of well-formed round keys;
     aes_decrypt_encrypt_rk  : the two combined, for every well-formed key of any length.
   The hypothesis [wf_bytes key] cannot be dropped: [aes_needs_wf_key] is a counterexample
   (a 16-element "key" containing the value 256).

   Every finite sweep below is a [forallb ... = true] statement over all 256 bytes (or all 65536
   pairs of bytes) closed by vm_compute and lifted with [forall_bytes] / [forall_bytes2]. *)
From Gokrb5.lib Require Import Bytes.
From Gokrb5.prim Require Import CBC AES.
From Coq Require Import Ring.

Definition isbyte (b : Z) : Prop := 0 <= b < 256.

(* ---------- sweeps over pairs of bytes ---------- *)

Lemma forall_bytes2 (P : Z -> Z -> bool) :
  forallb (fun a => forallb (P a) byte_range) byte_range = true ->
  forall a b, 0 <= a < 256 -> 0 <= b < 256 -> P a b = true.
Proof.
  intros H a b Ha Hb.
  apply (forall_bytes (P a)); [|exact Hb].
  apply (forall_bytes (fun a => forallb (P a) byte_range)); assumption.
Qed.

(* multiplication by x is additive on GF(2^8) *)
Lemma xtime_lxor a b : isbyte a -> isbyte b -> xtime (Z.lxor a b) = Z.lxor (xtime a) (xtime b).
Proof.
  intros Ha Hb. apply Z.eqb_eq.
  apply (forall_bytes2 (fun a b => xtime (Z.lxor a b) =? Z.lxor (xtime a) (xtime b)));
    [vm_compute; reflexivity | exact Ha | exact Hb].
Qed.

Lemma lxor_isbyte a b : isbyte a -> isbyte b -> isbyte (Z.lxor a b).
Proof. apply lxor_byte. Qed.
Lemma xtime_isbyte a : isbyte a -> isbyte (xtime a).
Proof. apply xtime_range. Qed.

Create HintDb aesb.
#[local] Hint Resolve lxor_isbyte xtime_isbyte : aesb.

(* ---------- well-formedness of the state through the four transformations ---------- *)

Lemma wf_cons a l : wf_bytes (a :: l) <-> isbyte a /\ wf_bytes l.
Proof. apply Forall_cons_iff. Qed.

Ltac wf_split :=
  repeat match goal with
         | H : wf_bytes (_ :: _) |- _ => apply wf_cons in H; destruct H
         end.

Lemma list_ind4 (P : bytes -> Prop) :
  P [] -> (forall a, P [a]) -> (forall a b, P [a; b]) -> (forall a b c, P [a; b; c]) ->
  (forall a b c d r, P r -> P (a :: b :: c :: d :: r)) -> forall s, P s.
Proof.
  intros H0 H1 H2 H3 H4. fix IH 1.
  intros [|a [|b [|c [|d r]]]]; [apply H0 | apply H1 | apply H2 | apply H3 | apply H4, IH].
Qed.

Lemma add_round_key_wf s rk : wf_bytes s -> wf_bytes rk -> wf_bytes (add_round_key s rk).
Proof.
  intros Hs; revert rk; induction Hs as [|x s Hx Hs IH]; intros rk Hrk; cbn [add_round_key].
  - constructor.
  - destruct Hrk as [|k rk Hk Hrk].
    + constructor; [exact Hx | apply IH; constructor].
    + constructor; [apply lxor_byte; assumption | apply IH, Hrk].
Qed.

Lemma sub_bytes_wf s : wf_bytes s -> wf_bytes (sub_bytes s).
Proof.
  induction 1 as [|x s Hx Hs IH]; cbn [sub_bytes map]; constructor;
    [apply sub_byte_range, Hx | exact IH].
Qed.

Lemma shift_rows_wf s : length s = 16%nat -> wf_bytes s -> wf_bytes (shift_rows s).
Proof.
  intros H Hw. list16 s H. cbn [shift_rows]. wf_split.
  repeat (apply wf_cons; split; [assumption|]). constructor.
Qed.

Lemma mix_columns_wf s : wf_bytes s -> wf_bytes (mix_columns s).
Proof.
  induction s as [| | | |a b c d r IH] using list_ind4; intros Hw; cbn [mix_columns]; try exact Hw.
  wf_split. repeat (apply wf_cons; split; [auto 8 with aesb|]). auto.
Qed.

(* ---------- each transformation is undone by its inverse ---------- *)

(* unconditional: Z.lxor is nilpotent on all of Z, and a short round key leaves the tail alone *)
Lemma add_round_key_involutive s rk : add_round_key (add_round_key s rk) rk = s.
Proof.
  revert rk; induction s as [|x s IH]; intros rk; [reflexivity|].
  destruct rk as [|k rk]; cbn [add_round_key]; rewrite IH; [reflexivity|].
  now rewrite Z.lxor_assoc, Z.lxor_nilpotent, Z.lxor_0_r.
Qed.

Lemma inv_sub_bytes_sub_bytes s : wf_bytes s -> inv_sub_bytes (sub_bytes s) = s.
Proof.
  induction 1 as [|x s Hx Hs IH]; [reflexivity|].
  unfold sub_bytes, inv_sub_bytes in *. cbn [map]. now rewrite IH, inv_sub_byte_sub_byte.
Qed.

Lemma inv_shift_rows_shift_rows s : length s = 16%nat -> inv_shift_rows (shift_rows s) = s.
Proof. intros H. list16 s H. reflexivity. Qed.

(* The column identity.  After pushing xtime through every xor (xtime_lxor) both sides are xors of
   the atoms xtime^k a_i (k <= 4); the products 0e*02, 0b*01, 0d*01, 09*03, ... all have degree
   below 8, so no reduction is involved and the atoms cancel in pairs.  The cancellation is done
   bit by bit in the boolean ring (xorb, andb). *)
Ltac xor_cancel :=
  apply Z.bits_inj'; intros ?n _; rewrite !Z.lxor_spec; ring.

Lemma inv_mix_mix_column a0 a1 a2 a3 r :
  isbyte a0 -> isbyte a1 -> isbyte a2 -> isbyte a3 ->
  inv_mix_columns (mix_columns (a0 :: a1 :: a2 :: a3 :: r))
  = a0 :: a1 :: a2 :: a3 :: inv_mix_columns (mix_columns r).
Proof.
  intros H0 H1 H2 H3. cbn [mix_columns inv_mix_columns].
  repeat rewrite xtime_lxor by auto 12 with aesb.
  set (x0 := xtime a0); set (y0 := xtime x0); set (z0 := xtime y0); set (w0 := xtime z0).
  set (x1 := xtime a1); set (y1 := xtime x1); set (z1 := xtime y1); set (w1 := xtime z1).
  set (x2 := xtime a2); set (y2 := xtime x2); set (z2 := xtime y2); set (w2 := xtime z2).
  set (x3 := xtime a3); set (y3 := xtime x3); set (z3 := xtime y3); set (w3 := xtime z3).
  f_equal; [xor_cancel|]. f_equal; [xor_cancel|]. f_equal; [xor_cancel|]. f_equal. xor_cancel.
Qed.

Lemma inv_mix_columns_mix_columns s : wf_bytes s -> inv_mix_columns (mix_columns s) = s.
Proof.
  induction s as [| | | |a b c d r IH] using list_ind4; intros Hw; try reflexivity.
  wf_split. rewrite inv_mix_mix_column by assumption. now rewrite IH.
Qed.

(* ---------- the round structure ---------- *)

(* a state: sixteen well-formed bytes *)
Definition st (s : bytes) : Prop := length s = 16%nat /\ wf_bytes s.

Lemma st_ark s k : st s -> wf_bytes k -> st (add_round_key s k).
Proof. intros [H W] Hk. split; [now rewrite add_round_key_length | now apply add_round_key_wf]. Qed.
Lemma st_sb s : st s -> st (sub_bytes s).
Proof. intros [H W]. split; [now rewrite sub_bytes_length | now apply sub_bytes_wf]. Qed.
Lemma st_sr s : st s -> st (shift_rows s).
Proof. intros [H W]. split; [now rewrite shift_rows_length | now apply shift_rows_wf]. Qed.
Lemma st_mc s : st s -> st (mix_columns s).
Proof. intros [H W]. split; [now apply mix_columns_length16 | now apply mix_columns_wf]. Qed.

Lemma inv_sb_sr s : st s -> inv_sub_bytes (inv_shift_rows (shift_rows (sub_bytes s))) = s.
Proof.
  intros [H W]. rewrite inv_shift_rows_shift_rows by now rewrite sub_bytes_length.
  now apply inv_sub_bytes_sub_bytes.
Qed.

Lemma enc_rounds_cons k rest s :
  rest <> [] ->
  enc_rounds (k :: rest) s = enc_rounds rest (add_round_key (mix_columns (shift_rows (sub_bytes s))) k).
Proof. destruct rest; [congruence | reflexivity]. Qed.

Lemma dec_rounds_cons k rest s :
  rest <> [] ->
  dec_rounds (k :: rest) s
  = dec_rounds rest (inv_mix_columns (add_round_key (inv_sub_bytes (inv_shift_rows s)) k)).
Proof. destruct rest; [congruence | reflexivity]. Qed.

(* Encryption rounds with keys body ++ [kn], then the decryption rounds for kn, rev body and
   whatever keys tl remain, leave the decryption of ShiftRows (SubBytes s) with the keys tl. *)
Lemma dec_enc_rounds body kn : forall s tl,
  Forall wf_bytes body -> wf_bytes kn -> st s -> tl <> [] ->
  dec_rounds (rev body ++ tl) (add_round_key (enc_rounds (body ++ [kn]) s) kn)
  = dec_rounds tl (shift_rows (sub_bytes s)).
Proof.
  induction body as [|k1 body IH]; intros s tl Hb Hkn Hs Htl.
  - cbn [rev app enc_rounds]. now rewrite add_round_key_involutive.
  - apply Forall_cons_iff in Hb. destruct Hb as [Hk1 Hb].
    cbn [rev app]. rewrite enc_rounds_cons by (destruct body; discriminate).
    rewrite <- app_assoc. cbn [app].
    assert (st (shift_rows (sub_bytes s))) as Hr by auto using st_sr, st_sb.
    assert (st (mix_columns (shift_rows (sub_bytes s)))) as Hm by now apply st_mc.
    rewrite IH; [|assumption|assumption|now apply st_ark|discriminate].
    rewrite dec_rounds_cons by exact Htl.
    rewrite inv_sb_sr by now apply st_ark.
    rewrite add_round_key_involutive.
    now rewrite inv_mix_columns_mix_columns by apply Hr.
Qed.

(* Any number of round keys, of any lengths, as long as they consist of bytes. *)
Theorem aes_decrypt_encrypt_rks rks blk :
  Forall wf_bytes rks -> length blk = 16%nat -> wf_bytes blk ->
  aes_decrypt_rk rks (aes_encrypt_rk rks blk) = blk.
Proof.
  intros Hrks Hl Hw. destruct rks as [|k0 rest]; [reflexivity|].
  apply Forall_cons_iff in Hrks. destruct Hrks as [Hk0 Hrest].
  assert (st (add_round_key blk k0)) as Hs0 by (apply st_ark; [split|]; assumption).
  unfold aes_decrypt_rk, aes_encrypt_rk.
  destruct rest as [|k1 rest'] using rev_ind.
  - cbn [rev app enc_rounds dec_rounds]. apply add_round_key_involutive.
  - clear IHrest'. apply Forall_app in Hrest. destruct Hrest as [Hbody Hkn].
    apply Forall_cons_iff in Hkn. destruct Hkn as [Hkn _].
    cbn [rev]. rewrite rev_app_distr. cbn [rev app].
    rewrite dec_enc_rounds by (assumption || discriminate).
    cbn [dec_rounds]. rewrite inv_sb_sr by exact Hs0. apply add_round_key_involutive.
Qed.

(* ---------- the key schedule produces well-formed round keys ---------- *)

Lemma wf_firstn n l : wf_bytes l -> wf_bytes (firstn n l).
Proof.
  revert l; induction n as [|n IH]; intros [|x l] H; cbn [firstn]; try (constructor; fail).
  apply wf_cons in H. destruct H as [Hx Hl]. apply wf_cons. split; [exact Hx | apply IH, Hl].
Qed.

Lemma wf_skipn n l : wf_bytes l -> wf_bytes (skipn n l).
Proof.
  revert l; induction n as [|n IH]; intros [|x l] H; cbn [skipn]; try assumption.
  apply wf_cons in H. destruct H as [Hx Hl]. apply IH, Hl.
Qed.

Lemma chunks_wf n l : wf_bytes l -> Forall wf_bytes (chunks n l).
Proof.
  unfold chunks. generalize (length l) as f. intros f; revert l.
  induction f as [|f IH]; intros l H; cbn [chunks_fuel]; [constructor|].
  destruct l as [|x l]; constructor; [now apply wf_firstn | now apply IH, wf_skipn].
Qed.

Lemma concat_wf (ls : list bytes) : Forall wf_bytes ls -> wf_bytes (concat ls).
Proof. induction 1 as [|l ls Hl Hls IH]; cbn [concat]; [constructor | now apply wf_bytes_app]. Qed.

Lemma nth_wf n (ws : list bytes) : Forall wf_bytes ws -> wf_bytes (nth n ws []).
Proof.
  intros H. destruct (nth_in_or_default n ws []) as [Hin | ->]; [|constructor].
  rewrite Forall_forall in H. now apply H.
Qed.

Lemma hd_wf (ws : list bytes) : Forall wf_bytes ws -> wf_bytes (hd [] ws).
Proof. destruct 1; [constructor | assumption]. Qed.

Lemma sub_word_wf w : wf_bytes w -> wf_bytes (sub_word w).
Proof. apply sub_bytes_wf. Qed.

Lemma rot_word_wf w : wf_bytes w -> wf_bytes (rot_word w).
Proof.
  destruct w as [|a r]; intros H; [constructor|]. cbn [rot_word].
  apply wf_cons in H. destruct H as [Ha Hr]. apply wf_bytes_app. split; [exact Hr | now constructor].
Qed.

Lemma xor_rcon_wf w rc : wf_bytes w -> isbyte rc -> wf_bytes (xor_rcon w rc).
Proof.
  destruct w as [|a r]; intros H Hrc; [constructor|]. cbn [xor_rcon].
  apply wf_cons in H. destruct H as [Ha Hr]. constructor; [now apply lxor_byte | exact Hr].
Qed.

Lemma expand_loop_wf fuel : forall nk j rc ws,
  isbyte rc -> Forall wf_bytes ws -> Forall wf_bytes (expand_loop fuel nk j rc ws).
Proof.
  induction fuel as [|f IH]; intros nk j rc ws Hrc Hws; cbn [expand_loop]; [exact Hws|].
  apply IH.
  - destruct (Nat.eqb j 0); [now apply xtime_range | exact Hrc].
  - constructor; [|exact Hws]. apply xor_bytes_wf; [now apply nth_wf|].
    destruct (Nat.eqb j 0).
    + apply xor_rcon_wf; [|exact Hrc]. now apply sub_word_wf, rot_word_wf, hd_wf.
    + destruct (Nat.eqb nk 8 && Nat.eqb j 4); [apply sub_word_wf|]; now apply hd_wf.
Qed.

Lemma expand_words_wf nk total key : wf_bytes key -> Forall wf_bytes (expand_words nk total key).
Proof.
  intros H. unfold expand_words. apply chunks_wf, concat_wf, Forall_rev, expand_loop_wf.
  - unfold isbyte; lia.
  - now apply Forall_rev, chunks_wf.
Qed.

Theorem aes_expand_key_wf key : wf_bytes key -> Forall wf_bytes (aes_expand_key key).
Proof.
  intros H. unfold aes_expand_key.
  destruct (Nat.eqb (length key) 16); [now apply expand_words_wf|].
  destruct (Nat.eqb (length key) 32); [now apply expand_words_wf | constructor].
Qed.

(* ---------- main theorem ---------- *)

(* No hypothesis on the length of the key: for lengths other than 16 and 32 the schedule is empty
   and both directions are the identity. *)
Theorem aes_decrypt_encrypt_rk : forall key blk,
  wf_bytes key -> length blk = 16%nat -> wf_bytes blk ->
  AES.aes_decrypt_rk (AES.aes_expand_key key) (AES.aes_encrypt_rk (AES.aes_expand_key key) blk) = blk.
Proof. intros key blk Hk Hl Hw. apply aes_decrypt_encrypt_rks; [now apply aes_expand_key_wf | exact Hl | exact Hw]. Qed.

Corollary aes_decrypt_encrypt_block key blk :
  wf_bytes key -> length blk = 16%nat -> wf_bytes blk ->
  aes_decrypt_block key (aes_encrypt_block key blk) = blk.
Proof. apply aes_decrypt_encrypt_rk. Qed.

(* [wf_bytes key] is necessary: with the value 256 in the key, byte 0 of the state after the first
   AddRoundKey is >= 256, SubBytes maps it to 0 (row index out of the table), and the first
   plaintext byte is lost. *)
Example aes_needs_wf_key :
  let key := 256 :: repeatz 0 15 in
  let blk := 1 :: repeatz 0 15 in
  length key = 16%nat /\ length blk = 16%nat /\ wf_bytes blk /\
  aes_decrypt_rk (aes_expand_key key) (aes_encrypt_rk (aes_expand_key key) blk) <> blk.
Proof.
  cbv zeta. split; [reflexivity|]. split; [reflexivity|]. split.
  - cbn [repeatz]. repeat (constructor; [lia|]). constructor.
  - intros H. apply beq_bytes_eq in H. vm_compute in H. discriminate H.
Qed.

Print Assumptions aes_decrypt_encrypt_rks.
Print Assumptions aes_decrypt_encrypt_rk.
