(* Gokrb5.prim.MD5 — MD5 per RFC 1321. *)
From Gokrb5.lib Require Import Bytes.
From Gokrb5.prim Require Import HashCommon.
Open Scope Z_scope.

Definition md5_st : Type := (Z * Z * Z * Z)%type.

Definition md5_iv : md5_st := (0x67452301, 0xEFCDAB89, 0x98BADCFE, 0x10325476).

(* F(x,y,z) = (x & y) | (~x & z) = z ^ (x & (y ^ z)) *)
Definition md5_F (x y z : Z) : Z := Z.lxor z (Z.land x (Z.lxor y z)).
(* G(x,y,z) = (x & z) | (y & ~z) = y ^ (z & (x ^ y)) *)
Definition md5_G (x y z : Z) : Z := Z.lxor y (Z.land z (Z.lxor x y)).
Definition md5_H (x y z : Z) : Z := Z.lxor x (Z.lxor y z).
(* I(x,y,z) = y ^ (x | ~z), ~z taken on 32 bits *)
Definition md5_I (x y z : Z) : Z := Z.lxor y (Z.lor x (Z.lxor z mask32)).

(* per step: (T[i], shift s, message word index k), RFC 1321 section 3.4 rounds 1-4 *)
Definition md5_T1 : list (Z * Z * nat) :=
  [(0xD76AA478, 7, 0%nat); (0xE8C7B756, 12, 1%nat);
   (0x242070DB, 17, 2%nat); (0xC1BDCEEE, 22, 3%nat);
   (0xF57C0FAF, 7, 4%nat); (0x4787C62A, 12, 5%nat);
   (0xA8304613, 17, 6%nat); (0xFD469501, 22, 7%nat);
   (0x698098D8, 7, 8%nat); (0x8B44F7AF, 12, 9%nat);
   (0xFFFF5BB1, 17, 10%nat); (0x895CD7BE, 22, 11%nat);
   (0x6B901122, 7, 12%nat); (0xFD987193, 12, 13%nat);
   (0xA679438E, 17, 14%nat); (0x49B40821, 22, 15%nat)].

Definition md5_T2 : list (Z * Z * nat) :=
  [(0xF61E2562, 5, 1%nat); (0xC040B340, 9, 6%nat);
   (0x265E5A51, 14, 11%nat); (0xE9B6C7AA, 20, 0%nat);
   (0xD62F105D, 5, 5%nat); (0x02441453, 9, 10%nat);
   (0xD8A1E681, 14, 15%nat); (0xE7D3FBC8, 20, 4%nat);
   (0x21E1CDE6, 5, 9%nat); (0xC33707D6, 9, 14%nat);
   (0xF4D50D87, 14, 3%nat); (0x455A14ED, 20, 8%nat);
   (0xA9E3E905, 5, 13%nat); (0xFCEFA3F8, 9, 2%nat);
   (0x676F02D9, 14, 7%nat); (0x8D2A4C8A, 20, 12%nat)].

Definition md5_T3 : list (Z * Z * nat) :=
  [(0xFFFA3942, 4, 5%nat); (0x8771F681, 11, 8%nat);
   (0x6D9D6122, 16, 11%nat); (0xFDE5380C, 23, 14%nat);
   (0xA4BEEA44, 4, 1%nat); (0x4BDECFA9, 11, 4%nat);
   (0xF6BB4B60, 16, 7%nat); (0xBEBFBC70, 23, 10%nat);
   (0x289B7EC6, 4, 13%nat); (0xEAA127FA, 11, 0%nat);
   (0xD4EF3085, 16, 3%nat); (0x04881D05, 23, 6%nat);
   (0xD9D4D039, 4, 9%nat); (0xE6DB99E5, 11, 12%nat);
   (0x1FA27CF8, 16, 15%nat); (0xC4AC5665, 23, 2%nat)].

Definition md5_T4 : list (Z * Z * nat) :=
  [(0xF4292244, 6, 0%nat); (0x432AFF97, 10, 7%nat);
   (0xAB9423A7, 15, 14%nat); (0xFC93A039, 21, 5%nat);
   (0x655B59C3, 6, 12%nat); (0x8F0CCC92, 10, 3%nat);
   (0xFFEFF47D, 15, 10%nat); (0x85845DD1, 21, 1%nat);
   (0x6FA87E4F, 6, 8%nat); (0xFE2CE6E0, 10, 15%nat);
   (0xA3014314, 15, 6%nat); (0x4E0811A1, 21, 13%nat);
   (0xF7537E82, 6, 4%nat); (0xBD3AF235, 10, 11%nat);
   (0x2AD7D2BB, 15, 2%nat); (0xEB86D391, 21, 9%nat)].

(* one step [abcd k s i]: a = b + ((a + f(b,c,d) + X[k] + T[i]) <<< s), then rotate roles *)
Definition md5_step (f : Z -> Z -> Z -> Z) (blk : list Z) (st : md5_st) (e : Z * Z * nat) : md5_st :=
  let '(a, b, c, d) := st in
  let '(t, s, k) := e in
  (d, Z.land (b + rotl32 (Z.land (a + f b c d + pick blk k + t) mask32) s) mask32, b, c).

Definition md5_compress (h : md5_st) (blk : list Z) : md5_st :=
  let s1 := fold_left (md5_step md5_F blk) md5_T1 h in
  let s2 := fold_left (md5_step md5_G blk) md5_T2 s1 in
  let s3 := fold_left (md5_step md5_H blk) md5_T3 s2 in
  let s4 := fold_left (md5_step md5_I blk) md5_T4 s3 in
  let '(h0, h1, h2, h3) := h in
  let '(a, b, c, d) := s4 in
  (add32 h0 a, add32 h1 b, add32 h2 c, add32 h3 d).

Definition md5_state (m : bytes) : md5_st :=
  fold_left md5_compress (chunks 16 (le32s (pad64_le m))) md5_iv.

Definition md5 (m : bytes) : bytes :=
  let '(h0, h1, h2, h3) := md5_state m in
  flat_map le32_bytes [h0; h1; h2; h3].

Lemma md5_length : forall m, length (md5 m) = 16%nat.
Proof.
  intros m. unfold md5. destruct (md5_state m) as [[[h0 h1] h2] h3]. reflexivity.
Qed.
