(* Gokrb5.prim.HashCommon — word-level helpers shared by the Merkle-Damgard hashes
   (SHA-1, SHA-2, MD4, MD5): masks, modular addition, rotations, word <-> byte codecs,
   message padding and block chunking.  Everything is on Z; nat is used only for list
   lengths / fuel. *)
From Gokrb5.lib Require Import Bytes.
Open Scope Z_scope.

Definition mask32 : Z := 0xFFFFFFFF.
Definition mask64 : Z := 0xFFFFFFFFFFFFFFFF.

Definition trunc32 (x : Z) : Z := Z.land x mask32.
Definition trunc64 (x : Z) : Z := Z.land x mask64.
Definition add32 (x y : Z) : Z := Z.land (x + y) mask32.
Definition add64 (x y : Z) : Z := Z.land (x + y) mask64.

(* rotations of a w-bit word (0 <= x < 2^w, 0 < n < w) *)
Definition rotl32 (x n : Z) : Z := Z.lor (Z.land (Z.shiftl x n) mask32) (Z.shiftr x (32 - n)).
Definition rotr32 (x n : Z) : Z := Z.lor (Z.shiftr x n) (Z.land (Z.shiftl x (32 - n)) mask32).
Definition rotr64 (x n : Z) : Z := Z.lor (Z.shiftr x n) (Z.land (Z.shiftl x (64 - n)) mask64).

(* ---------- word <-> bytes ---------- *)

Definition be32_of (a b c d : Z) : Z := Z.shiftl a 24 + Z.shiftl b 16 + Z.shiftl c 8 + d.
Definition le32_of (a b c d : Z) : Z := a + Z.shiftl b 8 + Z.shiftl c 16 + Z.shiftl d 24.

(* parse a byte string into 32-bit words; a trailing fragment of < 4 bytes is dropped
   (padded messages never have one) *)
Fixpoint be32s (l : bytes) : list Z :=
  match l with
  | a :: b :: c :: d :: r => be32_of a b c d :: be32s r
  | _ => []
  end.

Fixpoint le32s (l : bytes) : list Z :=
  match l with
  | a :: b :: c :: d :: r => le32_of a b c d :: le32s r
  | _ => []
  end.

Fixpoint be64s (l : bytes) : list Z :=
  match l with
  | a :: b :: c :: d :: e :: f :: g :: h :: r =>
      (Z.shiftl (be32_of a b c d) 32 + be32_of e f g h) :: be64s r
  | _ => []
  end.

Definition be32_bytes (w : Z) : bytes :=
  [Z.land (Z.shiftr w 24) 255; Z.land (Z.shiftr w 16) 255; Z.land (Z.shiftr w 8) 255; Z.land w 255].
Definition le32_bytes (w : Z) : bytes :=
  [Z.land w 255; Z.land (Z.shiftr w 8) 255; Z.land (Z.shiftr w 16) 255; Z.land (Z.shiftr w 24) 255].
Definition be64_bytes (w : Z) : bytes := be32_bytes (Z.shiftr w 32) ++ be32_bytes w.

(* ---------- padding and chunking ---------- *)

(* number of zero bytes between the 0x80 marker and the length field *)
Definition pad_zeros (blk lenfield n : Z) : nat := Z.to_nat ((blk - 1 - lenfield - n) mod blk).

(* 64-byte block, 8-byte big-endian bit length (SHA-1, SHA-256) *)
Definition pad64_be (m : bytes) : bytes :=
  let n := zlen m in m ++ 0x80 :: repeatz 0 (pad_zeros 64 8 n) ++ be_bytes 8 (8 * n).
(* 64-byte block, 8-byte little-endian bit length (MD4, MD5) *)
Definition pad64_le (m : bytes) : bytes :=
  let n := zlen m in m ++ 0x80 :: repeatz 0 (pad_zeros 64 8 n) ++ le_bytes 8 (8 * n).
(* 128-byte block, 16-byte big-endian bit length (SHA-384, SHA-512) *)
Definition pad128_be (m : bytes) : bytes :=
  let n := zlen m in m ++ 0x80 :: repeatz 0 (pad_zeros 128 16 n) ++ be_bytes 16 (8 * n).

(* split into consecutive chunks of n elements (the last may be shorter); fuel >= length l / n *)
Fixpoint chunks_fuel {A} (n : nat) (fuel : nat) (l : list A) : list (list A) :=
  match fuel with
  | O => []
  | S f => match l with
           | [] => []
           | _ => firstn n l :: chunks_fuel n f (skipn n l)
           end
  end.
Definition chunks {A} (n : nat) (l : list A) : list (list A) := chunks_fuel n (length l) l.

(* nth with a Z default, for building permuted message schedules once per block *)
Definition pick (blk : list Z) (i : nat) : Z := nth i blk 0.

(* ---------- lemmas ---------- *)

Lemma flat_map_length_const {A B} (f : A -> list B) (n : nat) (l : list A) :
  (forall a, length (f a) = n) -> length (flat_map f l) = (length l * n)%nat.
Proof.
  intros H. induction l as [|a l IH]; cbn [flat_map length]; [reflexivity|].
  rewrite app_length, H, IH. lia.
Qed.

Lemma be32_bytes_length w : length (be32_bytes w) = 4%nat.
Proof. reflexivity. Qed.
Lemma le32_bytes_length w : length (le32_bytes w) = 4%nat.
Proof. reflexivity. Qed.
Lemma be64_bytes_length w : length (be64_bytes w) = 8%nat.
Proof. reflexivity. Qed.

Lemma land_255 x : Z.land x 255 = x mod 256.
Proof. change 255 with (Z.ones 8). rewrite Z.land_ones by lia. reflexivity. Qed.

(* the fast serializers agree with the generic codecs of Bytes.v (no range condition) *)
Lemma le32_bytes_spec w : le32_bytes w = le_bytes 4 w.
Proof.
  unfold le32_bytes. cbn [le_bytes]. rewrite !land_255, !Z.shiftr_div_pow2 by lia.
  rewrite !Z.div_div by lia. reflexivity.
Qed.

Lemma be32_bytes_spec w : be32_bytes w = be_bytes 4 w.
Proof.
  unfold be_bytes. rewrite <- le32_bytes_spec. reflexivity.
Qed.

Lemma be64_bytes_spec w : be64_bytes w = be_bytes 8 w.
Proof.
  unfold be64_bytes. rewrite !be32_bytes_spec. unfold be_bytes. cbn [le_bytes rev app].
  rewrite Z.shiftr_div_pow2 by lia. rewrite !Z.div_div by lia. reflexivity.
Qed.

Lemma be32_of_spec a b c d : be32_of a b c d = be_val [a; b; c; d].
Proof.
  unfold be32_of, be_val. cbn [be_val_acc]. rewrite !Z.shiftl_mul_pow2 by lia. lia.
Qed.

Lemma le32_of_spec a b c d : le32_of a b c d = le_val [a; b; c; d].
Proof.
  unfold le32_of. cbn [le_val]. rewrite !Z.shiftl_mul_pow2 by lia. lia.
Qed.

Lemma be32_bytes_wf w : wf_bytes (be32_bytes w).
Proof. rewrite be32_bytes_spec. apply be_bytes_wf. Qed.
Lemma le32_bytes_wf w : wf_bytes (le32_bytes w).
Proof. rewrite le32_bytes_spec. apply le_bytes_wf. Qed.
Lemma be64_bytes_wf w : wf_bytes (be64_bytes w).
Proof. rewrite be64_bytes_spec. apply be_bytes_wf. Qed.
