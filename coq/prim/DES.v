(* Gokrb5.prim.DES — DES and three-key triple DES (FIPS 46-3 / SP 800-67), executable.

   Blocks, halves and subkeys are Z values; bit 1 of FIPS 46-3 is the most significant bit.
   All permutation tables below are the FIPS tables verbatim (1-based positions counted from
   the most significant bit of the input); [permute w tbl x] applies such a table to the
   w-bit value x, [gather] is its fast executable form.  The S-boxes are the FIPS tables (4 rows of 16).
   Key parity bits (the least significant bit of every key byte) are never selected by PC-1,
   so they are ignored. *)
From Coq Require Import Ndigits.
From Gokrb5.lib Require Import Bytes.

(* ---------- byte / integer conversion by shifts ---------- *)

Definition be_val_fast (l : bytes) : Z :=
  fold_left (fun acc b => Z.lor (Z.shiftl acc 8) (Z.land b 255)) l 0.

Fixpoint le_bytes_fast (n : nat) (z : Z) : bytes :=
  match n with O => [] | S n' => Z.land z 255 :: le_bytes_fast n' (Z.shiftr z 8) end.
Definition be_bytes_fast (n : nat) (z : Z) : bytes := rev (le_bytes_fast n z).

(* ---------- table-driven bit permutation ---------- *)

(* Specification: output bit k (counted from the most significant end) is the bit of the
   w-bit input x at FIPS position tbl[k] (1-based, counted from the most significant end),
   i.e. bit number w - tbl[k] in the usual least-significant-first numbering. *)
Definition permute (w : Z) (tbl : list Z) (x : Z) : Z :=
  fold_left (fun acc p => 2 * acc + Z.b2z (Z.testbit x (w - p))) tbl 0.

(* Executable form.  Bit positions are list-position-like small naturals so that a bit test is
   a plain walk down the binary representation (Pos.testbit_nat); Z.testbit with a binary
   index costs several times more in extracted code.  [gather_permute] below shows that this
   is [permute] on non-negative inputs. *)
Definition zbit (x : Z) (n : nat) : bool :=
  match x with Zpos p => Pos.testbit_nat p n | _ => false end.

Definition bit_indices (w : Z) (tbl : list Z) : list nat := map (fun p => Z.to_nat (w - p)) tbl.

Definition gather (idx : list nat) (x : Z) : Z :=
  fold_left (fun acc i => if zbit x i then Z.succ_double acc else Z.double acc) idx 0.

(* ---------- FIPS 46-3 tables ---------- *)

Definition ip_tbl : list Z :=
  [58; 50; 42; 34; 26; 18; 10; 2;
   60; 52; 44; 36; 28; 20; 12; 4;
   62; 54; 46; 38; 30; 22; 14; 6;
   64; 56; 48; 40; 32; 24; 16; 8;
   57; 49; 41; 33; 25; 17; 9; 1;
   59; 51; 43; 35; 27; 19; 11; 3;
   61; 53; 45; 37; 29; 21; 13; 5;
   63; 55; 47; 39; 31; 23; 15; 7].

Definition fp_tbl : list Z :=
  [40; 8; 48; 16; 56; 24; 64; 32;
   39; 7; 47; 15; 55; 23; 63; 31;
   38; 6; 46; 14; 54; 22; 62; 30;
   37; 5; 45; 13; 53; 21; 61; 29;
   36; 4; 44; 12; 52; 20; 60; 28;
   35; 3; 43; 11; 51; 19; 59; 27;
   34; 2; 42; 10; 50; 18; 58; 26;
   33; 1; 41; 9; 49; 17; 57; 25].

Definition e_tbl : list Z :=
  [32; 1; 2; 3; 4; 5;
   4; 5; 6; 7; 8; 9;
   8; 9; 10; 11; 12; 13;
   12; 13; 14; 15; 16; 17;
   16; 17; 18; 19; 20; 21;
   20; 21; 22; 23; 24; 25;
   24; 25; 26; 27; 28; 29;
   28; 29; 30; 31; 32; 1].

Definition p_tbl : list Z :=
  [16; 7; 20; 21;
   29; 12; 28; 17;
   1; 15; 23; 26;
   5; 18; 31; 10;
   2; 8; 24; 14;
   32; 27; 3; 9;
   19; 13; 30; 6;
   22; 11; 4; 25].

Definition pc1_tbl : list Z :=
  [57; 49; 41; 33; 25; 17; 9;
   1; 58; 50; 42; 34; 26; 18;
   10; 2; 59; 51; 43; 35; 27;
   19; 11; 3; 60; 52; 44; 36;
   63; 55; 47; 39; 31; 23; 15;
   7; 62; 54; 46; 38; 30; 22;
   14; 6; 61; 53; 45; 37; 29;
   21; 13; 5; 28; 20; 12; 4].

Definition pc2_tbl : list Z :=
  [14; 17; 11; 24; 1; 5;
   3; 28; 15; 6; 21; 10;
   23; 19; 12; 4; 26; 8;
   16; 7; 27; 20; 13; 2;
   41; 52; 31; 37; 47; 55;
   30; 40; 51; 45; 33; 48;
   44; 49; 39; 56; 34; 53;
   46; 42; 50; 36; 29; 32].

Definition key_shifts : list Z := [1; 1; 2; 2; 2; 2; 2; 2; 1; 2; 2; 2; 2; 2; 2; 1].

Definition sboxes : list (list (list Z)) :=
  [ (* S1 *)
    [ [14; 4; 13; 1; 2; 15; 11; 8; 3; 10; 6; 12; 5; 9; 0; 7];
      [0; 15; 7; 4; 14; 2; 13; 1; 10; 6; 12; 11; 9; 5; 3; 8];
      [4; 1; 14; 8; 13; 6; 2; 11; 15; 12; 9; 7; 3; 10; 5; 0];
      [15; 12; 8; 2; 4; 9; 1; 7; 5; 11; 3; 14; 10; 0; 6; 13] ];
    (* S2 *)
    [ [15; 1; 8; 14; 6; 11; 3; 4; 9; 7; 2; 13; 12; 0; 5; 10];
      [3; 13; 4; 7; 15; 2; 8; 14; 12; 0; 1; 10; 6; 9; 11; 5];
      [0; 14; 7; 11; 10; 4; 13; 1; 5; 8; 12; 6; 9; 3; 2; 15];
      [13; 8; 10; 1; 3; 15; 4; 2; 11; 6; 7; 12; 0; 5; 14; 9] ];
    (* S3 *)
    [ [10; 0; 9; 14; 6; 3; 15; 5; 1; 13; 12; 7; 11; 4; 2; 8];
      [13; 7; 0; 9; 3; 4; 6; 10; 2; 8; 5; 14; 12; 11; 15; 1];
      [13; 6; 4; 9; 8; 15; 3; 0; 11; 1; 2; 12; 5; 10; 14; 7];
      [1; 10; 13; 0; 6; 9; 8; 7; 4; 15; 14; 3; 11; 5; 2; 12] ];
    (* S4 *)
    [ [7; 13; 14; 3; 0; 6; 9; 10; 1; 2; 8; 5; 11; 12; 4; 15];
      [13; 8; 11; 5; 6; 15; 0; 3; 4; 7; 2; 12; 1; 10; 14; 9];
      [10; 6; 9; 0; 12; 11; 7; 13; 15; 1; 3; 14; 5; 2; 8; 4];
      [3; 15; 0; 6; 10; 1; 13; 8; 9; 4; 5; 11; 12; 7; 2; 14] ];
    (* S5 *)
    [ [2; 12; 4; 1; 7; 10; 11; 6; 8; 5; 3; 15; 13; 0; 14; 9];
      [14; 11; 2; 12; 4; 7; 13; 1; 5; 0; 15; 10; 3; 9; 8; 6];
      [4; 2; 1; 11; 10; 13; 7; 8; 15; 9; 12; 5; 6; 3; 0; 14];
      [11; 8; 12; 7; 1; 14; 2; 13; 6; 15; 0; 9; 10; 4; 5; 3] ];
    (* S6 *)
    [ [12; 1; 10; 15; 9; 2; 6; 8; 0; 13; 3; 4; 14; 7; 5; 11];
      [10; 15; 4; 2; 7; 12; 9; 5; 6; 1; 13; 14; 0; 11; 3; 8];
      [9; 14; 15; 5; 2; 8; 12; 3; 7; 0; 4; 10; 1; 13; 11; 6];
      [4; 3; 2; 12; 9; 5; 15; 10; 11; 14; 1; 7; 6; 0; 8; 13] ];
    (* S7 *)
    [ [4; 11; 2; 14; 15; 0; 8; 13; 3; 12; 9; 7; 5; 10; 6; 1];
      [13; 0; 11; 7; 4; 9; 1; 10; 14; 3; 5; 12; 2; 15; 8; 6];
      [1; 4; 11; 13; 12; 3; 7; 14; 10; 15; 6; 8; 0; 5; 9; 2];
      [6; 11; 13; 8; 1; 4; 10; 7; 9; 5; 0; 15; 14; 2; 3; 12] ];
    (* S8 *)
    [ [13; 2; 8; 4; 6; 15; 11; 1; 10; 9; 3; 14; 5; 0; 12; 7];
      [1; 15; 13; 8; 10; 3; 7; 4; 12; 5; 6; 11; 0; 14; 9; 2];
      [7; 11; 4; 1; 9; 12; 14; 2; 0; 6; 10; 13; 15; 3; 5; 8];
      [2; 1; 14; 7; 4; 10; 8; 13; 15; 12; 9; 0; 3; 5; 6; 11] ] ].

(* index lists, constants computed once *)
Definition ip_idx : list nat := bit_indices 64 ip_tbl.
Definition fp_idx : list nat := bit_indices 64 fp_tbl.
Definition e_idx : list nat := bit_indices 32 e_tbl.
Definition p_idx : list nat := bit_indices 32 p_tbl.
Definition pc1_idx : list nat := bit_indices 64 pc1_tbl.
Definition pc2_idx : list nat := bit_indices 56 pc2_tbl.
Definition sboxes_rev : list (list (list Z)) := rev sboxes.

(* ---------- cipher function f ---------- *)

(* six input bits b1..b6: row = b1 b6, column = b2 b3 b4 b5 *)
Definition sbox_lookup (rows : list (list Z)) (v : Z) : Z :=
  let row := Z.lor (Z.shiftl (Z.shiftr v 5) 1) (Z.land v 1) in
  let col := Z.land (Z.shiftr v 1) 15 in
  nth (Z.to_nat col) (nth (Z.to_nat row) rows []) 0.

(* boxes in the order S8, S7, ..., S1: S8 takes the six least significant bits of x.  The
   4-bit outputs are pushed on acc, so the result lists them in the order S1, ..., S8. *)
Fixpoint sbox_nibbles (boxes : list (list (list Z))) (x : Z) (acc : list Z) : list Z :=
  match boxes with
  | [] => acc
  | b :: r => sbox_nibbles r (Z.shiftr x 6) (sbox_lookup b (Z.land x 63) :: acc)
  end.

(* the 32-bit word S1(B1) S2(B2) ... S8(B8) for the 48-bit x = B1 B2 ... B8 *)
Definition sbox_apply (x : Z) : Z :=
  fold_left (fun a n => Z.lor (Z.shiftl a 4) n) (sbox_nibbles sboxes_rev x []) 0.

Definition des_f (r k : Z) : Z :=
  gather p_idx (sbox_apply (Z.lxor (gather e_idx r) k)).

(* ---------- key schedule ---------- *)

Definition des_mask28 : Z := 268435455.
Definition des_mask32 : Z := 4294967295.

Definition rotl28 (x n : Z) : Z :=
  Z.land (Z.lor (Z.shiftl x n) (Z.shiftr x (28 - n))) des_mask28.

Fixpoint ks_loop (shifts : list Z) (c d : Z) : list Z :=
  match shifts with
  | [] => []
  | n :: r =>
      let c' := rotl28 c n in
      let d' := rotl28 d n in
      gather pc2_idx (Z.lor (Z.shiftl c' 28) d') :: ks_loop r c' d'
  end.

Definition des_expand_key (key8 : bytes) : list Z :=
  let cd := gather pc1_idx (be_val_fast key8) in
  ks_loop key_shifts (Z.shiftr cd 28) (Z.land cd des_mask28).

(* ---------- block operation ---------- *)

Fixpoint des_rounds (ks : list Z) (l r : Z) : Z * Z :=
  match ks with
  | [] => (l, r)
  | k :: ks' => des_rounds ks' r (Z.lxor l (des_f r k))
  end.

(* the block operation with the subkeys in the order given *)
Definition des_crypt_ks (ks : list Z) (blk8 : bytes) : bytes :=
  let x := gather ip_idx (be_val_fast blk8) in
  let '(l, r) := des_rounds ks (Z.shiftr x 32) (Z.land x des_mask32) in
  be_bytes_fast 8 (gather fp_idx (Z.lor (Z.shiftl r 32) l)).

Definition des_encrypt_ks (ks : list Z) (blk8 : bytes) : bytes := des_crypt_ks ks blk8.
Definition des_decrypt_ks (ks : list Z) (blk8 : bytes) : bytes := des_crypt_ks (rev ks) blk8.

Definition des_encrypt_block (key8 blk8 : bytes) : bytes := des_encrypt_ks (des_expand_key key8) blk8.
Definition des_decrypt_block (key8 blk8 : bytes) : bytes := des_decrypt_ks (des_expand_key key8) blk8.

(* ---------- triple DES, EDE, three keys (key24 = k1 || k2 || k3) ---------- *)

Definition tdes_expand_key (key24 : bytes) : list Z * list Z * list Z :=
  (des_expand_key (firstn 8 key24),
   des_expand_key (firstn 8 (skipn 8 key24)),
   des_expand_key (firstn 8 (skipn 16 key24))).

Definition tdes_encrypt_ks (ks : list Z * list Z * list Z) (blk8 : bytes) : bytes :=
  let '(k1, k2, k3) := ks in des_encrypt_ks k3 (des_decrypt_ks k2 (des_encrypt_ks k1 blk8)).

Definition tdes_decrypt_ks (ks : list Z * list Z * list Z) (blk8 : bytes) : bytes :=
  let '(k1, k2, k3) := ks in des_decrypt_ks k1 (des_encrypt_ks k2 (des_decrypt_ks k3 blk8)).

Definition tdes_encrypt_block (key24 blk8 : bytes) : bytes := tdes_encrypt_ks (tdes_expand_key key24) blk8.
Definition tdes_decrypt_block (key24 blk8 : bytes) : bytes := tdes_decrypt_ks (tdes_expand_key key24) blk8.

(* ---------- lemmas ---------- *)

Lemma zbit_testbit x n : 0 <= x -> zbit x n = Z.testbit x (Z.of_nat n).
Proof.
  intros Hx. destruct x as [|p|p]; [now rewrite Z.testbit_0_l | | lia].
  destruct n as [|n].
  - destruct p; reflexivity.
  - cbn [zbit]. rewrite <- Ptestbit_Pbit. reflexivity.
Qed.

Lemma gather_permute w tbl x :
  0 <= x -> Forall (fun p => p <= w) tbl -> gather (bit_indices w tbl) x = permute w tbl x.
Proof.
  intros Hx Htbl. unfold gather, permute, bit_indices. generalize 0 as acc.
  induction Htbl as [|p tbl Hp Htbl IH]; intros acc; [reflexivity|].
  cbn [map fold_left]. rewrite IH. f_equal.
  rewrite zbit_testbit, Z2Nat.id by lia.
  destruct (Z.testbit x (w - p)); cbn [Z.b2z].
  - rewrite Z.succ_double_spec. lia.
  - rewrite Z.double_spec. lia.
Qed.

Lemma forallb_le_Forall w tbl : forallb (fun p => p <=? w) tbl = true -> Forall (fun p => p <= w) tbl.
Proof. intros H. apply Forall_forall. intros p Hp. rewrite forallb_forall in H. apply Z.leb_le, H, Hp. Qed.

(* the six index lists used by the executable definitions are the FIPS tables *)
Lemma gather_ip x : 0 <= x -> gather ip_idx x = permute 64 ip_tbl x.
Proof. intros H. apply gather_permute; [exact H | apply forallb_le_Forall; reflexivity]. Qed.
Lemma gather_fp x : 0 <= x -> gather fp_idx x = permute 64 fp_tbl x.
Proof. intros H. apply gather_permute; [exact H | apply forallb_le_Forall; reflexivity]. Qed.
Lemma gather_e x : 0 <= x -> gather e_idx x = permute 32 e_tbl x.
Proof. intros H. apply gather_permute; [exact H | apply forallb_le_Forall; reflexivity]. Qed.
Lemma gather_p x : 0 <= x -> gather p_idx x = permute 32 p_tbl x.
Proof. intros H. apply gather_permute; [exact H | apply forallb_le_Forall; reflexivity]. Qed.
Lemma gather_pc1 x : 0 <= x -> gather pc1_idx x = permute 64 pc1_tbl x.
Proof. intros H. apply gather_permute; [exact H | apply forallb_le_Forall; reflexivity]. Qed.
Lemma gather_pc2 x : 0 <= x -> gather pc2_idx x = permute 56 pc2_tbl x.
Proof. intros H. apply gather_permute; [exact H | apply forallb_le_Forall; reflexivity]. Qed.

Lemma le_bytes_fast_eq n z : le_bytes_fast n z = le_bytes n z.
Proof.
  revert z; induction n as [|n IH]; intros z; [reflexivity|].
  cbn [le_bytes_fast le_bytes]. rewrite IH. f_equal.
  - change 255 with (Z.ones 8). rewrite Z.land_ones by lia. reflexivity.
  - f_equal. rewrite Z.shiftr_div_pow2 by lia. reflexivity.
Qed.

Lemma be_bytes_fast_eq n z : be_bytes_fast n z = be_bytes n z.
Proof. unfold be_bytes_fast, be_bytes. now rewrite le_bytes_fast_eq. Qed.

Lemma be_bytes_fast_length n z : length (be_bytes_fast n z) = n.
Proof. rewrite be_bytes_fast_eq. apply be_bytes_length. Qed.

Lemma be_bytes_fast_wf n z : wf_bytes (be_bytes_fast n z).
Proof. rewrite be_bytes_fast_eq. apply be_bytes_wf. Qed.

Lemma table_lengths :
  length ip_tbl = 64%nat /\ length fp_tbl = 64%nat /\ length e_tbl = 48%nat /\
  length p_tbl = 32%nat /\ length pc1_tbl = 56%nat /\ length pc2_tbl = 48%nat /\
  length key_shifts = 16%nat /\ length sboxes = 8%nat.
Proof. repeat split. Qed.

(* IP and FP are mutually inverse permutations of 1..64 *)
Lemma fp_ip_inverse :
  forallb (fun i => nth (Z.to_nat (nth (Z.to_nat i - 1) fp_tbl 0) - 1) ip_tbl 0 =? i)
          (map Z.of_nat (seq 1 64)) = true.
Proof. vm_compute. reflexivity. Qed.

Lemma ks_loop_length shifts c d : length (ks_loop shifts c d) = length shifts.
Proof. revert c d; induction shifts as [|n r IH]; intros c d; cbn; [reflexivity | now rewrite IH]. Qed.

Lemma des_expand_key_length key8 : length (des_expand_key key8) = 16%nat.
Proof. unfold des_expand_key. now rewrite ks_loop_length. Qed.

(* all lengths are unconditional: the result is always an 8-byte list of well-formed bytes *)
Lemma des_crypt_ks_length ks blk : length (des_crypt_ks ks blk) = 8%nat.
Proof.
  unfold des_crypt_ks. destruct (des_rounds _ _ _) as [l r]. apply be_bytes_fast_length.
Qed.

Lemma des_crypt_ks_wf ks blk : wf_bytes (des_crypt_ks ks blk).
Proof.
  unfold des_crypt_ks. destruct (des_rounds _ _ _) as [l r]. apply be_bytes_fast_wf.
Qed.

Lemma des_encrypt_ks_length ks blk : length (des_encrypt_ks ks blk) = 8%nat.
Proof. apply des_crypt_ks_length. Qed.
Lemma des_decrypt_ks_length ks blk : length (des_decrypt_ks ks blk) = 8%nat.
Proof. apply des_crypt_ks_length. Qed.
Lemma des_encrypt_block_length key blk : length (des_encrypt_block key blk) = 8%nat.
Proof. apply des_crypt_ks_length. Qed.
Lemma des_decrypt_block_length key blk : length (des_decrypt_block key blk) = 8%nat.
Proof. apply des_crypt_ks_length. Qed.

Lemma tdes_encrypt_ks_length ks blk : length (tdes_encrypt_ks ks blk) = 8%nat.
Proof. destruct ks as [[k1 k2] k3]. apply des_crypt_ks_length. Qed.
Lemma tdes_decrypt_ks_length ks blk : length (tdes_decrypt_ks ks blk) = 8%nat.
Proof. destruct ks as [[k1 k2] k3]. apply des_crypt_ks_length. Qed.
Lemma tdes_encrypt_ks_wf ks blk : wf_bytes (tdes_encrypt_ks ks blk).
Proof. destruct ks as [[k1 k2] k3]. apply des_crypt_ks_wf. Qed.
Lemma tdes_decrypt_ks_wf ks blk : wf_bytes (tdes_decrypt_ks ks blk).
Proof. destruct ks as [[k1 k2] k3]. apply des_crypt_ks_wf. Qed.

Theorem tdes_encrypt_block_length key24 blk : length (tdes_encrypt_block key24 blk) = 8%nat.
Proof. apply tdes_encrypt_ks_length. Qed.
Theorem tdes_decrypt_block_length key24 blk : length (tdes_decrypt_block key24 blk) = 8%nat.
Proof. apply tdes_decrypt_ks_length. Qed.

(* quick self-check: the classic worked example *)
Example des_classic :
  des_encrypt_block [0x13;0x34;0x57;0x79;0x9B;0xBC;0xDF;0xF1] [0x01;0x23;0x45;0x67;0x89;0xAB;0xCD;0xEF]
  = [0x85;0xE8;0x13;0x54;0x0F;0x0A;0xB4;0x05].
Proof. vm_compute. reflexivity. Qed.
