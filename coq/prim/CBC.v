(* Gokrb5.prim.CBC — cipher block chaining over an abstract block function.

   cbc_encrypt enc bs iv data : data is cut into bs-byte blocks (chunks); block i is
   C_i = enc (P_i xor C_{i-1}), C_0 = iv.  The result is the concatenation of the C_i.
   cbc_decrypt dec bs iv data : P_i = dec C_i xor C_{i-1}.

   Data length is assumed to be a multiple of bs.  If it is not, the trailing partial block
   is processed as is: on encryption it is xored with (a prefix of) the previous ciphertext
   block and handed to enc at its short length; on decryption dec is applied to the short
   block and the result is xored with the previous block, truncated to the shorter of the two
   (xor_bytes has the length of its shorter argument).  With bs = 0 every chunk is empty and
   chunks yields [length data] empty blocks. *)
From Gokrb5.lib Require Import Bytes.

Fixpoint xor_bytes (a b : bytes) : bytes :=
  match a, b with
  | x :: a', y :: b' => Z.lxor x y :: xor_bytes a' b'
  | _, _ => []
  end.

(* chunks n l : l cut into consecutive n-element pieces (the last one possibly shorter).
   Fuel is the length of l, which always suffices when 0 < n. *)
Fixpoint chunks_fuel (fuel n : nat) (l : bytes) : list bytes :=
  match fuel with
  | O => []
  | S f =>
      match l with
      | [] => []
      | _ :: _ => firstn n l :: chunks_fuel f n (skipn n l)
      end
  end.

Definition chunks (n : nat) (l : bytes) : list bytes := chunks_fuel (length l) n l.

Fixpoint cbc_enc_blocks (enc : bytes -> bytes) (prev : bytes) (bl : list bytes) : list bytes :=
  match bl with
  | [] => []
  | b :: r => let c := enc (xor_bytes b prev) in c :: cbc_enc_blocks enc c r
  end.

Fixpoint cbc_dec_blocks (dec : bytes -> bytes) (prev : bytes) (bl : list bytes) : list bytes :=
  match bl with
  | [] => []
  | c :: r => xor_bytes (dec c) prev :: cbc_dec_blocks dec c r
  end.

Definition cbc_encrypt (enc : bytes -> bytes) (bs : nat) (iv data : bytes) : bytes :=
  concat (cbc_enc_blocks enc iv (chunks bs data)).

Definition cbc_decrypt (dec : bytes -> bytes) (bs : nat) (iv data : bytes) : bytes :=
  concat (cbc_dec_blocks dec iv (chunks bs data)).

(* ---------- xor_bytes ---------- *)

Lemma xor_bytes_length a b : length (xor_bytes a b) = Nat.min (length a) (length b).
Proof.
  revert b; induction a as [|x a IH]; intros [|y b]; cbn; try reflexivity.
  now rewrite IH.
Qed.

Lemma xor_bytes_length_eq a b : length a = length b -> length (xor_bytes a b) = length a.
Proof. intros H. rewrite xor_bytes_length, <- H. apply Nat.min_id. Qed.

Lemma xor_bytes_cancel a b : length a = length b -> xor_bytes (xor_bytes a b) b = a.
Proof.
  revert b; induction a as [|x a IH]; intros [|y b] H; cbn in *; try reflexivity; try discriminate.
  rewrite IH by congruence.
  now rewrite Z.lxor_assoc, Z.lxor_nilpotent, Z.lxor_0_r.
Qed.

Lemma xor_bytes_comm a b : xor_bytes a b = xor_bytes b a.
Proof.
  revert b; induction a as [|x a IH]; intros [|y b]; cbn; try reflexivity.
  now rewrite IH, Z.lxor_comm.
Qed.

Lemma xor_bytes_nil_r a : xor_bytes a [] = [].
Proof. destruct a; reflexivity. Qed.

Lemma lxor_byte x y : 0 <= x < 256 -> 0 <= y < 256 -> 0 <= Z.lxor x y < 256.
Proof.
  intros Hx Hy.
  assert (0 <= Z.lxor x y) as Hnn by (apply Z.lxor_nonneg; lia).
  split; [exact Hnn|].
  destruct (Z.eq_dec (Z.lxor x y) 0) as [->|Hz]; [lia|].
  change 256 with (2 ^ 8). apply Z.log2_lt_pow2; [lia|].
  pose proof (Z.log2_lxor x y ltac:(lia) ltac:(lia)) as Hl.
  assert (Z.log2 x < 8).
  { destruct (Z.eq_dec x 0) as [->|]; [cbn; lia|]. apply Z.log2_lt_pow2; [lia|]. cbn; lia. }
  assert (Z.log2 y < 8).
  { destruct (Z.eq_dec y 0) as [->|]; [cbn; lia|]. apply Z.log2_lt_pow2; [lia|]. cbn; lia. }
  lia.
Qed.

Lemma xor_bytes_wf a b : wf_bytes a -> wf_bytes b -> wf_bytes (xor_bytes a b).
Proof.
  intros Ha; revert b; induction Ha as [|x a Hx Ha IH]; intros b Hb; cbn; [constructor|].
  destruct Hb as [|y b Hy Hb]; constructor; [apply lxor_byte; assumption | apply IH, Hb].
Qed.

(* ---------- chunks ---------- *)

Lemma chunks_fuel_concat f n l :
  (0 < n)%nat -> (length l <= f)%nat -> concat (chunks_fuel f n l) = l.
Proof.
  intros Hn. revert l; induction f as [|f IH]; intros l Hl.
  - destruct l; [reflexivity | cbn in Hl; lia].
  - destruct l as [|x l]; [reflexivity|].
    cbn [chunks_fuel concat]. rewrite IH.
    + apply firstn_skipn.
    + rewrite skipn_length. cbn [length] in *. lia.
Qed.

Lemma concat_chunks n l : (0 < n)%nat -> concat (chunks n l) = l.
Proof. intros Hn. apply chunks_fuel_concat; [exact Hn | apply Nat.le_refl]. Qed.

Lemma chunks_fuel_of_concat f n (bl : list bytes) :
  (0 < n)%nat -> Forall (fun b => length b = n) bl -> (length (concat bl) <= f)%nat ->
  chunks_fuel f n (concat bl) = bl.
Proof.
  intros Hn Hbl. revert f; induction Hbl as [|b bl Hb Hbl IH]; intros f Hf.
  - destruct f; reflexivity.
  - cbn [concat] in *. rewrite app_length in Hf.
    destruct f as [|f]; [lia|].
    destruct b as [|x b]; [cbn in Hb; lia|].
    cbn [chunks_fuel app].
    change (x :: b ++ concat bl) with ((x :: b) ++ concat bl).
    pose proof (firstn_app_exact (x :: b) (concat bl)) as Hf1.
    pose proof (skipn_app_exact (x :: b) (concat bl)) as Hs1.
    rewrite Hb in Hf1, Hs1. rewrite Hf1, Hs1.
    f_equal. apply IH. lia.
Qed.

Lemma chunks_of_concat n (bl : list bytes) :
  (0 < n)%nat -> Forall (fun b => length b = n) bl -> chunks n (concat bl) = bl.
Proof. intros Hn Hbl. apply chunks_fuel_of_concat; auto. Qed.

Lemma chunks_fuel_lengths f n k l :
  (0 < n)%nat -> length l = (k * n)%nat -> (length l <= f)%nat ->
  Forall (fun b => length b = n) (chunks_fuel f n l).
Proof.
  intros Hn. revert k l; induction f as [|f IH]; intros k l Hk Hf; [constructor|].
  destruct l as [|x l]; [constructor|].
  destruct k as [|k]; [cbn in Hk; discriminate|].
  cbn [chunks_fuel]. constructor.
  - rewrite firstn_length. rewrite Hk. cbn [Nat.mul]. lia.
  - apply (IH k).
    + rewrite skipn_length, Hk. cbn [Nat.mul]. lia.
    + rewrite skipn_length. cbn [length] in *. lia.
Qed.

Lemma chunks_lengths n k l :
  (0 < n)%nat -> length l = (k * n)%nat -> Forall (fun b => length b = n) (chunks n l).
Proof. intros Hn Hk. apply (chunks_fuel_lengths _ n k); auto. Qed.

(* ---------- CBC ---------- *)

Section CBC.
  Variables (enc dec : bytes -> bytes) (bs : nat).
  Hypothesis dec_enc : forall b, length b = bs -> dec (enc b) = b.
  Hypothesis enc_length : forall b, length b = bs -> length (enc b) = bs.

  Lemma cbc_enc_blocks_lengths prev bl :
    length prev = bs -> Forall (fun b => length b = bs) bl ->
    Forall (fun b => length b = bs) (cbc_enc_blocks enc prev bl).
  Proof.
    intros Hp Hbl; revert prev Hp; induction Hbl as [|b bl Hb Hbl IH]; intros prev Hp; cbn.
    - constructor.
    - assert (length (enc (xor_bytes b prev)) = bs) as He
        by (apply enc_length; rewrite xor_bytes_length_eq; congruence).
      constructor; [exact He | apply IH, He].
  Qed.

  Lemma cbc_dec_enc_blocks prev bl :
    length prev = bs -> Forall (fun b => length b = bs) bl ->
    cbc_dec_blocks dec prev (cbc_enc_blocks enc prev bl) = bl.
  Proof.
    intros Hp Hbl; revert prev Hp; induction Hbl as [|b bl Hb Hbl IH]; intros prev Hp; cbn.
    - reflexivity.
    - assert (length (xor_bytes b prev) = bs) as Hx by (rewrite xor_bytes_length_eq; congruence).
      rewrite dec_enc by exact Hx.
      rewrite xor_bytes_cancel by congruence.
      f_equal. apply IH. apply enc_length, Hx.
  Qed.

  Lemma concat_length_const (bl : list bytes) :
    Forall (fun b => length b = bs) bl -> length (concat bl) = (length bl * bs)%nat.
  Proof.
    induction 1 as [|b bl Hb Hbl IH]; cbn; [reflexivity|].
    rewrite app_length, IH, Hb. reflexivity.
  Qed.

  Lemma cbc_enc_blocks_count prev bl : length (cbc_enc_blocks enc prev bl) = length bl.
  Proof. revert prev; induction bl as [|b bl IH]; intros prev; cbn; [reflexivity | now rewrite IH]. Qed.

  Theorem cbc_encrypt_length iv data k :
    (0 < bs)%nat -> length iv = bs -> length data = (k * bs)%nat ->
    length (cbc_encrypt enc bs iv data) = length data.
  Proof.
    intros Hbs Hiv Hk. unfold cbc_encrypt.
    pose proof (chunks_lengths bs k data Hbs Hk) as Hch.
    rewrite (concat_length_const _ (cbc_enc_blocks_lengths iv _ Hiv Hch)).
    rewrite cbc_enc_blocks_count, <- (concat_length_const _ Hch).
    now rewrite concat_chunks.
  Qed.

  Theorem cbc_decrypt_encrypt iv data k :
    (0 < bs)%nat -> length iv = bs -> length data = (k * bs)%nat ->
    cbc_decrypt dec bs iv (cbc_encrypt enc bs iv data) = data.
  Proof.
    intros Hbs Hiv Hk. unfold cbc_decrypt, cbc_encrypt.
    pose proof (chunks_lengths bs k data Hbs Hk) as Hch.
    rewrite chunks_of_concat by (auto using cbc_enc_blocks_lengths).
    rewrite cbc_dec_enc_blocks by assumption.
    now apply concat_chunks.
  Qed.
End CBC.

(* Decryption output length needs only that dec preserves the block length. *)
Lemma cbc_decrypt_length (dec : bytes -> bytes) (bs : nat) iv data k :
  (forall b, length b = bs -> length (dec b) = bs) ->
  (0 < bs)%nat -> length iv = bs -> length data = (k * bs)%nat ->
  length (cbc_decrypt dec bs iv data) = length data.
Proof.
  intros Hdec Hbs Hiv Hk. unfold cbc_decrypt.
  pose proof (chunks_lengths bs k data Hbs Hk) as Hch.
  rewrite <- (concat_chunks bs data Hbs) at 2.
  revert iv Hiv. induction Hch as [|c bl Hc Hbl IH]; intros iv Hiv; cbn; [reflexivity|].
  rewrite !app_length, (IH c Hc), xor_bytes_length_eq by (rewrite Hdec; congruence).
  rewrite Hdec by exact Hc. congruence.
Qed.
