(* Gokrb5.prim.MD4 — MD4 per RFC 1320. *)
From Gokrb5.lib Require Import Bytes.
From Gokrb5.prim Require Import HashCommon.
Open Scope Z_scope.

Definition md4_st : Type := (Z * Z * Z * Z)%type.

Definition md4_iv : md4_st := (0x67452301, 0xEFCDAB89, 0x98BADCFE, 0x10325476).

(* F(x,y,z) = (x & y) | (~x & z) = z ^ (x & (y ^ z)) *)
Definition md4_F (x y z : Z) : Z := Z.lxor z (Z.land x (Z.lxor y z)).
(* G(x,y,z) = (x & y) | (x & z) | (y & z) = (x & y) | (z & (x | y)) *)
Definition md4_G (x y z : Z) : Z := Z.lor (Z.land x y) (Z.land z (Z.lor x y)).
Definition md4_H (x y z : Z) : Z := Z.lxor x (Z.lxor y z).

Definition md4_C1 : Z := 0.
Definition md4_C2 : Z := 0x5A827999.
Definition md4_C3 : Z := 0x6ED9EBA1.

(* per step: (shift s, message word index k), RFC 1320 section 3.4 rounds 1-3 *)
Definition md4_T1 : list (Z * nat) :=
  [(3, 0%nat); (7, 1%nat); (11, 2%nat); (19, 3%nat);
   (3, 4%nat); (7, 5%nat); (11, 6%nat); (19, 7%nat);
   (3, 8%nat); (7, 9%nat); (11, 10%nat); (19, 11%nat);
   (3, 12%nat); (7, 13%nat); (11, 14%nat); (19, 15%nat)].

Definition md4_T2 : list (Z * nat) :=
  [(3, 0%nat); (5, 4%nat); (9, 8%nat); (13, 12%nat);
   (3, 1%nat); (5, 5%nat); (9, 9%nat); (13, 13%nat);
   (3, 2%nat); (5, 6%nat); (9, 10%nat); (13, 14%nat);
   (3, 3%nat); (5, 7%nat); (9, 11%nat); (13, 15%nat)].

Definition md4_T3 : list (Z * nat) :=
  [(3, 0%nat); (9, 8%nat); (11, 4%nat); (15, 12%nat);
   (3, 2%nat); (9, 10%nat); (11, 6%nat); (15, 14%nat);
   (3, 1%nat); (9, 9%nat); (11, 5%nat); (15, 13%nat);
   (3, 3%nat); (9, 11%nat); (11, 7%nat); (15, 15%nat)].

(* one step [abcd k s]: a = (a + f(b,c,d) + X[k] + C) <<< s, then rotate roles *)
Definition md4_step (f : Z -> Z -> Z -> Z) (cst : Z) (blk : list Z) (st : md4_st) (e : Z * nat) : md4_st :=
  let '(a, b, c, d) := st in
  let '(s, k) := e in
  (d, rotl32 (Z.land (a + f b c d + pick blk k + cst) mask32) s, b, c).

Definition md4_compress (h : md4_st) (blk : list Z) : md4_st :=
  let s1 := fold_left (md4_step md4_F md4_C1 blk) md4_T1 h in
  let s2 := fold_left (md4_step md4_G md4_C2 blk) md4_T2 s1 in
  let s3 := fold_left (md4_step md4_H md4_C3 blk) md4_T3 s2 in
  let '(h0, h1, h2, h3) := h in
  let '(a, b, c, d) := s3 in
  (add32 h0 a, add32 h1 b, add32 h2 c, add32 h3 d).

Definition md4_state (m : bytes) : md4_st :=
  fold_left md4_compress (chunks 16 (le32s (pad64_le m))) md4_iv.

Definition md4 (m : bytes) : bytes :=
  let '(h0, h1, h2, h3) := md4_state m in
  flat_map le32_bytes [h0; h1; h2; h3].

Lemma md4_length : forall m, length (md4 m) = 16%nat.
Proof.
  intros m. unfold md4. destruct (md4_state m) as [[[h0 h1] h2] h3]. reflexivity.
Qed.
