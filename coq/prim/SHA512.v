(* Gokrb5.prim.SHA512 — SHA-512 and SHA-384 per FIPS 180-4 sections 4.1.3, 4.2.3, 5.1.2,
   5.3.4, 5.3.5, 6.4, 6.5.  64-bit words are Z values in [0, 2^64). *)
From Gokrb5.lib Require Import Bytes.
From Gokrb5.prim Require Import HashCommon.
Open Scope Z_scope.

Definition sha512_st : Type := (Z * Z * Z * Z * Z * Z * Z * Z)%type.

Definition sha512_iv : sha512_st :=
  (0x6A09E667F3BCC908, 0xBB67AE8584CAA73B,
   0x3C6EF372FE94F82B, 0xA54FF53A5F1D36F1,
   0x510E527FADE682D1, 0x9B05688C2B3E6C1F,
   0x1F83D9ABFB41BD6B, 0x5BE0CD19137E2179).

Definition sha384_iv : sha512_st :=
  (0xCBBB9D5DC1059ED8, 0x629A292A367CD507,
   0x9159015A3070DD17, 0x152FECD8F70E5939,
   0x67332667FFC00B31, 0x8EB44A8768581511,
   0xDB0C2E0D64F98FA7, 0x47B5481DBEFA4FA4).

Definition sha512_K : list Z :=
  [0x428A2F98D728AE22; 0x7137449123EF65CD;
   0xB5C0FBCFEC4D3B2F; 0xE9B5DBA58189DBBC;
   0x3956C25BF348B538; 0x59F111F1B605D019;
   0x923F82A4AF194F9B; 0xAB1C5ED5DA6D8118;
   0xD807AA98A3030242; 0x12835B0145706FBE;
   0x243185BE4EE4B28C; 0x550C7DC3D5FFB4E2;
   0x72BE5D74F27B896F; 0x80DEB1FE3B1696B1;
   0x9BDC06A725C71235; 0xC19BF174CF692694;
   0xE49B69C19EF14AD2; 0xEFBE4786384F25E3;
   0x0FC19DC68B8CD5B5; 0x240CA1CC77AC9C65;
   0x2DE92C6F592B0275; 0x4A7484AA6EA6E483;
   0x5CB0A9DCBD41FBD4; 0x76F988DA831153B5;
   0x983E5152EE66DFAB; 0xA831C66D2DB43210;
   0xB00327C898FB213F; 0xBF597FC7BEEF0EE4;
   0xC6E00BF33DA88FC2; 0xD5A79147930AA725;
   0x06CA6351E003826F; 0x142929670A0E6E70;
   0x27B70A8546D22FFC; 0x2E1B21385C26C926;
   0x4D2C6DFC5AC42AED; 0x53380D139D95B3DF;
   0x650A73548BAF63DE; 0x766A0ABB3C77B2A8;
   0x81C2C92E47EDAEE6; 0x92722C851482353B;
   0xA2BFE8A14CF10364; 0xA81A664BBC423001;
   0xC24B8B70D0F89791; 0xC76C51A30654BE30;
   0xD192E819D6EF5218; 0xD69906245565A910;
   0xF40E35855771202A; 0x106AA07032BBD1B8;
   0x19A4C116B8D2D0C8; 0x1E376C085141AB53;
   0x2748774CDF8EEB99; 0x34B0BCB5E19B48A8;
   0x391C0CB3C5C95A63; 0x4ED8AA4AE3418ACB;
   0x5B9CCA4F7763E373; 0x682E6FF3D6B2B8A3;
   0x748F82EE5DEFB2FC; 0x78A5636F43172F60;
   0x84C87814A1F0AB72; 0x8CC702081A6439EC;
   0x90BEFFFA23631E28; 0xA4506CEBDE82BDE9;
   0xBEF9A3F7B2C67915; 0xC67178F2E372532B;
   0xCA273ECEEA26619C; 0xD186B8C721C0C207;
   0xEADA7DD6CDE0EB1E; 0xF57D4F7FEE6ED178;
   0x06F067AA72176FBA; 0x0A637DC5A2C898A6;
   0x113F9804BEF90DAE; 0x1B710B35131C471B;
   0x28DB77F523047D84; 0x32CAAB7B40C72493;
   0x3C9EBE0A15C9BEBC; 0x431D67C49C100D4C;
   0x4CC5D4BECB3E42B6; 0x597F299CFC657E2A;
   0x5FCB6FAB3AD6FAEC; 0x6C44198C4A475817].

Definition sha512_ch (x y z : Z) : Z := Z.lxor z (Z.land x (Z.lxor y z)).
Definition sha512_maj (x y z : Z) : Z := Z.lor (Z.land x y) (Z.land z (Z.lor x y)).

Definition sha512_bsig0 (x : Z) : Z := Z.lxor (rotr64 x 28) (Z.lxor (rotr64 x 34) (rotr64 x 39)).
Definition sha512_bsig1 (x : Z) : Z := Z.lxor (rotr64 x 14) (Z.lxor (rotr64 x 18) (rotr64 x 41)).
Definition sha512_ssig0 (x : Z) : Z := Z.lxor (rotr64 x 1) (Z.lxor (rotr64 x 8) (Z.shiftr x 7)).
Definition sha512_ssig1 (x : Z) : Z := Z.lxor (rotr64 x 19) (Z.lxor (rotr64 x 61) (Z.shiftr x 6)).

Fixpoint sha512_sched (n : nat) (w : list Z) : list Z :=
  match n with
  | O => []
  | S n' =>
    match w with
    | w0 :: w1 :: w2 :: w3 :: w4 :: w5 :: w6 :: w7 :: w8 :: w9 :: w10 :: w11 :: w12 :: w13 :: w14 :: w15 :: _ =>
        w0 :: sha512_sched n' [w1; w2; w3; w4; w5; w6; w7; w8; w9; w10; w11; w12; w13; w14; w15;
                               Z.land (sha512_ssig1 w14 + w9 + sha512_ssig0 w1 + w0) mask64]
    | _ => []
    end
  end.

Definition sha512_round (s : sha512_st) (k w : Z) : sha512_st :=
  let '(a, b, c, d, e, f, g, h) := s in
  let t1 := h + sha512_bsig1 e + sha512_ch e f g + k + w in
  let t2 := sha512_bsig0 a + sha512_maj a b c in
  (Z.land (t1 + t2) mask64, a, b, c, Z.land (d + t1) mask64, e, f, g).

Fixpoint sha512_rounds (ks ws : list Z) (s : sha512_st) : sha512_st :=
  match ks, ws with
  | k :: ks', w :: ws' => sha512_rounds ks' ws' (sha512_round s k w)
  | _, _ => s
  end.

Definition sha512_compress (hh : sha512_st) (blk : list Z) : sha512_st :=
  let '(a, b, c, d, e, f, g, h) := sha512_rounds sha512_K (sha512_sched 80 blk) hh in
  let '(h0, h1, h2, h3, h4, h5, h6, h7) := hh in
  (add64 h0 a, add64 h1 b, add64 h2 c, add64 h3 d, add64 h4 e, add64 h5 f, add64 h6 g, add64 h7 h).

Definition sha512_state (iv : sha512_st) (m : bytes) : sha512_st :=
  fold_left sha512_compress (chunks 16 (be64s (pad128_be m))) iv.

Definition sha512 (m : bytes) : bytes :=
  let '(h0, h1, h2, h3, h4, h5, h6, h7) := sha512_state sha512_iv m in
  flat_map be64_bytes [h0; h1; h2; h3; h4; h5; h6; h7].

Definition sha384 (m : bytes) : bytes :=
  let '(h0, h1, h2, h3, h4, h5, _, _) := sha512_state sha384_iv m in
  flat_map be64_bytes [h0; h1; h2; h3; h4; h5].

Lemma sha512_length : forall m, length (sha512 m) = 64%nat.
Proof.
  intros m. unfold sha512.
  destruct (sha512_state sha512_iv m) as [[[[[[[h0 h1] h2] h3] h4] h5] h6] h7]. reflexivity.
Qed.

Lemma sha384_length : forall m, length (sha384 m) = 48%nat.
Proof.
  intros m. unfold sha384.
  destruct (sha512_state sha384_iv m) as [[[[[[[h0 h1] h2] h3] h4] h5] h6] h7]. reflexivity.
Qed.
