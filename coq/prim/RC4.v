(* Gokrb5.prim.RC4 — the RC4 stream cipher (KSA + PRGA), executable.

   The 256-entry state is a list of Z updated functionally.  Indices i, j are Z values reduced
   modulo 256 with Z.land _ 255; list positions are the corresponding nat.
   An empty key is treated as the all-zero key byte stream (Go's crypto/rc4 rejects it). *)
From Gokrb5.lib Require Import Bytes.

(* ---------- one-pass swap ---------- *)

(* replace l[d] by a and return the old l[d]; if d is out of range, l is unchanged and a is returned *)
Fixpoint swap_far (d : nat) (a : Z) (l : list Z) {struct l} : Z * list Z :=
  match l with
  | [] => (a, [])
  | x :: r =>
      match d with
      | O => (x, a :: r)
      | S d' => let '(b, r') := swap_far d' a r in (b, x :: r')
      end
  end.

(* exchange l[lo] and l[lo + d] *)
Fixpoint swap_at (lo d : nat) (l : list Z) {struct l} : list Z :=
  match l with
  | [] => []
  | x :: r =>
      match lo with
      | O =>
          match d with
          | O => l
          | S d' => let '(b, r') := swap_far d' x r in b :: r'
          end
      | S lo' => x :: swap_at lo' d r
      end
  end.

Definition swap (i j : nat) (l : list Z) : list Z :=
  if Nat.leb i j then swap_at i (j - i) l else swap_at j (i - j) l.

(* ---------- key scheduling ---------- *)

Definition init_state : list Z := map Z.of_nat (seq 0 256).

(* i counts up from its initial value; krest is the not yet consumed part of the current
   pass over the key *)
Fixpoint ksa_loop (fuel i : nat) (j : Z) (key krest : bytes) (s : list Z) : list Z :=
  match fuel with
  | O => s
  | S f =>
      let '(kb, krest') :=
        match krest with
        | k :: kr => (k, kr)
        | [] => match key with k :: kr => (k, kr) | [] => (0, []) end
        end in
      let j' := Z.land (j + nth i s 0 + kb) 255 in
      ksa_loop f (S i) j' key krest' (swap i (Z.to_nat j') s)
  end.

Definition rc4_ksa (key : bytes) : list Z := ksa_loop 256 0 0 key key init_state.

(* ---------- output generation, xored into the data ---------- *)

Fixpoint rc4_prga (data : bytes) (i j : Z) (s : list Z) : bytes :=
  match data with
  | [] => []
  | d :: r =>
      let i' := Z.land (i + 1) 255 in
      let ni := Z.to_nat i' in
      let si := nth ni s 0 in
      let j' := Z.land (j + si) 255 in
      let nj := Z.to_nat j' in
      let sj := nth nj s 0 in
      let s' := swap ni nj s in
      let k := nth (Z.to_nat (Z.land (si + sj) 255)) s' 0 in
      Z.lxor d k :: rc4_prga r i' j' s'
  end.

Definition rc4 (key data : bytes) : bytes := rc4_prga data 0 0 (rc4_ksa key).

(* ---------- lemmas ---------- *)

Lemma rc4_prga_length data i j s : length (rc4_prga data i j s) = length data.
Proof.
  revert i j s; induction data as [|d r IH]; intros i j s; cbn [rc4_prga length]; [reflexivity|].
  now rewrite IH.
Qed.

Theorem rc4_length k d : length (rc4 k d) = length d.
Proof. apply rc4_prga_length. Qed.

Lemma swap_far_length d a l : length (snd (swap_far d a l)) = length l.
Proof.
  revert d; induction l as [|x r IH]; intros d; [reflexivity|].
  destruct d as [|d']; cbn [swap_far]; [reflexivity|].
  specialize (IH d'). destruct (swap_far d' a r) as [b r']. cbn in *. now rewrite IH.
Qed.

Lemma swap_at_length lo d l : length (swap_at lo d l) = length l.
Proof.
  revert lo; induction l as [|x r IH]; intros lo; [reflexivity|].
  destruct lo as [|lo']; cbn [swap_at].
  - destruct d as [|d']; [reflexivity|].
    pose proof (swap_far_length d' x r) as H. destruct (swap_far d' x r) as [b r']. cbn in *. now rewrite H.
  - cbn. now rewrite IH.
Qed.

Lemma swap_length i j l : length (swap i j l) = length l.
Proof. unfold swap. destruct (Nat.leb i j); apply swap_at_length. Qed.

Lemma ksa_loop_length fuel i j key krest s :
  length (ksa_loop fuel i j key krest s) = length s.
Proof.
  revert i j krest s; induction fuel as [|f IH]; intros i j krest s; [reflexivity|].
  cbn [ksa_loop].
  destruct (match krest with
            | k :: kr => (k, kr)
            | [] => match key with k :: kr => (k, kr) | [] => (0, []) end
            end) as [kb krest'].
  rewrite IH. apply swap_length.
Qed.

Lemma rc4_ksa_length key : length (rc4_ksa key) = 256%nat.
Proof. unfold rc4_ksa. rewrite ksa_loop_length. reflexivity. Qed.

(* swap on a sample: both argument orders, equal indices, end points, out-of-range index
   (list unchanged) *)
Example swap_example :
  swap 1 3 [10; 11; 12; 13; 14] = [10; 13; 12; 11; 14] /\
  swap 3 1 [10; 11; 12; 13; 14] = [10; 13; 12; 11; 14] /\
  swap 2 2 [10; 11; 12; 13; 14] = [10; 11; 12; 13; 14] /\
  swap 0 4 [10; 11; 12; 13; 14] = [14; 11; 12; 13; 10] /\
  swap 1 7 [10; 11; 12; 13; 14] = [10; 11; 12; 13; 14].
Proof. repeat split. Qed.

(* RFC 6229, key 0x0102030405, keystream offset 0 *)
Example rc4_rfc6229_40 :
  rc4 [1; 2; 3; 4; 5] (repeatz 0 16)
  = [0xb2;0x39;0x63;0x05;0xf0;0x3d;0xc0;0x27;0xcc;0xc3;0x52;0x4a;0x0a;0x11;0x18;0xa8].
Proof. vm_compute. reflexivity. Qed.
