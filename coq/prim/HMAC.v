(* Gokrb5.prim.HMAC — HMAC per RFC 2104, generic in the hash function and its block size. *)
From Gokrb5.lib Require Import Bytes.
From Gokrb5.prim Require Import HashCommon SHA1 SHA256 SHA512 MD5.
Open Scope Z_scope.

(* RFC 2104 section 2, step (1): keys longer than B bytes are first hashed; the result is
   right-padded with zeros to B bytes. *)
Definition hmac_key (h : bytes -> bytes) (blocksize : nat) (key : bytes) : bytes :=
  let k0 := if Nat.ltb blocksize (length key) then h key else key in
  k0 ++ repeatz 0 (blocksize - length k0).

Definition hmac (h : bytes -> bytes) (blocksize : nat) (key msg : bytes) : bytes :=
  let k := hmac_key h blocksize key in
  h (map (Z.lxor 0x5C) k ++ h (map (Z.lxor 0x36) k ++ msg)).

Definition hmac_sha1 (key msg : bytes) : bytes := hmac sha1 64 key msg.
Definition hmac_sha256 (key msg : bytes) : bytes := hmac sha256 64 key msg.
Definition hmac_sha384 (key msg : bytes) : bytes := hmac sha384 128 key msg.
Definition hmac_sha512 (key msg : bytes) : bytes := hmac sha512 128 key msg.
Definition hmac_md5 (key msg : bytes) : bytes := hmac md5 64 key msg.

Lemma hmac_length (h : bytes -> bytes) (n : nat) (bs : nat) (k m : bytes) :
  (forall m, length (h m) = n) -> length (hmac h bs k m) = n.
Proof. intros H. unfold hmac. apply H. Qed.

Lemma hmac_sha1_length k m : length (hmac_sha1 k m) = 20%nat.
Proof. apply hmac_length, sha1_length. Qed.
Lemma hmac_sha256_length k m : length (hmac_sha256 k m) = 32%nat.
Proof. apply hmac_length, sha256_length. Qed.
Lemma hmac_sha384_length k m : length (hmac_sha384 k m) = 48%nat.
Proof. apply hmac_length, sha384_length. Qed.
Lemma hmac_sha512_length k m : length (hmac_sha512 k m) = 64%nat.
Proof. apply hmac_length, sha512_length. Qed.
Lemma hmac_md5_length k m : length (hmac_md5 k m) = 16%nat.
Proof. apply hmac_length, md5_length. Qed.
