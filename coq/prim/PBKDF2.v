(* Gokrb5.prim.PBKDF2 — PBKDF2 per RFC 8018 section 5.2, generic in the PRF. *)
From Gokrb5.lib Require Import Bytes.
From Gokrb5.prim Require Import HashCommon HMAC.
Open Scope Z_scope.

Fixpoint xor_bytes (a b : bytes) : bytes :=
  match a, b with
  | x :: a', y :: b' => Z.lxor x y :: xor_bytes a' b'
  | _, _ => []
  end.

(* one PRF iteration on the pair (U_j, U_1 xor ... xor U_j) *)
Definition pbkdf2_step (prf : bytes -> bytes -> bytes) (pw : bytes) (s : bytes * bytes) : bytes * bytes :=
  let u' := prf pw (fst s) in (u', xor_bytes (snd s) u').

(* F(P, S, c, i) = U_1 xor U_2 xor ... xor U_c; the c-1 further iterations run on the binary
   representation of c (Z.iter = Pos.iter); c <= 1 yields U_1, like Go's x/crypto/pbkdf2 *)
Definition pbkdf2_F (prf : bytes -> bytes -> bytes) (pw salt : bytes) (iter : Z) (i : Z) : bytes :=
  let u1 := prf pw (salt ++ be_bytes 4 i) in
  snd (Z.iter (iter - 1) (pbkdf2_step prf pw) (u1, u1)).

(* T_i || T_{i+1} || ... (n blocks) *)
Fixpoint pbkdf2_blocks (prf : bytes -> bytes -> bytes) (pw salt : bytes) (iter : Z) (n : nat) (i : Z) : bytes :=
  match n with
  | O => []
  | S n' => pbkdf2_F prf pw salt iter i ++ pbkdf2_blocks prf pw salt iter n' (i + 1)
  end.

Definition pbkdf2 (prf : bytes -> bytes -> bytes) (hlen : nat) (pw salt : bytes) (iter : Z) (dklen : nat) : bytes :=
  let l := ((dklen + hlen - 1) / hlen)%nat in
  firstn dklen (pbkdf2_blocks prf pw salt iter l 1).

Definition pbkdf2_sha1 (pw salt : bytes) (iter : Z) (dklen : nat) : bytes :=
  pbkdf2 hmac_sha1 20 pw salt iter dklen.
Definition pbkdf2_sha256 (pw salt : bytes) (iter : Z) (dklen : nat) : bytes :=
  pbkdf2 hmac_sha256 32 pw salt iter dklen.
Definition pbkdf2_sha384 (pw salt : bytes) (iter : Z) (dklen : nat) : bytes :=
  pbkdf2 hmac_sha384 48 pw salt iter dklen.

(* ---------- output length ---------- *)

Lemma xor_bytes_length a b : length (xor_bytes a b) = Nat.min (length a) (length b).
Proof. revert b; induction a as [|x a IH]; intros [|y b]; cbn; auto. Qed.

Lemma pos_iter_invariant {A} (P : A -> Prop) (f : A -> A) :
  (forall a, P a -> P (f a)) -> forall p a, P a -> P (Pos.iter f a p).
Proof.
  intros Hf. induction p as [p IH|p IH|]; intros a Ha; cbn; auto.
Qed.

Lemma pbkdf2_F_length prf n pw salt iter i :
  (forall k m, length (prf k m) = n) -> length (pbkdf2_F prf pw salt iter i) = n.
Proof.
  intros H. unfold pbkdf2_F.
  set (u1 := prf pw (salt ++ be_bytes 4 i)).
  assert (Hinv : forall s, (length (snd s) = n) -> length (snd (pbkdf2_step prf pw s)) = n).
  { intros [u t] Ht. cbn in *. rewrite xor_bytes_length, H, Ht. apply Nat.min_id. }
  destruct (iter - 1) as [|p|p]; cbn [Z.iter snd]; try apply H.
  apply (pos_iter_invariant (fun s => length (snd s) = n)); [exact Hinv | apply H].
Qed.

Lemma pbkdf2_blocks_length prf n pw salt iter l i :
  (forall k m, length (prf k m) = n) -> length (pbkdf2_blocks prf pw salt iter l i) = (l * n)%nat.
Proof.
  intros H. revert i. induction l as [|l IH]; intros i; cbn [pbkdf2_blocks]; [reflexivity|].
  rewrite app_length, IH, (pbkdf2_F_length prf n) by exact H. reflexivity.
Qed.

Lemma pbkdf2_length prf hlen pw salt iter dklen :
  (forall k m, length (prf k m) = hlen) -> (0 < hlen)%nat ->
  length (pbkdf2 prf hlen pw salt iter dklen) = dklen.
Proof.
  intros H Hpos. unfold pbkdf2.
  rewrite firstn_length, (pbkdf2_blocks_length prf hlen) by exact H.
  apply Nat.min_l.
  pose proof (Nat.div_mod (dklen + hlen - 1) hlen ltac:(lia)) as E.
  pose proof (Nat.mod_upper_bound (dklen + hlen - 1) hlen ltac:(lia)) as B.
  nia.
Qed.

Lemma pbkdf2_sha1_length pw salt iter dklen : length (pbkdf2_sha1 pw salt iter dklen) = dklen.
Proof. apply pbkdf2_length; [intros; apply hmac_sha1_length | lia]. Qed.
Lemma pbkdf2_sha256_length pw salt iter dklen : length (pbkdf2_sha256 pw salt iter dklen) = dklen.
Proof. apply pbkdf2_length; [intros; apply hmac_sha256_length | lia]. Qed.
Lemma pbkdf2_sha384_length pw salt iter dklen : length (pbkdf2_sha384 pw salt iter dklen) = dklen.
Proof. apply pbkdf2_length; [intros; apply hmac_sha384_length | lia]. Qed.
