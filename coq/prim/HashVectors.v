(* Gokrb5.prim.HashVectors — known-answer tests for the hash primitives, evaluated by the
   kernel (vm_compute).  "pub" vectors come from the cited standards; "gen" vectors were
   produced with Go's standard library (crypto/sha1, crypto/sha256, crypto/sha512,
   crypto/md5, crypto/hmac) and golang.org/x/crypto v0.6.0 (md4, pbkdf2) on pseudo-random
   inputs whose lengths straddle the padding and block boundaries. *)
From Coq Require Import String Ascii.
From Gokrb5.lib Require Import Bytes.
From Gokrb5.prim Require Import SHA1 SHA256 SHA512 MD4 MD5 HMAC PBKDF2.
Open Scope Z_scope.

Definition hexval (c : ascii) : Z :=
  let n := Z.of_N (N_of_ascii c) in
  if (48 <=? n) && (n <=? 57) then n - 48
  else if (97 <=? n) && (n <=? 102) then n - 87
  else if (65 <=? n) && (n <=? 70) then n - 55
  else 0.

(* bytes from a hex string / from the ASCII codes of a string *)
Fixpoint hex (s : string) : bytes :=
  match s with
  | String a (String b r) => (16 * hexval a + hexval b) :: hex r
  | _ => []
  end.
Fixpoint str (s : string) : bytes :=
  match s with
  | String a r => Z.of_N (N_of_ascii a) :: str r
  | EmptyString => []
  end.
Arguments hex s%string.
Arguments str s%string.

(* ================= sha1 ================= *)

(* published: FIPS 180-4 / NIST example *)
Example sha1_pub_1 :
  sha1 (str "abc")
  = hex "a9993e364706816aba3e25717850c26c9cd0d89d".
Proof. vm_compute. reflexivity. Qed.

Example sha1_pub_2 :
  sha1 ([])
  = hex "da39a3ee5e6b4b0d3255bfef95601890afd80709".
Proof. vm_compute. reflexivity. Qed.

Example sha1_pub_3 :
  sha1 (str "abcdbcdecdefdefgefghfghighijhijkijkljklmklmnlmnomnopnopq")
  = hex "84983e441c3bd26ebaae4aa1f95129e5e54670f1".
Proof. vm_compute. reflexivity. Qed.

Example sha1_pub_4 :
  sha1 (str "abcdefghbcdefghicdefghijdefghijkefghijklfghijklmghijklmnhijklmnoijklmnopjklmnopqklmnopqrlmnopqrsmnopqrstnopqrstu")
  = hex "a49b2446a02c645bf419f995b67091253a04a259".
Proof. vm_compute. reflexivity. Qed.

(* generated with Go's standard library (x/crypto for md4): pseudo-random messages *)
Example sha1_gen_len0 :
  sha1 (hex "")
  = hex "da39a3ee5e6b4b0d3255bfef95601890afd80709".
Proof. vm_compute. reflexivity. Qed.

Example sha1_gen_len1 :
  sha1 (hex "c6")
  = hex "8b3291a6208fb6849c641e97ffe5b54c13ac84cb".
Proof. vm_compute. reflexivity. Qed.

Example sha1_gen_len55 :
  sha1 (hex "cb71efea9216f8673aa0bed08a777d4e24aad8981ba1ca8eef2d6fb6353320a18c6ea436a61a4f668a8162d651b5ff7bfef9872e41983c")
  = hex "d04a4228509f63c79f3740d9a344e3f6c766d88b".
Proof. vm_compute. reflexivity. Qed.

Example sha1_gen_len56 :
  sha1 (hex "d15ae353b191c3b6875165c7a4f495992c39ecdea667b88b3cb3a548433b5809ff268d97b7bd74f2919855cec32cc2870d51d4579b8f36bc")
  = hex "fd21be84c2efd76d7f2cec3f4753bb67cdac68ac".
Proof. vm_compute. reflexivity. Qed.

Example sha1_gen_len57 :
  sha1 (hex "d742d6bdcf0d8f05d4030cbebe71aee534c80023322da6898a38dcdb5143917271dd77f7c85f987f99ae48c636a386921ca82080f48730c12e")
  = hex "5e2486952afa4b568461cc4a08ce1508f21db6fe".
Proof. vm_compute. reflexivity. Qed.

Example sha1_gen_len63 :
  sha1 (hex "dc2aca27ed895a5421b4b2b5d8efc7313c571468bdf39486d7be126d604bcadae4956157d902bc0ca0c53bbea81a4a9d2b006da94e7f2ac5a9956cd2784a52")
  = hex "9c55f8bd21ae88b406d9bd116f2f184def317e6e".
Proof. vm_compute. reflexivity. Qed.

Example sha1_gen_len64 :
  sha1 (hex "e212bd910c0425a36d6659adf26cdf7c44e628ad49b98184254349ff6e530242574c4bb8eaa4e199a7dc2eb61a900da93a57bad2a77624ca24b51b20c8c7fa98")
  = hex "95b8f50089f2448dda34f61aec873b958e212169".
Proof. vm_compute. reflexivity. Qed.

Example sha1_gen_len65 :
  sha1 (hex "e7fab1fb2a80f1f2ba1700a40be9f8c84c763cf2d47f6f8172c980917c5b3baac9043418fb470526aff321ae8d07d1b449ae06fb016e1ecf9ed5c96f1944a1d5c1")
  = hex "e1e7f3f125a70b9504b1b2626fa955552f0d5325".
Proof. vm_compute. reflexivity. Qed.

Example sha1_gen_len111 :
  sha1 (hex "ede2a56548fbbc4007c9a69b256611145405503760455d7fc04fb6238a6273123cbb1e780cea29b2b60a14a5ff7e94bf580653245a6619d419f578bd69c14813a51c8c5b98d29101884a5b719057bbf5b97e95ed9ef3380f6594ccc070a240cb150533ef214ac21821bc3b388f4821")
  = hex "b3e84c3b77644fcbde32674bc31e6feb119c6e46".
Proof. vm_compute. reflexivity. Qed.

Example sha1_gen_len112 :
  sha1 (hex "f2ca98cf6777888f547b4d923fe32a5f5c94647deb0b4b7c0dd4edb6986aac7baf7308d91d8c4e3fbe21079d72f558ca675d9f4db45d13d99415260bb93def50889ae6e935a6a0800ddf7bce6e6d412d2e12472d7fa491738576f08c30693871179ef0dd59fa23c8c4ea379cd425eaec")
  = hex "3df7f4ff2ebf85961dd2d3aba7a31d40ab4821b0".
Proof. vm_compute. reflexivity. Qed.

Example sha1_gen_len119 :
  sha1 (hex "f8b28c3985f253dea12cf489596042ab642378c277d1387a5b5a2348a672e4e3212af2392e2f72ccc538fa95e46c1bd676b5ec760e550ddd0f36d45a0aba978e6c183f77d37bb0fe92749b2a4c82c765a3a5f96c6056ead7a4581458f02f30171a37acca90aa8479661733011901b3ce06c2c25b04dad1")
  = hex "e569f6c819291d99b4ce06146a3c225fd4b37c29".
Proof. vm_compute. reflexivity. Qed.

Example sha1_gen_len120 :
  sha1 (hex "fe9a7fa3a36e1f2deede9a8073dd5bf76db28c0702972677a8df5adab47a1d4b94e2db993fd19659cc4fed8d57e2dfe1850c38a0674c07e2895683a85a373ecb50969805704fbf7d170abb872a984e9d1738aaab4107433bc43a3824aff528bd1ccf69b8c75ae52909442e665dde7db1d12aa8e602b5589b")
  = hex "4c35279a3265ac11e2c06213086cbea514f3c249".
Proof. vm_compute. reflexivity. Qed.

Example sha1_gen_len127 :
  sha1 (hex "0382730cc2e9ea7c3a8f41778d5a74427541a04c8e5d1475f565916cc28255b30799c5fa5074bae5d466e185c959a2ec946385c9c14401e7047631f6aab4e5093414f1930d24cefb9c9fdbe408aed4d68ccc5ceb23b99c9fe41d5bf16fbc20631f6825a5fe0b46d9ac712acaa2bb46949b928d700090dfca987284c1f1005e")
  = hex "68bc340cbca662a24d98a273c4072f8ede54bbab".
Proof. vm_compute. reflexivity. Qed.

Example sha1_gen_len128 :
  sha1 (hex "096a6676e065b6cb8741e86ea6d78c8e7dd0b4911a23027243ebc7fed08a8e1b7951af5a6116df72db7dd47d3bd066f7a3bbd1f21a3cfbec7f96e045fb308c4617924a22abf8de7a2134fa41e7c35a0e005f0d2a046bf50304ff7fbd2e8218092100e29335bba8894f9e262fe7970f7666fa73fafe6b66f99a0712129cb09ae5")
  = hex "1001b1d1c234a4b9a02680dc7cfcfd6d51391c6a".
Proof. vm_compute. reflexivity. Qed.

Example sha1_gen_len129 :
  sha1 (hex "0e525ae0fee0811ad4f28e66c054a5da855fc8d7a5e9ef6f9070fe91de92c784ec0899ba71b903ffe293c774ae472903b2121e1b7433f5f1fab68e934bad3483fb10a4b048cdedf8a5c91a9ec5d9e04675f2bf6ae51c4e6723e1a389ee4810b023999e806d6b0939f1cc22942c74d95931625985fc46ed289c9ba063485fd51fc0")
  = hex "6ad42afcddc18704562e579f8097edfd3c084fd5".
Proof. vm_compute. reflexivity. Qed.

Example sha1_gen_len200 :
  sha1 (hex "143a4d4a1d5c4c6821a4355ddad1be258deedc1c31afdd6ddef63423ec9affec5fc0821b825c278ceaaaba6c20beed0ec16a6a44ce2beff574d63ce19b2adbc1df8efd3ee6a1fc772a5e3afba3ee677eea8671a9c6cea7cb43c3c755ad0f085626325b6ea41c6ae994f91df97151a23bfcca3f0ffa2174579e302db4f30f115908ad1ff89e7033789daa2e669c06bc5e2d320acecd64ebd99c862d4e422523cf9f76aebe3bf53f8a80939c5c3b627355f92de9d02687c5631b20e7827181100e4874543563b7985c")
  = hex "426ff80d2a16754860ef4131a958dcfb5ff48e76".
Proof. vm_compute. reflexivity. Qed.

(* ================= sha256 ================= *)

(* published: FIPS 180-4 / NIST example *)
Example sha256_pub_1 :
  sha256 (str "abc")
  = hex "ba7816bf8f01cfea414140de5dae2223b00361a396177a9cb410ff61f20015ad".
Proof. vm_compute. reflexivity. Qed.

Example sha256_pub_2 :
  sha256 ([])
  = hex "e3b0c44298fc1c149afbf4c8996fb92427ae41e4649b934ca495991b7852b855".
Proof. vm_compute. reflexivity. Qed.

Example sha256_pub_3 :
  sha256 (str "abcdbcdecdefdefgefghfghighijhijkijkljklmklmnlmnomnopnopq")
  = hex "248d6a61d20638b8e5c026930c3e6039a33ce45964ff2167f6ecedd419db06c1".
Proof. vm_compute. reflexivity. Qed.

Example sha256_pub_4 :
  sha256 (str "abcdefghbcdefghicdefghijdefghijkefghijklfghijklmghijklmnhijklmnoijklmnopjklmnopqklmnopqrlmnopqrsmnopqrstnopqrstu")
  = hex "cf5b16a778af8380036ce59e7b0492370b249b11e8f07a51afac45037afee9d1".
Proof. vm_compute. reflexivity. Qed.

(* generated with Go's standard library (x/crypto for md4): pseudo-random messages *)
Example sha256_gen_len0 :
  sha256 (hex "")
  = hex "e3b0c44298fc1c149afbf4c8996fb92427ae41e4649b934ca495991b7852b855".
Proof. vm_compute. reflexivity. Qed.

Example sha256_gen_len1 :
  sha256 (hex "24")
  = hex "09fc96082d34c2dfc1295d92073b5ea1dc8ef8da95f14dfded011ffb96d3e54b".
Proof. vm_compute. reflexivity. Qed.

Example sha256_gen_len55 :
  sha256 (hex "29c02ea34997e9063e5af2e2ba2dc96e7b757ca61d568c97748819ec3758500924c94376e621ac634d644a76b785c44cb34254413e0ba7")
  = hex "b7f6b04dd07309a5492286b3dfe280741a25a6fe539e26b46c640a72586ba4c7".
Proof. vm_compute. reflexivity. Qed.

Example sha256_gen_len56 :
  sha256 (hex "2fa8220d6713b4558b0b99d9d4aae2ba830590eba91c7995c20e507e4560887197802cd7f7c3d1f0557b3d6e2afb8857c299a16a9803a179")
  = hex "74f6ecea3597c5828c174f4bb49842bd284560c3f35a37da8ad1b67c3970f833".
Proof. vm_compute. reflexivity. Qed.

Example sha256_gen_len57 :
  sha256 (hex "34901577858e80a4d8bd3fd0ee27fa058b94a43035e267920f9386105368c1d9093816370866f57c5c9231669c724b62d1f1ed93f1fa9b7d16")
  = hex "c6c5f1d4ab8a13f5dbcd84437779112d585361651bd5461e4b9de98ad0da0ab1".
Proof. vm_compute. reflexivity. Qed.

Example sha256_gen_len63 :
  sha256 (hex "3a7909e1a40a4bf3256fe6c708a413519323b875c0a855905d19bda26170f9427cef00971909190964a9245e0ee90f6ee0483abc4bf2958290b9ac0839c1fb")
  = hex "2b9466db41698fdbf7678ad9ab8f28002df15ea9a881d8bfdebbbb5959e8a286".
Proof. vm_compute. reflexivity. Qed.

Example sha256_gen_len64 :
  sha256 (hex "3f61fc4bc285174172208dbe21212c9d9bb2ccba4c6e438daa9ff3346f7832aaefa7eaf82aab3e966bc017558160d279efa086e5a5e990870bd95b568a3ea299")
  = hex "1c25589a4316e08f70b2f1e8248a848f2fd222808f93e5d107ca78fdb0fbffcc".
Proof. vm_compute. reflexivity. Qed.

Example sha256_gen_len65 :
  sha256 (hex "4549f0b5e001e290bfd233b63b9e44e8a341e000d734318bf8242ac77d806a12615ed3583b4e622372d70a4df3d79684fef7d30efee18a8c86f909a4dabb49d7ad")
  = hex "313c7a19b65dd53b0bafee46f5ca8381c91f71149fa440c6da85a5d738856ce3".
Proof. vm_compute. reflexivity. Qed.

Example sha256_gen_len111 :
  sha256 (hex "4b31e31fff7caedf0b83daad551b5d34abd0f44563fa1e8845aa61598b87a37ad416bdb84cf086b07aeefd45664d59900d4e203758d984900119b7f32a38f0149186406a89d28dd44abf45152c3d98dfd998567497b0bf232f49d4231c910e8df3427d813f09adb2430adfe357b271")
  = hex "a277bfd9d11790db652ec48bccb488d07998269d40c07f0d6c402afb8fb56a93".
Proof. vm_compute. reflexivity. Qed.

Example sha256_gen_len112 :
  sha256 (hex "5019d7891df8792e583581a46f987680b45f088aeec00c86922f97eb998fdce247cda7195d93aa3c8105f03dd8c41d9b1ca66c60b1d07e957b3a66417bb49852740399f826a79c53cf5464720b531e174e2b08b3786218874f2bf7efdc570633f5db3a6e76b90e62e637db479c8f3af3")
  = hex "f1b15d58a16f407f5c5ee15bfd4223a6e33b1cd1dc6e2404dd92923dd81f2f6e".
Proof. vm_compute. reflexivity. Qed.

Example sha256_gen_len119 :
  sha256 (hex "5601caf23b73447da5e6279b89158fccbcee1ccf7a86fa83e0b5ce7da797144bba8591796e36cfc9881ce3354b3be0a62bfdb9890bc8789af65a148fcb313f8f5881f387c47bacd153e984cfe968a44fc2bebaf3591371eb6f0d1bbb9b1dfed9f873f65cad6a70128965d6ace16b03d561014f6d8fff42")
  = hex "a8a1ee995c381cec615a6132544f7fdd6be645cd8032fd3d03424d446d125dbb".
Proof. vm_compute. reflexivity. Qed.

Example sha256_gen_len120 :
  sha256 (hex "5be9be5c5aef10ccf298ce92a392a717c47d3014054ce8812d3a040fb69f4db32c3c7ad97fd8f3569032d62dbdb2a4b13a5505b365c0729f717ac3de1baee6cd3cff4c156150bb50d87ea42cc77e2a8837526b323ac5ca4f8eef3f875be3f67ffa0cb349e41ad1c22c92d2112648cdb82b6935f78ddac963")
  = hex "25adef9ad1536539856c1d34f53ac8ef57353bddc044bb22b76baa2f44f806d9".
Proof. vm_compute. reflexivity. Qed.

Example sha256_gen_len127 :
  sha256 (hex "61d1b1c6786bdb1b3f4a7589bc0fc063cc0c44599113d57e7bc03ba1c4a7851b9ff4643a907b17e39749c9242f2968bd49ac52dcbeb76ca4ec9a712c6c2b8d0a207da5a3fe24cace5d13c489a593b1c0ace51d711c7623b3aed263531baaee25fca46f371bca3273cebfce756b25969af6d11b818bb650922ba13345e73bfc")
  = hex "b61f6929392499084a55b13856269da063745ed93385b73d2efb1c400e26cc6d".
Proof. vm_compute. reflexivity. Qed.

Example sha256_gen_len128 :
  sha256 (hex "67b9a53097e6a76a8bfb1b80d68cd9afd49c589f1cd9c37cc8467234d2afbe8312ab4e9aa11d3c6f9f60bc1ca29f2bc858039e0518af66a866ba1f7abca7354703fbfe319cf9da4de2a8e4e684a937f82078ceb1fd287c17ceb4871fda70e6cbff3d2c24537b932371ecc9dab0015f7dc139000c8991d7c12d35c19692eb3866")
  = hex "d62a032cee946daba1581f6726ac51e22d090c56025ef7d637e5ac4a30b14670".
Proof. vm_compute. reflexivity. Qed.

Example sha256_gen_len129 :
  sha256 (hex "6ca1999ab56272b8d8adc277f00af1fadc2b6ce4a89fb17916cba8c6e0b7f6eb846338fab2c060fca677af141416efd3675beb2e71a661ade1dacec90c24dc85e77957bf39cde9cb673d044362bfbd30950c80f0ded9d57bee96abeb9a36de7101d6e9128a2bf4d31419c53ff4de29608ba1e696876c5ef02fca4fe73e9a73a033")
  = hex "61217e9d93532faf851facdbf7e5a87e0e21593f87f06ac46198cc89f23b4f4f".
Proof. vm_compute. reflexivity. Qed.

Example sha256_gen_len200 :
  sha256 (hex "72898c04d3dd3e07255e686f0a870a46e4ba802933659f776351df58eebe2f54f71a215bc3628489ad8ea20c878db2de76b23757cb9e5bb25cfb7c175da183c2cbf7b14dd6a2f84aebd224a040d443690a9f3230bf8b2edf0d78cfb759fdd617046ea5ffc1db5683b647c1a339bbf2425609cc208647e51f315fdc38e94aafda7bc2cea73985fcc1297a3221fa52179ed86cc8a99620f3ecc3b8903296b5b868cf295f8ff846eee6a37013b98e603081cf394b606d996d0f0501b7cd6d1dc0f062cdee16befdd627")
  = hex "a433c98d2a16053315c84bc83c662180f3f0f1d0732745de3decc551ec08a00f".
Proof. vm_compute. reflexivity. Qed.

(* ================= sha384 ================= *)

(* published: FIPS 180-4 / NIST example *)
Example sha384_pub_1 :
  sha384 (str "abc")
  = hex "cb00753f45a35e8bb5a03d699ac65007272c32ab0eded1631a8b605a43ff5bed8086072ba1e7cc2358baeca134c825a7".
Proof. vm_compute. reflexivity. Qed.

Example sha384_pub_2 :
  sha384 ([])
  = hex "38b060a751ac96384cd9327eb1b1e36a21fdb71114be07434c0cc7bf63f6e1da274edebfe76f65fbd51ad2f14898b95b".
Proof. vm_compute. reflexivity. Qed.

Example sha384_pub_3 :
  sha384 (str "abcdbcdecdefdefgefghfghighijhijkijkljklmklmnlmnomnopnopq")
  = hex "3391fdddfc8dc7393707a65b1b4709397cf8b1d162af05abfe8f450de5f36bc6b0455a8520bc4e6f5fe95b1fe3c8452b".
Proof. vm_compute. reflexivity. Qed.

Example sha384_pub_4 :
  sha384 (str "abcdefghbcdefghicdefghijdefghijkefghijklfghijklmghijklmnhijklmnoijklmnopjklmnopqklmnopqrlmnopqrsmnopqrstnopqrstu")
  = hex "09330c33f71147e83d192fc782cd1b4753111b173b3b05d22fa08086e3b0f712fcc7c71a557e2db966c3e9fa91746039".
Proof. vm_compute. reflexivity. Qed.

(* generated with Go's standard library (x/crypto for md4): pseudo-random messages *)
Example sha384_gen_len0 :
  sha384 (hex "")
  = hex "38b060a751ac96384cd9327eb1b1e36a21fdb71114be07434c0cc7bf63f6e1da274edebfe76f65fbd51ad2f14898b95b".
Proof. vm_compute. reflexivity. Qed.

Example sha384_gen_len1 :
  sha384 (hex "24")
  = hex "b1583f4b2e1bf53fc31e9dfb8e8d945a62955da709f280a9066aa8f31ef688d65e0e9816a5f1f11363b3898820bd1576".
Proof. vm_compute. reflexivity. Qed.

Example sha384_gen_len55 :
  sha384 (hex "29c02ea34997e9063e5af2e2ba2dc96e7b757ca61d568c97748819ec3758500924c94376e621ac634d644a76b785c44cb34254413e0ba7")
  = hex "d3fc57bbc610cb56818bd44e9a134f414686e87e79a91a7b5996c5ba15877e8adf7b39f2ee3fcbff249361376d02890f".
Proof. vm_compute. reflexivity. Qed.

Example sha384_gen_len56 :
  sha384 (hex "2fa8220d6713b4558b0b99d9d4aae2ba830590eba91c7995c20e507e4560887197802cd7f7c3d1f0557b3d6e2afb8857c299a16a9803a179")
  = hex "4570baed7550dac54cc09401854d723fb93a5d8bc708b563e04787e5dcb8c29cea66e52b26e952dbf3853f7895bde76a".
Proof. vm_compute. reflexivity. Qed.

Example sha384_gen_len57 :
  sha384 (hex "34901577858e80a4d8bd3fd0ee27fa058b94a43035e267920f9386105368c1d9093816370866f57c5c9231669c724b62d1f1ed93f1fa9b7d16")
  = hex "af6937e333a0cd20d3dfe84bb25f598a46941b770fdff6de3d9c9947bab3e6bc47bd567110896a9ec14993354693bcca".
Proof. vm_compute. reflexivity. Qed.

Example sha384_gen_len63 :
  sha384 (hex "3a7909e1a40a4bf3256fe6c708a413519323b875c0a855905d19bda26170f9427cef00971909190964a9245e0ee90f6ee0483abc4bf2958290b9ac0839c1fb")
  = hex "702e62ae92174c07a339538d0df5b00639b9879863cbc1319e479cc2b6285dc486348dd0b3ce284a6de730571b608733".
Proof. vm_compute. reflexivity. Qed.

Example sha384_gen_len64 :
  sha384 (hex "3f61fc4bc285174172208dbe21212c9d9bb2ccba4c6e438daa9ff3346f7832aaefa7eaf82aab3e966bc017558160d279efa086e5a5e990870bd95b568a3ea299")
  = hex "6ef9b7bfe0310ca97dd1a8b3c26b84c3f78401971ff3e53753510bba8d59b5a111c6f0ef4c7ed740ed418f95b19de2d4".
Proof. vm_compute. reflexivity. Qed.

Example sha384_gen_len65 :
  sha384 (hex "4549f0b5e001e290bfd233b63b9e44e8a341e000d734318bf8242ac77d806a12615ed3583b4e622372d70a4df3d79684fef7d30efee18a8c86f909a4dabb49d7ad")
  = hex "1b343f5326036bca6656d250a39c6fe56a1aa71017d613873dd1b8cbc22789c4f95ba34281495991d75643df4257702c".
Proof. vm_compute. reflexivity. Qed.

Example sha384_gen_len111 :
  sha384 (hex "4b31e31fff7caedf0b83daad551b5d34abd0f44563fa1e8845aa61598b87a37ad416bdb84cf086b07aeefd45664d59900d4e203758d984900119b7f32a38f0149186406a89d28dd44abf45152c3d98dfd998567497b0bf232f49d4231c910e8df3427d813f09adb2430adfe357b271")
  = hex "ffe4c006b073ba9bdc02cc1f398f87795d439c3a920463662dce9e38dac4fb1d0ae97f85b0e085fa83230bbb68f5932e".
Proof. vm_compute. reflexivity. Qed.

Example sha384_gen_len112 :
  sha384 (hex "5019d7891df8792e583581a46f987680b45f088aeec00c86922f97eb998fdce247cda7195d93aa3c8105f03dd8c41d9b1ca66c60b1d07e957b3a66417bb49852740399f826a79c53cf5464720b531e174e2b08b3786218874f2bf7efdc570633f5db3a6e76b90e62e637db479c8f3af3")
  = hex "96ce1a2092fef65c8827412c5cbdc6c650c7ddb35b62f13b81406711a480c787d306996829c1d75deed34771da35dab3".
Proof. vm_compute. reflexivity. Qed.

Example sha384_gen_len119 :
  sha384 (hex "5601caf23b73447da5e6279b89158fccbcee1ccf7a86fa83e0b5ce7da797144bba8591796e36cfc9881ce3354b3be0a62bfdb9890bc8789af65a148fcb313f8f5881f387c47bacd153e984cfe968a44fc2bebaf3591371eb6f0d1bbb9b1dfed9f873f65cad6a70128965d6ace16b03d561014f6d8fff42")
  = hex "e2d6d120f075b87acae29a9b16541eb181c55436530f2a95ab55d07e21734ce16fe0ffa511162f076b842ff817a396de".
Proof. vm_compute. reflexivity. Qed.

Example sha384_gen_len120 :
  sha384 (hex "5be9be5c5aef10ccf298ce92a392a717c47d3014054ce8812d3a040fb69f4db32c3c7ad97fd8f3569032d62dbdb2a4b13a5505b365c0729f717ac3de1baee6cd3cff4c156150bb50d87ea42cc77e2a8837526b323ac5ca4f8eef3f875be3f67ffa0cb349e41ad1c22c92d2112648cdb82b6935f78ddac963")
  = hex "8c02366445636dbffff6c57f3a4ca3c0839123d5d0d80b3ba3c745988ff66dc22bc671233db5cf7d3ab687a709a502df".
Proof. vm_compute. reflexivity. Qed.

Example sha384_gen_len127 :
  sha384 (hex "61d1b1c6786bdb1b3f4a7589bc0fc063cc0c44599113d57e7bc03ba1c4a7851b9ff4643a907b17e39749c9242f2968bd49ac52dcbeb76ca4ec9a712c6c2b8d0a207da5a3fe24cace5d13c489a593b1c0ace51d711c7623b3aed263531baaee25fca46f371bca3273cebfce756b25969af6d11b818bb650922ba13345e73bfc")
  = hex "db77a22999b274a09983ea321f57f8f50a808ac4592c117bd989c41e4db71417fb9454ab96cf3edff3cb843d50ed8113".
Proof. vm_compute. reflexivity. Qed.

Example sha384_gen_len128 :
  sha384 (hex "67b9a53097e6a76a8bfb1b80d68cd9afd49c589f1cd9c37cc8467234d2afbe8312ab4e9aa11d3c6f9f60bc1ca29f2bc858039e0518af66a866ba1f7abca7354703fbfe319cf9da4de2a8e4e684a937f82078ceb1fd287c17ceb4871fda70e6cbff3d2c24537b932371ecc9dab0015f7dc139000c8991d7c12d35c19692eb3866")
  = hex "97f1e4e60092697a8d877626fca9caccc4cc26ede8a106e371cfd023cf71816fe20573287f36dbce2430c6793ae4dd4a".
Proof. vm_compute. reflexivity. Qed.

Example sha384_gen_len129 :
  sha384 (hex "6ca1999ab56272b8d8adc277f00af1fadc2b6ce4a89fb17916cba8c6e0b7f6eb846338fab2c060fca677af141416efd3675beb2e71a661ade1dacec90c24dc85e77957bf39cde9cb673d044362bfbd30950c80f0ded9d57bee96abeb9a36de7101d6e9128a2bf4d31419c53ff4de29608ba1e696876c5ef02fca4fe73e9a73a033")
  = hex "f5b1c4d100fba5323150f8289b05bb9cfa2254c5a5f33e24f3962d21f84ecc0bbde71e387b84ff9501d00afa947d1f56".
Proof. vm_compute. reflexivity. Qed.

Example sha384_gen_len200 :
  sha384 (hex "72898c04d3dd3e07255e686f0a870a46e4ba802933659f776351df58eebe2f54f71a215bc3628489ad8ea20c878db2de76b23757cb9e5bb25cfb7c175da183c2cbf7b14dd6a2f84aebd224a040d443690a9f3230bf8b2edf0d78cfb759fdd617046ea5ffc1db5683b647c1a339bbf2425609cc208647e51f315fdc38e94aafda7bc2cea73985fcc1297a3221fa52179ed86cc8a99620f3ecc3b8903296b5b868cf295f8ff846eee6a37013b98e603081cf394b606d996d0f0501b7cd6d1dc0f062cdee16befdd627")
  = hex "c9bda28628022cc1da6c177d3f8934498a98c8051a3333068b67de85fdfa2c5f2587976c241cdd43ec7c4c9d85d5ffcc".
Proof. vm_compute. reflexivity. Qed.

(* ================= sha512 ================= *)

(* published: FIPS 180-4 / NIST example *)
Example sha512_pub_1 :
  sha512 (str "abc")
  = hex "ddaf35a193617abacc417349ae20413112e6fa4e89a97ea20a9eeee64b55d39a2192992a274fc1a836ba3c23a3feebbd454d4423643ce80e2a9ac94fa54ca49f".
Proof. vm_compute. reflexivity. Qed.

Example sha512_pub_2 :
  sha512 ([])
  = hex "cf83e1357eefb8bdf1542850d66d8007d620e4050b5715dc83f4a921d36ce9ce47d0d13c5d85f2b0ff8318d2877eec2f63b931bd47417a81a538327af927da3e".
Proof. vm_compute. reflexivity. Qed.

Example sha512_pub_3 :
  sha512 (str "abcdbcdecdefdefgefghfghighijhijkijkljklmklmnlmnomnopnopq")
  = hex "204a8fc6dda82f0a0ced7beb8e08a41657c16ef468b228a8279be331a703c33596fd15c13b1b07f9aa1d3bea57789ca031ad85c7a71dd70354ec631238ca3445".
Proof. vm_compute. reflexivity. Qed.

Example sha512_pub_4 :
  sha512 (str "abcdefghbcdefghicdefghijdefghijkefghijklfghijklmghijklmnhijklmnoijklmnopjklmnopqklmnopqrlmnopqrsmnopqrstnopqrstu")
  = hex "8e959b75dae313da8cf4f72814fc143f8f7779c6eb9f7fa17299aeadb6889018501d289e4900f7e4331b99dec4b5433ac7d329eeb6dd26545e96e55b874be909".
Proof. vm_compute. reflexivity. Qed.

(* generated with Go's standard library (x/crypto for md4): pseudo-random messages *)
Example sha512_gen_len0 :
  sha512 (hex "")
  = hex "cf83e1357eefb8bdf1542850d66d8007d620e4050b5715dc83f4a921d36ce9ce47d0d13c5d85f2b0ff8318d2877eec2f63b931bd47417a81a538327af927da3e".
Proof. vm_compute. reflexivity. Qed.

Example sha512_gen_len1 :
  sha512 (hex "24")
  = hex "840cfc6285878464c36c9aa819d8373729eda14c3e701fd37afec1d5baa2893944c696fc4017a520abfbb1347b62e6b858211d3ea7c7dd26319601fde119c3b4".
Proof. vm_compute. reflexivity. Qed.

Example sha512_gen_len55 :
  sha512 (hex "29c02ea34997e9063e5af2e2ba2dc96e7b757ca61d568c97748819ec3758500924c94376e621ac634d644a76b785c44cb34254413e0ba7")
  = hex "39e536a10a61cbbf31020c404edc951acbde2a1d0b8440fd8220b0bfacd8843bf1d755da83f61cad4f9c290f30f95a0e8f347edf19fd39853f0f02a8d9562e87".
Proof. vm_compute. reflexivity. Qed.

Example sha512_gen_len56 :
  sha512 (hex "2fa8220d6713b4558b0b99d9d4aae2ba830590eba91c7995c20e507e4560887197802cd7f7c3d1f0557b3d6e2afb8857c299a16a9803a179")
  = hex "9492bcf3d3ae4be3ffeeaa67f65ab75f121809b6d25ea5fc5d8fae5b561ccfb7268a2c4a28722ad34ee247c924df429ec523e28b6b9a66bae3fc10568cd884ca".
Proof. vm_compute. reflexivity. Qed.

Example sha512_gen_len57 :
  sha512 (hex "34901577858e80a4d8bd3fd0ee27fa058b94a43035e267920f9386105368c1d9093816370866f57c5c9231669c724b62d1f1ed93f1fa9b7d16")
  = hex "4be7a03cacefcef6e0256a3923d79be285154a596605656503993c3e781bb26c618e8e27c04e64cbe7ce7fb67ca853b30f2d97e0d82c5c171f3958571a174d85".
Proof. vm_compute. reflexivity. Qed.

Example sha512_gen_len63 :
  sha512 (hex "3a7909e1a40a4bf3256fe6c708a413519323b875c0a855905d19bda26170f9427cef00971909190964a9245e0ee90f6ee0483abc4bf2958290b9ac0839c1fb")
  = hex "6b9583788184dbe20c7115a959139644b96c099884c44958cd7289898ba6011480fc0c1f4e7cc4b4eb571f594697be5af9abd237cb92758f849d0d9d26605408".
Proof. vm_compute. reflexivity. Qed.

Example sha512_gen_len64 :
  sha512 (hex "3f61fc4bc285174172208dbe21212c9d9bb2ccba4c6e438daa9ff3346f7832aaefa7eaf82aab3e966bc017558160d279efa086e5a5e990870bd95b568a3ea299")
  = hex "1a445af9f4997ec4ed36739120c00253f4bd8d43489bb66e597a7fc5cd40a883212d0304768e31885b9d73ef62d27ed7c84be55aa6b5504332d723a502ca36c3".
Proof. vm_compute. reflexivity. Qed.

Example sha512_gen_len65 :
  sha512 (hex "4549f0b5e001e290bfd233b63b9e44e8a341e000d734318bf8242ac77d806a12615ed3583b4e622372d70a4df3d79684fef7d30efee18a8c86f909a4dabb49d7ad")
  = hex "2460cf3e05c40083207673dee560d9253d37f56c9d59d8edfbeb202918876b5927abc31d20e89091690d72dc7167fa44e8c06603c88dc1c49cdd8d03fd3bd1bf".
Proof. vm_compute. reflexivity. Qed.

Example sha512_gen_len111 :
  sha512 (hex "4b31e31fff7caedf0b83daad551b5d34abd0f44563fa1e8845aa61598b87a37ad416bdb84cf086b07aeefd45664d59900d4e203758d984900119b7f32a38f0149186406a89d28dd44abf45152c3d98dfd998567497b0bf232f49d4231c910e8df3427d813f09adb2430adfe357b271")
  = hex "444e8fdbbad428e8c178d5453ac25221c6e1cb0a55db75f2a99bfc3f75268300792308976433251a2fff8ae51184878803b23a3cfc8fea536456ec942132f3dd".
Proof. vm_compute. reflexivity. Qed.

Example sha512_gen_len112 :
  sha512 (hex "5019d7891df8792e583581a46f987680b45f088aeec00c86922f97eb998fdce247cda7195d93aa3c8105f03dd8c41d9b1ca66c60b1d07e957b3a66417bb49852740399f826a79c53cf5464720b531e174e2b08b3786218874f2bf7efdc570633f5db3a6e76b90e62e637db479c8f3af3")
  = hex "d646a872e0a26e0741b4ee22b1d54ac4eef23560d4a2689c06c1f39e04a4ba57c2f6c1005eb4ed0ac14395fc1c349e6086829e8ec44bcf1eb0096f01c8460471".
Proof. vm_compute. reflexivity. Qed.

Example sha512_gen_len119 :
  sha512 (hex "5601caf23b73447da5e6279b89158fccbcee1ccf7a86fa83e0b5ce7da797144bba8591796e36cfc9881ce3354b3be0a62bfdb9890bc8789af65a148fcb313f8f5881f387c47bacd153e984cfe968a44fc2bebaf3591371eb6f0d1bbb9b1dfed9f873f65cad6a70128965d6ace16b03d561014f6d8fff42")
  = hex "475eb3e044ceaddaa8803fc18cc9d95e17c8e1413004c471fa0987eef0e9698c6d7c266abfb1c333378e061ad914cbdaf2c7323579c8e2d339c3052265fc044f".
Proof. vm_compute. reflexivity. Qed.

Example sha512_gen_len120 :
  sha512 (hex "5be9be5c5aef10ccf298ce92a392a717c47d3014054ce8812d3a040fb69f4db32c3c7ad97fd8f3569032d62dbdb2a4b13a5505b365c0729f717ac3de1baee6cd3cff4c156150bb50d87ea42cc77e2a8837526b323ac5ca4f8eef3f875be3f67ffa0cb349e41ad1c22c92d2112648cdb82b6935f78ddac963")
  = hex "69326dca9dc9e6601896b260c99dfc4947ba8ccd57e1c86f75b29ec2126ab264d31fa5b9abfe6c9aa6ac057b8010e2e0d1a9526caf609a3f5cbfbb8151042c4c".
Proof. vm_compute. reflexivity. Qed.

Example sha512_gen_len127 :
  sha512 (hex "61d1b1c6786bdb1b3f4a7589bc0fc063cc0c44599113d57e7bc03ba1c4a7851b9ff4643a907b17e39749c9242f2968bd49ac52dcbeb76ca4ec9a712c6c2b8d0a207da5a3fe24cace5d13c489a593b1c0ace51d711c7623b3aed263531baaee25fca46f371bca3273cebfce756b25969af6d11b818bb650922ba13345e73bfc")
  = hex "ff45bd32519b795297c906aa3521a6da8b189c7d630770969abecea7361cfa942904729cdd6f13b8a2e42568c85a2a49474411cf399f315eef3658465d2704b9".
Proof. vm_compute. reflexivity. Qed.

Example sha512_gen_len128 :
  sha512 (hex "67b9a53097e6a76a8bfb1b80d68cd9afd49c589f1cd9c37cc8467234d2afbe8312ab4e9aa11d3c6f9f60bc1ca29f2bc858039e0518af66a866ba1f7abca7354703fbfe319cf9da4de2a8e4e684a937f82078ceb1fd287c17ceb4871fda70e6cbff3d2c24537b932371ecc9dab0015f7dc139000c8991d7c12d35c19692eb3866")
  = hex "5c6e46349109f241bd99d131ca66a2a2a0de46df3a8a1aebeebf6180e70ebb00121b8598afdea94355bef23c22afb68e9bfc605be99d88ea123c65d96ca2d9dd".
Proof. vm_compute. reflexivity. Qed.

Example sha512_gen_len129 :
  sha512 (hex "6ca1999ab56272b8d8adc277f00af1fadc2b6ce4a89fb17916cba8c6e0b7f6eb846338fab2c060fca677af141416efd3675beb2e71a661ade1dacec90c24dc85e77957bf39cde9cb673d044362bfbd30950c80f0ded9d57bee96abeb9a36de7101d6e9128a2bf4d31419c53ff4de29608ba1e696876c5ef02fca4fe73e9a73a033")
  = hex "6b8d464bac9265a7bf6b95c2b3d8263af10b24759f13a21bfe6c47ad9888ca78bc121b7891741b353c5d699533d334ed35ac9d0eebf90d1adef76132fc242c1b".
Proof. vm_compute. reflexivity. Qed.

Example sha512_gen_len200 :
  sha512 (hex "72898c04d3dd3e07255e686f0a870a46e4ba802933659f776351df58eebe2f54f71a215bc3628489ad8ea20c878db2de76b23757cb9e5bb25cfb7c175da183c2cbf7b14dd6a2f84aebd224a040d443690a9f3230bf8b2edf0d78cfb759fdd617046ea5ffc1db5683b647c1a339bbf2425609cc208647e51f315fdc38e94aafda7bc2cea73985fcc1297a3221fa52179ed86cc8a99620f3ecc3b8903296b5b868cf295f8ff846eee6a37013b98e603081cf394b606d996d0f0501b7cd6d1dc0f062cdee16befdd627")
  = hex "4e7a2dd38906d3321a0b972ec340a29f9dd86de6695191b3a67413edbf08dbfd12549272e3c783c4353e9cf7435db72d92417592840aebc7d84440d4aff32887".
Proof. vm_compute. reflexivity. Qed.

(* ================= md4 ================= *)

(* published: RFC 1320 A.5 *)
Example md4_pub_1 :
  md4 ([])
  = hex "31d6cfe0d16ae931b73c59d7e0c089c0".
Proof. vm_compute. reflexivity. Qed.

Example md4_pub_2 :
  md4 (str "a")
  = hex "bde52cb31de33e46245e05fbdbd6fb24".
Proof. vm_compute. reflexivity. Qed.

Example md4_pub_3 :
  md4 (str "abc")
  = hex "a448017aaf21d8525fc10ae87aa6729d".
Proof. vm_compute. reflexivity. Qed.

Example md4_pub_4 :
  md4 (str "message digest")
  = hex "d9130a8164549fe818874806e1c7014b".
Proof. vm_compute. reflexivity. Qed.

Example md4_pub_5 :
  md4 (str "abcdefghijklmnopqrstuvwxyz")
  = hex "d79e1c308aa5bbcdeea8ed63df412da9".
Proof. vm_compute. reflexivity. Qed.

Example md4_pub_6 :
  md4 (str "ABCDEFGHIJKLMNOPQRSTUVWXYZabcdefghijklmnopqrstuvwxyz0123456789")
  = hex "043f8582f241db351ce627e153e7f0e4".
Proof. vm_compute. reflexivity. Qed.

Example md4_pub_7 :
  md4 (str "12345678901234567890123456789012345678901234567890123456789012345678901234567890")
  = hex "e33b4ddc9c38f2199c3e7b164fcc0536".
Proof. vm_compute. reflexivity. Qed.

(* generated with Go's standard library (x/crypto for md4): pseudo-random messages *)
Example md4_gen_len0 :
  md4 (hex "")
  = hex "31d6cfe0d16ae931b73c59d7e0c089c0".
Proof. vm_compute. reflexivity. Qed.

Example md4_gen_len1 :
  md4 (hex "97")
  = hex "574716578072dc3223e8819c0a9c9d03".
Proof. vm_compute. reflexivity. Qed.

Example md4_gen_len55 :
  md4 (hex "9dcad08db7d57f983843a447729dd6bdf8c406929946e989ac00199cb52108edc0c1549606972167a88f6d079e4d9c1323d5a12542de86")
  = hex "f37540925cc7e8584d9bbad61f3c66a9".
Proof. vm_compute. reflexivity. Qed.

Example md4_gen_len56 :
  md4 (hex "a2b2c3f6d5514be785f44b3e8c1aef0900531ad7250cd786fa85502ec329415632793ef7173945f4afa661ff10c4601e322ced4e9cd680de")
  = hex "31638b3ff1e52384fa4d23280e7c52c5".
Proof. vm_compute. reflexivity. Qed.

Example md4_gen_len57 :
  md4 (hex "a89ab760f4cc1636d2a6f235a697085508e32e1cb0d2c584470b87c0d13179bea530285728dc6a81b7bd54f6823b232a41843a77f5ce7ae23b")
  = hex "db1fc04d515c7866e15fb1d32f599ade".
Proof. vm_compute. reflexivity. Qed.

Example md4_gen_len63 :
  md4 (hex "ad82abca1248e1841f57982cc01421a0107242613c98b3819490bd52df38b22618e811b7397e8e0dbed447eef5b2e73550db87a04fc574e7b5034d37178ffe")
  = hex "82b3fb5b489adbc2ec95ff4503f77f5b".
Proof. vm_compute. reflexivity. Qed.

Example md4_gen_len64 :
  md4 (hex "b36a9e3430c3add36b093f24da9139ec180156a6c75ea17fe216f4e4ed40ea8e8a9ffb184a21b29ac6ea3ae66729aa405f33d3c9a9bd6fec3023fb86680ca597")
  = hex "600364f34835ab75be1585c1970fa33b".
Proof. vm_compute. reflexivity. Qed.

Example md4_gen_len65 :
  md4 (hex "b852929e4f3f7822b8bae61bf30e523821906aec53248e7c2f9c2a77fb4823f6fd57e5785bc4d627cd012ddeda9f6e4c6e8a20f202b469f1ab43a9d4b8884dd5cb")
  = hex "721ea93a8c16597d2b73c612ff2354df".
Proof. vm_compute. reflexivity. Qed.

Example md4_gen_len111 :
  md4 (hex "be3b85086dba4471056c8c120d8b6b83291f7e31deea7c7a7d21610909505b5f700ecfd86c66fbb4d41820d64c1632577de16c1b5cac63f5266358220805f412afe7b3d320d19398a810e61ec1e44d0029f2352aa19474050039c80f9b2b59ea26678e26936acc4b9016eae2ab1379")
  = hex "d9dd911bfca37f753419249cf123b361".
Proof. vm_compute. reflexivity. Qed.

Example md4_gen_len112 :
  md4 (hex "c42379728b360fc0521e3309270883cf31ae92766ab06a77caa7989b175894c7e2c6b8397d091f41dc2f13cebf8df5628c39b944b5a45dfaa083067159829b4f92650c61bda6a2162da5067b9ffad3389e85e7698245cd69201becdb5af2519028004b14ca1a2dfc3243e547eff04268")
  = hex "4dd9835d7c7933e266d8c5c61eb3c4db".
Proof. vm_compute. reflexivity. Qed.

Example md4_gen_len119 :
  md4 (hex "c90b6cdcaab2db0f9fcfda0041859c1b393da6bbf5765875182cce2d2560cc2f557da2998dab43cde34606c53104b96d9b90056d0f9b57ff1ba4b5bfa9ff428d76e365ef5a7ab295b13a26d87d0f5970131898a963f726cd3ffe10a71ab849362b98070101ca8eacd570e1ac34cc0b4bd922fb53be4718")
  = hex "ff28ee753f98712c9a4e3105b4433e3e".
Proof. vm_compute. reflexivity. Qed.

Example md4_gen_len120 :
  md4 (hex "cff36046c82da65eeb8180f75b02b56741ccba00813c457265b205bf33680597c8348cf99e4e685aea5df9bda37b7c79aae852966993510496c4630df97beaca5a61be7ef84fc11336cf46355c25dfa887ac4ae845a97f315fe03473d97e41dc2d31c4ef387bef5c789ddd1079a9d52ea38ae1ddbc229f37")
  = hex "da8be7f5aa86a7190a232f75f45f8bf6".
Proof. vm_compute. reflexivity. Qed.

Example md4_gen_len127 :
  md4 (hex "d4db53afe6a972ac383227ee757fceb2495bce460d023370b3373b5141703eff3bec765aaff08ce7f274ecb516f14084b93f9ebfc28a4b0911e4115c4af891083edf170c9523d092bb6466923a3b66e1fc3ffb27265ad8957fc2583f9945398330ca80dd702b510c1bcad875be869e106ef2c767bafd2666ce5a2dfff6620f")
  = hex "1aea8896579535646f2f8f34af6b2371".
Proof. vm_compute. reflexivity. Qed.

Example md4_gen_len128 :
  md4 (hex "dac3471905243dfb85e4cee58efce6fe51eae28b98c8216d00bd72e450777668ada35fbac093b074f98bdfad8868038fc896ebe81c82460d8b04c0aa9a753845215d719a32f8e01040f986ef1850ec1971d2ad67070c31f99fa47b0b580b312932623dcaa7dbb2bcbdf7d4da036268f3395aadf2b8d8ad95d0efbb50a2124b24")
  = hex "82c82809931c91f6419c8e1f048a2475".
Proof. vm_compute. reflexivity. Qed.

Example md4_gen_len129 :
  md4 (hex "e0ab3a8323a0084ad29574dda879ff4a597af6d0248e0f6b4e43a9765e7fafd0205b491ad136d50001a2d2a5fbdfc79bd7ee3711757a401206246ef8eaf2df8305dbca28d0ccef8fc58ea64cf6667251e5665fa6e8bd8a5dbe869fd718d129cf34fbf9b8de8c136c6025d03e483f31d504c2937cb6b434c4d28448a14dc2875f86")
  = hex "39c76902b3a986d687593439a8312e9c".
Proof. vm_compute. reflexivity. Qed.

Example md4_gen_len200 :
  md4 (hex "e5932eed421bd4991f471bd4c2f6189561090a15af54fc689bc8df086c87e7389312337be2d8f98d08b9c69d6d568aa6e645843acf713a1781441d473b6e87c0e95923b66da1fe0d4924c5a9d57bf8895af910e6ca6fe3c1de69c3a3d89821753793b6a5153c741c0352cba38d1cfab8ce2a7806b58fbbf3d419d6f3f971c299cf2347a151e5cf53d7c1ac09eddf8ebf57152ae0e98667d009ec7bdc185ed983079cd656dc4c67dcefa4612d1262153e0e273809037d720da62fffdc73b3399d3bc807c5b6947877")
  = hex "ceee3ead8128d8c4a18976f9fbd611f1".
Proof. vm_compute. reflexivity. Qed.

(* ================= md5 ================= *)

(* published: RFC 1321 A.5 *)
Example md5_pub_1 :
  md5 ([])
  = hex "d41d8cd98f00b204e9800998ecf8427e".
Proof. vm_compute. reflexivity. Qed.

Example md5_pub_2 :
  md5 (str "a")
  = hex "0cc175b9c0f1b6a831c399e269772661".
Proof. vm_compute. reflexivity. Qed.

Example md5_pub_3 :
  md5 (str "abc")
  = hex "900150983cd24fb0d6963f7d28e17f72".
Proof. vm_compute. reflexivity. Qed.

Example md5_pub_4 :
  md5 (str "message digest")
  = hex "f96b697d7cb7938d525a2f31aaf161d0".
Proof. vm_compute. reflexivity. Qed.

Example md5_pub_5 :
  md5 (str "abcdefghijklmnopqrstuvwxyz")
  = hex "c3fcd3d76192e4007dfb496cca67e13b".
Proof. vm_compute. reflexivity. Qed.

Example md5_pub_6 :
  md5 (str "ABCDEFGHIJKLMNOPQRSTUVWXYZabcdefghijklmnopqrstuvwxyz0123456789")
  = hex "d174ab98d277d9f5a5611c2c9f419d9f".
Proof. vm_compute. reflexivity. Qed.

Example md5_pub_7 :
  md5 (str "12345678901234567890123456789012345678901234567890123456789012345678901234567890")
  = hex "57edf4a22be3c955ac49da2e2107b67a".
Proof. vm_compute. reflexivity. Qed.

(* generated with Go's standard library (x/crypto for md4): pseudo-random messages *)
Example md5_gen_len0 :
  md5 (hex "")
  = hex "d41d8cd98f00b204e9800998ecf8427e".
Proof. vm_compute. reflexivity. Qed.

Example md5_gen_len1 :
  md5 (hex "97")
  = hex "c444b580079efb1fe408f17f029e5d35".
Proof. vm_compute. reflexivity. Qed.

Example md5_gen_len55 :
  md5 (hex "9dcad08db7d57f983843a447729dd6bdf8c406929946e989ac00199cb52108edc0c1549606972167a88f6d079e4d9c1323d5a12542de86")
  = hex "5b5bf57954809b3cf48e3596a95fe706".
Proof. vm_compute. reflexivity. Qed.

Example md5_gen_len56 :
  md5 (hex "a2b2c3f6d5514be785f44b3e8c1aef0900531ad7250cd786fa85502ec329415632793ef7173945f4afa661ff10c4601e322ced4e9cd680de")
  = hex "42fd49aabd1f4a8b5b80ccf8167c9ca8".
Proof. vm_compute. reflexivity. Qed.

Example md5_gen_len57 :
  md5 (hex "a89ab760f4cc1636d2a6f235a697085508e32e1cb0d2c584470b87c0d13179bea530285728dc6a81b7bd54f6823b232a41843a77f5ce7ae23b")
  = hex "5dc1c1486b64578b0084d5fb291ea8d3".
Proof. vm_compute. reflexivity. Qed.

Example md5_gen_len63 :
  md5 (hex "ad82abca1248e1841f57982cc01421a0107242613c98b3819490bd52df38b22618e811b7397e8e0dbed447eef5b2e73550db87a04fc574e7b5034d37178ffe")
  = hex "e51afe35236d85ca97ca7b92689ecda4".
Proof. vm_compute. reflexivity. Qed.

Example md5_gen_len64 :
  md5 (hex "b36a9e3430c3add36b093f24da9139ec180156a6c75ea17fe216f4e4ed40ea8e8a9ffb184a21b29ac6ea3ae66729aa405f33d3c9a9bd6fec3023fb86680ca597")
  = hex "f550fb72a620c8d84fc0ef4a34834fdb".
Proof. vm_compute. reflexivity. Qed.

Example md5_gen_len65 :
  md5 (hex "b852929e4f3f7822b8bae61bf30e523821906aec53248e7c2f9c2a77fb4823f6fd57e5785bc4d627cd012ddeda9f6e4c6e8a20f202b469f1ab43a9d4b8884dd5cb")
  = hex "b661672ae42d0d68b5d509ae435247fc".
Proof. vm_compute. reflexivity. Qed.

Example md5_gen_len111 :
  md5 (hex "be3b85086dba4471056c8c120d8b6b83291f7e31deea7c7a7d21610909505b5f700ecfd86c66fbb4d41820d64c1632577de16c1b5cac63f5266358220805f412afe7b3d320d19398a810e61ec1e44d0029f2352aa19474050039c80f9b2b59ea26678e26936acc4b9016eae2ab1379")
  = hex "660decb1a349ad4b0ca0e0ab6b23f552".
Proof. vm_compute. reflexivity. Qed.

Example md5_gen_len112 :
  md5 (hex "c42379728b360fc0521e3309270883cf31ae92766ab06a77caa7989b175894c7e2c6b8397d091f41dc2f13cebf8df5628c39b944b5a45dfaa083067159829b4f92650c61bda6a2162da5067b9ffad3389e85e7698245cd69201becdb5af2519028004b14ca1a2dfc3243e547eff04268")
  = hex "7c9246498430527d7b7818ce69c14981".
Proof. vm_compute. reflexivity. Qed.

Example md5_gen_len119 :
  md5 (hex "c90b6cdcaab2db0f9fcfda0041859c1b393da6bbf5765875182cce2d2560cc2f557da2998dab43cde34606c53104b96d9b90056d0f9b57ff1ba4b5bfa9ff428d76e365ef5a7ab295b13a26d87d0f5970131898a963f726cd3ffe10a71ab849362b98070101ca8eacd570e1ac34cc0b4bd922fb53be4718")
  = hex "c8af766beb1a50edd2d72bd0747d5c5f".
Proof. vm_compute. reflexivity. Qed.

Example md5_gen_len120 :
  md5 (hex "cff36046c82da65eeb8180f75b02b56741ccba00813c457265b205bf33680597c8348cf99e4e685aea5df9bda37b7c79aae852966993510496c4630df97beaca5a61be7ef84fc11336cf46355c25dfa887ac4ae845a97f315fe03473d97e41dc2d31c4ef387bef5c789ddd1079a9d52ea38ae1ddbc229f37")
  = hex "6af324ca4e05f7ca8bb1400c6f127814".
Proof. vm_compute. reflexivity. Qed.

Example md5_gen_len127 :
  md5 (hex "d4db53afe6a972ac383227ee757fceb2495bce460d023370b3373b5141703eff3bec765aaff08ce7f274ecb516f14084b93f9ebfc28a4b0911e4115c4af891083edf170c9523d092bb6466923a3b66e1fc3ffb27265ad8957fc2583f9945398330ca80dd702b510c1bcad875be869e106ef2c767bafd2666ce5a2dfff6620f")
  = hex "10ab40e48c2933cedc4c8481ff85a089".
Proof. vm_compute. reflexivity. Qed.

Example md5_gen_len128 :
  md5 (hex "dac3471905243dfb85e4cee58efce6fe51eae28b98c8216d00bd72e450777668ada35fbac093b074f98bdfad8868038fc896ebe81c82460d8b04c0aa9a753845215d719a32f8e01040f986ef1850ec1971d2ad67070c31f99fa47b0b580b312932623dcaa7dbb2bcbdf7d4da036268f3395aadf2b8d8ad95d0efbb50a2124b24")
  = hex "268538602453cc1f29d192706bda0ca0".
Proof. vm_compute. reflexivity. Qed.

Example md5_gen_len129 :
  md5 (hex "e0ab3a8323a0084ad29574dda879ff4a597af6d0248e0f6b4e43a9765e7fafd0205b491ad136d50001a2d2a5fbdfc79bd7ee3711757a401206246ef8eaf2df8305dbca28d0ccef8fc58ea64cf6667251e5665fa6e8bd8a5dbe869fd718d129cf34fbf9b8de8c136c6025d03e483f31d504c2937cb6b434c4d28448a14dc2875f86")
  = hex "24d08a8f7c41eb61c876c173e50b59de".
Proof. vm_compute. reflexivity. Qed.

Example md5_gen_len200 :
  md5 (hex "e5932eed421bd4991f471bd4c2f6189561090a15af54fc689bc8df086c87e7389312337be2d8f98d08b9c69d6d568aa6e645843acf713a1781441d473b6e87c0e95923b66da1fe0d4924c5a9d57bf8895af910e6ca6fe3c1de69c3a3d89821753793b6a5153c741c0352cba38d1cfab8ce2a7806b58fbbf3d419d6f3f971c299cf2347a151e5cf53d7c1ac09eddf8ebf57152ae0e98667d009ec7bdc185ed983079cd656dc4c67dcefa4612d1262153e0e273809037d720da62fffdc73b3399d3bc807c5b6947877")
  = hex "b2d84f58e3900807f43817b6d96a4a9d".
Proof. vm_compute. reflexivity. Qed.

(* ================= hmac_md5 ================= *)

(* published: RFC 2202 section 2 *)
Example hmac_md5_pub_1 :
  hmac_md5 (hex "0b0b0b0b0b0b0b0b0b0b0b0b0b0b0b0b")
    (str "Hi There")
  = hex "9294727a3638bb1c13f48ef8158bfc9d".
Proof. vm_compute. reflexivity. Qed.

Example hmac_md5_pub_2 :
  hmac_md5 (str "Jefe")
    (str "what do ya want for nothing?")
  = hex "750c783e6ab0b503eaa86e310a5db738".
Proof. vm_compute. reflexivity. Qed.

Example hmac_md5_pub_3 :
  hmac_md5 (hex "aaaaaaaaaaaaaaaaaaaaaaaaaaaaaaaa")
    (hex "dddddddddddddddddddddddddddddddddddddddddddddddddddddddddddddddddddddddddddddddddddddddddddddddddddd")
  = hex "56be34521d144c88dbb8c733f0e8b3f6".
Proof. vm_compute. reflexivity. Qed.

Example hmac_md5_pub_4 :
  hmac_md5 (hex "0102030405060708090a0b0c0d0e0f10111213141516171819")
    (hex "cdcdcdcdcdcdcdcdcdcdcdcdcdcdcdcdcdcdcdcdcdcdcdcdcdcdcdcdcdcdcdcdcdcdcdcdcdcdcdcdcdcdcdcdcdcdcdcdcdcd")
  = hex "697eaf0aca3a3aea3a75164746ffaa79".
Proof. vm_compute. reflexivity. Qed.

Example hmac_md5_pub_5 :
  hmac_md5 (hex "0c0c0c0c0c0c0c0c0c0c0c0c0c0c0c0c")
    (str "Test With Truncation")
  = hex "56461ef2342edc00f9bab995690efd4c".
Proof. vm_compute. reflexivity. Qed.

Example hmac_md5_pub_6 :
  hmac_md5 (hex "aaaaaaaaaaaaaaaaaaaaaaaaaaaaaaaaaaaaaaaaaaaaaaaaaaaaaaaaaaaaaaaaaaaaaaaaaaaaaaaaaaaaaaaaaaaaaaaaaaaaaaaaaaaaaaaaaaaaaaaaaaaaaaaaaaaaaaaaaaaaaaaaaaaaaaaaaaaaaaaa")
    (str "Test Using Larger Than Block-Size Key - Hash Key First")
  = hex "6b1ab7fe4bd7bf8f0b62e6ce61b9d0cd".
Proof. vm_compute. reflexivity. Qed.

Example hmac_md5_pub_7 :
  hmac_md5 (hex "aaaaaaaaaaaaaaaaaaaaaaaaaaaaaaaaaaaaaaaaaaaaaaaaaaaaaaaaaaaaaaaaaaaaaaaaaaaaaaaaaaaaaaaaaaaaaaaaaaaaaaaaaaaaaaaaaaaaaaaaaaaaaaaaaaaaaaaaaaaaaaaaaaaaaaaaaaaaaaaa")
    (str "Test Using Larger Than Block-Size Key and Larger Than One Block-Size Data")
  = hex "6f630fad67cda0ee1fb1f562db3aa53e".
Proof. vm_compute. reflexivity. Qed.

(* generated with Go's crypto/hmac: key lengths below / at / above the block size *)
Example hmac_md5_gen_k0_m0 :
  hmac_md5 ([])
    ([])
  = hex "74e6f7298a9c2d168935f58c001bad88".
Proof. vm_compute. reflexivity. Qed.

Example hmac_md5_gen_k0_m64 :
  hmac_md5 ([])
    (hex "ec1176715778a8230faf3710f288befa260dad71194432c4d3b8ae85c0a19b8956b7d39941087e42e96c33898a5d09643251a03752e561c8c477815665ef81d7")
  = hex "319268d71d41fc27d5da18f600199782".
Proof. vm_compute. reflexivity. Qed.

Example hmac_md5_gen_k0_m200 :
  hmac_md5 ([])
    (hex "fcc951afb2eb0a10f6c42bf53fff08dd3ebae941bc96fbbcbc49513beab945c2aedd90ba74f0ebe9ffb10c71e1c253865f5785b35fcc50d634d78d41566576905b5c412ccfd1ce92b06d67c5ac08c69873bec69faf078605758ae09a4cb980bc127ef00c56686507053a3eeb70c3588f065ac20f5772796933131783f639c427565fbce74fb23809efbda5de2f8a532e13792390b75ad9e21a8a1039b00df6f3200058cbb4cea01b52ffc5a0219556790c4c2534e4342c17c76abeff0cff2086db440d4d3203cb85")
  = hex "b5eb39207dbf8009e0cf27f681f877f0".
Proof. vm_compute. reflexivity. Qed.

Example hmac_md5_gen_k1_m55 :
  hmac_md5 (hex "0c")
    (hex "e628830739fdddd4c3fe9118d80ba5af1e7e992c8e7e44c6863277f2b2996321e3ffe939306559b5e1553f9217e7455923f9530ef9ee67")
  = hex "99a747cb25535812fed843a481d8f972".
Proof. vm_compute. reflexivity. Qed.

Example hmac_md5_gen_k1_m128 :
  hmac_md5 (hex "0c")
    (hex "f7e15d45946f3fc1a91285fe2682ef92362bd5fc30d00dbf6ec31ba9dcb10c5a3b26a75a634dc65cf89a19796f4b907b5000398a06d556d1bab7def205e8cf5277dee89e32fdbe132bd84768cef24060ff2b155fce562da155a7bcce8df388160fe5331f1fb80457630d42862be78ead3bf2dc845997f23a317e8a324b8a88ed")
  = hex "e0bf83eccd16c0ffdd47c77d0165ffba".
Proof. vm_compute. reflexivity. Qed.

Example hmac_md5_gen_k16_m1 :
  hmac_md5 (hex "119e4866a87627baad5b8ebfe980270c")
    (hex "e0")
  = hex "457bf44790e1e6457041bd056a835867".
Proof. vm_compute. reflexivity. Qed.

Example hmac_md5_gen_k16_m111 :
  hmac_md5 (hex "119e4866a87627baad5b8ebfe980270c")
    (hex "f1f96adb76f474725c61de070c05d6462e9cc1b6a50a20c1213ee417cea9d4f1c96ebdf952aaa2cff0832681fcd4cc7041a8ec60acdd5bcc3f9730a4b56c281593608f109428af95a643270bf0ddba278a986320eca4d43d35c59802cd2d90700d4d7731e808a3a7c0e04622e60ac5")
  = hex "592318d0fd2824e803b7672b0ce6b213".
Proof. vm_compute. reflexivity. Qed.

Example hmac_md5_gen_k63_m0 :
  hmac_md5 (hex "17873cd0c7f2f209fa0c35b602fd40587214782f0bb86a9438f1597ab8e9ac825df2b859ffe6ad5017faa76c8a502f52a6e69fd85fa649183fc242499e9c37")
    ([])
  = hex "c2966365a52694e56668ee6e5414aa42".
Proof. vm_compute. reflexivity. Qed.

Example hmac_md5_gen_k63_m64 :
  hmac_md5 (hex "17873cd0c7f2f209fa0c35b602fd40587214782f0bb86a9438f1597ab8e9ac825df2b859ffe6ad5017faa76c8a502f52a6e69fd85fa649183fc242499e9c37")
    (hex "ec1176715778a8230faf3710f288befa260dad71194432c4d3b8ae85c0a19b8956b7d39941087e42e96c33898a5d09643251a03752e561c8c477815665ef81d7")
  = hex "6cf9f1de785c1a5ce8cbaf71fb19ecce".
Proof. vm_compute. reflexivity. Qed.

Example hmac_md5_gen_k63_m200 :
  hmac_md5 (hex "17873cd0c7f2f209fa0c35b602fd40587214782f0bb86a9438f1597ab8e9ac825df2b859ffe6ad5017faa76c8a502f52a6e69fd85fa649183fc242499e9c37")
    (hex "fcc951afb2eb0a10f6c42bf53fff08dd3ebae941bc96fbbcbc49513beab945c2aedd90ba74f0ebe9ffb10c71e1c253865f5785b35fcc50d634d78d41566576905b5c412ccfd1ce92b06d67c5ac08c69873bec69faf078605758ae09a4cb980bc127ef00c56686507053a3eeb70c3588f065ac20f5772796933131783f639c427565fbce74fb23809efbda5de2f8a532e13792390b75ad9e21a8a1039b00df6f3200058cbb4cea01b52ffc5a0219556790c4c2534e4342c17c76abeff0cff2086db440d4d3203cb85")
  = hex "97f9d098f8733cee2f3fc29c30f05862".
Proof. vm_compute. reflexivity. Qed.

Example hmac_md5_gen_k64_m55 :
  hmac_md5 (hex "1c6f2f3ae56dbe5847bedcad1c7a59a47aa38d74977e58918676900cc7f1e5ebcfa9a2b91088d1dd1e119a63fcc7f25db53dec02b99d431dbae2f197ee19de0d")
    (hex "e628830739fdddd4c3fe9118d80ba5af1e7e992c8e7e44c6863277f2b2996321e3ffe939306559b5e1553f9217e7455923f9530ef9ee67")
  = hex "6cb88a57500ee187d1814acd99784db0".
Proof. vm_compute. reflexivity. Qed.

Example hmac_md5_gen_k64_m128 :
  hmac_md5 (hex "1c6f2f3ae56dbe5847bedcad1c7a59a47aa38d74977e58918676900cc7f1e5ebcfa9a2b91088d1dd1e119a63fcc7f25db53dec02b99d431dbae2f197ee19de0d")
    (hex "f7e15d45946f3fc1a91285fe2682ef92362bd5fc30d00dbf6ec31ba9dcb10c5a3b26a75a634dc65cf89a19796f4b907b5000398a06d556d1bab7def205e8cf5277dee89e32fdbe132bd84768cef24060ff2b155fce562da155a7bcce8df388160fe5331f1fb80457630d42862be78ead3bf2dc845997f23a317e8a324b8a88ed")
  = hex "a55218a45e270d19b12c0c5e3126dd72".
Proof. vm_compute. reflexivity. Qed.

Example hmac_md5_gen_k64_m200 :
  hmac_md5 (hex "1c6f2f3ae56dbe5847bedcad1c7a59a47aa38d74977e58918676900cc7f1e5ebcfa9a2b91088d1dd1e119a63fcc7f25db53dec02b99d431dbae2f197ee19de0d")
    (hex "fcc951afb2eb0a10f6c42bf53fff08dd3ebae941bc96fbbcbc49513beab945c2aedd90ba74f0ebe9ffb10c71e1c253865f5785b35fcc50d634d78d41566576905b5c412ccfd1ce92b06d67c5ac08c69873bec69faf078605758ae09a4cb980bc127ef00c56686507053a3eeb70c3588f065ac20f5772796933131783f639c427565fbce74fb23809efbda5de2f8a532e13792390b75ad9e21a8a1039b00df6f3200058cbb4cea01b52ffc5a0219556790c4c2534e4342c17c76abeff0cff2086db440d4d3203cb85")
  = hex "a95a5ac7e6f9111c9f18089f9bb878fc".
Proof. vm_compute. reflexivity. Qed.

Example hmac_md5_gen_k65_m1 :
  hmac_md5 (hex "225723a404e989a7946f82a436f771ef8232a1b92244468fd3fcc79ed5f91d5342618c1a212bf66a26288e5b6f3eb669c495382b13953d2235039fe63f95854bdb")
    (hex "e0")
  = hex "24b2ae52ef7145befe67fa23ee60f1ce".
Proof. vm_compute. reflexivity. Qed.

Example hmac_md5_gen_k65_m111 :
  hmac_md5 (hex "225723a404e989a7946f82a436f771ef8232a1b92244468fd3fcc79ed5f91d5342618c1a212bf66a26288e5b6f3eb669c495382b13953d2235039fe63f95854bdb")
    (hex "f1f96adb76f474725c61de070c05d6462e9cc1b6a50a20c1213ee417cea9d4f1c96ebdf952aaa2cff0832681fcd4cc7041a8ec60acdd5bcc3f9730a4b56c281593608f109428af95a643270bf0ddba278a986320eca4d43d35c59802cd2d90700d4d7731e808a3a7c0e04622e60ac5")
  = hex "8086f52e10a486ee3e8c428e6d7251be".
Proof. vm_compute. reflexivity. Qed.

Example hmac_md5_gen_k100_m0 :
  hmac_md5 (hex "283f160e226455f6e121299b50748a3b8ac1b5feae0a348c2181fd31e30056bbb518767a32ce1af72d3f8153e1b57974d3ec85546c8d3727b0234d348f122d88bf4cbfde1bcee172e926d78d9c8a7705d53f02fdd154e3a28200baaff1137af4bd4f7d35")
    ([])
  = hex "d6ff43dee386fe23115cb6f1929bf625".
Proof. vm_compute. reflexivity. Qed.

Example hmac_md5_gen_k100_m64 :
  hmac_md5 (hex "283f160e226455f6e121299b50748a3b8ac1b5feae0a348c2181fd31e30056bbb518767a32ce1af72d3f8153e1b57974d3ec85546c8d3727b0234d348f122d88bf4cbfde1bcee172e926d78d9c8a7705d53f02fdd154e3a28200baaff1137af4bd4f7d35")
    (hex "ec1176715778a8230faf3710f288befa260dad71194432c4d3b8ae85c0a19b8956b7d39941087e42e96c33898a5d09643251a03752e561c8c477815665ef81d7")
  = hex "8c8c006ca83118b86a265036ddc2ac85".
Proof. vm_compute. reflexivity. Qed.

Example hmac_md5_gen_k100_m200 :
  hmac_md5 (hex "283f160e226455f6e121299b50748a3b8ac1b5feae0a348c2181fd31e30056bbb518767a32ce1af72d3f8153e1b57974d3ec85546c8d3727b0234d348f122d88bf4cbfde1bcee172e926d78d9c8a7705d53f02fdd154e3a28200baaff1137af4bd4f7d35")
    (hex "fcc951afb2eb0a10f6c42bf53fff08dd3ebae941bc96fbbcbc49513beab945c2aedd90ba74f0ebe9ffb10c71e1c253865f5785b35fcc50d634d78d41566576905b5c412ccfd1ce92b06d67c5ac08c69873bec69faf078605758ae09a4cb980bc127ef00c56686507053a3eeb70c3588f065ac20f5772796933131783f639c427565fbce74fb23809efbda5de2f8a532e13792390b75ad9e21a8a1039b00df6f3200058cbb4cea01b52ffc5a0219556790c4c2534e4342c17c76abeff0cff2086db440d4d3203cb85")
  = hex "7fecd0f39c6d52a1b1389cc4859b6bdd".
Proof. vm_compute. reflexivity. Qed.

Example hmac_md5_gen_k131_m55 :
  hmac_md5 (hex "2d270a7840e020452ed3d0926af1a3879350c94439d0228a6e0734c3f1088e2327d05fda43703e833455744b542c3d7fe243d17dc684312b2b43fc83df8fd4c5a3ca186cb8a3f1f06ebbf7ea7aa0fd3d49d2b33db2063c06a2e2de7bb1d9729abfe83922fb5b2db6fbe208f9ca8e92500b87e6439c92c8b056bd3a40d5c1ebdc61ec2d")
    (hex "e628830739fdddd4c3fe9118d80ba5af1e7e992c8e7e44c6863277f2b2996321e3ffe939306559b5e1553f9217e7455923f9530ef9ee67")
  = hex "2e2ad48406896e4a791f894e1226a962".
Proof. vm_compute. reflexivity. Qed.

Example hmac_md5_gen_k131_m128 :
  hmac_md5 (hex "2d270a7840e020452ed3d0926af1a3879350c94439d0228a6e0734c3f1088e2327d05fda43703e833455744b542c3d7fe243d17dc684312b2b43fc83df8fd4c5a3ca186cb8a3f1f06ebbf7ea7aa0fd3d49d2b33db2063c06a2e2de7bb1d9729abfe83922fb5b2db6fbe208f9ca8e92500b87e6439c92c8b056bd3a40d5c1ebdc61ec2d")
    (hex "f7e15d45946f3fc1a91285fe2682ef92362bd5fc30d00dbf6ec31ba9dcb10c5a3b26a75a634dc65cf89a19796f4b907b5000398a06d556d1bab7def205e8cf5277dee89e32fdbe132bd84768cef24060ff2b155fce562da155a7bcce8df388160fe5331f1fb80457630d42862be78ead3bf2dc845997f23a317e8a324b8a88ed")
  = hex "91222a1d0b3e9ac8737b9a0e4ce5dcb9".
Proof. vm_compute. reflexivity. Qed.

(* ================= hmac_sha1 ================= *)

(* published: RFC 2202 section 3 *)
Example hmac_sha1_pub_1 :
  hmac_sha1 (hex "0b0b0b0b0b0b0b0b0b0b0b0b0b0b0b0b0b0b0b0b")
    (str "Hi There")
  = hex "b617318655057264e28bc0b6fb378c8ef146be00".
Proof. vm_compute. reflexivity. Qed.

Example hmac_sha1_pub_2 :
  hmac_sha1 (str "Jefe")
    (str "what do ya want for nothing?")
  = hex "effcdf6ae5eb2fa2d27416d5f184df9c259a7c79".
Proof. vm_compute. reflexivity. Qed.

Example hmac_sha1_pub_3 :
  hmac_sha1 (hex "aaaaaaaaaaaaaaaaaaaaaaaaaaaaaaaaaaaaaaaa")
    (hex "dddddddddddddddddddddddddddddddddddddddddddddddddddddddddddddddddddddddddddddddddddddddddddddddddddd")
  = hex "125d7342b9ac11cd91a39af48aa17b4f63f175d3".
Proof. vm_compute. reflexivity. Qed.

Example hmac_sha1_pub_4 :
  hmac_sha1 (hex "0102030405060708090a0b0c0d0e0f10111213141516171819")
    (hex "cdcdcdcdcdcdcdcdcdcdcdcdcdcdcdcdcdcdcdcdcdcdcdcdcdcdcdcdcdcdcdcdcdcdcdcdcdcdcdcdcdcdcdcdcdcdcdcdcdcd")
  = hex "4c9007f4026250c6bc8414f9bf50c86c2d7235da".
Proof. vm_compute. reflexivity. Qed.

Example hmac_sha1_pub_5 :
  hmac_sha1 (hex "0c0c0c0c0c0c0c0c0c0c0c0c0c0c0c0c0c0c0c0c")
    (str "Test With Truncation")
  = hex "4c1a03424b55e07fe7f27be1d58bb9324a9a5a04".
Proof. vm_compute. reflexivity. Qed.

Example hmac_sha1_pub_6 :
  hmac_sha1 (hex "aaaaaaaaaaaaaaaaaaaaaaaaaaaaaaaaaaaaaaaaaaaaaaaaaaaaaaaaaaaaaaaaaaaaaaaaaaaaaaaaaaaaaaaaaaaaaaaaaaaaaaaaaaaaaaaaaaaaaaaaaaaaaaaaaaaaaaaaaaaaaaaaaaaaaaaaaaaaaaaa")
    (str "Test Using Larger Than Block-Size Key - Hash Key First")
  = hex "aa4ae5e15272d00e95705637ce8a3b55ed402112".
Proof. vm_compute. reflexivity. Qed.

Example hmac_sha1_pub_7 :
  hmac_sha1 (hex "aaaaaaaaaaaaaaaaaaaaaaaaaaaaaaaaaaaaaaaaaaaaaaaaaaaaaaaaaaaaaaaaaaaaaaaaaaaaaaaaaaaaaaaaaaaaaaaaaaaaaaaaaaaaaaaaaaaaaaaaaaaaaaaaaaaaaaaaaaaaaaaaaaaaaaaaaaaaaaaa")
    (str "Test Using Larger Than Block-Size Key and Larger Than One Block-Size Data")
  = hex "e8e99d0f45237d786d6bbaa7965c7808bbff1a91".
Proof. vm_compute. reflexivity. Qed.

(* generated with Go's crypto/hmac: key lengths below / at / above the block size *)
Example hmac_sha1_gen_k0_m0 :
  hmac_sha1 ([])
    ([])
  = hex "fbdb1d1b18aa6c08324b7d64b71fb76370690e1d".
Proof. vm_compute. reflexivity. Qed.

Example hmac_sha1_gen_k0_m64 :
  hmac_sha1 ([])
    (hex "f1f96adb76f474725c61de070c05d6462e9cc1b6a50a20c1213ee417cea9d4f1c96ebdf952aaa2cff0832681fcd4cc7041a8ec60acdd5bcc3f9730a4b56c2815")
  = hex "aca38983dc3d4afb9a340cc7e70c6c6d6abe5852".
Proof. vm_compute. reflexivity. Qed.

Example hmac_sha1_gen_k0_m200 :
  hmac_sha1 ([])
    (hex "02b14519d166d65f4376d2ec597c20294649fd86475ce9ba09ce88cdf8c17d2a21957a1a85920f7506c8ff69543917916eaed2dcb9c44adbaff83b8fa6e21ecd3fda9bba6ca6dd10350287228b1d4cd0e85278de90b9df69956c04660c8078631417acfa8d19c7b7a8673a50b5a02172d0c2a899554d009835a7a5d4a1e900619f549a70711777c7fe2d4a3b8d6998598603feac13452a6cd11a436de4a1c9951f0f31452581bc6f997f4f44d2555ab9ab8cfb4b5a1dffc16d2a67da535e8e1c1b3924373be989b3")
  = hex "f3fba4a9253b9a5d316dd6414362fd6e9832348b".
Proof. vm_compute. reflexivity. Qed.

Example hmac_sha1_gen_k1_m55 :
  hmac_sha1 (hex "11")
    (hex "ec1176715778a8230faf3710f288befa260dad71194432c4d3b8ae85c0a19b8956b7d39941087e42e96c33898a5d09643251a03752e561")
  = hex "be8259539a6a9b56a78be37fa8a4a3a744a48d97".
Proof. vm_compute. reflexivity. Qed.

Example hmac_sha1_gen_k1_m128 :
  hmac_sha1 (hex "11")
    (hex "fcc951afb2eb0a10f6c42bf53fff08dd3ebae941bc96fbbcbc49513beab945c2aedd90ba74f0ebe9ffb10c71e1c253865f5785b35fcc50d634d78d41566576905b5c412ccfd1ce92b06d67c5ac08c69873bec69faf078605758ae09a4cb980bc127ef00c56686507053a3eeb70c3588f065ac20f5772796933131783f639c427")
  = hex "8e9a0ddb09ba06ba231294bee88b3b9f3c012afc".
Proof. vm_compute. reflexivity. Qed.

Example hmac_sha1_gen_k16_m1 :
  hmac_sha1 (hex "17873cd0c7f2f209fa0c35b602fd4058")
    (hex "e6")
  = hex "941241657a7a19060b03755dbb9114e5b5ff1c71".
Proof. vm_compute. reflexivity. Qed.

Example hmac_sha1_gen_k16_m111 :
  hmac_sha1 (hex "17873cd0c7f2f209fa0c35b602fd4058")
    (hex "f7e15d45946f3fc1a91285fe2682ef92362bd5fc30d00dbf6ec31ba9dcb10c5a3b26a75a634dc65cf89a19796f4b907b5000398a06d556d1bab7def205e8cf5277dee89e32fdbe132bd84768cef24060ff2b155fce562da155a7bcce8df388160fe5331f1fb80457630d42862be78e")
  = hex "7868488f3b8e2003bda2e04ee4fbc0c4374f0404".
Proof. vm_compute. reflexivity. Qed.

Example hmac_sha1_gen_k63_m0 :
  hmac_sha1 (hex "1c6f2f3ae56dbe5847bedcad1c7a59a47aa38d74977e58918676900cc7f1e5ebcfa9a2b91088d1dd1e119a63fcc7f25db53dec02b99d431dbae2f197ee19de")
    ([])
  = hex "903e2687ff50866f7ddda744070bec0ba898337d".
Proof. vm_compute. reflexivity. Qed.

Example hmac_sha1_gen_k63_m64 :
  hmac_sha1 (hex "1c6f2f3ae56dbe5847bedcad1c7a59a47aa38d74977e58918676900cc7f1e5ebcfa9a2b91088d1dd1e119a63fcc7f25db53dec02b99d431dbae2f197ee19de")
    (hex "f1f96adb76f474725c61de070c05d6462e9cc1b6a50a20c1213ee417cea9d4f1c96ebdf952aaa2cff0832681fcd4cc7041a8ec60acdd5bcc3f9730a4b56c2815")
  = hex "60457b914405d00e68a9c80827b411cf5e5e3a23".
Proof. vm_compute. reflexivity. Qed.

Example hmac_sha1_gen_k63_m200 :
  hmac_sha1 (hex "1c6f2f3ae56dbe5847bedcad1c7a59a47aa38d74977e58918676900cc7f1e5ebcfa9a2b91088d1dd1e119a63fcc7f25db53dec02b99d431dbae2f197ee19de")
    (hex "02b14519d166d65f4376d2ec597c20294649fd86475ce9ba09ce88cdf8c17d2a21957a1a85920f7506c8ff69543917916eaed2dcb9c44adbaff83b8fa6e21ecd3fda9bba6ca6dd10350287228b1d4cd0e85278de90b9df69956c04660c8078631417acfa8d19c7b7a8673a50b5a02172d0c2a899554d009835a7a5d4a1e900619f549a70711777c7fe2d4a3b8d6998598603feac13452a6cd11a436de4a1c9951f0f31452581bc6f997f4f44d2555ab9ab8cfb4b5a1dffc16d2a67da535e8e1c1b3924373be989b3")
  = hex "a42bfdf4f742c3d26b95a5fba202709a08545853".
Proof. vm_compute. reflexivity. Qed.

Example hmac_sha1_gen_k64_m55 :
  hmac_sha1 (hex "225723a404e989a7946f82a436f771ef8232a1b92244468fd3fcc79ed5f91d5342618c1a212bf66a26288e5b6f3eb669c495382b13953d2235039fe63f95854b")
    (hex "ec1176715778a8230faf3710f288befa260dad71194432c4d3b8ae85c0a19b8956b7d39941087e42e96c33898a5d09643251a03752e561")
  = hex "d7f2e60bb97da61ab75b6e396cb1a61211c84388".
Proof. vm_compute. reflexivity. Qed.

Example hmac_sha1_gen_k64_m128 :
  hmac_sha1 (hex "225723a404e989a7946f82a436f771ef8232a1b92244468fd3fcc79ed5f91d5342618c1a212bf66a26288e5b6f3eb669c495382b13953d2235039fe63f95854b")
    (hex "fcc951afb2eb0a10f6c42bf53fff08dd3ebae941bc96fbbcbc49513beab945c2aedd90ba74f0ebe9ffb10c71e1c253865f5785b35fcc50d634d78d41566576905b5c412ccfd1ce92b06d67c5ac08c69873bec69faf078605758ae09a4cb980bc127ef00c56686507053a3eeb70c3588f065ac20f5772796933131783f639c427")
  = hex "4f99c072a6e95bec51cc48c6e63d654df7a9fec3".
Proof. vm_compute. reflexivity. Qed.

Example hmac_sha1_gen_k64_m200 :
  hmac_sha1 (hex "225723a404e989a7946f82a436f771ef8232a1b92244468fd3fcc79ed5f91d5342618c1a212bf66a26288e5b6f3eb669c495382b13953d2235039fe63f95854b")
    (hex "02b14519d166d65f4376d2ec597c20294649fd86475ce9ba09ce88cdf8c17d2a21957a1a85920f7506c8ff69543917916eaed2dcb9c44adbaff83b8fa6e21ecd3fda9bba6ca6dd10350287228b1d4cd0e85278de90b9df69956c04660c8078631417acfa8d19c7b7a8673a50b5a02172d0c2a899554d009835a7a5d4a1e900619f549a70711777c7fe2d4a3b8d6998598603feac13452a6cd11a436de4a1c9951f0f31452581bc6f997f4f44d2555ab9ab8cfb4b5a1dffc16d2a67da535e8e1c1b3924373be989b3")
  = hex "9f2db69fde738108ed18f932491c081864391a78".
Proof. vm_compute. reflexivity. Qed.

Example hmac_sha1_gen_k65_m1 :
  hmac_sha1 (hex "283f160e226455f6e121299b50748a3b8ac1b5feae0a348c2181fd31e30056bbb518767a32ce1af72d3f8153e1b57974d3ec85546c8d3727b0234d348f122d88bf")
    (hex "e6")
  = hex "da3510c127d4d39714f5d8e0d119506667cd15bb".
Proof. vm_compute. reflexivity. Qed.

Example hmac_sha1_gen_k65_m111 :
  hmac_sha1 (hex "283f160e226455f6e121299b50748a3b8ac1b5feae0a348c2181fd31e30056bbb518767a32ce1af72d3f8153e1b57974d3ec85546c8d3727b0234d348f122d88bf")
    (hex "f7e15d45946f3fc1a91285fe2682ef92362bd5fc30d00dbf6ec31ba9dcb10c5a3b26a75a634dc65cf89a19796f4b907b5000398a06d556d1bab7def205e8cf5277dee89e32fdbe132bd84768cef24060ff2b155fce562da155a7bcce8df388160fe5331f1fb80457630d42862be78e")
  = hex "b21b218b2a2ca906d18a9fc41138c21419ee2bc1".
Proof. vm_compute. reflexivity. Qed.

Example hmac_sha1_gen_k100_m0 :
  hmac_sha1 (hex "2d270a7840e020452ed3d0926af1a3879350c94439d0228a6e0734c3f1088e2327d05fda43703e833455744b542c3d7fe243d17dc684312b2b43fc83df8fd4c5a3ca186cb8a3f1f06ebbf7ea7aa0fd3d49d2b33db2063c06a2e2de7bb1d9729abfe83922")
    ([])
  = hex "b5ae2a33c579ec51c52090b69cd2e35dbfc0f37c".
Proof. vm_compute. reflexivity. Qed.

Example hmac_sha1_gen_k100_m64 :
  hmac_sha1 (hex "2d270a7840e020452ed3d0926af1a3879350c94439d0228a6e0734c3f1088e2327d05fda43703e833455744b542c3d7fe243d17dc684312b2b43fc83df8fd4c5a3ca186cb8a3f1f06ebbf7ea7aa0fd3d49d2b33db2063c06a2e2de7bb1d9729abfe83922")
    (hex "f1f96adb76f474725c61de070c05d6462e9cc1b6a50a20c1213ee417cea9d4f1c96ebdf952aaa2cff0832681fcd4cc7041a8ec60acdd5bcc3f9730a4b56c2815")
  = hex "c25d3823a4361eceffd0a05b4cfd336c2f9eb534".
Proof. vm_compute. reflexivity. Qed.

Example hmac_sha1_gen_k100_m200 :
  hmac_sha1 (hex "2d270a7840e020452ed3d0926af1a3879350c94439d0228a6e0734c3f1088e2327d05fda43703e833455744b542c3d7fe243d17dc684312b2b43fc83df8fd4c5a3ca186cb8a3f1f06ebbf7ea7aa0fd3d49d2b33db2063c06a2e2de7bb1d9729abfe83922")
    (hex "02b14519d166d65f4376d2ec597c20294649fd86475ce9ba09ce88cdf8c17d2a21957a1a85920f7506c8ff69543917916eaed2dcb9c44adbaff83b8fa6e21ecd3fda9bba6ca6dd10350287228b1d4cd0e85278de90b9df69956c04660c8078631417acfa8d19c7b7a8673a50b5a02172d0c2a899554d009835a7a5d4a1e900619f549a70711777c7fe2d4a3b8d6998598603feac13452a6cd11a436de4a1c9951f0f31452581bc6f997f4f44d2555ab9ab8cfb4b5a1dffc16d2a67da535e8e1c1b3924373be989b3")
  = hex "1800eabd5ed14a10a83d3815642c1129539420ae".
Proof. vm_compute. reflexivity. Qed.

Example hmac_sha1_gen_k131_m55 :
  hmac_sha1 (hex "330ffde15f5beb947a84768a846ebbd39be0dd89c5960f87bc8c6a55ff10c78b9a87493b541363103c6c6743c6a2008bf19b1ea61f7c2b30a563aad1300c7b03874871fb5577006ff351174758b68375be65657c93b7956ac1c50247709f6a41c280f610320b8e679e0f045e0f6b5b32d6efcccd9a6d4fdf5951c89280702617a9e00b")
    (hex "ec1176715778a8230faf3710f288befa260dad71194432c4d3b8ae85c0a19b8956b7d39941087e42e96c33898a5d09643251a03752e561")
  = hex "36a61adea8198fed8d340aecdbce907b4d3c86e2".
Proof. vm_compute. reflexivity. Qed.

Example hmac_sha1_gen_k131_m128 :
  hmac_sha1 (hex "330ffde15f5beb947a84768a846ebbd39be0dd89c5960f87bc8c6a55ff10c78b9a87493b541363103c6c6743c6a2008bf19b1ea61f7c2b30a563aad1300c7b03874871fb5577006ff351174758b68375be65657c93b7956ac1c50247709f6a41c280f610320b8e679e0f045e0f6b5b32d6efcccd9a6d4fdf5951c89280702617a9e00b")
    (hex "fcc951afb2eb0a10f6c42bf53fff08dd3ebae941bc96fbbcbc49513beab945c2aedd90ba74f0ebe9ffb10c71e1c253865f5785b35fcc50d634d78d41566576905b5c412ccfd1ce92b06d67c5ac08c69873bec69faf078605758ae09a4cb980bc127ef00c56686507053a3eeb70c3588f065ac20f5772796933131783f639c427")
  = hex "44cd432ccfc1c901b8e2f2d8a772108e1bac8368".
Proof. vm_compute. reflexivity. Qed.

(* ================= hmac_sha256 ================= *)

(* published: RFC 4231 section 4 (test case 5 is the full, untruncated tag) *)
Example hmac_sha256_pub_1 :
  hmac_sha256 (hex "0b0b0b0b0b0b0b0b0b0b0b0b0b0b0b0b0b0b0b0b")
    (str "Hi There")
  = hex "b0344c61d8db38535ca8afceaf0bf12b881dc200c9833da726e9376c2e32cff7".
Proof. vm_compute. reflexivity. Qed.

Example hmac_sha256_pub_2 :
  hmac_sha256 (str "Jefe")
    (str "what do ya want for nothing?")
  = hex "5bdcc146bf60754e6a042426089575c75a003f089d2739839dec58b964ec3843".
Proof. vm_compute. reflexivity. Qed.

Example hmac_sha256_pub_3 :
  hmac_sha256 (hex "aaaaaaaaaaaaaaaaaaaaaaaaaaaaaaaaaaaaaaaa")
    (hex "dddddddddddddddddddddddddddddddddddddddddddddddddddddddddddddddddddddddddddddddddddddddddddddddddddd")
  = hex "773ea91e36800e46854db8ebd09181a72959098b3ef8c122d9635514ced565fe".
Proof. vm_compute. reflexivity. Qed.

Example hmac_sha256_pub_4 :
  hmac_sha256 (hex "0102030405060708090a0b0c0d0e0f10111213141516171819")
    (hex "cdcdcdcdcdcdcdcdcdcdcdcdcdcdcdcdcdcdcdcdcdcdcdcdcdcdcdcdcdcdcdcdcdcdcdcdcdcdcdcdcdcdcdcdcdcdcdcdcdcd")
  = hex "82558a389a443c0ea4cc819899f2083a85f0faa3e578f8077a2e3ff46729665b".
Proof. vm_compute. reflexivity. Qed.

Example hmac_sha256_pub_5 :
  hmac_sha256 (hex "0c0c0c0c0c0c0c0c0c0c0c0c0c0c0c0c0c0c0c0c")
    (str "Test With Truncation")
  = hex "a3b6167473100ee06e0c796c2955552bfa6f7c0a6a8aef8b93f860aab0cd20c5".
Proof. vm_compute. reflexivity. Qed.

Example hmac_sha256_pub_6 :
  hmac_sha256 (hex "aaaaaaaaaaaaaaaaaaaaaaaaaaaaaaaaaaaaaaaaaaaaaaaaaaaaaaaaaaaaaaaaaaaaaaaaaaaaaaaaaaaaaaaaaaaaaaaaaaaaaaaaaaaaaaaaaaaaaaaaaaaaaaaaaaaaaaaaaaaaaaaaaaaaaaaaaaaaaaaaaaaaaaaaaaaaaaaaaaaaaaaaaaaaaaaaaaaaaaaaaaaaaaaaaaaaaaaaaaaaaaaaaaaaaaaaaaaaaaaaaaaaaaaaaaaaaaaaaaaaaa")
    (str "Test Using Larger Than Block-Size Key - Hash Key First")
  = hex "60e431591ee0b67f0d8a26aacbf5b77f8e0bc6213728c5140546040f0ee37f54".
Proof. vm_compute. reflexivity. Qed.

Example hmac_sha256_pub_7 :
  hmac_sha256 (hex "aaaaaaaaaaaaaaaaaaaaaaaaaaaaaaaaaaaaaaaaaaaaaaaaaaaaaaaaaaaaaaaaaaaaaaaaaaaaaaaaaaaaaaaaaaaaaaaaaaaaaaaaaaaaaaaaaaaaaaaaaaaaaaaaaaaaaaaaaaaaaaaaaaaaaaaaaaaaaaaaaaaaaaaaaaaaaaaaaaaaaaaaaaaaaaaaaaaaaaaaaaaaaaaaaaaaaaaaaaaaaaaaaaaaaaaaaaaaaaaaaaaaaaaaaaaaaaaaaaaaaa")
    (str "This is a test using a larger than block-size key and a larger than block-size data. The key needs to be hashed before being used by the HMAC algorithm.")
  = hex "9b09ffa71b942fcb27635fbcd5b0e944bfdc63644f0713938a7f51535c3a35e2".
Proof. vm_compute. reflexivity. Qed.

(* generated with Go's crypto/hmac: key lengths below / at / above the block size *)
Example hmac_sha256_gen_k0_m0 :
  hmac_sha256 ([])
    ([])
  = hex "b613679a0814d9ec772f95d778c35fc5ff1697c493715653c6c712144292c5ad".
Proof. vm_compute. reflexivity. Qed.

Example hmac_sha256_gen_k0_m64 :
  hmac_sha256 ([])
    (hex "fcc951afb2eb0a10f6c42bf53fff08dd3ebae941bc96fbbcbc49513beab945c2aedd90ba74f0ebe9ffb10c71e1c253865f5785b35fcc50d634d78d4156657690")
  = hex "2351a61be17c4b05f1bce5831ecd89d6c65fe15b56bbaafcd04e5de98d0970c5".
Proof. vm_compute. reflexivity. Qed.

Example hmac_sha256_gen_k0_m200 :
  hmac_sha256 ([])
    (hex "0d812ced0d5d6dfcdcd91fda8d7752c0576825105ee8c4b5a4daf5f214d0eefa06044edba7d7588f15f6e55838269ea88c5d6b2e6cb33ee4a538982c47db6c4806d64dd6a74ffc0d3e2cc7dc47495940d178db5d531c9131d4304cfe8b0c69af194825d5fc798917edc231193f59b437669274ae51030ef639d1c077f84877d62f3d5681b5e1f3421c0e94f5492723ae6b18b6e4cb1ccc81403ca7d64bc86ed91d2de33708e5f316267e658c34d56139e80ca87846efa414b7a9b891e31a69479b23540b4eb7040f")
  = hex "2de73024e68c484ef18bbfc88a772a8e1720afbf1ccdfdc0a3e9cf5abee995b1".
Proof. vm_compute. reflexivity. Qed.

Example hmac_sha256_gen_k1_m55 :
  hmac_sha256 (hex "1c")
    (hex "f7e15d45946f3fc1a91285fe2682ef92362bd5fc30d00dbf6ec31ba9dcb10c5a3b26a75a634dc65cf89a19796f4b907b5000398a06d556")
  = hex "b56d23ef79fa318646b0a2854b80ab6f7adcaa4466ee0ffdf2db4c1927f57bc2".
Proof. vm_compute. reflexivity. Qed.

Example hmac_sha256_gen_k1_m128 :
  hmac_sha256 (hex "1c")
    (hex "08993883efe2a1ad8f2779e373f939754fd811cbd322d7b75754bf6006c9b692934c647b963533020edff261c6afda9d7d061e0512bb44df2a18e9ddf65fc50b2258f4480a7aec8fba97a77f6933d3085de52a1d716a38cdb44e2832cb46710917af69e7c4c928674b9535b4fa7dea559b2a8e23532887c7373c33264d993b9c")
  = hex "3ebebfe365b97115abe0181125d45746e3a8b290a3c74ca5eeaa4ccb9ffe935f".
Proof. vm_compute. reflexivity. Qed.

Example hmac_sha256_gen_k16_m1 :
  hmac_sha256 (hex "225723a404e989a7946f82a436f771ef")
    (hex "f1")
  = hex "509b4abe61c0090cf8106638904e6a7f417717b94f24d4f419009264541687f0".
Proof. vm_compute. reflexivity. Qed.

Example hmac_sha256_gen_k16_m111 :
  hmac_sha256 (hex "225723a404e989a7946f82a436f771ef")
    (hex "02b14519d166d65f4376d2ec597c20294649fd86475ce9ba09ce88cdf8c17d2a21957a1a85920f7506c8ff69543917916eaed2dcb9c44adbaff83b8fa6e21ecd3fda9bba6ca6dd10350287228b1d4cd0e85278de90b9df69956c04660c8078631417acfa8d19c7b7a8673a50b5a021")
  = hex "54b3d6ebe687b168ef60f09033bc8b70a0d44eb2ff5a5933cc2c90f39d8e494f".
Proof. vm_compute. reflexivity. Qed.

Example hmac_sha256_gen_k63_m0 :
  hmac_sha256 (hex "283f160e226455f6e121299b50748a3b8ac1b5feae0a348c2181fd31e30056bbb518767a32ce1af72d3f8153e1b57974d3ec85546c8d3727b0234d348f122d")
    ([])
  = hex "39b3343266d853a73a2bbcb3e75c9505b28de28af62ee2a4ec90ac344780f18a".
Proof. vm_compute. reflexivity. Qed.

Example hmac_sha256_gen_k63_m64 :
  hmac_sha256 (hex "283f160e226455f6e121299b50748a3b8ac1b5feae0a348c2181fd31e30056bbb518767a32ce1af72d3f8153e1b57974d3ec85546c8d3727b0234d348f122d")
    (hex "fcc951afb2eb0a10f6c42bf53fff08dd3ebae941bc96fbbcbc49513beab945c2aedd90ba74f0ebe9ffb10c71e1c253865f5785b35fcc50d634d78d4156657690")
  = hex "747831469de326b21adca16b41570d13dcead400a9a0511504faacaffa0c185c".
Proof. vm_compute. reflexivity. Qed.

Example hmac_sha256_gen_k63_m200 :
  hmac_sha256 (hex "283f160e226455f6e121299b50748a3b8ac1b5feae0a348c2181fd31e30056bbb518767a32ce1af72d3f8153e1b57974d3ec85546c8d3727b0234d348f122d")
    (hex "0d812ced0d5d6dfcdcd91fda8d7752c0576825105ee8c4b5a4daf5f214d0eefa06044edba7d7588f15f6e55838269ea88c5d6b2e6cb33ee4a538982c47db6c4806d64dd6a74ffc0d3e2cc7dc47495940d178db5d531c9131d4304cfe8b0c69af194825d5fc798917edc231193f59b437669274ae51030ef639d1c077f84877d62f3d5681b5e1f3421c0e94f5492723ae6b18b6e4cb1ccc81403ca7d64bc86ed91d2de33708e5f316267e658c34d56139e80ca87846efa414b7a9b891e31a69479b23540b4eb7040f")
  = hex "127add23dee0660c75034b28a97352b0da7d1cf34f8ed29554b6c9aebb62ce3f".
Proof. vm_compute. reflexivity. Qed.

Example hmac_sha256_gen_k64_m55 :
  hmac_sha256 (hex "2d270a7840e020452ed3d0926af1a3879350c94439d0228a6e0734c3f1088e2327d05fda43703e833455744b542c3d7fe243d17dc684312b2b43fc83df8fd4c5")
    (hex "f7e15d45946f3fc1a91285fe2682ef92362bd5fc30d00dbf6ec31ba9dcb10c5a3b26a75a634dc65cf89a19796f4b907b5000398a06d556")
  = hex "8f73a51bebcbec1ad1aef9829f0c5233960e8f1759ef0fde96dbebabe423fef1".
Proof. vm_compute. reflexivity. Qed.

Example hmac_sha256_gen_k64_m128 :
  hmac_sha256 (hex "2d270a7840e020452ed3d0926af1a3879350c94439d0228a6e0734c3f1088e2327d05fda43703e833455744b542c3d7fe243d17dc684312b2b43fc83df8fd4c5")
    (hex "08993883efe2a1ad8f2779e373f939754fd811cbd322d7b75754bf6006c9b692934c647b963533020edff261c6afda9d7d061e0512bb44df2a18e9ddf65fc50b2258f4480a7aec8fba97a77f6933d3085de52a1d716a38cdb44e2832cb46710917af69e7c4c928674b9535b4fa7dea559b2a8e23532887c7373c33264d993b9c")
  = hex "6fb90791e11a6ec13fcf993d4a8d0d78660c158e51b08372fd0b93d100fdec81".
Proof. vm_compute. reflexivity. Qed.

Example hmac_sha256_gen_k64_m200 :
  hmac_sha256 (hex "2d270a7840e020452ed3d0926af1a3879350c94439d0228a6e0734c3f1088e2327d05fda43703e833455744b542c3d7fe243d17dc684312b2b43fc83df8fd4c5")
    (hex "0d812ced0d5d6dfcdcd91fda8d7752c0576825105ee8c4b5a4daf5f214d0eefa06044edba7d7588f15f6e55838269ea88c5d6b2e6cb33ee4a538982c47db6c4806d64dd6a74ffc0d3e2cc7dc47495940d178db5d531c9131d4304cfe8b0c69af194825d5fc798917edc231193f59b437669274ae51030ef639d1c077f84877d62f3d5681b5e1f3421c0e94f5492723ae6b18b6e4cb1ccc81403ca7d64bc86ed91d2de33708e5f316267e658c34d56139e80ca87846efa414b7a9b891e31a69479b23540b4eb7040f")
  = hex "3bda8f37a87505e3980b7804aae5fdeea0e9b12f79af198812de89e6788658d5".
Proof. vm_compute. reflexivity. Qed.

Example hmac_sha256_gen_k65_m1 :
  hmac_sha256 (hex "330ffde15f5beb947a84768a846ebbd39be0dd89c5960f87bc8c6a55ff10c78b9a87493b541363103c6c6743c6a2008bf19b1ea61f7c2b30a563aad1300c7b0387")
    (hex "f1")
  = hex "c7fd4eb06e7a7a2b83daaf10d9d7fca18a520b649bd28a3529eb7f788431c0d7".
Proof. vm_compute. reflexivity. Qed.

Example hmac_sha256_gen_k65_m111 :
  hmac_sha256 (hex "330ffde15f5beb947a84768a846ebbd39be0dd89c5960f87bc8c6a55ff10c78b9a87493b541363103c6c6743c6a2008bf19b1ea61f7c2b30a563aad1300c7b0387")
    (hex "02b14519d166d65f4376d2ec597c20294649fd86475ce9ba09ce88cdf8c17d2a21957a1a85920f7506c8ff69543917916eaed2dcb9c44adbaff83b8fa6e21ecd3fda9bba6ca6dd10350287228b1d4cd0e85278de90b9df69956c04660c8078631417acfa8d19c7b7a8673a50b5a021")
  = hex "b93cf584b0f60d567f0ae472b4935c8377c8b9b2eb50feb63bda8e13f6c13041".
Proof. vm_compute. reflexivity. Qed.

Example hmac_sha256_gen_k100_m0 :
  hmac_sha256 (hex "38f7f14b7dd7b7e3c7361d819decd41ea36ff1ce505cfd850912a1e70d1800f40d3f339b65b5879d43835a3b3819c49600f26acf797326352083591f808822406ac6ca89f34c0fed78e637a436cb09ad32f917bc7469eecee1a72613306662e7c419b3fd")
    ([])
  = hex "ba5be000dc43f97601c9be3f581e86c2cc750eb359470bb3f8b582b57df9e219".
Proof. vm_compute. reflexivity. Qed.

Example hmac_sha256_gen_k100_m64 :
  hmac_sha256 (hex "38f7f14b7dd7b7e3c7361d819decd41ea36ff1ce505cfd850912a1e70d1800f40d3f339b65b5879d43835a3b3819c49600f26acf797326352083591f808822406ac6ca89f34c0fed78e637a436cb09ad32f917bc7469eecee1a72613306662e7c419b3fd")
    (hex "fcc951afb2eb0a10f6c42bf53fff08dd3ebae941bc96fbbcbc49513beab945c2aedd90ba74f0ebe9ffb10c71e1c253865f5785b35fcc50d634d78d4156657690")
  = hex "4a458ede1581613fc648addc6d8c6e5aa644213ad797f5e8aacdef305e4b1c71".
Proof. vm_compute. reflexivity. Qed.

Example hmac_sha256_gen_k100_m200 :
  hmac_sha256 (hex "38f7f14b7dd7b7e3c7361d819decd41ea36ff1ce505cfd850912a1e70d1800f40d3f339b65b5879d43835a3b3819c49600f26acf797326352083591f808822406ac6ca89f34c0fed78e637a436cb09ad32f917bc7469eecee1a72613306662e7c419b3fd")
    (hex "0d812ced0d5d6dfcdcd91fda8d7752c0576825105ee8c4b5a4daf5f214d0eefa06044edba7d7588f15f6e55838269ea88c5d6b2e6cb33ee4a538982c47db6c4806d64dd6a74ffc0d3e2cc7dc47495940d178db5d531c9131d4304cfe8b0c69af194825d5fc798917edc231193f59b437669274ae51030ef639d1c077f84877d62f3d5681b5e1f3421c0e94f5492723ae6b18b6e4cb1ccc81403ca7d64bc86ed91d2de33708e5f316267e658c34d56139e80ca87846efa414b7a9b891e31a69479b23540b4eb7040f")
  = hex "a0a43e102278711d793cc8d16f3825068d13ba6afd4f0af5c39e5cf8720a78f9".
Proof. vm_compute. reflexivity. Qed.

Example hmac_sha256_gen_k131_m55 :
  hmac_sha256 (hex "3edfe4b59b52823114e7c478b769ed6aabfe0513dc22eb825698d8791b20385c80f61dfb7658ab2a4b9a4d32ab9087a10f4ab7f8d26b203a9ba3076ed005ca7e4e44241790201f6cfd7b570115e18fe6a78cc8fb561b473201894adff02c5b8dc6b16feba16c50c7e46afb279925eef86bbf98e297235d3d5d7be334d7d09e8b39c9c8")
    (hex "f7e15d45946f3fc1a91285fe2682ef92362bd5fc30d00dbf6ec31ba9dcb10c5a3b26a75a634dc65cf89a19796f4b907b5000398a06d556")
  = hex "675ef24e1fc4ea20b75bab63bf0910188952ef61b807ca98d041caf48e19152b".
Proof. vm_compute. reflexivity. Qed.

Example hmac_sha256_gen_k131_m128 :
  hmac_sha256 (hex "3edfe4b59b52823114e7c478b769ed6aabfe0513dc22eb825698d8791b20385c80f61dfb7658ab2a4b9a4d32ab9087a10f4ab7f8d26b203a9ba3076ed005ca7e4e44241790201f6cfd7b570115e18fe6a78cc8fb561b473201894adff02c5b8dc6b16feba16c50c7e46afb279925eef86bbf98e297235d3d5d7be334d7d09e8b39c9c8")
    (hex "08993883efe2a1ad8f2779e373f939754fd811cbd322d7b75754bf6006c9b692934c647b963533020edff261c6afda9d7d061e0512bb44df2a18e9ddf65fc50b2258f4480a7aec8fba97a77f6933d3085de52a1d716a38cdb44e2832cb46710917af69e7c4c928674b9535b4fa7dea559b2a8e23532887c7373c33264d993b9c")
  = hex "3d1a623f7c16d539f19737a89274bba171dc3915cc38b41f265e556a10e22ae9".
Proof. vm_compute. reflexivity. Qed.

(* ================= hmac_sha384 ================= *)

(* published: RFC 4231 section 4 (test case 5 is the full, untruncated tag) *)
Example hmac_sha384_pub_1 :
  hmac_sha384 (hex "0b0b0b0b0b0b0b0b0b0b0b0b0b0b0b0b0b0b0b0b")
    (str "Hi There")
  = hex "afd03944d84895626b0825f4ab46907f15f9dadbe4101ec682aa034c7cebc59cfaea9ea9076ede7f4af152e8b2fa9cb6".
Proof. vm_compute. reflexivity. Qed.

Example hmac_sha384_pub_2 :
  hmac_sha384 (str "Jefe")
    (str "what do ya want for nothing?")
  = hex "af45d2e376484031617f78d2b58a6b1b9c7ef464f5a01b47e42ec3736322445e8e2240ca5e69e2c78b3239ecfab21649".
Proof. vm_compute. reflexivity. Qed.

Example hmac_sha384_pub_3 :
  hmac_sha384 (hex "aaaaaaaaaaaaaaaaaaaaaaaaaaaaaaaaaaaaaaaa")
    (hex "dddddddddddddddddddddddddddddddddddddddddddddddddddddddddddddddddddddddddddddddddddddddddddddddddddd")
  = hex "88062608d3e6ad8a0aa2ace014c8a86f0aa635d947ac9febe83ef4e55966144b2a5ab39dc13814b94e3ab6e101a34f27".
Proof. vm_compute. reflexivity. Qed.

Example hmac_sha384_pub_4 :
  hmac_sha384 (hex "0102030405060708090a0b0c0d0e0f10111213141516171819")
    (hex "cdcdcdcdcdcdcdcdcdcdcdcdcdcdcdcdcdcdcdcdcdcdcdcdcdcdcdcdcdcdcdcdcdcdcdcdcdcdcdcdcdcdcdcdcdcdcdcdcdcd")
  = hex "3e8a69b7783c25851933ab6290af6ca77a9981480850009cc5577c6e1f573b4e6801dd23c4a7d679ccf8a386c674cffb".
Proof. vm_compute. reflexivity. Qed.

Example hmac_sha384_pub_5 :
  hmac_sha384 (hex "0c0c0c0c0c0c0c0c0c0c0c0c0c0c0c0c0c0c0c0c")
    (str "Test With Truncation")
  = hex "3abf34c3503b2a23a46efc619baef897f4c8e42c934ce55ccbae9740fcbc1af4ca62269e2a37cd88ba926341efe4aeea".
Proof. vm_compute. reflexivity. Qed.

Example hmac_sha384_pub_6 :
  hmac_sha384 (hex "aaaaaaaaaaaaaaaaaaaaaaaaaaaaaaaaaaaaaaaaaaaaaaaaaaaaaaaaaaaaaaaaaaaaaaaaaaaaaaaaaaaaaaaaaaaaaaaaaaaaaaaaaaaaaaaaaaaaaaaaaaaaaaaaaaaaaaaaaaaaaaaaaaaaaaaaaaaaaaaaaaaaaaaaaaaaaaaaaaaaaaaaaaaaaaaaaaaaaaaaaaaaaaaaaaaaaaaaaaaaaaaaaaaaaaaaaaaaaaaaaaaaaaaaaaaaaaaaaaaaaa")
    (str "Test Using Larger Than Block-Size Key - Hash Key First")
  = hex "4ece084485813e9088d2c63a041bc5b44f9ef1012a2b588f3cd11f05033ac4c60c2ef6ab4030fe8296248df163f44952".
Proof. vm_compute. reflexivity. Qed.

Example hmac_sha384_pub_7 :
  hmac_sha384 (hex "aaaaaaaaaaaaaaaaaaaaaaaaaaaaaaaaaaaaaaaaaaaaaaaaaaaaaaaaaaaaaaaaaaaaaaaaaaaaaaaaaaaaaaaaaaaaaaaaaaaaaaaaaaaaaaaaaaaaaaaaaaaaaaaaaaaaaaaaaaaaaaaaaaaaaaaaaaaaaaaaaaaaaaaaaaaaaaaaaaaaaaaaaaaaaaaaaaaaaaaaaaaaaaaaaaaaaaaaaaaaaaaaaaaaaaaaaaaaaaaaaaaaaaaaaaaaaaaaaaaaaa")
    (str "This is a test using a larger than block-size key and a larger than block-size data. The key needs to be hashed before being used by the HMAC algorithm.")
  = hex "6617178e941f020d351e2f254e8fd32c602420feb0b8fb9adccebb82461e99c5a678cc31e799176d3860e6110c46523e".
Proof. vm_compute. reflexivity. Qed.

(* generated with Go's crypto/hmac: key lengths below / at / above the block size *)
Example hmac_sha384_gen_k0_m0 :
  hmac_sha384 ([])
    ([])
  = hex "6c1f2ee938fad2e24bd91298474382ca218c75db3d83e114b3d4367776d14d3551289e75e8209cd4b792302840234adc".
Proof. vm_compute. reflexivity. Qed.

Example hmac_sha384_gen_k0_m64 :
  hmac_sha384 ([])
    (hex "fcc951afb2eb0a10f6c42bf53fff08dd3ebae941bc96fbbcbc49513beab945c2aedd90ba74f0ebe9ffb10c71e1c253865f5785b35fcc50d634d78d4156657690")
  = hex "176ba523e60409a12acdae0ef825c18ac46d5fd892c61ffe3fd8c32c2f3ec782ac3599fd5b84e3d77fff369ddfbceab6".
Proof. vm_compute. reflexivity. Qed.

Example hmac_sha384_gen_k0_m200 :
  hmac_sha384 ([])
    (hex "0d812ced0d5d6dfcdcd91fda8d7752c0576825105ee8c4b5a4daf5f214d0eefa06044edba7d7588f15f6e55838269ea88c5d6b2e6cb33ee4a538982c47db6c4806d64dd6a74ffc0d3e2cc7dc47495940d178db5d531c9131d4304cfe8b0c69af194825d5fc798917edc231193f59b437669274ae51030ef639d1c077f84877d62f3d5681b5e1f3421c0e94f5492723ae6b18b6e4cb1ccc81403ca7d64bc86ed91d2de33708e5f316267e658c34d56139e80ca87846efa414b7a9b891e31a69479b23540b4eb7040f")
  = hex "27a93fe6a4f82d1d35a0a5d781b7c72bdf22c3b41f6f7d3745707152ce5ef6d21d3e97f52cfc9c4a119c2861cc5e77c0".
Proof. vm_compute. reflexivity. Qed.

Example hmac_sha384_gen_k1_m55 :
  hmac_sha384 (hex "1c")
    (hex "f7e15d45946f3fc1a91285fe2682ef92362bd5fc30d00dbf6ec31ba9dcb10c5a3b26a75a634dc65cf89a19796f4b907b5000398a06d556")
  = hex "5922e02cef0d618576bbf1326b8a9837a13798c8ee034d9509a17b55dfcda52f6b954bedaa92170ebca95a1fd47d0c16".
Proof. vm_compute. reflexivity. Qed.

Example hmac_sha384_gen_k1_m128 :
  hmac_sha384 (hex "1c")
    (hex "08993883efe2a1ad8f2779e373f939754fd811cbd322d7b75754bf6006c9b692934c647b963533020edff261c6afda9d7d061e0512bb44df2a18e9ddf65fc50b2258f4480a7aec8fba97a77f6933d3085de52a1d716a38cdb44e2832cb46710917af69e7c4c928674b9535b4fa7dea559b2a8e23532887c7373c33264d993b9c")
  = hex "98867af9c8fe8f282c44b7d382380ac4c4531c633bf27970d13f86ce6d5f19c25cab56f7cff65cfb6d896e19331437b5".
Proof. vm_compute. reflexivity. Qed.

Example hmac_sha384_gen_k16_m1 :
  hmac_sha384 (hex "225723a404e989a7946f82a436f771ef")
    (hex "f1")
  = hex "7477f2452c03d3d4fbb4e8ec48d6bda74f5ba1e1f68ee37a04a07593e5a0b895354ee920e2506111b560678822776880".
Proof. vm_compute. reflexivity. Qed.

Example hmac_sha384_gen_k16_m111 :
  hmac_sha384 (hex "225723a404e989a7946f82a436f771ef")
    (hex "02b14519d166d65f4376d2ec597c20294649fd86475ce9ba09ce88cdf8c17d2a21957a1a85920f7506c8ff69543917916eaed2dcb9c44adbaff83b8fa6e21ecd3fda9bba6ca6dd10350287228b1d4cd0e85278de90b9df69956c04660c8078631417acfa8d19c7b7a8673a50b5a021")
  = hex "d062a73dad036fb6fab78368d76fcb7b1fd9fcee8c56bb571c3ac8fe0f23e3bcffad96660d759f3f01b4da9516183040".
Proof. vm_compute. reflexivity. Qed.

Example hmac_sha384_gen_k127_m0 :
  hmac_sha384 (hex "283f160e226455f6e121299b50748a3b8ac1b5feae0a348c2181fd31e30056bbb518767a32ce1af72d3f8153e1b57974d3ec85546c8d3727b0234d348f122d88bf4cbfde1bcee172e926d78d9c8a7705d53f02fdd154e3a28200baaff1137af4bd4f7d35c4aacc0659b50c9585b2c86d411f01b89eb741805428adef2911af")
    ([])
  = hex "9e2ad8a4f5cfa8b0f413a9be83b3e0e26715bbb704848931a8edef49b5adb3b793076673cbe4e690cd11e581048b149f".
Proof. vm_compute. reflexivity. Qed.

Example hmac_sha384_gen_k127_m64 :
  hmac_sha384 (hex "283f160e226455f6e121299b50748a3b8ac1b5feae0a348c2181fd31e30056bbb518767a32ce1af72d3f8153e1b57974d3ec85546c8d3727b0234d348f122d88bf4cbfde1bcee172e926d78d9c8a7705d53f02fdd154e3a28200baaff1137af4bd4f7d35c4aacc0659b50c9585b2c86d411f01b89eb741805428adef2911af")
    (hex "fcc951afb2eb0a10f6c42bf53fff08dd3ebae941bc96fbbcbc49513beab945c2aedd90ba74f0ebe9ffb10c71e1c253865f5785b35fcc50d634d78d4156657690")
  = hex "212aef957e257640cdb6ae6c85e2dcc25fb741346cef981ceb152d6a658784cc958dade17b81fedaa45acca479a8dc8b".
Proof. vm_compute. reflexivity. Qed.

Example hmac_sha384_gen_k127_m200 :
  hmac_sha384 (hex "283f160e226455f6e121299b50748a3b8ac1b5feae0a348c2181fd31e30056bbb518767a32ce1af72d3f8153e1b57974d3ec85546c8d3727b0234d348f122d88bf4cbfde1bcee172e926d78d9c8a7705d53f02fdd154e3a28200baaff1137af4bd4f7d35c4aacc0659b50c9585b2c86d411f01b89eb741805428adef2911af")
    (hex "0d812ced0d5d6dfcdcd91fda8d7752c0576825105ee8c4b5a4daf5f214d0eefa06044edba7d7588f15f6e55838269ea88c5d6b2e6cb33ee4a538982c47db6c4806d64dd6a74ffc0d3e2cc7dc47495940d178db5d531c9131d4304cfe8b0c69af194825d5fc798917edc231193f59b437669274ae51030ef639d1c077f84877d62f3d5681b5e1f3421c0e94f5492723ae6b18b6e4cb1ccc81403ca7d64bc86ed91d2de33708e5f316267e658c34d56139e80ca87846efa414b7a9b891e31a69479b23540b4eb7040f")
  = hex "0a161ef51d0ccd0dc9642f97ca3094def82f5f46f3b5542465db84969c2083acea2f56f1d8710abe0cd774b84a91186d".
Proof. vm_compute. reflexivity. Qed.

Example hmac_sha384_gen_k128_m55 :
  hmac_sha384 (hex "2d270a7840e020452ed3d0926af1a3879350c94439d0228a6e0734c3f1088e2327d05fda43703e833455744b542c3d7fe243d17dc684312b2b43fc83df8fd4c5a3ca186cb8a3f1f06ebbf7ea7aa0fd3d49d2b33db2063c06a2e2de7bb1d9729abfe83922fb5b2db6fbe208f9ca8e92500b87e6439c92c8b056bd3a40d5c1ebdc")
    (hex "f7e15d45946f3fc1a91285fe2682ef92362bd5fc30d00dbf6ec31ba9dcb10c5a3b26a75a634dc65cf89a19796f4b907b5000398a06d556")
  = hex "f306a4655e49f352444d7b27c002f9ddfee2d8ac91dda7933adb73abceb84ed9db2027fa7d3a9c5d28743b5ae5130952".
Proof. vm_compute. reflexivity. Qed.

Example hmac_sha384_gen_k128_m128 :
  hmac_sha384 (hex "2d270a7840e020452ed3d0926af1a3879350c94439d0228a6e0734c3f1088e2327d05fda43703e833455744b542c3d7fe243d17dc684312b2b43fc83df8fd4c5a3ca186cb8a3f1f06ebbf7ea7aa0fd3d49d2b33db2063c06a2e2de7bb1d9729abfe83922fb5b2db6fbe208f9ca8e92500b87e6439c92c8b056bd3a40d5c1ebdc")
    (hex "08993883efe2a1ad8f2779e373f939754fd811cbd322d7b75754bf6006c9b692934c647b963533020edff261c6afda9d7d061e0512bb44df2a18e9ddf65fc50b2258f4480a7aec8fba97a77f6933d3085de52a1d716a38cdb44e2832cb46710917af69e7c4c928674b9535b4fa7dea559b2a8e23532887c7373c33264d993b9c")
  = hex "bf683a8048ad55de80a12793f68203334e6751ed6e135e96846f67b807552a51ad18f64ce87adb5d5bafec0a39952d4a".
Proof. vm_compute. reflexivity. Qed.

Example hmac_sha384_gen_k128_m200 :
  hmac_sha384 (hex "2d270a7840e020452ed3d0926af1a3879350c94439d0228a6e0734c3f1088e2327d05fda43703e833455744b542c3d7fe243d17dc684312b2b43fc83df8fd4c5a3ca186cb8a3f1f06ebbf7ea7aa0fd3d49d2b33db2063c06a2e2de7bb1d9729abfe83922fb5b2db6fbe208f9ca8e92500b87e6439c92c8b056bd3a40d5c1ebdc")
    (hex "0d812ced0d5d6dfcdcd91fda8d7752c0576825105ee8c4b5a4daf5f214d0eefa06044edba7d7588f15f6e55838269ea88c5d6b2e6cb33ee4a538982c47db6c4806d64dd6a74ffc0d3e2cc7dc47495940d178db5d531c9131d4304cfe8b0c69af194825d5fc798917edc231193f59b437669274ae51030ef639d1c077f84877d62f3d5681b5e1f3421c0e94f5492723ae6b18b6e4cb1ccc81403ca7d64bc86ed91d2de33708e5f316267e658c34d56139e80ca87846efa414b7a9b891e31a69479b23540b4eb7040f")
  = hex "ab6cf84c1c2f06d34eccc132117c137bb54b29852a8bd351ec4c2d38e9bfa9d8809da3e66878a866eeb2c7c001a66ff0".
Proof. vm_compute. reflexivity. Qed.

Example hmac_sha384_gen_k129_m1 :
  hmac_sha384 (hex "330ffde15f5beb947a84768a846ebbd39be0dd89c5960f87bc8c6a55ff10c78b9a87493b541363103c6c6743c6a2008bf19b1ea61f7c2b30a563aad1300c7b03874871fb5577006ff351174758b68375be65657c93b7956ac1c50247709f6a41c280f610320b8e679e0f045e0f6b5b32d6efcccd9a6d4fdf5951c89280702617a9")
    (hex "f1")
  = hex "828190778daf472daf2f4e36473c8dfa5eb1e379489426558a1560b9ba68572883f5ad4149e8871533e39ea0ecb3b843".
Proof. vm_compute. reflexivity. Qed.

Example hmac_sha384_gen_k129_m111 :
  hmac_sha384 (hex "330ffde15f5beb947a84768a846ebbd39be0dd89c5960f87bc8c6a55ff10c78b9a87493b541363103c6c6743c6a2008bf19b1ea61f7c2b30a563aad1300c7b03874871fb5577006ff351174758b68375be65657c93b7956ac1c50247709f6a41c280f610320b8e679e0f045e0f6b5b32d6efcccd9a6d4fdf5951c89280702617a9")
    (hex "02b14519d166d65f4376d2ec597c20294649fd86475ce9ba09ce88cdf8c17d2a21957a1a85920f7506c8ff69543917916eaed2dcb9c44adbaff83b8fa6e21ecd3fda9bba6ca6dd10350287228b1d4cd0e85278de90b9df69956c04660c8078631417acfa8d19c7b7a8673a50b5a021")
  = hex "8090b223e94432e85c66be630a4ea2e7e4754f9925b8a5aa38de447814d93cc31e289ef8ccc911c7dc07ab872bb3cbec".
Proof. vm_compute. reflexivity. Qed.

Example hmac_sha384_gen_k164_m0 :
  hmac_sha384 (hex "38f7f14b7dd7b7e3c7361d819decd41ea36ff1ce505cfd850912a1e70d1800f40d3f339b65b5879d43835a3b3819c49600f26acf797326352083591f808822406ac6ca89f34c0fed78e637a436cb09ad32f917bc7469eecee1a72613306662e7c419b3fd6abbef17413dffc354482415a157b2579948d60e5be656e32c206251f1d5e916b17909d15ffc835072a95a7114f5fd99df6fa4257f3fba62a6fb87dd2dad7223")
    ([])
  = hex "43fbf18ec2504580c285bd6886f56fea0cee8c2a12583d1b292ddbb4eba33999fdd7e1e3a6e0e06779e12cb8959bed3c".
Proof. vm_compute. reflexivity. Qed.

Example hmac_sha384_gen_k164_m64 :
  hmac_sha384 (hex "38f7f14b7dd7b7e3c7361d819decd41ea36ff1ce505cfd850912a1e70d1800f40d3f339b65b5879d43835a3b3819c49600f26acf797326352083591f808822406ac6ca89f34c0fed78e637a436cb09ad32f917bc7469eecee1a72613306662e7c419b3fd6abbef17413dffc354482415a157b2579948d60e5be656e32c206251f1d5e916b17909d15ffc835072a95a7114f5fd99df6fa4257f3fba62a6fb87dd2dad7223")
    (hex "fcc951afb2eb0a10f6c42bf53fff08dd3ebae941bc96fbbcbc49513beab945c2aedd90ba74f0ebe9ffb10c71e1c253865f5785b35fcc50d634d78d4156657690")
  = hex "80e762aca3a91b52b778eaca818a49f4afb772d2b8a6be37346488cca0ef11b43e3b75683f83653eb5248cc600d2b64e".
Proof. vm_compute. reflexivity. Qed.

Example hmac_sha384_gen_k164_m200 :
  hmac_sha384 (hex "38f7f14b7dd7b7e3c7361d819decd41ea36ff1ce505cfd850912a1e70d1800f40d3f339b65b5879d43835a3b3819c49600f26acf797326352083591f808822406ac6ca89f34c0fed78e637a436cb09ad32f917bc7469eecee1a72613306662e7c419b3fd6abbef17413dffc354482415a157b2579948d60e5be656e32c206251f1d5e916b17909d15ffc835072a95a7114f5fd99df6fa4257f3fba62a6fb87dd2dad7223")
    (hex "0d812ced0d5d6dfcdcd91fda8d7752c0576825105ee8c4b5a4daf5f214d0eefa06044edba7d7588f15f6e55838269ea88c5d6b2e6cb33ee4a538982c47db6c4806d64dd6a74ffc0d3e2cc7dc47495940d178db5d531c9131d4304cfe8b0c69af194825d5fc798917edc231193f59b437669274ae51030ef639d1c077f84877d62f3d5681b5e1f3421c0e94f5492723ae6b18b6e4cb1ccc81403ca7d64bc86ed91d2de33708e5f316267e658c34d56139e80ca87846efa414b7a9b891e31a69479b23540b4eb7040f")
  = hex "bc7f1d9db62281492e7699e8857f7212ea62858f289fe98b9eb184b1d4eacee903709ca7995f6895fbce160ec7d082d2".
Proof. vm_compute. reflexivity. Qed.

Example hmac_sha384_gen_k259_m55 :
  hmac_sha384 (hex "3edfe4b59b52823114e7c478b769ed6aabfe0513dc22eb825698d8791b20385c80f61dfb7658ab2a4b9a4d32ab9087a10f4ab7f8d26b203a9ba3076ed005ca7e4e44241790201f6cfd7b570115e18fe6a78cc8fb561b473201894adff02c5b8dc6b16feba16c50c7e46afb279925eef86bbf98e297235d3d5d7be334d7d09e8b39c9c89fd4de488f6e6c28aed0889f9c8680d9b53b5af5af36d0ec97d98f597f2cbc4b9dc800a19bbdaba060479db49b571193c25c7a3364c90351f53d6e6974575d6a94913e8b46a772f9ce7d5851c1705820998722d2b705b3d1003cd4ba78a824ea79b6e8ca71b6339d4ce813afdf99de3010bdd3208b8ea3012f048c509d3f2ce3")
    (hex "f7e15d45946f3fc1a91285fe2682ef92362bd5fc30d00dbf6ec31ba9dcb10c5a3b26a75a634dc65cf89a19796f4b907b5000398a06d556")
  = hex "6115287e53cdebd2ef5fb516323163c0227f7a2f94281b0f306122301a64f6c268162ce1caa7ac76e983cdc857d2f116".
Proof. vm_compute. reflexivity. Qed.

Example hmac_sha384_gen_k259_m128 :
  hmac_sha384 (hex "3edfe4b59b52823114e7c478b769ed6aabfe0513dc22eb825698d8791b20385c80f61dfb7658ab2a4b9a4d32ab9087a10f4ab7f8d26b203a9ba3076ed005ca7e4e44241790201f6cfd7b570115e18fe6a78cc8fb561b473201894adff02c5b8dc6b16feba16c50c7e46afb279925eef86bbf98e297235d3d5d7be334d7d09e8b39c9c89fd4de488f6e6c28aed0889f9c8680d9b53b5af5af36d0ec97d98f597f2cbc4b9dc800a19bbdaba060479db49b571193c25c7a3364c90351f53d6e6974575d6a94913e8b46a772f9ce7d5851c1705820998722d2b705b3d1003cd4ba78a824ea79b6e8ca71b6339d4ce813afdf99de3010bdd3208b8ea3012f048c509d3f2ce3")
    (hex "08993883efe2a1ad8f2779e373f939754fd811cbd322d7b75754bf6006c9b692934c647b963533020edff261c6afda9d7d061e0512bb44df2a18e9ddf65fc50b2258f4480a7aec8fba97a77f6933d3085de52a1d716a38cdb44e2832cb46710917af69e7c4c928674b9535b4fa7dea559b2a8e23532887c7373c33264d993b9c")
  = hex "25920a8401052e4d7282eabc351d05bb32cc1bedce3e73383b0befff93bbbf5bdf86e1182d1229e6d5c601432afec8bc".
Proof. vm_compute. reflexivity. Qed.

(* ================= hmac_sha512 ================= *)

(* published: RFC 4231 section 4 (test case 5 is the full, untruncated tag) *)
Example hmac_sha512_pub_1 :
  hmac_sha512 (hex "0b0b0b0b0b0b0b0b0b0b0b0b0b0b0b0b0b0b0b0b")
    (str "Hi There")
  = hex "87aa7cdea5ef619d4ff0b4241a1d6cb02379f4e2ce4ec2787ad0b30545e17cdedaa833b7d6b8a702038b274eaea3f4e4be9d914eeb61f1702e696c203a126854".
Proof. vm_compute. reflexivity. Qed.

Example hmac_sha512_pub_2 :
  hmac_sha512 (str "Jefe")
    (str "what do ya want for nothing?")
  = hex "164b7a7bfcf819e2e395fbe73b56e0a387bd64222e831fd610270cd7ea2505549758bf75c05a994a6d034f65f8f0e6fdcaeab1a34d4a6b4b636e070a38bce737".
Proof. vm_compute. reflexivity. Qed.

Example hmac_sha512_pub_3 :
  hmac_sha512 (hex "aaaaaaaaaaaaaaaaaaaaaaaaaaaaaaaaaaaaaaaa")
    (hex "dddddddddddddddddddddddddddddddddddddddddddddddddddddddddddddddddddddddddddddddddddddddddddddddddddd")
  = hex "fa73b0089d56a284efb0f0756c890be9b1b5dbdd8ee81a3655f83e33b2279d39bf3e848279a722c806b485a47e67c807b946a337bee8942674278859e13292fb".
Proof. vm_compute. reflexivity. Qed.

Example hmac_sha512_pub_4 :
  hmac_sha512 (hex "0102030405060708090a0b0c0d0e0f10111213141516171819")
    (hex "cdcdcdcdcdcdcdcdcdcdcdcdcdcdcdcdcdcdcdcdcdcdcdcdcdcdcdcdcdcdcdcdcdcdcdcdcdcdcdcdcdcdcdcdcdcdcdcdcdcd")
  = hex "b0ba465637458c6990e5a8c5f61d4af7e576d97ff94b872de76f8050361ee3dba91ca5c11aa25eb4d679275cc5788063a5f19741120c4f2de2adebeb10a298dd".
Proof. vm_compute. reflexivity. Qed.

Example hmac_sha512_pub_5 :
  hmac_sha512 (hex "0c0c0c0c0c0c0c0c0c0c0c0c0c0c0c0c0c0c0c0c")
    (str "Test With Truncation")
  = hex "415fad6271580a531d4179bc891d87a650188707922a4fbb36663a1eb16da008711c5b50ddd0fc235084eb9d3364a1454fb2ef67cd1d29fe6773068ea266e96b".
Proof. vm_compute. reflexivity. Qed.

Example hmac_sha512_pub_6 :
  hmac_sha512 (hex "aaaaaaaaaaaaaaaaaaaaaaaaaaaaaaaaaaaaaaaaaaaaaaaaaaaaaaaaaaaaaaaaaaaaaaaaaaaaaaaaaaaaaaaaaaaaaaaaaaaaaaaaaaaaaaaaaaaaaaaaaaaaaaaaaaaaaaaaaaaaaaaaaaaaaaaaaaaaaaaaaaaaaaaaaaaaaaaaaaaaaaaaaaaaaaaaaaaaaaaaaaaaaaaaaaaaaaaaaaaaaaaaaaaaaaaaaaaaaaaaaaaaaaaaaaaaaaaaaaaaaa")
    (str "Test Using Larger Than Block-Size Key - Hash Key First")
  = hex "80b24263c7c1a3ebb71493c1dd7be8b49b46d1f41b4aeec1121b013783f8f3526b56d037e05f2598bd0fd2215d6a1e5295e64f73f63f0aec8b915a985d786598".
Proof. vm_compute. reflexivity. Qed.

Example hmac_sha512_pub_7 :
  hmac_sha512 (hex "aaaaaaaaaaaaaaaaaaaaaaaaaaaaaaaaaaaaaaaaaaaaaaaaaaaaaaaaaaaaaaaaaaaaaaaaaaaaaaaaaaaaaaaaaaaaaaaaaaaaaaaaaaaaaaaaaaaaaaaaaaaaaaaaaaaaaaaaaaaaaaaaaaaaaaaaaaaaaaaaaaaaaaaaaaaaaaaaaaaaaaaaaaaaaaaaaaaaaaaaaaaaaaaaaaaaaaaaaaaaaaaaaaaaaaaaaaaaaaaaaaaaaaaaaaaaaaaaaaaaaa")
    (str "This is a test using a larger than block-size key and a larger than block-size data. The key needs to be hashed before being used by the HMAC algorithm.")
  = hex "e37b6a775dc87dbaa4dfa9f96e5e3ffddebd71f8867289865df5a32d20cdc944b6022cac3c4982b10d5eeb55c3e4de15134676fb6de0446065c97440fa8c6a58".
Proof. vm_compute. reflexivity. Qed.

(* generated with Go's crypto/hmac: key lengths below / at / above the block size *)
Example hmac_sha512_gen_k0_m0 :
  hmac_sha512 ([])
    ([])
  = hex "b936cee86c9f87aa5d3c6f2e84cb5a4239a5fe50480a6ec66b70ab5b1f4ac6730c6c515421b327ec1d69402e53dfb49ad7381eb067b338fd7b0cb22247225d47".
Proof. vm_compute. reflexivity. Qed.

Example hmac_sha512_gen_k0_m64 :
  hmac_sha512 ([])
    (hex "fcc951afb2eb0a10f6c42bf53fff08dd3ebae941bc96fbbcbc49513beab945c2aedd90ba74f0ebe9ffb10c71e1c253865f5785b35fcc50d634d78d4156657690")
  = hex "a16a3393d5173e2176e360d32385645038c3cb67605acda1dd5bce3d3abd4fd14fdc0bc14c60b1611f7d983ff39efbdd0d21c329ad1b3063af9e97d31a5c58bc".
Proof. vm_compute. reflexivity. Qed.

Example hmac_sha512_gen_k0_m200 :
  hmac_sha512 ([])
    (hex "0d812ced0d5d6dfcdcd91fda8d7752c0576825105ee8c4b5a4daf5f214d0eefa06044edba7d7588f15f6e55838269ea88c5d6b2e6cb33ee4a538982c47db6c4806d64dd6a74ffc0d3e2cc7dc47495940d178db5d531c9131d4304cfe8b0c69af194825d5fc798917edc231193f59b437669274ae51030ef639d1c077f84877d62f3d5681b5e1f3421c0e94f5492723ae6b18b6e4cb1ccc81403ca7d64bc86ed91d2de33708e5f316267e658c34d56139e80ca87846efa414b7a9b891e31a69479b23540b4eb7040f")
  = hex "5ad8e1991a1543c75b75b1211d72f948ee661a88119d1f657a8fd54c70c5e227b3adf84068e31fc9d9ac3c05d118df329d09d1da9aa902a3c3d0d4f822f19364".
Proof. vm_compute. reflexivity. Qed.

Example hmac_sha512_gen_k1_m55 :
  hmac_sha512 (hex "1c")
    (hex "f7e15d45946f3fc1a91285fe2682ef92362bd5fc30d00dbf6ec31ba9dcb10c5a3b26a75a634dc65cf89a19796f4b907b5000398a06d556")
  = hex "bf077b5902734f5daba30b903c2449c410c06af5bee17358578a832382370bedc3e1af4fc360c4252c4068200391a503a7f8193213c35c27c15c6eea0389ecf5".
Proof. vm_compute. reflexivity. Qed.

Example hmac_sha512_gen_k1_m128 :
  hmac_sha512 (hex "1c")
    (hex "08993883efe2a1ad8f2779e373f939754fd811cbd322d7b75754bf6006c9b692934c647b963533020edff261c6afda9d7d061e0512bb44df2a18e9ddf65fc50b2258f4480a7aec8fba97a77f6933d3085de52a1d716a38cdb44e2832cb46710917af69e7c4c928674b9535b4fa7dea559b2a8e23532887c7373c33264d993b9c")
  = hex "c9bd92f25f63c6575d8bb53bd0bc283e849cc04dc2c8e6084a275fda4edcee12a55f3ce5ccc6134e0d0c17a596d7977c3ded4ca16e75f99901b353c0e0498f22".
Proof. vm_compute. reflexivity. Qed.

Example hmac_sha512_gen_k16_m1 :
  hmac_sha512 (hex "225723a404e989a7946f82a436f771ef")
    (hex "f1")
  = hex "fa340708795a6671d60c98fcf545d308e4b4d4ce014c5f4488ffffc9e5908ae022ca53fb6227c81c84dc7a21f19fad710c50d906f2cce959f340a8ed8495cf1f".
Proof. vm_compute. reflexivity. Qed.

Example hmac_sha512_gen_k16_m111 :
  hmac_sha512 (hex "225723a404e989a7946f82a436f771ef")
    (hex "02b14519d166d65f4376d2ec597c20294649fd86475ce9ba09ce88cdf8c17d2a21957a1a85920f7506c8ff69543917916eaed2dcb9c44adbaff83b8fa6e21ecd3fda9bba6ca6dd10350287228b1d4cd0e85278de90b9df69956c04660c8078631417acfa8d19c7b7a8673a50b5a021")
  = hex "3a433819bea2e650f099b340a5a95013bc9c988d3e407818d49a94ab15fdf11a94e484fbb3dce9cb24e0ade3186f15463734b4ef53b9020fee73d95850b90e81".
Proof. vm_compute. reflexivity. Qed.

Example hmac_sha512_gen_k127_m0 :
  hmac_sha512 (hex "283f160e226455f6e121299b50748a3b8ac1b5feae0a348c2181fd31e30056bbb518767a32ce1af72d3f8153e1b57974d3ec85546c8d3727b0234d348f122d88bf4cbfde1bcee172e926d78d9c8a7705d53f02fdd154e3a28200baaff1137af4bd4f7d35c4aacc0659b50c9585b2c86d411f01b89eb741805428adef2911af")
    ([])
  = hex "b25cd67d81d951d8f591cd9dba9996d1561ff3a4f1a49e068af98fe3f180f456e1e074b9a400566ff9ff1eb5acc7b85108b8eb2aa9d3a741e68aff4df075a9b4".
Proof. vm_compute. reflexivity. Qed.

Example hmac_sha512_gen_k127_m64 :
  hmac_sha512 (hex "283f160e226455f6e121299b50748a3b8ac1b5feae0a348c2181fd31e30056bbb518767a32ce1af72d3f8153e1b57974d3ec85546c8d3727b0234d348f122d88bf4cbfde1bcee172e926d78d9c8a7705d53f02fdd154e3a28200baaff1137af4bd4f7d35c4aacc0659b50c9585b2c86d411f01b89eb741805428adef2911af")
    (hex "fcc951afb2eb0a10f6c42bf53fff08dd3ebae941bc96fbbcbc49513beab945c2aedd90ba74f0ebe9ffb10c71e1c253865f5785b35fcc50d634d78d4156657690")
  = hex "042d7e2a978c0b7e5255145030d706e2128c3c044a8274d07e7b4c26733d4b371204238ea24e334b299fb5edfc5f0a010acbf5e75e41c4ebfe74946a8950b000".
Proof. vm_compute. reflexivity. Qed.

Example hmac_sha512_gen_k127_m200 :
  hmac_sha512 (hex "283f160e226455f6e121299b50748a3b8ac1b5feae0a348c2181fd31e30056bbb518767a32ce1af72d3f8153e1b57974d3ec85546c8d3727b0234d348f122d88bf4cbfde1bcee172e926d78d9c8a7705d53f02fdd154e3a28200baaff1137af4bd4f7d35c4aacc0659b50c9585b2c86d411f01b89eb741805428adef2911af")
    (hex "0d812ced0d5d6dfcdcd91fda8d7752c0576825105ee8c4b5a4daf5f214d0eefa06044edba7d7588f15f6e55838269ea88c5d6b2e6cb33ee4a538982c47db6c4806d64dd6a74ffc0d3e2cc7dc47495940d178db5d531c9131d4304cfe8b0c69af194825d5fc798917edc231193f59b437669274ae51030ef639d1c077f84877d62f3d5681b5e1f3421c0e94f5492723ae6b18b6e4cb1ccc81403ca7d64bc86ed91d2de33708e5f316267e658c34d56139e80ca87846efa414b7a9b891e31a69479b23540b4eb7040f")
  = hex "881d546ba0320a6552981c0da0152ad4696fb05de59becaf006e65f6f1e9728bb00755ca6cbfbad3dc0d83a8cca59345a696f93bc6a4ed4f3bce942b7834b4c4".
Proof. vm_compute. reflexivity. Qed.

Example hmac_sha512_gen_k128_m55 :
  hmac_sha512 (hex "2d270a7840e020452ed3d0926af1a3879350c94439d0228a6e0734c3f1088e2327d05fda43703e833455744b542c3d7fe243d17dc684312b2b43fc83df8fd4c5a3ca186cb8a3f1f06ebbf7ea7aa0fd3d49d2b33db2063c06a2e2de7bb1d9729abfe83922fb5b2db6fbe208f9ca8e92500b87e6439c92c8b056bd3a40d5c1ebdc")
    (hex "f7e15d45946f3fc1a91285fe2682ef92362bd5fc30d00dbf6ec31ba9dcb10c5a3b26a75a634dc65cf89a19796f4b907b5000398a06d556")
  = hex "a94c2379a44bfadf5b82ab3b9830cd140dbc2df76c1f5a9a333ed03f0a817e18b29e2a3221c6185d9f06c24c5eace3695f79fcacc493e8827c6b9d5f17461149".
Proof. vm_compute. reflexivity. Qed.

Example hmac_sha512_gen_k128_m128 :
  hmac_sha512 (hex "2d270a7840e020452ed3d0926af1a3879350c94439d0228a6e0734c3f1088e2327d05fda43703e833455744b542c3d7fe243d17dc684312b2b43fc83df8fd4c5a3ca186cb8a3f1f06ebbf7ea7aa0fd3d49d2b33db2063c06a2e2de7bb1d9729abfe83922fb5b2db6fbe208f9ca8e92500b87e6439c92c8b056bd3a40d5c1ebdc")
    (hex "08993883efe2a1ad8f2779e373f939754fd811cbd322d7b75754bf6006c9b692934c647b963533020edff261c6afda9d7d061e0512bb44df2a18e9ddf65fc50b2258f4480a7aec8fba97a77f6933d3085de52a1d716a38cdb44e2832cb46710917af69e7c4c928674b9535b4fa7dea559b2a8e23532887c7373c33264d993b9c")
  = hex "62a939013ec367dddb9e446ff95ccc19c5a858e1fd448977fe0f7be7eda1c2a15cd5cbdf0ff3d44fe4047fb611b6d3084dbc3505fe1e9544b824a637ce5714ea".
Proof. vm_compute. reflexivity. Qed.

Example hmac_sha512_gen_k128_m200 :
  hmac_sha512 (hex "2d270a7840e020452ed3d0926af1a3879350c94439d0228a6e0734c3f1088e2327d05fda43703e833455744b542c3d7fe243d17dc684312b2b43fc83df8fd4c5a3ca186cb8a3f1f06ebbf7ea7aa0fd3d49d2b33db2063c06a2e2de7bb1d9729abfe83922fb5b2db6fbe208f9ca8e92500b87e6439c92c8b056bd3a40d5c1ebdc")
    (hex "0d812ced0d5d6dfcdcd91fda8d7752c0576825105ee8c4b5a4daf5f214d0eefa06044edba7d7588f15f6e55838269ea88c5d6b2e6cb33ee4a538982c47db6c4806d64dd6a74ffc0d3e2cc7dc47495940d178db5d531c9131d4304cfe8b0c69af194825d5fc798917edc231193f59b437669274ae51030ef639d1c077f84877d62f3d5681b5e1f3421c0e94f5492723ae6b18b6e4cb1ccc81403ca7d64bc86ed91d2de33708e5f316267e658c34d56139e80ca87846efa414b7a9b891e31a69479b23540b4eb7040f")
  = hex "bcc4d88c7b076e7cd7a48b18e532f85a75cadc54d915cf3ad08c497eac110f91daf0a04b4637d88cf9ce44511643ce625cfba5a6875e991e39ff4677fbf99854".
Proof. vm_compute. reflexivity. Qed.

Example hmac_sha512_gen_k129_m1 :
  hmac_sha512 (hex "330ffde15f5beb947a84768a846ebbd39be0dd89c5960f87bc8c6a55ff10c78b9a87493b541363103c6c6743c6a2008bf19b1ea61f7c2b30a563aad1300c7b03874871fb5577006ff351174758b68375be65657c93b7956ac1c50247709f6a41c280f610320b8e679e0f045e0f6b5b32d6efcccd9a6d4fdf5951c89280702617a9")
    (hex "f1")
  = hex "33ad362303f69a68083a2254a8b5e9a1540a66d0f03dcbeda9dd8d45ca86b3c4d11f08d5e84e470ad9ca9fac65b0a4307e6bd74df212be15dafd225e8f53cf2e".
Proof. vm_compute. reflexivity. Qed.

Example hmac_sha512_gen_k129_m111 :
  hmac_sha512 (hex "330ffde15f5beb947a84768a846ebbd39be0dd89c5960f87bc8c6a55ff10c78b9a87493b541363103c6c6743c6a2008bf19b1ea61f7c2b30a563aad1300c7b03874871fb5577006ff351174758b68375be65657c93b7956ac1c50247709f6a41c280f610320b8e679e0f045e0f6b5b32d6efcccd9a6d4fdf5951c89280702617a9")
    (hex "02b14519d166d65f4376d2ec597c20294649fd86475ce9ba09ce88cdf8c17d2a21957a1a85920f7506c8ff69543917916eaed2dcb9c44adbaff83b8fa6e21ecd3fda9bba6ca6dd10350287228b1d4cd0e85278de90b9df69956c04660c8078631417acfa8d19c7b7a8673a50b5a021")
  = hex "51e4beb1a1d8b1a075459789d97303b7c2f44d1e69f22696349434b2136a2658acf520ce0a61a76dcff7fd3b1bec432a8fcfc142671cbd44ca7a5a1ab819fffe".
Proof. vm_compute. reflexivity. Qed.

Example hmac_sha512_gen_k164_m0 :
  hmac_sha512 (hex "38f7f14b7dd7b7e3c7361d819decd41ea36ff1ce505cfd850912a1e70d1800f40d3f339b65b5879d43835a3b3819c49600f26acf797326352083591f808822406ac6ca89f34c0fed78e637a436cb09ad32f917bc7469eecee1a72613306662e7c419b3fd6abbef17413dffc354482415a157b2579948d60e5be656e32c206251f1d5e916b17909d15ffc835072a95a7114f5fd99df6fa4257f3fba62a6fb87dd2dad7223")
    ([])
  = hex "13d8097f4f95d377cca81beaeabf233ff2a8396e2f902f8fd4249c5aafad5dcc66aa5cc303cf23654d39b08fc498ed7e68b00dc8cf19ec64e76384b0e714a0cf".
Proof. vm_compute. reflexivity. Qed.

Example hmac_sha512_gen_k164_m64 :
  hmac_sha512 (hex "38f7f14b7dd7b7e3c7361d819decd41ea36ff1ce505cfd850912a1e70d1800f40d3f339b65b5879d43835a3b3819c49600f26acf797326352083591f808822406ac6ca89f34c0fed78e637a436cb09ad32f917bc7469eecee1a72613306662e7c419b3fd6abbef17413dffc354482415a157b2579948d60e5be656e32c206251f1d5e916b17909d15ffc835072a95a7114f5fd99df6fa4257f3fba62a6fb87dd2dad7223")
    (hex "fcc951afb2eb0a10f6c42bf53fff08dd3ebae941bc96fbbcbc49513beab945c2aedd90ba74f0ebe9ffb10c71e1c253865f5785b35fcc50d634d78d4156657690")
  = hex "40b82a686af02f76317a6e2ab3637ab63b719d4a232602b52c38afcd141fb5d2c129dbc84c68600bcc13cf0cb550191b3b294641ff260cdcc9fb748b4f8fc761".
Proof. vm_compute. reflexivity. Qed.

Example hmac_sha512_gen_k164_m200 :
  hmac_sha512 (hex "38f7f14b7dd7b7e3c7361d819decd41ea36ff1ce505cfd850912a1e70d1800f40d3f339b65b5879d43835a3b3819c49600f26acf797326352083591f808822406ac6ca89f34c0fed78e637a436cb09ad32f917bc7469eecee1a72613306662e7c419b3fd6abbef17413dffc354482415a157b2579948d60e5be656e32c206251f1d5e916b17909d15ffc835072a95a7114f5fd99df6fa4257f3fba62a6fb87dd2dad7223")
    (hex "0d812ced0d5d6dfcdcd91fda8d7752c0576825105ee8c4b5a4daf5f214d0eefa06044edba7d7588f15f6e55838269ea88c5d6b2e6cb33ee4a538982c47db6c4806d64dd6a74ffc0d3e2cc7dc47495940d178db5d531c9131d4304cfe8b0c69af194825d5fc798917edc231193f59b437669274ae51030ef639d1c077f84877d62f3d5681b5e1f3421c0e94f5492723ae6b18b6e4cb1ccc81403ca7d64bc86ed91d2de33708e5f316267e658c34d56139e80ca87846efa414b7a9b891e31a69479b23540b4eb7040f")
  = hex "e66892db1d9ae7442ce989fb8e645a9f7642507f85231400cb00b69daaeb2128857bff7ae7c1de46161262b3c3b969b0d7191cde83ea1713bd5cabf635653e1d".
Proof. vm_compute. reflexivity. Qed.

Example hmac_sha512_gen_k259_m55 :
  hmac_sha512 (hex "3edfe4b59b52823114e7c478b769ed6aabfe0513dc22eb825698d8791b20385c80f61dfb7658ab2a4b9a4d32ab9087a10f4ab7f8d26b203a9ba3076ed005ca7e4e44241790201f6cfd7b570115e18fe6a78cc8fb561b473201894adff02c5b8dc6b16feba16c50c7e46afb279925eef86bbf98e297235d3d5d7be334d7d09e8b39c9c89fd4de488f6e6c28aed0889f9c8680d9b53b5af5af36d0ec97d98f597f2cbc4b9dc800a19bbdaba060479db49b571193c25c7a3364c90351f53d6e6974575d6a94913e8b46a772f9ce7d5851c1705820998722d2b705b3d1003cd4ba78a824ea79b6e8ca71b6339d4ce813afdf99de3010bdd3208b8ea3012f048c509d3f2ce3")
    (hex "f7e15d45946f3fc1a91285fe2682ef92362bd5fc30d00dbf6ec31ba9dcb10c5a3b26a75a634dc65cf89a19796f4b907b5000398a06d556")
  = hex "dad627476e44365656cc52e7558c4c188dd9ff391a6819abec1942dce023d8484497ee72366c8f50380f34b23bd3bbe3e82694f2307af4f035f6e39dd6ea4012".
Proof. vm_compute. reflexivity. Qed.

Example hmac_sha512_gen_k259_m128 :
  hmac_sha512 (hex "3edfe4b59b52823114e7c478b769ed6aabfe0513dc22eb825698d8791b20385c80f61dfb7658ab2a4b9a4d32ab9087a10f4ab7f8d26b203a9ba3076ed005ca7e4e44241790201f6cfd7b570115e18fe6a78cc8fb561b473201894adff02c5b8dc6b16feba16c50c7e46afb279925eef86bbf98e297235d3d5d7be334d7d09e8b39c9c89fd4de488f6e6c28aed0889f9c8680d9b53b5af5af36d0ec97d98f597f2cbc4b9dc800a19bbdaba060479db49b571193c25c7a3364c90351f53d6e6974575d6a94913e8b46a772f9ce7d5851c1705820998722d2b705b3d1003cd4ba78a824ea79b6e8ca71b6339d4ce813afdf99de3010bdd3208b8ea3012f048c509d3f2ce3")
    (hex "08993883efe2a1ad8f2779e373f939754fd811cbd322d7b75754bf6006c9b692934c647b963533020edff261c6afda9d7d061e0512bb44df2a18e9ddf65fc50b2258f4480a7aec8fba97a77f6933d3085de52a1d716a38cdb44e2832cb46710917af69e7c4c928674b9535b4fa7dea559b2a8e23532887c7373c33264d993b9c")
  = hex "7db26769024e08711ec7bd13e3ce60c131051d815705a90ae820c361d2923193383692501ef856f22f868921f8f65c4257552a7f1afd8ce2dd0200f295708401".
Proof. vm_compute. reflexivity. Qed.

(* ================= pbkdf2 ================= *)

(* published: RFC 6070 (PBKDF2-HMAC-SHA1) test vectors 1, 2 and 3 (iteration counts 1, 2, 4096) *)
Example pbkdf2_sha1_rfc6070_1 :
  pbkdf2_sha1 (str "password") (str "salt") 1 20%nat
  = hex "0c60c80f961f0e71f3a9b524af6012062fe037a6".
Proof. vm_compute. reflexivity. Qed.

Example pbkdf2_sha1_rfc6070_2 :
  pbkdf2_sha1 (str "password") (str "salt") 2 20%nat
  = hex "ea6c014dc72d6f8ccd1ed92ace1d41f0d8de8957".
Proof. vm_compute. reflexivity. Qed.

Example pbkdf2_sha1_rfc6070_3 :
  pbkdf2_sha1 (str "password") (str "salt") 4096 20%nat
  = hex "4b007901b765489abead49d926f721d065a429c1".
Proof. vm_compute. reflexivity. Qed.

(* published: RFC 3962 appendix B (PBKDF2 stage of the Kerberos AES string-to-key):
   iteration counts 1, 2, 1200 with salt ATHENA.MIT.EDUraeburn, and 5 with salt 0x1234567878563412 *)
Example pbkdf2_sha1_rfc3962_1 :
  pbkdf2_sha1 (str "password") (str "ATHENA.MIT.EDUraeburn") 1 16%nat
  = hex "cdedb5281bb2f801565a1122b2563515".
Proof. vm_compute. reflexivity. Qed.

Example pbkdf2_sha1_rfc3962_2 :
  pbkdf2_sha1 (str "password") (str "ATHENA.MIT.EDUraeburn") 1 32%nat
  = hex "cdedb5281bb2f801565a1122b25635150ad1f7a04bb9f3a333ecc0e2e1f70837".
Proof. vm_compute. reflexivity. Qed.

Example pbkdf2_sha1_rfc3962_3 :
  pbkdf2_sha1 (str "password") (str "ATHENA.MIT.EDUraeburn") 2 16%nat
  = hex "01dbee7f4a9e243e988b62c73cda935d".
Proof. vm_compute. reflexivity. Qed.

Example pbkdf2_sha1_rfc3962_4 :
  pbkdf2_sha1 (str "password") (str "ATHENA.MIT.EDUraeburn") 2 32%nat
  = hex "01dbee7f4a9e243e988b62c73cda935da05378b93244ec8f48a99e61ad799d86".
Proof. vm_compute. reflexivity. Qed.

Example pbkdf2_sha1_rfc3962_5 :
  pbkdf2_sha1 (str "password") (str "ATHENA.MIT.EDUraeburn") 1200 32%nat
  = hex "5c08eb61fdf71e4e4ec3cf6ba1f5512ba7e52ddbc5e5142f708a31e2e62b1e13".
Proof. vm_compute. reflexivity. Qed.

Example pbkdf2_sha1_rfc3962_6 :
  pbkdf2_sha1 (str "password") (hex "1234567878563412") 5 16%nat
  = hex "d1daa78615f287e6a1c8b120d7062a49".
Proof. vm_compute. reflexivity. Qed.

Example pbkdf2_sha1_rfc3962_7 :
  pbkdf2_sha1 (str "password") (hex "1234567878563412") 5 32%nat
  = hex "d1daa78615f287e6a1c8b120d7062a493f98d203e6be49a6adf4fa574b6e64ee".
Proof. vm_compute. reflexivity. Qed.

(* inputs of RFC 6070 vectors 5, 6 and of the RFC 3962 64-/65-byte pass phrases, but with small
   iteration counts (outputs from golang.org/x/crypto/pbkdf2) *)
Example pbkdf2_sha1_var_1 :
  pbkdf2_sha1 (str "passwordPASSWORDpassword") (str "saltSALTsaltSALTsaltSALTsaltSALTsalt") 1 25%nat
  = hex "91b28c9be987f7b2c91a8f3f284136283a0de2bbd1539a44f3".
Proof. vm_compute. reflexivity. Qed.

Example pbkdf2_sha1_var_2 :
  pbkdf2_sha1 (hex "7061737300776f7264") (hex "7361006c74") 2 16%nat
  = hex "6e6df5e5f1752bbbd40f5531fe2e1d1d".
Proof. vm_compute. reflexivity. Qed.

Example pbkdf2_sha1_var_3 :
  pbkdf2_sha1 (str "XXXXXXXXXXXXXXXXXXXXXXXXXXXXXXXXXXXXXXXXXXXXXXXXXXXXXXXXXXXXXXXX") (str "pass phrase equals block size") 5 32%nat
  = hex "b1e8a6c22bc4435807ac10ccfc59cc760e138a3ad6a160d719e3eae1446b8449".
Proof. vm_compute. reflexivity. Qed.

Example pbkdf2_sha1_var_4 :
  pbkdf2_sha1 (str "XXXXXXXXXXXXXXXXXXXXXXXXXXXXXXXXXXXXXXXXXXXXXXXXXXXXXXXXXXXXXXXXX") (str "pass phrase exceeds block size") 5 32%nat
  = hex "d99a2823757cac5ed4241d7b9d2995badd77302f2185e14625d26cfe6934ee51".
Proof. vm_compute. reflexivity. Qed.

(* pbkdf2_sha1: generated with golang.org/x/crypto/pbkdf2 *)
Example pbkdf2_sha1_gen_c1_dk16 :
  pbkdf2_sha1 (hex "c09bb112e8ff5e3d")
    (hex "9525ecb4788514573af53cc3") 1 16%nat
  = hex "55aea3f4f856a99962dda4a4f9a826b2".
Proof. vm_compute. reflexivity. Qed.

Example pbkdf2_sha1_gen_c1_dk32 :
  pbkdf2_sha1 (hex "c683a57c067a298c71")
    (hex "9b0ddf1e9701dfa586a7e2baeb1b") 1 32%nat
  = hex "2b8026d7fa35deb7f453dd7262a3697efe2046719e798d128ea4718c1171c009".
Proof. vm_compute. reflexivity. Qed.

Example pbkdf2_sha1_gen_c1_dk40 :
  pbkdf2_sha1 (hex "cb6b98e625f6f5dbbeb5")
    (hex "a0f5d387b57cabf4d35889b10598ead6") 1 40%nat
  = hex "bfabf110ca32b075f8b362c2f19c657980936d8b03f1f3fa86d062a06af9ecd30c6ce0914eb3b468".
Proof. vm_compute. reflexivity. Qed.

Example pbkdf2_sha1_gen_c2_dk16 :
  pbkdf2_sha1 (hex "d1538c504371c0290b672d")
    (hex "a6ddc6f1d3f87643200a30a81e150322a6ac") 2 16%nat
  = hex "fe462d18bc4f0291e5fd4831987c445f".
Proof. vm_compute. reflexivity. Qed.

Example pbkdf2_sha1_gen_c2_dk32 :
  pbkdf2_sha1 (hex "d73b7fba61ed8c785819d446")
    (hex "abc5ba5bf27342926dbcd69f38921c6eae3b670b") 2 32%nat
  = hex "012520122ec36d6966a0c0cc7af0b9f95372ef7ef11f9e91f060e2bdad87f2ed".
Proof. vm_compute. reflexivity. Qed.

Example pbkdf2_sha1_gen_c2_dk40 :
  pbkdf2_sha1 (hex "dc237324806857c7a5ca7b3d63")
    (hex "b1adadc510ef0de1ba6d7d96520f34b9b6ca7b50ef3a") 2 40%nat
  = hex "5258894b1c0ab91fa4a66a02f7c1628ba33c2ff8ccb849d589591e33a264f460b8a0d6fd6c57a497".
Proof. vm_compute. reflexivity. Qed.

Example pbkdf2_sha1_gen_c5_dk16 :
  pbkdf2_sha1 (hex "e20b668e9ee42316f17c21347c02")
    (hex "b695a12f2e6ad830061f248d6c8d4d05be598f957b005314") 5 16%nat
  = hex "7df497fd39b66b6c32ca97f79e2dceb9".
Proof. vm_compute. reflexivity. Qed.

Example pbkdf2_sha1_gen_c5_dk32 :
  pbkdf2_sha1 (hex "e7f35af8bc5fee653e2dc82b967fe8")
    (hex "bc7d94994de6a47f53d0ca85860a6651c6e8a3da06c6411228ee") 5 32%nat
  = hex "0f4d27cfb794a2663bff9d11d4fa17364342a842da974695d1a3c1353caa733a".
Proof. vm_compute. reflexivity. Qed.

Example pbkdf2_sha1_gen_c5_dk40 :
  pbkdf2_sha1 (hex "eddb4d62dbdbb9b48bdf6f22b0fc01fa")
    (hex "c26588036b616fcea082717ca0877e9ccf77b720928c2e0f75740b2b") 5 40%nat
  = hex "d65ee504c67efccaef999af3d3f246ebea914ef178c6904021cb472a4e874e57421374f2fe25f0b2".
Proof. vm_compute. reflexivity. Qed.

Example pbkdf2_sha1_gen_p150_s16_c3_dk100 :
  pbkdf2_sha1 (hex "5ede3f81cc1533d3b535f12e8d2f054a31d924ae2d5cac5809033d80b9bbf6ce5d975098e329a8fe5096eef3a5971084b9e3090278b5b6cc5d55e2de18ee0f73bb150b4ed9b446796c58789d87141638095c9c45e3a8b13bafbb9f609fcebad605109aeff8314d98dde8e9f7d8a816895f038a5e8a5c7d36c5eb93a80344d993a8d0ab7db0f1bea8dbc29ffcdea8540edb2c02e5afca")
    (hex "33687a225d9be9eccad8f3887cba83ec") 3 100%nat
  = hex "cbd295ea0d6be6a743f1bc752d0dc1e0c111de62ee27b5561819229dbf79db20553f701a261270d926de2042e0c7a924fe8fc04014da0530cc9030be453998b03e804c2559d66af0656b1bf434ec06c3267c1a3d820506495bd2179f584cec019f76713d".
Proof. vm_compute. reflexivity. Qed.

Example pbkdf2_sha1_gen_p64_s0_c2_dk20 :
  pbkdf2_sha1 (hex "64c633ebea90fe2102e79725a6ac1e96396838f3b8229a5657897412c7c32f36cf4e3af8f4cccc8b57ade1eb170dd48fc83b552bd2acb1d1d775902c696bb7b1")
    ([]) 2 20%nat
  = hex "c1bd80a429e28c9ed01291f2e8d3913c2a725e96".
Proof. vm_compute. reflexivity. Qed.

Example pbkdf2_sha1_gen_p5_s8_c1_dk0 :
  pbkdf2_sha1 (hex "6aaf265509")
    (hex "3e3961f69992808a") 1 0%nat
  = hex "".
Proof. vm_compute. reflexivity. Qed.

Example pbkdf2_sha1_gen_p5_s8_c0_dk24 :
  pbkdf2_sha1 (hex "6f971abf27")
    (hex "44215460b80e4bd9") 0 24%nat
  = hex "08f7a396e77d5f2e69e1dac472785dd80875942b982d2e34".
Proof. vm_compute. reflexivity. Qed.

Example pbkdf2_sha1_gen_p129_s130_c5_dk48 :
  pbkdf2_sha1 (hex "757f0d294603610ee8fb8b0bf4236879521674c35b74634e3f1918c9f2dad96e2775f71927b339316df1bad26f721eb1f5413ba6de939fdf48d59b175ae2ac694a0d70864e0684737fadf711006a2f19dca96343686e15cb2e442f909de79b6f0e728ca6d5f2d259689cd78aeb1b3c138aa3228783c899f2cd3ecaedb103c77cc9")
    (hex "490948cad6891628fd9e8d64e3aee61b060fa90569002a7edae16cd4f993c875213a125968d50a233f6445f06f7ff8c381ac3b05d1d3b78ecc8ada242035f671e61df2d40209709346f4874a11e87fac7b2927e44621b82e21cd557bf88ea13764a2ff7d67b16c5a152109e0d52ccb364fdee3dd3c83d0dbac2835817e2bdc01070b") 5 48%nat
  = hex "c28bca5147b5cc50f9269e6c25dfe9e056d71750c30cf5152bac250134d06801a3b5a1b9591cf4320622797f10dee317".
Proof. vm_compute. reflexivity. Qed.

(* pbkdf2_sha256: generated with golang.org/x/crypto/pbkdf2 *)
Example pbkdf2_sha256_gen_c1_dk16 :
  pbkdf2_sha256 (hex "cb6b98e625f6f5db")
    (hex "a0f5d387b57cabf4d35889b1") 1 16%nat
  = hex "cc9befa5c35786f63cb7e1d562ecd151".
Proof. vm_compute. reflexivity. Qed.

Example pbkdf2_sha256_gen_c1_dk32 :
  pbkdf2_sha256 (hex "d1538c504371c0290b")
    (hex "a6ddc6f1d3f87643200a30a81e15") 1 32%nat
  = hex "8d35e7621c76d2ea4076a7660e346690f06efc6b74ceb2fd374a61d91441ae0e".
Proof. vm_compute. reflexivity. Qed.

Example pbkdf2_sha256_gen_c1_dk40 :
  pbkdf2_sha256 (hex "d73b7fba61ed8c785819")
    (hex "abc5ba5bf27342926dbcd69f38921c6e") 1 40%nat
  = hex "d4428d33ace510ef35c9bea15e7ac31f2052ff8ab930f7d8fc4342c5c2234c2ea17e844cfa944a96".
Proof. vm_compute. reflexivity. Qed.

Example pbkdf2_sha256_gen_c2_dk16 :
  pbkdf2_sha256 (hex "dc237324806857c7a5ca7b")
    (hex "b1adadc510ef0de1ba6d7d96520f34b9b6ca") 2 16%nat
  = hex "5471ba08c2db9debd600084820157f9d".
Proof. vm_compute. reflexivity. Qed.

Example pbkdf2_sha256_gen_c2_dk32 :
  pbkdf2_sha256 (hex "e20b668e9ee42316f17c2134")
    (hex "b695a12f2e6ad830061f248d6c8d4d05be598f95") 2 32%nat
  = hex "d29269ebe84944393732ae894082ad15ad818d92267adf2f324139ca44a79551".
Proof. vm_compute. reflexivity. Qed.

Example pbkdf2_sha256_gen_c2_dk40 :
  pbkdf2_sha256 (hex "e7f35af8bc5fee653e2dc82b96")
    (hex "bc7d94994de6a47f53d0ca85860a6651c6e8a3da06c6") 2 40%nat
  = hex "97698b7930e7bd374ba88bb4e9e697b4a8c6ce9d1716425aad8cfc1ae09aa29b0b9941474be5697f".
Proof. vm_compute. reflexivity. Qed.

Example pbkdf2_sha256_gen_c5_dk16 :
  pbkdf2_sha256 (hex "eddb4d62dbdbb9b48bdf6f22b0fc")
    (hex "c26588036b616fcea082717ca0877e9ccf77b720928c2e0f") 5 16%nat
  = hex "5fcf43e152858ec12233c726595f7cd8".
Proof. vm_compute. reflexivity. Qed.

Example pbkdf2_sha256_gen_c5_dk32 :
  pbkdf2_sha256 (hex "f3c341cbf9568503d8901519ca791a")
    (hex "c74d7b6d8add3b1ced331873b90497e8d707cb651e521c0dc2f9") 5 32%nat
  = hex "fb2e57e6deebeb28af3ee59eade6f00163207bca17ec582dfde621a1aadc5adb".
Proof. vm_compute. reflexivity. Qed.

Example pbkdf2_sha256_gen_c5_dk40 :
  pbkdf2_sha256 (hex "f8ab343517d250522542bc10e4f63292")
    (hex "cd356fd7a858066b3ae5be6ad381b034df96dfaaa9180a0a107f7850") 5 40%nat
  = hex "e10addeffdcf02b9529092ca8821ca403030431f811acc7eb23ae156842768f681595e328940da6c".
Proof. vm_compute. reflexivity. Qed.

Example pbkdf2_sha256_gen_p150_s16_c3_dk100 :
  pbkdf2_sha256 (hex "5ede3f81cc1533d3b535f12e8d2f054a31d924ae2d5cac5809033d80b9bbf6ce5d975098e329a8fe5096eef3a5971084b9e3090278b5b6cc5d55e2de18ee0f73bb150b4ed9b446796c58789d87141638095c9c45e3a8b13bafbb9f609fcebad605109aeff8314d98dde8e9f7d8a816895f038a5e8a5c7d36c5eb93a80344d993a8d0ab7db0f1bea8dbc29ffcdea8540edb2c02e5afca")
    (hex "33687a225d9be9eccad8f3887cba83ec") 3 100%nat
  = hex "9949fb6163e860426219eb940e6529ae4ad69dbe1a4817caa987e55398dce810676b210cae1fa0a298188365709283d8e63b81f91b943b852ca9f62350e4ac3decf46c5e2d5227d594b7e7522272886d48d1530f765f3edbe1822af00720c69ffbc6842d".
Proof. vm_compute. reflexivity. Qed.

Example pbkdf2_sha256_gen_p64_s0_c2_dk20 :
  pbkdf2_sha256 (hex "64c633ebea90fe2102e79725a6ac1e96396838f3b8229a5657897412c7c32f36cf4e3af8f4cccc8b57ade1eb170dd48fc83b552bd2acb1d1d775902c696bb7b1")
    ([]) 2 20%nat
  = hex "f04ff1a179da314800effcb66a84cb499e015ed6".
Proof. vm_compute. reflexivity. Qed.

Example pbkdf2_sha256_gen_p5_s8_c1_dk0 :
  pbkdf2_sha256 (hex "6aaf265509")
    (hex "3e3961f69992808a") 1 0%nat
  = hex "".
Proof. vm_compute. reflexivity. Qed.

Example pbkdf2_sha256_gen_p5_s8_c0_dk24 :
  pbkdf2_sha256 (hex "6f971abf27")
    (hex "44215460b80e4bd9") 0 24%nat
  = hex "04c8efccdb7818da7104febe3ef32be105280fed36e1bd82".
Proof. vm_compute. reflexivity. Qed.

Example pbkdf2_sha256_gen_p129_s130_c5_dk48 :
  pbkdf2_sha256 (hex "757f0d294603610ee8fb8b0bf4236879521674c35b74634e3f1918c9f2dad96e2775f71927b339316df1bad26f721eb1f5413ba6de939fdf48d59b175ae2ac694a0d70864e0684737fadf711006a2f19dca96343686e15cb2e442f909de79b6f0e728ca6d5f2d259689cd78aeb1b3c138aa3228783c899f2cd3ecaedb103c77cc9")
    (hex "490948cad6891628fd9e8d64e3aee61b060fa90569002a7edae16cd4f993c875213a125968d50a233f6445f06f7ff8c381ac3b05d1d3b78ecc8ada242035f671e61df2d40209709346f4874a11e87fac7b2927e44621b82e21cd557bf88ea13764a2ff7d67b16c5a152109e0d52ccb364fdee3dd3c83d0dbac2835817e2bdc01070b") 5 48%nat
  = hex "e2096fb0cb489fd22f8223a96dee165b5593d8dd5cc96ef7fab867a3fb3efeaa897a355fc3b09bf31b7bf6e49405527c".
Proof. vm_compute. reflexivity. Qed.

(* pbkdf2_sha384: generated with golang.org/x/crypto/pbkdf2 *)
Example pbkdf2_sha384_gen_c1_dk16 :
  pbkdf2_sha384 (hex "cb6b98e625f6f5db")
    (hex "a0f5d387b57cabf4d35889b1") 1 16%nat
  = hex "37f5856bbabd78853e3aad166d0b6845".
Proof. vm_compute. reflexivity. Qed.

Example pbkdf2_sha384_gen_c1_dk32 :
  pbkdf2_sha384 (hex "d1538c504371c0290b")
    (hex "a6ddc6f1d3f87643200a30a81e15") 1 32%nat
  = hex "d17064606a6db360ac75c508f2af62f6c81b41c26ebc9321a8e5e467d785f94c".
Proof. vm_compute. reflexivity. Qed.

Example pbkdf2_sha384_gen_c1_dk40 :
  pbkdf2_sha384 (hex "d73b7fba61ed8c785819")
    (hex "abc5ba5bf27342926dbcd69f38921c6e") 1 40%nat
  = hex "4d1022df2a531fbcc6736626803115dd903ce3062155a8f87d0ba32fb253e063712b7e4ee7c78cd1".
Proof. vm_compute. reflexivity. Qed.

Example pbkdf2_sha384_gen_c2_dk16 :
  pbkdf2_sha384 (hex "dc237324806857c7a5ca7b")
    (hex "b1adadc510ef0de1ba6d7d96520f34b9b6ca") 2 16%nat
  = hex "dc543aebaaa1642aad7408ff326968d5".
Proof. vm_compute. reflexivity. Qed.

Example pbkdf2_sha384_gen_c2_dk32 :
  pbkdf2_sha384 (hex "e20b668e9ee42316f17c2134")
    (hex "b695a12f2e6ad830061f248d6c8d4d05be598f95") 2 32%nat
  = hex "8a62c9ed57fea4da50853ee1a223f6207a12e2dbbbc5ca748846beda008d5023".
Proof. vm_compute. reflexivity. Qed.

Example pbkdf2_sha384_gen_c2_dk40 :
  pbkdf2_sha384 (hex "e7f35af8bc5fee653e2dc82b96")
    (hex "bc7d94994de6a47f53d0ca85860a6651c6e8a3da06c6") 2 40%nat
  = hex "b7bc92d38345254b4804336c13efd3d00d0898a781d1e176a8c416adf6aaff8f5d76faa85ae84e42".
Proof. vm_compute. reflexivity. Qed.

Example pbkdf2_sha384_gen_c5_dk16 :
  pbkdf2_sha384 (hex "eddb4d62dbdbb9b48bdf6f22b0fc")
    (hex "c26588036b616fcea082717ca0877e9ccf77b720928c2e0f") 5 16%nat
  = hex "d965197a5ba281655c6b93dbf42bd5ec".
Proof. vm_compute. reflexivity. Qed.

Example pbkdf2_sha384_gen_c5_dk32 :
  pbkdf2_sha384 (hex "f3c341cbf9568503d8901519ca791a")
    (hex "c74d7b6d8add3b1ced331873b90497e8d707cb651e521c0dc2f9") 5 32%nat
  = hex "5ccf2f2443a66b9deafc50d4bc38aa4a5f16796703f7853e3c75f325e73f1211".
Proof. vm_compute. reflexivity. Qed.

Example pbkdf2_sha384_gen_c5_dk40 :
  pbkdf2_sha384 (hex "f8ab343517d250522542bc10e4f63292")
    (hex "cd356fd7a858066b3ae5be6ad381b034df96dfaaa9180a0a107f7850") 5 40%nat
  = hex "781b88c88d09b6cddd8865a20413db82159949966be53237f604f9ba1241a3fc3c2c44a73baeba2e".
Proof. vm_compute. reflexivity. Qed.

Example pbkdf2_sha384_gen_p150_s16_c3_dk100 :
  pbkdf2_sha384 (hex "5ede3f81cc1533d3b535f12e8d2f054a31d924ae2d5cac5809033d80b9bbf6ce5d975098e329a8fe5096eef3a5971084b9e3090278b5b6cc5d55e2de18ee0f73bb150b4ed9b446796c58789d87141638095c9c45e3a8b13bafbb9f609fcebad605109aeff8314d98dde8e9f7d8a816895f038a5e8a5c7d36c5eb93a80344d993a8d0ab7db0f1bea8dbc29ffcdea8540edb2c02e5afca")
    (hex "33687a225d9be9eccad8f3887cba83ec") 3 100%nat
  = hex "b7cfea8c69470f37b1e60ded0152f110036778a15fd7f258c72079730b626c620ecd30478b0dbe4594d2c23326e9479c9e70165390ba33f2c2ea633d6c2465b285147046781b4f6bb1b5d076c600dd426d928b29748ec205411968b5dc94f73694afccae".
Proof. vm_compute. reflexivity. Qed.

Example pbkdf2_sha384_gen_p64_s0_c2_dk20 :
  pbkdf2_sha384 (hex "64c633ebea90fe2102e79725a6ac1e96396838f3b8229a5657897412c7c32f36cf4e3af8f4cccc8b57ade1eb170dd48fc83b552bd2acb1d1d775902c696bb7b1")
    ([]) 2 20%nat
  = hex "dc480b4f7ea9a90f754161d95f21e051334ec346".
Proof. vm_compute. reflexivity. Qed.

Example pbkdf2_sha384_gen_p5_s8_c1_dk0 :
  pbkdf2_sha384 (hex "6aaf265509")
    (hex "3e3961f69992808a") 1 0%nat
  = hex "".
Proof. vm_compute. reflexivity. Qed.

Example pbkdf2_sha384_gen_p5_s8_c0_dk24 :
  pbkdf2_sha384 (hex "6f971abf27")
    (hex "44215460b80e4bd9") 0 24%nat
  = hex "b01b037ca30c1b4bf79aaefbf196d5c2ae5675b1db5a031f".
Proof. vm_compute. reflexivity. Qed.

Example pbkdf2_sha384_gen_p129_s130_c5_dk48 :
  pbkdf2_sha384 (hex "757f0d294603610ee8fb8b0bf4236879521674c35b74634e3f1918c9f2dad96e2775f71927b339316df1bad26f721eb1f5413ba6de939fdf48d59b175ae2ac694a0d70864e0684737fadf711006a2f19dca96343686e15cb2e442f909de79b6f0e728ca6d5f2d259689cd78aeb1b3c138aa3228783c899f2cd3ecaedb103c77cc9")
    (hex "490948cad6891628fd9e8d64e3aee61b060fa90569002a7edae16cd4f993c875213a125968d50a233f6445f06f7ff8c381ac3b05d1d3b78ecc8ada242035f671e61df2d40209709346f4874a11e87fac7b2927e44621b82e21cd557bf88ea13764a2ff7d67b16c5a152109e0d52ccb364fdee3dd3c83d0dbac2835817e2bdc01070b") 5 48%nat
  = hex "6eca085d864a5aeae72d171e50ff843def2a96859372f19415a2dc69f64259795ab440b946fe1633ea9ecde9f3163510".
Proof. vm_compute. reflexivity. Qed.

