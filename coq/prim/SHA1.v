(* Gokrb5.prim.SHA1 — SHA-1 per FIPS 180-4 sections 5.1.1, 5.3.1, 6.1. *)
From Gokrb5.lib Require Import Bytes.
From Gokrb5.prim Require Import HashCommon.
Open Scope Z_scope.

Definition sha1_st : Type := (Z * Z * Z * Z * Z)%type.

Definition sha1_iv : sha1_st := (0x67452301, 0xEFCDAB89, 0x98BADCFE, 0x10325476, 0xC3D2E1F0).

Definition sha1_K0 : Z := 0x5A827999.
Definition sha1_K1 : Z := 0x6ED9EBA1.
Definition sha1_K2 : Z := 0x8F1BBCDC.
Definition sha1_K3 : Z := 0xCA62C1D6.

(* Ch(x,y,z) = (x & y) ^ (~x & z) = z ^ (x & (y ^ z)) *)
Definition sha1_ch (x y z : Z) : Z := Z.lxor z (Z.land x (Z.lxor y z)).
Definition sha1_parity (x y z : Z) : Z := Z.lxor x (Z.lxor y z).
(* Maj(x,y,z) = (x & y) ^ (x & z) ^ (y & z) = (x & y) | (z & (x | y)) *)
Definition sha1_maj (x y z : Z) : Z := Z.lor (Z.land x y) (Z.land z (Z.lor x y)).

(* message schedule: n words W_t, W_{t+1}, ... from the sliding window W_t .. W_{t+15} *)
Fixpoint sha1_sched (n : nat) (w : list Z) : list Z :=
  match n with
  | O => []
  | S n' =>
    match w with
    | w0 :: w1 :: w2 :: w3 :: w4 :: w5 :: w6 :: w7 :: w8 :: w9 :: w10 :: w11 :: w12 :: w13 :: w14 :: w15 :: _ =>
        w0 :: sha1_sched n' [w1; w2; w3; w4; w5; w6; w7; w8; w9; w10; w11; w12; w13; w14; w15;
                        rotl32 (Z.lxor (Z.lxor w13 w8) (Z.lxor w2 w0)) 1]
    | _ => []
    end
  end.

Definition sha1_round (f : Z -> Z -> Z -> Z) (k : Z) (s : sha1_st) (w : Z) : sha1_st :=
  let '(a, b, c, d, e) := s in
  (Z.land (rotl32 a 5 + f b c d + e + k + w) mask32, a, rotl32 b 30, c, d).

Definition sha1_compress (h : sha1_st) (blk : list Z) : sha1_st :=
  let ws := sha1_sched 80 blk in
  let s1 := fold_left (sha1_round sha1_ch sha1_K0) (firstn 20 ws) h in
  let ws := skipn 20 ws in
  let s2 := fold_left (sha1_round sha1_parity sha1_K1) (firstn 20 ws) s1 in
  let ws := skipn 20 ws in
  let s3 := fold_left (sha1_round sha1_maj sha1_K2) (firstn 20 ws) s2 in
  let ws := skipn 20 ws in
  let s4 := fold_left (sha1_round sha1_parity sha1_K3) ws s3 in
  let '(h0, h1, h2, h3, h4) := h in
  let '(a, b, c, d, e) := s4 in
  (add32 h0 a, add32 h1 b, add32 h2 c, add32 h3 d, add32 h4 e).

Definition sha1_state (m : bytes) : sha1_st :=
  fold_left sha1_compress (chunks 16 (be32s (pad64_be m))) sha1_iv.

Definition sha1 (m : bytes) : bytes :=
  let '(h0, h1, h2, h3, h4) := sha1_state m in
  flat_map be32_bytes [h0; h1; h2; h3; h4].

Lemma sha1_length : forall m, length (sha1 m) = 20%nat.
Proof.
  intros m. unfold sha1. destruct (sha1_state m) as [[[[h0 h1] h2] h3] h4]. reflexivity.
Qed.
