(* Gokrb5.prim.DESInverse — DES / triple-DES decryption undoes encryption (model Gokrb5.prim.DES).

   The result is unconditional in the subkeys: for ANY three subkey lists (any Z values, any
   number of rounds) tdes_decrypt_ks undoes tdes_encrypt_ks on well-formed 8-byte blocks, because
     - a Feistel network run with the reversed subkey list undoes itself whatever the round
       function is (Z.lxor is nilpotent on all of Z);
     - the halves stay below 2^32 (des_f ends in a 32-position gather), so the 64-bit join/split
       of the two halves is exact;
     - IP and FP, as executable gathers, are mutually inverse on [0, 2^64): bit-level statement
       proved from two 64-position sweeps over the index lists, lifted with Z.bits_inj';
     - byte <-> integer conversion round-trips on well-formed 8-byte blocks. *)
From Gokrb5.lib Require Import Bytes.
From Gokrb5.prim Require Import DES.

Definition in32 (z : Z) : Prop := 0 <= z < 2 ^ 32.
Definition in64 (z : Z) : Prop := 0 <= z < 2 ^ 64.

(* ---------- bounds <-> high bits ---------- *)

Lemma bits_of_bound z w n : 0 <= z < 2 ^ w -> 0 <= w <= n -> Z.testbit z n = false.
Proof.
  intros Hz Hn. rewrite <- (Z.mod_small z (2 ^ w)) by exact Hz. apply Z.mod_pow2_bits_high. exact Hn.
Qed.

Lemma bound_of_bits z w :
  0 <= w -> (forall n, w <= n -> Z.testbit z n = false) -> 0 <= z < 2 ^ w.
Proof.
  intros Hw H. assert (z = z mod 2 ^ w) as E.
  { apply Z.bits_inj'. intros n Hn. destruct (Z.lt_ge_cases n w) as [Hlt|Hge].
    - now rewrite Z.mod_pow2_bits_low by lia.
    - rewrite Z.mod_pow2_bits_high by lia. apply H, Hge. }
  rewrite E. apply Z.mod_pos_bound. apply Z.pow_pos_nonneg; lia.
Qed.

Lemma lxor_in32 a b : in32 a -> in32 b -> in32 (Z.lxor a b).
Proof.
  intros Ha Hb. apply bound_of_bits; [lia|]. intros n Hn.
  rewrite Z.lxor_spec, (bits_of_bound a 32), (bits_of_bound b 32) by (assumption || lia). reflexivity.
Qed.

(* ---------- bytes <-> integer ---------- *)

Lemma shl8_lor acc b : 0 <= b < 256 -> Z.lor (Z.shiftl acc 8) (Z.land b 255) = acc * 256 + b.
Proof.
  intros Hb. change 255 with (Z.ones 8). rewrite Z.land_ones by lia.
  change (2 ^ 8) with 256. rewrite Z.mod_small by exact Hb.
  assert (Z.land (Z.shiftl acc 8) b = 0) as E.
  { apply Z.bits_inj'. intros n Hn. rewrite Z.land_spec, Z.bits_0.
    destruct (Z.lt_ge_cases n 8) as [Hlt|Hge].
    - now rewrite Z.shiftl_spec_low by lia.
    - rewrite (bits_of_bound b 8) by (change (2 ^ 8) with 256; lia). apply andb_false_r. }
  rewrite <- Z.lxor_lor, <- Z.add_nocarry_lxor by exact E.
  rewrite Z.shiftl_mul_pow2 by lia. reflexivity.
Qed.

Lemma be_val_fast_eq l : wf_bytes l -> be_val_fast l = be_val l.
Proof.
  unfold be_val_fast, be_val. generalize 0 as acc. intros acc H; revert acc.
  induction H as [|b l Hb Hl IH]; intros acc; [reflexivity|].
  cbn [fold_left be_val_acc]. rewrite shl8_lor by exact Hb. apply IH.
Qed.

Lemma le_bytes_le_val l : wf_bytes l -> le_bytes (length l) (le_val l) = l.
Proof.
  induction 1 as [|x l Hx Hl IH]; [reflexivity|].
  cbn [length le_val le_bytes]. f_equal.
  - rewrite (Z.mul_comm 256), Z.mod_add by lia. apply Z.mod_small, Hx.
  - rewrite (Z.mul_comm 256), Z.div_add by lia. rewrite (Z.div_small x 256) by exact Hx.
    rewrite Z.add_0_l. exact IH.
Qed.

Lemma be_bytes_be_val l : wf_bytes l -> be_bytes (length l) (be_val l) = l.
Proof.
  intros H. unfold be_bytes. rewrite <- (rev_involutive l) at 2. rewrite be_val_rev.
  rewrite <- (rev_length l). rewrite le_bytes_le_val by now apply wf_bytes_rev.
  apply rev_involutive.
Qed.

Lemma be_val_fast_in64 blk : length blk = 8%nat -> wf_bytes blk -> in64 (be_val_fast blk).
Proof.
  intros Hl Hw. rewrite be_val_fast_eq by exact Hw. pose proof (be_val_bound blk Hw) as H.
  unfold zlen in H. rewrite Hl in H. exact H.
Qed.

Lemma be_bytes_fast_be_val_fast blk :
  length blk = 8%nat -> wf_bytes blk -> be_bytes_fast 8 (be_val_fast blk) = blk.
Proof.
  intros Hl Hw. rewrite be_bytes_fast_eq, be_val_fast_eq by exact Hw.
  rewrite <- Hl. now apply be_bytes_be_val.
Qed.

Lemma be_val_fast_be_bytes_fast y : in64 y -> be_val_fast (be_bytes_fast 8 y) = y.
Proof.
  intros Hy. rewrite be_val_fast_eq by apply be_bytes_fast_wf.
  rewrite be_bytes_fast_eq, be_val_be_bytes. apply Z.mod_small. exact Hy.
Qed.

(* ---------- joining and splitting the two 32-bit halves ---------- *)

Lemma join_hi r l : in32 l -> Z.shiftr (Z.lor (Z.shiftl r 32) l) 32 = r.
Proof.
  intros Hl. rewrite Z.shiftr_lor, Z.shiftr_shiftl_l by lia.
  change (32 - 32) with 0. rewrite Z.shiftl_0_r.
  rewrite (Z.shiftr_div_pow2 l) by lia. rewrite Z.div_small by exact Hl. apply Z.lor_0_r.
Qed.

Lemma join_lo r l : in32 l -> Z.land (Z.lor (Z.shiftl r 32) l) des_mask32 = l.
Proof.
  intros Hl. change des_mask32 with (Z.ones 32). apply Z.bits_inj'. intros n Hn.
  rewrite Z.land_spec, Z.lor_spec. destruct (Z.lt_ge_cases n 32) as [Hlt|Hge].
  - rewrite Z.shiftl_spec_low, Z.ones_spec_low by lia. cbn [orb]. apply andb_true_r.
  - rewrite Z.ones_spec_high, (bits_of_bound l 32) by (assumption || lia). apply andb_false_r.
Qed.

Lemma split_join x : Z.lor (Z.shiftl (Z.shiftr x 32) 32) (Z.land x des_mask32) = x.
Proof.
  change des_mask32 with (Z.ones 32). apply Z.bits_inj'. intros n Hn.
  rewrite Z.lor_spec, Z.land_spec. destruct (Z.lt_ge_cases n 32) as [Hlt|Hge].
  - rewrite Z.shiftl_spec_low, Z.ones_spec_low by lia. cbn [orb]. apply andb_true_r.
  - rewrite Z.shiftl_spec, Z.shiftr_spec by lia. replace (n - 32 + 32) with n by lia.
    rewrite Z.ones_spec_high by lia. now rewrite andb_false_r, orb_false_r.
Qed.

Lemma split_hi_in32 x : in64 x -> in32 (Z.shiftr x 32).
Proof.
  intros Hx. unfold in32. rewrite Z.shiftr_div_pow2 by lia. split.
  - apply Z.div_pos; [apply Hx | lia].
  - apply Z.div_lt_upper_bound; [lia|]. change (2 ^ 32 * 2 ^ 32) with (2 ^ 64). apply Hx.
Qed.

Lemma split_lo_in32 x : in32 (Z.land x des_mask32).
Proof.
  change des_mask32 with (Z.ones 32). rewrite Z.land_ones by lia. apply Z.mod_pos_bound. lia.
Qed.

Lemma join_in64 r l : in32 r -> in32 l -> in64 (Z.lor (Z.shiftl r 32) l).
Proof.
  intros Hr Hl. apply bound_of_bits; [lia|]. intros n Hn.
  rewrite Z.lor_spec, Z.shiftl_spec by lia.
  rewrite (bits_of_bound r 32), (bits_of_bound l 32) by (assumption || lia). reflexivity.
Qed.

(* ---------- bits of a gather ---------- *)

Definition gstep (x acc : Z) (i : nat) : Z := if zbit x i then Z.succ_double acc else Z.double acc.

Lemma gstep_bit0 x acc a : Z.testbit (gstep x acc a) 0 = zbit x a.
Proof.
  unfold gstep. destruct (zbit x a).
  - rewrite Z.succ_double_spec. apply Z.testbit_odd_0.
  - rewrite Z.double_spec. apply Z.testbit_even_0.
Qed.

Lemma gstep_bitS x acc a n : 0 <= n -> Z.testbit (gstep x acc a) (Z.succ n) = Z.testbit acc n.
Proof.
  intros Hn. unfold gstep. destruct (zbit x a).
  - rewrite Z.succ_double_spec. now apply Z.testbit_odd_succ.
  - rewrite Z.double_spec. now apply Z.testbit_even_succ.
Qed.

Lemma fold_gstep_testbit x idx : forall acc i,
  Z.testbit (fold_left (gstep x) idx acc) (Z.of_nat i)
  = if (i <? length idx)%nat then zbit x (nth (length idx - 1 - i) idx O)
    else Z.testbit acc (Z.of_nat (i - length idx)).
Proof.
  induction idx as [|a idx IH]; intros acc i.
  - cbn [fold_left length]. destruct (Nat.ltb_spec i 0); [lia|]. now rewrite Nat.sub_0_r.
  - cbn [fold_left length]. rewrite IH.
    destruct (Nat.ltb_spec i (length idx)); destruct (Nat.ltb_spec i (S (length idx))); try lia.
    + replace (S (length idx) - 1 - i)%nat with (S (length idx - 1 - i)) by lia. reflexivity.
    + replace (i - length idx)%nat with O by lia.
      replace (S (length idx) - 1 - i)%nat with O by lia. cbn [nth]. apply gstep_bit0.
    + replace (i - length idx)%nat with (S (i - S (length idx))) by lia.
      rewrite Nat2Z.inj_succ. apply gstep_bitS. lia.
Qed.

(* bit i of gather idx x is the bit of x selected by the i-th index from the end *)
Lemma gather_testbit idx x i :
  Z.testbit (gather idx x) (Z.of_nat i)
  = if (i <? length idx)%nat then zbit x (nth (length idx - 1 - i) idx O) else false.
Proof.
  change (gather idx x) with (fold_left (gstep x) idx 0).
  rewrite fold_gstep_testbit. now rewrite Z.testbit_0_l.
Qed.

Lemma gather_range idx x : 0 <= gather idx x < 2 ^ Z.of_nat (length idx).
Proof.
  apply bound_of_bits; [lia|]. intros n Hn.
  rewrite <- (Z2Nat.id n) by lia. rewrite gather_testbit.
  destruct (Nat.ltb_spec (Z.to_nat n) (length idx)); [lia | reflexivity].
Qed.

(* ---------- IP and FP as gathers are mutually inverse on [0, 2^64) ---------- *)

(* position i of the outer gather a reads position a[63-i] of the inner result, which reads
   position b[63 - a[63-i]] of the input: that must be i again *)
Definition inv_idx (a b : list nat) : bool :=
  forallb (fun i => (nth (63 - i) a O <? 64)%nat && (nth (63 - nth (63 - i) a O) b O =? i)%nat)
          (seq 0 64).

Lemma gather_inverse a b :
  length a = 64%nat -> length b = 64%nat -> inv_idx a b = true ->
  forall v, in64 v -> gather a (gather b v) = v.
Proof.
  intros Ha Hb Hinv v Hv. apply Z.bits_inj'. intros n Hn.
  rewrite <- (Z2Nat.id n) by exact Hn. set (i := Z.to_nat n).
  rewrite gather_testbit, Ha. change (64 - 1)%nat with 63%nat.
  destruct (Nat.ltb_spec i 64) as [Hlt|Hge].
  - unfold inv_idx in Hinv. rewrite forallb_forall in Hinv.
    specialize (Hinv i ltac:(apply in_seq; lia)).
    apply andb_true_iff in Hinv. destruct Hinv as [H1 H2].
    apply Nat.ltb_lt in H1. apply Nat.eqb_eq in H2.
    rewrite zbit_testbit by apply gather_range.
    rewrite gather_testbit, Hb. change (64 - 1)%nat with 63%nat.
    destruct (Nat.ltb_spec (nth (63 - i) a O) 64); [|lia].
    rewrite H2. apply zbit_testbit, Hv.
  - symmetry. apply (bits_of_bound v 64); [exact Hv | lia].
Qed.

Lemma ip_fp_idx_inverse : inv_idx ip_idx fp_idx = true.
Proof. vm_compute. reflexivity. Qed.
Lemma fp_ip_idx_inverse : inv_idx fp_idx ip_idx = true.
Proof. vm_compute. reflexivity. Qed.

Lemma gather_ip_fp z : in64 z -> gather ip_idx (gather fp_idx z) = z.
Proof. apply gather_inverse; [reflexivity | reflexivity | exact ip_fp_idx_inverse]. Qed.
Lemma gather_fp_ip z : in64 z -> gather fp_idx (gather ip_idx z) = z.
Proof. apply gather_inverse; [reflexivity | reflexivity | exact fp_ip_idx_inverse]. Qed.

Lemma gather_ip_in64 x : in64 (gather ip_idx x).
Proof. exact (gather_range ip_idx x). Qed.
Lemma gather_fp_in64 x : in64 (gather fp_idx x).
Proof. exact (gather_range fp_idx x). Qed.

(* ---------- the Feistel network ---------- *)

Lemma des_f_in32 r k : in32 (des_f r k).
Proof. unfold des_f. exact (gather_range p_idx _). Qed.

Lemma des_rounds_app a : forall b l r,
  des_rounds (a ++ b) l r = des_rounds b (fst (des_rounds a l r)) (snd (des_rounds a l r)).
Proof.
  induction a as [|k a IH]; intros b l r; [reflexivity|].
  cbn [app des_rounds]. apply IH.
Qed.

(* whatever the round function computes *)
Lemma des_rounds_rev ks : forall l r,
  des_rounds (rev ks) (snd (des_rounds ks l r)) (fst (des_rounds ks l r)) = (r, l).
Proof.
  induction ks as [|k ks IH]; intros l r; [reflexivity|].
  cbn [rev des_rounds]. rewrite des_rounds_app, IH. cbn [fst snd des_rounds].
  now rewrite Z.lxor_assoc, Z.lxor_nilpotent, Z.lxor_0_r.
Qed.

Lemma des_rounds_in32 ks : forall l r,
  in32 l -> in32 r -> in32 (fst (des_rounds ks l r)) /\ in32 (snd (des_rounds ks l r)).
Proof.
  induction ks as [|k ks IH]; intros l r Hl Hr; [split; assumption|].
  cbn [des_rounds]. apply IH; [exact Hr | apply lxor_in32; [exact Hl | apply des_f_in32]].
Qed.

(* the block operation between IP and FP, on 64-bit integers *)
Definition core (ks : list Z) (x : Z) : Z :=
  let lr := des_rounds ks (Z.shiftr x 32) (Z.land x des_mask32) in
  Z.lor (Z.shiftl (snd lr) 32) (fst lr).

Lemma des_crypt_ks_core ks blk :
  des_crypt_ks ks blk = be_bytes_fast 8 (gather fp_idx (core ks (gather ip_idx (be_val_fast blk)))).
Proof.
  unfold des_crypt_ks, core. cbv zeta.
  destruct (des_rounds ks _ _) as [l r]. reflexivity.
Qed.

Lemma core_in64 ks x : in64 x -> in64 (core ks x).
Proof.
  intros Hx. unfold core. cbv zeta.
  destruct (des_rounds_in32 ks _ _ (split_hi_in32 x Hx) (split_lo_in32 x)) as [Hl Hr].
  now apply join_in64.
Qed.

Lemma core_inverse ks x : in64 x -> core (rev ks) (core ks x) = x.
Proof.
  intros Hx. unfold core at 2. cbv zeta.
  destruct (des_rounds_in32 ks _ _ (split_hi_in32 x Hx) (split_lo_in32 x)) as [Hl Hr].
  set (lr := des_rounds ks (Z.shiftr x 32) (Z.land x des_mask32)) in *.
  unfold core. cbv zeta. rewrite join_hi, join_lo by exact Hl.
  unfold lr. rewrite des_rounds_rev. cbn [fst snd]. apply split_join.
Qed.

(* ---------- DES ---------- *)

Lemma des_crypt_ks_rev ks blk :
  length blk = 8%nat -> wf_bytes blk -> des_crypt_ks (rev ks) (des_crypt_ks ks blk) = blk.
Proof.
  intros Hl Hw. rewrite !des_crypt_ks_core.
  rewrite be_val_fast_be_bytes_fast by apply gather_fp_in64.
  rewrite gather_ip_fp by apply core_in64, gather_ip_in64.
  rewrite core_inverse by apply gather_ip_in64.
  rewrite gather_fp_ip by now apply be_val_fast_in64.
  now apply be_bytes_fast_be_val_fast.
Qed.

Theorem des_decrypt_encrypt_ks ks blk :
  length blk = 8%nat -> wf_bytes blk -> des_decrypt_ks ks (des_encrypt_ks ks blk) = blk.
Proof. apply des_crypt_ks_rev. Qed.

Theorem des_encrypt_decrypt_ks ks blk :
  length blk = 8%nat -> wf_bytes blk -> des_encrypt_ks ks (des_decrypt_ks ks blk) = blk.
Proof.
  intros Hl Hw. unfold des_encrypt_ks, des_decrypt_ks.
  rewrite <- (rev_involutive ks) at 1. now apply des_crypt_ks_rev.
Qed.

(* ---------- triple DES ---------- *)

(* any three subkey lists *)
Theorem tdes_decrypt_encrypt_any ks blk :
  length blk = 8%nat -> wf_bytes blk -> tdes_decrypt_ks ks (tdes_encrypt_ks ks blk) = blk.
Proof.
  intros Hl Hw. destruct ks as [[k1 k2] k3]. unfold tdes_decrypt_ks, tdes_encrypt_ks.
  rewrite des_decrypt_encrypt_ks by (apply des_crypt_ks_length || apply des_crypt_ks_wf).
  rewrite des_encrypt_decrypt_ks by (apply des_crypt_ks_length || apply des_crypt_ks_wf).
  now apply des_decrypt_encrypt_ks.
Qed.

Theorem tdes_encrypt_decrypt_any ks blk :
  length blk = 8%nat -> wf_bytes blk -> tdes_encrypt_ks ks (tdes_decrypt_ks ks blk) = blk.
Proof.
  intros Hl Hw. destruct ks as [[k1 k2] k3]. unfold tdes_decrypt_ks, tdes_encrypt_ks.
  rewrite des_encrypt_decrypt_ks by (apply des_crypt_ks_length || apply des_crypt_ks_wf).
  rewrite des_decrypt_encrypt_ks by (apply des_crypt_ks_length || apply des_crypt_ks_wf).
  now apply des_encrypt_decrypt_ks.
Qed.

(* no hypothesis on the key: any list of any Z values, of any length *)
Theorem tdes_decrypt_encrypt_ks : forall key24 blk,
  length blk = 8%nat -> wf_bytes blk ->
  DES.tdes_decrypt_ks (DES.tdes_expand_key key24) (DES.tdes_encrypt_ks (DES.tdes_expand_key key24) blk) = blk.
Proof. intros key24 blk. apply tdes_decrypt_encrypt_any. Qed.

Corollary tdes_decrypt_encrypt_block key24 blk :
  length blk = 8%nat -> wf_bytes blk -> tdes_decrypt_block key24 (tdes_encrypt_block key24 blk) = blk.
Proof. apply tdes_decrypt_encrypt_ks. Qed.

Corollary des_decrypt_encrypt_block key8 blk :
  length blk = 8%nat -> wf_bytes blk -> des_decrypt_block key8 (des_encrypt_block key8 blk) = blk.
Proof. apply des_decrypt_encrypt_ks. Qed.

Print Assumptions tdes_decrypt_encrypt_ks.
