(* Gokrb5.model.Schema — untyped ASN.1 values and schemas (interface shared by the DER codec, the RFC
   schemas, the schemas generated from the Go struct tags, and the correspondence harness). *)
From Gokrb5.lib Require Import Bytes JV.

(* A SEQUENCE field: explicit context tag (None = untagged), OPTIONAL?, type *)
Inductive ty : Type :=
| TInt                      (* INTEGER, minimal two's complement *)
| TOctets                   (* OCTET STRING *)
| TGenStr                   (* GeneralString (tag 27), bytes verbatim *)
| TGenTime                  (* GeneralizedTime YYYYMMDDHHMMSSZ *)
| TBits                     (* BIT STRING *)
| TOid                      (* OBJECT IDENTIFIER *)
| TEnum                     (* ENUMERATED *)
| TBool                     (* BOOLEAN *)
| TSeq (fields : list (option Z * bool * ty))
| TSeqOf (elem : ty)
| TApp (n : Z) (t : ty)     (* [APPLICATION n] EXPLICIT t *)
| TRaw.                     (* one TLV taken / emitted verbatim (asn1.RawValue) *)

Inductive value : Type :=
| VInt (z : Z)
| VBytes (b : bytes)                   (* OCTET STRING / GeneralString / raw TLV *)
| VTime (secs : Z)                     (* seconds since the Unix epoch, UTC *)
| VBits (unused : Z) (b : bytes)
| VOid (arcs : list Z)
| VBool (b : bool)
| VSeq (fs : list (option value))      (* None = absent OPTIONAL field *)
| VList (vs : list value).

(* ---- jv codec (must match harness/internal/asn1proj) ----
   ty:    (i0) Int (i1) Octets (i2) GenStr (i3) GenTime (i4) Bits (i5) Oid (i6) Enum (i7) Bool
          (i8 ( (itag iopt ty) ... )) Seq   [itag = -1: untagged]   (i9 ty) SeqOf   (i10 in ty) App   (i11) Raw
   value: (i0 iz) (i1 xb) (i2 isecs) (i3 iunused xb) (i4 ( iarc.. )) (i5 ib) (i6 ( f.. )) with f = () | ( v )   (i7 ( v.. )) *)
Fixpoint un_ty (fuel : nat) (j : jv) : option ty :=
  match fuel with O => None | S f =>
  match j with
  | JL [JI 0] => Some TInt | JL [JI 1] => Some TOctets | JL [JI 2] => Some TGenStr
  | JL [JI 3] => Some TGenTime | JL [JI 4] => Some TBits | JL [JI 5] => Some TOid
  | JL [JI 6] => Some TEnum | JL [JI 7] => Some TBool
  | JL [JI 8; JL fs] =>
    match map_opt (fun e => match e with
                            | JL [JI tag; JI opt; t] =>
                              match un_ty f t with
                              | Some t' => Some (if tag <? 0 then None else Some tag, negb (opt =? 0), t')
                              | None => None end
                            | _ => None end) fs with
    | Some fs' => Some (TSeq fs') | None => None end
  | JL [JI 9; t] => match un_ty f t with Some t' => Some (TSeqOf t') | None => None end
  | JL [JI 10; JI n; t] => match un_ty f t with Some t' => Some (TApp n t') | None => None end
  | JL [JI 11] => Some TRaw
  | _ => None
  end end.

Fixpoint un_value (fuel : nat) (j : jv) : option value :=
  match fuel with O => None | S f =>
  match j with
  | JL [JI 0; JI z] => Some (VInt z)
  | JL [JI 1; JB b] => Some (VBytes b)
  | JL [JI 2; JI s] => Some (VTime s)
  | JL [JI 3; JI u; JB b] => Some (VBits u b)
  | JL [JI 4; JL arcs] => match map_opt as_int arcs with Some a => Some (VOid a) | None => None end
  | JL [JI 5; JI b] => Some (VBool (negb (b =? 0)))
  | JL [JI 6; JL fs] =>
    match map_opt (fun e => match e with
                            | JL [] => Some None
                            | JL [v] => match un_value f v with Some v' => Some (Some v') | None => None end
                            | _ => None end) fs with
    | Some fs' => Some (VSeq fs') | None => None end
  | JL [JI 7; JL vs] => match map_opt (un_value f) vs with Some vs' => Some (VList vs') | None => None end
  | _ => None
  end end.

Fixpoint j_value (v : value) : jv :=
  match v with
  | VInt z => JL [JI 0; JI z]
  | VBytes b => JL [JI 1; JB b]
  | VTime s => JL [JI 2; JI s]
  | VBits u b => JL [JI 3; JI u; JB b]
  | VOid a => JL [JI 4; JL (map JI a)]
  | VBool b => JL [JI 5; jbool b]
  | VSeq fs => JL [JI 6; JL (map (fun o => match o with None => JL [] | Some x => JL [j_value x] end) fs)]
  | VList vs => JL [JI 7; JL (map j_value vs)]
  end.

Fixpoint jv_depth (j : jv) : nat :=
  match j with JL l => S (fold_right (fun x acc => Nat.max (jv_depth x) acc) O l) | _ => 1%nat end.
