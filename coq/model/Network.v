(* Gokrb5.model.Network — decision logic of Client.sendToKDC / dialSendUDP / dialSendTCP / checkForKRBError
   (v8/client/network.go, repaired code).  Sockets are abstracted to a behaviour per (KDC, transport)
   endpoint; the random server order of config.GetKDCs is an explicit argument (one order per look-up). *)
From Gokrb5.lib Require Import Bytes JV.

Inductive transport := UDP | TCP.
Inductive behaviour :=
| Answers (reply : Z)        (* a reply that is not a KRB-ERROR; identified by a number *)
| Refuses                    (* connection refused / ICMP unreachable *)
| ClosesEarly                (* accepts and closes, or sends a short frame *)
| Silent                     (* never answers: the 5 s deadline expires *)
| KrbError (code : Z).       (* answers with a KRB-ERROR message *)

Inductive result :=
| Reply (reply : Z)
| KrbErr (code : Z)
| CommErr.

Definition too_big : Z := 52.   (* KRB_ERR_RESPONSE_TOO_BIG *)

(* dialSend*: try the KDCs in the given order; the first one that delivers any reply ends the loop.
   Returns the result and the endpoints attempted (in order). *)
Fixpoint dial_send (beh : Z -> transport -> behaviour) (t : transport) (order : list Z)
  : result * list Z :=
  match order with
  | [] => (CommErr, [])
  | k :: r =>
    match beh k t with
    | Answers x => (Reply x, [k])
    | KrbError c => (KrbErr c, [k])           (* checkForKRBError turns the reply into an error *)
    | _ => let '(res, att) := dial_send beh t r in (res, k :: att)
    end
  end.

(* mode: 0 = udp_preference_limit 1 (TCP only); 1 = request fits the limit (UDP first);
         2 = request larger than the limit (TCP first) *)
Definition send_to_kdc (mode : Z) (beh : Z -> transport -> behaviour) (order_udp order_tcp : list Z)
  : result * list (Z * transport) :=
  let tag t l := map (fun k => (k, t)) l in
  if mode =? 0 then
    let '(r, a) := dial_send beh TCP order_tcp in (r, tag TCP a)
  else if mode =? 1 then
    let '(r, a) := dial_send beh UDP order_udp in
    match r with
    | Reply x => (Reply x, tag UDP a)
    | KrbErr c =>
      if c =? too_big then let '(r2, a2) := dial_send beh TCP order_tcp in (r2, tag UDP a ++ tag TCP a2)
      else (KrbErr c, tag UDP a)
    | CommErr => let '(r2, a2) := dial_send beh TCP order_tcp in (r2, tag UDP a ++ tag TCP a2)
    end
  else
    let '(r, a) := dial_send beh TCP order_tcp in
    match r with
    | Reply x => (Reply x, tag TCP a)
    | KrbErr c => (KrbErr c, tag TCP a)
    | CommErr => let '(r2, a2) := dial_send beh UDP order_udp in (r2, tag TCP a ++ tag UDP a2)
    end.

(* ---- jv interface ----
   input  ( mode ( (behU behT) per kdc, behaviour = ( tag arg ) ) ( orderU ) ( orderT ) )
   output ( class arg ( (kdc transport) ... ) ) *)
Definition un_beh (j : jv) : option behaviour :=
  match j with
  | JL [JI 0; JI x] => Some (Answers x)
  | JL [JI 1] => Some Refuses
  | JL [JI 2] => Some ClosesEarly
  | JL [JI 3] => Some Silent
  | JL [JI 4; JI c] => Some (KrbError c)
  | _ => None
  end.

Definition beh_table (tbl : list (behaviour * behaviour)) (k : Z) (t : transport) : behaviour :=
  match nth_error tbl (Z.to_nat k) with
  | Some (u, c) => match t with UDP => u | TCP => c end
  | None => Refuses
  end.

Definition j_result (r : result) : list jv :=
  match r with Reply x => [JI 0; JI x] | KrbErr c => [JI 1; JI c] | CommErr => [JI 2; JI 0] end.

Definition send_to_kdc_j (j : jv) : jv :=
  match j with
  | JL [JI mode; JL tbl; JL ou; JL ot] =>
    match map_opt (fun e => match e with
                            | JL [u; c] => match un_beh u, un_beh c with Some u', Some c' => Some (u', c') | _, _ => None end
                            | _ => None end) tbl,
          map_opt as_int ou, map_opt as_int ot with
    | Some tbl', Some ou', Some ot' =>
      let '(r, att) := send_to_kdc mode (beh_table tbl') ou' ot' in
      jok (j_result r ++ [JL (map (fun '(k, t) => JL [JI k; JI (match t with UDP => 0 | TCP => 1 end)]) att)])
    | _, _, _ => jbad
    end
  | _ => jbad
  end.

(* the same, reporting only the attempts the simulated endpoints can see (a refused connection is invisible) *)
Definition send_to_kdc_visible_j (j : jv) : jv :=
  match j with
  | JL [JI mode; JL tbl; JL ou; JL ot] =>
    match map_opt (fun e => match e with
                            | JL [u; c] => match un_beh u, un_beh c with Some u', Some c' => Some (u', c') | _, _ => None end
                            | _ => None end) tbl,
          map_opt as_int ou, map_opt as_int ot with
    | Some tbl', Some ou', Some ot' =>
      let beh := beh_table tbl' in
      let '(r, att) := send_to_kdc mode beh ou' ot' in
      let vis := filter (fun '(k, t) => match beh k t with Refuses => false | _ => true end) att in
      jok (j_result r ++ [JL (map (fun '(k, t) => JL [JI k; JI (match t with UDP => 0 | TCP => 1 end)]) vis)])
    | _, _, _ => jbad
    end
  | _ => jbad
  end.
