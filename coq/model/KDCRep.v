(* Gokrb5.model.KDCRep — client-side acceptance of KDC replies: messages.ASRep.Verify / DecryptEncPart and
   TGSRep.DecryptEncPart / Verify (v8/messages/KDCRep.go).  Key selection uses the keytab model (C14) or the
   PA-data driven string-to-key (C08); decryption is model/Crypto.v.  The ASN.1 decoder of EncKDCRepPart is a
   section variable (external). FAST negotiation (PA-REQ-ENC-PA-REP) is outside the modelled fragment: the
   flag must be clear. *)
From Gokrb5.lib Require Import Bytes JV.
From Gokrb5.model Require Import Keytab Crypto PAData Replay APReq.

Record kdc_req := mkReq {
  rq_cname : list bytes; rq_realm : bytes; rq_sname : list bytes; rq_nonce : Z; rq_addrs : list (Z * bytes) }.

Record kdc_rep := mkRep {
  rp_cname : list bytes; rp_crealm : bytes; rp_tkt_realm : bytes;
  rp_etype : Z; rp_kvno : Z; rp_cipher : bytes; rp_hints : list hint }.

Record enc_rep := mkEncRep {
  er_nonce : Z; er_sname : list bytes; er_srealm : bytes; er_caddr : list (Z * bytes);
  er_authtime : Z; er_start : option Z; er_flags : bytes }.

Record creds := mkCreds { cr_keytab : option (list entry); cr_password : option bytes }.

Definition flag_enc_pa_rep (flags : bytes) : bool :=       (* flag 15: bit 0 of byte 1 *)
  match flags with _ :: b1 :: _ => Z.testbit b1 0 | _ => false end.

(* HostAddressesEqual: same length and every element of b occurs in a *)
Definition addrs_equal (a b : list (Z * bytes)) : bool :=
  (length a =? length b)%nat && forallb (fun e => existsb (addr_eqb e) a) b.

Section Verify.
  Variable dec_enc : bytes -> option enc_rep.

  (* the client key: keytab entry for (cname, crealm, kvno, etype) of the REPLY, overridden by the password key *)
  Definition as_key (c : creds) (rp : kdc_rep) : res (bytes * Z) :=
    let from_kt :=
        match cr_keytab c with
        | Some kt => match get_key kt (rp_cname rp) (rp_crealm rp) (rp_kvno rp) (rp_etype rp) with
                     | Ok (kv, ktype, _) => Ok (Some (kv, ktype))
                     | Err e => Err e | Panic p => Panic p end
        | None => Ok None
        end in
    match from_kt with
    | Err e => Err e | Panic p => Panic p
    | Ok k1 =>
      match cr_password c with
      | Some pw => match key_from_password pw (rp_cname rp) (rp_crealm rp) (rp_etype rp) (rp_hints rp) with
                   | Ok (kv, ktype) => Ok (kv, ktype) | Err e => Err e | Panic p => Panic p end
      | None => match k1 with Some k => Ok k | None => Err 70 end
      end
    end.

  Definition asrep_verify (skew : Z) (c : creds) (rq : kdc_req) (rp : kdc_rep) (t : Z) : res bool :=
    if negb (names_eqb (rp_cname rp) (rq_cname rq)) then Ok false
    else if negb (beq_bytes (rp_crealm rp) (rq_realm rq)) then Ok false
    else
      match as_key c rp with
      | Panic p => Panic p
      | Err _ => Ok false
      | Ok (kv, ktype) =>
        match decrypt ktype kv 3 (rp_cipher rp) with
        | Panic p => Panic p
        | Err _ => Ok false
        | Ok pt =>
          match dec_enc pt with
          | None => Ok false
          | Some er =>
            if negb (er_nonce er =? rq_nonce rq) then Ok false
            else if negb (names_eqb (er_sname er) (rq_sname rq)) then Ok false
            else if negb (beq_bytes (er_srealm er) (rq_realm rq)) then Ok false
            else if negb (length (rq_addrs rq) =? 0)%nat && negb (addrs_equal (er_caddr er) (rq_addrs rq)) then Ok false
            else if skew <? Z.abs (t - us (er_authtime er)) then Ok false
            else if flag_enc_pa_rep (er_flags er) then Err 71      (* FAST negotiation: not modelled *)
            else Ok true
          end
        end
      end.

  (* TGSRep.DecryptEncPart (session key, usage 8) followed by TGSRep.Verify *)
  Definition tgsrep_verify (skew : Z) (session_type : Z) (session_key : bytes) (rq : kdc_req) (rp : kdc_rep) (t : Z)
    : res bool :=
    match decrypt session_type session_key 8 (rp_cipher rp) with
    | Panic p => Panic p
    | Err _ => Ok false
    | Ok pt =>
      match dec_enc pt with
      | None => Ok false
      | Some er =>
        if negb (names_eqb (rp_cname rp) (rq_cname rq)) then Ok false
        else if negb (beq_bytes (rp_tkt_realm rp) (rq_realm rq)) then Ok false
        else if negb (er_nonce er =? rq_nonce rq) then Ok false
        else if negb (beq_bytes (er_srealm er) (rq_realm rq)) then Ok false
        else if negb (forallb (fun a => existsb (addr_eqb a) (rq_addrs rq)) (er_caddr er)) then Ok false
        else
          let start_off := match er_start er with Some s => skew <? Z.abs (t - us s) | None => true end in
          if start_off && (skew <? Z.abs (t - us (er_authtime er))) then Ok false
          else Ok true
      end
    end.
End Verify.

(* ---- jv ---- *)
Definition un_addrs (j : jv) : option (list (Z * bytes)) :=
  match j with JL l => map_opt un_addr l | _ => None end.

Definition un_kdc_req (j : jv) : option kdc_req :=
  match j with
  | JL [JL cn; JB realm; JL sn; JI nonce; addrs] =>
    match map_opt as_bytes cn, map_opt as_bytes sn, un_addrs addrs with
    | Some cn', Some sn', Some a' => Some (mkReq cn' realm sn' nonce a') | _, _, _ => None end
  | _ => None end.

Definition un_kdc_rep (j : jv) : option kdc_rep :=
  match j with
  | JL [JL cn; JB crealm; JB trealm; JI et; JI kvno; JB cipher; JL hs] =>
    match map_opt as_bytes cn, map_opt un_hint hs with
    | Some cn', Some hs' => Some (mkRep cn' crealm trealm et kvno cipher hs') | _, _ => None end
  | _ => None end.

Definition un_enc_rep (j : jv) : option enc_rep :=
  match j with
  | JL [JI nonce; JL sn; JB srealm; addrs; JI auth; JL st; JB flags] =>
    match map_opt as_bytes sn, un_addrs addrs, (match st with [] => Some None | [JI s] => Some (Some s) | _ => None end) with
    | Some sn', Some a', Some st' => Some (mkEncRep nonce sn' srealm a' auth st' flags) | _, _, _ => None end
  | _ => None end.

Definition un_creds (j : jv) : option creds :=
  match j with
  | JL [JL kt; JL pw] =>
    match (match kt with [] => Some None | [JL es] => match map_opt un_entry es with Some e => Some (Some e) | None => None end | _ => None end),
          (match pw with [] => Some None | [JB p] => Some (Some p) | _ => None end) with
    | Some k, Some p => Some (mkCreds k p) | _, _ => None end
  | _ => None end.

Definition j_resbool (r : res bool) : jv :=
  match r with Ok b => jok [jbool b] | Err _ => jerr | Panic _ => jpanic end.

(* ( skew creds req rep sealed-enc now ) *)
Definition asrep_verify_j (j : jv) : jv :=
  match j with
  | JL [JI skew; c; rq; rp; er; JI t] =>
    match un_creds c, un_kdc_req rq, un_kdc_rep rp, un_enc_rep er with
    | Some c', Some rq', Some rp', Some er' => j_resbool (asrep_verify (fun _ => Some er') skew c' rq' rp' t)
    | _, _, _, _ => jbad end
  | _ => jbad end.

(* ( skew ( keytype key ) req rep sealed-enc now ) *)
Definition tgsrep_verify_j (j : jv) : jv :=
  match j with
  | JL [JI skew; JL [JI kt; JB key]; rq; rp; er; JI t] =>
    match un_kdc_req rq, un_kdc_rep rp, un_enc_rep er with
    | Some rq', Some rp', Some er' => j_resbool (tgsrep_verify (fun _ => Some er') skew kt key rq' rp' t)
    | _, _, _ => jbad end
  | _ => jbad end.
