(* Gokrb5.model.SpnegoBytes — C03 in BYTES MODE: from the value of the HTTP header "Authorization" to the response of
   spnego.SPNEGOKRB5Authenticate (spnego/http.go), following the real code path octet for octet:
     getAuthorizationNegotiationHeaderAsSPNEGOToken : strings.SplitN(value, " ", 2), scheme = "Negotiate",
        base64.StdEncoding.DecodeString, SPNEGOToken.Unmarshal, raw-KRB5-token fall-back (issue #347);
     SPNEGOToken.Unmarshal (spnego.go)              : first octet 0xa1 -> UnmarshalNegToken of everything; otherwise
        asn1.UnmarshalWithParams(b, &oid, "application,explicit,tag:0"), oid = 1.3.6.1.5.5.2, UnmarshalNegToken(rest);
     UnmarshalNegToken (negotiationToken.go)        : asn1.RawValue (ANY identifier whose tag NUMBER is 0 or 1),
        marshalNegTokenInit / marshalNegTokenResp from its contents;
     NegTokenInit.Verify / NegTokenResp.Verify      : KRB5Token.Unmarshal of MechTokenBytes / ResponseToken;
     KRB5Token.Unmarshal (krb5Token.go)             : [APPLICATION 0] OID 1.2.840.113554.1.2.2, two tok-id octets, then
        APReq.Unmarshal | APRep.Unmarshal | KRBError.Unmarshal | nothing for an unknown tok-id;
     KRB5Token.Verify                               : service.VerifyAPREQ = model/APReqBytes.v verify_apreq_bytes.
   The decision core (accept_sec_context, serve) is model/Spnego.v: this file only computes the structure Spnego.v
   starts from.  ASN.1 decoding is what gofork asn1 ACCEPTS (model/GoASN1.v: ghdr, splitz, gbits, gint, base128,
   gfield_dec, unmarshal_app); the Go types GoASN1.v has no constructor for (ObjectIdentifier, Enumerated,
   []ObjectIdentifier) are decoded by xelem / xfield below, the same steps as GoASN1.gelem / gfield_dec with the expected
   universal tag and the contents parser as parameters.

   What the real decoders do and this file therefore does too:
   - a bare NegTokenInit (0xa0 ..) is NOT accepted (the [APPLICATION 0] test fails on class 2); a NegTokenResp is
     accepted bare (0xa1 first) and also inside the GSS framing;
   - inside UnmarshalNegToken only the tag NUMBER of the outer element is looked at: 0x60, 0x80, 0x00, 0x20 .. all mean
     "NegTokenInit", 0x01, 0x41, 0x61, 0x81 .. all mean "NegTokenResp";
   - the length octets of an [APPLICATION 0] / [n] wrapper are parsed but never compared with what is inside;
     octets after the OID's mech token, after the NegotiationToken, after the last field of a SEQUENCE are dropped;
   - OBJECT IDENTIFIER contents: sub-identifiers of at most 4 octets, leading 0x80 octets allowed (not minimal),
     so several encodings denote the KRB5 OID; OIDs are compared as integer lists;
   - NegTokenResp.negState is mandatory for the Go struct (RFC 4178: OPTIONAL);
   - a present but empty mechToken is not "absent": KRB5Token.Unmarshal runs on the empty string and fails;
   - KRB5Token.Unmarshal accepts the RFC 4121 OID only (the MS legacy OID is accepted in the mech LIST only);
   - base64: '\r' and '\n' are skipped everywhere, padding is mandatory, nothing may follow the padding, the
     unused low bits of the last sextet are not checked (non-strict mode). *)
From Gokrb5.lib Require Import Bytes JV.
From Gokrb5.model Require Import Keytab Crypto Replay Schema DER RFCSchemas GoASN1 APReq APReqBytes Spnego.

(* ---------- base64.StdEncoding ---------- *)
Definition b64_val (c : Z) : option Z :=
  if (65 <=? c) && (c <=? 90) then Some (c - 65)
  else if (97 <=? c) && (c <=? 122) then Some (c - 71)
  else if (48 <=? c) && (c <=? 57) then Some (c + 4)
  else if c =? 43 then Some 62
  else if c =? 47 then Some 63
  else None.

Definition b64_char (i : Z) : Z :=
  if i <? 26 then 65 + i else if i <? 52 then 71 + i else if i <? 62 then i - 4 else if i =? 62 then 43 else 47.

Definition b64_pad : Z := 61.
Definition is_nl (c : Z) : bool := (c =? 10) || (c =? 13).
Definition is_nil {A} (l : list A) : bool := match l with [] => true | _ => false end.

(* the quanta of a string without '\r' / '\n' (decodeQuantum) *)
Fixpoint b64_quanta (s : bytes) : option bytes :=
  match s with
  | [] => Some []
  | c0 :: c1 :: c2 :: c3 :: rest =>
    match b64_val c0, b64_val c1 with
    | Some v0, Some v1 =>
      match b64_val c2, b64_val c3 with
      | Some v2, Some v3 =>
        match b64_quanta rest with
        | Some o => Some (v0 * 4 + v1 / 16 :: (v1 mod 16) * 16 + v2 / 4 :: (v2 mod 4) * 64 + v3 :: o)
        | None => None
        end
      | Some v2, None =>
        if (c3 =? b64_pad) && is_nil rest then Some [v0 * 4 + v1 / 16; (v1 mod 16) * 16 + v2 / 4] else None
      | None, _ =>
        if (c2 =? b64_pad) && (c3 =? b64_pad) && is_nil rest then Some [v0 * 4 + v1 / 16] else None
      end
    | _, _ => None
    end
  | _ => None                                    (* 1..3 characters left: padding is mandatory *)
  end.

Definition b64_decode (s : bytes) : option bytes := b64_quanta (filter (fun c => negb (is_nl c)) s).

Fixpoint b64_encode (b : bytes) : bytes :=
  match b with
  | [] => []
  | [x] => [b64_char (x / 4); b64_char ((x mod 4) * 16); b64_pad; b64_pad]
  | [x; y] => [b64_char (x / 4); b64_char ((x mod 4) * 16 + y / 16); b64_char ((y mod 16) * 4); b64_pad]
  | x :: y :: z :: r =>
    b64_char (x / 4) :: b64_char ((x mod 4) * 16 + y / 16) :: b64_char ((y mod 16) * 4 + z / 64) :: b64_char (z mod 64)
    :: b64_encode r
  end.

(* ---------- OBJECT IDENTIFIER as gofork reads it ---------- *)
(* the sub-identifiers after the first (parseBase128Int in a loop; n bounds the number of them) *)
Fixpoint garcs (n : nat) (b : bytes) : option (list Z) :=
  match b with
  | [] => Some []
  | _ :: _ =>
    match n with
    | O => None
    | S n' =>
      match base128 4 b 0 with
      | Some (v, r) => match garcs n' r with Some l => Some (v :: l) | None => None end
      | None => None
      end
    end
  end.

(* parseObjectIdentifier *)
Definition goid (body : bytes) : option (list Z) :=
  match body with
  | [] => None                                   (* zero length OBJECT IDENTIFIER *)
  | _ :: _ =>
    match base128 4 body 0 with
    | Some (v, r) =>
      match garcs (length r) r with
      | Some l => Some (if v <? 80 then v / 40 :: v mod 40 :: l else 2 :: v - 80 :: l)
      | None => None
      end
    | None => None
    end
  end.

Fixpoint oid_eqb (a b : list Z) : bool :=
  match a, b with
  | [], [] => true
  | x :: a', y :: b' => (x =? y) && oid_eqb a' b'
  | _, _ => false
  end.

(* gssapi.OIDSPNEGO = RFCSchemas.rfc_oid_spnego, gssapi.OIDKRB5 = RFCSchemas.rfc_oid_krb5 *)
Definition oid_ms_krb5 : list Z := [1; 2; 840; 48018; 1; 2; 2].            (* gssapi.OIDMSLegacyKRB5 *)

Definition classify_oid (o : list Z) : oidc :=
  if oid_eqb o rfc_oid_krb5 then OKrb5 else if oid_eqb o oid_ms_krb5 then OMsKrb5 else OOther.

(* ---------- parseField for the types GoASN1.v has no constructor for ---------- *)
(* one element with universal tag utag (primitive / constructed as ucons says) at the head of b, cf. GoASN1.gelem *)
Definition xelem {A} (utag : Z) (ucons : bool) (dec : bytes -> option A) (opt : bool) (orig b : bytes)
  : option (option A * bytes) :=
  match ghdr b with
  | None => None
  | Some (h, r) =>
    if (h_cls h =? 0) && (h_tag h =? utag) && Bool.eqb (h_cons h) ucons then
      match splitz r (h_len h) with
      | Some (body, rest) => match dec body with Some v => Some (Some v, rest) | None => None end
      | None => None
      end
    else if opt then Some (None, orig) else None
  end.

(* the same behind an EXPLICIT tag n of class ecls, cf. GoASN1.gfield_dec *)
Definition xfield {A} (ecls n : Z) (utag : Z) (ucons : bool) (dec : bytes -> option A) (opt : bool) (b : bytes)
  : option (option A * bytes) :=
  match b with
  | [] => if opt then Some (None, []) else None
  | _ :: _ =>
    match ghdr b with
    | None => None
    | Some (h, r) =>
      match r with
      | [] => None
      | _ :: _ =>
        if (h_cls h =? ecls) && (h_tag h =? n) && ((h_len h =? 0) || h_cons h) then
          if h_len h =? 0 then None else xelem utag ucons dec opt b r
        else if opt then Some (None, b) else None
      end
    end
  end.

(* parseSequenceOf for []asn1.ObjectIdentifier *)
Fixpoint goids (n : nat) (b : bytes) : option (list (list Z)) :=
  match b with
  | [] => Some []
  | _ :: _ =>
    match n with
    | O => None
    | S n' =>
      match xelem 6 false goid false b b with
      | Some (Some o, r) => match goids n' r with Some l => Some (o :: l) | None => None end
      | _ => None
      end
    end
  end.

(* asn1.UnmarshalWithParams(b, &oid, "application,explicit,tag:0"): the OID and the octets after it *)
Definition gss_oid (b : bytes) : option (list Z * bytes) :=
  match xfield 1 0 6 false goid false b with
  | Some (Some o, r) => Some (o, r)
  | _ => None
  end.

(* ---------- NegotiationToken ---------- *)
Inductive neg_raw :=
| RInit (mechs : list (list Z)) (token : option bytes)
| RResp (mech : option (list Z)) (token : option bytes).

Definition DD (n : nat) : gty -> hdr -> bytes -> option value := fun g h b => gdec g n h b.

Definition opt_bytes (o : option value) : option (option bytes) :=
  match o with
  | None => Some None
  | Some (VBytes b) => Some (Some b)
  | Some _ => None
  end.

(* ReqFlags / MechTokenBytes / MechListMIC of marshalNegTokenInit and ResponseToken / MechListMIC of
   marshalNegTokenResp are Go types GoASN1.v knows *)
Definition init_tail : list gfield := [gopt 1 GBits; gopt 2 GBytes; gopt 3 GBytes].
Definition resp_tail : list gfield := [gopt 2 GBytes; gopt 3 GBytes].

(* asn1.Unmarshal(contents, &marshalNegTokenInit{}) *)
Definition neg_init_dec (b : bytes) : option neg_raw :=
  olet x <- xelem 16 true Some false b b;
  olet body <- fst x;
  olet m <- xfield 2 0 16 true (fun l => goids (length l) l) false body;
  olet mechs <- fst m;
  olet t <- gfields (DD (S (length body))) init_tail (snd m);
  match fst t with
  | [_; tok; _] => olet tok' <- opt_bytes tok; Some (RInit mechs tok')
  | _ => None
  end.

(* asn1.Unmarshal(contents, &marshalNegTokenResp{}) *)
Definition neg_resp_dec (b : bytes) : option neg_raw :=
  olet x <- xelem 16 true Some false b b;
  olet body <- fst x;
  olet st <- xfield 2 0 10 false (gint 4) false body;
  olet _ <- fst st;
  olet m <- xfield 2 1 6 false goid true (snd st);
  olet t <- gfields (DD (S (length body))) resp_tail (snd m);
  match fst t with
  | [tok; _] => olet tok' <- opt_bytes tok; Some (RResp (fst m) tok')
  | _ => None
  end.

(* UnmarshalNegToken: a RawValue, then the alternative its tag NUMBER names *)
Definition unmarshal_neg_token (b : bytes) : option neg_raw :=
  match b with
  | [] => None
  | _ :: _ =>
    match ghdr b with
    | None => None
    | Some (h, r) =>
      match splitz r (h_len h) with
      | None => None
      | Some (body, _) =>
        if h_tag h =? 0 then neg_init_dec body
        else if h_tag h =? 1 then neg_resp_dec body
        else None
      end
    end
  end.

(* SPNEGOToken.Unmarshal *)
Definition spnego_unmarshal (b : bytes) : option neg_raw :=
  match b with
  | [] => None
  | x :: _ =>
    if x =? 161 then unmarshal_neg_token b
    else
      match gss_oid b with
      | Some (o, r) => if oid_eqb o rfc_oid_spnego then unmarshal_neg_token r else None
      | None => None
      end
  end.

(* ---------- KRB5Token ---------- *)
Definition go_APRep : gty := GStruct [greq 0 (GInt 8); greq 1 (GInt 8); greq 2 go_EncryptedData].
Definition go_KRBError : gty :=
  GStruct [greq 0 (GInt 8); greq 1 (GInt 8); gopt 2 GTime; gopt 3 (GInt 8); greq 4 GTime; greq 5 (GInt 8);
           greq 6 (GInt 4); gopt 7 GString; gopt 8 go_PrincipalName; greq 9 GString; greq 10 go_PrincipalName;
           gopt 11 GString; gopt 12 GBytes].

(* APRep.Unmarshal / KRBError.Unmarshal succeed: [APPLICATION n] and msg-type = n *)
Definition krb_msg_ok (n : Z) (g : gty) (b : bytes) : bool :=
  match unmarshal_app n g b with
  | Some v => match rfld v 1 with Some (VInt mt) => mt =? n | _ => false end
  | None => false
  end.

Inductive krb5_raw :=
| KAPReq (wire : bytes)              (* tok-id 01 00, APReq.Unmarshal succeeded on wire *)
| KAPRep                             (* tok-id 02 00, APRep.Unmarshal succeeded *)
| KKrbError                          (* tok-id 03 00, KRBError.Unmarshal succeeded (msg-type 30) *)
| KUnknown.                          (* any other tok-id: nothing more is decoded *)

(* KRB5Token.Unmarshal; None = error *)
Definition krb5_unmarshal (b : bytes) : option krb5_raw :=
  match gss_oid b with
  | Some (o, r) =>
    if oid_eqb o rfc_oid_krb5 then
      match r with
      | t0 :: t1 :: msg =>
        if (t0 =? 1) && (t1 =? 0) then match parse_apreq msg with Some _ => Some (KAPReq msg) | None => None end
        else if (t0 =? 2) && (t1 =? 0) then (if krb_msg_ok 15 go_APRep msg then Some KAPRep else None)
        else if (t0 =? 3) && (t1 =? 0) then (if krb_msg_ok 30 go_KRBError msg then Some KKrbError else None)
        else Some KUnknown
      | _ => None                                (* krb5token too short *)
      end
    else None
  | None => None
  end.

(* ---------- from bytes to the structure model/Spnego.v decides on ---------- *)
Section Service.
  Variables (st : settings) (kt : list entry) (t : Z) (rc : list auth).

  (* service.VerifyAPREQ on the AP-REQ octets *)
  Definition apreq_verdict_bytes (wire : bytes) : option identity :=
    match fst (verify_apreq_bytes st kt t rc wire) with Accept id => Some id | _ => None end.

  (* KRB5Token.Unmarshal + what KRB5Token.Verify will say *)
  Definition mech_of_bytes (mb : bytes) : mech_token :=
    match krb5_unmarshal mb with
    | None => MTBad
    | Some (KAPReq wire) => MTAPReq (apreq_verdict_bytes wire)
    | Some KAPRep => MTAPRep
    | Some KKrbError => MTKrbError true
    | Some KUnknown => MTUnknownTokID
    end.

  Definition neg_of_raw (r : neg_raw) : neg_token :=
    match r with
    | RInit mechs tok => NInit (map classify_oid mechs) (option_map mech_of_bytes tok)
    | RResp mech tok =>
      NResp (match mech with Some o => classify_oid o | None => OOther end) (option_map mech_of_bytes tok)
    end.

  (* st.Unmarshal(b), else the raw KRB5 token wrapped into a NegTokenInit with the token's OID *)
  Definition token_of_bytes (b : bytes) : option neg_token :=
    match spnego_unmarshal b with
    | Some r => Some (neg_of_raw r)
    | None =>
      match krb5_unmarshal b with
      | Some _ => Some (NInit [OKrb5] (Some (mech_of_bytes b)))
      | None => None
      end
    end.

  (* strings.SplitN(s, " ", 2): None = no separator *)
  Fixpoint split_space (s : bytes) : option (bytes * bytes) :=
    match s with
    | [] => None
    | c :: r =>
      if c =? 32 then Some ([], r)
      else match split_space r with Some (a, b) => Some (c :: a, b) | None => None end
    end.

  Definition negotiate : bytes := [78; 101; 103; 111; 116; 105; 97; 116; 101].

  (* getAuthorizationNegotiationHeaderAsSPNEGOToken on the header value ("" = no header) *)
  Definition header_of_bytes (hv : bytes) : header :=
    match split_space hv with
    | None => HNone
    | Some (scheme, value) =>
      if beq_bytes scheme negotiate then
        match b64_decode value with
        | None => HBadBase64
        | Some b =>
          match token_of_bytes b with
          | Some tk => HToken tk
          | None => HUndecodable
          end
        end
      else HNone
    end.

  Definition serve_bytes (s : session) (hv : bytes) : response := serve s (header_of_bytes hv).

  (* SPNEGOToken.Unmarshal + SPNEGO.AcceptSecContext on token octets; None = Unmarshal failed *)
  Definition accept_bytes (b : bytes) : option (option identity * gss_status) :=
    match spnego_unmarshal b with
    | Some r => Some (accept_sec_context (neg_of_raw r))
    | None => None
    end.

  (* would service.VerifyAPREQ panic on the AP-REQ the header carries?  (never: SpnegoBytesProofs.no_crash) *)
  Definition carried_wire (b : bytes) : option bytes :=
    let of_mech (mb : bytes) := match krb5_unmarshal mb with Some (KAPReq w) => Some w | _ => None end in
    match spnego_unmarshal b with
    | Some (RInit _ (Some mb)) => of_mech mb
    | Some (RResp _ (Some mb)) => of_mech mb
    | Some _ => None
    | None => of_mech b
    end.

  Definition crashes (b : bytes) : bool :=
    match carried_wire b with
    | Some w => match fst (verify_apreq_bytes st kt t rc w) with Crash => true | _ => false end
    | None => false
    end.
End Service.

(* ---------- jv interface ---------- *)
Definition header_token (hv : bytes) : bytes :=
  match split_space hv with
  | Some (_, v) => match b64_decode v with Some b => b | None => [] end
  | None => []
  end.

(* input:  ( settings keytab-entries now replay-cache xHEADERVALUE )            no session manager
           ( session settings keytab-entries now replay-cache xHEADERVALUE )    session as in Spnego.serve_j
   output: as Spnego.serve_j: ( 0 status challenge-class identity ) *)
Definition spnego_serve_bytes_j (j : jv) : jv :=
  let run (s : jv) (st : jv) (kt : list jv) (t : Z) (rc : jv) (hv : bytes) : jv :=
    match un_session s, un_settings st, map_opt un_entry kt, un_rc rc with
    | Some s', Some st', Some kt', Some rc' =>
      if crashes st' kt' t rc' (header_token hv) then jpanic else
      let r := serve_bytes st' kt' t rc' s' hv in
      jok [JI (r_status r); JI (challenge_code (r_challenge r)); j_id (r_inner r)]
    | _, _, _, _ => jbad
    end in
  match j with
  | JL [st; JL kt; JI t; rc; JB hv] => run (JL [JI 0]) st kt t rc hv
  | JL [s; st; JL kt; JI t; rc; JB hv] => run s st kt t rc hv
  | _ => jbad
  end.

(* input:  ( settings keytab-entries now replay-cache xTOKEN )
   output: err when SPNEGOToken.Unmarshal fails, else as Spnego.accept_sec_context_j *)
Definition spnego_accept_bytes_j (j : jv) : jv :=
  match j with
  | JL [st; JL kt; JI t; rc; JB b] =>
    match un_settings st, map_opt un_entry kt, un_rc rc with
    | Some st', Some kt', Some rc' =>
      match accept_bytes st' kt' t rc' b with
      | None => jerr
      | Some (o, s) =>
        if crashes st' kt' t rc' b then jpanic else
        jok [jbool (match o with Some _ => true | None => false end); j_id o;
             jbool (match s with SComplete | SContinueNeeded => true | _ => false end)]
      end
    | _, _, _ => jbad
    end
  | _ => jbad
  end.

(* the decoders alone (used by the correspondence to localise a difference)
   ( i0 xB )  base64.StdEncoding.DecodeString          -> ( 0 xbytes ) | err
   ( i1 xB )  SPNEGOToken.Unmarshal                    -> ( 0 i0 ( ( iarc .. ) .. ) tok ) | ( 0 i1 ( mech? ) tok ) | err
                                                          tok = ( ) absent | ( xbytes )
   ( i2 xB )  KRB5Token.Unmarshal                      -> ( 0 iclass ) 0 AP-REQ 1 AP-REP 2 KRB-ERROR 3 unknown tok-id | err *)
Definition j_optb (o : option bytes) : jv := match o with Some b => JL [JB b] | None => JL [] end.
Definition j_arcs (o : list Z) : jv := JL (map JI o).

Definition spnego_decode_j (j : jv) : jv :=
  match j with
  | JL [JI 0; JB b] => match b64_decode b with Some o => jok [JB o] | None => jerr end
  | JL [JI 1; JB b] =>
    match spnego_unmarshal b with
    | Some (RInit ms tok) => jok [JI 0; JL (map j_arcs ms); j_optb tok]
    | Some (RResp m tok) => jok [JI 1; JL (match m with Some o => [j_arcs o] | None => [] end); j_optb tok]
    | None => jerr
    end
  | JL [JI 2; JB b] =>
    match krb5_unmarshal b with
    | Some (KAPReq _) => jok [JI 0]
    | Some KAPRep => jok [JI 1]
    | Some KKrbError => jok [JI 2]
    | Some KUnknown => jok [JI 3]
    | None => jerr
    end
  | _ => jbad
  end.
