(* Gokrb5.model.APReq — service-side acceptance of an AP-REQ: messages.APReq.Verify, Ticket.DecryptEncPart,
   Ticket.Valid, APReq.DecryptAuthenticator and service.VerifyAPREQ (repaired code), composed of the keytab
   look-up (model/Keytab.v), message decryption (model/Crypto.v) and the replay cache (model/Replay.v).
   The ASN.1 decoders of the two encrypted parts are section variables (external gofork asn1): the
   executable instances are supplied by the entry points below. *)
From Gokrb5.lib Require Import Bytes JV.
From Gokrb5.model Require Import Keytab Crypto Replay.

Record settings := mkSettings {
  st_skew : Z;                         (* MaxClockSkew, microseconds *)
  st_require_addr : bool;              (* RequireHostAddr *)
  st_caddr : Z * bytes;                (* ClientAddress (addr-type, address); zero value (0, []) *)
  st_override : option (list bytes)    (* KeytabPrincipal override *)
}.

Record ticket := mkTicket {
  tk_realm : bytes; tk_sname : list bytes; tk_etype : Z; tk_kvno : Z; tk_cipher : bytes }.

Record enc_ticket := mkEncTicket {
  et_flags : bytes; et_keytype : Z; et_key : bytes; et_crealm : bytes; et_cname : list bytes;
  et_start : option Z;                 (* seconds; None = absent (zero time.Time: before everything) *)
  et_end : Z;                          (* seconds *)
  et_caddr : list (Z * bytes) }.

Record authenticator := mkAuthenticator {
  au_crealm : bytes; au_cname : list bytes; au_ctime : Z (* seconds *); au_cusec : Z }.

Record identity := mkIdentity {
  id_username : bytes;                 (* CName.PrincipalNameString() *)
  id_domain : bytes; id_cname : list bytes; id_valid_until : Z }.

Inductive outcome :=
| Accept (id : identity)
| Reject (code : Z)                    (* KRB error code class; 0 = non-KRBError failure *)
| Crash.                               (* the implementation would panic *)

Definition addr_eqb (a b : Z * bytes) : bool := (fst a =? fst b) && beq_bytes (snd a) (snd b).

Fixpoint join_slash (l : list bytes) : bytes :=
  match l with [] => [] | [x] => x | x :: r => x ++ [47] ++ join_slash r end.

Definition flag_invalid (flags : bytes) : bool :=
  match flags with [] => false | b0 :: _ => Z.testbit b0 0 end.   (* flag 7 = least significant bit of byte 0 *)

Definition krbtgt : bytes := [107;114;98;116;103;116].
Definition auth_usage (sname : list bytes) : Z :=
  match sname with n0 :: _ => if beq_bytes n0 krbtgt then 7 else 11 | [] => 11 end.

Definition us (secs : Z) : Z := secs * 1000000.

(* the service an accepted authenticator is remembered for: the principal whose key decrypted the ticket (repaired
   code: with a keytab principal override the ticket's own, unprotected, sname plays no part) *)
Definition eff_sname (st : settings) (tk : ticket) : list bytes :=
  match st_override st with Some o => o | None => tk_sname tk end.

Section Verify.
  Variable dec_ticket : bytes -> option enc_ticket.      (* EncTicketPart.Unmarshal *)
  Variable dec_auth : bytes -> option authenticator.     (* Authenticator.Unmarshal *)

  (* APReq.Verify + VerifyAPREQ up to (not including) PAC processing.  now: microseconds. *)
  Definition verify_apreq (st : settings) (kt : list entry) (t : Z) (rc : list auth)
             (tk : ticket) (au_etype : Z) (au_cipher : bytes) : outcome * list auth :=
    let sname := match st_override st with Some o => o | None => tk_sname tk end in
    match get_key kt sname (tk_realm tk) (tk_kvno tk) (tk_etype tk) with
    | Err _ => (Reject 45, rc)                                   (* KRB_AP_ERR_NOKEY *)
    | Panic _ => (Crash, rc)
    | Ok (kv, ktype, _) =>
      match decrypt ktype kv 2 (tk_cipher tk) with
      | Panic _ => (Crash, rc)
      | Err _ => (Reject 0, rc)
      | Ok pt =>
        match dec_ticket pt with
        | None => (Reject 0, rc)
        | Some et =>
          let d := st_skew st in
          let not_yet := match et_start et with Some s => d <? us s - t | None => false end in
          if not_yet || flag_invalid (et_flags et) then (Reject 33, rc)      (* TKT_NYV *)
          else if d <? t - us (et_end et) then (Reject 32, rc)               (* TKT_EXPIRED *)
          else if negb (length (et_caddr et) =? 0)%nat && negb (existsb (addr_eqb (st_caddr st)) (et_caddr et))
          then (Reject 38, rc)                                               (* BADADDR *)
          else
            match decrypt (et_keytype et) (et_key et) (auth_usage (tk_sname tk)) au_cipher with
            | Panic _ => (Crash, rc)
            | Err _ => (Reject 31, rc)                                       (* BAD_INTEGRITY *)
            | Ok apt =>
              match dec_auth apt with
              | None => (Reject 31, rc)
              | Some au =>
                if negb (names_eqb (au_cname au) (et_cname et)) then (Reject 36, rc)     (* BADMATCH *)
                else if negb (beq_bytes (au_crealm au) (et_crealm et)) then (Reject 36, rc)
                else
                  let ct := us (au_ctime au) + au_cusec au in
                  if d <? Z.abs (t - ct) then (Reject 37, rc)                 (* SKEW *)
                  else if st_require_addr st && (length (et_caddr et) =? 0)%nat then (Reject 38, rc)
                  else
                    let a := mkAuth (join_slash (au_cname au)) ct (eff_sname st tk) in
                    if existsb (auth_eqb a) rc then (Reject 34, rc)           (* REPEAT *)
                    else (Accept (mkIdentity (join_slash (au_cname au)) (au_crealm au) (au_cname au) (et_end et)),
                          a :: rc)
              end
            end
        end
      end
    end.
End Verify.

(* ---- jv interface (sealed-content mode: the harness says what it sealed inside the two encrypted parts;
   whether they decrypt is decided by the model's own crypto on the transmitted bytes) ---- *)
Definition un_addr (j : jv) : option (Z * bytes) :=
  match j with JL [JI t; JB a] => Some (t, a) | _ => None end.

Definition un_settings (j : jv) : option settings :=
  match j with
  | JL [JI d; JI ra; ca; JL ov] =>
    match un_addr ca, (match ov with
                       | [] => Some None
                       | [JL ns] => match map_opt as_bytes ns with Some n => Some (Some n) | None => None end
                       | _ => None end) with
    | Some ca', Some ov' => Some (mkSettings d (negb (ra =? 0)) ca' ov')
    | _, _ => None end
  | _ => None
  end.

Definition un_ticket (j : jv) : option ticket :=
  match j with
  | JL [JB realm; JL sn; JI et; JI kvno; JB cipher] =>
    match map_opt as_bytes sn with Some sn' => Some (mkTicket realm sn' et kvno cipher) | None => None end
  | _ => None end.

Definition un_enc_ticket (j : jv) : option enc_ticket :=
  match j with
  | JL [JB flags; JI kt; JB key; JB crealm; JL cn; JL st; JI en; JL ca] =>
    match map_opt as_bytes cn, map_opt un_addr ca,
          (match st with [] => Some None | [JI s] => Some (Some s) | _ => None end) with
    | Some cn', Some ca', Some st' => Some (mkEncTicket flags kt key crealm cn' st' en ca')
    | _, _, _ => None end
  | _ => None end.

Definition un_authenticator (j : jv) : option authenticator :=
  match j with
  | JL [JB crealm; JL cn; JI ct; JI cu] =>
    match map_opt as_bytes cn with Some cn' => Some (mkAuthenticator crealm cn' ct cu) | None => None end
  | _ => None end.

Definition j_outcome (o : outcome) : jv :=
  match o with
  | Accept id => jok [JB (id_username id); JB (id_domain id); JL (map JB (id_cname id)); JI (id_valid_until id)]
  | Reject _ => jerr
  | Crash => jpanic
  end.

Definition un_rc (j : jv) : option (list auth) :=
  match j with
  | JL l => map_opt (fun e => match e with
                              | JL [JB c; JI t; JL sn] => match map_opt as_bytes sn with Some sn' => Some (mkAuth c t sn') | None => None end
                              | _ => None end) l
  | _ => None end.

(* input: ( settings keytab-entries now replay-cache ticket sealed-ticket ( au_etype au_cipher ) sealed-authenticator ) *)
Definition verify_apreq_j (j : jv) : jv :=
  match j with
  | JL [st; JL kt; JI t; rc; tk; sealed_t; JL [JI aet; JB acipher]; sealed_a] =>
    match un_settings st, map_opt un_entry kt, un_rc rc, un_ticket tk, un_enc_ticket sealed_t, un_authenticator sealed_a with
    | Some st', Some kt', Some rc', Some tk', Some et, Some au =>
      j_outcome (fst (verify_apreq (fun _ => Some et) (fun _ => Some au) st' kt' t rc' tk' aet acipher))
    | _, _, _, _, _, _ => jbad
    end
  | _ => jbad
  end.
