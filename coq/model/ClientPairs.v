(* Gokrb5.model.ClientPairs — the ticket cache of model/ClientSM.v with SESSION KEYS, against a KDC that may serve
   the renewal of a just-expired service ticket and whose clock may run ahead of the client's (v8/client/cache.go GetCachedTicket / renewTicket / addEntry,
   TGSExchange).  What is handed back is a (ticket, session key) pair read from ONE cache entry; the KDC draws the
   session key of every issue from an arbitrary source, so nothing ties a key to a ticket but the issue log. *)
From Gokrb5.lib Require Import Bytes JV.

Record pentry := mkPE { pe_spn : Z; pe_tid : Z; pe_key : Z; pe_start : Z; pe_end : Z; pe_renew : Z }.  (* ms; renew 0 = none *)

Record pkdc := mkPK {
  pk_next : Z;                              (* next ticket id *)
  pk_life : Z; pk_renew : Z;                (* service ticket lifetime / renewable lifetime, seconds (0 = none) *)
  pk_serves : bool;                         (* serves renewal requests for service tickets (see kdc.LenientRenewUsage) *)
  pk_ahead : Z;                             (* the KDC's clock minus the client's, ms (within the permitted skew) *)
  pk_log : list (Z * Z * Z)                 (* (ticket id, spn, session key) issued, newest first *)
}.

Record pstate := mkPS { ps_cache : list pentry; ps_kdc : pkdc }.

Inductive paction :=
| PHit (tid key : Z)            (* served from the cache *)
| PRenewed (tid key : Z)        (* the cached ticket was renewed by the KDC *)
| PRefused (tid key : Z)        (* renewal attempted and refused, then a fresh ticket *)
| PFresh (tid key : Z)
| PLost.                        (* renewTicket: "ticket was not added to cache" - does not happen (theorem) *)

Definition floor_s (ms : Z) : Z := (ms / 1000) * 1000.
Definition plookup (spn : Z) (c : list pentry) : option pentry := find (fun e => pe_spn e =? spn) c.
Definition pstore (e : pentry) (c : list pentry) : list pentry :=
  e :: filter (fun x => negb (pe_spn x =? pe_spn e)) c.

Section Keys.
  Variable keysrc : Z -> Z.     (* the session key the KDC draws for its n-th issue: ANY function *)

  (* a fresh ticket for spn at time now *)
  Definition pissue (k : pkdc) (spn now : Z) : pentry * pkdc :=
    let start := floor_s (now + pk_ahead k) in
    (* renew-till is the smaller of the KDC's own limit and the rtime the client asked for, which the client computed on
       ITS clock: with a KDC clock that is not behind, the client's *)
    let renew := if pk_renew k =? 0 then 0 else floor_s now + 1000 * pk_renew k in
    let key := keysrc (pk_next k) in
    (mkPE spn (pk_next k) key start (start + 1000 * pk_life k) renew,
     mkPK (pk_next k + 1) (pk_life k) (pk_renew k) (pk_serves k) (pk_ahead k) ((pk_next k, spn, key) :: pk_log k)).

  (* the renewal of e: a new ticket and a NEW session key, renew-till kept, end time capped by it *)
  Definition prenew (k : pkdc) (e : pentry) (now : Z) : pentry * pkdc :=
    let start := floor_s (now + pk_ahead k) in
    let end0 := start + 1000 * pk_life k in
    let end1 := if pe_renew e <? end0 then pe_renew e else end0 in
    let key := keysrc (pk_next k) in
    (mkPE (pe_spn e) (pk_next k) key start end1 (pe_renew e),
     mkPK (pk_next k + 1) (pk_life k) (pk_renew k) (pk_serves k) (pk_ahead k) ((pk_next k, pe_spn e, key) :: pk_log k)).

  (* Client.GetServiceTicket -> GetCachedTicket: the entry while inside its validity; else, while renew-till is in the
     future, renewTicket: a TGS exchange with the renew option, whose reply TGSExchange stores in the cache, after which
     the entry is READ BACK from the cache and its ticket and key returned; a refused renewal, like no entry at all,
     ends in a fresh TGS exchange, whose reply is stored and returned. *)
  Definition pget (s : pstate) (spn now : Z) : paction * pstate :=
    match plookup spn (ps_cache s) with
    | Some e =>
      if (pe_start e <? now) && (now <? pe_end e) then (PHit (pe_tid e) (pe_key e), s)
      else if now <? pe_renew e then
        if pk_serves (ps_kdc s) && (now + pk_ahead (ps_kdc s) <=? pe_end e + 1000) then
          let '(e', k') := prenew (ps_kdc s) e now in
          let c' := pstore e' (ps_cache s) in
          match plookup spn c' with
          | Some x => (PRenewed (pe_tid x) (pe_key x), mkPS c' k')
          | None => (PLost, mkPS c' k')
          end
        else
          let '(e', k') := pissue (ps_kdc s) spn now in
          (PRefused (pe_tid e') (pe_key e'), mkPS (pstore e' (ps_cache s)) k')
      else
        let '(e', k') := pissue (ps_kdc s) spn now in
        (PFresh (pe_tid e') (pe_key e'), mkPS (pstore e' (ps_cache s)) k')
    | None =>
      let '(e', k') := pissue (ps_kdc s) spn now in
      (PFresh (pe_tid e') (pe_key e'), mkPS (pstore e' (ps_cache s)) k')
    end.

  Inductive pop := PGet (spn : Z) (now : Z) | PDestroy.

  Definition pstep (s : pstate) (o : pop) : option paction * pstate :=
    match o with
    | PGet spn now => let '(a, s') := pget s spn now in (Some a, s')
    | PDestroy => (None, mkPS [] (ps_kdc s))
    end.

  Fixpoint prun (s : pstate) (ops : list pop) : list (option paction) :=
    match ops with
    | [] => []
    | o :: r => let '(a, s') := pstep s o in a :: prun s' r
    end.

  Fixpoint pstates (s : pstate) (ops : list pop) : list (pop * option paction * pstate) :=
    match ops with
    | [] => []
    | o :: r => let '(a, s') := pstep s o in (o, a, s') :: pstates s' r
    end.
End Keys.

(* ---------- jv ---------- *)
(* kinds as in client_run: 0 cache, 1 renewal seen by the KDC, 2 fresh; the pair is (ticket id, key id) with the
   KDC's n-th issue drawing key n *)
Definition j_paction (a : option paction) : jv :=
  match a with
  | Some (PHit t k) => JL [JI 0; JI t; JI k]
  | Some (PRenewed t k) => JL [JI 1; JI t; JI k]
  | Some (PRefused t k) => JL [JI 1; JI t; JI k]
  | Some (PFresh t k) => JL [JI 2; JI t; JI k]
  | Some PLost => JL [JI 4]
  | None => JL [JI 3]
  end.

Definition un_pop (j : jv) : option pop :=
  match j with
  | JL [JI 0; JI spn; JI now] => Some (PGet spn now)
  | JL [JI 1] => Some PDestroy
  | _ => None
  end.

(* ( life renew serves ahead ( ops ) ) -> per operation ( kind ticket-id key-id ) with ids numbered from 0 *)
Definition client_pairs_j (j : jv) : jv :=
  match j with
  | JL [JI life; JI renew; JI serves; JI ahead; JL ops] =>
    match map_opt un_pop ops with
    | Some ops' => jok (map j_paction (prun (fun n => n) (mkPS [] (mkPK 0 life renew (negb (serves =? 0)) ahead [])) ops'))
    | None => jbad end
  | _ => jbad
  end.
