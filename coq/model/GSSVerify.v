(* GSS token verification with the executable keyed checksum of model/Crypto.v plugged in. *)
From Gokrb5.lib Require Import Bytes JV.
From Gokrb5.model Require Import GSSToken Crypto.

Definition j_optbool (o : option bool) : jv :=
  match o with Some b => jok [jbool b] | None => jerr end.

Definition wrap_verify_j (j : jv) : jv :=
  match j with
  | JL [t; JL [JI et; JB key]; JI usage] =>
    match un_wrap t with
    | Some t' => j_optbool (wrap_verify checksum_opt t' et key usage)
    | None => jbad end
  | _ => jbad
  end.

Definition mic_verify_j (j : jv) : jv :=
  match j with
  | JL [t; JL [JI et; JB key]; JI usage] =>
    match un_mic t with
    | Some t' => j_optbool (mic_verify checksum_opt t' et key usage)
    | None => jbad end
  | _ => jbad
  end.
