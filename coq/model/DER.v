(* Gokrb5.model.DER — the TLV layer of DER (definite, minimal lengths; low-tag-number identifiers) and the
   bodies of the primitive types used by Kerberos: INTEGER, GeneralizedTime, OBJECT IDENTIFIER.
   Reproduces gofork/encoding/asn1 marshal.go byte for byte on the encoding side; the parsing side is the
   STRICT inverse (it accepts exactly what the encoder can write).  Proofs are in proofs/DERBasic.v. *)
From Gokrb5.lib Require Import Bytes.

(* ---------- fuel for digit loops: zfuel n exceeds the number of binary digits of |n| ---------- *)
Definition zfuel (n : Z) : nat := S (Z.to_nat (Z.log2 (Z.abs n))).

(* ---------- identifier octet (tag numbers < 31 only) ---------- *)
(* cls: 0 universal, 1 application, 2 context-specific, 3 private *)
Definition ident (cls : Z) (constructed : bool) (tag : Z) : Z :=
  cls * 64 + (if constructed then 32 else 0) + tag.

(* ---------- length octets ---------- *)
(* minimal big-endian octets of n > 0, pushed in front of acc *)
Fixpoint be_min (fuel : nat) (n : Z) (acc : bytes) : bytes :=
  if n <=? 0 then acc else
  match fuel with
  | O => acc
  | S f => be_min f (n / 256) (n mod 256 :: acc)
  end.

Definition der_len (n : Z) : bytes :=
  if n <? 128 then [n]
  else let o := be_min (zfuel n) n [] in (128 + zlen o) :: o.

(* read k octets big-endian; every octet must be a byte *)
Fixpoint be_take (k : nat) (b : bytes) (acc : Z) : option (Z * bytes) :=
  match k with
  | O => Some (acc, b)
  | S k' =>
    match b with
    | [] => None
    | x :: r => if is_byte x then be_take k' r (acc * 256 + x) else None
    end
  end.

(* rejects: indefinite form 0x80, more than 4 length octets, a leading zero length octet, the long form for
   a length below 128, octets outside 0..255 *)
Definition parse_len (b : bytes) : option (Z * bytes) :=
  match b with
  | [] => None
  | l :: r =>
    if (0 <=? l) && (l <? 128) then Some (l, r)
    else if (128 <? l) && (l <=? 132) then
      match r with
      | [] => None
      | x :: _ =>
        if x =? 0 then None else
        match be_take (Z.to_nat (l - 128)) r 0 with
        | Some (n, r') => if n <? 128 then None else Some (n, r')
        | None => None
        end
      end
    else None
  end.

(* ---------- TLV ---------- *)
Definition tlv (id : Z) (body : bytes) : bytes := id :: der_len (zlen body) ++ body.

(* split off the first n elements (n counted in Z so that a huge announced length costs nothing) *)
Fixpoint splitz (l : bytes) (n : Z) : option (bytes * bytes) :=
  if n <=? 0 then Some ([], l) else
  match l with
  | [] => None
  | x :: r => match splitz r (n - 1) with
              | Some (a, b) => Some (x :: a, b)
              | None => None
              end
  end.

(* (identifier octet, body, rest); None if truncated, malformed length, or high-tag-number form *)
Definition parse_tlv (b : bytes) : option (Z * bytes * bytes) :=
  match b with
  | [] => None
  | id :: r =>
    if id mod 32 =? 31 then None else
    match parse_len r with
    | Some (n, r') =>
      match splitz r' n with
      | Some (body, rest) => Some (id, body, rest)
      | None => None
      end
    | None => None
    end
  end.

(* ---------- INTEGER body: minimal two's complement ---------- *)
Definition small_int (z : Z) : bool := (-128 <=? z) && (z <? 128).

Fixpoint int_be (fuel : nat) (z : Z) (acc : bytes) : bytes :=
  let acc' := z mod 256 :: acc in
  if small_int z then acc' else
  match fuel with
  | O => acc'
  | S f => int_be f (z / 256) acc'
  end.

Definition enc_int (z : Z) : bytes := int_be (zfuel z) z [].

(* signed big-endian value of a non-empty octet string *)
Definition sbe (l : bytes) : Z :=
  match l with
  | [] => 0
  | b :: r => be_val_acc (if b <? 128 then b else b - 256) r
  end.

Definition int_minimal (l : bytes) : bool :=
  match l with
  | b0 :: b1 :: _ => negb (((b0 =? 0) && (b1 <? 128)) || ((b0 =? 255) && (128 <=? b1)))
  | _ => true
  end.

Definition dec_int (b : bytes) : option Z :=
  match b with
  | [] => None
  | _ => if wf_bytesb b && int_minimal b then Some (sbe b) else None
  end.

(* ---------- GeneralizedTime body: YYYYMMDDHHMMSSZ ---------- *)
Definition is_leap (y : Z) : bool := ((y mod 4 =? 0) && negb (y mod 100 =? 0)) || (y mod 400 =? 0).

Definition days_in_month (y m : Z) : Z :=
  if m =? 2 then (if is_leap y then 29 else 28)
  else if (m =? 4) || (m =? 6) || (m =? 9) || (m =? 11) then 30 else 31.

(* day of a 400-year era (0 = 1 March of year 0 of the era) -> (year of era counted from January, month, day) *)
Definition civil_of_doe (doe : Z) : Z * Z * Z :=
  let yoe := (doe - doe / 1460 + doe / 36524 - doe / 146096) / 365 in
  let doy := doe - (365 * yoe + yoe / 4 - yoe / 100) in
  let mp := (5 * doy + 2) / 153 in
  let d := doy - (153 * mp + 2) / 5 + 1 in
  let m := if mp <? 10 then mp + 3 else mp - 9 in
  (if m <=? 2 then yoe + 1 else yoe, m, d).

Definition doe_of_civil (yoe m d : Z) : Z :=
  let mp := if 2 <? m then m - 3 else m + 9 in
  let doy := (153 * mp + 2) / 5 + d - 1 in
  yoe * 365 + yoe / 4 - yoe / 100 + doy.

(* days since 1970-01-01 -> (year, month, day), proleptic Gregorian *)
Definition civil_of_days (days : Z) : Z * Z * Z :=
  let z := days + 719468 in
  let era := z / 146097 in
  let '(a, m, d) := civil_of_doe (z mod 146097) in
  (a + era * 400, m, d).

Definition days_of_civil (y m d : Z) : Z :=
  let y' := if m <=? 2 then y - 1 else y in
  (y' / 400) * 146097 + doe_of_civil (y' mod 400) m d - 719468.

Definition time_min : Z := -62135596800.   (* 0001-01-01 00:00:00 UTC *)
Definition time_max : Z := 253402300799.   (* 9999-12-31 23:59:59 UTC *)
Definition time_ok (secs : Z) : bool := (time_min <=? secs) && (secs <=? time_max).

Definition dig2 (n : Z) : bytes := [48 + n / 10; 48 + n mod 10].
Definition dig4 (n : Z) : bytes := [48 + n / 1000; 48 + (n / 100) mod 10; 48 + (n / 10) mod 10; 48 + n mod 10].

Definition enc_time (secs : Z) : bytes :=
  let days := secs / 86400 in
  let rem := secs mod 86400 in
  let '(y, m, d) := civil_of_days days in
  dig4 y ++ dig2 m ++ dig2 d ++ dig2 (rem / 3600) ++ dig2 ((rem / 60) mod 60) ++ dig2 (rem mod 60) ++ [90].

Definition is_digit (x : Z) : bool := (48 <=? x) && (x <=? 57).

Definition num2 (a b : Z) : Z := (a - 48) * 10 + (b - 48).
Definition num4 (a b c d : Z) : Z := (a - 48) * 1000 + (b - 48) * 100 + (c - 48) * 10 + (d - 48).

Definition date_ok (y m d h n s : Z) : bool :=
  (1 <=? y) && (1 <=? m) && (m <=? 12) && (1 <=? d) && (d <=? days_in_month y m)
  && (h <? 24) && (n <? 60) && (s <? 60).

Definition time_of_fields (y m d h n s : Z) : Z := days_of_civil y m d * 86400 + h * 3600 + n * 60 + s.

Definition dec_time (b : bytes) : option Z :=
  match b with
  | [y1; y2; y3; y4; m1; m2; d1; d2; h1; h2; n1; n2; s1; s2; zz] =>
    if forallb is_digit [y1; y2; y3; y4; m1; m2; d1; d2; h1; h2; n1; n2; s1; s2] && (zz =? 90) then
      let y := num4 y1 y2 y3 y4 in
      let m := num2 m1 m2 in
      let d := num2 d1 d2 in
      let h := num2 h1 h2 in
      let n := num2 n1 n2 in
      let s := num2 s1 s2 in
      if date_ok y m d h n s then Some (time_of_fields y m d h n s) else None
    else None
  | _ => None
  end.

(* ---------- OBJECT IDENTIFIER body ---------- *)
(* continuation octets (high bit set) of m > 0, pushed in front of acc *)
Fixpoint b128 (fuel : nat) (m : Z) (acc : bytes) : bytes :=
  if m <=? 0 then acc else
  match fuel with
  | O => acc
  | S f => b128 f (m / 128) (128 + m mod 128 :: acc)
  end.

Definition enc_b128 (n : Z) : bytes := b128 (zfuel n) (n / 128) [n mod 128].

Definition oid_ok (arcs : list Z) : bool :=
  match arcs with
  | a :: b :: r =>
    (0 <=? a) && (a <=? 2) && (0 <=? b) && ((a =? 2) || (b <? 40)) && forallb (fun x => 0 <=? x) r
  | _ => false
  end.

Definition enc_oid (arcs : list Z) : option bytes :=
  match arcs with
  | a :: b :: r => if oid_ok arcs then Some (enc_b128 (40 * a + b) ++ flat_map enc_b128 r) else None
  | _ => None
  end.

(* start = at the first octet of a sub-identifier (where 0x80 would be a redundant leading zero group) *)
Fixpoint dec_arcs (b : bytes) (cur : Z) (start : bool) : option (list Z) :=
  match b with
  | [] => if start then Some [] else None
  | x :: r =>
    if is_byte x then
      if start && (x =? 128) then None
      else if x <? 128 then
        match dec_arcs r 0 true with
        | Some l => Some ((cur * 128 + x) :: l)
        | None => None
        end
      else dec_arcs r (cur * 128 + (x - 128)) false
    else None
  end.

Definition dec_oid (b : bytes) : option (list Z) :=
  match dec_arcs b 0 true with
  | Some (v :: l) =>
    Some (if v <? 40 then 0 :: v :: l else if v <? 80 then 1 :: (v - 40) :: l else 2 :: (v - 80) :: l)
  | _ => None
  end.

(* ---------- BIT STRING body ---------- *)
Definition bits_ok (unused : Z) (b : bytes) : bool :=
  (0 <=? unused) && (unused <? 8) && (match b with [] => unused =? 0 | _ => true end).

Definition enc_bits (unused : Z) (b : bytes) : bytes := unused :: b.

Definition dec_bits (body : bytes) : option (Z * bytes) :=
  match body with
  | [] => None
  | u :: b => if bits_ok u b then Some (u, b) else None
  end.
