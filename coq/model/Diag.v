(* Gokrb5.model.Diag — information-flow model of the diagnostic encodings (encoding/json over struct fields):
   what an encoding shows is a function of the VISIBLE fields only (exported and not tagged json:"-").  The
   type descriptions of the JSON roots are generated from /repo's source on every run (gen/DiagTypes.v) and
   checked by `no_secret_visible`; the generic theorem below turns the check into noninterference. *)
From Gokrb5.lib Require Import Bytes JV.

Inductive jty : Type :=
| JPublic                                  (* scalars, strings, times that are not secrets *)
| JSecret                                  (* key bytes, passwords *)
| JStruct (fields : list (bool * jty))     (* (visible?, type) per field, declaration order *)
| JSeq (elem : jty).                       (* slices, arrays, map values, pointers (0 or 1 element) *)

Inductive jval : Type :=
| VP (tok : Z)
| VS (secret : Z)
| VStruct (fs : list jval)
| VSeq (l : list jval).

(* what the encoder emits: the tokens of the visible leaves, in order (secrets would be emitted if visible) *)
Fixpoint render (t : jty) (v : jval) {struct t} : list Z :=
  match t, v with
  | JPublic, VP x => [x]
  | JSecret, VS s => [s]
  | JStruct fs, VStruct vs =>
    (fix go (fs : list (bool * jty)) (vs : list jval) : list Z :=
       match fs, vs with
       | (vis, ft) :: fr, x :: vr => (if vis then render ft x else []) ++ go fr vr
       | _, _ => []
       end) fs vs
  | JSeq e, VSeq l => flat_map (render e) l
  | _, _ => []
  end.

(* the checker: no secret is reachable through visible fields *)
Fixpoint no_secret_visible (t : jty) : bool :=
  match t with
  | JPublic => true
  | JSecret => false
  | JStruct fs =>
    (fix go (fs : list (bool * jty)) : bool :=
       match fs with
       | [] => true
       | (vis, ft) :: fr => (if vis then no_secret_visible ft else true) && go fr
       end) fs
  | JSeq e => no_secret_visible e
  end.

(* two values agree on everything that is not a secret and not hidden *)
Fixpoint same_public (t : jty) (a b : jval) {struct t} : Prop :=
  match t, a, b with
  | JPublic, VP x, VP y => x = y
  | JSecret, VS _, VS _ => True
  | JStruct fs, VStruct xs, VStruct ys =>
    (fix go (fs : list (bool * jty)) (xs ys : list jval) : Prop :=
       match fs, xs, ys with
       | [], [], [] => True
       | (vis, ft) :: fr, x :: xr, y :: yr => (if vis then same_public ft x y else True) /\ go fr xr yr
       | _, _, _ => False
       end) fs xs ys
  | JSeq e, VSeq xs, VSeq ys =>
    (fix go (xs ys : list jval) : Prop :=
       match xs, ys with
       | [], [] => True
       | x :: xr, y :: yr => same_public e x y /\ go xr yr
       | _, _ => False
       end) xs ys
  | _, _, _ => False
  end.
