(* Gokrb5.model.ClientSM — the client's ticket bookkeeping as a state machine (v8/client/cache.go
   GetCachedTicket / renewTicket, TGSExchange referral loop, messages.NewASReq request fields), against an
   abstract RFC 4120 KDC with an issue log.  Time is explicit (milliseconds); ticket times are whole seconds. *)
From Gokrb5.lib Require Import Bytes JV.

(* ---------- request construction (messages.NewASReq) ---------- *)
Record cfg := mkCfg {
  c_ticket_life : Z;            (* seconds *)
  c_renew_life : Z;             (* seconds, 0 = not renewable *)
  c_forwardable : bool; c_proxiable : bool; c_canonicalize : bool;
  c_default_opts : list Z;      (* flag numbers set in kdc_default_options *)
  c_etypes : list Z
}.

Record asreq_fields := mkASF {
  f_till : Z;                   (* seconds *)
  f_rtime : option Z;
  f_flags : list Z;             (* flag numbers set in kdc-options, ascending *)
  f_etypes : list Z
}.

Fixpoint insert_flag (x : Z) (l : list Z) : list Z :=
  match l with
  | [] => [x]
  | y :: r => if x <? y then x :: l else if x =? y then l else y :: insert_flag x r
  end.

Definition new_as_req (c : cfg) (now_s : Z) : asreq_fields :=
  let f0 := fold_right insert_flag [] (c_default_opts c) in
  let f1 := if c_forwardable c then insert_flag 1 f0 else f0 in
  let f2 := if c_canonicalize c then insert_flag 15 f1 else f1 in
  let f3 := if c_proxiable c then insert_flag 3 f2 else f2 in
  let f4 := if c_renew_life c =? 0 then f3 else insert_flag 8 f3 in
  mkASF (now_s + c_ticket_life c)
        (if c_renew_life c =? 0 then None else Some (now_s + c_renew_life c))
        f4 (c_etypes c).

(* ---------- ticket cache ---------- *)
Record centry := mkCE { ce_spn : Z; ce_tid : Z; ce_start : Z; ce_end : Z; ce_renew : Z }.  (* ms; renew 0 = none *)

Record kdc := mkKDC {
  k_next : Z;                               (* next ticket id *)
  k_life : Z; k_renew : Z;                  (* service ticket lifetime / renewable lifetime, seconds (0 = none) *)
  k_log : list (Z * Z)                      (* (ticket id, spn) issued, newest first *)
}.

Record cstate := mkCS { cs_cache : list centry; cs_kdc : kdc }.

Inductive action := CacheHit (tid : Z) | Renewed (tid : Z) | Fresh (tid : Z).

Definition floor_s (ms : Z) : Z := (ms / 1000) * 1000.

Definition lookup (spn : Z) (c : list centry) : option centry := find (fun e => ce_spn e =? spn) c.
Definition store (e : centry) (c : list centry) : list centry :=
  e :: filter (fun x => negb (ce_spn x =? ce_spn e)) c.

(* the KDC issues a ticket for spn at time now *)
Definition issue (k : kdc) (spn now : Z) : centry * kdc :=
  let start := floor_s now in
  let renew := if k_renew k =? 0 then 0 else start + 1000 * k_renew k in
  (mkCE spn (k_next k) start (start + 1000 * k_life k) renew,
   mkKDC (k_next k + 1) (k_life k) (k_renew k) ((k_next k, spn) :: k_log k)).

(* Client.GetServiceTicket: cache; else, while renew-till is in the future, a renewal attempt - which an RFC
   4120 KDC refuses because the ticket presented has expired (the client only tries after expiry) - and then,
   or directly, a fresh TGS exchange.  Renewed t = fresh ticket t after a refused renewal attempt. *)
Definition get_ticket (s : cstate) (spn now : Z) : action * cstate :=
  match lookup spn (cs_cache s) with
  | Some e =>
    if (ce_start e <? now) && (now <? ce_end e) then (CacheHit (ce_tid e), s)
    else
      let '(e', k') := issue (cs_kdc s) spn now in
      ((if now <? ce_renew e then Renewed (ce_tid e') else Fresh (ce_tid e')), mkCS (store e' (cs_cache s)) k')
  | None =>
    let '(e', k') := issue (cs_kdc s) spn now in
    (Fresh (ce_tid e'), mkCS (store e' (cs_cache s)) k')
  end.

Inductive cop := Get (spn : Z) (now : Z) | Destroy.

Definition cstep (s : cstate) (o : cop) : option action * cstate :=
  match o with
  | Get spn now => let '(a, s') := get_ticket s spn now in (Some a, s')
  | Destroy => (None, mkCS [] (cs_kdc s))
  end.

Fixpoint crun (s : cstate) (ops : list cop) : list (option action) :=
  match ops with
  | [] => []
  | o :: r => let '(a, s') := cstep s o in a :: crun s' r
  end.

(* ---------- referral loop of TGSExchange ---------- *)
(* refers i = the reply to the i-th TGS request of this call is a referral TGT *)
Fixpoint tgs_exchange (fuel : nat) (refers : nat -> bool) (i : nat) (referral : nat) : bool * nat :=
  match fuel with
  | O => (false, i)
  | S f =>
    if refers i then
      if (5 <? referral)%nat then (false, S i)            (* maximum number of referrals exceeded *)
      else tgs_exchange f refers (S i) (S referral)
    else (true, S i)
  end.

(* ---------- jv ---------- *)
Definition j_action (a : option action) : jv :=
  match a with
  | Some (CacheHit t) => JL [JI 0; JI t]
  | Some (Renewed t) => JL [JI 1; JI t]
  | Some (Fresh t) => JL [JI 2; JI t]
  | None => JL [JI 3]
  end.

Definition un_cop (j : jv) : option cop :=
  match j with
  | JL [JI 0; JI spn; JI now] => Some (Get spn now)
  | JL [JI 1] => Some Destroy
  | _ => None
  end.

(* ( life renew ( ops ) ) -> actions with ticket ids numbered from 0 *)
Definition client_run_j (j : jv) : jv :=
  match j with
  | JL [JI life; JI renew; JL ops] =>
    match map_opt un_cop ops with
    | Some ops' => jok (map j_action (crun (mkCS [] (mkKDC 0 life renew [])) ops'))
    | None => jbad end
  | _ => jbad
  end.

(* ( tlife rlife fwd prox canon ( default-opt flags ) ( etypes ) now ) -> ( till ( rtime? ) ( flags ) ( etypes ) ) *)
Definition new_as_req_j (j : jv) : jv :=
  match j with
  | JL [JI tl; JI rl; JI fw; JI px; JI cn; JL dopts; JL ets; JI now] =>
    match map_opt as_int dopts, map_opt as_int ets with
    | Some d, Some e =>
      let r := new_as_req (mkCfg tl rl (negb (fw =? 0)) (negb (px =? 0)) (negb (cn =? 0)) d e) now in
      jok [JI (f_till r); JL (match f_rtime r with Some x => [JI x] | None => [] end);
           JL (map JI (f_flags r)); JL (map JI (f_etypes r))]
    | _, _ => jbad end
  | _ => jbad
  end.

Definition referrals_j (j : jv) : jv :=
  match j with
  | JI n => let '(ok, reqs) := tgs_exchange 64 (fun i => (i <? Z.to_nat n)%nat) 0 0 in
            jok [jbool ok; JI (Z.of_nat reqs)]
  | _ => jbad
  end.
