(* Gokrb5.model.GoASN1 — what gofork/encoding/asn1.UnmarshalWithParams (asn1.go: parseTagAndLength, parseField,
   parseSequenceOf) ACCEPTS, re-implemented in Gallina for the Go types the Kerberos messages are made of, so that the
   acceptance models can start from WIRE BYTES ("bytes mode").  The strict decoder of DERCodec.v accepts exactly what
   the encoder writes; Go's decoder accepts more, and all of it is reproduced here (and validated byte for byte by the
   C01b correspondence stream, which feeds the real decoder truncations, substitutions and hand-made variants):
     - bytes after the top-level element are ignored (gokrb5 drops the rest UnmarshalWithParams returns);
     - bytes after the last field of a struct (SEQUENCE) are ignored;
     - the length octets of an EXPLICIT [n] / [APPLICATION n] wrapper are parsed but never compared with the
       element inside (only: not zero, "constructed" bit set, at least one octet follows the header);
     - an OPTIONAL field is absent when the input is exhausted or when its tag does not match; after an explicit
       tag matched, a mismatch of the universal tag inside it makes the field absent, too;
     - a RawValue field takes whatever TLV is next (its struct tag is not consulted);
     - string fields accept PrintableString, IA5String, T61String, UTF8String and GeneralString (each with its own
       content check), time fields accept UTCTime and GeneralizedTime with Z or a numeric zone;
     - high-tag-number identifiers are parsed (at most 4 base-128 octets; value below 31 rejected).
   Lengths must be definite and minimal, below 2^31 (4 length octets, intermediate value below 2^23 before a shift).
   Values are the untyped values of Schema.v (strings and raw contents as VBytes).  Proofs: proofs/GoASN1Proofs.v
   (on every encoding written by DERCodec.enc the lenient decoder returns the encoded value). *)
From Gokrb5.lib Require Import Bytes JV.
From Gokrb5.model Require Import Schema DER.

(* ---------- Go types ---------- *)
Inductive gty : Type :=
| GInt (w : Z)                                  (* int32 (w = 4) / int, int64 (w = 8) *)
| GBytes                                        (* []byte *)
| GString                                       (* string *)
| GTime                                         (* time.Time *)
| GBits                                         (* asn1.BitString *)
| GStruct (fields : list (option Z * bool * gty))  (* explicit context tag (None: no tag), optional?, type *)
| GSlice (elem : gty)                           (* []T, T not byte *)
| GRaw.                                         (* asn1.RawValue; the value is RawValue.Bytes *)

Definition gfield : Type := (option Z * bool * gty)%type.

(* the ASN.1 type whose DER encoding gofork's Marshal writes for a value of the Go type *)
Fixpoint erase (g : gty) : ty :=
  match g with
  | GInt _ => TInt | GBytes => TOctets | GString => TGenStr | GTime => TGenTime | GBits => TBits
  | GStruct fs => TSeq ((fix go (l : list gfield) : list (option Z * bool * ty) :=
                           match l with
                           | [] => []
                           | (tag, opt, g') :: r => (tag, opt, erase g') :: go r
                           end) fs)
  | GSlice e => TSeqOf (erase e)
  | GRaw => TRaw
  end.

(* ---------- parseTagAndLength ---------- *)
Record hdr := mkHdr { h_cls : Z; h_cons : bool; h_tag : Z; h_len : Z }.

(* parseBase128Int: at most 4 octets *)
Fixpoint base128 (n : nat) (b : bytes) (acc : Z) : option (Z * bytes) :=
  match b with
  | [] => None                                   (* truncated base 128 integer *)
  | x :: r =>
    match n with
    | O => None                                  (* base 128 integer too large *)
    | S n' =>
      let acc' := acc * 128 + x mod 128 in
      if x <? 128 then Some (acc', r) else base128 n' r acc'
    end
  end.

(* the length octets: Go's loop rejects the indefinite form, a first length octet 0, the long form for a length
   below 128, and a value that reaches 2^23 before a further shift — on octets that is DER.parse_len (definite,
   minimal, at most 4 length octets) restricted to lengths below 2^31 *)
Definition glen (b : bytes) : option (Z * bytes) :=
  match parse_len b with
  | Some (n, r) => if n <? 2 ^ 31 then Some (n, r) else None
  | None => None
  end.

Definition ghdr (b : bytes) : option (hdr * bytes) :=
  match b with
  | [] => None
  | id :: r =>
    let low := id mod 32 in
    match (if low =? 31
           then match base128 4 r 0 with
                | Some (t, r') => if t <? 31 then None else Some (t, r')     (* non-minimal tag *)
                | None => None
                end
           else Some (low, r)) with
    | None => None
    | Some (t, r1) =>
      match glen r1 with
      | Some (n, r2) => Some (mkHdr (id / 64) ((id / 32) mod 2 =? 1) t n, r2)
      | None => None
      end
    end
  end.

(* ---------- contents of the primitive types ---------- *)
Definition printable (b : Z) : bool :=
  ((97 <=? b) && (b <=? 122)) || ((65 <=? b) && (b <=? 90)) || ((48 <=? b) && (b <=? 57))
  || ((39 <=? b) && (b <=? 41)) || ((43 <=? b) && (b <=? 47))
  || (b =? 32) || (b =? 58) || (b =? 61) || (b =? 63) || (b =? 42).

Definition utf8_cont (x : Z) : bool := (128 <=? x) && (x <? 192).

(* unicode/utf8.Valid *)
Fixpoint utf8_valid (fuel : nat) (b : bytes) : bool :=
  match b with
  | [] => true
  | x :: r =>
    match fuel with
    | O => false
    | S f =>
      if x <? 128 then utf8_valid f r
      else if (194 <=? x) && (x <=? 223) then
        match r with c1 :: r' => utf8_cont c1 && utf8_valid f r' | _ => false end
      else if x =? 224 then
        match r with c1 :: c2 :: r' => (160 <=? c1) && (c1 <? 192) && utf8_cont c2 && utf8_valid f r' | _ => false end
      else if ((225 <=? x) && (x <=? 236)) || (x =? 238) || (x =? 239) then
        match r with c1 :: c2 :: r' => utf8_cont c1 && utf8_cont c2 && utf8_valid f r' | _ => false end
      else if x =? 237 then
        match r with c1 :: c2 :: r' => (128 <=? c1) && (c1 <? 160) && utf8_cont c2 && utf8_valid f r' | _ => false end
      else if x =? 240 then
        match r with c1 :: c2 :: c3 :: r' => (144 <=? c1) && (c1 <? 192) && utf8_cont c2 && utf8_cont c3 && utf8_valid f r' | _ => false end
      else if (241 <=? x) && (x <=? 243) then
        match r with c1 :: c2 :: c3 :: r' => utf8_cont c1 && utf8_cont c2 && utf8_cont c3 && utf8_valid f r' | _ => false end
      else if x =? 244 then
        match r with c1 :: c2 :: c3 :: r' => (128 <=? c1) && (c1 <? 144) && utf8_cont c2 && utf8_cont c3 && utf8_valid f r' | _ => false end
      else false
    end
  end.

(* string contents by the universal tag found on the wire *)
Definition gstring (tag : Z) (body : bytes) : option value :=
  if tag =? 19 then (if forallb printable body then Some (VBytes body) else None)
  else if tag =? 22 then (if forallb (fun x => x <? 128) body then Some (VBytes body) else None)
  else if tag =? 12 then (if utf8_valid (length body) body then Some (VBytes body) else None)
  else Some (VBytes body).                                  (* T61String, GeneralString: 8-bit clean *)

(* parseInt32 / parseInt64: non-empty, minimal; the value fits w octets *)
Definition gint (w : Z) (body : bytes) : option value :=
  match dec_int body with
  | Some z => if (- 2 ^ (8 * w - 1) <=? z) && (z <? 2 ^ (8 * w - 1)) then Some (VInt z) else None
  | None => None
  end.

(* parseBitString: padding count at most 7, zero when there are no data octets, padding bits zero *)
Fixpoint last_byte (x : Z) (l : bytes) : Z := match l with [] => x | y :: r => last_byte y r end.
Definition gbits_ok (u : Z) (bs : bytes) : bool :=
  (0 <=? u) && (u <=? 7) && (match bs with [] => u =? 0 | _ => true end) && (last_byte u bs mod 2 ^ u =? 0).
Definition gbits (body : bytes) : option value :=
  match body with
  | [] => None
  | u :: bs => if gbits_ok u bs then Some (VBits u bs) else None
  end.

(* time.Parse + the "serialises back to the input" test of parseUTCTime / parseGeneralizedTime.
   zone: "Z", or sign hh mm with hh <= 24, mm <= 59 and a non-zero offset (a zero offset prints as "Z") *)
Definition gzone (z : bytes) : option Z :=
  match z with
  | [zz] => if zz =? 90 then Some 0 else None
  | [sg; h1; h2; m1; m2] =>
    if forallb is_digit [h1; h2; m1; m2] && ((sg =? 43) || (sg =? 45)) then
      let hr := num2 h1 h2 in
      let mm := num2 m1 m2 in
      let off := (hr * 60 + mm) * 60 in
      if (hr <=? 24) && (mm <? 60) && negb (off =? 0) then Some (if sg =? 43 then off else - off) else None
    else None
  | _ => None
  end.

Definition gdate_ok (y m d h n s : Z) : bool :=
  (0 <=? y) && (1 <=? m) && (m <=? 12) && (1 <=? d) && (d <=? days_in_month y m)
  && (h <? 24) && (n <? 60) && (s <? 60).

Definition gtime_fields (y m d h n s : Z) (zone : bytes) : option value :=
  if gdate_ok y m d h n s then
    match gzone zone with
    | Some off => Some (VTime (time_of_fields y m d h n s - off))
    | None => None
    end
  else None.

(* GeneralizedTime: YYYYMMDDhhmmss zone *)
Definition ggentime (body : bytes) : option value :=
  match dec_time body with
  | Some s => Some (VTime s)                     (* the DER form YYYYMMDDhhmmssZ, year >= 1 *)
  | None =>
    match body with
    | y1 :: y2 :: y3 :: y4 :: m1 :: m2 :: d1 :: d2 :: h1 :: h2 :: n1 :: n2 :: s1 :: s2 :: zone =>
      if forallb is_digit [y1; y2; y3; y4; m1; m2; d1; d2; h1; h2; n1; n2; s1; s2] then
        gtime_fields (num4 y1 y2 y3 y4) (num2 m1 m2) (num2 d1 d2) (num2 h1 h2) (num2 n1 n2) (num2 s1 s2) zone
      else None
    | _ => None
    end
  end.

(* UTCTime: YYMMDDhhmm[ss] zone; years 50..99 are 19YY (parseUTCTime moves 2050.. back by a century) *)
Definition utc_year (yy : Z) : Z := if yy <? 50 then 2000 + yy else 1900 + yy.
Definition gutctime (body : bytes) : option value :=
  match body with
  | y1 :: y2 :: m1 :: m2 :: d1 :: d2 :: h1 :: h2 :: n1 :: n2 :: tl =>
    if forallb is_digit [y1; y2; m1; m2; d1; d2; h1; h2; n1; n2] then
      let y := utc_year (num2 y1 y2) in
      match tl with
      | s1 :: s2 :: zone =>
        if is_digit s1 && is_digit s2 then
          gtime_fields y (num2 m1 m2) (num2 d1 d2) (num2 h1 h2) (num2 n1 n2) (num2 s1 s2) zone
        else gtime_fields y (num2 m1 m2) (num2 d1 d2) (num2 h1 h2) (num2 n1 n2) 0 tl
      | _ => gtime_fields y (num2 m1 m2) (num2 d1 d2) (num2 h1 h2) (num2 n1 n2) 0 tl
      end
    else None
  | _ => None
  end.

Definition gtime (tag : Z) (body : bytes) : option value :=
  if tag =? 24 then ggentime body else gutctime body.

(* ---------- parseField ---------- *)
(* the universal tag(s) and the "constructed" bit parseField expects for a Go type (after any explicit tag) *)
Definition tag_match (g : gty) (h : hdr) : bool :=
  (h_cls h =? 0) &&
  match g with
  | GInt _ => (h_tag h =? 2) && negb (h_cons h)
  | GBytes => (h_tag h =? 4) && negb (h_cons h)
  | GString => ((h_tag h =? 19) || (h_tag h =? 22) || (h_tag h =? 27) || (h_tag h =? 20) || (h_tag h =? 12))
               && negb (h_cons h)
  | GTime => ((h_tag h =? 23) || (h_tag h =? 24)) && negb (h_cons h)
  | GBits => (h_tag h =? 3) && negb (h_cons h)
  | GStruct _ => (h_tag h =? 16) && h_cons h
  | GSlice _ => (h_tag h =? 16) && h_cons h
  | GRaw => false
  end.

(* one element of type g at the head of b, no tag of its own.  orig: where the field started (an OPTIONAL
   field whose inner tag does not match is absent and nothing is consumed). *)
Definition gelem (dec : gty -> hdr -> bytes -> option value) (g : gty) (opt : bool) (orig b : bytes)
  : option (option value * bytes) :=
  match ghdr b with
  | None => None
  | Some (h, r) =>
    if tag_match g h then
      match splitz r (h_len h) with                       (* invalidLength: data truncated *)
      | Some (body, rest) => match dec g h body with Some v => Some (Some v, rest) | None => None end
      | None => None
      end
    else if opt then Some (None, orig) else None
  end.

(* parseField on the remaining octets b of the enclosing struct; ecls: class of the explicit tag
   (2 context-specific, 1 application).  Some (None, b): the optional field is absent. *)
Definition gfield_dec (dec : gty -> hdr -> bytes -> option value) (ecls : Z) (tag : option Z) (opt : bool) (g : gty)
           (b : bytes) : option (option value * bytes) :=
  match b with
  | [] => if opt then Some (None, []) else None           (* sequence truncated *)
  | _ :: _ =>
    match g with
    | GRaw =>
      match ghdr b with
      | Some (h, r) =>
        match splitz r (h_len h) with
        | Some (body, rest) => Some (Some (VBytes body), rest)
        | None => None
        end
      | None => None
      end
    | _ =>
      match tag with
      | None => gelem dec g opt b b
      | Some n =>
        match ghdr b with
        | None => None
        | Some (h, r) =>
          match r with
          | [] => None                                    (* explicit tag has no child *)
          | _ :: _ =>
            if (h_cls h =? ecls) && (h_tag h =? n) && ((h_len h =? 0) || h_cons h) then
              if h_len h =? 0 then None                   (* zero length explicit tag was not an asn1.Flag *)
              else gelem dec g opt b r                    (* the wrapper's length is not looked at again *)
            else if opt then Some (None, b) else None
          end
        end
      end
    end
  end.

(* the fields of a struct in order; what is left after the last one is returned (and ignored by the caller) *)
Definition gfields (dec : gty -> hdr -> bytes -> option value)
  : list gfield -> bytes -> option (list (option value) * bytes) :=
  fix go (fs : list gfield) (b : bytes) : option (list (option value) * bytes) :=
  match fs with
  | [] => Some ([], b)
  | (tag, opt, g) :: fs' =>
    match gfield_dec dec 2 tag opt g b with
    | Some (o, r) =>
      match go fs' r with
      | Some (os, r') => Some (o :: os, r')
      | None => None
      end
    | None => None
    end
  end.

(* parseSequenceOf: elements until the input is exhausted (its first pass over the headers rejects what the
   element-wise pass would reject, so one pass decides the same) *)
Fixpoint gelems (dec1 : bytes -> option (option value * bytes)) (n : nat) (b : bytes) : option (list value) :=
  match b with
  | [] => Some []
  | _ :: _ =>
    match n with
    | O => None
    | S n' =>
      match dec1 b with
      | Some (Some v, r) => match gelems dec1 n' r with Some vs => Some (v :: vs) | None => None end
      | _ => None
      end
    end
  end.

(* contents of an element of Go type g whose header h matched; fuel bounds the elements of a slice *)
Fixpoint gdec (g : gty) (fuel : nat) (h : hdr) (body : bytes) {struct g} : option value :=
  match g with
  | GInt w => gint w body
  | GBytes => Some (VBytes body)
  | GString => gstring (h_tag h) body
  | GTime => gtime (h_tag h) body
  | GBits => gbits body
  | GStruct fs =>
    match gfields (fun g' h' b' => gdec g' fuel h' b') fs body with
    | Some (vs, _) => Some (VSeq vs)                      (* extra octets at the end of a SEQUENCE are allowed *)
    | None => None
    end
  | GSlice e =>
    match gelems (gfield_dec (fun g' h' b' => gdec g' fuel h' b') 2 None false e) fuel body with
    | Some vs => Some (VList vs)
    | None => None
    end
  | GRaw => None
  end.

(* asn1.UnmarshalWithParams(b, &v, "application,explicit,tag:n") as gokrb5 uses it: the rest is dropped *)
Definition unmarshal_app (n : Z) (g : gty) (b : bytes) : option value :=
  match gfield_dec (fun g' h' b' => gdec g' (S (length b)) h' b') 1 (Some n) false g b with
  | Some (Some v, _) => Some v
  | _ => None
  end.

(* ---------- values the decoder returns unchanged from their DER encoding ---------- *)
Definition wfg_fields (wf : gty -> value -> bool) : list gfield -> list (option value) -> bool :=
  fix go (fs : list gfield) (vs : list (option value)) : bool :=
  match fs, vs with
  | [], [] => true
  | (_, opt, g) :: fs', o :: vs' => (match o with Some v => wf g v | None => opt end) && go fs' vs'
  | _, _ => false
  end.

Fixpoint wfg (g : gty) (v : value) {struct g} : bool :=
  match g, v with
  | GInt w, VInt z => (- 2 ^ (8 * w - 1) <=? z) && (z <? 2 ^ (8 * w - 1))
  | GBytes, VBytes _ => true
  | GString, VBytes _ => true
  | GTime, VTime s => time_ok s
  | GBits, VBits u b => gbits_ok u b
  | GStruct fs, VSeq vs => wfg_fields wfg fs vs
  | GSlice e, VList vs => forallb (wfg e) vs
  | GRaw, VBytes b => match parse_tlv b with Some (_, _, []) => true | _ => false end
  | _, _ => false
  end.

(* ---------- Go struct descriptions on which the round trip is proved ---------- *)
Definition gtag_ok (n : Z) : bool := (0 <=? n) && (n <? 31).
Definition gids_distinct (a : Z) (f : gfield) : bool :=
  match f with (Some n, _, _) => negb (a =? n) | (None, _, _) => false end.

(* tags of the fields up to and including the first mandatory one *)
Fixpoint gfirst (fs : list gfield) : list gfield :=
  match fs with
  | [] => []
  | (tag, opt, g) :: fs' => (tag, opt, g) :: (if opt then gfirst fs' else [])
  end.

Definition gfields_ok (ok : gty -> bool) : list gfield -> bool :=
  fix go (fs : list gfield) : bool :=
  match fs with
  | [] => true
  | (Some n, opt, g) :: fs' =>
    gtag_ok n && ok g && (match g with GRaw => negb opt | _ => true end)
    && (if opt then forallb (gids_distinct n) (gfirst fs') else true) && go fs'
  | (None, _, _) :: _ => false
  end.

(* every struct field carries an explicit context tag below 31, an OPTIONAL field's tag differs from the tags of
   the fields after it up to the next mandatory one, RawValue occurs only as a mandatory struct field *)
Fixpoint gok (g : gty) : bool :=
  match g with
  | GStruct fs => gfields_ok gok fs
  | GSlice e => gok e && (match e with GRaw => false | _ => true end)
  | _ => true
  end.
