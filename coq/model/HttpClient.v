(* Gokrb5.model.HttpClient — control flow of spnego.Client.Do (v8/spnego/http.go, repaired code): retry
   with a token on a bare 401 Negotiate challenge, manual redirect following with a cap of 10, everything
   else returned to the caller.  The server is a script: response number i to the i-th request received. *)
From Gokrb5.lib Require Import Bytes JV.

Inductive resp :=
| R200
| R401Nego           (* 401 with  WWW-Authenticate: Negotiate  exactly *)
| R401NegoToken      (* 401 with  WWW-Authenticate: Negotiate <token>  (e.g. a reject token) *)
| R401Other          (* 401 with another scheme or no challenge *)
| R302               (* redirect (same or other host) *)
| R500.

Inductive outcome :=
| Final (r : resp) (auth_flags : list bool)   (* the response handed to the caller; per request sent: carried a token? *)
| TooManyRedirects (auth_flags : list bool)
| OutOfFuel.

(* redirects = len(c.reqs) so far; authed = the request about to be sent carries a Negotiate token *)
Fixpoint do_ (fuel : nat) (script : nat -> resp) (i : nat) (redirects : nat) (authed : bool) (sent : list bool)
  : outcome :=
  match fuel with
  | O => OutOfFuel
  | S f =>
    let sent' := sent ++ [authed] in
    match script i with
    | R302 =>
      if (10 <=? redirects + 1)%nat then TooManyRedirects sent'
      else do_ f script (S i) (redirects + 1) false sent'           (* Authorization header deleted *)
    | R401Nego =>
      if authed then Final R401Nego sent'
      else do_ f script (S i) redirects true sent'
    | r => Final r sent'
    end
  end.

(* the pinned (unrepaired) code retried on every bare challenge *)
Fixpoint do_pinned (fuel : nat) (script : nat -> resp) (i : nat) (redirects : nat) (authed : bool) (sent : list bool)
  : outcome :=
  match fuel with
  | O => OutOfFuel
  | S f =>
    let sent' := sent ++ [authed] in
    match script i with
    | R302 =>
      if (10 <=? redirects + 1)%nat then TooManyRedirects sent'
      else do_pinned f script (S i) (redirects + 1) false sent'
    | R401Nego => do_pinned f script (S i) redirects true sent'
    | r => Final r sent'
    end
  end.

Definition script_of (prefix : list resp) (tail : resp) (i : nat) : resp := nth i prefix tail.

(* ---- jv ---- *)
Definition un_resp (j : jv) : option resp :=
  match j with
  | JI 0 => Some R200 | JI 1 => Some R401Nego | JI 2 => Some R401NegoToken | JI 3 => Some R401Other
  | JI 4 => Some R302 | JI 5 => Some R500 | _ => None end.
Definition resp_code (r : resp) : Z :=
  match r with R200 => 0 | R401Nego => 1 | R401NegoToken => 2 | R401Other => 3 | R302 => 4 | R500 => 5 end.

(* input ( (prefix..) tail redirects0 ) ; output ( kind final-code ( flags.. ) ) kind 0 final / 1 too many redirects *)
Definition http_do_j (j : jv) : jv :=
  match j with
  | JL [JL pre; t; JI r0] =>
    match map_opt un_resp pre, un_resp t with
    | Some pre', Some t' =>
      match do_ 64 (script_of pre' t') 0 (Z.to_nat r0) false [] with
      | Final r fl => jok [JI 0; JI (resp_code r); JL (map jbool fl)]
      | TooManyRedirects fl => jok [JI 1; JI 0; JL (map jbool fl)]
      | OutOfFuel => jpanic
      end
    | _, _ => jbad end
  | _ => jbad
  end.
