(* Gokrb5.model.PAC — code-shaped model of v8/pac (REPAIRED tree: agentwork/c19/fix-1..3):
     PACType.Unmarshal            -> pac_unmarshal
     SignatureData.Unmarshal      -> sig_unmarshal
     ClientInfo.Unmarshal         -> client_info_unmarshal   (plain little-endian structure, not NDR)
     PACType.ProcessPACInfoBuffers-> process_loop / step, then pac_verify
   Conventions.
   * mstypes.Reader (a bufio.Reader over bytes.Reader) is modelled as a reader on the remaining suffix.
     All reads of the modelled structures are 2/4/8 bytes wide at offsets that are multiples of their
     width, so they never straddle bufio's 4096-byte refill boundary: ReadBytes(n) fails exactly when
     fewer than n bytes remain (and ReadBytes(0) never fails).
   * Go slice expressions are `gslice site ..` (Panic when out of range); `make(n)` with n taken from the
     input is `galloc site limit n`, which is a modelled FAULT (Panic) when n exceeds the length of the
     whole PAC: "no Panic" therefore also says that no allocation exceeds the input length.
   * NDR decoding (KERB_VALIDATION_INFO, S4U, claims, device info) and UPN_DNS_INFO are done by code the
     model does not re-implement ("structure mode"): the harness passes, per buffer of the table, whether
     the stand-alone decoder of its ulType succeeded (flag 1) — `it_ok`. *)
From Gokrb5.lib Require Import Bytes JV.
From Gokrb5.model Require Import Crypto.

(* ---------------- readers ---------------- *)

Definition read_le (w : nat) (r : bytes) : res (Z * bytes) :=
  if (length r <? w)%nat then Err 1 else Ok (le_val (firstn w r), skipn w r).

Definition galloc (site limit n : Z) : res unit :=
  if (0 <=? n) && (n <=? limit) then Ok tt else Panic site.

(* ---------------- PACTYPE header and buffer table ---------------- *)

Record info_buffer := mkBuf { ib_type : Z; ib_size : Z; ib_off : Z }.
Record pactype := mkPac { pt_cbuffers : Z; pt_version : Z; pt_buffers : list info_buffer }.

Fixpoint read_table (n : nat) (r : bytes) : res (list info_buffer) :=
  match n with
  | O => Ok []
  | S n' =>
    do (t, r1) <- read_le 4 r;        (* ULType *)
    do (s, r2) <- read_le 4 r1;       (* CBBufferSize *)
    do (o, r3) <- read_le 8 r2;       (* Offset, uint64 *)
    do rest <- read_table n' r3;
    Ok (mkBuf t s o :: rest)
  end.

Definition pac_unmarshal (b : bytes) : res pactype :=
  do _ <- galloc 90 (zlen b) (zlen b);            (* zb := make([]byte, len(b)) — ZeroSigData *)
  do (cb, r1) <- read_le 4 b;
  do (ver, r2) <- read_le 4 r1;
  if zlen b - 8 <? cb * 16 then Err 2 else         (* fix-1: the count must fit the input *)
  do _ <- galloc 91 (zlen b) cb;                  (* make([]InfoBuffer, CBuffers) *)
  do t <- read_table (Z.to_nat cb) r2;
  Ok (mkPac cb ver t).

(* ---------------- PAC_SIGNATURE_DATA ---------------- *)

(* the switch of SignatureData.Unmarshal on the uint32 SignatureType; every other value gives 0 *)
Definition sig_len (st : Z) : Z :=
  if st =? 4294967158 then 16          (* KERB_CHECKSUM_HMAC_MD5 = -138 as uint32 *)
  else if st =? 15 then 12 else if st =? 16 then 12
  else if st =? 19 then 16 else if st =? 20 then 24 else 0.

Record sigdata := mkSig { sd_type : Z; sd_sig : bytes; sd_rodc : Z }.

(* returns the decoded structure and rb = copy of the buffer with the signature value zeroed *)
Definition sig_unmarshal (lim : Z) (p : bytes) : res (sigdata * bytes) :=
  do (st, r1) <- read_le 4 p;
  let c := sig_len st in
  if zlen r1 <? c then Err 3 else                  (* ReadBytes(c) *)
  let sg := firstn (Z.to_nat c) r1 in
  let r2 := skipn (Z.to_nat c) r1 in
  do rodc <- (if 4 + c + 2 <=? zlen p then (do (v, _) <- read_le 2 r2; Ok v) else Ok 0);
  do _ <- galloc 93 lim (zlen p);                 (* rb := make([]byte, len(b)) *)
  do _ <- galloc 94 lim (zlen p);                 (* z  := make([]byte, len(b)) *)
  do dst <- gslice 95 p 4 (4 + c);                (* rb[4:4+c] *)
  Ok (mkSig st sg rodc, firstn 4 p ++ zeros (length dst) ++ skipn (Z.to_nat (4 + c)) p).

(* ---------------- PAC_CLIENT_INFO ---------------- *)

Record clientinfo := mkCI { ci_lo : Z; ci_hi : Z; ci_namelen : Z; ci_name : bytes }.

Fixpoint read_u16s (r : bytes) (cnt : Z) : res (list Z) :=
  if cnt <=? 0 then Ok [] else
  match r with
  | a :: b :: r' => do rest <- read_u16s r' (cnt - 1); Ok (a + 256 * b :: rest)
  | _ => Err 1
  end.

(* Go string([]rune{..}) for 16-bit values: UTF-8, surrogate halves become U+FFFD *)
Definition utf8_of_u16 (u : Z) : bytes :=
  if u <? 128 then [u]
  else if u <? 2048 then [192 + u / 64; 128 + u mod 64]
  else if (55296 <=? u) && (u <? 57344) then [239; 191; 189]
  else [224 + u / 4096; 128 + (u / 64) mod 64; 128 + u mod 64].

Definition client_info_unmarshal (p : bytes) : res clientinfo :=
  do (lo, r1) <- read_le 4 p;          (* FILETIME dwLowDateTime *)
  do (hi, r2) <- read_le 4 r1;         (* dwHighDateTime *)
  do (nl, r3) <- read_le 2 r2;         (* NameLength in bytes *)
  do us <- read_u16s r3 (nl / 2);
  Ok (mkCI lo hi nl (flat_map utf8_of_u16 us)).

(* ---------------- ProcessPACInfoBuffers ---------------- *)

Record item := mkItem { it_idx : Z; it_buf : info_buffer; it_ok : bool }.

Fixpoint annotate (i : Z) (t : list info_buffer) (dec : list Z) : list item :=
  match t with
  | [] => []
  | b :: r =>
    match dec with
    | d :: dr => mkItem i b (d =? 1) :: annotate (i + 1) r dr
    | [] => mkItem i b false :: annotate (i + 1) r []
    end
  end.

Record pstate := mkSt {
  st_kvi : option Z;                    (* index of the buffer KerbValidationInfo was decoded from *)
  st_srv : option sigdata;
  st_kdc : option sigdata;
  st_ci  : option (Z * clientinfo);
  st_opt : list (Z * Z);                (* optional buffers kept: (ulType, index) *)
  st_zsd : bytes                        (* ZeroSigData *)
}.

Definition set_kvi st v := mkSt v (st_srv st) (st_kdc st) (st_ci st) (st_opt st) (st_zsd st).
Definition set_srv st v z := mkSt (st_kvi st) v (st_kdc st) (st_ci st) (st_opt st) z.
Definition set_kdc st v z := mkSt (st_kvi st) (st_srv st) v (st_ci st) (st_opt st) z.
Definition set_ci st v := mkSt (st_kvi st) (st_srv st) (st_kdc st) v (st_opt st) (st_zsd st).
Definition add_opt st ty i := mkSt (st_kvi st) (st_srv st) (st_kdc st) (st_ci st) (st_opt st ++ [(ty, i)]) (st_zsd st).

Definition has_opt (ty : Z) (l : list (Z * Z)) : bool := existsb (fun kv => fst kv =? ty) l.

(* copy(z[off:off+size], src) *)
Definition copy_into (site : Z) (z : bytes) (off size : Z) (src : bytes) : res bytes :=
  do dst <- gslice site z off (off + size);
  let n := Nat.min (length dst) (length src) in
  Ok (firstn (Z.to_nat off) z ++ firstn n src ++ skipn (Z.to_nat off + n) z).

Definition is_optional (ty : Z) : bool := (11 <=? ty) && (ty <=? 15).

Definition step (data : bytes) (st : pstate) (it : item) : res pstate :=
  let b := it_buf it in
  let off := ib_off b in
  let size := ib_size b in
  let ty := ib_type b in
  if (zlen data <? off) || (zlen data - off <? size) then Err 10 else   (* fix-1 *)
  do _ <- galloc 96 (zlen data) size;                                   (* p := make([]byte, CBBufferSize) *)
  do p <- gslice 97 data off (off + size);                              (* pac.Data[off:off+size] *)
  if ty =? 1 then
    match st_kvi st with
    | Some _ => Ok st
    | None => if it_ok it then Ok (set_kvi st (Some (it_idx it))) else Err 11
    end
  else if ty =? 2 then Ok st                                            (* credentials: skipped *)
  else if ty =? 6 then
    match st_srv st with
    | Some _ => Ok st
    | None =>
      let r := sig_unmarshal (zlen data) p in
      do z' <- copy_into 98 (st_zsd st) off size (match r with Ok (_, zb) => zb | _ => [] end);
      do (sd, _) <- r;
      Ok (set_srv st (Some sd) z')
    end
  else if ty =? 7 then
    match st_kdc st with
    | Some _ => Ok st
    | None =>
      let r := sig_unmarshal (zlen data) p in
      do z' <- copy_into 99 (st_zsd st) off size (match r with Ok (_, zb) => zb | _ => [] end);
      do (sd, _) <- r;
      Ok (set_kdc st (Some sd) z')
    end
  else if ty =? 10 then
    match st_ci st with
    | Some _ => Ok st
    | None => do ci <- client_info_unmarshal p; Ok (set_ci st (Some (it_idx it, ci)))
    end
  else if is_optional ty then
    if has_opt ty (st_opt st) || ((ty =? 13) && (zlen p <? 1)) then Ok st
    else if it_ok it then Ok (add_opt st ty (it_idx it))
    else Ok st                                                          (* logged (nil logger tolerated: fix-3) *)
  else Ok st.

Fixpoint process_loop (data : bytes) (its : list item) (st : pstate) : res pstate :=
  match its with
  | [] => Ok st
  | it :: r => do st' <- step data st it; process_loop data r st'
  end.

Definition pac_verify (key : bytes) (st : pstate) : res unit :=
  match st_kvi st with None => Err 20 | Some _ =>
  match st_srv st with None => Err 21 | Some sd =>
  match st_kdc st with None => Err 22 | Some _ =>
  match st_ci st with None => Err 23 | Some _ =>
  match etype_of_chksum_type (sint 32 (sd_type sd)) with       (* GetChksumEtype(int32(SignatureType)) *)
  | None => Err 24
  | Some et =>
    if verify_checksum et key 17 (st_zsd st) (sd_sig sd) then Ok tt else Err 25
  end end end end end.

Definition init_state (data : bytes) : pstate := mkSt None None None None [] data.

Definition pac_process (data key : bytes) (dec : list Z) : res pstate :=
  do pt <- pac_unmarshal data;
  do st <- process_loop data (annotate 0 (pt_buffers pt) dec) (init_state data);
  do _ <- pac_verify key st;
  Ok st.

(* ---------------- the signed image, defined on its own ---------------- *)

(* value field of a signature buffer at `off` of declared size `size`: [off+4, off+4+c) *)
Definition in_bounds (data : bytes) (b : info_buffer) : bool :=
  (0 <=? ib_off b) && (0 <=? ib_size b) && (ib_off b + ib_size b <=? zlen data).

Definition zero_field (p : bytes) : option bytes :=
  match read_le 4 p with
  | Ok (st, r1) =>
    let c := sig_len st in
    if zlen r1 <? c then None
    else Some (firstn 4 p ++ zeros (Z.to_nat c) ++ skipn (Z.to_nat (4 + c)) p)
  | _ => None
  end.

Definition splice (z : bytes) (off : Z) (src : bytes) : bytes :=
  firstn (Z.to_nat off) z ++ src ++ skipn (Z.to_nat off + length src) z.

(* first server-signature buffer and first KDC-signature buffer, in table order *)
Fixpoint zero_loop (data : bytes) (s6 s7 : bool) (t : list info_buffer) (z : bytes) : bytes :=
  match t with
  | [] => z
  | b :: r =>
    if in_bounds data b then
      if (ib_type b =? 6) && negb s6 then
        match zero_field (slice data (ib_off b) (ib_off b + ib_size b)) with
        | Some zb => zero_loop data true s7 r (splice z (ib_off b) zb)
        | None => z
        end
      else if (ib_type b =? 7) && negb s7 then
        match zero_field (slice data (ib_off b) (ib_off b + ib_size b)) with
        | Some zb => zero_loop data s6 true r (splice z (ib_off b) zb)
        | None => z
        end
      else zero_loop data s6 s7 r z
    else z
  end.

Fixpoint sig_fields_loop (data : bytes) (s6 s7 : bool) (t : list info_buffer) : list (Z * Z) :=
  match t with
  | [] => []
  | b :: r =>
    if in_bounds data b then
      if (ib_type b =? 6) && negb s6 then
        match zero_field (slice data (ib_off b) (ib_off b + ib_size b)) with
        | Some _ =>
          let c := sig_len (le_val (firstn 4 (slice data (ib_off b) (ib_off b + ib_size b)))) in
          (ib_off b + 4, ib_off b + 4 + c) :: sig_fields_loop data true s7 r
        | None => []
        end
      else if (ib_type b =? 7) && negb s7 then
        match zero_field (slice data (ib_off b) (ib_off b + ib_size b)) with
        | Some _ =>
          let c := sig_len (le_val (firstn 4 (slice data (ib_off b) (ib_off b + ib_size b)))) in
          (ib_off b + 4, ib_off b + 4 + c) :: sig_fields_loop data s6 true r
        | None => []
        end
      else sig_fields_loop data s6 s7 r
    else []
  end.

Definition table_of (data : bytes) : list info_buffer :=
  match pac_unmarshal data with Ok pt => pt_buffers pt | _ => [] end.

Definition zero_sigs (data : bytes) : bytes := zero_loop data false false (table_of data) data.
Definition sig_fields (data : bytes) : list (Z * Z) := sig_fields_loop data false false (table_of data).

(* ---------------- jv interface ---------------- *)

Definition jsig (s : sigdata) : jv := JL [JI (sd_type s); JB (sd_sig s); JI (sd_rodc s)].
Definition jci (c : clientinfo) : jv := JL [JI (ci_lo c); JI (ci_hi c); JI (ci_namelen c); JB (ci_name c)].
Definition jopt_idx (ty : Z) (l : list (Z * Z)) : jv :=
  match find (fun kv => fst kv =? ty) l with Some kv => JI (snd kv) | None => JI (-1) end.

Definition jstate (st : pstate) : list jv :=
  match st_kvi st, st_srv st, st_kdc st, st_ci st with
  | Some k, Some s, Some d, Some (i, c) =>
    [JI k; jsig s; jsig d; JI i; jci c;
     JL (map (fun ty => jopt_idx ty (st_opt st)) [11; 12; 13; 14; 15]);
     JB (st_zsd st)]
  | _, _, _, _ => [jbad]
  end.

(* ( pac key ( flags ) ) -> Unmarshal + ProcessPACInfoBuffers *)
Definition pac_process_j (j : jv) : jv :=
  match j with
  | JL [JB pac; JB key; JL flags] =>
    match map_opt as_int flags with
    | Some dec => jres jstate (pac_process pac key dec)
    | None => jbad
    end
  | _ => jbad
  end.

Definition pac_unmarshal_j (j : jv) : jv :=
  match j with
  | JB b =>
    jres (fun pt => [JI (pt_cbuffers pt); JI (pt_version pt);
                     JL (map (fun x => JL [JI (ib_type x); JI (ib_size x); JB (le_bytes 8 (ib_off x))]) (pt_buffers pt))])
         (pac_unmarshal b)
  | _ => jbad
  end.

Definition sig_unmarshal_j (j : jv) : jv :=
  match j with
  | JB p => jres (fun r => [jsig (fst r); JB (snd r)]) (sig_unmarshal (zlen p) p)
  | _ => jbad
  end.

Definition client_info_j (j : jv) : jv :=
  match j with
  | JB p => jres (fun c => [jci c]) (client_info_unmarshal p)
  | _ => jbad
  end.
