(* Gokrb5.model.Replay — the service replay cache (v8/service/cache.go, repaired code) as a state machine.
   The Go structure  client-name -> client-time -> [entries per service]  is flattened to a list of
   (client, client time, service) triples; IsReplay is one atomic step (it holds the write lock across
   look-up and insert).  Time is explicit: `now` in microseconds, advanced by Advance operations.
   The clock-skew test that APReq.Verify applies before the cache is consulted is part of Present. *)
From Gokrb5.lib Require Import Bytes JV.

Record auth := mkAuth {
  a_cname : bytes;          (* CName.PrincipalNameString(): components joined by "/" *)
  a_ct : Z;                 (* CTime + Cusec, microseconds *)
  a_sname : list bytes      (* ticket SName components (compared with PrincipalName.Equal) *)
}.

Fixpoint names_eqb (a b : list bytes) : bool :=
  match a, b with
  | [], [] => true
  | x :: a', y :: b' => beq_bytes x y && names_eqb a' b'
  | _, _ => false
  end.

Definition auth_eqb (a b : auth) : bool :=
  beq_bytes (a_cname a) (a_cname b) && (a_ct a =? a_ct b) && names_eqb (a_sname a) (a_sname b).

Inductive op := Present (a : auth) | Clear | Advance (dt : Z).
Inductive verdict := VSkew | VReplay | VAccept | VNone.

Record state := mkState { now : Z; cache : list auth }.

Definition acceptable (d : Z) (t : Z) (a : auth) : bool := negb (d <? Z.abs (t - a_ct a)).

Definition step (d : Z) (s : state) (o : op) : state * verdict :=
  match o with
  | Present a =>
    if negb (acceptable d (now s) a) then (s, VSkew)
    else if existsb (auth_eqb a) (cache s) then (s, VReplay)
    else (mkState (now s) (a :: cache s), VAccept)
  | Clear => (mkState (now s) (filter (fun e => negb (d <? now s - a_ct e)) (cache s)), VNone)
  | Advance dt => (mkState (now s + dt) (cache s), VNone)
  end.

Fixpoint run (d : Z) (s : state) (ops : list op) : state * list verdict :=
  match ops with
  | [] => (s, [])
  | o :: r => let '(s1, v) := step d s o in let '(s2, vs) := run d s1 r in (s2, v :: vs)
  end.

Definition init : state := mkState 0 [].

(* ---- jv interface: ops as ( i0 cname ct ( sname.. ) ) | ( i1 ) | ( i2 dt ); output verdict codes and sizes ---- *)
Definition un_op (j : jv) : option op :=
  match j with
  | JL [JI 0; JB c; JI t; JL sn] =>
    match map_opt as_bytes sn with Some sn' => Some (Present (mkAuth c t sn')) | None => None end
  | JL [JI 1] => Some Clear
  | JL [JI 2; JI dt] => Some (Advance dt)
  | _ => None
  end.

Definition verdict_code (v : verdict) : Z :=
  match v with VSkew => 0 | VReplay => 1 | VAccept => 2 | VNone => 3 end.

Fixpoint run_sizes (d : Z) (s : state) (ops : list op) : list jv :=
  match ops with
  | [] => []
  | o :: r => let '(s1, v) := step d s o in
              JL [JI (verdict_code v); JI (zlen (cache s1))] :: run_sizes d s1 r
  end.

Definition replay_run_j (j : jv) : jv :=
  match j with
  | JL [JI d; JL ops] =>
    match map_opt un_op ops with
    | Some ops' => jok (run_sizes d init ops')
    | None => jbad end
  | _ => jbad
  end.

(* concurrent presentations: the multiset of verdicts of the Present operations (sorted codes); for
   the atomic cache every schedule is some order of the operations *)
Fixpoint insert_sorted (x : Z) (l : list Z) : list Z :=
  match l with [] => [x] | y :: r => if x <=? y then x :: l else y :: insert_sorted x r end.
Fixpoint present_codes (d : Z) (s : state) (ops : list op) : list Z :=
  match ops with
  | [] => []
  | o :: r => let '(s1, v) := step d s o in
              match o with
              | Present _ => insert_sorted (verdict_code v) (present_codes d s1 r)
              | _ => present_codes d s1 r
              end
  end.
Definition replay_conc_j (j : jv) : jv :=
  match j with
  | JL [JI d; JL pre; JL ops] =>
    match map_opt un_op pre, map_opt un_op ops with
    | Some pre', Some ops' => jok (map JI (present_codes d (fst (run d init pre')) ops'))
    | _, _ => jbad end
  | _ => jbad
  end.
