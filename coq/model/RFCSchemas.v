(* Gokrb5.model.RFCSchemas — the RFC side of C13, written BY HAND from the ASN.1 modules of
     RFC 4120 Appendix A (with RFC 6806 section 11: encrypted-pa-data), RFC 4178 section 4.2,
     RFC 2743 section 3.1 (initial context token framing), RFC 3244 section 2 (ChangePasswdData).
   Nothing here is derived from the Go code; the schemas generated from the struct tags (gen/Schemas.v) are
   compared with this file by conform/ConfSchemas.v.  Never edit this file to make the code fit.

   Conventions: [n] = EXPLICIT context tag n (the Kerberos module is EXPLICIT TAGS, and so is SPNEGO's);
   KerberosString = GeneralString; KerberosTime = GeneralizedTime; Int32 / UInt32 / Microseconds = INTEGER
   (the value ranges of these subtypes are not expressible in `ty`: see the C13 notes);
   KerberosFlags = BIT STRING (SIZE (32..MAX)). *)
From Gokrb5.lib Require Import Bytes JV.
From Gokrb5.model Require Import Schema.
From Coq Require Import String.
Local Open Scope string_scope.

Definition req (n : Z) (t : ty) : option Z * bool * ty := (Some n, false, t).
Definition opt (n : Z) (t : ty) : option Z * bool * ty := (Some n, true, t).

(* ---- RFC 4120 5.2: basic types ---- *)
(* PrincipalName ::= SEQUENCE { name-type [0] Int32, name-string [1] SEQUENCE OF KerberosString } *)
Definition rfc_PrincipalName : ty := TSeq [req 0 TInt; req 1 (TSeqOf TGenStr)].
(* HostAddress ::= SEQUENCE { addr-type [0] Int32, address [1] OCTET STRING } *)
Definition rfc_HostAddress : ty := TSeq [req 0 TInt; req 1 TOctets].
Definition rfc_HostAddresses : ty := TSeqOf rfc_HostAddress.
(* AuthorizationData ::= SEQUENCE OF SEQUENCE { ad-type [0] Int32, ad-data [1] OCTET STRING } *)
Definition rfc_AuthorizationData : ty := TSeqOf (TSeq [req 0 TInt; req 1 TOctets]).
(* PA-DATA ::= SEQUENCE { -- NOTE: first tag is [1], not [0]
     padata-type [1] Int32, padata-value [2] OCTET STRING } *)
Definition rfc_PAData : ty := TSeq [req 1 TInt; req 2 TOctets].
(* EncryptedData ::= SEQUENCE { etype [0] Int32, kvno [1] UInt32 OPTIONAL, cipher [2] OCTET STRING } *)
Definition rfc_EncryptedData : ty := TSeq [req 0 TInt; opt 1 TInt; req 2 TOctets].
(* EncryptionKey ::= SEQUENCE { keytype [0] Int32, keyvalue [1] OCTET STRING } *)
Definition rfc_EncryptionKey : ty := TSeq [req 0 TInt; req 1 TOctets].
(* Checksum ::= SEQUENCE { cksumtype [0] Int32, checksum [1] OCTET STRING } *)
Definition rfc_Checksum : ty := TSeq [req 0 TInt; req 1 TOctets].
(* TransitedEncoding ::= SEQUENCE { tr-type [0] Int32, contents [1] OCTET STRING } *)
Definition rfc_TransitedEncoding : ty := TSeq [req 0 TInt; req 1 TOctets].
(* LastReq ::= SEQUENCE OF SEQUENCE { lr-type [0] Int32, lr-value [1] KerberosTime } *)
Definition rfc_LastReq : ty := TSeqOf (TSeq [req 0 TInt; req 1 TGenTime]).

(* ---- RFC 4120 5.3: tickets ---- *)
(* Ticket ::= [APPLICATION 1] SEQUENCE { tkt-vno [0] INTEGER (5), realm [1] Realm, sname [2] PrincipalName,
                                         enc-part [3] EncryptedData } *)
Definition rfc_Ticket : ty := TApp 1 (TSeq [req 0 TInt; req 1 TGenStr; req 2 rfc_PrincipalName; req 3 rfc_EncryptedData]).
(* EncTicketPart ::= [APPLICATION 3] SEQUENCE { flags [0] TicketFlags, key [1] EncryptionKey, crealm [2] Realm,
     cname [3] PrincipalName, transited [4] TransitedEncoding, authtime [5] KerberosTime,
     starttime [6] KerberosTime OPTIONAL, endtime [7] KerberosTime, renew-till [8] KerberosTime OPTIONAL,
     caddr [9] HostAddresses OPTIONAL, authorization-data [10] AuthorizationData OPTIONAL } *)
Definition rfc_EncTicketPart : ty :=
  TApp 3 (TSeq [req 0 TBits; req 1 rfc_EncryptionKey; req 2 TGenStr; req 3 rfc_PrincipalName;
                req 4 rfc_TransitedEncoding; req 5 TGenTime; opt 6 TGenTime; req 7 TGenTime; opt 8 TGenTime;
                opt 9 rfc_HostAddresses; opt 10 rfc_AuthorizationData]).

(* ---- RFC 4120 5.5.1: Authenticator ---- *)
(* Authenticator ::= [APPLICATION 2] SEQUENCE { authenticator-vno [0] INTEGER (5), crealm [1] Realm,
     cname [2] PrincipalName, cksum [3] Checksum OPTIONAL, cusec [4] Microseconds, ctime [5] KerberosTime,
     subkey [6] EncryptionKey OPTIONAL, seq-number [7] UInt32 OPTIONAL,
     authorization-data [8] AuthorizationData OPTIONAL } *)
Definition rfc_Authenticator : ty :=
  TApp 2 (TSeq [req 0 TInt; req 1 TGenStr; req 2 rfc_PrincipalName; opt 3 rfc_Checksum; req 4 TInt; req 5 TGenTime;
                opt 6 rfc_EncryptionKey; opt 7 TInt; opt 8 rfc_AuthorizationData]).

(* ---- RFC 4120 5.4.1: KDC-REQ ---- *)
(* KDC-REQ-BODY ::= SEQUENCE { kdc-options [0] KDCOptions, cname [1] PrincipalName OPTIONAL, realm [2] Realm,
     sname [3] PrincipalName OPTIONAL, from [4] KerberosTime OPTIONAL, till [5] KerberosTime,
     rtime [6] KerberosTime OPTIONAL, nonce [7] UInt32, etype [8] SEQUENCE OF Int32,
     addresses [9] HostAddresses OPTIONAL, enc-authorization-data [10] EncryptedData OPTIONAL,
     additional-tickets [11] SEQUENCE OF Ticket OPTIONAL } *)
Definition rfc_KDCReqBody : ty :=
  TSeq [req 0 TBits; opt 1 rfc_PrincipalName; req 2 TGenStr; opt 3 rfc_PrincipalName; opt 4 TGenTime; req 5 TGenTime;
        opt 6 TGenTime; req 7 TInt; req 8 (TSeqOf TInt); opt 9 rfc_HostAddresses; opt 10 rfc_EncryptedData;
        opt 11 (TSeqOf rfc_Ticket)].
(* KDC-REQ ::= SEQUENCE { -- NOTE: first tag is [1], not [0]
     pvno [1] INTEGER (5), msg-type [2] INTEGER, padata [3] SEQUENCE OF PA-DATA OPTIONAL, req-body [4] KDC-REQ-BODY } *)
Definition rfc_KDCReq : ty := TSeq [req 1 TInt; req 2 TInt; opt 3 (TSeqOf rfc_PAData); req 4 rfc_KDCReqBody].
Definition rfc_ASReq : ty := TApp 10 rfc_KDCReq.
Definition rfc_TGSReq : ty := TApp 12 rfc_KDCReq.

(* ---- RFC 4120 5.4.2: KDC-REP ---- *)
(* KDC-REP ::= SEQUENCE { pvno [0] INTEGER (5), msg-type [1] INTEGER, padata [2] SEQUENCE OF PA-DATA OPTIONAL,
     crealm [3] Realm, cname [4] PrincipalName, ticket [5] Ticket, enc-part [6] EncryptedData } *)
Definition rfc_KDCRep : ty :=
  TSeq [req 0 TInt; req 1 TInt; opt 2 (TSeqOf rfc_PAData); req 3 TGenStr; req 4 rfc_PrincipalName; req 5 rfc_Ticket;
        req 6 rfc_EncryptedData].
Definition rfc_ASRep : ty := TApp 11 rfc_KDCRep.
Definition rfc_TGSRep : ty := TApp 13 rfc_KDCRep.
(* EncKDCRepPart ::= SEQUENCE { key [0] EncryptionKey, last-req [1] LastReq, nonce [2] UInt32,
     key-expiration [3] KerberosTime OPTIONAL, flags [4] TicketFlags, authtime [5] KerberosTime,
     starttime [6] KerberosTime OPTIONAL, endtime [7] KerberosTime, renew-till [8] KerberosTime OPTIONAL,
     srealm [9] Realm, sname [10] PrincipalName, caddr [11] HostAddresses OPTIONAL,
     encrypted-pa-data [12] SEQUENCE OF PA-DATA OPTIONAL  -- RFC 6806 -- } *)
Definition rfc_EncKDCRepPart : ty :=
  TSeq [req 0 rfc_EncryptionKey; req 1 rfc_LastReq; req 2 TInt; opt 3 TGenTime; req 4 TBits; req 5 TGenTime;
        opt 6 TGenTime; req 7 TGenTime; opt 8 TGenTime; req 9 TGenStr; req 10 rfc_PrincipalName;
        opt 11 rfc_HostAddresses; opt 12 (TSeqOf rfc_PAData)].
Definition rfc_EncASRepPart : ty := TApp 25 rfc_EncKDCRepPart.
Definition rfc_EncTGSRepPart : ty := TApp 26 rfc_EncKDCRepPart.

(* ---- RFC 4120 5.5: AP exchange ---- *)
(* AP-REQ ::= [APPLICATION 14] SEQUENCE { pvno [0] INTEGER (5), msg-type [1] INTEGER (14), ap-options [2] APOptions,
     ticket [3] Ticket, authenticator [4] EncryptedData } *)
Definition rfc_APReq : ty :=
  TApp 14 (TSeq [req 0 TInt; req 1 TInt; req 2 TBits; req 3 rfc_Ticket; req 4 rfc_EncryptedData]).
(* AP-REP ::= [APPLICATION 15] SEQUENCE { pvno [0] INTEGER (5), msg-type [1] INTEGER (15), enc-part [2] EncryptedData } *)
Definition rfc_APRep : ty := TApp 15 (TSeq [req 0 TInt; req 1 TInt; req 2 rfc_EncryptedData]).
(* EncAPRepPart ::= [APPLICATION 27] SEQUENCE { ctime [0] KerberosTime, cusec [1] Microseconds,
     subkey [2] EncryptionKey OPTIONAL, seq-number [3] UInt32 OPTIONAL } *)
Definition rfc_EncAPRepPart : ty := TApp 27 (TSeq [req 0 TGenTime; req 1 TInt; opt 2 rfc_EncryptionKey; opt 3 TInt]).

(* ---- RFC 4120 5.7: KRB-PRIV ---- *)
(* KRB-PRIV ::= [APPLICATION 21] SEQUENCE { pvno [0] INTEGER (5), msg-type [1] INTEGER (21),
                  -- NOTE: there is no [2] tag
                  enc-part [3] EncryptedData } *)
Definition rfc_KRBPriv : ty := TApp 21 (TSeq [req 0 TInt; req 1 TInt; req 3 rfc_EncryptedData]).
(* EncKrbPrivPart ::= [APPLICATION 28] SEQUENCE { user-data [0] OCTET STRING, timestamp [1] KerberosTime OPTIONAL,
     usec [2] Microseconds OPTIONAL, seq-number [3] UInt32 OPTIONAL, s-address [4] HostAddress,
     r-address [5] HostAddress OPTIONAL } *)
Definition rfc_EncKrbPrivPart : ty :=
  TApp 28 (TSeq [req 0 TOctets; opt 1 TGenTime; opt 2 TInt; opt 3 TInt; req 4 rfc_HostAddress; opt 5 rfc_HostAddress]).

(* ---- RFC 4120 5.9.1: KRB-ERROR ---- *)
(* KRB-ERROR ::= [APPLICATION 30] SEQUENCE { pvno [0] INTEGER (5), msg-type [1] INTEGER (30),
     ctime [2] KerberosTime OPTIONAL, cusec [3] Microseconds OPTIONAL, stime [4] KerberosTime,
     susec [5] Microseconds, error-code [6] Int32, crealm [7] Realm OPTIONAL, cname [8] PrincipalName OPTIONAL,
     realm [9] Realm, sname [10] PrincipalName, e-text [11] KerberosString OPTIONAL, e-data [12] OCTET STRING OPTIONAL } *)
Definition rfc_KRBError : ty :=
  TApp 30 (TSeq [req 0 TInt; req 1 TInt; opt 2 TGenTime; opt 3 TInt; req 4 TGenTime; req 5 TInt; req 6 TInt;
                 opt 7 TGenStr; opt 8 rfc_PrincipalName; req 9 TGenStr; req 10 rfc_PrincipalName; opt 11 TGenStr;
                 opt 12 TOctets]).

(* ---- RFC 4120 5.2.7: pre-authentication data ---- *)
(* ETYPE-INFO-ENTRY ::= SEQUENCE { etype [0] Int32, salt [1] OCTET STRING OPTIONAL } *)
Definition rfc_ETypeInfoEntry : ty := TSeq [req 0 TInt; opt 1 TOctets].
(* ETYPE-INFO2-ENTRY ::= SEQUENCE { etype [0] Int32, salt [1] KerberosString OPTIONAL, s2kparams [2] OCTET STRING OPTIONAL } *)
Definition rfc_ETypeInfo2Entry : ty := TSeq [req 0 TInt; opt 1 TGenStr; opt 2 TOctets].
(* PA-ENC-TS-ENC ::= SEQUENCE { patimestamp [0] KerberosTime, pausec [1] Microseconds OPTIONAL } *)
Definition rfc_PAEncTSEnc : ty := TSeq [req 0 TGenTime; opt 1 TInt].

(* ---- RFC 3244 section 2 ---- *)
(* ChangePasswdData ::= SEQUENCE { newpasswd [0] OCTET STRING, targname [1] PrincipalName OPTIONAL,
                                   targrealm [2] Realm OPTIONAL } *)
Definition rfc_ChangePasswdData : ty := TSeq [req 0 TOctets; opt 1 rfc_PrincipalName; opt 2 TGenStr].

(* ---- RFC 4178 4.2 ---- *)
(* NegTokenInit ::= SEQUENCE { mechTypes [0] MechTypeList, reqFlags [1] ContextFlags OPTIONAL,
     mechToken [2] OCTET STRING OPTIONAL, mechListMIC [3] OCTET STRING OPTIONAL }
   MechTypeList ::= SEQUENCE OF MechType;  MechType ::= OBJECT IDENTIFIER;  ContextFlags ::= BIT STRING *)
Definition rfc_NegTokenInit : ty := TSeq [req 0 (TSeqOf TOid); opt 1 TBits; opt 2 TOctets; opt 3 TOctets].
(* NegTokenResp ::= SEQUENCE { negState [0] ENUMERATED {accept-completed(0), accept-incomplete(1), reject(2),
     request-mic(3)} OPTIONAL, supportedMech [1] MechType OPTIONAL, responseToken [2] OCTET STRING OPTIONAL,
     mechListMIC [3] OCTET STRING OPTIONAL } *)
Definition rfc_NegTokenResp : ty := TSeq [opt 0 TEnum; opt 1 TOid; opt 2 TOctets; opt 3 TOctets].
(* NegotiationToken ::= CHOICE { negTokenInit [0] NegTokenInit, negTokenResp [1] NegTokenResp }
   and RFC 2743 3.1: InitialContextToken ::= [APPLICATION 0] IMPLICIT SEQUENCE { thisMech MechType,
   innerContextToken ANY DEFINED BY thisMech } are not SEQUENCE-shaped in `ty`: model/Framing.v. *)
Definition rfc_choice_negTokenInit : Z := 0.
Definition rfc_choice_negTokenResp : Z := 1.
Definition rfc_oid_spnego : list Z := [1; 3; 6; 1; 5; 5; 2].                 (* RFC 4178 *)
Definition rfc_oid_krb5 : list Z := [1; 2; 840; 113554; 1; 2; 2].            (* RFC 4121 / RFC 1964 *)
Definition rfc_tok_id_ap_req : bytes := [1; 0].                              (* RFC 4121 4.1 *)
Definition rfc_tok_id_ap_rep : bytes := [2; 0].
Definition rfc_tok_id_krb_error : bytes := [3; 0].

Definition rfc_schemas : list (string * ty) :=
  [ ("PrincipalName", rfc_PrincipalName); ("HostAddress", rfc_HostAddress); ("HostAddresses", rfc_HostAddresses);
    ("AuthorizationData", rfc_AuthorizationData); ("PA-DATA", rfc_PAData); ("EncryptedData", rfc_EncryptedData);
    ("EncryptionKey", rfc_EncryptionKey); ("Checksum", rfc_Checksum); ("TransitedEncoding", rfc_TransitedEncoding);
    ("LastReq", rfc_LastReq); ("Ticket", rfc_Ticket); ("EncTicketPart", rfc_EncTicketPart);
    ("Authenticator", rfc_Authenticator); ("KDC-REQ-BODY", rfc_KDCReqBody); ("AS-REQ", rfc_ASReq);
    ("TGS-REQ", rfc_TGSReq); ("AS-REP", rfc_ASRep); ("TGS-REP", rfc_TGSRep); ("EncASRepPart", rfc_EncASRepPart);
    ("EncTGSRepPart", rfc_EncTGSRepPart); ("AP-REQ", rfc_APReq); ("AP-REP", rfc_APRep); ("EncAPRepPart", rfc_EncAPRepPart);
    ("KRB-PRIV", rfc_KRBPriv); ("EncKrbPrivPart", rfc_EncKrbPrivPart); ("KRB-ERROR", rfc_KRBError);
    ("ETYPE-INFO-ENTRY", rfc_ETypeInfoEntry); ("ETYPE-INFO2-ENTRY", rfc_ETypeInfo2Entry);
    ("PA-ENC-TS-ENC", rfc_PAEncTSEnc); ("ChangePasswdData", rfc_ChangePasswdData);
    ("NegTokenInit", rfc_NegTokenInit); ("NegTokenResp", rfc_NegTokenResp) ].
