(* Gokrb5.model.KDCRepBytes — "bytes mode" of C09: the client-side acceptance of a KDC reply taken from the
   WIRE BYTES exactly as the client receives them.

     messages.ASRep.Unmarshal  + ASRep.Verify                       (v8/messages/KDCRep.go)
     messages.TGSRep.Unmarshal + TGSRep.DecryptEncPart + TGSRep.Verify   (client/TGSExchange.go call sequence)

   Three layers:
   1. go_unmarshal: a re-implementation of gofork/encoding/asn1.parseField (asn1.go) on the fragment of Go types
      the Kerberos messages use.  It is deliberately NOT the strict DER decoder of DERCodec.v: it reproduces the
      decoder's leniencies, because they decide which wire inputs reach Verify:
        - the length of an EXPLICIT wrapper ([n] or [APPLICATION n]) is read and then ignored (it must be
          non-zero and be followed by at least one octet); the inner TLV is bounded by the enclosing buffer;
        - octets after the last field of a SEQUENCE are ignored, but every trailing OPTIONAL field still reads
          the header found there (a malformed header, or a header that ends the buffer, is an error);
        - a field whose identifier does not match is skipped when OPTIONAL, including "matching context tag but
          primitive" and "matching wrapper around a value of another universal type";
        - a Go string accepts UTF8String / PrintableString / T61String / IA5String / GeneralString (with their
          character checks), a time.Time accepts UTCTime and GeneralizedTime with numeric zone offsets;
        - INTEGER must fit the Go type (int32 / int = int64); BIT STRING padding bits must be zero;
        - asn1.RawValue (the ticket inside KDC-REP) takes ANY TLV whatever the field's tag says;
        - lengths: definite, minimal, below 2^31; high-tag-number identifiers are read (base 128, minimal);
        - octets after the top-level value are ignored (Unmarshal's rest is dropped by every caller).
      Validated against the real decoder by the c09b stream (every case starts from bytes).
   2. the Go struct declarations as schemas (g_KDCRep, g_Ticket, g_EncKDCRepPart, ...) and the projection of a
      decoded value to the records of KDCRep.v.
   3. asrep_verify_bytes / tgsrep_verify_bytes: parse, then the EXISTING acceptance functions of KDCRep.v with
      dec_enc_der as the decoder of the decrypted part.
   Proofs: proofs/KDCRepBytesProofs.v (refinement to the sealed-content model through the RFC schemas and the
   DER round trip, the exact list of unsealed fields that matter, parse failure never accepts). *)
From Gokrb5.lib Require Import Bytes JV.
From Gokrb5.model Require Import Keytab Crypto PAData Replay APReq KDCRep Schema DER.

(* ================= 1. gofork/encoding/asn1.parseField ================= *)

(* Go-side types *)
Inductive gty : Type :=
| GInt (w : Z)                                            (* int32 (w = 32), int / int64 (w = 64) *)
| GOctets                                                 (* []byte *)
| GStr                                                    (* string *)
| GTime                                                   (* time.Time *)
| GBits                                                   (* asn1.BitString *)
| GStruct (fs : list (Z * bool * gty)) (extra : list gty) (* struct: `explicit,tag:n[,optional]` fields, then
                                                             untagged `optional` struct fields that are not on
                                                             the wire (Ticket.DecryptedEncPart) *)
| GSliceOf (e : gty)                                      (* []T, T not byte *)
| GRawApp (n : Z) (g : gty).                              (* asn1.RawValue whose .Bytes the caller unmarshals
                                                             with "application,explicit,tag:n" into g *)

Definition gfield : Type := (Z * bool * gty)%type.

(* ---- parseBase128Int for a high-tag-number identifier: at most 4 octets ---- *)
Fixpoint b128_take (k : nat) (b : bytes) (acc : Z) : option (Z * bytes) :=
  match k with
  | O => None                                             (* "base 128 integer too large" *)
  | S k' =>
    match b with
    | [] => None                                          (* "truncated base 128 integer" *)
    | x :: r =>
      if is_byte x then
        if x <? 128 then Some (acc * 128 + x, r) else b128_take k' r (acc * 128 + (x - 128))
      else None
    end
  end.

(* ---- parseTagAndLength: (class, constructed, tag number, length, octets after the header) ---- *)
Definition go_hdr (b : bytes) : option (Z * bool * Z * Z * bytes) :=
  match b with
  | [] => None
  | id :: r =>
    if is_byte id then
      match (if id mod 32 =? 31
             then match b128_take 4 r 0 with
                  | Some (t, r1) => if t <? 31 then None else Some (t, r1)       (* "non-minimal tag" *)
                  | None => None end
             else Some (id mod 32, r)) with
      | Some (tag, r1) =>
        (* definite, minimal length octets (DER.parse_len); Go additionally refuses lengths >= 2^31 *)
        match parse_len r1 with
        | Some (n, r2) => if n <? 2147483648 then Some (id / 64, (id / 32) mod 2 =? 1, tag, n, r2) else None
        | None => None
        end
      | None => None
      end
    else None
  end.

(* ---- INTEGER into int32 / int64: checkInteger + parseInt64 (+ the int32 range) ---- *)
Definition go_int (w : Z) (body : bytes) : option value :=
  match dec_int body with
  | Some z => if (- 2 ^ (w - 1) <=? z) && (z <? 2 ^ (w - 1)) then Some (VInt z) else None
  | None => None
  end.

(* ---- strings ---- *)
Definition str_tag (tag : Z) : bool :=
  (tag =? 12) || (tag =? 19) || (tag =? 20) || (tag =? 22) || (tag =? 27).

Definition printable (b : Z) : bool :=
  ((97 <=? b) && (b <=? 122)) || ((65 <=? b) && (b <=? 90)) || ((48 <=? b) && (b <=? 57))
  || ((39 <=? b) && (b <=? 41)) || ((43 <=? b) && (b <=? 47))
  || (b =? 32) || (b =? 58) || (b =? 61) || (b =? 63) || (b =? 42).

(* unicode/utf8.Valid *)
Fixpoint utf8_valid (fuel : nat) (s : bytes) : bool :=
  match fuel with
  | O => match s with [] => true | _ => false end
  | S f =>
    match s with
    | [] => true
    | b0 :: r =>
      if (0 <=? b0) && (b0 <? 128) then utf8_valid f r
      else match r with
      | [] => false
      | b1 :: r1 =>
        if (194 <=? b0) && (b0 <? 224) then cont b1 && utf8_valid f r1
        else match r1 with
        | [] => false
        | b2 :: r2 =>
          if (224 <=? b0) && (b0 <? 240) then
            let lo1 := if b0 =? 224 then 160 else 128 in
            let hi1 := if b0 =? 237 then 160 else 192 in
            (lo1 <=? b1) && (b1 <? hi1) && cont b2 && utf8_valid f r2
          else match r2 with
          | [] => false
          | b3 :: r3 =>
            if (240 <=? b0) && (b0 <? 245) then
              let lo := if b0 =? 240 then 144 else 128 in
              let hi := if b0 =? 244 then 144 else 192 in
              (lo <=? b1) && (b1 <? hi) && cont b2 && cont b3 && utf8_valid f r3
            else false
          end
        end
      end
    end
  end.

Definition str_ok (tag : Z) (body : bytes) : bool :=
  if tag =? 19 then forallb printable body                         (* PrintableString *)
  else if tag =? 22 then forallb (fun b => b <? 128) body          (* IA5String *)
  else if tag =? 12 then utf8_valid (length body) body             (* UTF8String *)
  else true.                                                       (* T61String, GeneralString: 8-bit clean *)

(* ---- times: time.Parse with the layout, then "serialises back to the same text" ---- *)
Definition date_ok0 (y m d h n s : Z) : bool :=            (* Go accepts the year 0000 *)
  (0 <=? y) && (1 <=? m) && (m <=? 12) && (1 <=? d) && (d <=? days_in_month y m)
  && (h <? 24) && (n <? 60) && (s <? 60).

(* "+hhmm" / "-hhmm" (Z0700): hh <= 24; mm = 60 and a zero offset do not serialise back *)
Definition tz_off (sg h1 h2 m1 m2 : Z) : option Z :=
  if forallb is_digit [h1; h2; m1; m2] then
    let hh := num2 h1 h2 in
    let mm := num2 m1 m2 in
    if (hh <=? 24) && (mm <? 60) && negb ((hh =? 0) && (mm =? 0)) then
      if sg =? 43 then Some ((hh * 60 + mm) * 60)
      else if sg =? 45 then Some (- ((hh * 60 + mm) * 60))
      else None
    else None
  else None.

Definition civil_secs (y m d h n s : Z) (off : Z) : option Z :=
  if date_ok0 y m d h n s then Some (time_of_fields y m d h n s - off) else None.

(* GeneralizedTime "20060102150405Z0700" *)
Definition go_gentime (b : bytes) : option Z :=
  match dec_time b with                                    (* YYYYMMDDHHMMSSZ, year >= 1: the strict form *)
  | Some s => Some s
  | None =>
    match b with
    | [y1; y2; y3; y4; m1; m2; d1; d2; h1; h2; n1; n2; s1; s2; zz] =>
      if forallb is_digit [y1; y2; y3; y4; m1; m2; d1; d2; h1; h2; n1; n2; s1; s2] && (zz =? 90) then
        civil_secs (num4 y1 y2 y3 y4) (num2 m1 m2) (num2 d1 d2) (num2 h1 h2) (num2 n1 n2) (num2 s1 s2) 0
      else None
    | [y1; y2; y3; y4; m1; m2; d1; d2; h1; h2; n1; n2; s1; s2; sg; a; c; e; f] =>
      if forallb is_digit [y1; y2; y3; y4; m1; m2; d1; d2; h1; h2; n1; n2; s1; s2] then
        match tz_off sg a c e f with
        | Some off =>
          civil_secs (num4 y1 y2 y3 y4) (num2 m1 m2) (num2 d1 d2) (num2 h1 h2) (num2 n1 n2) (num2 s1 s2) off
        | None => None end
      else None
    | _ => None
    end
  end.

(* UTCTime "0601021504Z0700" / "060102150405Z0700"; 50..99 -> 19yy, 00..49 -> 20yy *)
Definition utc_year (a b : Z) : Z := let yy := num2 a b in if 50 <=? yy then 1900 + yy else 2000 + yy.

Definition go_utctime (b : bytes) : option Z :=
  match b with
  | [y1; y2; m1; m2; d1; d2; h1; h2; n1; n2; zz] =>
    if forallb is_digit [y1; y2; m1; m2; d1; d2; h1; h2; n1; n2] && (zz =? 90) then
      civil_secs (utc_year y1 y2) (num2 m1 m2) (num2 d1 d2) (num2 h1 h2) (num2 n1 n2) 0 0
    else None
  | [y1; y2; m1; m2; d1; d2; h1; h2; n1; n2; s1; s2; zz] =>
    if forallb is_digit [y1; y2; m1; m2; d1; d2; h1; h2; n1; n2; s1; s2] && (zz =? 90) then
      civil_secs (utc_year y1 y2) (num2 m1 m2) (num2 d1 d2) (num2 h1 h2) (num2 n1 n2) (num2 s1 s2) 0
    else None
  | [y1; y2; m1; m2; d1; d2; h1; h2; n1; n2; sg; a; c; e; f] =>
    if forallb is_digit [y1; y2; m1; m2; d1; d2; h1; h2; n1; n2] then
      match tz_off sg a c e f with
      | Some off => civil_secs (utc_year y1 y2) (num2 m1 m2) (num2 d1 d2) (num2 h1 h2) (num2 n1 n2) 0 off
      | None => None end
    else None
  | [y1; y2; m1; m2; d1; d2; h1; h2; n1; n2; s1; s2; sg; a; c; e; f] =>
    if forallb is_digit [y1; y2; m1; m2; d1; d2; h1; h2; n1; n2; s1; s2] then
      match tz_off sg a c e f with
      | Some off => civil_secs (utc_year y1 y2) (num2 m1 m2) (num2 d1 d2) (num2 h1 h2) (num2 n1 n2) (num2 s1 s2) off
      | None => None end
    else None
  | _ => None
  end.

(* ---- BIT STRING: parseBitString (the padding bits of the last octet must be zero) ---- *)
Fixpoint pad_zero (u : Z) (b : bytes) : bool :=
  match b with
  | [] => true
  | [x] => x mod 2 ^ u =? 0
  | _ :: r => pad_zero u r
  end.

Definition go_bits (body : bytes) : option value :=
  match dec_bits body with
  | Some (u, b) => if pad_zero u b then Some (VBits u b) else None
  | None => None
  end.

(* ---- which universal identifier a Go type answers to (after any explicit wrapper is removed) ---- *)
Definition univ_match (g : gty) (cls : Z) (comp : bool) (tag : Z) : bool :=
  (cls =? 0) &&
  match g with
  | GInt _ => negb comp && (tag =? 2)
  | GOctets => negb comp && (tag =? 4)
  | GStr => negb comp && str_tag tag
  | GTime => negb comp && ((tag =? 23) || (tag =? 24))
  | GBits => negb comp && (tag =? 3)
  | GStruct _ _ => comp && (tag =? 16)
  | GSliceOf _ => comp && (tag =? 16)
  | GRawApp _ _ => false
  end.

Definition is_raw (g : gty) : bool := match g with GRawApp _ _ => true | _ => false end.

(* ---- parseField.  Result: None = error; Some (None, b) = OPTIONAL field not present, input untouched;
        Some (Some v, rest).  raw: the field is an asn1.RawValue; um: identifier test of the field's type;
        bodyf: contents parser (gets the tag number actually found); exp: explicit wrapper (class, number) ---- *)
Definition gelem_gen (raw : bool) (um : Z -> bool -> Z -> bool) (bodyf : Z -> bytes -> option value)
           (exp : option (Z * Z)) (opt : bool) (b : bytes) : option (option value * bytes) :=
  match b with
  | [] => if opt then Some (None, b) else None                       (* "sequence truncated" *)
  | _ =>
    match go_hdr b with
    | None => None
    | Some (cls, comp, tag, len, r) =>
      let absent := if opt then Some (None, b) else None in
      let finish (cls : Z) (comp : bool) (tag len : Z) (r : bytes) :=
          if um cls comp tag then
            match splitz r len with                                  (* "data truncated" *)
            | Some (body, rest) =>
              match bodyf tag body with Some v => Some (Some v, rest) | None => None end
            | None => None
            end
          else absent in
      if raw then
        match splitz r len with
        | Some (body, rest) => match bodyf tag body with Some v => Some (Some v, rest) | None => None end
        | None => None
        end
      else
        match exp with
        | None => finish cls comp tag len r
        | Some (ecls, etag) =>
          match r with
          | [] => None                                               (* "explicit tag has no child" *)
          | _ =>
            if (cls =? ecls) && (tag =? etag) && ((len =? 0) || comp) then
              if 0 <? len then
                match go_hdr r with                                  (* the wrapper's length is not used *)
                | Some (cls2, comp2, tag2, len2, r2) => finish cls2 comp2 tag2 len2 r2
                | None => None
                end
              else None                                              (* "zero length explicit tag" *)
            else absent
          end
        end
    end
  end.

(* the fields of a struct, in order *)
Definition gfields (fld : gty -> Z -> bool -> bytes -> option (option value * bytes))
  : list gfield -> bytes -> option (list (option value) * bytes) :=
  fix go (fs : list gfield) (b : bytes) : option (list (option value) * bytes) :=
  match fs with
  | [] => Some ([], b)
  | (tag, opt, g) :: fs' =>
    match fld g tag opt b with
    | Some (o, r) =>
      match go fs' r with
      | Some (vs, r') => Some (o :: vs, r')
      | None => None
      end
    | None => None
    end
  end.

(* struct fields that are not on the wire: decoded (and thrown away) when something that looks like them follows *)
Definition gextras (chk : gty -> bytes -> option (option value * bytes)) : list gty -> bytes -> bool :=
  fix go (gs : list gty) (b : bytes) : bool :=
  match gs with
  | [] => true
  | g :: gs' => match chk g b with Some (_, r) => go gs' r | None => false end
  end.

(* parseSequenceOf: elements until the buffer is exhausted (n bounds their number) *)
Fixpoint glist (dec1 : bytes -> option (option value * bytes)) (n : nat) (b : bytes) : option (list value) :=
  match b with
  | [] => Some []
  | _ =>
    match n with
    | O => None
    | S n' =>
      match dec1 b with
      | Some (Some v, r) => match glist dec1 n' r with Some vs => Some (v :: vs) | None => None end
      | _ => None
      end
    end
  end.

(* contents of a value of Go type g whose identifier (tag number `tag`) has been accepted *)
Fixpoint gbody (g : gty) (tag : Z) (body : bytes) {struct g} : option value :=
  match g with
  | GInt w => go_int w body
  | GOctets => Some (VBytes body)
  | GStr => if str_ok tag body then Some (VBytes body) else None
  | GTime => option_map VTime (if tag =? 23 then go_utctime body else go_gentime body)
  | GBits => go_bits body
  | GStruct fs extra =>
    match gfields (fun g' t o b => gelem_gen (is_raw g') (univ_match g') (gbody g') (Some (2, t)) o b) fs body with
    | Some (vs, r) =>
      if gextras (fun g' b => gelem_gen false (univ_match g') (gbody g') None true b) extra r
      then Some (VSeq vs) else None
    | None => None
    end
  | GSliceOf e =>
    match glist (gelem_gen false (univ_match e) (gbody e) None false) (length body) body with
    | Some vs => Some (VList vs)
    | None => None
    end
  | GRawApp n g' =>
    match gelem_gen false (univ_match g') (gbody g') (Some (1, n)) false body with
    | Some (Some v, _) => Some v
    | _ => None
    end
  end.

Definition gelem (g : gty) : option (Z * Z) -> bool -> bytes -> option (option value * bytes) :=
  gelem_gen (is_raw g) (univ_match g) (gbody g).

(* asn1.UnmarshalWithParams(b, &x, "application,explicit,tag:n") and asn1.Unmarshal(b, &x); the rest is dropped *)
Definition go_unmarshal_app (n : Z) (g : gty) (b : bytes) : option value :=
  match gelem g (Some (1, n)) false b with Some (Some v, _) => Some v | _ => None end.

Definition go_unmarshal (g : gty) (b : bytes) : option value :=
  match gelem g None false b with Some (Some v, _) => Some v | _ => None end.

(* ================= 2. the Go declarations ================= *)
Definition rq (n : Z) (g : gty) : gfield := (n, false, g).
Definition op (n : Z) (g : gty) : gfield := (n, true, g).

Definition g_PrincipalName : gty := GStruct [rq 0 (GInt 32); rq 1 (GSliceOf GStr)] [].           (* types.PrincipalName *)
Definition g_HostAddress : gty := GStruct [rq 0 (GInt 32); rq 1 GOctets] [].                     (* types.HostAddress *)
Definition g_PAData : gty := GStruct [rq 1 (GInt 32); rq 2 GOctets] [].                          (* types.PAData *)
Definition g_EncryptedData : gty := GStruct [rq 0 (GInt 32); op 1 (GInt 64); rq 2 GOctets] [].   (* types.EncryptedData *)
Definition g_EncryptionKey : gty := GStruct [rq 0 (GInt 32); rq 1 GOctets] [].                   (* types.EncryptionKey *)
Definition g_LastReq : gty := GStruct [rq 0 (GInt 32); rq 1 GTime] [].                           (* messages.LastReq *)
Definition g_Transited : gty := GStruct [rq 0 (GInt 32); rq 1 GOctets] [].                       (* messages.TransitedEncoding *)
Definition g_AuthzEntry : gty := GStruct [rq 0 (GInt 32); rq 1 GOctets] [].                      (* types.AuthorizationDataEntry *)
Definition g_EncTicketPart : gty :=                                                              (* messages.EncTicketPart *)
  GStruct [rq 0 GBits; rq 1 g_EncryptionKey; rq 2 GStr; rq 3 g_PrincipalName; rq 4 g_Transited; rq 5 GTime;
           op 6 GTime; rq 7 GTime; op 8 GTime; op 9 (GSliceOf g_HostAddress); op 10 (GSliceOf g_AuthzEntry)] [].
(* messages.Ticket: DecryptedEncPart EncTicketPart `asn1:"optional"` is declared after the four wire fields *)
Definition g_Ticket : gty :=
  GStruct [rq 0 (GInt 64); rq 1 GStr; rq 2 g_PrincipalName; rq 3 g_EncryptedData] [g_EncTicketPart].
(* messages.marshalKDCRep; Ticket is an asn1.RawValue handed to Ticket.Unmarshal (APPLICATION 1) *)
Definition g_KDCRep : gty :=
  GStruct [rq 0 (GInt 64); rq 1 (GInt 64); op 2 (GSliceOf g_PAData); rq 3 GStr; rq 4 g_PrincipalName;
           rq 5 (GRawApp 1 g_Ticket); rq 6 g_EncryptedData] [].
Definition g_EncKDCRepPart : gty :=                                                              (* messages.EncKDCRepPart *)
  GStruct [rq 0 g_EncryptionKey; rq 1 (GSliceOf g_LastReq); rq 2 (GInt 64); op 3 GTime; rq 4 GBits; rq 5 GTime;
           op 6 GTime; rq 7 GTime; op 8 GTime; rq 9 GStr; rq 10 g_PrincipalName; op 11 (GSliceOf g_HostAddress);
           op 12 (GSliceOf g_PAData)] [].
Definition g_ETypeInfo : gty := GSliceOf (GStruct [rq 0 (GInt 32); op 1 GOctets] []).            (* types.ETypeInfo *)
Definition g_ETypeInfo2 : gty := GSliceOf (GStruct [rq 0 (GInt 32); op 1 GStr; op 2 GOctets] []). (* types.ETypeInfo2 *)

(* ---- projections of decoded values to the records of KDCRep.v ---- *)
Definition v_bytes (v : value) : option bytes := match v with VBytes b => Some b | _ => None end.

Definition v_names (o : option value) : option (list bytes) :=
  match o with
  | Some (VSeq [Some (VInt _); Some (VList l)]) => map_opt v_bytes l
  | _ => None
  end.

Definition v_addr (v : value) : option (Z * bytes) :=
  match v with VSeq [Some (VInt t); Some (VBytes a)] => Some (t, a) | _ => None end.

Definition v_addrs (o : option value) : option (list (Z * bytes)) :=
  match o with
  | None => Some []
  | Some (VList l) => map_opt v_addr l
  | _ => None
  end.

Definition v_opt_time (o : option value) : option (option Z) :=
  match o with None => Some None | Some (VTime s) => Some (Some s) | _ => None end.

Definition project_enc (v : value) : option enc_rep :=
  match v with
  | VSeq [_; _; Some (VInt nonce); _; Some (VBits _ fl); Some (VTime auth); st; _; _; Some (VBytes srealm);
          sname; caddr; _] =>
    match v_names sname, v_addrs caddr, v_opt_time st with
    | Some sn, Some ca, Some st' => Some (mkEncRep nonce sn srealm ca auth st' fl)
    | _, _, _ => None
    end
  | _ => None
  end.

(* EncKDCRepPart.Unmarshal: APPLICATION 25, then APPLICATION 26, for either kind of reply *)
Definition dec_enc_der (pt : bytes) : option enc_rep :=
  match go_unmarshal_app 25 g_EncKDCRepPart pt with
  | Some v => project_enc v
  | None =>
    match go_unmarshal_app 26 g_EncKDCRepPart pt with
    | Some v => project_enc v
    | None => None
    end
  end.

(* the pre-authentication hints crypto.GetKeyFromPassword reads from the reply's padata.  An ETYPE-INFO /
   ETYPE-INFO2 value that does not decode makes GetKeyFromPassword fail at that element (unless a more
   specific hint was already seen); pa_step fails at exactly the same place on a hint that names the etype 0,
   which no table knows, so that is how an undecodable value is handed to the existing model. *)
Definition bad_etype : Z := 0.

Definition v_info_entry (v : value) : option (Z * bytes) :=
  match v with
  | VSeq [Some (VInt e); None] => Some (e, [])
  | VSeq [Some (VInt e); Some (VBytes s)] => Some (e, s)
  | _ => None
  end.

Definition v_info2_entry (v : value) : option (Z * bytes * option bytes) :=
  match v with
  | VSeq [Some (VInt e); s; p] =>
    match (match s with None => Some [] | Some (VBytes x) => Some x | _ => None end),
          (match p with None => Some None | Some (VBytes x) => Some (Some x) | _ => None end) with
    | Some s', Some p' => Some (e, s', p')
    | _, _ => None
    end
  | _ => None
  end.

Definition hint_of (t : Z) (val : bytes) : hint :=
  if t =? 3 then HSalt val
  else if t =? 11 then
    match go_unmarshal g_ETypeInfo val with
    | Some (VList es) => match map_opt v_info_entry es with Some l => HInfo l | None => HInfo [(bad_etype, [])] end
    | _ => HInfo [(bad_etype, [])]
    end
  else if t =? 19 then
    match go_unmarshal g_ETypeInfo2 val with
    | Some (VList es) => match map_opt v_info2_entry es with Some l => HInfo2 l | None => HInfo2 [(bad_etype, [], None)] end
    | _ => HInfo2 [(bad_etype, [], None)]
    end
  else HOther t.

Definition v_hint (v : value) : option hint :=
  match v with VSeq [Some (VInt t); Some (VBytes val)] => Some (hint_of t val) | _ => None end.

Definition v_hints (o : option value) : option (list hint) :=
  match o with
  | None => Some []
  | Some (VList l) => map_opt v_hint l
  | _ => None
  end.

(* the cleartext part of a decoded KDC-REP: what Verify and DecryptEncPart read *)
Definition v_int (o : option value) : option Z := match o with Some (VInt z) => Some z | _ => None end.
Definition v_obytes (o : option value) : option bytes := match o with Some (VBytes b) => Some b | _ => None end.

Definition v_tkt_realm (o : option value) : option bytes :=
  match o with
  | Some (VSeq [tv; r; _; _]) => match v_int tv, v_obytes r with Some _, Some r' => Some r' | _, _ => None end
  | _ => None
  end.

(* EncryptedData: (etype, kvno or 0, cipher) *)
Definition v_encdata (o : option value) : option (Z * Z * bytes) :=
  match o with
  | Some (VSeq [et; kv; c]) =>
    match v_int et, (match kv with None => Some 0 | Some _ => v_int kv end), v_obytes c with
    | Some e, Some k, Some c' => Some (e, k, c')
    | _, _, _ => None
    end
  | _ => None
  end.

Definition project_rep (v : value) : option kdc_rep :=
  match v with
  | VSeq [p; mt; pad; crealm; cname; tkt; encpart] =>
    match v_int p, v_int mt, v_hints pad, v_obytes crealm, v_names cname, v_tkt_realm tkt, v_encdata encpart with
    | Some _, Some _, Some hs, Some cr, Some cn, Some tr, Some (et, k, ci) => Some (mkRep cn cr tr et k ci hs)
    | _, _, _, _, _, _, _ => None
    end
  | _ => None
  end.

Definition v_msg_type (v : value) : option Z :=
  match v with VSeq (_ :: Some (VInt mt) :: _) => Some mt | _ => None end.

(* ASRep.Unmarshal / TGSRep.Unmarshal: the shadow struct under APPLICATION app, the msg-type test (pvno is not
   looked at), the ticket.  The msg-type of a KDC reply equals its APPLICATION tag number (msgtype.KRB_AS_REP =
   asnAppTag.ASREP = 11, msgtype.KRB_TGS_REP = asnAppTag.TGSREP = 13), hence one parameter.  Any failure -
   including the fall-back attempt of processUnmarshalReplyError to read the bytes as a KRB-ERROR - is an error
   return, i.e. no reply. *)
Definition parse_kdc_rep (app : Z) (w : bytes) : option kdc_rep :=
  match go_unmarshal_app app g_KDCRep w with
  | Some v =>
    match v_msg_type v with
    | Some mt => if mt =? app then project_rep v else None
    | None => None
    end
  | None => None
  end.

Definition parse_asrep : bytes -> option kdc_rep := parse_kdc_rep 11.
Definition parse_tgsrep : bytes -> option kdc_rep := parse_kdc_rep 13.

(* ================= 3. acceptance from the wire ================= *)
Definition asrep_verify_bytes (skew : Z) (c : creds) (rq : kdc_req) (wire : bytes) (t : Z) : res bool :=
  match parse_asrep wire with
  | Some rp => asrep_verify dec_enc_der skew c rq rp t
  | None => Ok false
  end.

Definition tgsrep_verify_bytes (skew : Z) (session_type : Z) (session_key : bytes) (rq : kdc_req) (wire : bytes)
           (t : Z) : res bool :=
  match parse_tgsrep wire with
  | Some rp => tgsrep_verify dec_enc_der skew session_type session_key rq rp t
  | None => Ok false
  end.

(* ---- jv ---- *)
(* ( skew creds req xWIRE now ) *)
Definition asrep_verify_bytes_j (j : jv) : jv :=
  match j with
  | JL [JI skew; c; rq; JB wire; JI t] =>
    match un_creds c, un_kdc_req rq with
    | Some c', Some rq' => j_resbool (asrep_verify_bytes skew c' rq' wire t)
    | _, _ => jbad end
  | _ => jbad end.

(* ( skew ( keytype key ) req xWIRE now ) *)
Definition tgsrep_verify_bytes_j (j : jv) : jv :=
  match j with
  | JL [JI skew; JL [JI kt; JB key]; rq; JB wire; JI t] =>
    match un_kdc_req rq with
    | Some rq' => j_resbool (tgsrep_verify_bytes skew kt key rq' wire t)
    | None => jbad end
  | _ => jbad end.

(* the decoders alone (correspondence of the parsing layer: what Unmarshal accepted and which fields it read) *)
Definition j_names (l : list bytes) : jv := JL (map JB l).
Definition j_addrs (l : list (Z * bytes)) : jv := JL (map (fun a => JL [JI (fst a); JB (snd a)]) l).

(* ( app xWIRE ) -> ( cname crealm ticket-realm etype kvno cipher ) *)
Definition parse_kdc_rep_j (j : jv) : jv :=
  match j with
  | JL [JI app; JB w] =>
    match parse_kdc_rep app w with
    | Some rp => jok [j_names (rp_cname rp); JB (rp_crealm rp); JB (rp_tkt_realm rp); JI (rp_etype rp);
                      JI (rp_kvno rp); JB (rp_cipher rp)]
    | None => jerr
    end
  | _ => jbad end.

(* xPLAINTEXT -> ( nonce sname srealm caddr authtime ( starttime? ) flags ) *)
Definition dec_enc_der_j (j : jv) : jv :=
  match j with
  | JB pt =>
    match dec_enc_der pt with
    | Some er => jok [JI (er_nonce er); j_names (er_sname er); JB (er_srealm er); j_addrs (er_caddr er);
                      JI (er_authtime er); JL (match er_start er with Some s => [JI s] | None => [] end);
                      JB (er_flags er)]
    | None => jerr
    end
  | _ => jbad end.
