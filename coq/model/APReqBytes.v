(* Gokrb5.model.APReqBytes — C01 in BYTES MODE: the service-side acceptance of an AP-REQ as it arrives on the wire.
   messages.APReq.Unmarshal (marshalAPReq, msg-type test, Ticket.Unmarshal of the RawValue contents), then
   service.VerifyAPREQ = model/APReq.v verify_apreq with the ASN.1 decoders of the two encrypted parts instantiated
   by EncTicketPart.Unmarshal / Authenticator.Unmarshal.  All decoding is model/GoASN1.v (what gofork asn1 accepts).

   What the real decoder does and this file therefore does too:
   - pvno, tkt-vno and authenticator-vno are decoded but never tested; only msg-type = 14 is;
   - the [3] wrapper of the ticket is a RawValue: its identifier is not examined, octets after the ticket inside it
     are dropped, as are octets after the AP-REQ and after any SEQUENCE's last field;
   - the Go Ticket struct ends with `DecryptedEncPart EncTicketPart "optional"`: a wire ticket may carry a plaintext
     EncTicketPart SEQUENCE after enc-part.  It is decoded (a malformed one makes Ticket.Unmarshal fail) and then
     IGNORED: Ticket.Decrypt stores a freshly decoded value, so nothing unsealed reaches the verdict.  The ticket
     record below has no component the trailer could flow into;
   - octets after the decrypted DER value of either encrypted part (zero padding, garbage) are dropped. *)
From Gokrb5.lib Require Import Bytes JV.
From Gokrb5.model Require Import Keytab Crypto Replay Schema DER GoASN1 APReq.

(* ---------- the Go structs ---------- *)
Definition greq (n : Z) (g : gty) : gfield := (Some n, false, g).
Definition gopt (n : Z) (g : gty) : gfield := (Some n, true, g).

Definition go_PrincipalName : gty := GStruct [greq 0 (GInt 4); greq 1 (GSlice GString)].
Definition go_EncryptedData : gty := GStruct [greq 0 (GInt 4); gopt 1 (GInt 8); greq 2 GBytes].
Definition go_EncryptionKey : gty := GStruct [greq 0 (GInt 4); greq 1 GBytes].
Definition go_Checksum : gty := GStruct [greq 0 (GInt 4); greq 1 GBytes].
Definition go_HostAddress : gty := GStruct [greq 0 (GInt 4); greq 1 GBytes].
Definition go_AuthorizationData : gty := GSlice (GStruct [greq 0 (GInt 4); greq 1 GBytes]).
Definition go_TransitedEncoding : gty := GStruct [greq 0 (GInt 4); greq 1 GBytes].

Definition go_EncTicketPart : gty :=
  GStruct [greq 0 GBits; greq 1 go_EncryptionKey; greq 2 GString; greq 3 go_PrincipalName;
           greq 4 go_TransitedEncoding; greq 5 GTime; gopt 6 GTime; greq 7 GTime; gopt 8 GTime;
           gopt 9 (GSlice go_HostAddress); gopt 10 go_AuthorizationData].

Definition go_Authenticator : gty :=
  GStruct [greq 0 (GInt 8); greq 1 GString; greq 2 go_PrincipalName; gopt 3 go_Checksum; greq 4 (GInt 8);
           greq 5 GTime; gopt 6 go_EncryptionKey; gopt 7 (GInt 8); gopt 8 go_AuthorizationData].

Definition go_Ticket_fields : list gfield :=
  [greq 0 (GInt 8); greq 1 GString; greq 2 go_PrincipalName; greq 3 go_EncryptedData].
Definition go_Ticket : gty := GStruct (go_Ticket_fields ++ [(None, true, go_EncTicketPart)]).

Definition go_marshalAPReq : gty :=
  GStruct [greq 0 (GInt 8); greq 1 (GInt 8); greq 2 GBits; greq 3 GRaw; greq 4 go_EncryptedData].

(* ---------- projections of decoded values ---------- *)
Definition obind {A B} (o : option A) (f : A -> option B) : option B := match o with Some a => f a | None => None end.
Notation "'olet' x <- o ; k" := (obind o (fun x => k)) (at level 200, x pattern, o at level 100, k at level 200).

(* field i of a struct value: None = not a struct / no such field; Some None = absent OPTIONAL *)
Definition fld (v : value) (i : nat) : option (option value) :=
  match v with VSeq fs => nth_error fs i | _ => None end.
Definition rfld (v : value) (i : nat) : option value :=
  match fld v i with Some (Some x) => Some x | _ => None end.

Definition v_int (v : value) : option Z := match v with VInt z => Some z | _ => None end.
Definition v_bytes (v : value) : option bytes := match v with VBytes b => Some b | _ => None end.
Definition v_time (v : value) : option Z := match v with VTime s => Some s | _ => None end.
Definition v_list (v : value) : option (list value) := match v with VList l => Some l | _ => None end.

(* PrincipalName.NameString *)
Definition p_names (v : value) : option (list bytes) :=
  olet l <- rfld v 1; olet l' <- v_list l; map_opt v_bytes l'.

(* EncryptedData: (etype, kvno (0 when absent), cipher) *)
Definition p_encdata (v : value) : option (Z * Z * bytes) :=
  olet et <- rfld v 0; olet et' <- v_int et;
  olet kv <- fld v 1;
  olet kv' <- (match kv with None => Some 0 | Some x => v_int x end);
  olet c <- rfld v 2; olet c' <- v_bytes c;
  Some (et', kv', c').

Definition p_hostaddr (v : value) : option (Z * bytes) :=
  olet t <- rfld v 0; olet t' <- v_int t; olet a <- rfld v 1; olet a' <- v_bytes a; Some (t', a').

Definition proj_enc_ticket (v : value) : option enc_ticket :=
  olet fl <- rfld v 0;
  olet flags <- (match fl with VBits _ b => Some b | _ => None end);
  olet key <- rfld v 1;
  olet kt <- rfld key 0; olet kt' <- v_int kt;
  olet kv <- rfld key 1; olet kv' <- v_bytes kv;
  olet cr <- rfld v 2; olet crealm <- v_bytes cr;
  olet cn <- rfld v 3; olet cname <- p_names cn;
  olet st <- fld v 6;
  olet start <- (match st with None => Some None | Some x => option_map Some (v_time x) end);
  olet en <- rfld v 7; olet endt <- v_time en;
  olet ca <- fld v 9;
  olet caddr <- (match ca with None => Some [] | Some x => olet l <- v_list x; map_opt p_hostaddr l end);
  Some (mkEncTicket flags kt' kv' crealm cname start endt caddr).

(* cusec is an unconstrained Go int on the wire (RFC: 0..999999, never tested); APReq.Verify and the replay cache
   add time.Duration(Cusec) * time.Microsecond to ctime, an int64 count of NANOseconds that wraps: the microseconds
   they actually see *)
Definition cusec_go (cu : Z) : Z := sint 64 (cu * 1000) / 1000.

Definition proj_authenticator (v : value) : option authenticator :=
  olet cr <- rfld v 1; olet crealm <- v_bytes cr;
  olet cn <- rfld v 2; olet cname <- p_names cn;
  olet cu <- rfld v 4; olet cusec <- v_int cu;
  olet ct <- rfld v 5; olet ctime <- v_time ct;
  Some (mkAuthenticator crealm cname ctime (cusec_go cusec)).

(* the cleartext part of a decoded Ticket; field 4 (the unsealed trailer) is not read *)
Definition proj_ticket (v : value) : option ticket :=
  olet r <- rfld v 1; olet realm <- v_bytes r;
  olet sn <- rfld v 2; olet sname <- p_names sn;
  olet ep <- rfld v 3; olet e <- p_encdata ep;
  let '(et, kvno, cipher) := e in
  Some (mkTicket realm sname et kvno cipher).

(* ---------- the decoders ---------- *)
(* EncTicketPart.Unmarshal: [APPLICATION 3] *)
Definition dec_ticket_der (pt : bytes) : option enc_ticket :=
  olet v <- unmarshal_app 3 go_EncTicketPart pt; proj_enc_ticket v.

(* Authenticator.Unmarshal: [APPLICATION 2] *)
Definition dec_auth_der (pt : bytes) : option authenticator :=
  olet v <- unmarshal_app 2 go_Authenticator pt; proj_authenticator v.

Definition msg_type_ap_req : Z := 14.

(* APReq.Unmarshal: [APPLICATION 14] marshalAPReq, msg-type, Ticket.Unmarshal ([APPLICATION 1]) of the RawValue *)
Definition parse_apreq (wire : bytes) : option (ticket * Z * bytes) :=
  olet m <- unmarshal_app 14 go_marshalAPReq wire;
  olet mt <- rfld m 1; olet mt' <- v_int mt;
  if negb (mt' =? msg_type_ap_req) then None else
  olet raw <- rfld m 3; olet tb <- v_bytes raw;
  olet tv <- unmarshal_app 1 go_Ticket tb;
  olet tk <- proj_ticket tv;
  olet ea <- rfld m 4; olet a <- p_encdata ea;
  let '(aet, _, ac) := a in
  Some (tk, aet, ac).

Definition reject_unparsable : Z := -1.

Definition verify_apreq_bytes (st : settings) (kt : list entry) (t : Z) (rc : list auth) (wire : bytes)
  : outcome * list auth :=
  match parse_apreq wire with
  | None => (Reject reject_unparsable, rc)
  | Some (tk, aet, ac) => verify_apreq dec_ticket_der dec_auth_der st kt t rc tk aet ac
  end.

(* input: ( settings keytab-entries now replay-cache xWIRE ) *)
Definition verify_apreq_bytes_j (j : jv) : jv :=
  match j with
  | JL [st; JL kt; JI t; rc; JB wire] =>
    match un_settings st, map_opt un_entry kt, un_rc rc with
    | Some st', Some kt', Some rc' => j_outcome (fst (verify_apreq_bytes st' kt' t rc' wire))
    | _, _, _ => jbad
    end
  | _ => jbad
  end.

(* decoders alone (used by the correspondence to localise a difference):
   ( i0 xPT ) EncTicketPart, ( i1 xPT ) Authenticator, ( i2 xWIRE ) AP-REQ *)
Definition j_names (l : list bytes) : jv := JL (map JB l).
Definition apreq_decode_j (j : jv) : jv :=
  match j with
  | JL [JI 0; JB pt] =>
    match dec_ticket_der pt with
    | Some et => jok [JB (et_flags et); JI (et_keytype et); JB (et_key et); JB (et_crealm et); j_names (et_cname et);
                      JL (match et_start et with Some s => [JI s] | None => [] end); JI (et_end et);
                      JL (map (fun a => JL [JI (fst a); JB (snd a)]) (et_caddr et))]
    | None => jerr
    end
  | JL [JI 1; JB pt] =>
    match dec_auth_der pt with
    | Some au => jok [JB (au_crealm au); j_names (au_cname au); JI (au_ctime au); JI (au_cusec au)]
    | None => jerr
    end
  | JL [JI 2; JB wire] =>
    match parse_apreq wire with
    | Some (tk, aet, ac) => jok [JB (tk_realm tk); j_names (tk_sname tk); JI (tk_etype tk); JI (tk_kvno tk);
                                 JB (tk_cipher tk); JI aet; JB ac]
    | None => jerr
    end
  | _ => jbad
  end.
